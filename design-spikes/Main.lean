import Hx.Basic
open Hx
def parseF (s : String) : Float := Float.ofBits (s.toNat!.toUInt64)
def step (line : String) : String :=
  match line.trimAscii.toString.splitOn " " with
  | "round" :: n :: x :: [] => toString (pyRound (parseF x) n.toNat!).toBits
  | "sum" :: xs => toString (pySumF (xs.map parseF)).toBits
  | "pow" :: a :: b :: [] => toString ((parseF a).pow (parseF b)).toBits
  | "sqrt" :: a :: [] => toString ((parseF a).sqrt).toBits
  | "div" :: a :: b :: [] => toString ((parseF a) / (parseF b)).toBits
  | "ofint" :: a :: [] => toString (Float.ofInt a.toInt!).toBits
  | _ => "bad"
partial def loop (h : IO.FS.Stream) : IO Unit := do
  let line ← h.getLine
  if line.isEmpty then return ()
  IO.println (step line)
  loop h
def main : IO Unit := do loop (← IO.getStdin)

import random, struct, subprocess, math, sys
def bits(x): return struct.unpack('<Q', struct.pack('<d', float(x)))[0]
r = random.Random(7)
lines=[]; exp=[]
def rf():
    k=r.random()
    if k<0.3: return r.uniform(-1e5,1e5)
    if k<0.5: return round(r.uniform(0,2e4), r.randint(0,6)) + r.choice([0,5e-5,0.00005,0.5e-4,1e-9])
    if k<0.6: return r.randint(-10**6,10**6)/ (10**r.randint(0,6)) 
    if k<0.7: return (r.randint(0,10**7)*2+1)/2/10**r.randint(1,6)   # near ties
    if k<0.8: return r.uniform(-1,1)*10**r.randint(-12,12)
    if k<0.9: return r.uniform(0,1)
    return float(r.randint(-1000,1000))
for i in range(200000):
    x=rf(); n=r.choice([4,4,4,2,0,8,1,6])
    lines.append(f"round {n} {bits(x)}"); exp.append(bits(round(x,n)))
for i in range(50000):
    k=r.randint(1,30); xs=[rf() for _ in range(k)]
    lines.append("sum "+" ".join(str(bits(x)) for x in xs)); exp.append(bits(sum(xs)))
for i in range(50000):
    a=1-1/r.randint(2,200); b=r.randint(0,300)
    lines.append(f"pow {bits(a)} {bits(float(b))}"); exp.append(bits(a**b))
for i in range(50000):
    a=abs(rf())
    lines.append(f"sqrt {bits(a)}"); exp.append(bits(math.sqrt(a)))
for i in range(50000):
    a=r.randint(-10**9,10**9); 
    lines.append(f"ofint {a}"); exp.append(bits(float(a)))
p=subprocess.run([sys.argv[1]], input="\n".join(lines)+"\n", capture_output=True, text=True)
out=p.stdout.split("\n")[:-1]
assert len(out)==len(exp),(len(out),len(exp),p.stderr[:300])
bad=[(l,e,o) for l,e,o in zip(lines,exp,out) if str(e)!=o]
print("total",len(exp),"mismatch",len(bad))
for b in bad[:10]: print(b)

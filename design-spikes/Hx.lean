import Hx.Basic
import Hx.Model
import Hx.Proof
import Hx.Collapse
import Hx.Tree
import Hx.Num
import Hx.Framework

namespace Hx

/-- arithmetic interface: Float for execution, any type for structural proofs -/
class PyF (F : Type) where
  add : F → F → F
  sub : F → F → F
  mul : F → F → F
  div : F → F → F          -- caller checks zero
  isZero : F → Bool
  ofInt : Int → F
  lt : F → F → Bool
  round : Nat → F → F

inductive PyErr | typeError | zeroDiv | indexError | valueError | other
  deriving DecidableEq, Repr

inductive Num (F : Type) | int (i : Int) | flt (x : F)
inductive Val (F : Type) | none | num (n : Num F)

variable {F : Type} [PyF F]

def Num.toF : Num F → F
  | .int i => PyF.ofInt i
  | .flt x => x

def Num.sub : Num F → Num F → Num F
  | .int a, .int b => .int (a - b)
  | a, b => .flt (PyF.sub a.toF b.toF)
def Num.add : Num F → Num F → Num F
  | .int a, .int b => .int (a + b)
  | a, b => .flt (PyF.add a.toF b.toF)
def Num.isZero : Num F → Bool
  | .int a => a == 0
  | .flt x => PyF.isZero x
def Num.truediv (a b : Num F) : Except PyErr (Num F) :=
  if b.isZero then .error .zeroDiv else .ok (.flt (PyF.div a.toF b.toF))

def Val.asNum : Val F → Except PyErr (Num F)
  | .none => .error .typeError
  | .num n => .ok n

structure Candle (F : Type) where
  close : Num F
  inds : List (String × Val F)

def lookup (k : String) : List (String × Val F) → Option (Val F)
  | [] => Option.none
  | (k', v) :: r => if k' == k then some v else lookup k r

/-- reading_by_candle: field, then indicators; missing = None -/
def readingByCandle (c : Candle F) (name : String) : Val F :=
  if name == "close" then .num c.close else
  match lookup name c.inds with
  | some v => v
  | Option.none => .none

def validIndex (idx : Int) (len : Nat) : Bool := decide (idx < len) && decide (-(len : Int) ≤ idx)

/-- Python list indexing with negative wrap -/
def pyGet (cs : List (Candle F)) (idx : Int) : Except PyErr (Candle F) :=
  if validIndex idx cs.length then
    let j : Nat := if idx < 0 then (cs.length + idx).toNat else idx.toNat
    match cs[j]? with
    | some c => .ok c
    | Option.none => .error .indexError
  else .error .indexError

/-- Indicator.reading(name, index) = reading_by_candle(self.candles[index], name) -/
def reading (cs : List (Candle F)) (name : String) (idx : Int) : Except PyErr (Val F) := do
  let c ← pyGet cs idx
  return readingByCandle c name

/-- utils.reading_by_index: None when index invalid -/
def readingByIndex (cs : List (Candle F)) (name : String) (idx : Int) : Val F :=
  if validIndex idx cs.length then
    match pyGet cs idx with
    | .ok c => readingByCandle c name
    | .error _ => .none
  else .none

def Val.isNone : Val F → Bool | .none => true | _ => false

/-- utils.reading_period(candles, period, name, index) -/
def readingPeriod (cs : List (Candle F)) (period : Nat) (name : String) (idx : Int) : Bool :=
  let p : Int := (period : Int) - 1
  if !validIndex idx cs.length then false else
  if idx - p < 0 then false else
  !(readingByIndex cs name (idx - p)).isNone &&
  !(readingByIndex cs name (idx - p / 2)).isNone &&     -- int(period/2): p ≥ 0 so floor = trunc
  !(readingByIndex cs name idx).isNone

def prevReading (cs : List (Candle F)) (name : String) (active : Int) : Except PyErr (Val F) :=
  if cs.length == 0 || active == 0 then .ok .none else reading cs name (active - 1)

/-- candles_sum(candles, name, length, index) with active index ≥ 0 path -/
def sliceSum (cs : List (Candle F)) (name : String) (lo hi : Nat) : Num F :=
  ((cs.drop lo).take (hi - lo)).foldl (fun acc c =>
    match readingByCandle c name with
    | .none => acc
    | .num n => acc.add n) (.int 0)

def candlesSum (cs : List (Candle F)) (name : String) (length : Nat) (idx : Int) : Except PyErr (Val F) :=
  if !validIndex idx cs.length then .ok .none else
  let i : Int := if idx < 0 then cs.length + idx else idx
  if i == 0 then .ok .none else
  let i1 := i + 1
  let l : Int := if length > cs.length then cs.length else length
  -- python slice [i1-l : i1]; i1 - l ≥ 0 here when l ≤ i1, else negative start wraps (kept faithful)
  let lo : Int := i1 - l
  let loN : Nat := if lo < 0 then (if (cs.length : Int) + lo < 0 then 0 else ((cs.length : Int) + lo).toNat) else lo.toNat
  .ok (.num (sliceSum cs name loN i1.toNat))

structure SMA where
  period : Nat
  input : String
  name : String

/-- SMA._calculate_reading(index) with _active_index = index -/
def SMA.calc (s : SMA) (cs : List (Candle F)) (index : Int) : Except PyErr (Val F) := do
  let prev ← prevReading cs s.name index
  if !prev.isNone then
    let pv ← prev.asNum
    let old ← (← reading cs s.input (index - s.period)).asNum
    let cur ← (← reading cs s.input index).asNum
    let q ← (old.sub cur).truediv (.int s.period)
    return .num (pv.sub q)
  if readingPeriod cs s.period s.input index then
    let sm ← (← candlesSum cs s.input s.period index).asNum
    return .num (← sm.truediv (.int s.period))
  return .none

end Hx

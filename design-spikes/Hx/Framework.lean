/-
Spike: the resume logic of `Indicator.calculate` refines the row-major spec, for an abstract
per-index step satisfying a small contract. No Mathlib.
-/
namespace Fw

variable {C : Type}

/-- what the framework needs to know about one indicator (tree) -/
structure Step (C : Type) where
  has  : C → Bool                       -- the indicator's key is present on the candle
  step : List C → Nat → C               -- candle i after computing the reading at i (writes only at i)
  has_step : ∀ cs i, has (step cs i) = true
  /-- locality: only the prefix up to and including i matters -/
  local_ : ∀ cs i, i < cs.length → step cs i = step (cs.take (i+1)) i

/-- for i in range(k, len): cs[i] = step cs i -/
def calcFrom (S : Step C) (cs : List C) : Nat → Nat → List C
  | _, 0 => cs
  | k, fuel+1 => if k < cs.length then calcFrom S (cs.set k (S.step cs k)) (k+1) fuel else cs

/-- `_find_calc_index`, as written: looks at candle 0, then scans from the end down to index 1 -/
def scanBack (S : Step C) (cs : List C) : Nat → Nat
  | 0 => 0
  | j+1 => match cs[j+1]? with
    | some c => if S.has c then j + 2 else scanBack S cs j
    | none => scanBack S cs j

def findCalcIndex (S : Step C) (cs : List C) : Nat :=
  match cs with
  | [] => 0
  | c0 :: _ => if !S.has c0 then 0 else scanBack S cs (cs.length - 1)

def calculate (S : Step C) (cs : List C) : List C :=
  calcFrom S cs (findCalcIndex S cs) cs.length

/-- row-major spec: extend the finished prefix one raw candle at a time -/
def specRun (S : Step C) (done : List C) : List C → List C
  | [] => done
  | c :: rest => specRun S (done ++ [S.step (done ++ [c]) done.length]) rest

/-- the loop from k over `done ++ fresh` (done has length k) produces the spec -/
theorem calcFrom_spec (S : Step C) (done fresh : List C) (fuel : Nat) (hf : fresh.length ≤ fuel) :
    calcFrom S (done ++ fresh) done.length fuel = specRun S done fresh := by
  induction fresh generalizing done fuel with
  | nil =>
    cases fuel with
    | zero => simp [calcFrom, specRun]
    | succ f => simp [calcFrom, specRun]
  | cons c rest ih =>
    cases fuel with
    | zero => simp at hf
    | succ f =>
      have hlt : done.length < (done ++ c :: rest).length := by simp
      simp only [calcFrom, hlt, if_true, specRun]
      have hloc := S.local_ (done ++ c :: rest) done.length hlt
      have htake : (done ++ c :: rest).take (done.length + 1) = done ++ [c] := by
        rw [List.take_append]
        have h1 : done.take (done.length + 1) = done := List.take_of_length_le (by omega)
        simp [h1]
      rw [hloc, htake]
      have hset : (done ++ c :: rest).set done.length (S.step (done ++ [c]) done.length)
          = (done ++ [S.step (done ++ [c]) done.length]) ++ rest := by
        simp [List.set_append]
      rw [hset]
      have := ih (done ++ [S.step (done ++ [c]) done.length]) f (by simp at hf ⊢; omega)
      simpa using this

/-- every candle of `done` holds the key, none of `fresh` does -/
def Split (S : Step C) (done fresh : List C) : Prop :=
  (∀ c ∈ done, S.has c = true) ∧ (∀ c ∈ fresh, S.has c = false)

theorem scanBack_split (S : Step C) (done fresh : List C) (h : Split S done fresh)
    (hd : 2 ≤ done.length) (j : Nat) (hj : done.length - 1 ≤ j) (hj2 : j < (done ++ fresh).length) :
    scanBack S (done ++ fresh) j = done.length := by
  induction j with
  | zero => omega
  | succ j ih =>
    unfold scanBack
    have hget : (done ++ fresh)[j+1]? = some ((done ++ fresh)[j+1]'hj2) := List.getElem?_eq_getElem hj2
    rw [hget]
    by_cases hin : j + 1 < done.length
    · -- inside done: key present, and it must be the last of done
      have hlast : j + 1 = done.length - 1 := by omega
      have hc : S.has ((done ++ fresh)[j+1]'hj2) = true := by
        rw [List.getElem_append_left hin]; exact h.1 _ (List.getElem_mem _)
      simp only [hc, if_true]; omega
    · have hge : done.length ≤ j + 1 := by omega
      have hc : S.has ((done ++ fresh)[j+1]'hj2) = false := by
        rw [List.getElem_append_right hge]; exact h.2 _ (List.getElem_mem _)
      simp only [hc, Bool.false_eq_true, if_false]
      exact ih (by omega) (by omega)


/-- recomputing an index that already holds its reading reproduces it (needed because
`_find_calc_index` never inspects candle 0 in its scan and restarts from 0 when only candle 0
is done) -/
def Stable (S : Step C) (done : List C) : Prop :=
  ∀ i (h : i < done.length), S.step done i = done[i]

theorem scanBack_none (S : Step C) (cs : List C) (j : Nat)
    (h : ∀ k, 1 ≤ k → k ≤ j → ∀ c, cs[k]? = some c → S.has c = false) : scanBack S cs j = 0 := by
  induction j with
  | zero => rfl
  | succ j ih =>
    unfold scanBack
    cases hc : cs[j+1]? with
    | none => simp only; exact ih (fun k h1 h2 => h k h1 (by omega))
    | some c =>
      have := h (j+1) (by omega) (by omega) c hc
      simp only [this, Bool.false_eq_true, if_false]
      exact ih (fun k h1 h2 => h k h1 (by omega))

/-- `calculate` on a list whose finished prefix is `done` resumes correctly -/
theorem calculate_spec (S : Step C) (done fresh : List C) (h : Split S done fresh)
    (hst : Stable S done) :
    calculate S (done ++ fresh) = specRun S done fresh := by
  unfold calculate
  match done, h, hst with
  | [], h, _ =>
    have : findCalcIndex S ([] ++ fresh) = 0 := by
      cases fresh with
      | nil => rfl
      | cons c r => simp [findCalcIndex, h.2 c (by simp)]
    rw [this]
    exact calcFrom_spec S [] fresh _ (by simp)
  | [d0], h, hst =>
    -- only candle 0 is done: the scan finds nothing and index 0 is recomputed
    have hd0 : S.has d0 = true := h.1 d0 (by simp)
    have hscan : scanBack S ([d0] ++ fresh) (([d0] ++ fresh).length - 1) = 0 := by
      apply scanBack_none
      intro k h1 _ c hc
      have : ([d0] ++ fresh)[k]? = fresh[k-1]? := by
        cases k with
        | zero => omega
        | succ k => simp
      rw [this] at hc
      exact h.2 c (List.mem_of_getElem? hc)
    have hidx : findCalcIndex S ([d0] ++ fresh) = 0 := by
      simp only [findCalcIndex, List.singleton_append, hd0, Bool.not_true, Bool.false_eq_true, if_false]
      simpa using hscan
    rw [hidx]
    -- first iteration rewrites candle 0 with the same value, then we are in the generic loop
    have hre : S.step ([d0] ++ fresh) 0 = d0 := by
      rw [S.local_ _ 0 (by simp)]
      simpa using hst 0 (by simp)
    have hlen : ([d0] ++ fresh).length = fresh.length + 1 := by simp [Nat.add_comm]
    rw [hlen]
    show calcFrom S ([d0] ++ fresh) 0 (fresh.length + 1) = _
    unfold calcFrom
    have : 0 < ([d0] ++ fresh).length := by simp
    simp only [this, if_true, hre]
    have hset : ([d0] ++ fresh).set 0 d0 = [d0] ++ fresh := by simp
    rw [hset]
    exact calcFrom_spec S [d0] fresh _ (Nat.le_refl _)
  | d0 :: d1 :: dr, h, _ =>
    have hd0 : S.has d0 = true := h.1 d0 (by simp)
    have hscan := scanBack_split S (d0 :: d1 :: dr) fresh h (by simp)
      (((d0 :: d1 :: dr) ++ fresh).length - 1) (by simp) (by simp)
    have hidx : findCalcIndex S ((d0 :: d1 :: dr) ++ fresh) = (d0 :: d1 :: dr).length := by
      simp only [findCalcIndex, List.cons_append, hd0, Bool.not_true, Bool.false_eq_true, if_false]
      simpa using hscan
    rw [hidx]
    exact calcFrom_spec S (d0 :: d1 :: dr) fresh _ (by simp; omega)

end Fw
#print axioms Fw.calculate_spec

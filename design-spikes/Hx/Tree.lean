namespace Tr

inductive Kind | sma (p : Nat) | managed | stoch (p k d : Nat)
  deriving Repr

inductive Ind where
  | mk (kind : Kind) (name : String) (isSub prior : Bool) (subs : List Ind) (managed : List (String × Ind))
  deriving Repr

def Ind.name : Ind → String | .mk _ n _ _ _ _ => n
def Ind.kind : Ind → Kind | .mk k _ _ _ _ _ => k
def Ind.subs : Ind → List Ind | .mk _ _ _ _ s _ => s
def Ind.managed : Ind → List (String × Ind) | .mk _ _ _ _ _ m => m
def Ind.prior : Ind → Bool | .mk _ _ _ p _ _ => p

abbrev St := List (List (String × Int))      -- per candle: key → value (toy)
abbrev M := Except String

def setAt (st : St) (i : Nat) (k : String) (v : Int) : St :=
  st.mapIdx fun j c => if j == i then (k, v) :: c.filter (·.1 != k) else c

mutual
  /-- Indicator.calculate_index(i, i+1) -/
  def calcIndex : Nat → Ind → St → Nat → M St
    | 0, _, _, _ => .error "fuel"
    | f+1, ind, st, i => do
      let st ← (ind.subs.filter (·.prior)).foldlM (fun st s => calcIndex f s st i) st
      let (v, st) ← calcReading f ind st i
      let st := setAt st i ind.name v
      (ind.subs.filter (! ·.prior)).foldlM (fun st s => calcIndex f s st i) st
  /-- _calculate_reading: may write managed helpers -/
  def calcReading : Nat → Ind → St → Nat → M (Int × St)
    | 0, _, _, _ => .error "fuel"
    | f+1, ind, st, i =>
      match ind.kind with
      | .sma p => .ok ((p : Int) + i, st)
      | .managed => .ok (0, st)
      | .stoch p _ _ =>
        match ind.managed.lookup "data" with
        | some d => do
          let st ← setReading f d st i ((p : Int) * 100)
          .ok (7, st)
        | none => .error "KeyError"
  /-- Managed.set_reading -/
  def setReading : Nat → Ind → St → Nat → Int → M St
    | 0, _, _, _, _ => .error "fuel"
    | f+1, ind, st, i, v => do
      let st := setAt st i ind.name v
      (ind.subs.filter (! ·.prior)).foldlM (fun st s => calcIndex f s st i) st
end

def demo : Ind :=
  .mk (.stoch 14 3 3) "STOCH_14" false true []
    [("data", .mk .managed "STOCH_14_data" true true [.mk (.sma 3) "STOCH_14_k" true false [] []] [])]

#eval calcIndex 5 demo [[], [], []] 1
end Tr

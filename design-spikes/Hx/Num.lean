import Mathlib.Algebra.Order.Field.Basic
import Mathlib.Tactic.Linarith
import Mathlib.Tactic.FieldSimp
import Mathlib.Tactic.Ring
import Mathlib.Algebra.BigOperators.Group.Finset.Basic
import Mathlib.Algebra.Order.BigOperators.Group.Finset

variable {K : Type} [Field K] [LinearOrder K] [IsStrictOrderedRing K]

/-- EMA recurrence keeps the value inside [lo, hi] when input and previous are -/
theorem ema_step_bounds (a x r lo hi : K) (ha0 : 0 ≤ a) (ha1 : a ≤ 1)
    (hx : lo ≤ x ∧ x ≤ hi) (hr : lo ≤ r ∧ r ≤ hi) :
    lo ≤ a * x + r * (1 - a) ∧ a * x + r * (1 - a) ≤ hi := by
  constructor <;> nlinarith [mul_nonneg ha0 (sub_nonneg.2 hx.1), mul_nonneg ha0 (sub_nonneg.2 hx.2),
    mul_nonneg (sub_nonneg.2 ha1) (sub_nonneg.2 hr.1), mul_nonneg (sub_nonneg.2 ha1) (sub_nonneg.2 hr.2)]

/-- SMA running update equals the window mean (exact arithmetic) -/
theorem sma_running (p : K) (hp : p ≠ 0) (S old new : K) :
    S / p - (old - new) / p = (S - old + new) / p := by
  field_simp; ring

#print axioms ema_step_bounds

import Mathlib.Tactic.Linarith
import Mathlib.Tactic.Ring
import Mathlib.Tactic.SplitIfs
namespace C2

class CandleLike (C : Type) where
  ts : C → Int
  setTs : C → Int → C
  merge : C → C → C
  ts_setTs : ∀ c t, ts (setTs c t) = t
  ts_merge : ∀ a b, ts (merge a b) = ts a
open CandleLike
variable {C : Type} [CandleLike C]

def floorTo (tf t : Int) : Int := t / tf * tf
def label (tf t : Int) : Int := if t % tf = 0 then t else t / tf * tf + tf

/-- spec step on the reversed output (head = newest bucket) -/
def specStep (tf : Int) (rout : List C) (c : C) : List C :=
  match rout with
  | l :: r => if ts l = label tf (ts c) then merge l c :: r else setTs c (label tf (ts c)) :: rout
  | [] => [setTs c (label tf (ts c))]
def specR (tf : Int) (xs : List C) : List C := xs.foldl (specStep tf) []

/-- one iteration of collapse_candles' while-loop; none = InvalidCandleOrder -/
def step (tf : Int) (st : Int × Int × List C) (c : C) : Option (Int × Int × List C) :=
  match st with
  | (_, _, []) => none
  | (start, end_, prev :: r) =>
    let t := ts c
    let next := end_ + tf
    if start < t ∧ t ≤ end_ ∧ ts prev = end_ then some (start, end_, merge prev c :: r)
    else if start < t ∧ t ≤ end_ then some (start, end_, setTs c end_ :: prev :: r)
    else if start - tf < t ∧ t ≤ start ∧ ts prev = start then some (start, end_, merge prev c :: r)
    else if end_ < t ∧ t ≤ next then some (start + tf, end_ + tf, setTs c next :: prev :: r)
    else if start < t ∧ t % tf = 0 then some (floorTo tf t, floorTo tf t + tf, setTs c (floorTo tf t) :: prev :: r)
    else if next < t then some (floorTo tf t, floorTo tf t + tf, setTs c (floorTo tf t + tf) :: prev :: r)
    else none

theorem aligned_decomp (tf e : Int) (he : e % tf = 0) : ∃ k, e = k * tf :=
  ⟨e / tf, by have := Int.emod_add_mul_ediv e tf; rw [he] at this; linarith [Int.mul_comm tf (e / tf)]⟩

theorem label_eq_iff (tf t e : Int) (htf : 0 < tf) (he : e % tf = 0) :
    label tf t = e ↔ (e - tf < t ∧ t ≤ e) := by
  obtain ⟨k, rfl⟩ := aligned_decomp tf e he
  have hr0 := Int.emod_nonneg t (Int.ne_of_gt htf)
  have hr1 := Int.emod_lt_of_pos t htf
  have hdecomp := Int.emod_add_mul_ediv t tf
  unfold label
  by_cases hz : t % tf = 0
  · simp only [hz, if_true]
    constructor
    · intro h; subst h; constructor <;> linarith
    · rintro ⟨h1, h2⟩
      have ht : t = tf * (t / tf) := by linarith
      have a1 : (k - 1) * tf < (t / tf) * tf := by nlinarith
      have a2 : (t / tf) * tf ≤ k * tf := by nlinarith
      have b1 : k - 1 < t / tf := lt_of_mul_lt_mul_right a1 (le_of_lt htf)
      have b2 : t / tf ≤ k := le_of_mul_le_mul_right a2 htf
      have : t / tf = k := by omega
      rw [ht, this]; ring
  · simp only [hz, if_false]
    have hrpos : 0 < t % tf := lt_of_le_of_ne hr0 (Ne.symm hz)
    constructor
    · intro h; constructor <;> nlinarith
    · rintro ⟨h1, h2⟩
      have a1 : (k - 1) * tf < (t / tf + 1) * tf := by nlinarith
      have a2 : (t / tf) * tf < k * tf := by nlinarith
      have b1 : k - 1 < t / tf + 1 := lt_of_mul_lt_mul_right a1 (le_of_lt htf)
      have b2 : t / tf < k := lt_of_mul_lt_mul_right a2 (le_of_lt htf)
      have : t / tf = k - 1 := by omega
      rw [this]; ring

theorem label_aligned (tf t : Int) (htf : 0 < tf) : label tf t % tf = 0 := by
  unfold label
  by_cases hz : t % tf = 0
  · simp [hz]
  · simp only [hz, if_false]
    have : t / tf * tf + tf = (t / tf + 1) * tf := by ring
    rw [this]; exact Int.mul_emod_left _ _

theorem floorTo_aligned (tf t : Int) : floorTo tf t % tf = 0 := Int.mul_emod_left _ _

theorem label_on (tf t : Int) (h : t % tf = 0) : label tf t = t ∧ floorTo tf t = t := by
  have := Int.emod_add_mul_ediv t tf
  unfold label floorTo; simp only [h, if_true, true_and]; rw [h] at this; linarith [Int.mul_comm tf (t / tf)]

theorem label_off (tf t : Int) (h : ¬ t % tf = 0) : label tf t = floorTo tf t + tf := by
  unfold label floorTo; simp [h]

theorem aligned_gap (tf a b : Int) (htf : 0 < tf) (ha : a % tf = 0) (hb : b % tf = 0) (h : a < b + tf) : a ≤ b := by
  obtain ⟨x, rfl⟩ := aligned_decomp tf a ha
  obtain ⟨y, rfl⟩ := aligned_decomp tf b hb
  have : x * tf < (y + 1) * tf := by linarith [add_mul y 1 tf]
  have : x < y + 1 := lt_of_mul_lt_mul_right this (le_of_lt htf)
  have : x ≤ y := by omega
  exact Int.mul_le_mul_of_nonneg_right this (le_of_lt htf)

theorem label_bounds (tf t : Int) (htf : 0 < tf) : label tf t - tf < t ∧ t ≤ label tf t :=
  (label_eq_iff tf t (label tf t) htf (label_aligned tf t htf)).1 rfl

theorem label_le (tf t e : Int) (htf : 0 < tf) (he : e % tf = 0) (h : t ≤ e) : label tf t ≤ e :=
  aligned_gap tf _ _ htf (label_aligned tf t htf) he (by have := (label_bounds tf t htf).1; linarith)

theorem add_tf_aligned (tf e : Int) (he : e % tf = 0) : (e + tf) % tf = 0 := by
  simp [Int.add_emod, he]

structure Inv (tf : Int) (st : Int × Int × List C) (P : List C) : Prop where
  tfpos : 0 < tf
  al : st.1 % tf = 0
  en : st.2.1 = st.1 + tf
  out : st.2.2 = specR tf P
  last : ∃ prev r, st.2.2 = prev :: r ∧ (ts prev = st.1 ∨ ts prev = st.2.1)

theorem specR_snoc (tf : Int) (P : List C) (c : C) : specR tf (P ++ [c]) = specStep tf (specR tf P) c := by
  simp [specR, List.foldl_append]

/-- the loop body preserves the invariant and agrees with the spec, whenever labels do not decrease -/
theorem step_ok (tf : Int) (st : Int × Int × List C) (P : List C) (c : C)
    (hI : Inv tf st P)
    (hmono : ∀ prev r, st.2.2 = prev :: r → ts prev ≤ label tf (ts c)) :
    ∃ st', step tf st c = some st' ∧ Inv tf st' (P ++ [c]) := by
  obtain ⟨start, end_, rout⟩ := st
  obtain ⟨htf, hal, hen, hout, prev, r, hr, hlast⟩ := hI
  simp only at hal hen hout hr hlast
  subst hr
  have hm := hmono prev r rfl
  have hLal := label_aligned tf (ts c) htf
  have hend_al : end_ % tf = 0 := by rw [hen]; exact add_tf_aligned tf start hal
  -- characterise where t sits via its label L
  have hS := label_eq_iff tf (ts c) start htf hal
  have hE := label_eq_iff tf (ts c) end_ htf hend_al
  have hN := label_eq_iff tf (ts c) (end_ + tf) htf (add_tf_aligned tf end_ hend_al)
  have hspec := specR_snoc tf P c
  rw [← hout] at hspec
  have hb := label_bounds tf (ts c) htf
  unfold step
  simp only
  split_ifs with h1 h2 h3 h4 h5 h6
  · -- merge into the bucket labelled end_
    have hL : label tf (ts c) = end_ := hE.2 ⟨by linarith [h1.1], h1.2.1⟩
    refine ⟨_, rfl, ⟨htf, hal, hen, ?_, _, _, rfl, Or.inr (by simp [ts_merge, h1.2.2])⟩⟩
    simp only [hspec, specStep, hL, h1.2.2, if_true]
  · -- new bucket labelled end_ (prev is labelled start)
    have hL : label tf (ts c) = end_ := hE.2 ⟨by linarith [h2.1], h2.2⟩
    have hp : ts prev = start := by
      rcases hlast with h | h
      · exact h
      · exact absurd ⟨h2.1, h2.2, h⟩ h1
    have hne : ¬ ts prev = label tf (ts c) := by rw [hL, hp]; linarith
    refine ⟨_, rfl, ⟨htf, hal, hen, ?_, _, _, rfl, Or.inr (by simp [ts_setTs])⟩⟩
    rw [hspec]; simp only [specStep]; rw [if_neg hne, hL]
  · -- merge into the bucket labelled start
    have hL : label tf (ts c) = start := hS.2 ⟨h3.1, h3.2.1⟩
    refine ⟨_, rfl, ⟨htf, hal, hen, ?_, _, _, rfl, Or.inl (by simp [ts_merge, h3.2.2])⟩⟩
    simp only [hspec, specStep, hL, h3.2.2, if_true]
  · -- next bucket
    have hL : label tf (ts c) = end_ + tf := hN.2 ⟨by linarith [h4.1], h4.2⟩
    have hne : ¬ ts prev = label tf (ts c) := by
      rw [hL]; rcases hlast with h | h <;> rw [h] <;> linarith
    refine ⟨_, rfl, ⟨htf, add_tf_aligned tf start hal, by simp only; linarith, ?_, _, _, rfl, Or.inr (by simp [ts_setTs])⟩⟩
    rw [hspec]; simp only [specStep]; rw [if_neg hne, hL]
  · -- jump, candle exactly on a boundary
    obtain ⟨hL, hF⟩ := label_on tf (ts c) h5.2
    have hgt : end_ < ts c := by
      by_contra hc
      exact h2 ⟨h5.1, by linarith⟩
    have hne : ¬ ts prev = label tf (ts c) := by
      rw [hL]; rcases hlast with h | h <;> rw [h] <;> linarith [h5.1]
    refine ⟨_, rfl, ⟨htf, floorTo_aligned tf _, rfl, ?_, _, _, rfl, Or.inl (by simp [ts_setTs])⟩⟩
    rw [hspec]; simp only [specStep]; rw [if_neg hne, hL, hF]
  · -- jump, candle inside a later bucket
    have hoff : ¬ ts c % tf = 0 := fun hz => h5 ⟨by linarith, hz⟩
    have hL := label_off tf (ts c) hoff
    have hne : ¬ ts prev = label tf (ts c) := by
      have := hb.2
      rcases hlast with h | h <;> rw [h] <;> intro hc <;> linarith
    refine ⟨_, rfl, ⟨htf, floorTo_aligned tf _, rfl, ?_, _, _, rfl, Or.inr (by simp [ts_setTs])⟩⟩
    rw [hspec]; simp only [specStep]; rw [if_neg hne, hL]
  · -- fall-through (InvalidCandleOrder) is unreachable when labels do not decrease
    exfalso
    have t1 : ts c ≤ end_ + tf := not_lt.1 h6
    have t2 : ts c ≤ end_ := by
      by_contra hc; exact h4 ⟨not_le.1 hc, t1⟩
    have t3 : ts c ≤ start := by
      by_contra hc; exact h2 ⟨not_le.1 hc, t2⟩
    have hLle := label_le tf (ts c) start htf hal t3
    rcases hlast with h | h
    · have hL : label tf (ts c) = start := le_antisymm hLle (by rw [← h]; exact hm)
      exact h3 ⟨(hS.1 hL).1, (hS.1 hL).2, h⟩
    · rw [h] at hm; linarith

end C2
#print axioms C2.step_ok

import Hx.Model
namespace Hx
variable {F : Type} [PyF F]

theorem validIndex_iff (idx : Int) (len : Nat) : validIndex idx len = true ↔ (idx < len ∧ -(len:Int) ≤ idx) := by
  simp [validIndex]

/-- indices 0..i of a list longer than i are untouched by truncation after i -/
theorem pyGet_take (cs : List (Candle F)) (i : Nat) (j : Int) (hi : i < cs.length)
    (h0 : 0 ≤ j) (hj : j ≤ i) : pyGet (cs.take (i+1)) j = pyGet cs j := by
  have hl : (cs.take (i+1)).length = i + 1 := by simp; omega
  unfold pyGet
  have v1 : validIndex j (cs.take (i+1)).length = true := by rw [validIndex_iff, hl]; omega
  have v2 : validIndex j cs.length = true := by rw [validIndex_iff]; omega
  rw [v1, v2]
  have hneg : ¬ j < 0 := by omega
  simp only [hneg, if_false, if_true]
  have : j.toNat < i + 1 := by omega
  simp [List.getElem?_take, this]

theorem reading_take (cs : List (Candle F)) (i : Nat) (j : Int) (name : String) (hi : i < cs.length)
    (h0 : 0 ≤ j) (hj : j ≤ i) : reading (cs.take (i+1)) name j = reading cs name j := by
  unfold reading; rw [pyGet_take cs i j hi h0 hj]

theorem readingByIndex_take (cs : List (Candle F)) (i : Nat) (j : Int) (name : String) (hi : i < cs.length)
    (h0 : 0 ≤ j) (hj : j ≤ i) : readingByIndex (cs.take (i+1)) name j = readingByIndex cs name j := by
  have hl : (cs.take (i+1)).length = i + 1 := by simp; omega
  unfold readingByIndex
  have v1 : validIndex j (cs.take (i+1)).length = true := by rw [validIndex_iff, hl]; omega
  have v2 : validIndex j cs.length = true := by rw [validIndex_iff]; omega
  rw [v1, v2, pyGet_take cs i j hi h0 hj]

theorem readingPeriod_take (cs : List (Candle F)) (i : Nat) (p : Nat) (name : String) (hi : i < cs.length) (hp1 : 1 ≤ p) :
    readingPeriod (cs.take (i+1)) p name i = readingPeriod cs p name i := by
  have hl : (cs.take (i+1)).length = i + 1 := by simp; omega
  unfold readingPeriod
  have v1 : validIndex (i:Int) (cs.take (i+1)).length = true := by rw [validIndex_iff, hl]; omega
  have v2 : validIndex (i:Int) cs.length = true := by rw [validIndex_iff]; omega
  simp only [v1, v2, Bool.not_true, Bool.false_eq_true, if_false]
  by_cases h : (i:Int) - ((p:Int) - 1) < 0
  · simp [h]
  · simp only [h, if_false]
    have hp : 0 ≤ (p:Int) - 1 := by omega
    have hd : 0 ≤ ((p:Int) - 1) / 2 := Int.ediv_nonneg hp (by omega)
    have hd2 : ((p:Int) - 1) / 2 ≤ (p:Int) - 1 := Int.ediv_le_self _ hp
    have e1 := readingByIndex_take cs i ((i:Int) - ((p:Int) - 1)) name hi (by omega) (by omega)
    have e2 := readingByIndex_take cs i ((i:Int) - ((p:Int) - 1) / 2) name hi (by omega) (by omega)
    have e3 := readingByIndex_take cs i (i:Int) name hi (by omega) (by omega)
    rw [e1, e2, e3]

theorem prevReading_take (cs : List (Candle F)) (i : Nat) (name : String) (hi : i < cs.length) :
    prevReading (cs.take (i+1)) name i = prevReading cs name i := by
  unfold prevReading
  have hl : (cs.take (i+1)).length = i + 1 := by simp; omega
  by_cases h : (i:Int) = 0
  · simp [h]
  · have : cs.length ≠ 0 := by omega
    have hi0 : i ≠ 0 := by omega
    have a1 : ((cs.take (i+1)).length == 0 || (i:Int) == 0) = false := by simp [hl, hi0]
    have a2 : (cs.length == 0 || (i:Int) == 0) = false := by simp [hi0, this]
    rw [a1, a2]
    exact reading_take cs i ((i:Int) - 1) name hi (by omega) (by omega)

theorem sliceSum_take (cs : List (Candle F)) (i lo : Nat) (name : String) :
    sliceSum (cs.take (i+1)) name lo (i+1) = sliceSum cs name lo (i+1) := by
  unfold sliceSum
  congr 1
  rw [List.drop_take, List.take_take]
  simp


theorem candlesSum_take (cs : List (Candle F)) (i p : Nat) (name : String) (hi : i < cs.length)
    (hp : p ≤ i + 1) :
    candlesSum (cs.take (i+1)) name p i = candlesSum cs name p i := by
  have hl : (cs.take (i+1)).length = i + 1 := by simp; omega
  unfold candlesSum
  have v1 : validIndex (i:Int) (cs.take (i+1)).length = true := by rw [validIndex_iff, hl]; omega
  have v2 : validIndex (i:Int) cs.length = true := by rw [validIndex_iff]; omega
  simp only [v1, v2, Bool.not_true, Bool.false_eq_true, if_false]
  have hneg : ¬ (i:Int) < 0 := by omega
  simp only [hneg, if_false]
  by_cases h0 : ((i:Int) == 0) = true
  · simp [h0]
  · simp only [h0, if_false, hl]
    have c1 : ¬ p > i + 1 := by omega
    have c2 : ¬ p > cs.length := by omega
    simp only [c1, c2, if_false]
    have hlo : ¬ ((i:Int) + 1 - (p:Int) < 0) := by omega
    simp only [hlo, if_false]
    have : ((i:Int)+1).toNat = i + 1 := by omega
    rw [this, sliceSum_take]

/-- reachable-state invariant needed by the recurrence branch -/
def SMA.Inv (s : SMA) (cs : List (Candle F)) (i : Nat) : Prop :=
  ∀ v, prevReading cs s.name (i:Int) = .ok v → v.isNone = false → s.period ≤ i

theorem SMA.calc_take (s : SMA) (cs : List (Candle F)) (i : Nat) (hi : i < cs.length)
    (hp : 1 ≤ s.period) (hinv : s.Inv cs i) :
    s.calc (cs.take (i+1)) i = s.calc cs i := by
  unfold SMA.calc
  rw [prevReading_take cs i s.name hi]
  cases hprev : prevReading cs s.name (i:Int) with
  | error e => rfl
  | ok prev =>
    show (do let prev ← (Except.ok prev : Except PyErr (Val F)); _) = (do let prev ← (Except.ok prev : Except PyErr (Val F)); _)
    simp only [bind, Except.bind]
    by_cases hn : prev.isNone = true
    · simp only [hn, Bool.not_true, Bool.false_eq_true, if_false]
      rw [readingPeriod_take cs i s.period s.input hi hp]
      by_cases hrp : readingPeriod cs s.period s.input (i:Int) = true
      · simp only [hrp, if_true]
        have : s.period ≤ i + 1 := by
          unfold readingPeriod at hrp
          rcases Nat.lt_or_ge (i + 1) s.period with hc | hc
          · have : (i:Int) - ((s.period:Int) - 1) < 0 := by omega
            simp [this] at hrp
          · exact hc
        rw [candlesSum_take cs i s.period s.input hi this]
      · simp [hrp]
    · have hn' : prev.isNone = false := by simpa using hn
      have hle := hinv prev hprev hn'
      simp only [hn', Bool.not_false, if_true]
      have e1 := reading_take cs i ((i:Int) - (s.period:Int)) s.input hi (by omega) (by omega)
      have e2 := reading_take cs i (i:Int) s.input hi (by omega) (by omega)
      rw [e1, e2]

end Hx
#print axioms Hx.SMA.calc_take

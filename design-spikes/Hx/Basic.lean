namespace Hx

/-- correctly rounded (nearest-even) double of p/q, p q > 0 -/
def ratToFloat (p q : Nat) : Float :=
  if p == 0 then 0.0 else
  let lp : Int := p.log2
  let lq : Int := q.log2
  -- want 2^52 <= p*2^k/q < 2^53
  let k0 : Int := 52 - (lp - lq)
  let scaled (k : Int) : Nat × Nat := if k ≥ 0 then (p <<< k.toNat, q) else (p, q <<< (-k).toNat)
  let fix (k : Int) : Int :=
    let (a, b) := scaled k
    if a / b < 2^52 then k + 1 else if a / b ≥ 2^53 then k - 1 else k
  let k := fix (fix k0)
  let (a, b) := scaled k
  let quo := a / b
  let rem := a % b
  let m := if 2 * rem > b then quo + 1 else if 2 * rem < b then quo else (if quo % 2 == 0 then quo else quo + 1)
  (Float.ofNat m).scaleB (-k)

/-- Python's round(x, n) on floats, n ≥ 0 -/
def pyRound (x : Float) (n : Nat) : Float :=
  if x.isNaN || x.isInf || x == 0.0 then x else
  let bits := x.toBits
  let neg := (bits >>> 63) == 1
  let ex := ((bits >>> 52) &&& 0x7FF).toNat
  let frac := (bits &&& 0xFFFFFFFFFFFFF).toNat
  let (m, e) : Nat × Int := if ex == 0 then (frac, -1074) else (frac + 2^52, (ex : Int) - 1075)
  -- |x| = m * 2^e ; N = rhe(m*2^e*10^n)
  let N : Nat :=
    if e ≥ 0 then m * 2^e.toNat * 10^n else
      let num := m * 10^n
      let den := 2^((-e).toNat)
      let quo := num / den
      let rem := num % den
      if 2 * rem > den then quo + 1 else if 2 * rem < den then quo else (if quo % 2 == 0 then quo else quo + 1)
  let r := ratToFloat N (10^n)
  if neg then -r else r

/-- Python 3.12 builtin sum over floats (start int 0), Neumaier -/
def pySumF (xs : List Float) : Float :=
  match xs with
  | [] => 0.0
  | x :: rest =>
    -- int 0 + x  => float(0)+x ; then float path with result = that
    let first := (0.0 : Float) + x
    let (tot, c) := rest.foldl (fun (acc : Float × Float) x =>
      let (tot, c) := acc
      let t := tot + x
      let c := if tot.abs ≥ x.abs then c + ((tot - t) + x) else c + ((x - t) + tot)
      (t, c)) (first, 0.0)
    if c != 0.0 && c.isFinite then tot + c else tot

end Hx

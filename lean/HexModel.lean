import HexModel.Py.Value
import HexModel.Py.Arith
import HexModel.Py.FloatInst
import HexModel.Core.Candle
import HexModel.Core.Manager
import HexModel.Wire
import HexModel.Driver
import HexModel.Spec.Resample

import HexProps.C03
import HexProps.C07
import HexProps.C11
import HexProps.C12
import HexProps.C15
import HexProps.C18
import HexProps.C20

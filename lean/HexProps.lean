import HexProps.C03

import HexProofs.Framework.Gen.Supertrend
import HexProofs.Numeric.Supertrend
import HexProofs.Numeric.SeriesATR
import HexProofs.Numeric.SeriesRSI
set_option linter.unusedSectionVars false
namespace Hex
namespace Numeric
variable {K : Type} [Field K] [LinearOrder K] [IsStrictOrderedRing K] [LawfulPyF K]

theorem st_rowStep (nm : String) (n : Nat) (p : Int) (input : String) (mult : Num K) (hp : 1 ≤ p)
    (hn : StNames nm) (H : List (Candle K)) (c : Candle K) :
    Gen.rowStep (stTree (F := K) nm n p input mult hp hn).S H c = (do
      let t ← valOf (stTr nm) H c
      let a ← valOf (stA nm p) H (decOf (stTr nm) t c)
      let h ← valOf (stH nm) H (decOf (stA nm p) a (decOf (stTr nm) t c))
      let r ← stR mult { cs := H ++ [decOf (stH nm) h (decOf (stA nm p) a (decOf (stTr nm) t c))], i := H.length, name := nm }
      let v ← r.2
      pure (H ++ [outDS false nm (nm ++ "_data") (v.roundBy n) r.1
        (decOf (stH nm) h (decOf (stA nm p) a (decOf (stTr nm) t c)))])) := by
  show Gen.rowStep ((stComp nm n p input mult hp hn).spec _) H c = _
  rw [TComp.rowStep_spec]
  show (do
    let z ← (do
      let x ← (do
        let t ← valOf (stTr nm) H c
        let a ← valOf (stA nm p) H (decOf (stTr nm) t c)
        pure (t, a))
      let q ← (do
        let h ← valOf (stH nm) H (decOf (stA nm p) x.2 (decOf (stTr nm) x.1 c))
        let pq ← (do
          let (d, fin) ← stR mult { cs := H ++ [decOf (stH nm) h (decOf (stA nm p) x.2 (decOf (stTr nm) x.1 c))], i := H.length, name := nm }
          let v ← fin
          pure (d, v))
        pure (h, pq))
      pure (x, q))
    pure (H ++ [outDS false nm (nm ++ "_data") (z.2.2.2.roundBy n) z.2.2.1
        (decOf (stH nm) z.2.1 (decOf (stA nm p) z.1.2 (decOf (stTr nm) z.1.1 c)))])) = _
  cases valOf (stTr nm) H c with
  | error e => rfl
  | ok t =>
    simp only [bind, Except.bind]
    cases valOf (stA nm p) H (decOf (stTr nm) t c) with
    | error e => rfl
    | ok a =>
      simp only [pure, Except.pure]
      cases valOf (stH nm) H (decOf (stA nm p) a (decOf (stTr nm) t c)) with
      | error e => rfl
      | ok h =>
        simp only
        cases stR mult { cs := H ++ [decOf (stH nm) h (decOf (stA nm p) a (decOf (stTr nm) t c))], i := H.length, name := nm } with
        | error e => rfl
        | ok r =>
          obtain ⟨d, fin⟩ := r
          simp only
          cases fin <;> rfl
end Numeric
end Hex

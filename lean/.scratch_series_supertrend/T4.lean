import HexProofs.Framework.Gen.Supertrend
import HexProofs.Numeric.Supertrend
import HexProofs.Numeric.SeriesATR
import HexProofs.Numeric.SeriesRSI
set_option linter.unusedSectionVars false
set_option linter.unusedSimpArgs false
namespace Hex
namespace Numeric
variable {K : Type} [Field K] [LinearOrder K] [IsStrictOrderedRing K] [LawfulPyF K]

/-- the ATR helper's STORED reading as a number, as a function of its (stored) true-range inputs
`x`: the mean of `x 1 … x p` rounded to `defaultRound` decimals at the warm-up index `p` (and, by
convention, before it), then `round₄((prev·(p−1) + x j)/p)` on the STORED predecessor -/
def atrSt (p : Nat) (x : Nat → K) : Nat → K
  | 0 => PyF.round defaultRound (rsum p (fun k => x (1 + k)) / p)
  | j + 1 => if j + 1 ≤ p then PyF.round defaultRound (rsum p (fun k => x (1 + k)) / p)
             else PyF.round defaultRound ((atrSt p x j * ((p : K) - 1) + x (j + 1)) / p)

theorem atrSt_seed (p : Nat) (x : Nat → K) (j : Nat) (h : j ≤ p) :
    atrSt p x j = PyF.round defaultRound (rsum p (fun k => x (1 + k)) / p) := by
  cases j with
  | zero => rfl
  | succ i => simp [atrSt, h]

theorem atrSt_step (p : Nat) (x : Nat → K) (j : Nat) (h : p < j) :
    atrSt p x j = PyF.round defaultRound ((atrSt p x (j - 1) * ((p : K) - 1) + x j) / p) := by
  obtain ⟨i, rfl⟩ : ∃ i, j = i + 1 := ⟨j - 1, by omega⟩
  have : ¬ i + 1 ≤ p := by omega
  simp [atrSt, this]

/-- the reading stored under `name_atr` on candle `j` -/
def atrStored (p : Nat) (raw : List (Candle K)) (j : Nat) : Val K :=
  if j < p then .none else .flt (atrSt p (trS raw) j)

/-- the stored ATR column is within `p·ε₄` of Wilder's average of the stored true ranges (and
non-negative): the statement `AtrOK` of `SeriesATR` -/
theorem atrStored_ok (p : Nat) (hp : 1 ≤ p) (raw : List (Candle K)) (j : Nat) :
    AtrOK p defaultRound (trS raw) j (atrStored p raw j) := by
  have hpK : (0 : K) < p := by exact_mod_cast (by omega : 0 < p)
  have ha0 : (0 : K) < 1 / (p : K) := by positivity
  have ha1 : 1 / (p : K) ≤ 1 := by rw [div_le_one hpK]; exact_mod_cast hp
  have h1p : (0 : K) ≤ (p : K) - 1 := by rw [sub_nonneg]; exact_mod_cast hp
  unfold atrStored
  by_cases h1 : j < p
  · rw [if_pos h1]
    exact ⟨⟨fun _ => rfl, fun h => by omega⟩, fun y hy => by cases hy⟩
  · rw [if_neg h1]
    suffices hs : ∀ i, p ≤ i → |atrSt p (trS raw) i - atrExact p (trS raw) i| ≤ eps K defaultRound / (1 / (p : K))
        ∧ 0 ≤ atrSt p (trS raw) i by
      obtain ⟨hb, h0⟩ := hs j (by omega)
      exact ⟨⟨fun h => by omega, fun _ => ⟨_, rfl, hb⟩⟩, fun y hy => by cases hy; exact h0⟩
    intro i
    induction i with
    | zero =>
      intro hi
      have : p = 0 := by omega
      omega
    | succ i ih =>
      intro hi
      by_cases h2 : i + 1 = p
      · rw [atrSt_seed _ _ _ (by omega), ← h2, atrExact_seed]
        rw [h2]
        exact ⟨le_trans (LawfulPyF.round_err _ _) (eps_le_div _ _ ha0 ha1),
          round_nonneg _ _ (div_nonneg (rsum_nonneg p _ (fun k _ => trS_nonneg raw (1 + k))) hpK.le)⟩
      · obtain ⟨hb, h0⟩ := ih (by omega)
        rw [atrSt_step _ _ _ (by omega), atrExact_step p hp _ _ (by omega)]
        simp only [Nat.add_sub_cancel]
        refine ⟨?_, round_nonneg _ _ (div_nonneg (add_nonneg (mul_nonneg h0 h1p) (trS_nonneg raw _)) hpK.le)⟩
        rw [atr_is_wilder _ _ _ hpK.ne', atr_is_wilder _ _ _ hpK.ne']
        exact ema_error_budget _ (1 / (p : K)) (trS raw (i + 1)) _ _ ha0 ha1 hb

/-- **one call of the ATR helper inside the series, exactly**: if the earlier stored readings are
`atrStored`, the call at index `m` returns and its stored (rounded) reading is `atrStored … m` -/
theorem atr_stepCtx_exact (p : Nat) (hp : 1 ≤ p) (nm : String) (hk : IsKey nm) (hn : AtrNames nm)
    (raw : List (Candle K)) (hraw : ∀ c ∈ raw, Plain c) (vs : List (Val K)) (m : Nat)
    (hm : m < raw.length) (hvs : vs.length = m)
    (hQ : ∀ j, j < m → vs.getD j .none = atrStored p raw j) :
    ∃ w, Calc.atr (atrCtx nm raw vs m) (p : Int) (nm ++ "_TR") = .ok w ∧
      w.roundBy defaultRound = atrStored p raw m := by
  have hpK : (0 : K) < p := by exact_mod_cast (by omega : 0 < p)
  have hpI : ((p : Int) : K) ≠ 0 := by simpa using hpK.ne'
  have hprev := atrCtx_prev nm raw vs m hm hvs hk
  have hper := atrCtx_period nm raw vs m hm hvs hn hraw p hp
  have hcur := atrCtx_tr_cur nm raw vs m hm hvs hn hraw
  by_cases h1 : m < p
  · have hpn : (atrCtx nm raw vs m).prevReading (atrCtx nm raw vs m).name = .ok .none := by
      show (atrCtx nm raw vs m).prevReading nm = _
      rw [hprev]
      by_cases h0 : m = 0
      · simp [h0]
      · simp only [h0, if_false]
        rw [hQ (m - 1) (by omega)]
        unfold atrStored
        rw [if_pos (by omega)]
    have hrp : (atrCtx nm raw vs m).readingPeriod (p : Int) (nm ++ "_TR") = false := by
      rw [hper]; simp; omega
    refine ⟨.none, atr_none _ _ _ hpn hrp, ?_⟩
    unfold atrStored
    rw [if_pos h1]; rfl
  · by_cases h2 : m = p
    · have h0 : m ≠ 0 := by omega
      have hpn : (atrCtx nm raw vs m).prevReading (atrCtx nm raw vs m).name = .ok .none := by
        show (atrCtx nm raw vs m).prevReading nm = _
        rw [hprev]
        simp only [h0, if_false]
        rw [hQ (m - 1) (by omega)]
        unfold atrStored
        rw [if_pos (by omega)]
      have hrp : (atrCtx nm raw vs m).readingPeriod (p : Int) (nm ++ "_TR") = true := by
        rw [hper]; simp; omega
      have hwin := atr_seed_window (atrCtx nm raw vs m) p (nm ++ "_TR")
        (fun j => (trNum raw (1 + j)).roundBy defaultRound) hpn hrp hp
        (by show (p : Int) ≤ (m : Int) + 1; omega) (by show (1 : Int) ≤ (m : Int); omega)
        (by
          intro j hj
          have e : (atrCtx nm raw vs m).i + 1 - (p : Int) + (j : Int) = ((1 + j : Nat) : Int) := by
            show (m : Int) + 1 - (p : Int) + (j : Int) = _; omega
          rw [e, atrCtx_tr nm raw vs m hm hvs hn hraw (1 + j) (by omega)]
          unfold trStored
          rw [if_neg (by omega)])
      refine ⟨_, hwin, ?_⟩
      unfold atrStored
      rw [if_neg h1, atrSt_seed _ _ _ (by omega)]
      rfl
    · have h3 : p < m := by omega
      have h0 : m ≠ 0 := by omega
      have hpn : (atrCtx nm raw vs m).prevReading (atrCtx nm raw vs m).name
          = .ok (.num (.flt (atrSt p (trS raw) (m - 1)))) := by
        show (atrCtx nm raw vs m).prevReading nm = _
        rw [hprev]
        simp only [h0, if_false]
        rw [hQ (m - 1) (by omega)]
        unfold atrStored
        rw [if_neg (by omega)]
      have htr : (atrCtx nm raw vs m).reading (nm ++ "_TR")
          = .ok (.num ((trNum raw m).roundBy defaultRound)) := by
        rw [hcur]; unfold trStored; rw [if_neg h0]
      have hrec := atr_rec (atrCtx nm raw vs m) p (nm ++ "_TR") _ _ hpn htr hpI
      refine ⟨_, hrec, ?_⟩
      unfold atrStored
      rw [if_neg h1, atrSt_step _ _ _ h3]
      simp [Val.roundBy, Scalar.roundBy, Num.roundBy, trS]

end Numeric
end Hex

import HexProofs.Framework.Gen.Supertrend
import HexProofs.Numeric.Supertrend
import HexProofs.Numeric.SeriesATR
import HexProofs.Numeric.SeriesRSI
set_option linter.unusedSectionVars false
set_option linter.unusedSimpArgs false
namespace Hex
namespace Numeric
variable {K : Type} [Field K] [LinearOrder K] [IsStrictOrderedRing K] [LawfulPyF K]

/-! ### the row step -/

theorem st_rowStep (nm : String) (n : Nat) (p : Int) (input : String) (mult : Num K) (hp : 1 ≤ p)
    (hn : StNames nm) (H : List (Candle K)) (c : Candle K) :
    Gen.rowStep (stTree (F := K) nm n p input mult hp hn).S H c = (do
      let t ← valOf (stTr nm) H c
      let a ← valOf (stA nm p) H (decOf (stTr nm) t c)
      let h ← valOf (stH nm) H (decOf (stA nm p) a (decOf (stTr nm) t c))
      let r ← stR mult { cs := H ++ [decOf (stH nm) h (decOf (stA nm p) a (decOf (stTr nm) t c))], i := H.length, name := nm }
      let v ← r.2
      pure (H ++ [outDS false nm (nm ++ "_data") (v.roundBy n) r.1
        (decOf (stH nm) h (decOf (stA nm p) a (decOf (stTr nm) t c)))])) := by
  show Gen.rowStep ((stComp nm n p input mult hp hn).spec _) H c = _
  rw [TComp.rowStep_spec]
  show (do
    let z ← (do
      let x ← (do
        let t ← valOf (stTr nm) H c
        let a ← valOf (stA nm p) H (decOf (stTr nm) t c)
        pure (t, a))
      let q ← (do
        let h ← valOf (stH nm) H (decOf (stA nm p) x.2 (decOf (stTr nm) x.1 c))
        let pq ← (do
          let (d, fin) ← stR mult { cs := H ++ [decOf (stH nm) h (decOf (stA nm p) x.2 (decOf (stTr nm) x.1 c))], i := H.length, name := nm }
          let v ← fin
          pure (d, v))
        pure (h, pq))
      pure (x, q))
    pure (H ++ [outDS false nm (nm ++ "_data") (z.2.2.2.roundBy n) z.2.2.1
        (decOf (stH nm) z.2.1 (decOf (stA nm p) z.1.2 (decOf (stTr nm) z.1.1 c)))])) = _
  cases valOf (stTr nm) H c with
  | error e => rfl
  | ok t =>
    simp only [bind, Except.bind]
    cases valOf (stA nm p) H (decOf (stTr nm) t c) with
    | error e => rfl
    | ok a =>
      simp only [pure, Except.pure]
      cases valOf (stH nm) H (decOf (stA nm p) a (decOf (stTr nm) t c)) with
      | error e => rfl
      | ok h =>
        simp only
        cases stR mult { cs := H ++ [decOf (stH nm) h (decOf (stA nm p) a (decOf (stTr nm) t c))], i := H.length, name := nm } with
        | error e => rfl
        | ok r =>
          obtain ⟨d, fin⟩ := r
          simp only
          cases fin <;> rfl

/-! ### candles -/

structure StRow (K : Type) where
  tr : Val K
  atr : Val K
  hl : Val K
  own : Val K
  data : Option (Val K)

def StRow.dflt : StRow K := ⟨.none, .none, .none, .none, none⟩

def stOut (nm : String) (c : Candle K) (r : StRow K) : Candle K :=
  outDS false nm (nm ++ "_data") r.own r.data
    (setKey true (nm ++ "_HL") r.hl (setKey true (nm ++ "_atr") r.atr
      (setKey true (nm ++ "_atr" ++ "_TR") r.tr c)))

section cand
variable (nm : String) (hn : StNames nm)
include hn

theorem stOut_attr (input : String) (hd : NoDot input) (hin : input ∈ Candle.attrNames) (c : Candle K) (r : StRow K) :
    readingByCandle (stOut nm c r) input = readingByCandle c input := by
  unfold stOut
  rw [readingByCandle_outDS false nm (nm ++ "_data") input (indep_attr _ _ hd hin) (indep_attr _ _ hd hin),
    indep_attr (F := K) _ input hd hin, indep_attr (F := K) _ input hd hin, indep_attr (F := K) _ input hd hin]

theorem stOut_tr (c : Candle K) (hc : Plain c) (r : StRow K) :
    readingByCandle (stOut nm c r) (nm ++ "_atr" ++ "_TR") = r.tr := by
  unfold stOut
  rw [readingByCandle_outDS false nm (nm ++ "_data") _ (indep_key _ _ hn.kT hn.nT) (indep_key _ _ hn.kT hn.TD.symm),
    indep_key (F := K) _ _ hn.kT hn.TH.symm, indep_key (F := K) _ _ hn.kT hn.AT,
    readingByCandle_setKey true _ hn.kT _ _ hc]

theorem stOut_atr (c : Candle K) (hc : Plain c) (r : StRow K) :
    readingByCandle (stOut nm c r) (nm ++ "_atr") = r.atr := by
  unfold stOut
  rw [readingByCandle_outDS false nm (nm ++ "_data") _ (indep_key _ _ hn.kA hn.nA) (indep_key _ _ hn.kA hn.AD.symm),
    indep_key (F := K) _ _ hn.kA hn.AH.symm, readingByCandle_key _ hn.kA]
  obtain ⟨hi, hs⟩ := hc
  simp [lookupKey, setKey, hi, hs, dset, dlookup]

theorem stOut_dir (c : Candle K) (hc : Plain c) (r : StRow K) :
    readingByCandle (stOut nm c r) (nm ++ ".direction") = r.own.nested "direction" := by
  unfold readingByCandle
  rw [hn.dir]
  obtain ⟨hi, hs⟩ := hc
  cases hd : r.data <;> simp [stOut, outDS, setD, setKey, hi, hs, dset, dlookup, hd]

theorem stOut_field (fld full : String) (hsplit : splitDot full = [nm ++ "_data", fld]) (c : Candle K) (hc : Plain c) (r : StRow K) :
    readingByCandle (stOut nm c r) full
      = match r.data with | some d => d.nested fld | none => .none := by
  unfold readingByCandle
  rw [hsplit]
  obtain ⟨hi, hs⟩ := hc
  have h1 := hn.nD
  have h2 := hn.AD
  have h3 := hn.TD
  have h4 := hn.HD
  unfold stOut
  generalize nm ++ "_atr" ++ "_TR" = T at *
  generalize nm ++ "_atr" = A at *
  generalize nm ++ "_HL" = H at *
  generalize nm ++ "_data" = D at *
  cases hd : r.data <;>
    simp [stOut, outDS, setD, setKey, hi, hs, dlookup_dset, hd, h1, h2, h3, h4]

theorem stOut_lower (c : Candle K) (hc : Plain c) (r : StRow K) :
    readingByCandle (stOut nm c r) (nm ++ "_data.lower")
      = match r.data with | some d => d.nested "lower" | none => .none :=
  stOut_field nm hn "lower" _ hn.lower c hc r

theorem stOut_upper (c : Candle K) (hc : Plain c) (r : StRow K) :
    readingByCandle (stOut nm c r) (nm ++ "_data.upper")
      = match r.data with | some d => d.nested "upper" | none => .none :=
  stOut_field nm hn "upper" _ hn.upper c hc r

theorem stOut_own (hk : IsKey nm) (c : Candle K) (hc : Plain c) (r : StRow K) :
    readingByCandle (stOut nm c r) nm = r.own := by
  rw [readingByCandle_key nm hk]
  obtain ⟨hi, hs⟩ := hc
  cases hd : r.data <;> simp [stOut, lookupKey, outDS, setD, setKey, hi, hs, dset, dlookup, hd]

theorem stOut_hl (c : Candle K) (hc : Plain c) (r : StRow K) :
    readingByCandle (stOut nm c r) (nm ++ "_HL") = r.hl := by
  unfold stOut
  rw [readingByCandle_outDS false nm (nm ++ "_data") _ (indep_key _ _ hn.kH hn.nH) (indep_key _ _ hn.kH hn.HD.symm),
    readingByCandle_key _ hn.kH]
  obtain ⟨hi, hs⟩ := hc
  simp [lookupKey, setKey, hi, hs, dset, dlookup, hn.AH, hn.AH.symm, hn.TH, hn.TH.symm]

theorem stOut_bare (c : Candle K) (r : StRow K) : (stOut nm c r).bare = c.bare := by
  unfold stOut outDS setD
  cases r.data <;> simp [bare_setKey]

end cand

/-! ### stR -/

/-- what Supertrend reports while the ATR helper has no reading -/
def stNoneDict : Val K :=
  .dict [("trend", .none), ("direction", .num (.int 1)), ("long", .none), ("short", .none)]

theorem stR_none (x : Ctx K) (mult : Num K) (ha : x.reading (x.name ++ "_atr") = .ok .none) :
    stR mult x = .ok (none, .ok stNoneDict) := by
  simp [stR, ha, sdict, sc, stNoneDict]

theorem stR_first (x : Ctx K) (mult a hl : Num K)
    (ha : x.reading (x.name ++ "_atr") = .ok (.num a))
    (hhl : x.reading (x.name ++ "_HL") = .ok (.num hl))
    (hpl : x.prevReading (x.name ++ "_data.lower") = .ok .none) :
    stR mult x =
      .ok (some (sdict [("upper", sc (hl.add (mult.mul a))), ("lower", sc (hl.sub (mult.mul a)))]),
           .ok (stDict 1 (hl.add (mult.mul a)) (hl.sub (mult.mul a)))) := by
  simp [stR, ha, Ctx.num_of hhl, Ctx.prevExists_of hpl, stDict, Num.eq, sdict, sc]

theorem stR_step (x : Ctx K) (mult a hl close pu pl : Num K) (pd : Int)
    (ha : x.reading (x.name ++ "_atr") = .ok (.num a))
    (hhl : x.reading (x.name ++ "_HL") = .ok (.num hl))
    (hc : x.reading "close" = .ok (.num close))
    (hpl : x.prevReading (x.name ++ "_data.lower") = .ok (.num pl))
    (hpu : x.prevReading (x.name ++ "_data.upper") = .ok (.num pu))
    (hpd : x.prevReading (x.name ++ ".direction") = .ok (.int pd))
    (hd : pd = 1 ∨ pd = -1) :
    ∃ U L : Num K,
      U.toF = stUpper close.toF pu.toF pl.toF pd (hl.toF + mult.toF * a.toF) ∧
      L.toF = stLower close.toF pu.toF pl.toF pd (hl.toF - mult.toF * a.toF) ∧
      stR mult x =
        .ok (some (sdict [("upper", sc U), ("lower", sc L)]), .ok (stDict (stDir close.toF pu.toF pl.toF pd) U L)) := by
  have hone : (Val.int pd : Val K).isIntOne = decide (pd = 1) := by
    rcases hd with rfl | rfl <;> simp [Val.isIntOne, Num.eq]
  by_cases h1 : pu.toF < close.toF
  · have e1 : close.gt pu = true := (Num.gt_iff _ _).2 h1
    by_cases h2 : close.toF < pl.toF
    · have e2 : close.lt pl = true := (Num.lt_iff _ _).2 h2
      refine ⟨hl.add (mult.mul a), hl.sub (mult.mul a), by simp [stUpper, h1], by simp [stLower, h1], ?_⟩
      rcases hd with rfl | rfl <;>
        simp [stR, ha, Ctx.num_of hhl, Ctx.prevExists_of hpl, Ctx.num_of hc, Ctx.prevNum_of hpu,
          Ctx.prevNum_of hpl, hpd, hone, e1, e2, stDict, stDir, h1, h2, Num.eq, sdict, sc]
    · have e2 : close.lt pl = false := (Num.lt_false_iff _ _).2 (not_lt.1 h2)
      refine ⟨hl.add (mult.mul a), hl.sub (mult.mul a), by simp [stUpper, h1], by simp [stLower, h1], ?_⟩
      simp [stR, ha, Ctx.num_of hhl, Ctx.prevExists_of hpl, Ctx.num_of hc, Ctx.prevNum_of hpu,
        Ctx.prevNum_of hpl, hpd, e1, e2, stDict, stDir, h1, h2, Num.eq, sdict, sc]
  · have e1 : close.gt pu = false := (Num.gt_false_iff _ _).2 (not_lt.1 h1)
    by_cases h2 : close.toF < pl.toF
    · have e2 : close.lt pl = true := (Num.lt_iff _ _).2 h2
      refine ⟨hl.add (mult.mul a), hl.sub (mult.mul a), by simp [stUpper, h1, h2], by simp [stLower, h1, h2], ?_⟩
      simp [stR, ha, Ctx.num_of hhl, Ctx.prevExists_of hpl, Ctx.num_of hc, Ctx.prevNum_of hpu,
        Ctx.prevNum_of hpl, hpd, e1, e2, stDict, stDir, h1, h2, Num.eq, sdict, sc]
    · have e2 : close.lt pl = false := (Num.lt_false_iff _ _).2 (not_lt.1 h2)
      rcases hd with rfl | rfl
      · by_cases h3 : hl.toF - mult.toF * a.toF < pl.toF
        · have e3 : (hl.sub (mult.mul a)).lt pl = true := by rw [Num.lt_iff]; simpa using h3
          refine ⟨hl.add (mult.mul a), pl, by simp [stUpper, h1, h2], by simp [stLower, h1, h2, h3], ?_⟩
          simp [stR, ha, Ctx.num_of hhl, Ctx.prevExists_of hpl, Ctx.num_of hc, Ctx.prevNum_of hpu,
            Ctx.prevNum_of hpl, Ctx.prevNum_of hpd, hpd, e1, e2, e3, stDict, stDir, h1, h2, Num.eq, sdict, sc]
        · have e3 : (hl.sub (mult.mul a)).lt pl = false := by rw [Num.lt_false_iff]; simpa using not_lt.1 h3
          refine ⟨hl.add (mult.mul a), hl.sub (mult.mul a), by simp [stUpper, h1, h2], by simp [stLower, h1, h2, h3], ?_⟩
          simp [stR, ha, Ctx.num_of hhl, Ctx.prevExists_of hpl, Ctx.num_of hc, Ctx.prevNum_of hpu,
            Ctx.prevNum_of hpl, Ctx.prevNum_of hpd, hpd, e1, e2, e3, stDict, stDir, h1, h2, Num.eq, sdict, sc]
      · by_cases h3 : pu.toF < hl.toF + mult.toF * a.toF
        · have e3 : (hl.add (mult.mul a)).gt pu = true := by rw [Num.gt_iff]; simpa using h3
          refine ⟨pu, hl.sub (mult.mul a), by simp [stUpper, h1, h2, h3], by simp [stLower, h1, h2], ?_⟩
          simp [stR, ha, Ctx.num_of hhl, Ctx.prevExists_of hpl, Ctx.num_of hc, Ctx.prevNum_of hpu,
            Ctx.prevNum_of hpl, Ctx.prevNum_of hpd, hpd, e1, e2, e3, stDict, stDir, h1, h2, Num.eq, sdict, sc]
        · have e3 : (hl.add (mult.mul a)).gt pu = false := by rw [Num.gt_false_iff]; simpa using not_lt.1 h3
          refine ⟨hl.add (mult.mul a), hl.sub (mult.mul a), by simp [stUpper, h1, h2, h3], by simp [stLower, h1, h2], ?_⟩
          simp [stR, ha, Ctx.num_of hhl, Ctx.prevExists_of hpl, Ctx.num_of hc, Ctx.prevNum_of hpu,
            Ctx.prevNum_of hpl, Ctx.prevNum_of hpd, hpd, e1, e2, e3, stDict, stDir, h1, h2, Num.eq, sdict, sc]


/-! ### ATR exact -/

/-- the ATR helper's STORED reading as a number, as a function of its (stored) true-range inputs
`x`: the mean of `x 1 … x p` rounded to `defaultRound` decimals at the warm-up index `p` (and, by
convention, before it), then `round₄((prev·(p−1) + x j)/p)` on the STORED predecessor -/
def atrSt (p : Nat) (x : Nat → K) : Nat → K
  | 0 => PyF.round defaultRound (rsum p (fun k => x (1 + k)) / p)
  | j + 1 => if j + 1 ≤ p then PyF.round defaultRound (rsum p (fun k => x (1 + k)) / p)
             else PyF.round defaultRound ((atrSt p x j * ((p : K) - 1) + x (j + 1)) / p)

theorem atrSt_seed (p : Nat) (x : Nat → K) (j : Nat) (h : j ≤ p) :
    atrSt p x j = PyF.round defaultRound (rsum p (fun k => x (1 + k)) / p) := by
  cases j with
  | zero => rfl
  | succ i => simp [atrSt, h]

theorem atrSt_step (p : Nat) (x : Nat → K) (j : Nat) (h : p < j) :
    atrSt p x j = PyF.round defaultRound ((atrSt p x (j - 1) * ((p : K) - 1) + x j) / p) := by
  obtain ⟨i, rfl⟩ : ∃ i, j = i + 1 := ⟨j - 1, by omega⟩
  have : ¬ i + 1 ≤ p := by omega
  simp [atrSt, this]

/-- the reading stored under `name_atr` on candle `j` -/
def atrStored (p : Nat) (raw : List (Candle K)) (j : Nat) : Val K :=
  if j < p then .none else .flt (atrSt p (trS raw) j)

/-- the stored ATR column is within `p·ε₄` of Wilder's average of the stored true ranges (and
non-negative): the statement `AtrOK` of `SeriesATR` -/
theorem atrStored_ok (p : Nat) (hp : 1 ≤ p) (raw : List (Candle K)) (j : Nat) :
    AtrOK p defaultRound (trS raw) j (atrStored p raw j) := by
  have hpK : (0 : K) < p := by exact_mod_cast (by omega : 0 < p)
  have ha0 : (0 : K) < 1 / (p : K) := by positivity
  have ha1 : 1 / (p : K) ≤ 1 := by rw [div_le_one hpK]; exact_mod_cast hp
  have h1p : (0 : K) ≤ (p : K) - 1 := by rw [sub_nonneg]; exact_mod_cast hp
  unfold atrStored
  by_cases h1 : j < p
  · rw [if_pos h1]
    exact ⟨⟨fun _ => rfl, fun h => by omega⟩, fun y hy => by cases hy⟩
  · rw [if_neg h1]
    suffices hs : ∀ i, p ≤ i → |atrSt p (trS raw) i - atrExact p (trS raw) i| ≤ eps K defaultRound / (1 / (p : K))
        ∧ 0 ≤ atrSt p (trS raw) i by
      obtain ⟨hb, h0⟩ := hs j (by omega)
      exact ⟨⟨fun h => by omega, fun _ => ⟨_, rfl, hb⟩⟩, fun y hy => by cases hy; exact h0⟩
    intro i
    induction i with
    | zero =>
      intro hi
      have : p = 0 := by omega
      omega
    | succ i ih =>
      intro hi
      by_cases h2 : i + 1 = p
      · rw [atrSt_seed _ _ _ (by omega), ← h2, atrExact_seed]
        rw [h2]
        exact ⟨le_trans (LawfulPyF.round_err _ _) (eps_le_div _ _ ha0 ha1),
          round_nonneg _ _ (div_nonneg (rsum_nonneg p _ (fun k _ => trS_nonneg raw (1 + k))) hpK.le)⟩
      · obtain ⟨hb, h0⟩ := ih (by omega)
        rw [atrSt_step _ _ _ (by omega), atrExact_step p hp _ _ (by omega)]
        simp only [Nat.add_sub_cancel]
        refine ⟨?_, round_nonneg _ _ (div_nonneg (add_nonneg (mul_nonneg h0 h1p) (trS_nonneg raw _)) hpK.le)⟩
        rw [atr_is_wilder _ _ _ hpK.ne', atr_is_wilder _ _ _ hpK.ne']
        exact ema_error_budget _ (1 / (p : K)) (trS raw (i + 1)) _ _ ha0 ha1 hb

/-- **one call of the ATR helper inside the series, exactly**: if the earlier stored readings are
`atrStored`, the call at index `m` returns and its stored (rounded) reading is `atrStored … m` -/
theorem atr_stepCtx_exact (p : Nat) (hp : 1 ≤ p) (nm : String) (hk : IsKey nm) (hn : AtrNames nm)
    (raw : List (Candle K)) (hraw : ∀ c ∈ raw, Plain c) (vs : List (Val K)) (m : Nat)
    (hm : m < raw.length) (hvs : vs.length = m)
    (hQ : ∀ j, j < m → vs.getD j .none = atrStored p raw j) :
    ∃ w, Calc.atr (atrCtx nm raw vs m) (p : Int) (nm ++ "_TR") = .ok w ∧
      w.roundBy defaultRound = atrStored p raw m := by
  have hpK : (0 : K) < p := by exact_mod_cast (by omega : 0 < p)
  have hpI : ((p : Int) : K) ≠ 0 := by simpa using hpK.ne'
  have hprev := atrCtx_prev nm raw vs m hm hvs hk
  have hper := atrCtx_period nm raw vs m hm hvs hn hraw p hp
  have hcur := atrCtx_tr_cur nm raw vs m hm hvs hn hraw
  by_cases h1 : m < p
  · have hpn : (atrCtx nm raw vs m).prevReading (atrCtx nm raw vs m).name = .ok .none := by
      show (atrCtx nm raw vs m).prevReading nm = _
      rw [hprev]
      by_cases h0 : m = 0
      · simp [h0]
      · simp only [h0, if_false]
        rw [hQ (m - 1) (by omega)]
        unfold atrStored
        rw [if_pos (by omega)]
    have hrp : (atrCtx nm raw vs m).readingPeriod (p : Int) (nm ++ "_TR") = false := by
      rw [hper]; simp; omega
    refine ⟨.none, atr_none _ _ _ hpn hrp, ?_⟩
    unfold atrStored
    rw [if_pos h1]; rfl
  · by_cases h2 : m = p
    · have h0 : m ≠ 0 := by omega
      have hpn : (atrCtx nm raw vs m).prevReading (atrCtx nm raw vs m).name = .ok .none := by
        show (atrCtx nm raw vs m).prevReading nm = _
        rw [hprev]
        simp only [h0, if_false]
        rw [hQ (m - 1) (by omega)]
        unfold atrStored
        rw [if_pos (by omega)]
      have hrp : (atrCtx nm raw vs m).readingPeriod (p : Int) (nm ++ "_TR") = true := by
        rw [hper]; simp; omega
      have hwin := atr_seed_window (atrCtx nm raw vs m) p (nm ++ "_TR")
        (fun j => (trNum raw (1 + j)).roundBy defaultRound) hpn hrp hp
        (by show (p : Int) ≤ (m : Int) + 1; omega) (by show (1 : Int) ≤ (m : Int); omega)
        (by
          intro j hj
          have e : (atrCtx nm raw vs m).i + 1 - (p : Int) + (j : Int) = ((1 + j : Nat) : Int) := by
            show (m : Int) + 1 - (p : Int) + (j : Int) = _; omega
          rw [e, atrCtx_tr nm raw vs m hm hvs hn hraw (1 + j) (by omega)]
          unfold trStored
          rw [if_neg (by omega)])
      refine ⟨_, hwin, ?_⟩
      unfold atrStored
      rw [if_neg h1, atrSt_seed _ _ _ (by omega)]
      rfl
    · have h3 : p < m := by omega
      have h0 : m ≠ 0 := by omega
      have hpn : (atrCtx nm raw vs m).prevReading (atrCtx nm raw vs m).name
          = .ok (.num (.flt (atrSt p (trS raw) (m - 1)))) := by
        show (atrCtx nm raw vs m).prevReading nm = _
        rw [hprev]
        simp only [h0, if_false]
        rw [hQ (m - 1) (by omega)]
        unfold atrStored
        rw [if_neg (by omega)]
      have htr : (atrCtx nm raw vs m).reading (nm ++ "_TR")
          = .ok (.num ((trNum raw m).roundBy defaultRound)) := by
        rw [hcur]; unfold trStored; rw [if_neg h0]
      have hrec := atr_rec (atrCtx nm raw vs m) p (nm ++ "_TR") _ _ hpn htr hpI
      refine ⟨_, hrec, ?_⟩
      unfold atrStored
      rw [if_neg h1, atrSt_step _ _ _ h3]
      simp [Val.roundBy, Scalar.roundBy, Num.roundBy, trS]


/-! ### the textbook series -/

/-- exact `HL2` of candle `j` -/
def hlExact (raw : List (Candle K)) (j : Nat) : K := (fieldAt (·.h) raw j + fieldAt (·.l) raw j) / 2

/-- the `HL2` helper's stored reading as a number: rounded to `defaultRound = 4` decimals -/
def hlS (raw : List (Candle K)) (j : Nat) : K := PyF.round defaultRound (hlExact raw j)

/-- the reading stored under `name_HL` on candle `j` -/
def hlStored (raw : List (Candle K)) (j : Nat) : Val K := .flt (hlS raw j)

theorem hlS_err (raw : List (Candle K)) (j : Nat) : |hlS raw j - hlExact raw j| ≤ eps K defaultRound :=
  LawfulPyF.round_err _ _

/-- the state of the Supertrend machine: direction (`1` up / `-1` down) and the two bands -/
structure StState (K : Type) where
  dir : Int
  upper : K
  lower : K

/-- the first state: plain bands `HL2 ± m·ATR`, direction up -/
def stStart (mult a hl : K) : StState K := ⟨1, hl + mult * a, hl - mult * a⟩

/-- one transition: new direction from the close against the PREVIOUS bands, bands ratcheted -/
def stNext (mult a hl close : K) (s : StState K) : StState K :=
  ⟨stDir close s.upper s.lower s.dir,
   stUpper close s.upper s.lower s.dir (hl + mult * a),
   stLower close s.upper s.lower s.dir (hl - mult * a)⟩

/-- **the textbook Supertrend state machine** over an ATR series (`none` = no reading), an `HL2`
series and the closes: no state while there is no ATR, `stStart` at an index with an ATR whose
predecessor has no state, `stNext` otherwise -/
def stMachine (mult : K) (atr : Nat → Option K) (hl close : Nat → K) : Nat → Option (StState K)
  | 0 => match atr 0 with
    | none => none
    | some a => some (stStart mult a (hl 0))
  | j + 1 => match atr (j + 1) with
    | none => none
    | some a => match stMachine mult atr hl close j with
      | none => some (stStart mult a (hl (j + 1)))
      | some s => some (stNext mult a (hl (j + 1)) (close (j + 1)) s)

theorem stMachine_none (mult : K) (atr : Nat → Option K) (hl close : Nat → K) (j : Nat) (h : atr j = none) :
    stMachine mult atr hl close j = none := by
  cases j <;> simp [stMachine, h]

theorem stMachine_start (mult : K) (atr : Nat → Option K) (hl close : Nat → K) (j : Nat) (a : K)
    (h : atr j = some a) (hprev : j = 0 ∨ stMachine mult atr hl close (j - 1) = none) :
    stMachine mult atr hl close j = some (stStart mult a (hl j)) := by
  cases j with
  | zero => simp [stMachine, h]
  | succ i =>
    rcases hprev with h0 | h0
    · omega
    · simp only [Nat.add_sub_cancel] at h0
      simp [stMachine, h, h0]

theorem stMachine_next (mult : K) (atr : Nat → Option K) (hl close : Nat → K) (j : Nat) (a : K) (s : StState K)
    (hj : 1 ≤ j) (h : atr j = some a) (hprev : stMachine mult atr hl close (j - 1) = some s) :
    stMachine mult atr hl close j = some (stNext mult a (hl j) (close j) s) := by
  obtain ⟨i, rfl⟩ : ∃ i, j = i + 1 := ⟨j - 1, by omega⟩
  simp only [Nat.add_sub_cancel] at hprev
  simp [stMachine, h, hprev]

/-- the direction of every state is `1` or `-1` -/
theorem stMachine_dir (mult : K) (atr : Nat → Option K) (hl close : Nat → K) (j : Nat) (s : StState K)
    (h : stMachine mult atr hl close j = some s) : s.dir = 1 ∨ s.dir = -1 := by
  induction j generalizing s with
  | zero =>
    simp only [stMachine] at h
    cases ha : atr 0 with
    | none => rw [ha] at h; cases h
    | some a => rw [ha] at h; cases h; exact Or.inl rfl
  | succ i ih =>
    simp only [stMachine] at h
    cases ha : atr (i + 1) with
    | none => rw [ha] at h; cases h
    | some a =>
      rw [ha] at h
      cases hs : stMachine mult atr hl close i with
      | none => rw [hs] at h; cases h; exact Or.inl rfl
      | some s' =>
        rw [hs] at h
        cases h
        exact stDir_pm _ _ _ _ (ih s' hs)

/-- there is a state exactly where there is an ATR reading -/
theorem stMachine_isSome (mult : K) (atr : Nat → Option K) (hl close : Nat → K) (j : Nat) (a : K)
    (h : atr j = some a) : ∃ s, stMachine mult atr hl close j = some s := by
  cases j with
  | zero => exact ⟨_, by simp [stMachine, h]⟩
  | succ i =>
    cases hs : stMachine mult atr hl close i with
    | none => exact ⟨_, by simp [stMachine, h, hs]⟩
    | some s => exact ⟨_, by simp [stMachine, h, hs]⟩

/-- the stored ATR column as an optional number -/
def atrOpt (p : Nat) (raw : List (Candle K)) (j : Nat) : Option K :=
  if j < p then none else some (atrSt p (trS raw) j)

/-- **the textbook Supertrend series of the raw candles**: the state machine run on the STORED
helper readings – ATR (`atrSt`: Wilder's average of the stored true ranges, rounded to 4 decimals at
every step) and `HL2` (rounded to 4 decimals) – and the raw closes.  `none` before the first ATR
(index `p`). -/
def stSeries (p : Nat) (mult : K) (raw : List (Candle K)) : Nat → Option (StState K) :=
  stMachine mult (atrOpt p raw) (hlS raw) (fieldAt (·.c) raw)

theorem stSeries_none (p : Nat) (mult : K) (raw : List (Candle K)) (j : Nat) (h : j < p) :
    stSeries p mult raw j = none :=
  stMachine_none _ _ _ _ _ (by simp [atrOpt, h])

theorem stSeries_start (p : Nat) (mult : K) (raw : List (Candle K)) :
    stSeries p mult raw p = some (stStart mult (atrSt p (trS raw) p) (hlS raw p)) := by
  apply stMachine_start _ _ _ _ _ _ (by simp [atrOpt])
  by_cases h0 : p = 0
  · exact Or.inl h0
  · exact Or.inr (stSeries_none p mult raw (p - 1) (by omega))

theorem stSeries_isSome (p : Nat) (mult : K) (raw : List (Candle K)) (j : Nat) (h : p ≤ j) :
    ∃ s, stSeries p mult raw j = some s :=
  stMachine_isSome _ _ _ _ _ (atrSt p (trS raw) j) (by simp [atrOpt]; omega)

theorem stSeries_next (p : Nat) (mult : K) (raw : List (Candle K)) (j : Nat) (s : StState K) (h : p < j)
    (hs : stSeries p mult raw (j - 1) = some s) :
    stSeries p mult raw j
      = some (stNext mult (atrSt p (trS raw) j) (hlS raw j) (fieldAt (·.c) raw j) s) :=
  stMachine_next _ _ _ _ _ _ _ (by omega) (by simp [atrOpt]; omega) hs

theorem stSeries_dir (p : Nat) (mult : K) (raw : List (Candle K)) (j : Nat) (s : StState K)
    (h : stSeries p mult raw j = some s) : s.dir = 1 ∨ s.dir = -1 :=
  stMachine_dir _ _ _ _ _ _ h

/-! ### the predicate -/

/-- own reading and data entry against a state of the machine: without a state nothing is stored in
the data series and the reading is `stNoneDict`; with a state `(D, U, L)` the data entry holds the
two bands EXACTLY (`Managed.set_reading` does not round; `U`, `L` are Python numbers whose values
are the machine's bands) and the reading is `stDict D U L` rounded to `n` decimals -/
def StOK (n : Nat) (s : Option (StState K)) (own : Val K) (data : Option (Val K)) : Prop :=
  match s with
  | none => data = none ∧ own = stNoneDict
  | some st => ∃ U L : Num K, U.toF = st.upper ∧ L.toF = st.lower ∧
      data = some (sdict [("upper", sc U), ("lower", sc L)]) ∧ own = (stDict st.dir U L).roundBy n

/-- what the whole-series theorem says of candle `j` -/
def StRowOK (p n : Nat) (mult : K) (raw : List (Candle K)) (j : Nat) (r : StRow K) : Prop :=
  r.tr = trStored raw j ∧ r.atr = atrStored p raw j ∧ r.hl = hlStored raw j ∧
  StOK n (stSeries p mult raw j) r.own r.data

theorem stNoneDict_round (n : Nat) : (stNoneDict : Val K).roundBy n = stNoneDict := by
  simp [stNoneDict, Val.roundBy, Scalar.roundBy, Num.roundBy]

theorem stDict_round_dir (n : Nat) (D : Int) (U L : Num K) :
    ((stDict D U L).roundBy n).nested "direction" = .int D := by
  simp [stDict, Val.roundBy, Scalar.roundBy, Num.roundBy, Val.nested, dlookup]

theorem bands_lower (U L : Num K) : (sdict [("upper", sc U), ("lower", sc L)] : Val K).nested "lower" = .num L := by
  simp [Val.nested, sdict, sc, dlookup]

theorem bands_upper (U L : Num K) : (sdict [("upper", sc U), ("lower", sc L)] : Val K).nested "upper" = .num U := by
  simp [Val.nested, sdict, sc, dlookup]

/-! ### one row -/

theorem st_row (nm : String) (n : Nat) (p : Int) (input : String) (mult : Num K) (hp : 1 ≤ p)
    (hn : StNames nm) (H : List (Candle K)) (c : Candle K) (tv av hv v : Val K) (d : Option (Val K))
    (hT : valOf (stTr nm) H c = .ok tv)
    (hA : valOf (stA nm p) H (decOf (stTr nm) tv c) = .ok av)
    (hH : valOf (stH nm) H (decOf (stA nm p) av (decOf (stTr nm) tv c)) = .ok hv)
    (hR : stR mult { cs := H ++ [decOf (stH nm) hv (decOf (stA nm p) av (decOf (stTr nm) tv c))],
                     i := H.length, name := nm } = .ok (d, .ok v)) :
    Gen.rowStep (stTree (F := K) nm n p input mult hp hn).S H c
      = .ok (H ++ [stOut nm c ⟨tv.roundBy defaultRound, av.roundBy defaultRound, hv.roundBy defaultRound,
          v.roundBy n, d⟩]) := by
  rw [st_rowStep, hT]
  simp only [pym_bind_ok]
  rw [hA]
  simp only [pym_bind_ok]
  rw [hH]
  simp only [pym_bind_ok]
  rw [hR]
  rfl
end Numeric
end Hex

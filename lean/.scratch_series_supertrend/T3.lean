import HexProofs.Framework.Gen.Supertrend
import HexProofs.Numeric.Supertrend
import HexProofs.Numeric.SeriesATR
import HexProofs.Numeric.SeriesRSI
set_option linter.unusedSectionVars false
set_option linter.unusedSimpArgs false
namespace Hex
namespace Numeric
variable {K : Type} [Field K] [LinearOrder K] [IsStrictOrderedRing K] [LawfulPyF K]

/-- what Supertrend reports while the ATR helper has no reading -/
def stNoneDict : Val K :=
  .dict [("trend", .none), ("direction", .num (.int 1)), ("long", .none), ("short", .none)]

theorem stR_none (x : Ctx K) (mult : Num K) (ha : x.reading (x.name ++ "_atr") = .ok .none) :
    stR mult x = .ok (none, .ok stNoneDict) := by
  simp [stR, ha, sdict, sc, stNoneDict]

theorem stR_first (x : Ctx K) (mult a hl : Num K)
    (ha : x.reading (x.name ++ "_atr") = .ok (.num a))
    (hhl : x.reading (x.name ++ "_HL") = .ok (.num hl))
    (hpl : x.prevReading (x.name ++ "_data.lower") = .ok .none) :
    stR mult x =
      .ok (some (sdict [("upper", sc (hl.add (mult.mul a))), ("lower", sc (hl.sub (mult.mul a)))]),
           .ok (stDict 1 (hl.add (mult.mul a)) (hl.sub (mult.mul a)))) := by
  simp [stR, ha, Ctx.num_of hhl, Ctx.prevExists_of hpl, stDict, Num.eq, sdict, sc]

theorem stR_step (x : Ctx K) (mult a hl close pu pl : Num K) (pd : Int)
    (ha : x.reading (x.name ++ "_atr") = .ok (.num a))
    (hhl : x.reading (x.name ++ "_HL") = .ok (.num hl))
    (hc : x.reading "close" = .ok (.num close))
    (hpl : x.prevReading (x.name ++ "_data.lower") = .ok (.num pl))
    (hpu : x.prevReading (x.name ++ "_data.upper") = .ok (.num pu))
    (hpd : x.prevReading (x.name ++ ".direction") = .ok (.int pd))
    (hd : pd = 1 ∨ pd = -1) :
    ∃ U L : Num K,
      U.toF = stUpper close.toF pu.toF pl.toF pd (hl.toF + mult.toF * a.toF) ∧
      L.toF = stLower close.toF pu.toF pl.toF pd (hl.toF - mult.toF * a.toF) ∧
      stR mult x =
        .ok (some (sdict [("upper", sc U), ("lower", sc L)]), .ok (stDict (stDir close.toF pu.toF pl.toF pd) U L)) := by
  have hone : (Val.int pd : Val K).isIntOne = decide (pd = 1) := by
    rcases hd with rfl | rfl <;> simp [Val.isIntOne, Num.eq]
  by_cases h1 : pu.toF < close.toF
  · have e1 : close.gt pu = true := (Num.gt_iff _ _).2 h1
    by_cases h2 : close.toF < pl.toF
    · have e2 : close.lt pl = true := (Num.lt_iff _ _).2 h2
      refine ⟨hl.add (mult.mul a), hl.sub (mult.mul a), by simp [stUpper, h1], by simp [stLower, h1], ?_⟩
      rcases hd with rfl | rfl <;>
        simp [stR, ha, Ctx.num_of hhl, Ctx.prevExists_of hpl, Ctx.num_of hc, Ctx.prevNum_of hpu,
          Ctx.prevNum_of hpl, hpd, hone, e1, e2, stDict, stDir, h1, h2, Num.eq, sdict, sc]
    · have e2 : close.lt pl = false := (Num.lt_false_iff _ _).2 (not_lt.1 h2)
      refine ⟨hl.add (mult.mul a), hl.sub (mult.mul a), by simp [stUpper, h1], by simp [stLower, h1], ?_⟩
      simp [stR, ha, Ctx.num_of hhl, Ctx.prevExists_of hpl, Ctx.num_of hc, Ctx.prevNum_of hpu,
        Ctx.prevNum_of hpl, hpd, e1, e2, stDict, stDir, h1, h2, Num.eq, sdict, sc]
  · have e1 : close.gt pu = false := (Num.gt_false_iff _ _).2 (not_lt.1 h1)
    by_cases h2 : close.toF < pl.toF
    · have e2 : close.lt pl = true := (Num.lt_iff _ _).2 h2
      refine ⟨hl.add (mult.mul a), hl.sub (mult.mul a), by simp [stUpper, h1, h2], by simp [stLower, h1, h2], ?_⟩
      simp [stR, ha, Ctx.num_of hhl, Ctx.prevExists_of hpl, Ctx.num_of hc, Ctx.prevNum_of hpu,
        Ctx.prevNum_of hpl, hpd, e1, e2, stDict, stDir, h1, h2, Num.eq, sdict, sc]
    · have e2 : close.lt pl = false := (Num.lt_false_iff _ _).2 (not_lt.1 h2)
      rcases hd with rfl | rfl
      · by_cases h3 : hl.toF - mult.toF * a.toF < pl.toF
        · have e3 : (hl.sub (mult.mul a)).lt pl = true := by rw [Num.lt_iff]; simpa using h3
          refine ⟨hl.add (mult.mul a), pl, by simp [stUpper, h1, h2], by simp [stLower, h1, h2, h3], ?_⟩
          simp [stR, ha, Ctx.num_of hhl, Ctx.prevExists_of hpl, Ctx.num_of hc, Ctx.prevNum_of hpu,
            Ctx.prevNum_of hpl, Ctx.prevNum_of hpd, hpd, e1, e2, e3, stDict, stDir, h1, h2, Num.eq, sdict, sc]
        · have e3 : (hl.sub (mult.mul a)).lt pl = false := by rw [Num.lt_false_iff]; simpa using not_lt.1 h3
          refine ⟨hl.add (mult.mul a), hl.sub (mult.mul a), by simp [stUpper, h1, h2], by simp [stLower, h1, h2, h3], ?_⟩
          simp [stR, ha, Ctx.num_of hhl, Ctx.prevExists_of hpl, Ctx.num_of hc, Ctx.prevNum_of hpu,
            Ctx.prevNum_of hpl, Ctx.prevNum_of hpd, hpd, e1, e2, e3, stDict, stDir, h1, h2, Num.eq, sdict, sc]
      · by_cases h3 : pu.toF < hl.toF + mult.toF * a.toF
        · have e3 : (hl.add (mult.mul a)).gt pu = true := by rw [Num.gt_iff]; simpa using h3
          refine ⟨pu, hl.sub (mult.mul a), by simp [stUpper, h1, h2, h3], by simp [stLower, h1, h2], ?_⟩
          simp [stR, ha, Ctx.num_of hhl, Ctx.prevExists_of hpl, Ctx.num_of hc, Ctx.prevNum_of hpu,
            Ctx.prevNum_of hpl, Ctx.prevNum_of hpd, hpd, e1, e2, e3, stDict, stDir, h1, h2, Num.eq, sdict, sc]
        · have e3 : (hl.add (mult.mul a)).gt pu = false := by rw [Num.gt_false_iff]; simpa using not_lt.1 h3
          refine ⟨hl.add (mult.mul a), hl.sub (mult.mul a), by simp [stUpper, h1, h2, h3], by simp [stLower, h1, h2], ?_⟩
          simp [stR, ha, Ctx.num_of hhl, Ctx.prevExists_of hpl, Ctx.num_of hc, Ctx.prevNum_of hpu,
            Ctx.prevNum_of hpl, Ctx.prevNum_of hpd, hpd, e1, e2, e3, stDict, stDir, h1, h2, Num.eq, sdict, sc]

end Numeric
end Hex

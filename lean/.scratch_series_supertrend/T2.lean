import HexProofs.Framework.Gen.Supertrend
import HexProofs.Numeric.Supertrend
import HexProofs.Numeric.SeriesATR
import HexProofs.Numeric.SeriesRSI
set_option linter.unusedSectionVars false
set_option linter.unusedSimpArgs false
namespace Hex
namespace Numeric
variable {K : Type} [Field K] [LinearOrder K] [IsStrictOrderedRing K] [LawfulPyF K]

structure StRow (K : Type) where
  tr : Val K
  atr : Val K
  hl : Val K
  own : Val K
  data : Option (Val K)

def StRow.dflt : StRow K := ⟨.none, .none, .none, .none, none⟩

def stOut (nm : String) (c : Candle K) (r : StRow K) : Candle K :=
  outDS false nm (nm ++ "_data") r.own r.data
    (setKey true (nm ++ "_HL") r.hl (setKey true (nm ++ "_atr") r.atr
      (setKey true (nm ++ "_atr" ++ "_TR") r.tr c)))

section cand
variable (nm : String) (hn : StNames nm)
include hn

theorem stOut_attr (input : String) (hd : NoDot input) (hin : input ∈ Candle.attrNames) (c : Candle K) (r : StRow K) :
    readingByCandle (stOut nm c r) input = readingByCandle c input := by
  unfold stOut
  rw [readingByCandle_outDS false nm (nm ++ "_data") input (indep_attr _ _ hd hin) (indep_attr _ _ hd hin),
    indep_attr (F := K) _ input hd hin, indep_attr (F := K) _ input hd hin, indep_attr (F := K) _ input hd hin]

theorem stOut_tr (c : Candle K) (hc : Plain c) (r : StRow K) :
    readingByCandle (stOut nm c r) (nm ++ "_atr" ++ "_TR") = r.tr := by
  unfold stOut
  rw [readingByCandle_outDS false nm (nm ++ "_data") _ (indep_key _ _ hn.kT hn.nT) (indep_key _ _ hn.kT hn.TD.symm),
    indep_key (F := K) _ _ hn.kT hn.TH.symm, indep_key (F := K) _ _ hn.kT hn.AT,
    readingByCandle_setKey true _ hn.kT _ _ hc]

theorem stOut_atr (c : Candle K) (hc : Plain c) (r : StRow K) :
    readingByCandle (stOut nm c r) (nm ++ "_atr") = r.atr := by
  unfold stOut
  rw [readingByCandle_outDS false nm (nm ++ "_data") _ (indep_key _ _ hn.kA hn.nA) (indep_key _ _ hn.kA hn.AD.symm),
    indep_key (F := K) _ _ hn.kA hn.AH.symm, readingByCandle_key _ hn.kA]
  obtain ⟨hi, hs⟩ := hc
  simp [lookupKey, setKey, hi, hs, dset, dlookup]

theorem stOut_dir (c : Candle K) (hc : Plain c) (r : StRow K) :
    readingByCandle (stOut nm c r) (nm ++ ".direction") = r.own.nested "direction" := by
  unfold readingByCandle
  rw [hn.dir]
  obtain ⟨hi, hs⟩ := hc
  cases hd : r.data <;> simp [stOut, outDS, setD, setKey, hi, hs, dset, dlookup, hd]

theorem stOut_field (fld full : String) (hsplit : splitDot full = [nm ++ "_data", fld]) (c : Candle K) (hc : Plain c) (r : StRow K) :
    readingByCandle (stOut nm c r) full
      = match r.data with | some d => d.nested fld | none => .none := by
  unfold readingByCandle
  rw [hsplit]
  obtain ⟨hi, hs⟩ := hc
  have h1 := hn.nD
  have h2 := hn.AD
  have h3 := hn.TD
  have h4 := hn.HD
  unfold stOut
  generalize nm ++ "_atr" ++ "_TR" = T at *
  generalize nm ++ "_atr" = A at *
  generalize nm ++ "_HL" = H at *
  generalize nm ++ "_data" = D at *
  cases hd : r.data <;>
    simp [stOut, outDS, setD, setKey, hi, hs, dlookup_dset, hd, h1, h2, h3, h4]

theorem stOut_lower (c : Candle K) (hc : Plain c) (r : StRow K) :
    readingByCandle (stOut nm c r) (nm ++ "_data.lower")
      = match r.data with | some d => d.nested "lower" | none => .none :=
  stOut_field nm hn "lower" _ hn.lower c hc r

theorem stOut_upper (c : Candle K) (hc : Plain c) (r : StRow K) :
    readingByCandle (stOut nm c r) (nm ++ "_data.upper")
      = match r.data with | some d => d.nested "upper" | none => .none :=
  stOut_field nm hn "upper" _ hn.upper c hc r

theorem stOut_own (hk : IsKey nm) (c : Candle K) (hc : Plain c) (r : StRow K) :
    readingByCandle (stOut nm c r) nm = r.own := by
  rw [readingByCandle_key nm hk]
  obtain ⟨hi, hs⟩ := hc
  cases hd : r.data <;> simp [stOut, lookupKey, outDS, setD, setKey, hi, hs, dset, dlookup, hd]

theorem stOut_hl (c : Candle K) (hc : Plain c) (r : StRow K) :
    readingByCandle (stOut nm c r) (nm ++ "_HL") = r.hl := by
  unfold stOut
  rw [readingByCandle_outDS false nm (nm ++ "_data") _ (indep_key _ _ hn.kH hn.nH) (indep_key _ _ hn.kH hn.HD.symm),
    readingByCandle_key _ hn.kH]
  obtain ⟨hi, hs⟩ := hc
  simp [lookupKey, setKey, hi, hs, dset, dlookup, hn.AH, hn.AH.symm, hn.TH, hn.TH.symm]

theorem stOut_bare (c : Candle K) (r : StRow K) : (stOut nm c r).bare = c.bare := by
  unfold stOut outDS setD
  cases r.data <;> simp [bare_setKey]

end cand
end Numeric
end Hex

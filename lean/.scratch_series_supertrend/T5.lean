
/-! ### the textbook series -/

/-- exact `HL2` of candle `j` -/
def hlExact (raw : List (Candle K)) (j : Nat) : K := (fieldAt (·.h) raw j + fieldAt (·.l) raw j) / 2

/-- the `HL2` helper's stored reading as a number: rounded to `defaultRound = 4` decimals -/
def hlS (raw : List (Candle K)) (j : Nat) : K := PyF.round defaultRound (hlExact raw j)

/-- the reading stored under `name_HL` on candle `j` -/
def hlStored (raw : List (Candle K)) (j : Nat) : Val K := .flt (hlS raw j)

theorem hlS_err (raw : List (Candle K)) (j : Nat) : |hlS raw j - hlExact raw j| ≤ eps K defaultRound :=
  LawfulPyF.round_err _ _

/-- the state of the Supertrend machine: direction (`1` up / `-1` down) and the two bands -/
structure StState (K : Type) where
  dir : Int
  upper : K
  lower : K

/-- the first state: plain bands `HL2 ± m·ATR`, direction up -/
def stStart (mult a hl : K) : StState K := ⟨1, hl + mult * a, hl - mult * a⟩

/-- one transition: new direction from the close against the PREVIOUS bands, bands ratcheted -/
def stNext (mult a hl close : K) (s : StState K) : StState K :=
  ⟨stDir close s.upper s.lower s.dir,
   stUpper close s.upper s.lower s.dir (hl + mult * a),
   stLower close s.upper s.lower s.dir (hl - mult * a)⟩

/-- **the textbook Supertrend state machine** over an ATR series (`none` = no reading), an `HL2`
series and the closes: no state while there is no ATR, `stStart` at an index with an ATR whose
predecessor has no state, `stNext` otherwise -/
def stMachine (mult : K) (atr : Nat → Option K) (hl close : Nat → K) : Nat → Option (StState K)
  | 0 => match atr 0 with
    | none => none
    | some a => some (stStart mult a (hl 0))
  | j + 1 => match atr (j + 1) with
    | none => none
    | some a => match stMachine mult atr hl close j with
      | none => some (stStart mult a (hl (j + 1)))
      | some s => some (stNext mult a (hl (j + 1)) (close (j + 1)) s)

theorem stMachine_none (mult : K) (atr : Nat → Option K) (hl close : Nat → K) (j : Nat) (h : atr j = none) :
    stMachine mult atr hl close j = none := by
  cases j <;> simp [stMachine, h]

theorem stMachine_start (mult : K) (atr : Nat → Option K) (hl close : Nat → K) (j : Nat) (a : K)
    (h : atr j = some a) (hprev : j = 0 ∨ stMachine mult atr hl close (j - 1) = none) :
    stMachine mult atr hl close j = some (stStart mult a (hl j)) := by
  cases j with
  | zero => simp [stMachine, h]
  | succ i =>
    rcases hprev with h0 | h0
    · omega
    · simp only [Nat.add_sub_cancel] at h0
      simp [stMachine, h, h0]

theorem stMachine_next (mult : K) (atr : Nat → Option K) (hl close : Nat → K) (j : Nat) (a : K) (s : StState K)
    (hj : 1 ≤ j) (h : atr j = some a) (hprev : stMachine mult atr hl close (j - 1) = some s) :
    stMachine mult atr hl close j = some (stNext mult a (hl j) (close j) s) := by
  obtain ⟨i, rfl⟩ : ∃ i, j = i + 1 := ⟨j - 1, by omega⟩
  simp only [Nat.add_sub_cancel] at hprev
  simp [stMachine, h, hprev]

/-- the direction of every state is `1` or `-1` -/
theorem stMachine_dir (mult : K) (atr : Nat → Option K) (hl close : Nat → K) (j : Nat) (s : StState K)
    (h : stMachine mult atr hl close j = some s) : s.dir = 1 ∨ s.dir = -1 := by
  induction j generalizing s with
  | zero =>
    simp only [stMachine] at h
    cases ha : atr 0 with
    | none => rw [ha] at h; cases h
    | some a => rw [ha] at h; cases h; exact Or.inl rfl
  | succ i ih =>
    simp only [stMachine] at h
    cases ha : atr (i + 1) with
    | none => rw [ha] at h; cases h
    | some a =>
      rw [ha] at h
      cases hs : stMachine mult atr hl close i with
      | none => rw [hs] at h; cases h; exact Or.inl rfl
      | some s' =>
        rw [hs] at h
        cases h
        exact stDir_pm _ _ _ _ (ih s' hs)

/-- there is a state exactly where there is an ATR reading -/
theorem stMachine_isSome (mult : K) (atr : Nat → Option K) (hl close : Nat → K) (j : Nat) (a : K)
    (h : atr j = some a) : ∃ s, stMachine mult atr hl close j = some s := by
  cases j with
  | zero => exact ⟨_, by simp [stMachine, h]⟩
  | succ i =>
    cases hs : stMachine mult atr hl close i with
    | none => exact ⟨_, by simp [stMachine, h, hs]⟩
    | some s => exact ⟨_, by simp [stMachine, h, hs]⟩

/-- the stored ATR column as an optional number -/
def atrOpt (p : Nat) (raw : List (Candle K)) (j : Nat) : Option K :=
  if j < p then none else some (atrSt p (trS raw) j)

/-- **the textbook Supertrend series of the raw candles**: the state machine run on the STORED
helper readings – ATR (`atrSt`: Wilder's average of the stored true ranges, rounded to 4 decimals at
every step) and `HL2` (rounded to 4 decimals) – and the raw closes.  `none` before the first ATR
(index `p`). -/
def stSeries (p : Nat) (mult : K) (raw : List (Candle K)) : Nat → Option (StState K) :=
  stMachine mult (atrOpt p raw) (hlS raw) (fieldAt (·.c) raw)

theorem stSeries_none (p : Nat) (mult : K) (raw : List (Candle K)) (j : Nat) (h : j < p) :
    stSeries p mult raw j = none :=
  stMachine_none _ _ _ _ _ (by simp [atrOpt, h])

theorem stSeries_start (p : Nat) (mult : K) (raw : List (Candle K)) :
    stSeries p mult raw p = some (stStart mult (atrSt p (trS raw) p) (hlS raw p)) := by
  apply stMachine_start _ _ _ _ _ _ (by simp [atrOpt])
  by_cases h0 : p = 0
  · exact Or.inl h0
  · exact Or.inr (stSeries_none p mult raw (p - 1) (by omega))

theorem stSeries_isSome (p : Nat) (mult : K) (raw : List (Candle K)) (j : Nat) (h : p ≤ j) :
    ∃ s, stSeries p mult raw j = some s :=
  stMachine_isSome _ _ _ _ _ (atrSt p (trS raw) j) (by simp [atrOpt]; omega)

theorem stSeries_next (p : Nat) (mult : K) (raw : List (Candle K)) (j : Nat) (s : StState K) (h : p < j)
    (hs : stSeries p mult raw (j - 1) = some s) :
    stSeries p mult raw j
      = some (stNext mult (atrSt p (trS raw) j) (hlS raw j) (fieldAt (·.c) raw j) s) :=
  stMachine_next _ _ _ _ _ _ _ (by omega) (by simp [atrOpt]; omega) hs

theorem stSeries_dir (p : Nat) (mult : K) (raw : List (Candle K)) (j : Nat) (s : StState K)
    (h : stSeries p mult raw j = some s) : s.dir = 1 ∨ s.dir = -1 :=
  stMachine_dir _ _ _ _ _ _ h

/-! ### the predicate -/

/-- own reading and data entry against a state of the machine: without a state nothing is stored in
the data series and the reading is `stNoneDict`; with a state `(D, U, L)` the data entry holds the
two bands EXACTLY (`Managed.set_reading` does not round; `U`, `L` are Python numbers whose values
are the machine's bands) and the reading is `stDict D U L` rounded to `n` decimals -/
def StOK (n : Nat) (s : Option (StState K)) (own : Val K) (data : Option (Val K)) : Prop :=
  match s with
  | none => data = none ∧ own = stNoneDict
  | some st => ∃ U L : Num K, U.toF = st.upper ∧ L.toF = st.lower ∧
      data = some (sdict [("upper", sc U), ("lower", sc L)]) ∧ own = (stDict st.dir U L).roundBy n

/-- what the whole-series theorem says of candle `j` -/
def StRowOK (p n : Nat) (mult : K) (raw : List (Candle K)) (j : Nat) (r : StRow K) : Prop :=
  r.tr = trStored raw j ∧ r.atr = atrStored p raw j ∧ r.hl = hlStored raw j ∧
  StOK n (stSeries p mult raw j) r.own r.data

theorem stNoneDict_round (n : Nat) : (stNoneDict : Val K).roundBy n = stNoneDict := by
  simp [stNoneDict, Val.roundBy, Scalar.roundBy, Num.roundBy]

theorem stDict_round_dir (n : Nat) (D : Int) (U L : Num K) :
    ((stDict D U L).roundBy n).nested "direction" = .int D := by
  simp [stDict, Val.roundBy, Scalar.roundBy, Num.roundBy, Val.nested, dlookup]

theorem bands_lower (U L : Num K) : (sdict [("upper", sc U), ("lower", sc L)] : Val K).nested "lower" = .num L := by
  simp [Val.nested, sdict, sc, dlookup]

theorem bands_upper (U L : Num K) : (sdict [("upper", sc U), ("lower", sc L)] : Val K).nested "upper" = .num U := by
  simp [Val.nested, sdict, sc, dlookup]

/-! ### one row -/

theorem st_row (nm : String) (n : Nat) (p : Int) (input : String) (mult : Num K) (hp : 1 ≤ p)
    (hn : StNames nm) (H : List (Candle K)) (c : Candle K) (tv av hv v : Val K) (d : Option (Val K))
    (hT : valOf (stTr nm) H c = .ok tv)
    (hA : valOf (stA nm p) H (decOf (stTr nm) tv c) = .ok av)
    (hH : valOf (stH nm) H (decOf (stA nm p) av (decOf (stTr nm) tv c)) = .ok hv)
    (hR : stR mult { cs := H ++ [decOf (stH nm) hv (decOf (stA nm p) av (decOf (stTr nm) tv c))],
                     i := H.length, name := nm } = .ok (d, .ok v)) :
    Gen.rowStep (stTree (F := K) nm n p input mult hp hn).S H c
      = .ok (H ++ [stOut nm c ⟨tv.roundBy defaultRound, av.roundBy defaultRound, hv.roundBy defaultRound,
          v.roundBy n, d⟩]) := by
  rw [st_rowStep, hT]
  simp only [pym_bind_ok]
  rw [hA]
  simp only [pym_bind_ok]
  rw [hH]
  simp only [pym_bind_ok]
  rw [hR]
  rfl

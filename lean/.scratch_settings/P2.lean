import HexProofs.Facade.Settings
namespace Hex.Settings
open Hex
variable {F : Type}

/-! ### the domain of the round trip -/

/-- a timeframe string as `validate_timeframe` leaves it: first character S/T/H/D, upper-casing changes nothing -/
def tfOk (s : String) : Bool :=
  match s.toList with
  | p :: _ => (p == 'S' || p == 'T' || p == 'H' || p == 'D') && (s.toList.map Char.toUpper == s.toList)
  | [] => false

/-- the analysis function can be named in a dict: it is a value of `PATTERN_MAP | MOVEMENT_MAP` -/
def AnaFn.inMaps : AnaFn → Bool
  | .above | .below => false
  | _ => true

/-- what the class adds to the domain -/
def IndCfg.clsOk (c : IndCfg F) : Bool :=
  match c.cls with
  | .macd f s _ _ => decide (f ≤ s)                 -- `_validate_fields` ordered them
  | .counter _ cv => !cv.isNone                     -- a `None` field is not emitted
  | .amorph fn args =>
    fn.inMaps && decide ((args.map Prod.fst).Nodup)   -- a dict has distinct keys
    -- `Amorph.settings` keeps truthy values only:
    && c.fullname_override != some "" && c.name_suffix != some "" && c.round_value != 0
    && c.candles_lifespan != some 0
  | _ => true

def IndCfg.validB (c : IndCfg F) : Bool :=
  (match c.timeframe with
   | some s => tfOk s
   | none => !c.timeframe_fill)                     -- `timeframe_fill` is emitted only with a timeframe
  && c.clsOk

/-- post-`__post_init__` objects whose `settings` determine them -/
def IndCfg.Valid (c : IndCfg F) : Prop := c.validB = true

instance (c : IndCfg F) : Decidable c.Valid := by unfold IndCfg.Valid; infer_instance

theorem tfOk_validate {s : String} (h : tfOk s = true) : validateTimeframe s = .ok s := by
  unfold tfOk at h
  have hu : ∀ hl : s.toList.map Char.toUpper = s.toList, s.toUpper = s := fun hl => by
    apply String.toList_inj.mp
    rw [String.toUpper, String.toList_map, hl]
  cases hs : s.toList with
  | nil => simp [hs] at h
  | cons p r =>
    simp only [hs, Bool.and_eq_true, Bool.or_eq_true, beq_iff_eq] at h
    have hup := hu (by rw [hs]; exact h.2)
    simp only [validateTimeframe, hup, hs]
    rw [if_pos (by simpa [or_assoc] using h.1)]

theorem tfOk_ne_empty {s : String} (h : tfOk s = true) : s ≠ "" := by
  intro he; subst he; simp [tfOk] at h

theorem validateCs_minimal (t : CsType) : validateCs (.name t.minimalName) = .ok t := by
  cases t; rfl

theorem ofMapKey_name {fn : AnaFn} (h : fn.inMaps = true) : AnaFn.ofMapKey fn.name = some fn := by
  cases fn <;> first | rfl | simp [AnaFn.inMaps] at h

theorem anaName_ne_empty (fn : AnaFn) : fn.name ≠ "" := by
  cases fn <;> decide

end Hex.Settings

#check @String.toList_inj
#check @String.ext
#check @String.toList_injective
example : ("T5".toList.map Char.toUpper = "T5".toList) := by decide
example (s : String) (h : s.toList.map Char.toUpper = s.toList) : s.toUpper = s := by
  apply String.toList_inj.mp
  rw [String.toUpper, String.toList_map, h]
example : ("" = "a") = False := by simp
example (s : String) : (s.isEmpty = true) ↔ s = "" := by exact?

import HexProofs.Framework.Gen.ADX
namespace Hex
open Adx
set_option linter.unusedSectionVars false
variable {F : Type} [PyF F]
variable (name : String) (round : Nat) (p signal : Int)
/-- **the node's step on `H ++ c :: rest`**: compute from `H` and `c` only, store on `c` -/
theorem stepWith_adxC (hn : AdxNames name) (hp : 1 ≤ p) (hs : 1 ≤ signal) (H : List (Candle F)) (c : Candle F)
    (rest : List (Candle F)) :
    stepWith (adxP name round p signal) (adxC name p signal) (H ++ c :: rest) H.length = (do
      let z ← adxVal name p signal H c
      pure (H ++ adxApp name round z c :: rest)) := by
  have hpost : ∀ (v : Val F) (cs' : List (Candle F)),
      (fun (r : Val F × List (Candle F)) => match r with
        | (v, cs') => setReading (adxP (F := F) name round p signal).isSub (adxP (F := F) name round p signal).name
            cs' H.length (v.roundBy (adxP (F := F) name round p signal).round)) (v, cs')
        = setReading false name cs' H.length (v.roundBy round) := fun _ _ => rfl
  show (adxC name p signal (H ++ c :: rest) H.length >>= fun (r : Val F × List (Candle F)) => match r with
        | (v, cs') => setReading (adxP (F := F) name round p signal).isSub (adxP (F := F) name round p signal).name
            cs' H.length (v.roundBy (adxP (F := F) name round p signal).round)) = _
  unfold adxC adxVal
  rw [adx_unfold]
  by_cases hpos : (H.length : Int) > 0
  · have hd : (!decide ((H.length : Int) > 0)) = false := by simp only [hpos, decide_true, Bool.not_true]
    simp only [hd, Bool.false_eq_true, if_false, Ctx.num_cur, num_back H c rest name _ hpos]
    cases (readingByCandle c "high").asNum with
    | error e => simp only [bind_err']
    | ok hi =>
      simp only [bind_ok']
      cases (Ctx.lastReading "high" H).asNum with
      | error e => simp only [bind_err']
      | ok hpv =>
        simp only [bind_ok']
        cases (Ctx.lastReading "low" H).asNum with
        | error e => simp only [bind_err']
        | ok lp =>
          simp only [bind_ok']
          cases (readingByCandle c "low").asNum with
          | error e => simp only [bind_err']
          | ok lo =>
            simp only [bind_ok']
            exact adxK1_cur name round p signal hn hp hs H c rest _ _ _ hpost
  · have hd : (!decide ((H.length : Int) > 0)) = true := by simp only [hpos, decide_false, Bool.not_false]
    simp only [hd, if_true, pure_bind, bind_ok', setReading_eq, updateAt_append_cons]
    rfl

end Hex

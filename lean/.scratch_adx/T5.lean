import HexProofs.Framework.Gen.ADX
namespace Hex
open Adx
set_option linter.unusedSectionVars false
variable {F : Type} [PyF F]
variable (name : String) (round : Nat) (p signal : Int)

theorem t_b (H : List (Candle F)) (c : Candle F)
    (rest : List (Candle F)) (post : Val F × List (Candle F) → PyM (List (Candle F))) 
    (hpos : (H.length : Int) > 0) :
    (adxC name p signal (H ++ c :: rest) H.length >>= post) = (do
      let z ← adxVal name p signal H c
      pure (H ++ adxApp name round z c :: rest)) := by
  unfold adxC adxVal
  rw [adx_unfold]
  have hd : (!decide ((H.length : Int) > 0)) = false := by simp only [hpos, decide_true, Bool.not_true]
  simp only [hd, Bool.false_eq_true, if_false, Ctx.num_cur, num_back H c rest name _ hpos]
  cases (readingByCandle c "high").asNum with
  | error e => rfl
  | ok hi =>
      simp only [bind_ok']
      sorry
end Hex

import HexProofs.Framework.Gen.ADX
namespace Hex
open Adx
set_option linter.unusedSectionVars false
variable {F : Type} [PyF F]
variable (name : String) (round : Nat) (p signal : Int)

theorem t_show (H : List (Candle F)) (c : Candle F)
    (rest : List (Candle F)) :
    stepWith (adxP name round p signal) (adxC name p signal) (H ++ c :: rest) H.length = 
  (adxC name p signal (H ++ c :: rest) H.length >>= fun (r : Val F × List (Candle F)) => match r with
        | (v, cs') => setReading (adxP (F := F) name round p signal).isSub (adxP (F := F) name round p signal).name
            cs' H.length (v.roundBy (adxP (F := F) name round p signal).round)) := by
  rfl

theorem t_neg (H : List (Candle F)) (c : Candle F)
    (rest : List (Candle F)) (hpos : ¬ (H.length : Int) > 0) :
  ((if (!decide ((H.length : Int) > 0)) = true then (pure (adxNone3, H ++ c :: rest) : PyM (Val F × List (Candle F)))
   else Except.error .fuel) >>= fun (r : Val F × List (Candle F)) => match r with
        | (v, cs') => setReading (adxP (F := F) name round p signal).isSub (adxP (F := F) name round p signal).name
            cs' H.length (v.roundBy (adxP (F := F) name round p signal).round)) = (do
      let z ← (if (!decide ((H.length : Int) > 0)) = true then (Except.ok (none, adxNone3) : PyM (AdxW F)) else Except.error .fuel)
      pure (H ++ adxApp name round z c :: rest)) := by
  have hd : (!decide ((H.length : Int) > 0)) = true := by simp only [hpos, decide_false, Bool.not_false]
  simp only [hd, if_true, pure_bind, bind_ok', setReading_eq, updateAt_append_cons]
  rfl
end Hex

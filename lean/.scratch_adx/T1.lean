import HexProofs.Framework.Gen.ADX
namespace Hex
variable {F : Type} [PyF F]

def adxMid {α : Type} (atr pos : Val F) (negN : PyM (Num F)) (K : Num F → Num F → Num F → PyM α) : PyM α := do
  let a ← atr.asNum
  let mod : Num F ← if a.eq (.int 0) then pure (fl 0) else (Num.int 100 : Num F).truediv a
  let plus := mod.mul (← pos.asNum)
  let minus := mod.mul (← negN)
  let diSum := plus.add minus
  let dx : Num F ← if diSum.eq (.int 0) then pure (fl 0) else
    ((Num.int 100).mul (plus.sub minus).abs).truediv diSum
  K plus minus dx

def adxK3 (ops : Ops F) (x : Ctx F) (positive negative plus minus dx : Num F) (cs : List (Candle F)) :
    PyM (Val F × List (Candle F)) := do
  let cs ← ops.setManaged "ADX_data"
    (sdict [("pos", sc positive), ("neg", sc negative), ("dx", sc dx)]) cs
  let cs ← ops.calcManaged "dx" cs
  let dxr ← ({ x with cs := cs } : Ctx F).reading (x.name ++ "_dx")
  return (sdict [("ADX", ← Val.toScalar dxr), ("DM_Plus", sc plus), ("DM_Neg", sc minus)], cs)

def adxK2 (ops : Ops F) (x : Ctx F) (positive negative : Num F) (cs : List (Candle F)) :
    PyM (Val F × List (Candle F)) := do
  let atr ← ({ x with cs := cs } : Ctx F).reading (x.name ++ "_atr")
  let pos ← ({ x with cs := cs } : Ctx F).reading (x.name ++ "_pos")
  if atr.isNone || pos.isNone then return (adxNone3, cs)
  else
    (adxMid atr pos (({ x with cs := cs } : Ctx F).num (x.name ++ "_neg"))
      (fun plus minus dx => adxK3 ops x positive negative plus minus dx cs))

def adxK1 (ops : Ops F) (x : Ctx F) (up down : Num F) : PyM (Val F × List (Candle F)) := do
  let positive : Num F := if up.gt down && up.gt (.int 0) then up else .int 0
  let negative : Num F := if down.gt up && down.gt (.int 0) then down else .int 0
  let cs ← ops.setManaged "ADX_data" (sdict [("pos", sc positive), ("neg", sc negative)]) x.cs
  adxK2 ops x positive negative cs

theorem adx_unfold (ops : Ops F) (x : Ctx F) :
    Calc.adx ops x = (if !(x.i > 0) then return (adxNone3, x.cs) else do
      let hi ← x.num "high"
      let hp ← x.num "high" (some (x.i - 1))
      let lp ← x.num "low" (some (x.i - 1))
      let lo ← x.num "low"
      adxK1 ops x (hi.sub hp) (lp.sub lo)) := rfl
end Hex

import HexProps.C10
import HexProofs.Numeric.SeriesRSI
import HexProofs.Numeric.SeriesSTOCH
import HexProofs.Numeric.SeriesWindows
import HexProofs.Numeric.SeriesADX
import HexProofs.Numeric.SeriesTSI
import HexProofs.Numeric.SeriesStdevBB
import HexProofs.Numeric.SeriesKC
import HexProofs.Numeric.SeriesATR
import HexProofs.Numeric.SeriesSupertrend
import HexProofs.Numeric.SeriesUtility
namespace Hex.C10
open Hex Hex.Numeric
variable {K : Type} [Field K] [LinearOrder K] [IsStrictOrderedRing K] [LawfulPyF K]

/-! STDEV -/
theorem sdCandle_nonneg {p n : Nat} {nm : String} {x : Nat → K} {j : Nat} {c : Candle K}
    (h : SdCandleOK p n nm x j c) :
    (j < p → readingByCandle c nm = .none) ∧ (p ≤ j → ∃ y, readingByCandle c nm = .flt y ∧ 0 ≤ y) := by
  have hs := h.1
  unfold stdevSeries at hs
  refine ⟨fun hjp => by rw [if_pos hjp] at hs; exact hs, fun hjp => ?_⟩
  rw [if_neg (by omega)] at hs
  obtain ⟨y, hy, _, h0⟩ := hs
  exact ⟨y, hy, h0⟩

theorem stdev_run_nonneg [NonnegSqrt K] (p : Nat) (hp : 1 ≤ p) (nm input : String) (fld : Candle K → Num K)
    (n : Nat) (hn : SdNames nm) (hin : NoDot input ∧ input ∈ Candle.attrNames)
    (hattr : ∀ c : Candle K, c.attr input = some (.num (fld c)))
    (raw : List (Candle K)) (hraw : ∀ c ∈ raw, Plain c) :
    ∃ out : List (Candle K),
      candlesOf (runIndicator (mkTop (.stdev (p : Int) input : Kind K) nm n) {} raw []) = .ok out ∧
      out.length = raw.length ∧
      ∀ j, j < raw.length →
        (j < p → readingByCandle (out.getD j default) nm = .none) ∧
        (p ≤ j → ∃ y, readingByCandle (out.getD j default) nm = .flt y ∧ 0 ≤ y) := by
  obtain ⟨rows, _, hrun, _⟩ := stdev_series_batch p hp nm input fld n hn hin hattr raw hraw
  obtain ⟨hl, hall⟩ := stdev_batch_readings p hp nm input fld n hn hin hattr raw hraw _ hrun
  exact ⟨_, hrun, hl, fun j hj => sdCandle_nonneg (hall j hj)⟩

theorem stdev_live_nonneg [NonnegSqrt K] (p : Nat) (hp : 1 ≤ p) (nm input : String) (fld : Candle K → Num K)
    (n : Nat) (hn : SdNames nm) (hin : NoDot input ∧ input ∈ Candle.attrNames)
    (hattr : ∀ c : Candle K, c.attr input = some (.num (fld c)))
    (init : List (Candle K)) (chunks : List (List (Candle K)))
    (hraw : ∀ c ∈ init ++ chunks.flatten, Plain c) (snap : List (Candle K))
    (hsnap : candlesOf (runIndicator (mkTop (.stdev (p : Int) input : Kind K) nm n) {} init chunks) = .ok snap) :
    snap.length = (init ++ chunks.flatten).length ∧
    ∀ j, j < (init ++ chunks.flatten).length →
      (j < p → readingByCandle (snap.getD j default) nm = .none) ∧
      (p ≤ j → ∃ y, readingByCandle (snap.getD j default) nm = .flt y ∧ 0 ≤ y) := by
  obtain ⟨rows, hl, rfl, hall⟩ := stdev_series_live p hp nm input fld n hn hin hattr init chunks hraw snap hsnap
  refine ⟨decoWith_length _ _ _ hl, fun j hj => ?_⟩
  rw [decoSd_getD nm _ rows hl j hj]
  exact sdCandle_nonneg (sdCandleOK_of p n hp nm hn _ j _ (getD_plain _ hraw j hj) _ (hall j hj))

/-! Supertrend -/
theorem stCandle_shape {p n : Nat} {mult : K} {nm : String} {raw : List (Candle K)} {j : Nat} {c : Candle K}
    (h : StCandleOK p n mult nm raw j c) :
    (j < p → readingByCandle c nm = stNoneDict) ∧
    (p ≤ j → ∃ t : Num K,
      readingByCandle c nm
        = .dict [("trend", .num t), ("direction", .num (.int 1)), ("long", .num t), ("short", .none)] ∨
      readingByCandle c nm
        = .dict [("trend", .num t), ("direction", .num (.int (-1))), ("long", .none), ("short", .num t)]) := by
  obtain ⟨_, _, _, _, h5, _⟩ := h
  refine ⟨fun hjp => ?_, fun hjp => ?_⟩
  · rw [stSeries_none p mult raw j hjp] at h5; exact h5
  · obtain ⟨s, hs⟩ := stSeries_isSome p mult raw j hjp
    rw [hs] at h5
    obtain ⟨U, L, _, _, h | h⟩ := StOwnOK.fields (stSeries_dir p mult raw j s hs) h5
    · exact ⟨L, Or.inl h.2⟩
    · exact ⟨U, Or.inr h.2⟩

theorem supertrend_run_shape (p : Nat) (hp : 1 ≤ p) (nm input : String) (mult : Num K) (n : Nat)
    (hn : StNames nm) (hk : IsKey nm) (raw : List (Candle K)) (hraw : ∀ c ∈ raw, Plain c) :
    ∃ out : List (Candle K), out.length = raw.length ∧
      candlesOf (runIndicator (mkTop (.supertrend (p : Int) input mult : Kind K) nm n) {} raw []) = .ok out ∧
      ∀ j, j < raw.length →
        (j < p → readingByCandle (out.getD j default) nm = stNoneDict) ∧
        (p ≤ j → ∃ t : Num K,
          readingByCandle (out.getD j default) nm
            = .dict [("trend", .num t), ("direction", .num (.int 1)), ("long", .num t), ("short", .none)] ∨
          readingByCandle (out.getD j default) nm
            = .dict [("trend", .num t), ("direction", .num (.int (-1))), ("long", .none), ("short", .num t)]) := by
  obtain ⟨out, hl, hrun, hall⟩ := st_series_batch p hp nm input mult n hn hk raw hraw
  exact ⟨out, hl, hrun, fun j hj => stCandle_shape (hall j hj)⟩

theorem supertrend_live_shape (p : Nat) (hp : 1 ≤ p) (nm input : String) (mult : Num K) (n : Nat)
    (hn : StNames nm) (hk : IsKey nm) (init : List (Candle K)) (chunks : List (List (Candle K)))
    (hraw : ∀ c ∈ init ++ chunks.flatten, Plain c) (snap : List (Candle K))
    (hsnap : candlesOf (runIndicator (mkTop (.supertrend (p : Int) input mult : Kind K) nm n) {} init chunks) = .ok snap) :
    snap.length = (init ++ chunks.flatten).length ∧
    ∀ j, j < (init ++ chunks.flatten).length →
      (j < p → readingByCandle (snap.getD j default) nm = stNoneDict) ∧
      (p ≤ j → ∃ t : Num K,
        readingByCandle (snap.getD j default) nm
          = .dict [("trend", .num t), ("direction", .num (.int 1)), ("long", .num t), ("short", .none)] ∨
        readingByCandle (snap.getD j default) nm
          = .dict [("trend", .num t), ("direction", .num (.int (-1))), ("long", .none), ("short", .num t)]) := by
  obtain ⟨hl, hall⟩ := st_series_live p hp nm input mult n hn hk init chunks hraw snap hsnap
  exact ⟨hl, fun j hj => stCandle_shape (hall j hj)⟩

/-! Counter -/
theorem counter_live_moves {F : Type} [PyF F] (nm input : String) (fld : Candle F → Num F) (cv : Scalar F)
    (n : Nat) (hk : IsKey nm) (hin : AttrInput input) (hattr : ∀ c : Candle F, c.attr input = some (.num (fld c)))
    (init : List (Candle F)) (chunks : List (List (Candle F)))
    (hraw : ∀ c ∈ init ++ chunks.flatten, Plain c) :
    ∃ (vs : List (Val F)) (cnt : Nat → Nat), vs.length = (init ++ chunks.flatten).length ∧
      candlesOf (runIndicator (mkTop (.counter input cv) nm n) {} init chunks)
        = .ok (deco nm (init ++ chunks.flatten) vs) ∧
      (∀ j, j < (init ++ chunks.flatten).length → vs.getD j .none = .int (cnt j : Int)) ∧
      (cnt 0 = 0 ∨ cnt 0 = 1) ∧ ∀ j, cnt (j + 1) = cnt j + 1 ∨ cnt (j + 1) = 0 := by
  obtain ⟨vs, h1, h2, h3⟩ := counter_series_live nm input fld cv n hk hin hattr init chunks hraw
  refine ⟨vs, _, h1, h2, h3, ?_, fun j => ?_⟩
  · show cntStep cv 0 _ = 0 ∨ cntStep cv 0 _ = 1
    unfold cntStep
    split_ifs <;> simp
  · rw [runLen_field_succ]
    split_ifs <;> simp

end Hex.C10

import HexProps.C10
import HexProofs.Numeric.SeriesRSI
import HexProofs.Numeric.SeriesSTOCH
import HexProofs.Numeric.SeriesWindows
import HexProofs.Numeric.SeriesADX
import HexProofs.Numeric.SeriesTSI
import HexProofs.Numeric.SeriesStdevBB
import HexProofs.Numeric.SeriesKC
import HexProofs.Numeric.SeriesATR
import HexProofs.Numeric.SeriesSupertrend
import HexProofs.Numeric.SeriesUtility
namespace Hex.C10
open Hex Hex.Numeric
variable {K : Type} [Field K] [LinearOrder K] [IsStrictOrderedRing K] [LawfulPyF K]

/-! BB -/
theorem bbCandle_order [NonnegSqrt K] {p n : Nat} {nm : String} {x : Nat → K} {j : Nat} {c : Candle K}
    (h : BbCandleOK p n nm x j c) :
    (j < p → readingByCandle c nm = bbNoneDict) ∧
    (p ≤ j → ∃ lo mid up : K, readingByCandle c nm = bbDict lo mid up ∧ lo ≤ mid ∧ mid ≤ up) ∧
    (∀ y, readingByCandle c (nm ++ "_STDEV") = .flt y → 0 ≤ y) := by
  obtain ⟨h1, h2, _⟩ := h
  have hs := h2.1
  unfold bbSeries at h1
  unfold stdevSeries at hs
  refine ⟨fun hjp => by rw [if_pos hjp] at h1; exact h1, fun hjp => ?_, fun y hy => ?_⟩
  · rw [if_neg (by omega)] at h1
    obtain ⟨lo, mid, up, hv, o1, o2, _⟩ := h1
    exact ⟨lo, mid, up, hv, o1, o2⟩
  · by_cases hjp : j < p
    · rw [if_pos hjp] at hs
      have hs' : readingByCandle c (nm ++ "_STDEV") = Val.none := hs
      rw [hs'] at hy; cases hy
    · rw [if_neg hjp] at hs
      obtain ⟨y', hy', _, h0⟩ := hs
      rw [hy'] at hy
      cases hy
      exact h0

theorem bbands_live_order [NonnegSqrt K] (p : Nat) (hp : 2 ≤ p) (nm input : String) (fld : Candle K → Num K)
    (n : Nat) (hk : IsKey nm) (hn : BbNames nm) (hin : NoDot input ∧ input ∈ Candle.attrNames)
    (hattr : ∀ c : Candle K, c.attr input = some (.num (fld c)))
    (init : List (Candle K)) (chunks : List (List (Candle K)))
    (hraw : ∀ c ∈ init ++ chunks.flatten, Plain c) (snap : List (Candle K))
    (hsnap : candlesOf (runIndicator (mkTop (.bbands (p : Int) input : Kind K) nm n) {} init chunks) = .ok snap) :
    snap.length = (init ++ chunks.flatten).length ∧
    ∀ j, j < (init ++ chunks.flatten).length →
      (j < p → readingByCandle (snap.getD j default) nm = bbNoneDict) ∧
      (p ≤ j → ∃ lo mid up : K, readingByCandle (snap.getD j default) nm = bbDict lo mid up ∧
        lo ≤ mid ∧ mid ≤ up) ∧
      (∀ y, readingByCandle (snap.getD j default) (nm ++ "_STDEV") = .flt y → 0 ≤ y) := by
  obtain ⟨rows, hl, rfl, hall⟩ := bb_series_live p hp nm input fld n hn hin hattr init chunks hraw snap hsnap
  refine ⟨decoWith_length _ _ _ hl, fun j hj => ?_⟩
  rw [decoBb_getD nm _ rows hl j hj]
  exact bbCandle_order (bbCandleOK_of p n hp nm hk hn _ j _ (getD_plain _ hraw j hj) _ (hall j hj))

/-! KC -/
theorem kcSeries_order {p n : Nat} {mult : Num K} {nm : String} {fld : Candle K → Num K}
    {raw out : List (Candle K)} (h : KcSeriesOK p n mult nm fld raw out) (hm : 0 ≤ mult.toF) :
    out.length = raw.length ∧
    ∀ j, j < raw.length →
      (j < p → readingByCandle (out.getD j default) nm = kcNoneDict) ∧
      (p ≤ j → ∃ l b u : K, readingByCandle (out.getD j default) nm
          = .dict [("lower", .num (.flt l)), ("band", .num (.flt b)), ("upper", .num (.flt u))] ∧
        l ≤ b ∧ b ≤ u) ∧
      (∀ y, readingByCandle (out.getD j default) (nm ++ "_ATR") = .flt y → 0 ≤ y) := by
  refine ⟨h.1, fun j hj => ?_⟩
  obtain ⟨_, _, h3, _, _, _, h7, _⟩ := h.2 j hj
  unfold kcSeries at h7
  refine ⟨fun hjp => by rw [if_pos hjp] at h7; exact h7, fun hjp => ?_, h3.2⟩
  rw [if_neg (by omega)] at h7
  obtain ⟨l, b, u, hv, _, _, _, ho⟩ := h7
  exact ⟨l, b, u, hv, ho hm⟩

/-! Donchian / HL -/
theorem donchian_run_enclose (p : Nat) (hp : 2 ≤ p) (nm : String) (n : Nat) (hn : DcNames nm)
    (raw : List (Candle K)) (hraw : ∀ c ∈ raw, Plain c) :
    ∃ vs : List (Val K), vs.length = raw.length ∧
      candlesOf (runIndicator (mkTop (.donchian p : Kind K) nm n) {} raw []) = .ok (deco nm raw vs) ∧
      ∀ j, j < raw.length →
        (j + 1 < p → vs.getD j .none = dcNone) ∧
        (p ≤ j + 1 →
          NumNear n (winMin (fieldAt (·.l) raw) j (p - 1)) ((vs.getD j .none).nested "DCL") ∧
          NumNear n (winMax (fieldAt (·.h) raw) j (p - 1)) ((vs.getD j .none).nested "DCU") ∧
          NumNear n ((winMax (fieldAt (·.h) raw) j (p - 1) + winMin (fieldAt (·.l) raw) j (p - 1)) / 2)
            ((vs.getD j .none).nested "DCM") ∧
          winMin (fieldAt (·.l) raw) j (p - 1) ≤ fieldAt (·.l) raw j ∧
          fieldAt (·.h) raw j ≤ winMax (fieldAt (·.h) raw) j (p - 1)) := by
  obtain ⟨vs, hl, _, hrun, hall⟩ := donchian_series_batch p hp nm n hn raw hraw
  exact ⟨vs, hl, hrun, fun j hj => ⟨(hall j hj).1, fun hjp => dcOK_near p n _ _ j _ (hall j hj) hjp⟩⟩

end Hex.C10

import HexProps.C10
import HexProofs.Numeric.SeriesRSI
import HexProofs.Numeric.SeriesSTOCH
import HexProofs.Numeric.SeriesWindows
import HexProofs.Numeric.SeriesADX
import HexProofs.Numeric.SeriesTSI
import HexProofs.Numeric.SeriesStdevBB
import HexProofs.Numeric.SeriesKC
import HexProofs.Numeric.SeriesATR
import HexProofs.Numeric.SeriesSupertrend
import HexProofs.Numeric.SeriesUtility
namespace Hex.C10
open Hex Hex.Numeric
variable {K : Type} [Field K] [LinearOrder K] [IsStrictOrderedRing K] [LawfulPyF K]

/-! STOCH -/

def StochInRange (n p sk sl j : Nat) (own k d : Val K) : Prop :=
  (p ≤ j + 1 → ∃ y, own.nested "stoch" = .flt y ∧ 0 ≤ y ∧ y ≤ 100) ∧
  (stochTK p sk ≤ j →
    (∃ y, k = .flt y ∧ -stochBK K p sk j ≤ y ∧ y ≤ 100 + stochBK K p sk j) ∧
    (∃ y, own.nested "k" = .flt y ∧ -(eps K n + stochBK K p sk j) ≤ y ∧ y ≤ 100 + (eps K n + stochBK K p sk j))) ∧
  (stochTD p sk sl ≤ j →
    (∃ y, d = .flt y ∧ -stochBD K p sk sl j ≤ y ∧ y ≤ 100 + stochBD K p sk sl j) ∧
    (∃ y, own.nested "d" = .flt y ∧ -(eps K n + stochBD K p sk sl j) ≤ y ∧
      y ≤ 100 + (eps K n + stochBD K p sk sl j)))

theorem stoch_live_ranges (p sk sl : Nat) (hp : 2 ≤ p) (hsk : 1 ≤ sk) (hsl : 1 ≤ sl) (nm input : String)
    (fld : Candle K → Num K) (n : Nat) (hn : StochNames nm) (hin : NoDot input ∧ input ∈ Candle.attrNames)
    (hattr : ∀ c : Candle K, c.attr input = some (.num (fld c)))
    (init : List (Candle K)) (chunks : List (List (Candle K)))
    (hraw : ∀ c ∈ init ++ chunks.flatten, Plain c)
    (hw : ∀ i, i < (init ++ chunks.flatten).length →
      fieldAt (·.l) (init ++ chunks.flatten) i ≤ fieldAt fld (init ++ chunks.flatten) i ∧
      fieldAt fld (init ++ chunks.flatten) i ≤ fieldAt (·.h) (init ++ chunks.flatten) i)
    (snap : List (Candle K))
    (hsnap : candlesOf (runIndicator (mkTop (.stoch (p : Int) (sl : Int) (sk : Int) input : Kind K) nm n) {}
      init chunks) = .ok snap) :
    snap.length = (init ++ chunks.flatten).length ∧
    ∀ j, j < (init ++ chunks.flatten).length →
      StochInRange n p sk sl j (readingByCandle (snap.getD j default) nm)
        (readingByCandle (snap.getD j default) (nm ++ "_k")) (readingByCandle (snap.getD j default) (nm ++ "_d")) := by
  rw [stoch_series_live p sk sl hp hsk hsl nm input fld n hn hin hattr init chunks hraw snap hsnap]
  exact ⟨stochDeco_length _ _ _ _ _ _ _, fun j hj =>
    stoch_ranges n p sk sl _ _ _ hp hsk hsl j (fun i hi => hw i (by omega)) _ _ _ _
      (stochDeco_ok p sk sl hp hsk hsl nm fld n hn _ hraw j hj)⟩

theorem stoch_run_ranges (p sk sl : Nat) (hp : 2 ≤ p) (hsk : 1 ≤ sk) (hsl : 1 ≤ sl) (nm input : String)
    (fld : Candle K → Num K) (n : Nat) (hn : StochNames nm) (hin : NoDot input ∧ input ∈ Candle.attrNames)
    (hattr : ∀ c : Candle K, c.attr input = some (.num (fld c)))
    (raw : List (Candle K)) (hraw : ∀ c ∈ raw, Plain c)
    (hw : ∀ i, i < raw.length → fieldAt (·.l) raw i ≤ fieldAt fld raw i ∧ fieldAt fld raw i ≤ fieldAt (·.h) raw i) :
    ∃ out : List (Candle K),
      candlesOf (runIndicator (mkTop (.stoch (p : Int) (sl : Int) (sk : Int) input : Kind K) nm n) {} raw []) = .ok out ∧
      out.length = raw.length ∧
      ∀ j, j < raw.length →
        StochInRange n p sk sl j (readingByCandle (out.getD j default) nm)
          (readingByCandle (out.getD j default) (nm ++ "_k")) (readingByCandle (out.getD j default) (nm ++ "_d")) :=
  ⟨_, stoch_series_batch p sk sl hp hsk hsl nm input fld n hn hin hattr raw hraw, stochDeco_length _ _ _ _ _ _ _,
    fun j hj => stoch_ranges n p sk sl _ _ _ hp hsk hsl j (fun i hi => hw i (by omega)) _ _ _ _
      (stochDeco_ok p sk sl hp hsk hsl nm fld n hn _ hraw j hj)⟩

/-! Aroon -/

theorem aroon_run_range (p : Nat) (hp : 1 ≤ p) (nm : String) (n : Nat)
    (raw : List (Candle K)) (hraw : ∀ c ∈ raw, Plain c) :
    ∃ vs : List (Val K), vs.length = raw.length ∧
      candlesOf (runIndicator (mkTop (.aroon p : Kind K) nm n) {} raw []) = .ok (deco nm raw vs) ∧
      ∀ j, j < raw.length →
        (j < p → vs.getD j .none = aroonNone) ∧
        (p ≤ j → ∃ u d o : K, (vs.getD j .none).nested "AROONU" = .flt u ∧
          (vs.getD j .none).nested "AROOND" = .flt d ∧ (vs.getD j .none).nested "AROONOSC" = .flt o ∧
          |u - aroonOf p (hiBar (fieldAt (·.h) raw) j p)| ≤ eps K n ∧ 0 ≤ u ∧ u ≤ 100 ∧
          |d - aroonOf p (loBar (fieldAt (·.l) raw) j p)| ≤ eps K n ∧ 0 ≤ d ∧ d ≤ 100 ∧
          |o - (aroonOf p (hiBar (fieldAt (·.h) raw) j p) - aroonOf p (loBar (fieldAt (·.l) raw) j p))| ≤ eps K n ∧
          -100 ≤ o ∧ o ≤ 100) := by
  obtain ⟨vs, hl, _, hrun, hall⟩ := aroon_series_batch p hp nm n raw hraw
  exact ⟨vs, hl, hrun, fun j hj => ⟨(hall j hj).1, aroonOK_near p n hp _ _ j _ (hall j hj)⟩⟩

theorem aroon_live_range (p : Nat) (hp : 1 ≤ p) (nm : String) (n : Nat)
    (init : List (Candle K)) (chunks : List (List (Candle K)))
    (hraw : ∀ c ∈ init ++ chunks.flatten, Plain c) (snap : List (Candle K))
    (hsnap : candlesOf (runIndicator (mkTop (.aroon p : Kind K) nm n) {} init chunks) = .ok snap) :
    ∃ vs : List (Val K), vs.length = (init ++ chunks.flatten).length ∧
      snap = deco nm (init ++ chunks.flatten) vs ∧
      ∀ j, j < (init ++ chunks.flatten).length →
        (j < p → vs.getD j .none = aroonNone) ∧
        (p ≤ j → ∃ u d o : K, (vs.getD j .none).nested "AROONU" = .flt u ∧
          (vs.getD j .none).nested "AROOND" = .flt d ∧ (vs.getD j .none).nested "AROONOSC" = .flt o ∧
          0 ≤ u ∧ u ≤ 100 ∧ 0 ≤ d ∧ d ≤ 100 ∧ -100 ≤ o ∧ o ≤ 100) := by
  obtain ⟨vs, hl, hrun, hall⟩ := aroon_series_live p hp nm n init chunks hraw snap hsnap
  refine ⟨vs, hl, hrun, fun j hj => ⟨(hall j hj).1, fun hjp => ?_⟩⟩
  obtain ⟨u, d, o, h1, h2, h3, _, a1, a2, _, b1, b2, _, c1, c2⟩ := aroonOK_near p n hp _ _ j _ (hall j hj) hjp
  exact ⟨u, d, o, h1, h2, h3, a1, a2, b1, b2, c1, c2⟩

/-! ADX -/

theorem adx_live_ranges (nm : String) (n p sg : Nat) (hp : 1 ≤ p) (hg : 1 ≤ sg) (hn : AdxNames nm)
    (init : List (Candle K)) (chunks : List (List (Candle K)))
    (hraw : ∀ c ∈ init ++ chunks.flatten, Plain c) (snap : List (Candle K))
    (hsnap : candlesOf (runIndicator (mkTop (.adx (p : Int) (sg : Int) : Kind K) nm n) {} init chunks) = .ok snap) :
    snap.length = (init ++ chunks.flatten).length ∧
    ∀ j, j < (init ++ chunks.flatten).length →
      (j < p → readingByCandle (snap.getD j default) nm = adxNone3) ∧
      FieldIn 0 100 (readingByCandle (snap.getD j default) (nm ++ "." ++ "ADX")) ∧
      FieldNonneg (readingByCandle (snap.getD j default) (nm ++ "." ++ "DM_Plus")) ∧
      FieldNonneg (readingByCandle (snap.getD j default) (nm ++ "." ++ "DM_Neg")) ∧
      FieldIn 0 100 (readingByCandle (snap.getD j default) (nm ++ "_dx")) ∧
      (∀ y, readingByCandle (snap.getD j default) (nm ++ "_atr") = .flt y → 0 ≤ y) := by
  obtain ⟨hl, hall⟩ := adx_live_readings nm n p sg hp hg hn init chunks hraw snap hsnap
  refine ⟨hl, fun j hj => ?_⟩
  obtain ⟨_, _, h3, _, _, _, _, _, _, _, h11, _, h13, h14, h15, h16, _⟩ := hall j hj
  exact ⟨h13, h14, h15, h16, h11, h3.2⟩

theorem adx_run_ranges (nm : String) (n p sg : Nat) (hp : 1 ≤ p) (hg : 1 ≤ sg) (hn : AdxNames nm)
    (raw : List (Candle K)) (hraw : ∀ c ∈ raw, Plain c) :
    ∃ out : List (Candle K),
      candlesOf (runIndicator (mkTop (.adx (p : Int) (sg : Int) : Kind K) nm n) {} raw []) = .ok out ∧
      out.length = raw.length ∧
      ∀ j, j < raw.length →
        (j < p → readingByCandle (out.getD j default) nm = adxNone3) ∧
        FieldIn 0 100 (readingByCandle (out.getD j default) (nm ++ "." ++ "ADX")) ∧
        FieldNonneg (readingByCandle (out.getD j default) (nm ++ "." ++ "DM_Plus")) ∧
        FieldNonneg (readingByCandle (out.getD j default) (nm ++ "." ++ "DM_Neg")) ∧
        FieldIn 0 100 (readingByCandle (out.getD j default) (nm ++ "_dx")) ∧
        (∀ y, readingByCandle (out.getD j default) (nm ++ "_atr") = .flt y → 0 ≤ y) := by
  have hrun := adx_batch nm n p sg hp hg hn raw hraw
  have := adx_live_ranges nm n p sg hp hg hn raw [] (by simpa using hraw) _ hrun
  exact ⟨_, hrun, by simpa using this⟩

end Hex.C10

import HexProps.C10
import HexProofs.Numeric.SeriesRSI
import HexProofs.Numeric.SeriesSTOCH
import HexProofs.Numeric.SeriesWindows
import HexProofs.Numeric.SeriesADX
import HexProofs.Numeric.SeriesTSI
import HexProofs.Numeric.SeriesStdevBB
import HexProofs.Numeric.SeriesKC
import HexProofs.Numeric.SeriesATR
import HexProofs.Numeric.SeriesSupertrend
import HexProofs.Numeric.SeriesUtility
namespace Hex.C10
open Hex Hex.Numeric
variable {K : Type} [Field K] [LinearOrder K] [IsStrictOrderedRing K] [LawfulPyF K]

/-! ATR -/
theorem atr_live_nonneg (p : Nat) (hp : 1 ≤ p) (nm : String) (n : Nat) (hk : IsKey nm) (hn : AtrNames nm)
    (init : List (Candle K)) (chunks : List (List (Candle K)))
    (hraw : ∀ c ∈ init ++ chunks.flatten, Plain c) (snap : List (Candle K))
    (hsnap : candlesOf (runIndicator (mkTop (.atr (p : Int)) nm n) {} init chunks) = .ok snap) :
    snap.length = (init ++ chunks.flatten).length ∧
    ∀ j, j < (init ++ chunks.flatten).length →
      (j < p → readingByCandle (snap.getD j default) nm = .none) ∧
      (p ≤ j → ∃ y, readingByCandle (snap.getD j default) nm = .flt y ∧ 0 ≤ y) ∧
      (j = 0 → readingByCandle (snap.getD j default) (nm ++ "_TR") = .none) ∧
      (1 ≤ j → ∃ t : Num K, readingByCandle (snap.getD j default) (nm ++ "_TR") = .num t ∧ 0 ≤ t.toF) := by
  obtain ⟨out, h1, h2, h3⟩ := atr_series_readings p hp nm n hk hn _ hraw
  have h : Gen.rowMajor (atrTree nm n (p : Int) (by omega) hn).S (init ++ chunks.flatten) = .ok snap :=
    (atrTree nm n (p : Int) (by omega) hn).live_refines (MgrSpec.base K) init chunks hraw snap hsnap
  rw [h1] at h
  cases h
  refine ⟨h2, fun j hj => ?_⟩
  obtain ⟨_, e2, _, e4⟩ := h3 j hj
  refine ⟨e4.1, fun hjp => ?_, fun h0 => ?_, fun h1 => ?_⟩
  · obtain ⟨y, hy, _, h0⟩ := e4.2 hjp
    exact ⟨y, hy, h0⟩
  · rw [e2]; unfold trStored; rw [if_pos h0]
  · rw [e2]; unfold trStored; rw [if_neg (by omega)]
    exact ⟨_, rfl, trS_nonneg _ j⟩

end Hex.C10

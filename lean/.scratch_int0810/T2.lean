import HexProps.C08
namespace Hex.C08
open Hex Settings

def exCfgB : IndCfg Int := { cls := .rsi 2 "close" }

example : exCfgB.Valid ∧
    exCfgB.settings = [("indicator", .str "RSI"), ("round_value", .int 4), ("period", .int 2), ("input_value", .str "close")] ∧
    build exCfgB.settings = .ok exCfgB ∧
    exCfgB.toInd "" = exB.tree ∧
    (build exCfgB.settings >>= fun c => memberOf c "") = .ok exB := by
  refine ⟨by decide, rfl, settings_roundtrip _ (by decide), rfl, ?_⟩
  rw [settings_same_member _ (by decide)]; rfl

def exCfgT : IndCfg Int :=
  { cls := .ema "close" 3 (.int 2), timeframe := some "T5", timeframe_fill := true, candlestick_type := some .ha,
    name_suffix := some "x" }

example : exCfgT.Valid ∧
    (build exCfgT.settings >>= fun c => c.mgrCfg) = .ok { tf := some 300, fill := true, ha := true } ∧
    (build exCfgT.settings).map (fun c => (c.toInd "").name) = .ok "EMA_3_T5_x" := by
  refine ⟨by decide, ?_, ?_⟩
  · rw [settings_same_manager _ (by decide)]; decide
  · have := settings_same_tree exCfgT (by decide) ""
    sorry

import HexProps.C10
import HexProofs.Numeric.SeriesRSI
import HexProofs.Numeric.SeriesSTOCH
import HexProofs.Numeric.SeriesWindows
import HexProofs.Numeric.SeriesADX
import HexProofs.Numeric.SeriesTSI
import HexProofs.Numeric.SeriesStdevBB
import HexProofs.Numeric.SeriesKC
import HexProofs.Numeric.SeriesATR
import HexProofs.Numeric.SeriesSupertrend
import HexProofs.Numeric.SeriesUtility
namespace Hex.C10
open Hex Hex.Numeric
variable {K : Type} [Field K] [LinearOrder K] [IsStrictOrderedRing K] [LawfulPyF K]

/-! TSI -/

theorem tsi_live_range (nm : String) (n p s : Nat) (input : String) (fld : Candle K → Num K)
    (hp : 1 ≤ p) (hs : 1 ≤ s) (hn : TsiNames nm) (hin : NoDot input ∧ input ∈ Candle.attrNames)
    (hattr : ∀ c : Candle K, c.attr input = some (.num (fld c)))
    (init : List (Candle K)) (chunks : List (List (Candle K)))
    (hraw : ∀ c ∈ init ++ chunks.flatten, Plain c) (snap : List (Candle K))
    (hsnap : candlesOf (runIndicator (mkTop (.tsi (p : Int) (s : Int) input : Kind K) nm n) {} init chunks)
      = .ok snap) :
    snap.length = (init ++ chunks.flatten).length ∧
    ∀ j, j < (init ++ chunks.flatten).length →
      (j + 1 < p + s → readingByCandle (snap.getD j default) nm = .none) ∧
      (p + s ≤ j + 1 → ∃ S A y : K,
        readingByCandle (snap.getD j default) (nm ++ "_second") = .flt S ∧
        readingByCandle (snap.getD j default) (nm ++ "_abs_second") = .flt A ∧
        readingByCandle (snap.getD j default) nm = .flt y ∧ 0 ≤ A ∧
        |S| ≤ A + 2 * tsiChainBudget (K := K) p s ∧
        (A = 0 → y = 0) ∧
        (A ≠ 0 → |y| ≤ 100 + 200 * tsiChainBudget (K := K) p s / A + eps K n) ∧
        (|S| ≤ A → -100 ≤ y ∧ y ≤ 100) ∧
        (RoundNegLe K defaultRound → -100 ≤ y ∧ y ≤ 100)) := by
  obtain ⟨hl, hall⟩ := tsi_live_readings nm n p s input fld hp hs hn hin hattr init chunks hraw snap hsnap
  refine ⟨hl, fun j hj => ?_⟩
  obtain ⟨_, _, _, _, _, _, _, _, _, h10, h11⟩ := hall j hj
  refine ⟨h10.1, fun hj' => ?_⟩
  obtain ⟨S, A, y, e1, e2, e3, a0, _, b1, b2, b3, b4, b5⟩ := h11 hj'
  exact ⟨S, A, y, e1, e2, e3, a0, b1, b3, b4, b5, fun hodd => b5 (b2 hodd)⟩

theorem tsi_run_range (nm : String) (n p s : Nat) (input : String) (fld : Candle K → Num K)
    (hp : 1 ≤ p) (hs : 1 ≤ s) (hn : TsiNames nm) (hin : NoDot input ∧ input ∈ Candle.attrNames)
    (hattr : ∀ c : Candle K, c.attr input = some (.num (fld c)))
    (raw : List (Candle K)) (hraw : ∀ c ∈ raw, Plain c) :
    ∃ out : List (Candle K),
      candlesOf (runIndicator (mkTop (.tsi (p : Int) (s : Int) input : Kind K) nm n) {} raw []) = .ok out ∧
      out.length = raw.length ∧
      ∀ j, j < raw.length →
        (j + 1 < p + s → readingByCandle (out.getD j default) nm = .none) ∧
        (p + s ≤ j + 1 → ∃ S A y : K,
          readingByCandle (out.getD j default) (nm ++ "_second") = .flt S ∧
          readingByCandle (out.getD j default) (nm ++ "_abs_second") = .flt A ∧
          readingByCandle (out.getD j default) nm = .flt y ∧ 0 ≤ A ∧
          |S| ≤ A + 2 * tsiChainBudget (K := K) p s ∧
          (A = 0 → y = 0) ∧
          (A ≠ 0 → |y| ≤ 100 + 200 * tsiChainBudget (K := K) p s / A + eps K n) ∧
          (|S| ≤ A → -100 ≤ y ∧ y ≤ 100) ∧
          (RoundNegLe K defaultRound → -100 ≤ y ∧ y ≤ 100)) := by
  have hrun := tsi_batch nm n p s input fld hp hs hn hin hattr raw hraw
  have := tsi_live_range nm n p s input fld hp hs hn hin hattr raw [] (by simpa using hraw) _ hrun
  exact ⟨_, hrun, by simpa using this⟩

/-! BBANDS -/

theorem bbands_run_order [NonnegSqrt K] (p : Nat) (hp : 2 ≤ p) (nm input : String) (fld : Candle K → Num K)
    (n : Nat) (hk : IsKey nm) (hn : BbNames nm) (hin : NoDot input ∧ input ∈ Candle.attrNames)
    (hattr : ∀ c : Candle K, c.attr input = some (.num (fld c)))
    (raw : List (Candle K)) (hraw : ∀ c ∈ raw, Plain c) :
    ∃ out : List (Candle K),
      candlesOf (runIndicator (mkTop (.bbands (p : Int) input : Kind K) nm n) {} raw []) = .ok out ∧
      out.length = raw.length ∧
      ∀ j, j < raw.length →
        (j < p → readingByCandle (out.getD j default) nm = bbNoneDict) ∧
        (p ≤ j → ∃ lo mid up : K, readingByCandle (out.getD j default) nm = bbDict lo mid up ∧
          lo ≤ mid ∧ mid ≤ up) ∧
        (∀ y, readingByCandle (out.getD j default) (nm ++ "_STDEV") = .flt y → 0 ≤ y) := by
  obtain ⟨rows, _, hrun, _⟩ := bb_series_batch p hp nm input fld n hn hin hattr raw hraw
  obtain ⟨hl, hall⟩ := bb_batch_readings p hp nm input fld n hk hn hin hattr raw hraw _ hrun
  refine ⟨_, hrun, hl, fun j hj => ?_⟩
  obtain ⟨h1, h2, _⟩ := hall j hj
  have hs := h2.1
  unfold bbSeries at h1
  unfold stdevSeries at hs
  refine ⟨fun hjp => by rw [if_pos hjp] at h1; exact h1, fun hjp => ?_, fun y hy => ?_⟩
  · rw [if_neg (by omega)] at h1
    obtain ⟨lo, mid, up, hv, o1, o2, _⟩ := h1
    exact ⟨lo, mid, up, hv, o1, o2⟩
  · by_cases hjp : j < p
    · rw [if_pos hjp] at hs
      have hs' : readingByCandle _ (nm ++ "_STDEV") = Val.none := hs
      rw [hs'] at hy; cases hy
    · rw [if_neg hjp] at hs
      obtain ⟨y', hy', _, h0⟩ := hs
      rw [hy'] at hy
      cases hy
      exact h0

/-! KC -/
theorem kc_run_order (p : Nat) (hp : 2 ≤ p) (nm input : String) (fld : Candle K → Num K) (n : Nat)
    (mult : Num K) (hk : IsKey nm) (hn : KcNames nm) (hin : NoDot input ∧ input ∈ Candle.attrNames)
    (hattr : ∀ c : Candle K, c.attr input = some (.num (fld c))) (hm : 0 ≤ mult.toF)
    (raw : List (Candle K)) (hraw : ∀ c ∈ raw, Plain c) :
    ∃ out : List (Candle K),
      candlesOf (runIndicator (mkTop (.kc (p : Int) input mult : Kind K) nm n) {} raw []) = .ok out ∧
      out.length = raw.length ∧
      ∀ j, j < raw.length →
        (j < p → readingByCandle (out.getD j default) nm = kcNoneDict) ∧
        (p ≤ j → ∃ l b u : K, readingByCandle (out.getD j default) nm
            = .dict [("lower", .num (.flt l)), ("band", .num (.flt b)), ("upper", .num (.flt u))] ∧
          l ≤ b ∧ b ≤ u) ∧
        (∀ y, readingByCandle (out.getD j default) (nm ++ "_ATR") = .flt y → 0 ≤ y) := by
  obtain ⟨out, hrun, hl, hall⟩ := kc_batch p hp nm input fld n mult hk hn hin hattr raw hraw
  refine ⟨out, hrun, hl, fun j hj => ?_⟩
  obtain ⟨_, _, h3, _, _, _, h7, _⟩ := hall j hj
  unfold kcSeries at h7
  refine ⟨fun hjp => by rw [if_pos hjp] at h7; exact h7, fun hjp => ?_, h3.2⟩
  rw [if_neg (by omega)] at h7
  obtain ⟨l, b, u, hv, _, _, _, ho⟩ := h7
  exact ⟨l, b, u, hv, ho hm⟩

end Hex.C10

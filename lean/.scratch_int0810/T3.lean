import HexProps.C08
namespace Hex.C08
open Hex Settings
def exCfgB : IndCfg Int := { cls := .rsi 2 "close" }
def exCfgT : IndCfg Int :=
  { cls := .ema "close" 3 (.int 2), timeframe := some "T5", timeframe_fill := true, candlestick_type := some .ha,
    name_suffix := some "x" }
example : exCfgT.mgrCfg = .ok { tf := some 300, fill := true, ha := true } := by decide +kernel
example : exCfgT.mgrCfg = .ok { tf := some 300, fill := true, ha := true } := by rfl
example : memberOf exCfgB "" = .ok { tree := mkTop (.rsi 2 "close") (fullName (.rsi 2 "close" : Kind Int) {}) 4, tfName := none, tfSecs := none } := rfl
example : exCfgT.Valid := by decide
example : exCfgT.settings = [("indicator", .str "EMA"), ("name_suffix", .str "x"), ("round_value", .int 4), ("timeframe", .str "T5"),
  ("timeframe_fill", .bool true), ("candlestick_type", .str "HA"), ("input_value", .str "close"), ("period", .int 3), ("smoothing", .int 2)] := rfl

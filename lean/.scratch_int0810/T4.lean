import HexProps.C10
import HexProofs.Numeric.SeriesRSI
import HexProofs.Numeric.SeriesSTOCH
import HexProofs.Numeric.SeriesWindows
import HexProofs.Numeric.SeriesADX
import HexProofs.Numeric.SeriesTSI
import HexProofs.Numeric.SeriesStdevBB
import HexProofs.Numeric.SeriesKC
import HexProofs.Numeric.SeriesATR
import HexProofs.Numeric.SeriesSupertrend
import HexProofs.Numeric.SeriesUtility
namespace Hex.C10
open Hex Hex.Numeric
variable {K : Type} [Field K] [LinearOrder K] [IsStrictOrderedRing K] [LawfulPyF K]

/-! ### whole runs -/

/-- RSI live -/
theorem rsi_live_range (p : Nat) (hp : 1 ≤ p) (nm input : String) (fld : Candle K → Num K) (n : Nat)
    (hn : RsiNames nm) (hk : IsKey nm) (hin : NoDot input ∧ input ∈ Candle.attrNames)
    (hattr : ∀ c : Candle K, c.attr input = some (.num (fld c)))
    (init : List (Candle K)) (chunks : List (List (Candle K)))
    (hraw : ∀ c ∈ init ++ chunks.flatten, Plain c) (snap : List (Candle K))
    (hsnap : candlesOf (runIndicator (mkTop (.rsi (p : Int) input : Kind K) nm n) {} init chunks) = .ok snap) :
    snap.length = (init ++ chunks.flatten).length ∧
    ∀ j, j < (init ++ chunks.flatten).length →
      (j < p → readingByCandle (snap.getD j default) nm = .none) ∧
      (p ≤ j → ∃ y, readingByCandle (snap.getD j default) nm = .flt y ∧ 0 ≤ y ∧ y ≤ 100) := by
  obtain ⟨out, hl, hrun, hall⟩ := rsi_series_candles p hp nm input fld n hn hk hin hattr _ hraw
  have h : Gen.rowMajor (rsiTree (F := K) nm n (p : Int) input (by omega) hn hin).S (init ++ chunks.flatten) = .ok snap :=
    (rsiTree (F := K) nm n (p : Int) input (by omega) hn hin).live_refines (MgrSpec.base K) init chunks hraw snap hsnap
  rw [hrun] at h
  cases h
  refine ⟨hl, fun j hj => ?_⟩
  have h := (hall j hj).1
  unfold rsiSeries at h
  exact ⟨fun hjp => by rw [if_pos hjp] at h; exact h,
    fun hjp => by rw [if_neg (by omega)] at h; obtain ⟨y, hy, _, h0, h1⟩ := h; exact ⟨y, hy, h0, h1⟩⟩

theorem rsi_run_range (p : Nat) (hp : 1 ≤ p) (nm input : String) (fld : Candle K → Num K) (n : Nat)
    (hn : RsiNames nm) (hk : IsKey nm) (hin : NoDot input ∧ input ∈ Candle.attrNames)
    (hattr : ∀ c : Candle K, c.attr input = some (.num (fld c)))
    (raw : List (Candle K)) (hraw : ∀ c ∈ raw, Plain c) :
    ∃ out : List (Candle K),
      candlesOf (runIndicator (mkTop (.rsi (p : Int) input : Kind K) nm n) {} raw []) = .ok out ∧
      out.length = raw.length ∧
      ∀ j, j < raw.length →
        (j < p → readingByCandle (out.getD j default) nm = .none) ∧
        (p ≤ j → ∃ y, readingByCandle (out.getD j default) nm = .flt y ∧ 0 ≤ y ∧ y ≤ 100) := by
  obtain ⟨rows, _, hrun, _⟩ := rsi_series_batch p hp nm input fld n hn hk hin hattr raw hraw
  have := rsi_live_range p hp nm input fld n hn hk hin hattr raw [] (by simpa using hraw) _ hrun
  exact ⟨_, hrun, by simpa using this⟩

end Hex.C10

import HexProps.C10
import HexProofs.Numeric.SeriesRSI
import HexProofs.Numeric.SeriesSTOCH
import HexProofs.Numeric.SeriesWindows
import HexProofs.Numeric.SeriesADX
import HexProofs.Numeric.SeriesTSI
import HexProofs.Numeric.SeriesStdevBB
import HexProofs.Numeric.SeriesKC
import HexProofs.Numeric.SeriesATR
import HexProofs.Numeric.SeriesSupertrend
import HexProofs.Numeric.SeriesUtility
namespace Hex.C10
open Hex Hex.Numeric
variable {K : Type} [Field K] [LinearOrder K] [IsStrictOrderedRing K] [LawfulPyF K]

theorem stored_num (n : Nat) (a : Num K) : (a.roundBy n).toF = PyF.round n a.toF := by
  cases a with
  | int i => simp [Num.roundBy, round_int]
  | flt x => rfl

theorem fieldAt_wf (raw : List (Candle K)) (hwf : ∀ c ∈ raw, c.l.toF ≤ c.h.toF) (k : Nat) :
    fieldAt (·.l) raw k ≤ fieldAt (·.h) raw k := by
  unfold fieldAt
  by_cases hk : k < raw.length
  · apply hwf
    rw [List.getD_eq_getElem?_getD, List.getElem?_eq_getElem hk]; exact List.getElem_mem _
  · rw [List.getD_eq_getElem?_getD, List.getElem?_eq_none (by omega)]
    exact le_refl _

theorem donchian_run_order (p : Nat) (hp : 2 ≤ p) (nm : String) (n : Nat) (hn : DcNames nm)
    (raw : List (Candle K)) (hraw : ∀ c ∈ raw, Plain c) (hwf : ∀ c ∈ raw, c.l.toF ≤ c.h.toF) :
    ∃ vs : List (Val K), vs.length = raw.length ∧
      candlesOf (runIndicator (mkTop (.donchian p : Kind K) nm n) {} raw []) = .ok (deco nm raw vs) ∧
      ∀ j, j < raw.length → p ≤ j + 1 → ∃ (lo up : Num K) (mid : K),
        vs.getD j .none = .dict [("DCL", .num lo), ("DCM", .num (.flt mid)), ("DCU", .num up)] ∧
        lo.toF ≤ mid ∧ mid ≤ up.toF ∧
        lo.toF ≤ ((numAt (·.l) raw j).roundBy n).toF ∧ ((numAt (·.h) raw j).roundBy n).toF ≤ up.toF := by
  obtain ⟨vs, hl, _, hrun, hall⟩ := donchian_series_batch p hp nm n hn raw hraw
  refine ⟨vs, hl, hrun, fun j hj hjp => ?_⟩
  obtain ⟨kl, kh, _, _, hv, e1, e2⟩ := (hall j hj).2 hjp
  have hLH : (numAt (·.l) raw kl).toF ≤ (numAt (·.h) raw kh).toF := by
    rw [e1, e2]; exact winMin_le_winMax _ _ (fieldAt_wf raw hwf) j (p - 1)
  have hL : (numAt (·.l) raw kl).toF ≤ (numAt (·.l) raw j).toF := by
    rw [e1]; exact winMin_self (fun k => (numAt (·.l) raw k).toF) j (p - 1)
  have hH : (numAt (·.h) raw j).toF ≤ (numAt (·.h) raw kh).toF := by
    rw [e2]; exact winMax_self (fun k => (numAt (·.h) raw k).toF) j (p - 1)
  refine ⟨_, _, _, hv, ?_, ?_, ?_, ?_⟩
  · rw [stored_num]; exact LawfulPyF.round_mono n (by linarith)
  · rw [stored_num]; exact LawfulPyF.round_mono n (by linarith)
  · rw [stored_num, stored_num]; exact LawfulPyF.round_mono n hL
  · rw [stored_num, stored_num]; exact LawfulPyF.round_mono n hH

end Hex.C10

#!/bin/bash
cd /verif/lean
lake build HexProofs.Writes.TwinTf 2>&1 | awk '/Building HexProofs.Writes.TwinTf|Built HexProofs.Writes.TwinTf/{p=1} p' | grep -v "^trace:" | head -${1:-60}

import HexProofs.Lib.IntInst
import HexProofs.Manager.Collapse
import HexProofs.Manager.Resample
import HexProofs.Manager.Schedule
import HexProofs.Manager.Fill
import HexProofs.Manager.Trim
import HexProofs.Manager.HA

import HexProofs.Manager.Collapse
import HexProofs.Manager.Resample
import HexProofs.Manager.Schedule

import HexModel.Core.Eval
/-
`_find_calc_index` on a list whose finished prefix holds the indicator's key and whose fresh
suffix does not: it resumes exactly at the first fresh candle.
-/
namespace Hex
variable {F : Type} [PyF F]

/-- every candle of `done` holds the key, none of `fresh` does -/
def SplitAt (name : String) (done fresh : List (Candle F)) : Prop :=
  (∀ c ∈ done, hasKey name c = true) ∧ (∀ c ∈ fresh, hasKey name c = false)

theorem scanBack_split (name : String) (done fresh : List (Candle F)) (h : SplitAt name done fresh)
    (hd : 1 ≤ done.length) (j : Nat) (hj : done.length - 1 ≤ j) (hj2 : j < (done ++ fresh).length) :
    scanBack name (done ++ fresh) j = done.length := by
  induction j with
  | zero =>
    have hlen : done.length = 1 := by omega
    unfold scanBack
    have hget : (done ++ fresh)[0]? = some ((done ++ fresh)[0]'hj2) := List.getElem?_eq_getElem hj2
    rw [hget]
    have hc : hasKey name ((done ++ fresh)[0]'hj2) = true := by
      rw [List.getElem_append_left (by omega)]; exact h.1 _ (List.getElem_mem _)
    simp only [hc, if_true]; omega
  | succ j ih =>
    unfold scanBack
    have hget : (done ++ fresh)[j+1]? = some ((done ++ fresh)[j+1]'hj2) := List.getElem?_eq_getElem hj2
    rw [hget]
    by_cases hin : j + 1 < done.length
    · have hc : hasKey name ((done ++ fresh)[j+1]'hj2) = true := by
        rw [List.getElem_append_left hin]; exact h.1 _ (List.getElem_mem _)
      simp only [hc, if_true]; omega
    · have hge : done.length ≤ j + 1 := by omega
      have hc : hasKey name ((done ++ fresh)[j+1]'hj2) = false := by
        rw [List.getElem_append_right hge]; exact h.2 _ (List.getElem_mem _)
      simp only [hc, Bool.false_eq_true, if_false]
      exact ih (by omega) (by omega)

theorem scanBack_none (name : String) (cs : List (Candle F)) (j : Nat)
    (h : ∀ k, k ≤ j → ∀ c, cs[k]? = some c → hasKey name c = false) : scanBack name cs j = 0 := by
  induction j with
  | zero =>
    unfold scanBack
    cases hc : cs[0]? with
    | none => rfl
    | some c => simp [h 0 (Nat.le_refl 0) c hc]
  | succ j ih =>
    unfold scanBack
    cases hc : cs[j+1]? with
    | none => simp only; exact ih (fun k h2 => h k (by omega))
    | some c =>
      have := h (j+1) (by omega) c hc
      simp only [this, Bool.false_eq_true, if_false]
      exact ih (fun k h2 => h k (by omega))

/-- **Resume index**: with at least one finished candle, the first fresh candle. -/
theorem findCalcIndex_resume (name : String) (done fresh : List (Candle F)) (h : SplitAt name done fresh)
    (hd : 1 ≤ done.length) : findCalcIndex name (done ++ fresh) = done.length := by
  match done, h, hd with
  | d0 :: dr, h, _ =>
    have hd0 : hasKey name d0 = true := h.1 d0 (by simp)
    have hscan := scanBack_split name (d0 :: dr) fresh h (by simp)
      (((d0 :: dr) ++ fresh).length - 1) (by simp) (by simp)
    simp only [findCalcIndex, List.cons_append, hd0, Bool.not_true, Bool.false_eq_true, if_false]
    simpa using hscan

/-- nothing finished: start from 0 -/
theorem findCalcIndex_fresh (name : String) (fresh : List (Candle F))
    (h : ∀ c ∈ fresh, hasKey name c = false) : findCalcIndex name fresh = 0 := by
  cases fresh with
  | nil => rfl
  | cons c r => simp [findCalcIndex, h c (by simp)]

/-- only candle 0 finished: the scan now inspects index 0 too and resumes at 1 -/
theorem findCalcIndex_one (name : String) (d0 : Candle F) (fresh : List (Candle F))
    (hd0 : hasKey name d0 = true) (h : ∀ c ∈ fresh, hasKey name c = false) :
    findCalcIndex name (d0 :: fresh) = 1 := by
  have := findCalcIndex_resume name [d0] fresh ⟨by simpa using hd0, h⟩ (by simp)
  simpa using this

end Hex

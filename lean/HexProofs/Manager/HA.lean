import HexModel.Spec.HA
import Mathlib.Tactic.Linarith
/-
Heikin-Ashi bookkeeping: conversion never raises, resumes exactly after the converted prefix,
and is the left fold of the formulas under every append schedule (no timeframe).
-/
namespace Hex
variable {F : Type} [PyF F]

theorem truediv_int_lit (x : Num F) (k : Int) (hk : k ≠ 0) :
    x.truediv (.int k) = .ok (.flt (PyF.div x.toF (PyF.ofInt k))) := by
  unfold Num.truediv Num.isZero
  have : (k == 0) = false := by simp [hk]
  simp [this, Num.toF]

theorem haConvert_ok (c : Candle F) (prev : Option (Candle F)) :
    haConvertCandle c.saveClean prev = .ok
      { c.saveClean with o := (haValues c prev).1, h := (haValues c prev).2.1,
                         l := (haValues c prev).2.2.1, c := (haValues c prev).2.2.2 } := by
  unfold haConvertCandle haValues
  cases prev with
  | none =>
    simp only [Candle.saveClean, truediv_int_lit _ 4 (by decide), truediv_int_lit _ 2 (by decide), bind, Except.bind, pure, Except.pure]
  | some p =>
    simp only [Candle.saveClean, truediv_int_lit _ 4 (by decide), truediv_int_lit _ 2 (by decide), bind, Except.bind, pure, Except.pure]

theorem convert_one (c : Candle F) (prev : Option (Candle F)) :
    (do let c2 ← haConvertCandle c.saveClean prev
        pure ({ c2.reset with tag := true } : Candle F)) = (.ok (haCandle c prev) : PyM (Candle F)) := by
  rw [haConvert_ok]
  simp [bind, Except.bind, pure, Except.pure, haCandle, Candle.reset, Candle.saveClean]

/-- `convertFrom` is the spec fold and never raises -/
theorem convertFrom_eq (fresh : List (Candle F)) :
    ∀ done, convertFrom done fresh = .ok (haFold done fresh) := by
  induction fresh with
  | nil => intro done; rfl
  | cons c rest ih =>
    intro done
    unfold convertFrom haFold
    have := convert_one c done.getLast?
    simp only [bind, Except.bind, pure, Except.pure] at this ⊢
    cases h : haConvertCandle c.saveClean done.getLast? with
    | error e => rw [h] at this; cases this
    | ok c2 =>
      rw [h] at this
      simp only at this ⊢
      injection this with this
      rw [this]; exact ih _

theorem haFold_append (a b : List (Candle F)) : ∀ done, haFold done (a ++ b) = haFold (haFold done a) b := by
  induction a with
  | nil => intro done; rfl
  | cons c r ih => intro done; simp only [List.cons_append, haFold]; exact ih _

theorem haFold_prefix (fresh : List (Candle F)) : ∀ done, ∃ ext, haFold done fresh = done ++ ext ∧
    ext.length = fresh.length ∧ ∀ x ∈ ext, x.tag = true := by
  induction fresh with
  | nil => intro done; exact ⟨[], by simp [haFold], rfl, by simp⟩
  | cons c rest ih =>
    intro done
    obtain ⟨ext, h1, h2, h3⟩ := ih (done ++ [haCandle c done.getLast?])
    refine ⟨haCandle c done.getLast? :: ext, by simp [haFold, h1], by simp [h2], ?_⟩
    intro x hx
    rcases List.mem_cons.1 hx with h | h
    · subst h; rfl
    · exact h3 x h

/-- `_find_conv_index` on `converted ++ fresh` (all of the first tagged, none of the second)
is the length of the converted prefix -/
theorem findConvIndex_split (done fresh : List (Candle F)) (hd : ∀ c ∈ done, c.tag = true)
    (hf : ∀ c ∈ fresh, c.tag = false) : findConvIndex (done ++ fresh) = done.length := by
  cases done with
  | nil =>
    cases fresh with
    | nil => rfl
    | cons c r => simp [findConvIndex, hf c (by simp)]
  | cons d0 dr =>
    have hd0 : d0.tag = true := hd d0 (by simp)
    simp only [findConvIndex, List.cons_append, hd0, Bool.not_true, Bool.false_eq_true, if_false]
    -- the scan from the end returns the position after the last tagged candle
    have key : ∀ j, (d0 :: dr).length - 1 ≤ j → j < (d0 :: (dr ++ fresh)).length →
        findConvIndex.scan (d0 :: (dr ++ fresh)) j = (d0 :: dr).length := by
      intro j
      induction j with
      | zero =>
        intro h1 _
        have : dr = [] := by
          cases dr with
          | nil => rfl
          | cons _ _ => simp at h1
        subst this
        simp [findConvIndex.scan, hd0]
      | succ j ih =>
        intro h1 h2
        unfold findConvIndex.scan
        by_cases hin : j + 1 < (d0 :: dr).length
        · have hlast : j + 1 = (d0 :: dr).length - 1 := by omega
          have hget : (d0 :: (dr ++ fresh))[j + 1]? = (d0 :: dr)[j + 1]? := by
            rw [show d0 :: (dr ++ fresh) = (d0 :: dr) ++ fresh from rfl, List.getElem?_append_left hin]
          have hc : ((d0 :: dr)[j + 1]?.map (·.tag)).getD false = true := by
            rw [List.getElem?_eq_getElem hin]
            have := hd _ (List.getElem_mem hin)
            simp only [Option.map_some, Option.getD_some]; exact this
          rw [hget, hc]; simp only [if_true]; simp only [List.length_cons] at hlast ⊢; omega
        · have hge : (d0 :: dr).length ≤ j + 1 := by omega
          have hget : (d0 :: (dr ++ fresh))[j + 1]? = fresh[j + 1 - (d0 :: dr).length]? := by
            rw [show d0 :: (dr ++ fresh) = (d0 :: dr) ++ fresh from rfl, List.getElem?_append_right hge]
          have hc : ((d0 :: (dr ++ fresh))[j + 1]?.map (·.tag)).getD false = false := by
            rw [hget]
            cases hq : fresh[j + 1 - (d0 :: dr).length]? with
            | none => rfl
            | some q => simp [hf q (List.mem_of_getElem? hq)]
          rw [hc]; simp only [Bool.false_eq_true, if_false]
          exact ih (by omega) (by omega)
    have hlen : (d0 :: (dr ++ fresh)).length - 1 < (d0 :: (dr ++ fresh)).length := by simp
    have := key ((d0 :: (dr ++ fresh)).length - 1) (by simp) hlen
    simpa using this

/-- one round of `convert_candles` on a converted prefix followed by fresh raw candles -/
theorem convertCandles_resume (done fresh : List (Candle F)) (hd : ∀ c ∈ done, c.tag = true)
    (hf : ∀ c ∈ fresh, c.tag = false) :
    convertCandles (done ++ fresh) = .ok (haFold done fresh) := by
  unfold convertCandles
  rw [findConvIndex_split done fresh hd hf]
  simp [convertFrom_eq]

/-- the raw OHLCV of a converted candle is what `recover_clean_values` restores -/
theorem raw_recoverable (c : Candle F) (prev : Option (Candle F)) :
    let r := (haCandle c prev).recoverClean
    r.o = c.o ∧ r.h = c.h ∧ r.l = c.l ∧ r.c = c.c ∧ r.v = c.v ∧ r.ts = c.ts := by
  simp only [haCandle, Candle.recoverClean]
  cases c.ts <;> simp

end Hex

import HexModel.Spec.Resample
import Mathlib.Tactic.Linarith
import Mathlib.Tactic.Ring
import Mathlib.Tactic.SplitIfs
/-
`collapse_candles` (the seven-branch walk) refines the resampling fold whenever the labels of
the list do not decrease; the `InvalidCandleOrder` fall-through is then unreachable.
-/
namespace Hex
variable {F : Type} [PyF F]

/-! ### integer facts about labels -/

theorem aligned_decomp (tf e : Int) (he : e % tf = 0) : ∃ k, e = k * tf :=
  ⟨e / tf, by have := Int.emod_add_mul_ediv e tf; rw [he] at this; linarith [Int.mul_comm tf (e / tf)]⟩

theorem label_eq_iff (tf t e : Int) (htf : 0 < tf) (he : e % tf = 0) :
    label tf t = e ↔ (e - tf < t ∧ t ≤ e) := by
  obtain ⟨k, rfl⟩ := aligned_decomp tf e he
  have hr0 := Int.emod_nonneg t (Int.ne_of_gt htf)
  have hr1 := Int.emod_lt_of_pos t htf
  have hdecomp := Int.emod_add_mul_ediv t tf
  unfold label
  by_cases hz : t % tf = 0
  · simp only [hz, if_true]
    constructor
    · intro h; subst h; constructor <;> linarith
    · rintro ⟨h1, h2⟩
      have ht : t = tf * (t / tf) := by linarith
      have a1 : (k - 1) * tf < (t / tf) * tf := by nlinarith
      have a2 : (t / tf) * tf ≤ k * tf := by nlinarith
      have b1 : k - 1 < t / tf := lt_of_mul_lt_mul_right a1 (le_of_lt htf)
      have b2 : t / tf ≤ k := le_of_mul_le_mul_right a2 htf
      have : t / tf = k := by omega
      rw [ht, this]; ring
  · simp only [hz, if_false]
    have hrpos : 0 < t % tf := lt_of_le_of_ne hr0 (Ne.symm hz)
    constructor
    · intro h; constructor <;> nlinarith
    · rintro ⟨h1, h2⟩
      have a1 : (k - 1) * tf < (t / tf + 1) * tf := by nlinarith
      have a2 : (t / tf) * tf < k * tf := by nlinarith
      have b1 : k - 1 < t / tf + 1 := lt_of_mul_lt_mul_right a1 (le_of_lt htf)
      have b2 : t / tf < k := lt_of_mul_lt_mul_right a2 (le_of_lt htf)
      have : t / tf = k - 1 := by omega
      rw [this]; ring

theorem label_aligned (tf t : Int) : label tf t % tf = 0 := by
  unfold label
  by_cases hz : t % tf = 0
  · simp [hz]
  · simp only [hz, if_false]
    have : t / tf * tf + tf = (t / tf + 1) * tf := by ring
    rw [this]; exact Int.mul_emod_left _ _

theorem roundDown_aligned (tf t : Int) : roundDown tf t % tf = 0 := Int.mul_emod_left _ _

theorem label_on (tf t : Int) (h : t % tf = 0) : label tf t = t ∧ roundDown tf t = t := by
  have := Int.emod_add_mul_ediv t tf
  unfold label roundDown; simp only [h, if_true, true_and]; rw [h] at this
  linarith [Int.mul_comm tf (t / tf)]

theorem label_off (tf t : Int) (h : ¬ t % tf = 0) : label tf t = roundDown tf t + tf := by
  unfold label roundDown; simp [h]

theorem aligned_gap (tf a b : Int) (htf : 0 < tf) (ha : a % tf = 0) (hb : b % tf = 0)
    (h : a < b + tf) : a ≤ b := by
  obtain ⟨x, rfl⟩ := aligned_decomp tf a ha
  obtain ⟨y, rfl⟩ := aligned_decomp tf b hb
  have : x * tf < (y + 1) * tf := by linarith [add_mul y 1 tf]
  have : x < y + 1 := lt_of_mul_lt_mul_right this (le_of_lt htf)
  have : x ≤ y := by omega
  exact Int.mul_le_mul_of_nonneg_right this (le_of_lt htf)

theorem label_bounds (tf t : Int) (htf : 0 < tf) : label tf t - tf < t ∧ t ≤ label tf t :=
  (label_eq_iff tf t (label tf t) htf (label_aligned tf t)).1 rfl

theorem label_le (tf t e : Int) (htf : 0 < tf) (he : e % tf = 0) (h : t ≤ e) : label tf t ≤ e :=
  aligned_gap tf _ _ htf (label_aligned tf t) he (by have := (label_bounds tf t htf).1; linarith)

theorem label_mono (tf a b : Int) (htf : 0 < tf) (h : a ≤ b) : label tf a ≤ label tf b :=
  label_le tf a (label tf b) htf (label_aligned tf b) (le_trans h (label_bounds tf b htf).2)

theorem add_tf_aligned (tf e : Int) (he : e % tf = 0) : (e + tf) % tf = 0 := by
  simp [he]

theorem label_idem (tf t : Int) : label tf (label tf t) = label tf t :=
  (label_on tf _ (label_aligned tf t)).1

/-! ### candle facts -/

theorem merge_ts (tf : Int) (a b : Candle F) (ha : CleanOk tf a) : (a.merge b).ts = a.ts := by
  unfold Candle.merge Candle.reset Candle.recoverClean
  cases hc : a.clean with
  | none => simp
  | some k =>
    cases hk : k.ts with
    | none => simp [hk]
    | some t => simp [hk, (ha k hc t hk).1]

theorem merge_clean (a b : Candle F) : (a.merge b).clean = none := by
  unfold Candle.merge Candle.reset; rfl

theorem cleanOk_merge (tf : Int) (a b : Candle F) : CleanOk tf (a.merge b) := by
  intro k hk; rw [merge_clean] at hk; cases hk

theorem cleanOk_setTs (tf : Int) (c : Candle F) (t : Int) (hc : CleanOk tf c) (ht : c.ts = some t) :
    CleanOk tf ({ c with ts := some (label tf t) } : Candle F) := by
  intro k hk t' hk'
  have := hc k hk t' hk'
  rw [ht] at this
  have h1 : t = t' := Option.some.inj this.1
  subst h1
  exact ⟨by simp [(label_on tf t this.2).1], this.2⟩

/-! ### the loop invariant -/

structure Inv (tf : Int) (st : WalkSt F) (P : List (Candle F)) : Prop where
  tfpos : 0 < tf
  al : st.start % tf = 0
  en : st.end_ = st.start + tf
  out : st.out = resampleR tf P
  clean : ∀ c ∈ st.out, CleanOk tf c
  last : ∃ prev r, st.out = prev :: r ∧ (prev.ts = some st.start ∨ prev.ts = some st.end_)

theorem resampleR_snoc (tf : Int) (P : List (Candle F)) (c : Candle F) :
    resampleR tf (P ++ [c]) = resampleStep tf (resampleR tf P) c := by
  simp [resampleR, List.foldl_append]

/-- a candle without timestamp is skipped by the loop and by the spec -/
theorem collapseStep_none (tf : Int) (st : WalkSt F) (P : List (Candle F)) (c : Candle F)
    (hI : Inv tf st P) (hc : c.ts = none) :
    collapseStep tf st c = .ok st ∧ Inv tf st (P ++ [c]) := by
  obtain ⟨htf, hal, hen, hout, hcl, prev, r, hr, hlast⟩ := hI
  constructor
  · unfold collapseStep; rw [hr]; simp [hc]
  · exact ⟨htf, hal, hen, by rw [resampleR_snoc, ← hout]; simp [resampleStep, hc], hcl, prev, r, hr, hlast⟩

/-- the loop body preserves the invariant and agrees with the spec whenever the newest bucket's
label does not exceed the label of the incoming candle -/
theorem collapseStep_ok (tf : Int) (st : WalkSt F) (P : List (Candle F)) (c : Candle F) (t : Int)
    (hI : Inv tf st P) (hc : c.ts = some t) (hcc : CleanOk tf c)
    (hmono : ∀ prev r pt, st.out = prev :: r → prev.ts = some pt → pt ≤ label tf t) :
    ∃ st', collapseStep tf st c = .ok st' ∧ Inv tf st' (P ++ [c]) := by
  obtain ⟨start, end_, rout⟩ := st
  obtain ⟨htf, hal, hen, hout, hcl, prev, r, hr, hlast⟩ := hI
  simp only at hal hen hout hr hlast hcl hmono
  subst hr
  have hprevOk : CleanOk tf prev := hcl prev (by simp)
  have hrOk : ∀ x ∈ r, CleanOk tf x := fun x hx => hcl x (by simp [hx])
  obtain ⟨pt, hpt⟩ : ∃ pt, prev.ts = some pt := by
    rcases hlast with h | h <;> exact ⟨_, h⟩
  have hm := hmono prev r pt rfl hpt
  have hend_al : end_ % tf = 0 := by rw [hen]; exact add_tf_aligned tf start hal
  have hS := label_eq_iff tf t start htf hal
  have hE := label_eq_iff tf t end_ htf hend_al
  have hN := label_eq_iff tf t (end_ + tf) htf (add_tf_aligned tf end_ hend_al)
  have hspec := resampleR_snoc tf P c
  rw [← hout] at hspec
  have hb := label_bounds tf t htf
  have hlast' : pt = start ∨ pt = end_ := by
    rcases hlast with h | h <;> rw [hpt] at h
    · exact Or.inl (Option.some.inj h)
    · exact Or.inr (Option.some.inj h)
  have hsetOk := cleanOk_setTs tf c t hcc hc
  have hmergeTs : (prev.merge c).ts = some pt := by rw [merge_ts tf prev c hprevOk, hpt]
  have clean_merge : ∀ x ∈ prev.merge c :: r, CleanOk tf x := by
    intro x hx; rcases List.mem_cons.1 hx with h | h
    · subst h; exact cleanOk_merge tf prev c
    · exact hrOk x h
  have clean_new : ∀ (c' : Candle F), CleanOk tf c' → ∀ x ∈ c' :: prev :: r, CleanOk tf x := by
    intro c' hc' x hx; rcases List.mem_cons.1 hx with h | h
    · subst h; exact hc'
    · exact hcl x h
  unfold collapseStep
  simp only [hc, hpt]
  split_ifs with h1 h2 h3 h4 h5 h6
  · -- merge into the bucket labelled end_
    have hL : label tf t = end_ := hE.2 ⟨by linarith [h1.1], h1.2.1⟩
    refine ⟨_, rfl, ⟨htf, hal, hen, ?_, clean_merge, _, _, rfl, Or.inr (by simp [hmergeTs, h1.2.2])⟩⟩
    simp only [hspec, resampleStep, hc, hL, hpt, h1.2.2, if_true]
  · -- new bucket labelled end_ (prev is labelled start)
    have hL : label tf t = end_ := hE.2 ⟨by linarith [h2.1], h2.2⟩
    have hp : pt = start := by
      rcases hlast' with h | h
      · exact h
      · exact absurd ⟨h2.1, h2.2, h⟩ h1
    have hne : ¬ (prev.ts = some (label tf t)) := by
      rw [hL, hpt, hp]; intro h; have := Option.some.inj h; linarith
    refine ⟨_, rfl, ⟨htf, hal, hen, ?_, ?_, _, _, rfl, Or.inr rfl⟩⟩
    · rw [hspec]; simp only [resampleStep, hc]; rw [if_neg hne, hL]
    · rw [← hL]; exact clean_new _ hsetOk
  · -- merge into the bucket labelled start
    have hL : label tf t = start := hS.2 ⟨h3.1, h3.2.1⟩
    refine ⟨_, rfl, ⟨htf, hal, hen, ?_, clean_merge, _, _, rfl, Or.inl (by simp [hmergeTs, h3.2.2])⟩⟩
    simp only [hspec, resampleStep, hc, hL, hpt, h3.2.2, if_true]
  · -- next bucket
    have hL : label tf t = end_ + tf := hN.2 ⟨by linarith [h4.1], h4.2⟩
    have hne : ¬ (prev.ts = some (label tf t)) := by
      rw [hL, hpt]; intro h; have := Option.some.inj h
      rcases hlast' with h' | h' <;> rw [h'] at this <;> linarith
    refine ⟨_, rfl, ⟨htf, add_tf_aligned tf start hal, by simp only; linarith, ?_, ?_, _, _, rfl, Or.inr rfl⟩⟩
    · rw [hspec]; simp only [resampleStep, hc]; rw [if_neg hne, hL]
    · rw [← hL]; exact clean_new _ hsetOk
  · -- jump, candle exactly on a boundary
    have hon : t % tf = 0 := by simpa [onTimeframe] using h5.2
    obtain ⟨hL, hF⟩ := label_on tf t hon
    have hgt : end_ < t := by
      by_contra hcn
      exact h2 ⟨h5.1, by linarith⟩
    have hne : ¬ (prev.ts = some (label tf t)) := by
      rw [hL, hpt]; intro h; have := Option.some.inj h
      rcases hlast' with h' | h' <;> rw [h'] at this <;> linarith [h5.1]
    refine ⟨_, rfl, ⟨htf, roundDown_aligned tf _, rfl, ?_, ?_, _, _, rfl, Or.inl rfl⟩⟩
    · rw [hspec]; simp only [resampleStep, hc]; rw [if_neg hne, hL, hF]
    · rw [hF, ← hL]; exact clean_new _ hsetOk
  · -- jump, candle inside a later bucket
    have hoff : ¬ t % tf = 0 := fun hz => h5 ⟨by linarith, by simpa [onTimeframe] using hz⟩
    have hL := label_off tf t hoff
    have hne : ¬ (prev.ts = some (label tf t)) := by
      rw [hpt]; intro h; have h' := Option.some.inj h
      have := hb.2
      rcases hlast' with h'' | h'' <;> rw [h''] at h' <;> linarith
    refine ⟨_, rfl, ⟨htf, roundDown_aligned tf _, rfl, ?_, ?_, _, _, rfl, Or.inr rfl⟩⟩
    · rw [hspec]; simp only [resampleStep, hc]; rw [if_neg hne, hL]
    · rw [← hL]; exact clean_new _ hsetOk
  · -- fall-through (InvalidCandleOrder) is unreachable when labels do not decrease
    exfalso
    have t1 : t ≤ end_ + tf := not_lt.1 h6
    have t2 : t ≤ end_ := by
      by_contra hcn; exact h4 ⟨not_le.1 hcn, t1⟩
    have t3 : t ≤ start := by
      by_contra hcn; exact h2 ⟨not_le.1 hcn, t2⟩
    have hLle := label_le tf t start htf hal t3
    rcases hlast' with h | h
    · have hL : label tf t = start := le_antisymm hLle (by rw [← h]; exact hm)
      exact h3 ⟨(hS.1 hL).1, (hS.1 hL).2, h⟩
    · rw [h] at hm; linarith

end Hex

namespace Hex
variable {F : Type} [PyF F]

/-! ### the newest bucket carries the label of the last stamped candle -/

theorem labels_append (tf : Int) (a b : List (Candle F)) : labels tf (a ++ b) = labels tf a ++ labels tf b := by
  simp [labels, List.filterMap_append]

theorem labels_cons_some (tf : Int) (c : Candle F) (r : List (Candle F)) (t : Int) (h : c.ts = some t) :
    labels tf (c :: r) = label tf t :: labels tf r := by
  simp [labels, List.filterMap_cons, h]

theorem labels_cons_none (tf : Int) (c : Candle F) (r : List (Candle F)) (h : c.ts = none) :
    labels tf (c :: r) = labels tf r := by
  simp [labels, List.filterMap_cons, h]

theorem foldl_resample_props (tf : Int) (xs : List (Candle F)) :
    ∀ (acc : List (Candle F)) (labs : List Int),
      (∀ x ∈ acc, CleanOk tf x) → acc.head?.bind (·.ts) = labs.getLast? →
      (∀ c ∈ xs, CleanOk tf c) →
      (∀ x ∈ xs.foldl (resampleStep tf) acc, CleanOk tf x) ∧
      (xs.foldl (resampleStep tf) acc).head?.bind (·.ts) = (labs ++ labels tf xs).getLast? := by
  induction xs with
  | nil => intro acc labs h1 h2 _; simp [labels, h1, h2]; exact h1
  | cons c rest ih =>
    intro acc labs h1 h2 h3
    have hc : CleanOk tf c := h3 c (by simp)
    have hrest : ∀ x ∈ rest, CleanOk tf x := fun x hx => h3 x (by simp [hx])
    simp only [List.foldl_cons]
    cases hts : c.ts with
    | none =>
      have : resampleStep tf acc c = acc := by simp [resampleStep, hts]
      rw [this, labels_cons_none tf c rest hts]
      exact ih acc labs h1 h2 hrest
    | some t =>
      rw [labels_cons_some tf c rest t hts]
      have key : (∀ x ∈ resampleStep tf acc c, CleanOk tf x) ∧
          (resampleStep tf acc c).head?.bind (·.ts) = (labs ++ [label tf t]).getLast? := by
        unfold resampleStep
        simp only [hts]
        cases acc with
        | nil =>
          refine ⟨?_, by simp⟩
          intro x hx; simp at hx; subst hx; exact cleanOk_setTs tf c t hc hts
        | cons l r =>
          simp only
          split_ifs with hl
          · refine ⟨?_, ?_⟩
            · intro x hx; rcases List.mem_cons.1 hx with h | h
              · subst h; exact cleanOk_merge tf l c
              · exact h1 x (by simp [h])
            · simp [merge_ts tf l c (h1 l (by simp)), hl]
          · refine ⟨?_, by simp⟩
            intro x hx; rcases List.mem_cons.1 hx with h | h
            · subst h; exact cleanOk_setTs tf c t hc hts
            · exact h1 x h
      have := ih (resampleStep tf acc c) (labs ++ [label tf t]) key.1 key.2 hrest
      simpa [List.append_assoc] using this

theorem resampleR_props (tf : Int) (P : List (Candle F)) (hP : ∀ c ∈ P, CleanOk tf c) :
    (∀ x ∈ resampleR tf P, CleanOk tf x) ∧
    (resampleR tf P).head?.bind (·.ts) = (labels tf P).getLast? := by
  have := foldl_resample_props tf P [] [] (by simp) (by simp) hP
  simpa [resampleR] using this

/-! ### the whole walk -/

theorem collapseLoop_ok (tf : Int) (rest : List (Candle F)) :
    ∀ (st : WalkSt F) (P : List (Candle F)), Inv tf st P →
      (∀ c ∈ P, CleanOk tf c) → (∀ c ∈ rest, CleanOk tf c) → LabelsMono tf (P ++ rest) →
      ∃ st', collapseLoop tf st rest = .ok st' ∧ Inv tf st' (P ++ rest) := by
  induction rest with
  | nil => intro st P hI _ _ _; exact ⟨st, rfl, by simpa using hI⟩
  | cons c rest ih =>
    intro st P hI hP hR hM
    have hc : CleanOk tf c := hR c (by simp)
    have hrest : ∀ x ∈ rest, CleanOk tf x := fun x hx => hR x (by simp [hx])
    have hP' : ∀ x ∈ P ++ [c], CleanOk tf x := by
      intro x hx; rcases List.mem_append.1 hx with h | h
      · exact hP x h
      · simp at h; subst h; exact hc
    have hM' : LabelsMono tf ((P ++ [c]) ++ rest) := by simpa [List.append_assoc] using hM
    unfold collapseLoop
    cases hts : c.ts with
    | none =>
      obtain ⟨h1, h2⟩ := collapseStep_none tf st P c hI hts
      obtain ⟨st'', h3, h4⟩ := ih st (P ++ [c]) h2 hP' hrest hM'
      refine ⟨st'', ?_, by simpa [List.append_assoc] using h4⟩
      simp [h1, h3, bind, Except.bind]
    | some t =>
      have hmono : ∀ prev r pt, st.out = prev :: r → prev.ts = some pt → pt ≤ label tf t := by
        intro prev r pt hout hpt
        have hh := (resampleR_props tf P hP).2
        rw [← hI.out, hout] at hh
        simp only [List.head?_cons, Option.bind_some, hpt] at hh
        -- pt is the last label of P, label tf t comes later in the label sequence
        have hmem : pt ∈ labels tf P := List.mem_of_getLast? hh.symm
        unfold LabelsMono at hM
        rw [labels_append, labels_cons_some tf c rest t hts] at hM
        have := (List.pairwise_append.1 hM).2.2 pt hmem (label tf t) (by simp)
        exact this
      obtain ⟨st', h1, h2⟩ := collapseStep_ok tf st P c t hI hts hc hmono
      obtain ⟨st'', h3, h4⟩ := ih st' (P ++ [c]) h2 hP' hrest hM'
      refine ⟨st'', ?_, by simpa [List.append_assoc] using h4⟩
      simp [h1, h3, bind, Except.bind]

theorem setTs_self (c : Candle F) (t : Int) (h : c.ts = some t) :
    ({ c with ts := some t } : Candle F) = c := by
  cases c; simp at h; simp [h]

/-- **Collapsing refines resampling.**  For any list whose first candle carries a timestamp and
whose bucket labels never decrease, `collapse_candles` succeeds and returns exactly the
right-closed, right-labelled resampling fold. -/
theorem collapse_eq_resample (tf : Int) (htf : 0 < tf) (xs : List (Candle F))
    (hfirst : ∀ c, xs.head? = some c → c.ts ≠ none)
    (hclean : ∀ c ∈ xs, CleanOk tf c) (hmono : LabelsMono tf xs) :
    collapseCandles (some tf) false xs = .ok (resample tf xs) := by
  cases xs with
  | nil => simp [collapseCandles, resample, resampleR]
  | cons init rest =>
    obtain ⟨t0, ht0⟩ : ∃ t0, init.ts = some t0 := by
      cases h : init.ts with
      | none => exact absurd h (hfirst init rfl)
      | some t => exact ⟨t, rfl⟩
    have hinit : CleanOk tf init := hclean init (by simp)
    have hrest : ∀ x ∈ rest, CleanOk tf x := fun x hx => hclean x (by simp [hx])
    unfold collapseCandles
    simp only [ht0]
    -- the initial state satisfies the invariant for P = [init]
    have hR1 : resampleR tf [init] = [({ init with ts := some (label tf t0) } : Candle F)] := by
      simp [resampleR, resampleStep, ht0]
    have hI : Inv tf (WalkSt.mk (roundDown tf t0) (roundDown tf t0 + tf)
        [if onTimeframe tf t0 = true then init
         else ({ init with ts := some (roundDown tf t0 + tf) } : Candle F)]) [init] := by
      by_cases hon : t0 % tf = 0
      · obtain ⟨hL, hF⟩ := label_on tf t0 hon
        have e1 : onTimeframe tf t0 = true := by simp [onTimeframe, hon]
        refine ⟨htf, roundDown_aligned tf t0, rfl, ?_, ?_, init, [], by simp [e1], Or.inl (by rw [hF, ht0])⟩
        · simp only [e1, if_true, hR1, hL]; rw [setTs_self init t0 ht0]
        · intro x hx; simp [e1] at hx; subst hx; exact hinit
      · have hL := label_off tf t0 hon
        have e1 : ¬ (onTimeframe tf t0 = true) := by simp [onTimeframe, hon]
        refine ⟨htf, roundDown_aligned tf t0, rfl, ?_, ?_,
          ({ init with ts := some (roundDown tf t0 + tf) } : Candle F), [], by simp [e1], Or.inr rfl⟩
        · simp [e1, hR1, hL]
        · intro x hx; simp [e1] at hx; subst hx; rw [← hL]; exact cleanOk_setTs tf init t0 hinit ht0
    obtain ⟨st', h1, h2⟩ := collapseLoop_ok tf rest _ [init] hI (by simpa using hinit) hrest (by simpa using hmono)
    simp only [h1, bind, Except.bind, Bool.false_eq_true, if_false]
    simp only [resample]
    rw [h2.out]; rfl

/-- non-decreasing timestamps give non-decreasing labels -/
theorem labelsMono_of_sorted (tf : Int) (htf : 0 < tf) (xs : List (Candle F))
    (h : (xs.filterMap (·.ts)).Pairwise (· ≤ ·)) : LabelsMono tf xs := by
  unfold LabelsMono labels
  have : xs.filterMap (fun c => c.ts.map (label tf)) = (xs.filterMap (·.ts)).map (label tf) := by
    rw [List.map_filterMap]
  rw [this, List.pairwise_map]
  exact h.imp (fun hab => label_mono tf _ _ htf hab)

end Hex

import HexModel.Core.Manager
import Mathlib.Tactic.Linarith
/-
`trim_candles`: on a list with non-decreasing stamps the pop-from-the-front loop keeps exactly
the candles inside the lifespan window.
-/
namespace Hex
variable {F : Type} [PyF F]

/-- all candles stamped, stamps non-decreasing -/
structure SortedStamped (cs : List (Candle F)) : Prop where
  stamped : ∀ c ∈ cs, c.ts ≠ none
  sorted : (cs.filterMap (·.ts)).Pairwise (· ≤ ·)

theorem dropWhile_eq_filter_sorted (bound : Int) (cs : List (Candle F)) (h : SortedStamped cs) :
    cs.dropWhile (tooOld bound) = cs.filter (fun c => !tooOld bound c) := by
  induction cs with
  | nil => rfl
  | cons a r ih =>
    have hr : SortedStamped r := ⟨fun c hc => h.stamped c (by simp [hc]), by
      have := h.sorted
      cases ha : a.ts with
      | none => exact absurd ha (h.stamped a (by simp))
      | some ta => simp only [List.filterMap_cons, ha] at this; exact (List.pairwise_cons.1 this).2⟩
    by_cases hp : tooOld bound a = true
    · simp [List.dropWhile_cons, List.filter_cons, hp, ih hr]
    · have hp' : tooOld bound a = false := by simpa using hp
      simp only [List.dropWhile_cons, hp', Bool.false_eq_true, if_false, List.filter_cons, Bool.not_false, if_true]
      congr 1
      -- everything after `a` is at least as new, hence kept
      symm
      apply List.filter_eq_self.2
      intro b hb
      obtain ⟨ta, hta⟩ : ∃ ta, a.ts = some ta := by
        cases ha : a.ts with
        | none => exact absurd ha (h.stamped a (by simp))
        | some ta => exact ⟨ta, rfl⟩
      obtain ⟨tb, htb⟩ : ∃ tb, b.ts = some tb := by
        cases hbt : b.ts with
        | none => exact absurd hbt (h.stamped b (by simp [hb]))
        | some tb => exact ⟨tb, rfl⟩
      have hab : ta ≤ tb := by
        have := h.sorted
        simp only [List.filterMap_cons, hta] at this
        exact (List.pairwise_cons.1 this).1 tb (List.mem_filterMap.2 ⟨b, hb, htb⟩)
      simp only [tooOld, hta, decide_eq_false_iff_not, not_lt] at hp'
      simp only [tooOld, htb, Bool.not_eq_true', decide_eq_false_iff_not, not_lt]
      linarith

/-- **Lifespan window.**  With a non-negative lifespan the retained candles are exactly those
not older than the newest stamp minus the lifespan, in order, and the call does not raise. -/
theorem trim_eq_window (life : Int) (hlife : 0 ≤ life) (cs : List (Candle F)) (h : SortedStamped cs)
    (lastC : Candle F) (latest : Int) (hl : cs.getLast? = some lastC) (hlt : lastC.ts = some latest) :
    trimCandles (some life) cs = .ok (cs.filter (fun c => !tooOld (latest - life) c)) := by
  unfold trimCandles
  simp only [hl, hlt]
  rw [dropWhile_eq_filter_sorted (latest - life) cs h]
  have hmem : lastC ∈ cs.filter (fun c => !tooOld (latest - life) c) := by
    refine List.mem_filter.2 ⟨List.mem_of_getLast? hl, ?_⟩
    simp only [tooOld, hlt, Bool.not_eq_true', decide_eq_false_iff_not, not_lt]
    linarith
  have : (cs.filter (fun c => !tooOld (latest - life) c)).isEmpty = false := by
    cases hf : cs.filter (fun c => !tooOld (latest - life) c) with
    | nil => rw [hf] at hmem; simp at hmem
    | cons _ _ => rfl
  simp [this]

end Hex

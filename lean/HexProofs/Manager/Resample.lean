import HexProofs.Manager.Collapse
/-
Properties of the resampling fold: its output is a list of distinct aligned buckets in strictly
increasing order; re-running it on its own output (followed by later candles) changes nothing.
-/
namespace Hex
variable {F : Type} [PyF F]

/-- reversed bucket list: every candle stamped and aligned, stamps strictly decreasing from the head -/
structure BucketedR (tf : Int) (acc : List (Candle F)) : Prop where
  stamped : ∀ a ∈ acc, ∃ t, a.ts = some t ∧ t % tf = 0
  decr : (acc.filterMap (·.ts)).Pairwise (· > ·)

theorem bucketedR_nil (tf : Int) : BucketedR tf ([] : List (Candle F)) := ⟨by simp, by simp⟩

/-- head stamp of a reversed bucket list bounds all stamps -/
theorem BucketedR.le_head (tf : Int) (l : Candle F) (r : List (Candle F)) (h : BucketedR tf (l :: r))
    (tl : Int) (hl : l.ts = some tl) : ∀ a ∈ r, ∀ ta, a.ts = some ta → ta < tl := by
  intro a ha ta hta
  have := h.decr
  simp only [List.filterMap_cons, hl] at this
  have h2 := (List.pairwise_cons.1 this).1 ta (List.mem_filterMap.2 ⟨a, ha, hta⟩)
  exact h2

theorem resampleStep_bucketed (tf : Int) (htf : 0 < tf) (acc : List (Candle F)) (c : Candle F)
    (hacc : BucketedR tf acc) (hclean : ∀ x ∈ acc, CleanOk tf x)
    (hge : ∀ t, c.ts = some t → ∀ l r tl, acc = l :: r → l.ts = some tl → tl ≤ label tf t) :
    BucketedR tf (resampleStep tf acc c) := by
  unfold resampleStep
  cases hts : c.ts with
  | none => simpa using hacc
  | some t =>
    simp only
    cases acc with
    | nil =>
      exact ⟨by intro a ha; simp at ha; subst ha; exact ⟨_, rfl, label_aligned tf t⟩, by simp⟩
    | cons l r =>
      simp only
      obtain ⟨tl, htl, hal⟩ := hacc.stamped l (by simp)
      have hle := hge t hts l r tl rfl htl
      split_ifs with hl
      · -- merged: same stamps as before
        have hm : (l.merge c).ts = some tl := by rw [merge_ts tf l c (hclean l (by simp)), htl]
        refine ⟨?_, ?_⟩
        · intro a ha; rcases List.mem_cons.1 ha with h | h
          · subst h; exact ⟨tl, hm, hal⟩
          · exact hacc.stamped a (by simp [h])
        · have := hacc.decr
          simpa [List.filterMap_cons, hm, htl] using this
      · have hlt : tl < label tf t := by
          rcases lt_or_eq_of_le hle with h | h
          · exact h
          · exact absurd (by rw [htl, h]) hl
        refine ⟨?_, ?_⟩
        · intro a ha; rcases List.mem_cons.1 ha with h | h
          · subst h; exact ⟨_, rfl, label_aligned tf t⟩
          · exact hacc.stamped a h
        · simp only [List.filterMap_cons, htl]
          refine List.pairwise_cons.2 ⟨?_, by simpa [List.filterMap_cons, htl] using hacc.decr⟩
          intro x hx
          rcases List.mem_cons.1 hx with h | h
          · subst h; exact hlt
          · obtain ⟨a, ha, hta⟩ := List.mem_filterMap.1 h
            have := hacc.le_head tf l r tl htl a ha x hta
            exact lt_trans this hlt

/-- the resampling fold from a bucketed accumulator stays bucketed -/
theorem foldl_resample_bucketed (tf : Int) (htf : 0 < tf) (xs : List (Candle F)) :
    ∀ (acc : List (Candle F)) (labs : List Int), BucketedR tf acc → (∀ x ∈ acc, CleanOk tf x) →
      acc.head?.bind (·.ts) = labs.getLast? → (∀ c ∈ xs, CleanOk tf c) →
      (labs ++ labels tf xs).Pairwise (· ≤ ·) →
      BucketedR tf (xs.foldl (resampleStep tf) acc) := by
  induction xs with
  | nil => intro acc _ h _ _ _ _; simpa using h
  | cons c rest ih =>
    intro acc labs hb hcl hhead hxs hmono
    have hc : CleanOk tf c := hxs c (by simp)
    have hrest : ∀ x ∈ rest, CleanOk tf x := fun x hx => hxs x (by simp [hx])
    simp only [List.foldl_cons]
    have hprops := foldl_resample_props tf [c] acc labs hcl hhead (by simpa using hc)
    simp only [List.foldl_cons, List.foldl_nil] at hprops
    have hge : ∀ t, c.ts = some t → ∀ l r tl, acc = l :: r → l.ts = some tl → tl ≤ label tf t := by
      intro t ht l r tl hacc htl
      subst hacc
      simp only [List.head?_cons, Option.bind_some, htl] at hhead
      have hmem : tl ∈ labs := List.mem_of_getLast? hhead.symm
      rw [labels_cons_some tf c rest t ht] at hmono
      exact (List.pairwise_append.1 hmono).2.2 tl hmem (label tf t) (by simp)
    have hb' := resampleStep_bucketed tf htf acc c hb hcl hge
    apply ih (resampleStep tf acc c) (labs ++ labels tf [c]) hb' hprops.1 hprops.2 hrest
    have : labels tf (c :: rest) = labels tf [c] ++ labels tf rest := by
      rw [← labels_append]; rfl
    rw [this] at hmono
    simpa [List.append_assoc] using hmono

theorem resampleR_bucketed (tf : Int) (htf : 0 < tf) (xs : List (Candle F))
    (hclean : ∀ c ∈ xs, CleanOk tf c) (hmono : LabelsMono tf xs) : BucketedR tf (resampleR tf xs) := by
  have := foldl_resample_bucketed tf htf xs [] [] (bucketedR_nil tf) (by simp) (by simp) hclean
    (by simpa [LabelsMono] using hmono)
  simpa [resampleR] using this

/-- re-running the fold over an (in order) bucket list reproduces it -/
theorem foldl_resample_bucket_list (tf : Int) (ys : List (Candle F)) :
    ∀ (acc : List (Candle F)),
      (∀ y ∈ ys, ∃ t, y.ts = some t ∧ t % tf = 0) →
      ((acc.reverse ++ ys).filterMap (·.ts)).Pairwise (· < ·) →
      (∀ a ∈ acc, a.ts ≠ none) →
      ys.foldl (resampleStep tf) acc = ys.reverse ++ acc := by
  induction ys with
  | nil => intro acc _ _ _; simp
  | cons y rest ih =>
    intro acc hst hinc hacc
    obtain ⟨t, hyt, hal⟩ := hst y (by simp)
    have hL : label tf t = t := (label_on tf t hal).1
    have hstep : resampleStep tf acc y = y :: acc := by
      unfold resampleStep
      simp only [hyt, hL]
      cases acc with
      | nil => simp [setTs_self y t hyt]
      | cons l r =>
        simp only
        have hne : ¬ (l.ts = some t) := by
          intro hl
          -- l's stamp precedes y's stamp strictly
          have : ((l :: r).reverse ++ y :: rest).filterMap (·.ts) =
              (r.reverse.filterMap (·.ts)) ++ (t :: t :: rest.filterMap (·.ts)) := by
            simp [List.filterMap_append, List.filterMap_cons, hl, hyt]
          rw [this] at hinc
          have h2 := (List.pairwise_append.1 hinc).2.1
          have := (List.pairwise_cons.1 h2).1 t (by simp)
          exact absurd this (lt_irrefl t)
        rw [if_neg hne, setTs_self y t hyt]
    simp only [List.foldl_cons, hstep]
    rw [ih (y :: acc) (fun z hz => hst z (by simp [hz])) (by simpa using hinc)
      (by intro a ha; rcases List.mem_cons.1 ha with h | h
          · subst h; simp [hyt]
          · exact hacc a h)]
    simp

/-- increasing stamps in order from a reversed bucket list -/
theorem BucketedR.incr_reverse (tf : Int) (acc : List (Candle F)) (h : BucketedR tf acc) :
    (acc.reverse.filterMap (·.ts)).Pairwise (· < ·) := by
  have := h.decr
  rw [List.filterMap_reverse, List.pairwise_reverse]
  exact this.imp (fun hab => hab)

/-- **Idempotence**: resampling the output of a resampling fold gives it back. -/
theorem resampleR_reverse_self (tf : Int) (acc : List (Candle F)) (h : BucketedR tf acc) :
    resampleR tf acc.reverse = acc := by
  have := foldl_resample_bucket_list tf acc.reverse []
    (by intro y hy; exact h.stamped y (List.mem_reverse.1 hy))
    (by simpa using h.incr_reverse tf acc) (by simp)
  simpa [resampleR] using this

/-- **Re-collapsing on append**: folding the old buckets and then the new candles equals folding
the whole raw stream. -/
theorem resampleR_resample_append (tf : Int) (htf : 0 < tf) (s new : List (Candle F))
    (hclean : ∀ c ∈ s, CleanOk tf c) (hmono : LabelsMono tf s) :
    resampleR tf (resample tf s ++ new) = resampleR tf (s ++ new) := by
  have hb := resampleR_bucketed tf htf s hclean hmono
  unfold resample
  simp only [resampleR, List.foldl_append]
  have := resampleR_reverse_self tf (resampleR tf s) hb
  simp only [resampleR] at this
  rw [this]

end Hex

import HexProofs.Manager.Schedule
import HexModel.Spec.Fill
import Mathlib.Tactic.Linarith
/-
`fill_missing_candles` terminates on every bucket list and yields a contiguous series made of
the original buckets plus flat zero-volume candles.
-/
namespace Hex
variable {F : Type} [PyF F]

theorem contigFrom_append (tf : Int) (xs ys : List (Candle F)) :
    ∀ t, ContigFrom tf t (xs ++ ys) ↔ ContigFrom tf t xs ∧ ContigFrom tf (t + xs.length * tf) ys := by
  induction xs with
  | nil => intro t; simp [ContigFrom]
  | cons c r ih =>
    intro t
    simp only [List.cons_append, ContigFrom, ih (t + tf), List.length_cons, and_assoc]
    have : t + tf + (r.length : Int) * tf = t + ((r.length : Int) + 1) * tf := by ring
    rw [this]; push_cast; rfl

theorem fillRun_length (a : Candle F) (tf t : Int) (n : Nat) : (fillRun a tf t n).length = n := by
  induction n generalizing t with
  | zero => rfl
  | succ n ih => simp [fillRun, ih]

theorem fillRun_contig (a : Candle F) (tf t : Int) (n : Nat) : ContigFrom tf t (fillRun a tf t n) := by
  induction n generalizing t with
  | zero => trivial
  | succ n ih => exact ⟨rfl, ih (t + tf)⟩

theorem fillCandle_isFill (a : Candle F) (t : Int) : IsFillOf a.rawClose (fillCandle a t) := by
  simp [IsFillOf, fillCandle]

theorem fillCandle_close (a : Candle F) (t : Int) : (fillCandle a t).rawClose = a.rawClose := rfl

theorem fillCandle_congr (a b : Candle F) (t : Int) (h : a.rawClose = b.rawClose) : fillCandle a t = fillCandle b t := by
  simp [fillCandle, h]

theorem fillRun_congr (a b : Candle F) (tf : Int) (h : a.rawClose = b.rawClose) :
    ∀ (m : Nat) (u : Int), fillRun a tf u m = fillRun b tf u m := by
  intro m; induction m with
  | zero => intro u; rfl
  | succ m ihm => intro u; simp only [fillRun, ihm, fillCandle_congr a b _ h]

/-- a run of fills followed by the rest is a filled version of `a :: rest` -/
theorem filledFrom_run (tf : Int) (n : Nat) :
    ∀ (a : Candle F) (t : Int) (b : Candle F) (ys zs : List (Candle F)), FilledFrom (b :: ys) (b :: zs) →
      FilledFrom (a :: b :: ys) (a :: (fillRun a tf t n ++ b :: zs)) := by
  induction n with
  | zero => intro a t b ys zs h; exact FilledFrom.keep a b ys zs h
  | succ n ih =>
    intro a t b ys zs h
    simp only [fillRun, List.cons_append]
    rw [fillRun_congr a (fillCandle a (t + tf)) tf rfl n (t + tf)]
    exact FilledFrom.fill a (fillCandle a (t + tf)) (b :: ys) _ (fillCandle_isFill a _)
      (ih (fillCandle a (t + tf)) (t + tf) b ys zs h)

/-- **Filling a bucket list** terminates, is contiguous, and only inserts fill candles. -/
theorem fillMissing_ok (tf : Int) (htf : 0 < tf) (ys : List (Candle F)) (hb : Bucketed tf ys) :
    ∃ zs, fillMissing tf ys = .ok zs ∧ Contiguous tf zs ∧ FilledFrom ys zs ∧
      (zs.head? = ys.head?) ∧ (zs.getLast? = ys.getLast?) := by
  induction ys with
  | nil => exact ⟨[], rfl, trivial, FilledFrom.nil, rfl, rfl⟩
  | cons a rest ih =>
    obtain ⟨ta, hta, hala⟩ := hb.stamped a (by simp)
    cases rest with
    | nil => exact ⟨[a], rfl, ⟨ta, hta, trivial⟩, FilledFrom.single a, rfl, rfl⟩
    | cons b rest =>
      obtain ⟨tb, htb, halb⟩ := hb.stamped b (by simp)
      have hb' : Bucketed tf (b :: rest) :=
        ⟨fun x hx => hb.stamped x (by simp [hx]), by
          have := hb.incr; simp only [List.filterMap_cons, hta] at this
          exact (List.pairwise_cons.1 this).2⟩
      obtain ⟨zs, hz, hcont, hfilled, hhead, hlast⟩ := ih hb'
      have hlt : ta < tb := by
        have := hb.incr; simp only [List.filterMap_cons, hta, htb] at this
        exact (List.pairwise_cons.1 this).1 tb (by simp)
      -- the gap is a positive multiple of the timeframe
      obtain ⟨ka, rfl⟩ := aligned_decomp tf ta hala
      obtain ⟨kb, rfl⟩ := aligned_decomp tf tb halb
      have hk : ka < kb := lt_of_mul_lt_mul_right hlt (le_of_lt htf)
      have hgap : kb * tf - ka * tf = (kb - ka) * tf := by ring
      have hmod : (kb * tf - ka * tf) % tf = 0 := by rw [hgap]; exact Int.mul_emod_left _ _
      have hdiv : (kb * tf - ka * tf) / tf = kb - ka := by
        rw [hgap]; exact Int.mul_ediv_cancel _ (ne_of_gt htf)
      -- zs starts with b
      obtain ⟨zs', rfl⟩ : ∃ zs', zs = b :: zs' := by
        cases zs with
        | nil => simp at hhead
        | cons z zr => simp at hhead; subst hhead; exact ⟨zr, rfl⟩
      refine ⟨a :: (fillRun a tf (ka * tf) ((kb - ka).toNat - 1) ++ b :: zs'), ?_, ?_, ?_, rfl, ?_⟩
      · unfold fillMissing
        simp only [hta, htb]
        have hcond : ¬ (kb * tf - ka * tf ≤ 0 ∨ (kb * tf - ka * tf) % tf ≠ 0) := by
          intro h; rcases h with h | h
          · linarith
          · exact h hmod
        rw [if_neg hcond, hz, hdiv]; rfl
      · refine ⟨ka * tf, hta, ?_⟩
        rw [contigFrom_append]
        refine ⟨fillRun_contig a tf _ _, ?_⟩
        rw [fillRun_length]
        obtain ⟨t', ht', hc'⟩ := hcont
        rw [htb] at ht'; have ht'' := Option.some.inj ht'; subst ht''
        have hn : (((kb - ka).toNat - 1 : Nat) : Int) = kb - ka - 1 := by omega
        refine ⟨?_, ?_⟩
        · rw [htb, hn]; congr 1; ring
        · have : ka * tf + ((((kb - ka).toNat - 1 : Nat)) : Int) * tf + tf = kb * tf := by rw [hn]; ring
          rw [this]; exact hc'
      · exact filledFrom_run tf _ a _ b rest zs' hfilled
      · have h1 : (a :: (fillRun a tf (ka * tf) ((kb - ka).toNat - 1) ++ b :: zs')).getLast?
            = (b :: zs').getLast? := by
          rw [show a :: (fillRun a tf (ka * tf) ((kb - ka).toNat - 1) ++ b :: zs')
              = (a :: fillRun a tf (ka * tf) ((kb - ka).toNat - 1)) ++ (b :: zs') from rfl]
          rw [List.getLast?_append]
          cases hq : (b :: zs').getLast? with
          | none => simp at hq
          | some q => simp
        have h2 : (a :: b :: rest).getLast? = (b :: rest).getLast? := by simp [List.getLast?_cons_cons]
        rw [h1, h2, hlast]

end Hex

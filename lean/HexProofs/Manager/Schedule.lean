import HexProofs.Manager.Resample
/-
The manager under construction + any sequence of appends (no fill, no conversion, no lifespan).
-/
namespace Hex
variable {F : Type} [PyF F]

theorem filterMap_congr' {α β : Type} (f g : α → Option β) (l : List α) (h : ∀ a ∈ l, f a = g a) :
    l.filterMap f = l.filterMap g := by
  induction l with
  | nil => rfl
  | cons a r ih =>
    simp only [List.filterMap_cons, h a (by simp)]
    rw [ih (fun x hx => h x (by simp [hx]))]

theorem labels_of_bucketed (tf : Int) (acc : List (Candle F)) (h : BucketedR tf acc) :
    labels tf acc = acc.filterMap (·.ts) := by
  unfold labels
  apply filterMap_congr'
  intro a ha
  obtain ⟨t, ht, hal⟩ := h.stamped a ha
  simp [ht, (label_on tf t hal).1]

/-- old buckets followed by later raw candles still have non-decreasing labels -/
theorem labelsMono_resample_append (tf : Int) (htf : 0 < tf) (s new : List (Candle F))
    (hclean : ∀ c ∈ s, CleanOk tf c) (hmono : LabelsMono tf (s ++ new)) :
    LabelsMono tf (resample tf s ++ new) := by
  have hms : LabelsMono tf s := by
    unfold LabelsMono at hmono ⊢; rw [labels_append] at hmono; exact (List.pairwise_append.1 hmono).1
  have hb := resampleR_bucketed tf htf s hclean hms
  have hhead := (resampleR_props tf s hclean).2
  unfold LabelsMono at hmono ⊢
  rw [labels_append] at hmono ⊢
  obtain ⟨_, hnew, hcross⟩ := List.pairwise_append.1 hmono
  refine List.pairwise_append.2 ⟨?_, hnew, ?_⟩
  · -- stamps of the buckets increase strictly
    have hbr : BucketedR tf (resampleR tf s) := hb
    have : labels tf (resample tf s) = (resampleR tf s).reverse.filterMap (·.ts) := by
      unfold resample labels
      apply filterMap_congr'
      intro a ha
      obtain ⟨t, ht, hal⟩ := hbr.stamped a (List.mem_reverse.1 ha)
      simp [ht, (label_on tf t hal).1]
    rw [this]
    exact (hb.incr_reverse tf _).imp (fun h => le_of_lt h)
  · intro a ha b hb'
    -- a is the stamp of some bucket; it is at most the head stamp = last label of s ≤ b
    have ha' : a ∈ (resampleR tf s).filterMap (·.ts) := by
      unfold labels resample at ha
      obtain ⟨x, hx, hxa⟩ := List.mem_filterMap.1 ha
      have hx' := List.mem_reverse.1 hx
      obtain ⟨t, ht, hal⟩ := hb.stamped x hx'
      simp [ht, (label_on tf t hal).1] at hxa
      exact List.mem_filterMap.2 ⟨x, hx', by rw [ht, hxa]⟩
    cases hR : resampleR tf s with
    | nil => rw [hR] at ha'; simp at ha'
    | cons l r =>
      rw [hR] at hhead ha' hb
      obtain ⟨tl, htl, _⟩ := hb.stamped l (by simp)
      simp only [List.head?_cons, Option.bind_some, htl] at hhead
      have hmem : tl ∈ labels tf s := List.mem_of_getLast? hhead.symm
      have h1 : tl ≤ b := hcross tl hmem b hb'
      have h2 : a ≤ tl := by
        simp only [List.filterMap_cons, htl, List.mem_cons] at ha'
        rcases ha' with h | h
        · exact le_of_eq h
        · obtain ⟨x, hx, hxa⟩ := List.mem_filterMap.1 h
          exact le_of_lt (hb.le_head tf l r tl htl x hx a hxa)
      exact le_trans h2 h1

/-- one append on top of an already collapsed prefix -/
theorem collapse_resample_append (tf : Int) (htf : 0 < tf) (s new : List (Candle F))
    (hts : ∀ c ∈ s ++ new, c.ts ≠ none)
    (hclean : ∀ c ∈ s ++ new, CleanOk tf c) (hmono : LabelsMono tf (s ++ new)) :
    collapseCandles (some tf) false (resample tf s ++ new) = .ok (resample tf (s ++ new)) := by
  have hcs : ∀ c ∈ s, CleanOk tf c := fun c hc => hclean c (by simp [hc])
  have hms : LabelsMono tf s := by
    unfold LabelsMono at hmono ⊢; rw [labels_append] at hmono; exact (List.pairwise_append.1 hmono).1
  have hb := resampleR_bucketed tf htf s hcs hms
  have hprops := resampleR_props tf s hcs
  have h1 := collapse_eq_resample tf htf (resample tf s ++ new)
    (by
      intro c hc
      cases hR : resample tf s with
      | nil =>
        rw [hR] at hc
        cases new with
        | nil => simp at hc
        | cons n nr => simp at hc; subst hc; exact hts n (by simp)
      | cons y yr =>
        rw [hR] at hc; simp at hc; subst hc
        have : y ∈ resampleR tf s := by
          have : y ∈ resample tf s := by rw [hR]; simp
          exact List.mem_reverse.1 this
        obtain ⟨t, ht, _⟩ := hb.stamped y this
        simp [ht])
    (by
      intro c hc
      rcases List.mem_append.1 hc with h | h
      · exact hprops.1 c (List.mem_reverse.1 h)
      · exact hclean c (by simp [h]))
    (labelsMono_resample_append tf htf s new hcs hmono)
  rw [h1]
  have := resampleR_resample_append tf htf s new hcs hms
  simp only [resample] at this ⊢
  rw [this]

end Hex

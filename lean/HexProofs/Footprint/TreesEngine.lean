import HexProofs.Footprint.TreesKinds
import HexProofs.Manager2.TwinTreesEngine
/-
C07, bounded footprint for indicator TREES – part 2: the whole calculation engine commutes with popping
leading candles, as an EQUATION in `PyM` (same result or same exception), when both sides run with the
SAME fuel.

`engineDropE`: for every tree with look-back `Ind.lb ≤ L` (`1 ≤ L`) and every fuel `f`,
`calculate f ind (cs.drop d) = (calculate f ind cs).map (·.drop d)` – likewise `calculate_index`, the
sub-indicator passes, `_calculate_reading`, `Managed.set_reading` and the loop – as long as `L` candles
before the first processed index are retained and the finished prefix carries the keys (`KeySplit`).
Same induction on the fuel as `engineDrop` (TwinTreesEngine.lean), with the per-kind equation
`calcKind_dropE` in place of the two-sided `calcKind_drop`.  (That the fuel the object passes is always
enough on both sides is part 3, TreesFuel.lean.)
-/
namespace Hex
set_option linter.unusedSectionVars false
set_option linter.unusedSimpArgs false
variable {F : Type} [PyF F]

/-- composing two equations `m' = m.map g` through `bind` -/
theorem map_bind_eq {α β α' β' : Type} (g : α → α') (h : β → β') (m : PyM α) (m' : PyM α')
    (f : α → PyM β) (f' : α' → PyM β') (hm : m' = m.map g)
    (hf : ∀ a, m = .ok a → f' (g a) = (f a).map h) : m' >>= f' = (m >>= f).map h := by
  subst hm
  cases m with
  | error e => rfl
  | ok a => exact hf a rfl

theorem bind_same_eq {α β β' : Type} (h : β → β') (m : PyM α) (f : α → PyM β) (f' : α → PyM β')
    (hf : ∀ a, m = .ok a → f' a = (f a).map h) : m >>= f' = (m >>= f).map h := by
  cases m with
  | error e => rfl
  | ok a => exact hf a rfl

/-! ### lengths -/

theorem setReading_len (isSub : Bool) (name : String) (cs b : List (Candle F)) (i : Int) (v : Val F)
    (h : setReading isSub name cs i v = .ok b) : b.length = cs.length := by
  rw [setReading_eq] at h; exact updateAt_len cs b i _ h

theorem readSet_len (f : Nat) (ind : Ind F) (cs b : List (Candle F)) (i : Int)
    (h : readSet f ind cs i = .ok b) : b.length = cs.length := by
  unfold readSet at h
  obtain ⟨⟨v, cs1⟩, hr, hs⟩ := Writes.bind_ok h
  have h1 := (calcReading_stripEq f ind cs cs1 i v hr).length_eq
  have h2 := setReading_len _ _ _ _ _ _ hs
  simp only at h2
  omega

/-- with every sub-indicator prior, the pass over the non-prior ones returns its argument (or runs out
of fuel) – whatever the candles -/
theorem calcSubs_false_none_dropE (d : Nat) : ∀ (f : Nat) (subs : List (Ind F)) (cs : List (Candle F)),
    Ind.allPriorL subs = true →
    calcSubs f subs false none (cs.drop d) = (calcSubs f subs false none cs).map (·.drop d) := by
  intro f
  induction f with
  | zero => intro subs cs _; simp [calcSubs, Except.map]
  | succ f ih =>
    intro subs cs hap
    cases subs with
    | nil => rw [calcSubs_nil', calcSubs_nil']; rfl
    | cons s rest =>
      rw [Ind.allPriorL_cons] at hap
      simp only [Bool.and_eq_true] at hap
      rw [calcSubs_cons_none, calcSubs_cons_none]
      have : (s.priorCalc == false) = false := by rw [hap.1.1]; rfl
      simp only [this, Bool.false_eq_true, if_false, bind, Except.bind, pure, Except.pure]
      exact ih rest cs hap.2

section drop
variable (d L : Nat)

/-- the statements proved together by induction on the fuel (the SAME on both sides) -/
structure EngineDropE (f : Nat) : Prop where
  calcReading : ∀ (ind : Ind F) (cs : List (Candle F)) (i : Int), ind.lb ≤ L → (d : Int) + L ≤ i →
    i < cs.length →
    calcReading f ind (cs.drop d) (i - d) = (calcReading f ind cs i).map (fun r => (r.1, r.2.drop d))
  setManagedReading : ∀ (m : Ind F) (cs : List (Candle F)) (i : Int) v, m.lb ≤ L → (d : Int) + L ≤ i →
    i < cs.length →
    setManagedReading f m (cs.drop d) (i - d) v = (setManagedReading f m cs i v).map (·.drop d)
  calculateIndex : ∀ (ind : Ind F) (cs : List (Candle F)) (s e : Int), ind.lb ≤ L → (d : Int) + L ≤ s →
    s < e → e ≤ cs.length →
    calculateIndex f ind (cs.drop d) (s - d) (e - d) = (calculateIndex f ind cs s e).map (·.drop d)
  calcSubsIdx : ∀ (subs : List (Ind F)) (prior : Bool) (cs : List (Candle F)) (s e : Int),
    Ind.lbL subs ≤ L → (d : Int) + L ≤ s → s < e → e ≤ cs.length →
    calcSubs f subs prior (some (s - d, e - d)) (cs.drop d)
      = (calcSubs f subs prior (some (s, e)) cs).map (·.drop d)
  calcLoop : ∀ (ind : Ind F) (cs : List (Candle F)) (k n : Nat), ind.lb ≤ L → d + L ≤ k →
    k + n ≤ cs.length →
    calcLoop f ind (cs.drop d) (k - d) n = (calcLoop f ind cs k n).map (·.drop d)
  calculate : ∀ (ind : Ind F) (cs : List (Candle F)) (m : Nat), ind.lb ≤ L → ind.allPrior = true →
    ind.allNames.Nodup → d + L ≤ m → m ≤ cs.length → (∀ n ∈ ind.calcNames, KeySplit n m cs) →
    calculate f ind (cs.drop d) = (calculate f ind cs).map (·.drop d)
  calcSubsNone : ∀ (subs : List (Ind F)) (cs : List (Candle F)) (m : Nat), Ind.lbL subs ≤ L →
    Ind.allPriorL subs = true → (Ind.allNamesL subs).Nodup → d + L ≤ m → m ≤ cs.length →
    (∀ n ∈ Ind.calcNamesL subs, KeySplit n m cs) →
    calcSubs f subs true none (cs.drop d) = (calcSubs f subs true none cs).map (·.drop d)

variable {d L}

/-- one `_calculate_reading` + `_set_reading` on the two sides -/
theorem readSet_dropE {f : Nat} (ih : EngineDropE (F := F) d L f) (ind : Ind F) (hlb : ind.lb ≤ L)
    (cs : List (Candle F)) (i : Int) (hdi : (d : Int) + L ≤ i) (hi : i < cs.length) :
    readSet f ind (cs.drop d) (i - d) = (readSet f ind cs i).map (·.drop d) := by
  unfold readSet
  refine map_bind_eq (fun r : Val F × List (Candle F) => (r.1, r.2.drop d)) _ _ _ _ _
    (ih.calcReading ind cs i hlb hdi hi) ?_
  intro r _
  exact setReading_drop ind.isSub ind.name r.2 i d _ (by omega)

theorem foldl_readSet_dropE {f : Nat} (ih : EngineDropE (F := F) d L f) (ind : Ind F) (hlb : ind.lb ≤ L) :
    ∀ (l : List Int) (cs : List (Candle F)), (∀ j ∈ l, (d : Int) + L ≤ j ∧ j < cs.length) →
      (l.map (fun j => j - (d : Int))).foldlM (readSet f ind) (cs.drop d)
        = (l.foldlM (readSet f ind) cs).map (·.drop d) := by
  intro l
  induction l with
  | nil => intro cs _; rfl
  | cons j r ihl =>
    intro cs hj
    simp only [List.map_cons, List.foldlM_cons]
    obtain ⟨hjd, hjl⟩ := hj j (by simp)
    refine map_bind_eq (·.drop d) _ _ _ _ _ (readSet_dropE ih ind hlb cs j hjd hjl) ?_
    intro b hb
    have hl := readSet_len f ind cs b j hb
    exact ihl b (fun q hq => by rw [hl]; exact hj q (by simp [hq]))

theorem foldl_readSet_len (f : Nat) (ind : Ind F) : ∀ (l : List Int) (cs b : List (Candle F)),
    l.foldlM (readSet f ind) cs = .ok b → b.length = cs.length := by
  intro l
  induction l with
  | nil => intro cs b h; simp only [List.foldlM_nil, pure, Except.pure] at h; cases h; rfl
  | cons j r ih =>
    intro cs b h
    rw [List.foldlM_cons] at h
    obtain ⟨b1, h1, h2⟩ := Writes.bind_ok h
    rw [ih b1 b h2, readSet_len f ind cs b1 j h1]

theorem engineDropE (hL : 1 ≤ L) : ∀ f : Nat, EngineDropE (F := F) d L f := by
  intro f
  induction f with
  | zero =>
    refine ⟨?_, ?_, ?_, ?_, ?_, ?_, ?_⟩
    · intro ind cs i _ _ _; simp [Hex.calcReading, Except.map]
    · intro m cs i v _ _ _; simp [Hex.setManagedReading, Except.map]
    · intro ind cs s e _ _ _ _; simp [Hex.calculateIndex, Except.map]
    · intro subs prior cs s e _ _ _ _; simp [Hex.calcSubs, Except.map]
    · intro ind cs k n _ _ _; simp [Hex.calcLoop, Except.map]
    · intro ind cs m _ _ _ _ _ _; simp [Hex.calculate, Except.map]
    · intro subs cs m _ _ _ _ _ _; simp [Hex.calcSubs, Except.map]
  | succ g ih =>
    refine ⟨?_, ?_, ?_, ?_, ?_, ?_, ?_⟩
    · -- calcReading
      intro ind cs i hlb hdi hi
      rw [Hex.calcReading, Hex.calcReading]
      have hkw : kwin ind.kind ≤ L := Nat.le_trans ind.kwin_le_lb hlb
      refine calcKind_dropE _ _ ind { cs := cs, i := i, name := ind.name } d (by simp only; omega) hi
        (by simp only; omega) rfl ⟨?_, ?_, ?_, ?_⟩
      · intro key v cs0 hl
        have hl : cs0.length = cs.length := hl
        refine bind_same_eq _ _ _ _ (fun m hm => ?_)
        exact ih.setManagedReading m cs0 i v (Nat.le_trans (Ind.getManaged_lb hm) hlb) hdi (by omega)
      · intro key v cs0 b hl hb
        have hl : cs0.length = cs.length := hl
        obtain ⟨m, hm, hb⟩ := Writes.bind_ok hb
        have := (setManagedReading_stripEq g m cs0 b i v hb).length_eq
        show b.length = cs.length
        omega
      · intro key cs0 hl
        have hl : cs0.length = cs.length := hl
        refine bind_same_eq _ _ _ _ (fun m hm => ?_)
        rw [show i - (d : Int) + 1 = (i + 1) - d by omega]
        exact ih.calculateIndex m cs0 i (i + 1) (Nat.le_trans (Ind.getManaged_lb hm) hlb) hdi (by omega)
          (by omega)
      · intro key cs0 b hl hb
        have hl : cs0.length = cs.length := hl
        obtain ⟨m, hm, hb⟩ := Writes.bind_ok hb
        have := (calculateIndex_stripEq g m cs0 b i (i + 1) hb).length_eq
        show b.length = cs.length
        omega
    · -- setManagedReading
      intro m cs i v hlb hdi hi
      rw [setManagedReading_succ, setManagedReading_succ]
      rw [show i - (d : Int) + 1 = (i + 1) - d by omega]
      have hsl : Ind.lbL m.subs ≤ L := Nat.le_trans m.lbL_le_lb hlb
      refine map_bind_eq (·.drop d) _ _ _ _ _
        (ih.calcSubsIdx m.subs true cs i (i + 1) hsl hdi (by omega) (by omega)) ?_
      intro b1 hb1
      have hl1 : cs.length = b1.length := (calcSubs_stripEq g m.subs true _ cs b1 hb1).length_eq
      refine map_bind_eq (·.drop d) _ _ _ _ _ (setReading_drop m.isSub m.name b1 i d v (by omega)) ?_
      intro b2 hb2
      have hl2 := setReading_len _ _ _ _ _ _ hb2
      exact ih.calcSubsIdx m.subs false b2 i (i + 1) hsl hdi (by omega) (by omega)
    · -- calculateIndex
      intro ind cs s e hlb hds hse hel
      rw [calculateIndex_succ, calculateIndex_succ]
      have hsl : Ind.lbL ind.subs ≤ L := Nat.le_trans ind.lbL_le_lb hlb
      refine map_bind_eq (·.drop d) _ _ _ _ _ (ih.calcSubsIdx ind.subs true cs s e hsl hds hse hel) ?_
      intro b1 hb1
      have hl1 : cs.length = b1.length := (calcSubs_stripEq g ind.subs true _ cs b1 hb1).length_eq
      rw [Foot.pyRange_sub]
      refine map_bind_eq (·.drop d) _ _ _ _ _
        (foldl_readSet_dropE ih ind hlb (pyRange s e) b1 (fun j hj => by
          have := (Ana.mem_pyRange _ _ _).1 hj
          omega)) ?_
      intro b2 hb2
      have hl2 := foldl_readSet_len g ind _ _ _ hb2
      exact ih.calcSubsIdx ind.subs false b2 s e hsl hds hse (by omega)
    · -- calcSubs with an index range
      intro subs prior cs s e hlb hds hse hel
      cases subs with
      | nil => rw [calcSubs_nil', calcSubs_nil']; rfl
      | cons x rest =>
        rw [Ind.lbL_cons] at hlb
        rw [calcSubs_cons_range, calcSubs_cons_range]
        have c1 : (s - (d : Int) != 0 && e - (d : Int) != 0) = true := by
          simp only [bne_iff_ne, ne_eq, Bool.and_eq_true, decide_eq_true_eq]; omega
        have c2 : (s != 0 && e != 0) = true := by
          simp only [bne_iff_ne, ne_eq, Bool.and_eq_true, decide_eq_true_eq]; omega
        simp only [c1, c2, if_true]
        by_cases hp : (x.priorCalc == prior) = true
        · simp only [hp, if_true]
          refine map_bind_eq (·.drop d) _ _ _ _ _ (ih.calculateIndex x cs s e (by omega) hds hse hel) ?_
          intro b1 hb1
          have hl1 : cs.length = b1.length := (calculateIndex_stripEq g x cs b1 s e hb1).length_eq
          exact ih.calcSubsIdx rest prior b1 s e (by omega) hds hse (by omega)
        · simp only [hp, if_false, pure, Except.pure, bind, Except.bind]
          exact ih.calcSubsIdx rest prior cs s e (by omega) hds hse hel
    · -- calcLoop
      intro ind cs k n hlb hk hkn
      cases n with
      | zero => rw [calcLoop_zero', calcLoop_zero']; rfl
      | succ n =>
        rw [calcLoop_succ', calcLoop_succ']
        have hcast : (((k - d : Nat)) : Int) = (k : Int) - d := by omega
        rw [hcast, pyIndex_drop cs d k (by omega)]
        refine bind_same_eq _ _ _ _ (fun c hc => ?_)
        rw [show k - d + 1 = (k + 1) - d by omega]
        have hstep : (if present ind.name c = true then pure (cs.drop d)
              else readSet g ind (cs.drop d) ((k : Int) - d))
            = (if present ind.name c = true then pure cs else readSet g ind cs k).map (·.drop d) := by
          by_cases hp : present ind.name c = true
          · simp only [hp, if_true]; rfl
          · simp only [hp, if_false]
            exact readSet_dropE ih ind hlb cs k (by omega) (by omega)
        refine map_bind_eq (·.drop d) _ _ _ _ _ hstep ?_
        intro b1 hb1
        have hl1 : b1.length = cs.length := by
          by_cases hp : present ind.name c = true
          · simp only [hp, if_true, pure, Except.pure] at hb1; cases hb1; rfl
          · simp only [hp, if_false] at hb1
            exact readSet_len g ind cs b1 k hb1
        exact ih.calcLoop ind b1 (k + 1) n hlb (by omega) (by omega)
    · -- calculate
      intro ind cs m hlb hap hnd hdm hm hsplit
      rw [calculate_succ, calculate_succ]
      obtain ⟨hn1, hn2⟩ := ind.nodup_parts hnd
      have hapL : Ind.allPriorL ind.subs = true := by rw [← Ind.allPrior_eq]; exact hap
      have hsl : Ind.lbL ind.subs ≤ L := Nat.le_trans ind.lbL_le_lb hlb
      have hsub : ∀ n ∈ Ind.calcNamesL ind.subs, KeySplit n m cs := fun n hn =>
        hsplit n (by rw [Ind.calcNames_eq]; exact List.mem_cons_of_mem _ hn)
      refine map_bind_eq (·.drop d) _ _ _ _ _ (ih.calcSubsNone ind.subs cs m hsl hapL hn2 hdm hm hsub) ?_
      intro b1 hb1
      have hst1 := calcSubs_stripEq g ind.subs true none cs b1 hb1
      have hl1 : cs.length = b1.length := hst1.length_eq
      have hs1 : KeySplit ind.name m b1 :=
        (hsplit ind.name (by rw [Ind.calcNames_eq]; simp)).agree hst1.agreeOff hn1
      rw [hs1.findCalcIndex (by omega)]
      rw [(hs1.drop d (by omega)).findCalcIndex (by rw [List.length_drop]; omega), List.length_drop,
        show b1.length - d - (m - d) = b1.length - m by omega]
      refine map_bind_eq (·.drop d) _ _ _ _ _ (ih.calcLoop ind b1 m (b1.length - m) hlb hdm (by omega)) ?_
      intro b2 _
      exact calcSubs_false_none_dropE d g ind.subs b2 hapL
    · -- calcSubs of a whole `calculate()`
      intro subs cs m hlb hap hnd hdm hm hsplit
      cases subs with
      | nil => rw [calcSubs_nil', calcSubs_nil']; rfl
      | cons x rest =>
        rw [Ind.lbL_cons] at hlb
        rw [Ind.allPriorL_cons] at hap
        simp only [Bool.and_eq_true] at hap
        obtain ⟨hs1, hs2, hs3⟩ := Ind.nodupL_parts x rest hnd
        rw [calcSubs_cons_none, calcSubs_cons_none]
        have : (x.priorCalc == true) = true := by rw [hap.1.1]; rfl
        simp only [this, if_true]
        refine map_bind_eq (·.drop d) _ _ _ _ _ (ih.calculate x cs m (by omega) hap.1.2 hs1 hdm hm
          (fun n hn => hsplit n (by rw [Ind.calcNamesL_cons]; exact List.mem_append_left _ hn))) ?_
        intro b1 hb1
        have hst1 := calculate_stripEq g x cs b1 hb1
        have hsr : ∀ n ∈ Ind.calcNamesL rest, KeySplit n m b1 := fun n hn =>
          (hsplit n (by rw [Ind.calcNamesL_cons]; exact List.mem_append_right _ hn)).agree hst1.agreeOff
            (hs3 n (Ind.calcNamesL_sub rest n hn))
        exact ih.calcSubsNone rest b1 m (by omega) hap.2 hs2 hdm (by rw [← hst1.length_eq]; exact hm) hsr

end drop

#print axioms engineDropE

end Hex

import HexProofs.Manager2.ShiftKinds
import HexProofs.Analysis.PatternCausal
/-
Bounded footprint, the lemmas: what the read accessors, the window functions of
`analysis.movement` and the pattern functions answer at index `i` of a candle list equals what they
answer at index `i - d` of the list whose first `d` candles were popped, as soon as the look-back
window of the function is retained (`d + W ≤ i`).

The proofs mirror the truncation (`upto`) lemmas of `HexProofs/Access/Basic.lean`,
`HexProofs/Analysis/MovementCausal.lean`, `PatternCausal.lean`; the window bound does the work that
`i < len` does there.  The extra twist: the index lists the loops run over are SHIFTED by `d`
(`range(i - d - p, i - d + 1)` instead of `range(i - p, i + 1)`), so every loop is first rewritten as
the loop over the original indices with the body composed with `· - d`.
-/
namespace Hex
set_option linter.unusedSectionVars false
set_option linter.unusedVariables false
variable {F : Type} [PyF F]

namespace Foot

/-! ### shifted Python ranges -/

theorem pyRange_sub (a b d : Int) : pyRange (a - d) (b - d) = (pyRange a b).map (fun j => j - d) := by
  unfold pyRange
  have : (b - d - (a - d)).toNat = (b - a).toNat := by omega
  rw [this, List.map_map]
  apply List.map_congr_left
  intro k _
  simp only [Function.comp]
  omega

theorem pyRangeDown_sub (a b d : Int) :
    pyRangeDown (a - d) (b - d) = (pyRangeDown a b).map (fun j => j - d) := by
  unfold pyRangeDown
  have : (a - d - (b - d)).toNat = (a - b).toNat := by omega
  rw [this, List.map_map]
  apply List.map_congr_left
  intro k _
  simp only [Function.comp]
  omega

/-! ### loops over a shifted index list -/

theorem mapM_shift {β : Type} (l : List Int) (d : Int) (f g : Int → PyM β)
    (h : ∀ j ∈ l, f (j - d) = g j) : (l.map (fun j => j - d)).mapM f = l.mapM g := by
  rw [List.mapM_map]
  exact Ana.mapM_congr l _ _ (fun j hj => h j hj)

theorem anyM_map {α β : Type} (l : List α) (u : α → β) (p : β → PyM Bool) :
    (l.map u).anyM p = l.anyM (fun a => p (u a)) := by
  induction l with
  | nil => rfl
  | cons a r ih => simp only [List.map_cons, List.anyM, ih]

theorem anyM_shift (l : List Int) (d : Int) (p q : Int → PyM Bool)
    (h : ∀ j ∈ l, p (j - d) = q j) : (l.map (fun j => j - d)).anyM p = l.anyM q := by
  rw [anyM_map]
  exact Ana.anyM_congr l _ _ (fun j hj => h j hj)

/-- `enumerate` of a shifted index list: the positions are untouched -/
theorem mapM_zipIdx_shift {β : Type} (l : List Int) (d : Int) (f g : Int × Nat → PyM β)
    (h : ∀ q ∈ l.zipIdx, f (q.1 - d, q.2) = g q) :
    ((l.map (fun j => j - d)).zipIdx).mapM f = (l.zipIdx).mapM g := by
  rw [List.zipIdx_map, List.mapM_map]
  exact Ana.mapM_congr _ _ _ (fun q hq => h q hq)

theorem foldlM_zipIdx_shift {σ : Type} (l : List Int) (d : Int) (f g : σ → Int × Nat → PyM σ)
    (h : ∀ s, ∀ q ∈ l.zipIdx, f s (q.1 - d, q.2) = g s q) (s : σ) :
    ((l.map (fun j => j - d)).zipIdx).foldlM f s = (l.zipIdx).foldlM g s := by
  rw [List.zipIdx_map, List.foldlM_map]
  exact Ana.foldlM_congr _ _ _ (fun s q hq => h s q hq) s

/-! ### list facts under `drop` -/

theorem drop_isEmpty {α : Type} (l : List α) (d : Nat) (i : Int) (hd : (d : Int) ≤ i) (hi : i < l.length) :
    (l.drop d).isEmpty = false ∧ l.isEmpty = false := by
  constructor
  · cases h : l.drop d with
    | nil =>
      have := congrArg List.length h
      simp only [List.length_drop, List.length_nil] at this
      omega
    | cons _ _ => rfl
  · cases l with
    | nil => simp at hi; omega
    | cons _ _ => rfl

theorem absIndex_drop {α : Type} (l : List α) (d : Nat) (i : Int) (hd : (d : Int) ≤ i) (hi : i < l.length) :
    absIndex (i - d) (l.drop d).length = some (i - d) ∧ absIndex i l.length = some i := by
  constructor
  · exact Ana.absIndex_self _ _ (by omega) (by rw [List.length_drop]; omega)
  · exact Ana.absIndex_self _ _ (by omega) hi

/-- `reading_period` under `drop`, any period: for `period ≤ 0` the probe positions are at or
after the index, so only the index itself has to be retained -/
theorem readingPeriod_drop' (cs : List (Candle F)) (period : Int) (name : String) (d : Nat) (i : Int)
    (hd0 : (d : Int) ≤ i) (hd : (d : Int) + period ≤ i + 1) :
    readingPeriod (cs.drop d) period name (i - d) = readingPeriod cs period name i := by
  by_cases hp : 1 ≤ period
  · exact readingPeriod_drop cs period name d i hp hd
  · unfold readingPeriod
    rw [validIndex_drop cs d i hd0]
    have h1 : ¬ (i - d - (period - 1) < 0) := by omega
    have h2 : ¬ (i - (period - 1) < 0) := by omega
    have hp0 : ¬ (period - 1 ≥ 0) := by omega
    simp only [h1, h2, if_false, hp0]
    have hh : 0 ≤ (-(period - 1)) / 2 := Int.ediv_nonneg (by omega) (by decide)
    have e1 : i - d - (period - 1) = (i - (period - 1)) - d := by omega
    have e2 : i - d - -(-(period - 1) / 2) = (i - -(-(period - 1) / 2)) - d := by omega
    rw [e1, e2, readingByIndex_drop cs name d (i - (period - 1)) (by omega),
        readingByIndex_drop cs name d (i - -(-(period - 1) / 2)) (by omega),
        readingByIndex_drop cs name d i hd0]

/-- an empty Python slice: the start is at or after the stop -/
theorem pySlice_empty {α : Type} (l : List α) (s e : Int) (h0 : 0 ≤ e) (hse : e ≤ s) (he : e ≤ l.length) :
    pySlice l s e = [] := by
  unfold pySlice
  have a1 : ¬ (s < 0) := by omega
  have a2 : ¬ (e < 0) := by omega
  have a3 : ¬ (e > (l.length : Int)) := by omega
  simp only [a1, a2, a3, if_false]
  rw [if_pos]
  split <;> omega

/-- `candles_sum` under `drop`, any length: a non-positive length sums the empty slice -/
theorem candlesSum_drop' (cs : List (Candle F)) (name : String) (length : Int) (d : Nat) (i : Int)
    (hd : (d : Int) + 1 ≤ i) (hi : i < cs.length) (hle : (d : Int) + length ≤ i + 1) :
    candlesSum (cs.drop d) name length (i - d) = candlesSum cs name length i := by
  by_cases hl : 0 ≤ length
  · exact candlesSum_drop cs name length d i hd hi hl hle
  · unfold candlesSum
    obtain ⟨a1, a2⟩ := absIndex_drop cs d i (by omega) hi
    rw [a1, a2]
    have z1 : ((i - d) == 0) = false := by simp; omega
    have z2 : (i == 0) = false := by simp; omega
    simp only [z1, z2, Bool.false_eq_true, if_false]
    have l1 : ¬ (length > (((cs.drop d).length : Nat) : Int)) := by rw [List.length_drop]; omega
    have l2 : ¬ (length > (cs.length : Int)) := by omega
    simp only [l1, l2, if_false]
    rw [pySlice_empty _ _ _ (by omega) (by omega) (by rw [List.length_drop]; omega),
      pySlice_empty _ _ _ (by omega) (by omega) (by omega)]

/-- `self.reading_period(period, name)` at the active index, any period -/
theorem readingPeriod_shift' (x : Ctx F) (d : Nat) (period : Int) (name : String) (hd0 : (d : Int) ≤ x.i)
    (hd : (d : Int) + period ≤ x.i + 1) :
    (x.shift d).readingPeriod period name none = x.readingPeriod period name none := by
  unfold Ctx.readingPeriod Ctx.shift
  simp only [Option.getD_none]
  exact readingPeriod_drop' x.cs period name d x.i hd0 hd

/-- `self.reading_period(period, name, self.i)` with the explicit index -/
theorem readingPeriod_shift_at (x : Ctx F) (d : Nat) (period : Int) (name : String) (hd0 : (d : Int) ≤ x.i)
    (hd : (d : Int) + period ≤ x.i + 1) :
    (x.shift d).readingPeriod period name (some (x.i - d)) = x.readingPeriod period name (some x.i) := by
  unfold Ctx.readingPeriod Ctx.shift
  simp only [Option.getD_some]
  exact readingPeriod_drop' x.cs period name d x.i hd0 hd

/-- `self.candles_sum(length, name)` at the active index, any length -/
theorem candlesSum_shift' (x : Ctx F) (d : Nat) (length : Int) (name : String) (hd : (d : Int) + 1 ≤ x.i)
    (hi : x.i < x.cs.length) (hle : (d : Int) + length ≤ x.i + 1) :
    (x.shift d).candlesSum length name none = x.candlesSum length name none := by
  unfold Ctx.candlesSum Ctx.shift
  simp only [Option.getD_none]
  exact candlesSum_drop' x.cs name length d x.i hd hi hle

/-! ### `_get_clean_readings` under `drop` -/

theorem cleanScalars_drop (cs : List (Candle F)) (ind : String) (n : Int) (d : Nat) (i : Int) (incl : Bool)
    (hn : 0 ≤ n) (hd : (d : Int) + n ≤ i) (hi : i < cs.length) :
    Mov.cleanScalars (cs.drop d) ind n (i - d) incl = Mov.cleanScalars cs ind n i incl := by
  unfold Mov.cleanScalars
  have a1 : ¬ (i - d - n < 0) := by omega
  have a2 : ¬ (i - n < 0) := by omega
  simp only [a1, a2, if_false]
  have e1 : i - d - n = (i - n) - d := by omega
  cases incl with
  | true =>
    simp only [if_true]
    have e2 : i - d + 1 = (i + 1) - d := by omega
    rw [e1, e2, pySlice_drop cs d (i - n) (i + 1) (by omega) (by omega) (by omega)]
  | false =>
    simp only [Bool.false_eq_true, if_false]
    rw [e1, pySlice_drop cs d (i - n) i (by omega) (by omega) (by omega)]

theorem cleanReadings_drop (cs : List (Candle F)) (ind : String) (n : Int) (d : Nat) (i : Int) (incl : Bool)
    (hn : 0 ≤ n) (hd : (d : Int) + n ≤ i) (hi : i < cs.length) :
    Mov.cleanReadings (cs.drop d) ind n (i - d) incl = Mov.cleanReadings cs ind n i incl := by
  unfold Mov.cleanReadings; rw [cleanScalars_drop cs ind n d i incl hn hd hi]

/-! ### the movement functions -/

theorem positive_drop (cs : List (Candle F)) (d : Nat) (i : Int) (hd : (d : Int) ≤ i) :
    Mov.positive (cs.drop d) (i - d) = Mov.positive cs i := by
  unfold Mov.positive
  rw [validIndex_drop cs d i hd, pyIndex_drop cs d i hd]

theorem negative_drop (cs : List (Candle F)) (d : Nat) (i : Int) (hd : (d : Int) ≤ i) :
    Mov.negative (cs.drop d) (i - d) = Mov.negative cs i := by
  unfold Mov.negative
  rw [validIndex_drop cs d i hd, pyIndex_drop cs d i hd]

theorem aboveB_drop (cs : List (Candle F)) (a b : String) (d : Nat) (i j : Int) (hd : (d : Int) ≤ j)
    (hji : j ≤ i) (hi : i < cs.length) : Mov.aboveB (cs.drop d) a b (j - d) = Mov.aboveB cs a b j := by
  unfold Mov.aboveB
  obtain ⟨e1, e2⟩ := drop_isEmpty cs d i (by omega) hi
  rw [e1, e2, readingByIndex_drop cs a d j hd, readingByIndex_drop cs b d j hd]

theorem belowB_drop (cs : List (Candle F)) (a b : String) (d : Nat) (i j : Int) (hd : (d : Int) ≤ j)
    (hji : j ≤ i) (hi : i < cs.length) : Mov.belowB (cs.drop d) a b (j - d) = Mov.belowB cs a b j := by
  unfold Mov.belowB
  obtain ⟨e1, e2⟩ := drop_isEmpty cs d i (by omega) hi
  rw [e1, e2, readingByIndex_drop cs a d j hd, readingByIndex_drop cs b d j hd]

/-- `highest` / `lowest` over `n` candles back: the slice `[i - n, i]` -/
theorem extreme_drop (cs : List (Candle F)) (ind : String) (n : Int) (better : Num F → Num F → Bool)
    (d : Nat) (i : Int) (hd0 : (d : Int) ≤ i) (hd : (d : Int) + n ≤ i) (hi : i < cs.length) :
    Mov.extreme (cs.drop d) ind n (i - d) better = Mov.extreme cs ind n i better := by
  unfold Mov.extreme
  obtain ⟨a1, a2⟩ := absIndex_drop cs d i hd0 hi
  obtain ⟨e1, e2⟩ := drop_isEmpty cs d i hd0 hi
  rw [a1, a2, e1, e2]
  simp only
  by_cases hn : n < 1
  · simp [hn]
  · rw [cleanScalars_drop cs ind n d i true (by omega) hd hi]

/-- `value_range` -/
theorem valueRange_drop (cs : List (Candle F)) (ind : String) (n : Int)
    (d : Nat) (i : Int) (hd0 : (d : Int) ≤ i) (hd : (d : Int) + n ≤ i) (hi : i < cs.length) :
    Mov.valueRange (cs.drop d) ind n (i - d) = Mov.valueRange cs ind n i := by
  unfold Mov.valueRange
  obtain ⟨a1, a2⟩ := absIndex_drop cs d i hd0 hi
  rw [a1, a2]
  simp only
  by_cases hn : n < 2
  · simp [hn]
  · rw [cleanReadings_drop cs ind n d i true (by omega) hd hi]

/-- `rising` / `falling` -/
theorem monotone_drop (cs : List (Candle F)) (ind : String) (n : Int) (bad : Num F → Num F → Bool)
    (d : Nat) (i : Int) (hd0 : (d : Int) ≤ i) (hd : (d : Int) + n ≤ i) (hi : i < cs.length) :
    Mov.monotone (cs.drop d) ind n (i - d) bad = Mov.monotone cs ind n i bad := by
  unfold Mov.monotone
  obtain ⟨a1, a2⟩ := absIndex_drop cs d i hd0 hi
  rw [a1, a2]
  simp only
  by_cases hn : n < 1
  · simp [hn]
  · have l1 : decide ((cs.drop d).length < 2) = false := by
      have : ¬ (cs.drop d).length < 2 := by rw [List.length_drop]; omega
      exact decide_eq_false this
    have l2 : decide (cs.length < 2) = false := by
      have : ¬ cs.length < 2 := by omega
      simp [this]
    rw [l1, l2, pyIndex_drop cs d i hd0, cleanReadings_drop cs ind n d i false (by omega) hd hi]

/-- `mean_rising` / `mean_falling` -/
theorem meanCmp_drop (cs : List (Candle F)) (ind : String) (n : Int) (good : Num F → Num F → Bool)
    (d : Nat) (i : Int) (hd0 : (d : Int) ≤ i) (hd : (d : Int) + n ≤ i) (hi : i < cs.length) :
    Mov.meanCmp (cs.drop d) ind n (i - d) good = Mov.meanCmp cs ind n i good := by
  unfold Mov.meanCmp
  obtain ⟨a1, a2⟩ := absIndex_drop cs d i hd0 hi
  rw [a1, a2]
  simp only
  by_cases hn : n < 1
  · simp [hn]
  · have l1 : decide ((cs.drop d).length < 2) = false := by
      have : ¬ (cs.drop d).length < 2 := by rw [List.length_drop]; omega
      exact decide_eq_false this
    have l2 : decide (cs.length < 2) = false := by
      have : ¬ cs.length < 2 := by omega
      simp [this]
    rw [l1, l2, pyIndex_drop cs d i hd0, cleanReadings_drop cs ind n d i false (by omega) hd hi]

/-- `highestbar` / `lowestbar` over `n` candles: the indices `i, i-1, …, i-n+1` -/
theorem extremeBar_drop (cs : List (Candle F)) (ind : String) (n : Int) (better : Num F → Num F → Bool)
    (d : Nat) (i : Int) (hd0 : (d : Int) ≤ i) (hd : (d : Int) + (n - 1) ≤ i) (hi : i < cs.length) :
    Mov.extremeBar (cs.drop d) ind n (i - d) better = Mov.extremeBar cs ind n i better := by
  unfold Mov.extremeBar
  obtain ⟨a1, a2⟩ := absIndex_drop cs d i hd0 hi
  rw [a1, a2]
  simp only
  have s1 : ¬ (i - d - n < -1) := by omega
  have s2 : ¬ (i - n < -1) := by omega
  simp only [s1, s2, if_false]
  have e : i - d - n = (i - n) - d := by omega
  rw [e, pyRangeDown_sub]
  congr 1
  apply foldlM_zipIdx_shift
  intro s q hq
  have hm := (Ana.mem_pyRangeDown _ _ _).1 (List.fst_mem_of_mem_zipIdx hq)
  simp only
  rw [readingByIndex_drop cs ind d q.1 (by omega)]

theorem mem_crossIdxs_drop (i n x : Int) (d : Nat) (hd0 : (d : Int) ≤ i) (hd : (d : Int) + n ≤ i)
    (h : x ∈ Mov.crossIdxs i n) : (d : Int) + 1 ≤ x ∧ x ≤ i := by
  obtain ⟨h1, h2, h3⟩ := Ana.mem_crossIdxs i n x h
  omega

theorem crossIdxs_drop (i n : Int) (d : Nat) (hd0 : (d : Int) ≤ i) (hd : (d : Int) + n ≤ i) :
    Mov.crossIdxs (i - d) n = (Mov.crossIdxs i n).map (fun j => j - (d : Int)) := by
  unfold Mov.crossIdxs
  by_cases hn : 0 ≤ n
  · have s1 : ¬ (i - d - n < 0) := by omega
    have s2 : ¬ (i - n < 0) := by omega
    simp only [s1, s2, if_false]
    have e : i - d - n = (i - n) - d := by omega
    rw [e, pyRangeDown_sub]
  · rw [Ana.pyRangeDown_nil _ _ (by split <;> omega), Ana.pyRangeDown_nil _ _ (by split <;> omega)]
    rfl

theorem cross_drop (cs : List (Candle F)) (a b : String) (n : Int)
    (d : Nat) (i : Int) (hd0 : (d : Int) ≤ i) (hd : (d : Int) + n ≤ i) (hi : i < cs.length) :
    Mov.cross (cs.drop d) a b n (i - d) = Mov.cross cs a b n i := by
  unfold Mov.cross
  obtain ⟨a1, a2⟩ := absIndex_drop cs d i hd0 hi
  rw [a1, a2]
  simp only
  rw [crossIdxs_drop i n d hd0 hd]
  congr 1
  apply anyM_shift
  intro x hx
  obtain ⟨x1, x2⟩ := mem_crossIdxs_drop i n x d hd0 hd hx
  have e : x - d - 1 = (x - 1) - d := by omega
  rw [e, readingByIndex_drop cs b d x (by omega), readingByIndex_drop cs a d x (by omega),
    readingByIndex_drop cs a d (x - 1) (by omega), readingByIndex_drop cs b d (x - 1) (by omega)]

theorem crossover_drop (cs : List (Candle F)) (a b : String) (n : Int)
    (d : Nat) (i : Int) (hd0 : (d : Int) ≤ i) (hd : (d : Int) + n ≤ i) (hi : i < cs.length) :
    Mov.crossover (cs.drop d) a b n (i - d) = Mov.crossover cs a b n i := by
  unfold Mov.crossover
  obtain ⟨a1, a2⟩ := absIndex_drop cs d i hd0 hi
  rw [a1, a2]
  simp only
  rw [crossIdxs_drop i n d hd0 hd]
  congr 1
  apply anyM_shift
  intro x hx
  obtain ⟨x1, x2⟩ := mem_crossIdxs_drop i n x d hd0 hd hx
  have e : x - d - 1 = (x - 1) - d := by omega
  rw [e, aboveB_drop cs a b d i x (by omega) x2 hi, belowB_drop cs a b d i (x - 1) (by omega) (by omega) hi]

theorem crossunder_drop (cs : List (Candle F)) (a b : String) (n : Int)
    (d : Nat) (i : Int) (hd0 : (d : Int) ≤ i) (hd : (d : Int) + n ≤ i) (hi : i < cs.length) :
    Mov.crossunder (cs.drop d) a b n (i - d) = Mov.crossunder cs a b n i := by
  unfold Mov.crossunder
  obtain ⟨a1, a2⟩ := absIndex_drop cs d i hd0 hi
  rw [a1, a2]
  simp only
  rw [crossIdxs_drop i n d hd0 hd]
  congr 1
  apply anyM_shift
  intro x hx
  obtain ⟨x1, x2⟩ := mem_crossIdxs_drop i n x d hd0 hd hx
  have e : x - d - 1 = (x - 1) - d := by omega
  rw [e, belowB_drop cs a b d i x (by omega) x2 hi, aboveB_drop cs a b d i (x - 1) (by omega) (by omega) hi]

/-! ### the pattern functions

`pattern` refuses every position `j < 10` (an ABSOLUTE threshold: the TA-Lib averages need ten
candles).  On the trimmed list the position is `j - d`, so the refusal agrees with the untrimmed
list exactly when ten predecessors are retained (`d + 10 ≤ j`) – which is also what the averages
(`[j - 9, j]`, and `[j - 10, j - 1]` for the previous candle) read. -/

theorem avgOf_drop (f : Candle F → Num F) (cs : List (Candle F)) (length : Int) (d : Nat) (j : Int)
    (hd : (d : Int) + length ≤ j + 1) :
    Pat.avgOf f (cs.drop d) length (j - d) = Pat.avgOf f cs length j := by
  unfold Pat.avgOf
  simp only
  have s1 : ¬ (j - d + 1 - length < 0) := by omega
  have s2 : ¬ (j + 1 - length < 0) := by omega
  simp only [s1, s2, if_false]
  have e1 : j - d + 1 - length = (j + 1 - length) - d := by omega
  have e2 : j - d + 1 = (j + 1) - d := by omega
  rw [e1, e2, pyRange_sub]
  congr 1
  apply mapM_shift
  intro x hx
  have hm := (Ana.mem_pyRange _ _ _).1 hx
  rw [pyIndex_drop cs d x (by omega)]

theorem candleDoji_drop (cs : List (Candle F)) (d : Nat) (j : Int) (hd : (d : Int) + 9 ≤ j) :
    Pat.candleDoji (cs.drop d) (j - d) = Pat.candleDoji cs j := by
  unfold Pat.candleDoji Pat.highLowAvg; rw [avgOf_drop _ cs 10 d j (by omega)]

theorem candleBodyLong_drop (cs : List (Candle F)) (d : Nat) (j : Int) (hd : (d : Int) + 9 ≤ j) :
    Pat.candleBodyLong (cs.drop d) (j - d) = Pat.candleBodyLong cs j := by
  unfold Pat.candleBodyLong Pat.realbodyAvg; rw [avgOf_drop _ cs 10 d j (by omega)]

theorem candleNear_drop (cs : List (Candle F)) (d : Nat) (j : Int) (hd : (d : Int) + 4 ≤ j) :
    Pat.candleNear (cs.drop d) (j - d) = Pat.candleNear cs j := by
  unfold Pat.candleNear Pat.highLowAvg; rw [avgOf_drop _ cs 5 d j (by omega)]

theorem candleShadowLong_drop (cs : List (Candle F)) (d : Nat) (j : Int) (hd : (d : Int) ≤ j) :
    Pat.candleShadowLong (cs.drop d) (j - d) = Pat.candleShadowLong cs j := by
  unfold Pat.candleShadowLong; rw [pyIndex_drop cs d j hd]

/-- a per-candle pattern test that looks back at most ten candles -/
def OneShift (one : List (Candle F) → Int → PyM Bool) : Prop :=
  ∀ cs (d : Nat) (j : Int), (d : Int) + 10 ≤ j → one (cs.drop d) (j - d) = one cs j

theorem dojiAt_shift : OneShift (F := F) Pat.dojiAt := by
  intro cs d j hd
  unfold Pat.dojiAt
  rw [pyIndex_drop cs d j (by omega), candleDoji_drop cs d j (by omega)]

theorem dojistarAt_shift : OneShift (F := F) Pat.dojistarAt := by
  intro cs d j hd
  unfold Pat.dojistarAt
  have e : j - d - 1 = (j - 1) - d := by omega
  rw [e, pyIndex_drop cs d j (by omega), pyIndex_drop cs d (j - 1) (by omega),
    candleDoji_drop cs d j (by omega), candleBodyLong_drop cs d (j - 1) (by omega)]

theorem hammerAt_shift : OneShift (F := F) Pat.hammerAt := by
  intro cs d j hd
  unfold Pat.hammerAt Pat.candleBodyShort Pat.candleShadowVeryShort
  have e : j - d - 1 = (j - 1) - d := by omega
  rw [e, pyIndex_drop cs d j (by omega), pyIndex_drop cs d (j - 1) (by omega),
    candleDoji_drop cs d j (by omega), candleBodyLong_drop cs d j (by omega),
    candleShadowLong_drop cs d j (by omega), candleNear_drop cs d (j - 1) (by omega)]

theorem invHammerAt_shift : OneShift (F := F) Pat.invHammerAt := by
  intro cs d j hd
  unfold Pat.invHammerAt Pat.candleBodyShort Pat.candleShadowVeryShort
  have e : j - d - 1 = (j - 1) - d := by omega
  rw [e, pyIndex_drop cs d j (by omega), pyIndex_drop cs d (j - 1) (by omega),
    candleDoji_drop cs d j (by omega), candleBodyLong_drop cs d j (by omega),
    candleShadowLong_drop cs d j (by omega)]

/-- the guarded per-candle test of `pattern` -/
theorem at_drop {one : List (Candle F) → Int → PyM Bool} (h : OneShift one)
    (cs : List (Candle F)) (d : Nat) (j : Int) (hd : (d : Int) + 10 ≤ j) :
    (if j - d < 10 then (pure false : PyM Bool) else one (cs.drop d) (j - d))
      = (if j < 10 then pure false else one cs j) := by
  have h1 : ¬ (j - d < 10) := by omega
  have h2 : ¬ (j < 10) := by omega
  simp only [h1, h2, if_false]
  exact h cs d j hd

/-- the look-back of a pattern with the given `lookback` argument: ten candles for the newest
tested position, one more per further position -/
def patWindow : Option Int → Nat
  | none => 10
  | some lb => 10 + (lb - 1).toNat

theorem pattern_drop {one : List (Candle F) → Int → PyM Bool} (h : OneShift one) (lb : Option Int)
    (cs : List (Candle F)) (d : Nat) (i : Int) (hd : (d : Int) + patWindow lb ≤ i) (hi : i < cs.length) :
    Pat.pattern one (cs.drop d) lb (some (i - d)) = Pat.pattern one cs lb (some i) := by
  simp only [Pat.pattern]
  obtain ⟨a1, a2⟩ := absIndex_drop cs d i (by omega) hi
  rw [a1, a2]
  cases lb with
  | none =>
    simp only [patWindow] at hd
    simp only
    rw [at_drop h cs d i (by omega)]
  | some lb =>
    simp only [patWindow] at hd
    simp only
    by_cases hlb : 1 ≤ lb
    · have s1 : ¬ (i - d + 1 - lb < 0) := by omega
      have s2 : ¬ (i + 1 - lb < 0) := by omega
      simp only [s1, s2, if_false]
      have e1 : i - d + 1 - lb = (i + 1 - lb) - d := by omega
      have e2 : i - d + 1 = (i + 1) - d := by omega
      rw [e1, e2, pyRange_sub]
      congr 1
      apply anyM_shift
      intro x hx
      have hm := (Ana.mem_pyRange _ _ _).1 hx
      exact at_drop h cs d x (by omega)
    · rw [Ana.pyRange_nil _ _ (by split <;> omega), Ana.pyRange_nil _ _ (by split <;> omega)]
      rfl

end Foot
end Hex

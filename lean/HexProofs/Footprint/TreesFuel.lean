import HexProofs.Manager2.TwinTreesEngine
/-
C07, bounded footprint for indicator TREES – part 3: the fuel of the model is immaterial.

The engine of the model is structurally recursive on a fuel argument (`.error .fuel` at 0); the object
passes `fuelFor cs = 16 + 2 * len`, so a run on a popped (shorter) list gets LESS fuel than the run on
the full list.  `engineFuel`: every engine function returns the SAME `PyM` value (result or exception)
for any two fuels that both cover a static cost of the tree – `Ind.costR` (one `_calculate_reading`, with
everything it drives), `Ind.cost` (`calculate_index` / `Managed.set_reading`), `Ind.costC ind n`
(`calculate()` with `n` fresh candles: `n` loop iterations on top of the tree's depth), for indices `≥ 1`
(at index 0 `calculate_index` of a sub-indicator falls back to a whole `calculate()`, whose cost is not
static).  `costC_mkTop_le`: for every shipped tree `costC (mkTop k name round) n ≤ n + 9`, so the
object's fuel `16 + 2 * len` covers it on any list holding the `n` fresh candles.
-/
namespace Hex
set_option linter.unusedSectionVars false
set_option linter.unusedSimpArgs false
variable {F : Type} [PyF F]

mutual
  /-- fuel that covers one `_calculate_reading` of the node (with the `Managed.set_reading` /
  `calculate_index` it triggers on its managed children) -/
  def Ind.costR : Ind F → Nat
    | .mk _ _ _ _ _ _ managed => 1 + Ind.costM managed
  /-- fuel that covers `calculate_index(i)` / `Managed.set_reading` of the node at an index `≥ 1` -/
  def Ind.cost : Ind F → Nat
    | .mk _ _ _ _ _ subs managed => 1 + max (Ind.costL subs) (1 + Ind.costM managed)
  /-- … of a pass over a list of sub-indicators with an index range -/
  def Ind.costL : List (Ind F) → Nat
    | [] => 1
    | s :: r => 1 + max s.cost (Ind.costL r)
  /-- … of the most expensive managed child -/
  def Ind.costM : List (String × Ind F) → Nat
    | [] => 0
    | (_, m) :: r => max m.cost (Ind.costM r)
end

mutual
  /-- fuel that covers `calculate()` of the node when `n` candles are fresh -/
  def Ind.costC : Ind F → Nat → Nat
    | .mk _ _ _ _ _ subs managed, n => 1 + max (Ind.costN subs n) (n + (1 + Ind.costM managed))
  def Ind.costN : List (Ind F) → Nat → Nat
    | [], _ => 1
    | s :: r, n => 1 + max (s.costC n) (Ind.costN r n)
end

theorem Ind.costR_eq (i : Ind F) : i.costR = 1 + Ind.costM i.managed := by
  cases i; simp [Ind.costR, Ind.managed]
theorem Ind.cost_eq (i : Ind F) : i.cost = 1 + max (Ind.costL i.subs) i.costR := by
  cases i; simp [Ind.cost, Ind.costR, Ind.subs, Ind.managed]
@[simp] theorem Ind.costL_nil : Ind.costL ([] : List (Ind F)) = 1 := by simp [Ind.costL]
@[simp] theorem Ind.costL_cons (s : Ind F) (r : List (Ind F)) :
    Ind.costL (s :: r) = 1 + max s.cost (Ind.costL r) := by simp [Ind.costL]
@[simp] theorem Ind.costM_nil : Ind.costM ([] : List (String × Ind F)) = 0 := by simp [Ind.costM]
@[simp] theorem Ind.costM_cons (p : String × Ind F) (r : List (String × Ind F)) :
    Ind.costM (p :: r) = max p.2.cost (Ind.costM r) := by
  obtain ⟨k, m⟩ := p; simp [Ind.costM]
theorem Ind.costC_eq (i : Ind F) (n : Nat) : i.costC n = 1 + max (Ind.costN i.subs n) (n + i.costR) := by
  cases i; simp [Ind.costC, Ind.costR, Ind.subs, Ind.managed]
@[simp] theorem Ind.costN_nil (n : Nat) : Ind.costN ([] : List (Ind F)) n = 1 := by simp [Ind.costN]
@[simp] theorem Ind.costN_cons (s : Ind F) (r : List (Ind F)) (n : Nat) :
    Ind.costN (s :: r) n = 1 + max (s.costC n) (Ind.costN r n) := by simp [Ind.costN]

theorem Ind.costM_lookup {key : String} {m : Ind F} {l : List (String × Ind F)} (h : dlookup key l = some m) :
    m.cost ≤ Ind.costM l := by
  induction l with
  | nil => simp at h
  | cons p r ih =>
    obtain ⟨k', v'⟩ := p
    unfold dlookup at h
    rw [Ind.costM_cons]
    split at h
    · cases h; simp only; omega
    · have := ih h; omega

theorem Ind.getManaged_cost {i m : Ind F} {key : String} (h : i.getManaged key = .ok m) :
    m.cost + 1 ≤ i.costR := by
  unfold Ind.getManaged at h
  rw [Ind.costR_eq]
  split at h
  · rename_i m' hm; cases h
    have := Ind.costM_lookup hm; omega
  · cases h

theorem Ind.costN_length (subs : List (Ind F)) (n : Nat) : subs.length + 1 ≤ Ind.costN subs n := by
  induction subs with
  | nil => simp
  | cons s r ih => rw [Ind.costN_cons, List.length_cons]; omega

/-- with every sub-indicator prior, the pass over the non-prior ones just needs one unit of fuel per
list cell -/
theorem calcSubs_false_none_ok : ∀ (f : Nat) (subs : List (Ind F)) (cs : List (Candle F)),
    Ind.allPriorL subs = true → subs.length + 1 ≤ f → calcSubs f subs false none cs = .ok cs := by
  intro f
  induction f with
  | zero => intro subs cs _ h; omega
  | succ f ih =>
    intro subs cs hap hf
    cases subs with
    | nil => exact calcSubs_nil' f false none cs
    | cons s rest =>
      rw [Ind.allPriorL_cons] at hap
      simp only [Bool.and_eq_true] at hap
      rw [calcSubs_cons_none]
      have : (s.priorCalc == false) = false := by rw [hap.1.1]; rfl
      simp only [this, Bool.false_eq_true, if_false, bind, Except.bind, pure, Except.pure]
      exact ih rest cs hap.2 (by simp only [List.length_cons] at hf; omega)

/-- the statements proved together: two fuels that both cover the static cost give the same value -/
structure EngineFuel (f' f : Nat) : Prop where
  calcReading : ∀ (ind : Ind F) (cs : List (Candle F)) (i : Int), 1 ≤ i → ind.costR ≤ f' → ind.costR ≤ f →
    calcReading f' ind cs i = calcReading f ind cs i
  setManagedReading : ∀ (m : Ind F) (cs : List (Candle F)) (i : Int) v, 1 ≤ i → m.cost ≤ f' → m.cost ≤ f →
    setManagedReading f' m cs i v = setManagedReading f m cs i v
  calculateIndex : ∀ (ind : Ind F) (cs : List (Candle F)) (s e : Int), 1 ≤ s → s < e →
    ind.cost ≤ f' → ind.cost ≤ f → calculateIndex f' ind cs s e = calculateIndex f ind cs s e
  calcSubsIdx : ∀ (subs : List (Ind F)) (prior : Bool) (cs : List (Candle F)) (s e : Int), 1 ≤ s → s < e →
    Ind.costL subs ≤ f' → Ind.costL subs ≤ f →
    calcSubs f' subs prior (some (s, e)) cs = calcSubs f subs prior (some (s, e)) cs
  calcLoop : ∀ (ind : Ind F) (cs : List (Candle F)) (k n : Nat), 1 ≤ k → n + ind.costR ≤ f' →
    n + ind.costR ≤ f → calcLoop f' ind cs k n = calcLoop f ind cs k n
  calculate : ∀ (ind : Ind F) (cs : List (Candle F)) (m : Nat), ind.allPrior = true →
    ind.allNames.Nodup → 1 ≤ m → m ≤ cs.length → (∀ n ∈ ind.calcNames, KeySplit n m cs) →
    ind.costC (cs.length - m) ≤ f' → ind.costC (cs.length - m) ≤ f →
    calculate f' ind cs = calculate f ind cs
  calcSubsNone : ∀ (subs : List (Ind F)) (cs : List (Candle F)) (m : Nat),
    Ind.allPriorL subs = true → (Ind.allNamesL subs).Nodup → 1 ≤ m → m ≤ cs.length →
    (∀ n ∈ Ind.calcNamesL subs, KeySplit n m cs) →
    Ind.costN subs (cs.length - m) ≤ f' → Ind.costN subs (cs.length - m) ≤ f →
    calcSubs f' subs true none cs = calcSubs f subs true none cs

theorem bind_congr_ok {α β : Type} {m m' : PyM α} {g g' : α → PyM β} (hm : m' = m)
    (hg : ∀ a, m = .ok a → g' a = g a) : m' >>= g' = m >>= g := by
  subst hm
  cases m' with
  | error e => rfl
  | ok a => exact hg a rfl

theorem foldlM_congr_mem {α β : Type} (g g' : β → α → PyM β) :
    ∀ (l : List α) (b : β), (∀ b, ∀ a ∈ l, g' b a = g b a) → l.foldlM g' b = l.foldlM g b := by
  intro l
  induction l with
  | nil => intro b _; rfl
  | cons a r ih =>
    intro b h
    rw [List.foldlM_cons, List.foldlM_cons]
    refine bind_congr_ok (h b a (by simp)) (fun b1 _ => ?_)
    exact ih b1 (fun b a ha => h b a (by simp [ha]))

theorem engineFuel : ∀ f' f : Nat, EngineFuel (F := F) f' f := by
  intro f'
  induction f' with
  | zero =>
    intro f
    refine ⟨?_, ?_, ?_, ?_, ?_, ?_, ?_⟩
    · intro ind cs i _ h; rw [Ind.costR_eq] at h; omega
    · intro m cs i v _ h; rw [Ind.cost_eq] at h; omega
    · intro ind cs s e _ _ h; rw [Ind.cost_eq] at h; omega
    · intro subs prior cs s e _ _ h
      cases subs with
      | nil => simp at h
      | cons x r => rw [Ind.costL_cons] at h; omega
    · intro ind cs k n _ h; rw [Ind.costR_eq] at h; omega
    · intro ind cs m _ _ _ _ _ h; rw [Ind.costC_eq] at h; omega
    · intro subs cs m _ _ _ _ _ h
      have := Ind.costN_length subs (cs.length - m); omega
  | succ g' ih =>
    intro f
    cases f with
    | zero =>
      refine ⟨?_, ?_, ?_, ?_, ?_, ?_, ?_⟩
      · intro ind cs i _ _ h; rw [Ind.costR_eq] at h; omega
      · intro m cs i v _ _ h; rw [Ind.cost_eq] at h; omega
      · intro ind cs s e _ _ _ h; rw [Ind.cost_eq] at h; omega
      · intro subs prior cs s e _ _ _ h
        cases subs with
        | nil => simp at h
        | cons x r => rw [Ind.costL_cons] at h; omega
      · intro ind cs k n _ _ h; rw [Ind.costR_eq] at h; omega
      · intro ind cs m _ _ _ _ _ _ h; rw [Ind.costC_eq] at h; omega
      · intro subs cs m _ _ _ _ _ _ h
        have := Ind.costN_length subs (cs.length - m); omega
    | succ g =>
      have ih := ih g
      refine ⟨?_, ?_, ?_, ?_, ?_, ?_, ?_⟩
      · -- calcReading: the two helper-service records are the same functions
        intro ind cs i hi h' h
        rw [Hex.calcReading, Hex.calcReading]
        have hops : ({ setManaged := fun key v cs => do
                          let m ← ind.getManaged key
                          setManagedReading g' m cs i v
                       calcManaged := fun key cs => do
                          let m ← ind.getManaged key
                          calculateIndex g' m cs i (i + 1) } : Ops F)
            = { setManaged := fun key v cs => do
                  let m ← ind.getManaged key
                  setManagedReading g m cs i v
                calcManaged := fun key cs => do
                  let m ← ind.getManaged key
                  calculateIndex g m cs i (i + 1) } := by
          congr 1
          · funext key v cs0
            refine bind_congr_ok rfl (fun m hm => ?_)
            have := Ind.getManaged_cost hm
            exact ih.setManagedReading m cs0 i v hi (by omega) (by omega)
          · funext key cs0
            refine bind_congr_ok rfl (fun m hm => ?_)
            have := Ind.getManaged_cost hm
            exact ih.calculateIndex m cs0 i (i + 1) hi (by omega) (by omega) (by omega)
        rw [hops]
      · -- setManagedReading
        intro m cs i v hi h' h
        rw [Ind.cost_eq] at h' h
        rw [setManagedReading_succ, setManagedReading_succ]
        refine bind_congr_ok (ih.calcSubsIdx m.subs true cs i (i + 1) hi (by omega) (by omega) (by omega))
          (fun b1 _ => ?_)
        refine bind_congr_ok rfl (fun b2 _ => ?_)
        exact ih.calcSubsIdx m.subs false b2 i (i + 1) hi (by omega) (by omega) (by omega)
      · -- calculateIndex
        intro ind cs s e hs hse h' h
        rw [Ind.cost_eq] at h' h
        rw [calculateIndex_succ, calculateIndex_succ]
        refine bind_congr_ok (ih.calcSubsIdx ind.subs true cs s e hs hse (by omega) (by omega))
          (fun b1 _ => ?_)
        refine bind_congr_ok ?_ (fun b2 _ => ih.calcSubsIdx ind.subs false b2 s e hs hse (by omega) (by omega))
        refine foldlM_congr_mem _ _ _ _ (fun b j hj => ?_)
        have := (Ana.mem_pyRange _ _ _).1 hj
        unfold readSet
        rw [ih.calcReading ind b j (by omega) (by omega) (by omega)]
      · -- calcSubs with an index range
        intro subs prior cs s e hs hse h' h
        cases subs with
        | nil => rw [calcSubs_nil', calcSubs_nil']
        | cons x rest =>
          rw [Ind.costL_cons] at h' h
          rw [calcSubs_cons_range, calcSubs_cons_range]
          have c2 : (s != 0 && e != 0) = true := by
            simp only [bne_iff_ne, ne_eq, Bool.and_eq_true, decide_eq_true_eq]; omega
          simp only [c2, if_true]
          refine bind_congr_ok ?_ (fun b1 _ => ih.calcSubsIdx rest prior b1 s e hs hse (by omega) (by omega))
          by_cases hp : (x.priorCalc == prior) = true
          · simp only [hp, if_true]
            exact ih.calculateIndex x cs s e hs hse (by omega) (by omega)
          · simp only [hp, Bool.false_eq_true, if_false]
      · -- calcLoop
        intro ind cs k n hk h' h
        cases n with
        | zero => rw [calcLoop_zero', calcLoop_zero']
        | succ n =>
          rw [calcLoop_succ', calcLoop_succ']
          refine bind_congr_ok rfl (fun c _ => ?_)
          refine bind_congr_ok ?_ (fun b1 _ => ih.calcLoop ind b1 (k + 1) n (by omega) (by omega) (by omega))
          by_cases hp : present ind.name c = true
          · simp only [hp, if_true]
          · simp only [hp, if_false]
            unfold readSet
            rw [ih.calcReading ind cs k (by omega) (by omega) (by omega)]
      · -- calculate
        intro ind cs m hap hnd hm1 hm hsplit h' h
        rw [Ind.costC_eq] at h' h
        rw [calculate_succ, calculate_succ]
        obtain ⟨hn1, hn2⟩ := ind.nodup_parts hnd
        have hapL : Ind.allPriorL ind.subs = true := by rw [← Ind.allPrior_eq]; exact hap
        have hsub : ∀ n ∈ Ind.calcNamesL ind.subs, KeySplit n m cs := fun n hn =>
          hsplit n (by rw [Ind.calcNames_eq]; exact List.mem_cons_of_mem _ hn)
        refine bind_congr_ok (ih.calcSubsNone ind.subs cs m hapL hn2 hm1 hm hsub (by omega) (by omega))
          (fun b1 hb1 => ?_)
        have hst1 := calcSubs_stripEq g ind.subs true none cs b1 hb1
        have hl1 : cs.length = b1.length := hst1.length_eq
        have hs1 : KeySplit ind.name m b1 :=
          (hsplit ind.name (by rw [Ind.calcNames_eq]; simp)).agree hst1.agreeOff hn1
        rw [hs1.findCalcIndex (by omega)]
        have hlen := Ind.costN_length ind.subs (cs.length - m)
        refine bind_congr_ok (ih.calcLoop ind b1 m (b1.length - m) hm1 (by omega) (by omega)) (fun b2 _ => ?_)
        rw [calcSubs_false_none_ok g' ind.subs b2 hapL (by omega),
          calcSubs_false_none_ok g ind.subs b2 hapL (by omega)]
      · -- calcSubs of a whole `calculate()`
        intro subs cs m hap hnd hm1 hm hsplit h' h
        cases subs with
        | nil => rw [calcSubs_nil', calcSubs_nil']
        | cons x rest =>
          rw [Ind.costN_cons] at h' h
          rw [Ind.allPriorL_cons] at hap
          simp only [Bool.and_eq_true] at hap
          obtain ⟨hs1, hs2, hs3⟩ := Ind.nodupL_parts x rest hnd
          rw [calcSubs_cons_none, calcSubs_cons_none]
          have : (x.priorCalc == true) = true := by rw [hap.1.1]; rfl
          simp only [this, if_true]
          refine bind_congr_ok (ih.calculate x cs m hap.1.2 hs1 hm1 hm
            (fun n hn => hsplit n (by rw [Ind.calcNamesL_cons]; exact List.mem_append_left _ hn))
            (by omega) (by omega)) (fun b1 hb1 => ?_)
          have hst1 := calculate_stripEq g x cs b1 hb1
          have hsr : ∀ n ∈ Ind.calcNamesL rest, KeySplit n m b1 := fun n hn =>
            (hsplit n (by rw [Ind.calcNamesL_cons]; exact List.mem_append_right _ hn)).agree hst1.agreeOff
              (hs3 n (Ind.calcNamesL_sub rest n hn))
          have hl1 : cs.length = b1.length := hst1.length_eq
          rw [hl1] at h' h
          exact ih.calcSubsNone rest b1 m hap.2 hs2 hm1 (by omega) hsr (by omega) (by omega)

/-- **the shipped trees are shallow**: `calculate()` with `n` fresh candles needs at most `n + 9` units
of fuel, whatever the kind and its parameters -/
theorem costC_mkTop_le (k : Kind F) (name : String) (round : Nat) (n : Nat) :
    (mkTop k name round).costC n ≤ n + 9 := by
  cases k <;>
    simp [mkTop, children, Ind.costC_eq, Ind.costR_eq, Ind.cost_eq, Ind.subs, Ind.managed, leaf, atrNode,
      stdevNode] <;> omega

#print axioms engineFuel
#print axioms costC_mkTop_le

end Hex

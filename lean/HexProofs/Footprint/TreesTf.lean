import HexProofs.Footprint.Trees
import HexProofs.Manager2.TwinTreesTf
/-
C07 – the BOUNDED FOOTPRINT at the level of the OBJECT on a re-collapsing manager: a collapsing timeframe
(`TwinMgr.tf`) and a collapsing timeframe with gap filling (`TwinMgr.fill`); every statement is for an arbitrary
`M : TwinMgr F` and every tree with `TwinOK ind L` (all 27 shipped classes: `CoveredTreeX`, `L = lookback k`).

The object holds `done` = the manager's buckets `M.spec s` of the raw stream `s` received so far, dressed with
readings, finished (`CalcFull`) – the state after any returned run (`mgr_run_finished`).  Appending a non-empty raw
chunk `new`:

 * `append_mgr`: the manager keeps the `c = M.closed s new` CLOSED buckets with their readings (all buckets, or all
   but the forming one when the first new candle carries its label – `Candle.merge` wipes its readings:
   `merge_clears_keys`) and hands `done.take c ++ Q` to the engine, `Q` reading-free = the re-opened (merged) bucket
   and the newly opened / filled ones, `Q = (M.spec (s ++ new)).drop c`;
 (c) `append_mgr_touches_only_new`: the closed buckets are returned exactly as they were; only the `|Q|` buckets of `Q`
     are (re)computed.  On a collapsing timeframe ONE raw candle gives `|Q| = 1` (`tf_append_one_bucket`): it merges
     into the forming bucket (`c = #buckets − 1`) or opens a new one (`c = #buckets`) and exactly that one bucket is
     recomputed, whatever the number of buckets;
 (b) `append_mgr_history_length_independence`: the object holding only `done.drop d` (`d + L ≤ c`) appends to exactly
     the full object's result minus the `d` old buckets – as an equation in `PyM` (same exception otherwise);
 (a) `append_mgr_window_function` / `append_mgr_new_buckets_agree`: the recomputed buckets (top reading, helper
     series, `_data` series) are ONE function of the last `L` closed buckets (with their entries) and of `Q` – the
     merged bucket itself and the new ones; two histories of any lengths agreeing on those give the same new buckets.
-/
namespace Hex
set_option linter.unusedSectionVars false
set_option linter.unusedSimpArgs false
set_option linter.unusedVariables false
variable {F : Type} [PyF F]

/-- an indicator object on the manager `M` holding the candles `done` -/
def mgrState (M : TwinMgr F) (ind : Ind F) (done : List (Candle F)) (act : Int) : IndState F :=
  { tree := ind, mgr := { cfg := M.cfg, candles := done }, active := act }

theorem CalcFull.take {ind : Ind F} {done : List (Candle F)} (h : CalcFull ind done) (k : Nat) :
    CalcFull ind (done.take k) := fun n hn => (h n hn).take k

/-- appending a non-empty chunk: the manager's tasks, then the engine -/
theorem append_tasks (M : TwinMgr F) (ind : Ind F) (done new out : List (Candle F)) (act : Int) (hne : new ≠ [])
    (ht : tasks M.cfg (done ++ new) = .ok out) :
    candlesOf ((mgrState M ind done act).append new) = engineCalc ind out := by
  have hempty : new.isEmpty = false := by cases new <;> simp at hne ⊢
  have e : (mgrState M ind done act).append new
      = IndState.calculate { tree := ind, mgr := { cfg := M.cfg, candles := out }, active := act } := by
    simp only [mgrState, IndState.append, Manager.append, hempty, Bool.false_eq_true, if_false, ht, bind,
      Except.bind]
    rfl
  rw [e]
  exact IndState.calculate_engine _

/-- **`Indicator.append(new)` on a re-collapsing manager is the engine on `closed buckets ++ Q`**: the first
`c = M.closed s new` buckets are kept with their readings, `Q` is reading-free (the re-opened merged bucket and the
new ones), `Q` is what the manager's spec appends after the closed buckets; the same for the object holding only
`done.drop d`, `d < c`. -/
theorem append_mgr (M : TwinMgr F) (ind : Ind F) (s new done : List (Candle F)) (hok : M.Ok (s ++ new))
    (hne : new ≠ []) (hd : Dressed (M.spec s) done) :
    ∃ Q : List (Candle F), (∀ c ∈ Q, Plain c) ∧ M.closed s new ≤ done.length ∧
      done.length ≤ M.closed s new + Q.length ∧
      M.spec (s ++ new) = (M.spec s).take (M.closed s new) ++ Q ∧
      Q = (M.spec (s ++ new)).drop (M.closed s new) ∧
      (∀ act, candlesOf ((mgrState M ind done act).append new)
        = engineCalc ind (done.take (M.closed s new) ++ Q)) ∧
      ∀ d act, d + 1 ≤ M.closed s new →
        candlesOf ((mgrState M ind (done.drop d) act).append new)
          = engineCalc ind ((done.take (M.closed s new) ++ Q).drop d) := by
  obtain ⟨Q, hQ, hkc, hgrow, htasks, hspec, hdrop⟩ := M.append s new done hok hne hd
  have hlen : (M.spec s).length = done.length := hd.length_eq
  refine ⟨Q, hQ, hkc, hgrow, hspec, ?_, fun act => append_tasks M ind done new _ act hne htasks,
    fun d act hdc => append_tasks M ind (done.drop d) new _ act hne (hdrop d hdc)⟩
  rw [hspec, List.drop_left' (by rw [List.length_take]; omega)]

/-! ### (c) only the re-opened and the new buckets are computed -/

/-- **(c)**: the closed buckets are returned exactly as they were; the result is `done.take c` followed by as many
buckets as `Q` has, each carrying the tree's key (so each WAS computed: the buckets of `Q` carry none). -/
theorem append_mgr_touches_only_new (M : TwinMgr F) (ind : Ind F) {L : Nat} (T : TwinOK ind L)
    (s new done : List (Candle F)) (act : Int) (hok : M.Ok (s ++ new)) (hne : new ≠ [])
    (hd : Dressed (M.spec s) done) (hfin : CalcFull ind done) (out : List (Candle F))
    (h : candlesOf ((mgrState M ind done act).append new) = .ok out) :
    ∃ fresh, out = done.take (M.closed s new) ++ fresh ∧
      fresh.length = ((M.spec (s ++ new)).drop (M.closed s new)).length ∧
      (∀ c ∈ fresh, hasKey ind.name c = true) ∧
      (∀ c ∈ (M.spec (s ++ new)).drop (M.closed s new), hasKey ind.name c = false) ∧
      Dressed (M.spec (s ++ new)) out ∧ CalcFull ind out := by
  obtain ⟨Q, hQ, hkc, hgrow, hspec, hQeq, happ, _⟩ := append_mgr M ind s new done hok hne hd
  rw [happ act] at h
  obtain ⟨fresh, ho, hl, hk, hk'⟩ := append_touches_only_new ind T (done.take (M.closed s new)) Q out
    (hfin.take _) hQ h
  refine ⟨fresh, ho, by rw [← hQeq]; exact hl, hk, by rw [← hQeq]; exact hk', ?_,
    finished_append ind T _ Q out (hfin.take _) hQ h⟩
  exact engine_dressed ind _ _ out (by rw [hspec]; exact (hd.take _).append (Dressed.rfl' Q)) h

/-! ### (b) history-length independence, in buckets -/

/-- **(b) for the object on a re-collapsing manager**: the object holding only `done.drop d` – `d` old buckets
popped, `L` closed buckets left before the re-opened one (`d + L ≤ c`) – appends to exactly the full object's result
minus those `d` buckets: same buckets (readings, helper series, `_data` series) or the same exception. -/
theorem append_mgr_history_length_independence (M : TwinMgr F) (ind : Ind F) {L : Nat} (T : TwinOK ind L)
    (hs : Shallow ind) (s new done : List (Candle F)) (d : Nat) (a₁ a₂ : Int) (hok : M.Ok (s ++ new))
    (hne : new ≠ []) (hd : Dressed (M.spec s) done) (hfin : CalcFull ind done)
    (hkeep : d + L ≤ M.closed s new) :
    candlesOf ((mgrState M ind (done.drop d) a₁).append new)
      = (candlesOf ((mgrState M ind done a₂).append new)).map (·.drop d) := by
  obtain ⟨Q, hQ, hkc, hgrow, hspec, hQeq, happ, hdrop⟩ := append_mgr M ind s new done hok hne hd
  have hL := T.hL
  rw [happ a₂, hdrop d a₁ (by omega)]
  exact engineCalc_drop ind T hs (done.take (M.closed s new)) Q d (hfin.take _) hQ
    (by rw [List.length_take]; omega)

/-! ### (a) the recomputed buckets are a function of the last `L` closed buckets and of `Q` -/

/-- **(a), as ONE function**: `g w Q` = run the engine on `w ++ Q`, keep the new buckets.  For EVERY history, the
buckets an append (re)computes are `g` of the last `L` closed buckets (with their entries) and of the reading-free
tail `Q = (M.spec (s ++ new)).drop c` – the re-opened (merged) bucket itself and the newly opened ones. -/
theorem append_mgr_window_function (M : TwinMgr F) (ind : Ind F) {L : Nat} (T : TwinOK ind L) (hs : Shallow ind) :
    ∃ g : List (Candle F) → List (Candle F) → PyM (List (Candle F)),
      ∀ (s new done : List (Candle F)) (act : Int), M.Ok (s ++ new) → new ≠ [] → Dressed (M.spec s) done →
        CalcFull ind done → L ≤ M.closed s new →
        ((done.take (M.closed s new)).drop (M.closed s new - L)).length = L ∧
        (candlesOf ((mgrState M ind done act).append new)).map (·.drop (M.closed s new))
          = g ((done.take (M.closed s new)).drop (M.closed s new - L))
              ((M.spec (s ++ new)).drop (M.closed s new)) := by
  obtain ⟨g, hg⟩ := new_candles_window_function ind T hs
  refine ⟨g, fun s new done act hok hne hd hfin hL => ?_⟩
  obtain ⟨Q, hQ, hkc, hgrow, hspec, hQeq, happ, _⟩ := append_mgr M ind s new done hok hne hd
  have hlen : (done.take (M.closed s new)).length = M.closed s new := by rw [List.length_take]; omega
  obtain ⟨h1, h2⟩ := hg (done.take (M.closed s new)) Q (hfin.take _) hQ (by omega)
  rw [hlen] at h1 h2
  exact ⟨h1, by rw [happ act, ← hQeq]; exact h2⟩

/-- **(a), two histories**: two objects on the same manager configuration – raw streams and bucket counts of ANY
lengths – whose last `L` closed buckets agree (as full candles: OHLCV, stamp, every stored entry) and whose
re-opened / new buckets agree compute the same new buckets (or raise the same exception). -/
theorem append_mgr_new_buckets_agree (M : TwinMgr F) (ind : Ind F) {L : Nat} (T : TwinOK ind L) (hs : Shallow ind)
    (s₁ s₂ new₁ new₂ done₁ done₂ : List (Candle F)) (a₁ a₂ : Int)
    (hok₁ : M.Ok (s₁ ++ new₁)) (hok₂ : M.Ok (s₂ ++ new₂)) (hne₁ : new₁ ≠ []) (hne₂ : new₂ ≠ [])
    (hd₁ : Dressed (M.spec s₁) done₁) (hd₂ : Dressed (M.spec s₂) done₂)
    (hf₁ : CalcFull ind done₁) (hf₂ : CalcFull ind done₂)
    (hL₁ : L ≤ M.closed s₁ new₁) (hL₂ : L ≤ M.closed s₂ new₂)
    (hw : (done₁.take (M.closed s₁ new₁)).drop (M.closed s₁ new₁ - L)
        = (done₂.take (M.closed s₂ new₂)).drop (M.closed s₂ new₂ - L))
    (hq : (M.spec (s₁ ++ new₁)).drop (M.closed s₁ new₁) = (M.spec (s₂ ++ new₂)).drop (M.closed s₂ new₂)) :
    (candlesOf ((mgrState M ind done₁ a₁).append new₁)).map (·.drop (M.closed s₁ new₁))
      = (candlesOf ((mgrState M ind done₂ a₂).append new₂)).map (·.drop (M.closed s₂ new₂)) := by
  obtain ⟨Q₁, hQ₁, hk₁, _, _, hQe₁, happ₁, _⟩ := append_mgr M ind s₁ new₁ done₁ hok₁ hne₁ hd₁
  obtain ⟨Q₂, hQ₂, hk₂, _, _, hQe₂, happ₂, _⟩ := append_mgr M ind s₂ new₂ done₂ hok₂ hne₂ hd₂
  have hQ : Q₁ = Q₂ := by rw [hQe₁, hQe₂, hq]
  subst hQ
  have hl₁ : (done₁.take (M.closed s₁ new₁)).length = M.closed s₁ new₁ := by rw [List.length_take]; omega
  have hl₂ : (done₂.take (M.closed s₂ new₂)).length = M.closed s₂ new₂ := by rw [List.length_take]; omega
  have := new_candles_agree ind T hs (done₁.take (M.closed s₁ new₁)) (done₂.take (M.closed s₂ new₂)) Q₁
    (hf₁.take _) (hf₂.take _) hQ₁ (by omega) (by omega) (by rw [hl₁, hl₂]; exact hw)
  rw [hl₁, hl₂] at this
  rw [happ₁ a₁, happ₂ a₂]
  exact this

/-! ### the state after any run -/

theorem mgr_appends_finished (M : TwinMgr F) (ind : Ind F) {L : Nat} (T : TwinOK ind L)
    (chunks : List (List (Candle F))) :
    ∀ (s done : List (Candle F)) (act : Int) (st : IndState F), Dressed (M.spec s) done → CalcFull ind done →
      M.Ok (s ++ chunks.flatten) →
      chunks.foldlM (fun (x : IndState F) ch => x.append ch) (mgrState M ind done act) = .ok st →
      ∃ out act', st = mgrState M ind out act' ∧ Dressed (M.spec (s ++ chunks.flatten)) out ∧ CalcFull ind out := by
  induction chunks with
  | nil =>
    intro s done act st hd hfin _ h
    simp only [List.foldlM_nil, pure, Except.pure] at h
    cases h
    exact ⟨done, act, rfl, by simpa using hd, hfin⟩
  | cons ch rest ih =>
    intro s done act st hd hfin hok h
    have hok' : M.Ok ((s ++ ch) ++ rest.flatten) := by simpa [List.append_assoc] using hok
    have hsch : M.Ok (s ++ ch) := M.ok_left _ _ hok'
    rw [List.foldlM_cons] at h
    obtain ⟨s1, h1, h2⟩ := Writes.bind_ok h
    have key : ∃ b0 Q : List (Candle F), CalcFull ind b0 ∧ (∀ c ∈ Q, Plain c) ∧
        Dressed (M.spec (s ++ ch)) (b0 ++ Q) ∧
        (mgrState M ind done act).append ch
          = IndState.calculate { tree := ind, mgr := { cfg := M.cfg, candles := b0 ++ Q }, active := act } := by
      by_cases hch : ch = []
      · subst hch
        refine ⟨done, [], hfin, by simp, by simpa using hd, ?_⟩
        simp [mgrState, IndState.append, Manager.append, bind, Except.bind]
      · have hempty : ch.isEmpty = false := by cases ch <;> simp at hch ⊢
        obtain ⟨Q, hQ, _, _, htasks, hspec, _⟩ := M.append s ch done hsch hch hd
        refine ⟨done.take (M.closed s ch), Q, hfin.take _, hQ,
          by rw [hspec]; exact (hd.take _).append (Dressed.rfl' Q), ?_⟩
        simp only [mgrState, IndState.append, Manager.append, hempty, Bool.false_eq_true, if_false, htasks, bind,
          Except.bind]
        rfl
    obtain ⟨b0, Q, hf0, hQ, hd0, e⟩ := key
    rw [e] at h1
    obtain ⟨b1, act1, rfl, he⟩ := IndState.calculate_shape ind M.cfg _ act s1 h1
    have := ih (s ++ ch) b1 act1 st (engine_dressed ind _ _ b1 hd0 he) (finished_append ind T b0 Q b1 hf0 hQ he)
      hok' h2
    simpa [List.append_assoc] using this

/-- **a returned run on a re-collapsing manager** (construction over `init`, `calculate()`, any appends) **ends in
an object holding the manager's buckets of the whole stream, dressed and finished** – the hypotheses of the
`append_mgr_*` theorems -/
theorem mgr_run_finished (M : TwinMgr F) (ind : Ind F) {L : Nat} (T : TwinOK ind L) (init : List (Candle F))
    (chunks : List (List (Candle F))) (hok : M.Ok (init ++ chunks.flatten)) (st : IndState F)
    (h : runIndicator ind M.cfg init chunks = .ok st) :
    ∃ out act, st = mgrState M ind out act ∧ Dressed (M.spec (init ++ chunks.flatten)) out ∧ CalcFull ind out := by
  have hoki : M.Ok init := M.ok_left _ _ hok
  unfold runIndicator IndState.init Manager.init at h
  rw [M.init init hoki] at h
  simp only [bind, Except.bind, pure, Except.pure] at h
  cases hc : IndState.calculate ({ tree := ind, mgr := { cfg := M.cfg, candles := M.spec init } } : IndState F) with
  | error e => rw [hc] at h; cases h
  | ok s0 =>
    rw [hc] at h
    simp only at h
    obtain ⟨b0, act0, rfl, he⟩ := IndState.calculate_shape ind M.cfg (M.spec init) 0 s0 hc
    have hpl := M.spec_plain init hoki
    exact mgr_appends_finished M ind T chunks init b0 act0 st
      (engine_dressed ind _ _ b0 (Dressed.rfl' _) he) (finished_of_engine ind T _ b0 hpl he) hok h

/-! ### a collapsing timeframe: ONE raw candle re-opens or opens exactly ONE bucket -/

/-- one stamped raw candle after the stream `s`: the bucket list grows to `closed + 1` buckets -/
theorem resample_snoc_length (tf : Int) (s : List (Candle F)) (x : Candle F) (t : Int) (hx : x.ts = some t) :
    (resample tf (s ++ [x])).length = closedOf tf (resample tf s) [x] + 1 := by
  unfold resample
  rw [resampleR_append', List.length_reverse]
  simp only [List.foldl_cons, List.foldl_nil]
  cases hR : resampleR tf s with
  | nil => simp [resampleStep, hx, closedOf]
  | cons l r =>
    have hlast : (l :: r).reverse.getLast? = some l := by simp
    unfold closedOf
    rw [hlast]
    simp only [List.head?_cons, hx, Option.map_some, List.length_reverse, List.length_cons]
    by_cases hm : l.ts = some (label tf t)
    · simp [resampleStep, hx, hm]
    · simp [resampleStep, hx, hm]

/-- **One raw candle on a collapsing timeframe recomputes exactly one bucket.**  The object holds the dressed,
finished buckets `done` of the stream `s`; the candle `x` either carries the label of the forming bucket
(`c = #buckets − 1`: it is merged into it and `Candle.merge` wipes that bucket's readings) or not (`c = #buckets`:
a new bucket is opened).  In both cases the manager's new bucket list is the `c` closed buckets followed by ONE
reading-free bucket `q`, and a returned append is `done.take c ++ [q']`: the closed buckets exactly as they were
and the one (re)computed bucket, now carrying the tree's key – however many buckets there are. -/
theorem tf_append_one_bucket (tf : Int) (htf : 0 < tf) (ind : Ind F) {L : Nat} (T : TwinOK ind L)
    (s done : List (Candle F)) (x : Candle F) (act : Int) (hok : RawTf (s ++ [x]))
    (hd : Dressed (resample tf s) done) (hfin : CalcFull ind done) :
    let c := closedOf tf (resample tf s) [x]
    (c = done.length ∨ c + 1 = done.length) ∧
    ∃ q, Plain q ∧ resample tf (s ++ [x]) = (resample tf s).take c ++ [q] ∧
      candlesOf ((mgrState (TwinMgr.tf F tf htf) ind done act).append [x]) = engineCalc ind (done.take c ++ [q]) ∧
      ∀ out, candlesOf ((mgrState (TwinMgr.tf F tf htf) ind done act).append [x]) = .ok out →
        ∃ q', out = done.take c ++ [q'] ∧ hasKey ind.name q' = true ∧ hasKey ind.name q = false ∧
          Dressed (resample tf (s ++ [x])) out ∧ CalcFull ind out := by
  intro c
  obtain ⟨t, ht⟩ : ∃ t, x.ts = some t := by
    cases h : x.ts with
    | none => exact absurd h (hok.stamped x (by simp))
    | some t => exact ⟨t, rfl⟩
  obtain ⟨Q, hQ, hkc, hgrow, hspec, hQeq, happ, _⟩ :=
    append_mgr (TwinMgr.tf F tf htf) ind s [x] done hok (by simp) hd
  have hlen : (resample tf s).length = done.length := hd.length_eq
  have hc1 : c ≤ done.length := hkc
  have hc2 : done.length ≤ c + 1 := by rw [← hlen]; exact le_closedOf_succ tf _ _
  have hQl : Q.length = 1 := by
    have h1 := resample_snoc_length tf s x t ht
    have h2 := congrArg List.length hspec
    change (resample tf (s ++ [x])).length = _ at h2
    rw [List.length_append, List.length_take] at h2
    change (resample tf (s ++ [x])).length = min c (resample tf s).length + Q.length at h2
    rw [hlen, Nat.min_eq_left hc1] at h2
    change (resample tf (s ++ [x])).length = c + 1 at h1
    omega
  obtain ⟨q, rfl⟩ : ∃ q, Q = [q] := by
    cases Q with
    | nil => simp at hQl
    | cons q r =>
      cases r with
      | nil => exact ⟨q, rfl⟩
      | cons _ _ => simp at hQl
  refine ⟨by omega, q, hQ q (by simp), hspec, happ act, fun out hout => ?_⟩
  obtain ⟨fresh, ho, hl, hk, hk', hd', hf'⟩ := append_mgr_touches_only_new (TwinMgr.tf F tf htf) ind T s [x] done act
    hok (by simp) hd hfin out hout
  have hl' : fresh.length = 1 := by
    rw [hl]
    change ((resample tf (s ++ [x])).drop c).length = 1
    have : (resample tf (s ++ [x])).drop c = [q] := hQeq.symm
    rw [this]; rfl
  obtain ⟨q', rfl⟩ : ∃ q', fresh = [q'] := by
    cases fresh with
    | nil => simp at hl'
    | cons q' r =>
      cases r with
      | nil => exact ⟨q', rfl⟩
      | cons _ _ => simp at hl'
  exact ⟨q', ho, hk q' (by simp), hasKey_plain _ q (hQ q (by simp)), hd', hf'⟩

/-! ### every shipped class, with the closed-form look-back -/

section covered
variable (k : Kind F) (name : String) (round : Nat) (hc : CoveredTreeX name k)
include hc

theorem twinOK_lookback : TwinOK (mkTop k name round) (lookback k) := by
  have e : max 1 (mkTop k name round).lb = lookback k := treeLook_eq k name round
  have T := hc.twinOK round
  rw [e] at T
  exact T

/-- **C07 (b) on a re-collapsing manager, every class**: history-length independence in buckets -/
theorem bounded_footprint_mgr (M : TwinMgr F) (s new done : List (Candle F)) (d : Nat) (a₁ a₂ : Int)
    (hok : M.Ok (s ++ new)) (hne : new ≠ []) (hd : Dressed (M.spec s) done)
    (hfin : CalcFull (mkTop k name round) done) (hkeep : d + lookback k ≤ M.closed s new) :
    candlesOf ((mgrState M (mkTop k name round) (done.drop d) a₁).append new)
      = (candlesOf ((mgrState M (mkTop k name round) done a₂).append new)).map (·.drop d) :=
  append_mgr_history_length_independence M _ (twinOK_lookback k name round hc) (shallow_mkTop k name round)
    s new done d a₁ a₂ hok hne hd hfin hkeep

/-- **C07 (a) on a re-collapsing manager, every class**: the recomputed buckets are one function of the last
`lookback k` closed buckets and of the re-opened / new buckets -/
theorem new_buckets_window_function_mgr (M : TwinMgr F) :
    ∃ g : List (Candle F) → List (Candle F) → PyM (List (Candle F)),
      ∀ (s new done : List (Candle F)) (act : Int), M.Ok (s ++ new) → new ≠ [] → Dressed (M.spec s) done →
        CalcFull (mkTop k name round) done → lookback k ≤ M.closed s new →
        ((done.take (M.closed s new)).drop (M.closed s new - lookback k)).length = lookback k ∧
        (candlesOf ((mgrState M (mkTop k name round) done act).append new)).map (·.drop (M.closed s new))
          = g ((done.take (M.closed s new)).drop (M.closed s new - lookback k))
              ((M.spec (s ++ new)).drop (M.closed s new)) :=
  append_mgr_window_function M _ (twinOK_lookback k name round hc) (shallow_mkTop k name round)

/-- **C07 (c) on a collapsing timeframe, every class**: one raw candle recomputes exactly one bucket -/
theorem append_one_recomputes_one_bucket (tf : Int) (htf : 0 < tf) (s done : List (Candle F)) (x : Candle F)
    (act : Int) (hok : RawTf (s ++ [x])) (hd : Dressed (resample tf s) done)
    (hfin : CalcFull (mkTop k name round) done) (out : List (Candle F))
    (h : candlesOf ((mgrState (TwinMgr.tf F tf htf) (mkTop k name round) done act).append [x]) = .ok out) :
    (closedOf tf (resample tf s) [x] = done.length ∨ closedOf tf (resample tf s) [x] + 1 = done.length) ∧
    ∃ q', out = done.take (closedOf tf (resample tf s) [x]) ++ [q'] ∧ hasKey name q' = true := by
  obtain ⟨h1, q, _, _, _, h2⟩ := tf_append_one_bucket tf htf (mkTop k name round) (hc.twinOK round) s done x act hok
    hd hfin
  obtain ⟨q', ho, hk, _⟩ := h2 out h
  exact ⟨h1, q', ho, by simpa [mkTop, Ind.name] using hk⟩

/-- the state after any returned run on a re-collapsing manager satisfies the hypotheses above -/
theorem run_finished_mgr (M : TwinMgr F) (init : List (Candle F)) (chunks : List (List (Candle F)))
    (hok : M.Ok (init ++ chunks.flatten)) (st : IndState F)
    (h : runIndicator (mkTop k name round) M.cfg init chunks = .ok st) :
    ∃ out act, st = mgrState M (mkTop k name round) out act ∧
      Dressed (M.spec (init ++ chunks.flatten)) out ∧ CalcFull (mkTop k name round) out :=
  mgr_run_finished M _ (hc.twinOK round) init chunks hok st h

end covered

/-! ### non-vacuity (toy carrier `Int`, `decide +kernel`): ATR 3 (TR helper + Wilder node, look-back 2) on a
two-minute timeframe over the seven one-minute candles `tfInit` (buckets 120, 240, 360 and the forming 480) -/
section Demo
set_option synthInstance.maxSize 2000

/-- stamp 480: carries the label of the forming bucket – it is MERGED into it -/
def tfX480 : Candle Int := tfChunks.flatten.getD 0 default
/-- stamp 540: label 600 – it OPENS a new bucket -/
def tfX540 : Candle Int := tfChunks.flatten.getD 1 default

theorem tfInit_raw480 : RawTf (tfInit ++ [tfX480]) := ⟨by decide, by decide, by decide, by decide⟩
theorem tfInit_raw540 : RawTf (tfInit ++ [tfX480] ++ [tfX540]) := ⟨by decide, by decide, by decide, by decide⟩

/-- the candle 480 leaves THREE of the four buckets closed, the candle 540 after it all FOUR -/
theorem tfDemo_closed : closedOf 120 (resample 120 tfInit) [tfX480] = 3 ∧
    closedOf 120 (resample 120 (tfInit ++ [tfX480])) [tfX540] = 4 := by decide +kernel

/-- the theorem applied: after construction over `tfInit`, appending the candle 480 returns the three closed
buckets exactly as they were followed by ONE recomputed bucket -/
example (st : IndState Int) (hr : runIndicator (mkTop (.atr 3) "ATR_3" 4) (cfgTf 120) tfInit [] = .ok st)
    (out : List (Candle Int)) (h : candlesOf (st.append [tfX480]) = .ok out) :
    ∃ q', out = st.mgr.candles.take 3 ++ [q'] ∧ hasKey "ATR_3" q' = true := by
  obtain ⟨done, act, rfl, hd, hf⟩ := run_finished_mgr (.atr 3) "ATR_3" 4 atrDemoOK (TwinMgr.tf Int 120 (by decide))
    tfInit [] (show RawTf (tfInit ++ ([] : List (List (Candle Int))).flatten) by simpa using tfInit_raw480.append_left)
    st hr
  have hd' : Dressed (resample 120 tfInit) done := by
    have h := hd
    simp only [List.flatten_nil, List.append_nil] at h
    exact h
  obtain ⟨_, q', ho, hk⟩ := append_one_recomputes_one_bucket (.atr 3) "ATR_3" 4 atrDemoOK 120 (by decide) tfInit done
    tfX480 act tfInit_raw480 hd' hf out h
  rw [tfDemo_closed.1] at ho
  exact ⟨q', ho, hk⟩

/-- … and the runs themselves: construction returns four buckets; after the candle 480 still four, the first three
unchanged (stamps, readings, helper series), the fourth recomputed; after the candle 540 five, the first four unchanged -/
example :
    (candlesOf (runIndicator (mkTop (.atr 3) "ATR_3" 4 : Ind Int) (cfgTf 120) tfInit [])).toOption.map (·.map (·.ts))
      = some [some 120, some 240, some 360, some 480] ∧
    (candlesOf (runIndicator (mkTop (.atr 3) "ATR_3" 4 : Ind Int) (cfgTf 120) tfInit [[tfX480]])).toOption.map
        (·.map (·.ts)) = some [some 120, some 240, some 360, some 480] ∧
    (candlesOf (runIndicator (mkTop (.atr 3) "ATR_3" 4 : Ind Int) (cfgTf 120) tfInit [[tfX480], [tfX540]])).toOption.map
        (·.map (·.ts)) = some [some 120, some 240, some 360, some 480, some 600] := by decide +kernel
example :
    (candlesOf (runIndicator (mkTop (.atr 3) "ATR_3" 4 : Ind Int) (cfgTf 120) tfInit [[tfX480]])).toOption.map
        (fun o => (o.take 3).map view)
      = (candlesOf (runIndicator (mkTop (.atr 3) "ATR_3" 4 : Ind Int) (cfgTf 120) tfInit [])).toOption.map
        (fun o => (o.take 3).map view) := by decide +kernel
example :
    (candlesOf (runIndicator (mkTop (.atr 3) "ATR_3" 4 : Ind Int) (cfgTf 120) tfInit [[tfX480], [tfX540]])).toOption.map
        (fun o => (o.take 4).map view)
      = (candlesOf (runIndicator (mkTop (.atr 3) "ATR_3" 4 : Ind Int) (cfgTf 120) tfInit [[tfX480]])).toOption.map
        (fun o => (o.take 4).map view) := by decide +kernel

/-- history-length independence in buckets, the theorem applied: the object holding only the buckets 240 … 480
(one popped; `1 + lookback = 3 ≤ closed = 3`) appends the candle 480 to the full object's result minus that bucket -/
example (st : IndState Int) (hr : runIndicator (mkTop (.atr 3) "ATR_3" 4) (cfgTf 120) tfInit [] = .ok st) :
    candlesOf ((mgrState (TwinMgr.tf Int 120 (by decide)) (mkTop (.atr 3) "ATR_3" 4) (st.mgr.candles.drop 1) 0).append
        [tfX480])
      = (candlesOf (st.append [tfX480])).map (·.drop 1) := by
  obtain ⟨done, act, rfl, hd, hf⟩ := run_finished_mgr (.atr 3) "ATR_3" 4 atrDemoOK (TwinMgr.tf Int 120 (by decide))
    tfInit [] (show RawTf (tfInit ++ ([] : List (List (Candle Int))).flatten) by simpa using tfInit_raw480.append_left)
    st hr
  have hd' : Dressed (resample 120 tfInit) done := by
    have h := hd
    simp only [List.flatten_nil, List.append_nil] at h
    exact h
  have hlb : lookback (F := Int) (.atr 3) = 2 := by rw [← treeLook_eq (.atr 3) "ATR_3" 4]; exact atrDemo_look
  exact bounded_footprint_mgr (.atr 3) "ATR_3" 4 atrDemoOK (TwinMgr.tf Int 120 (by decide)) tfInit [tfX480] done 1 0 act
    tfInit_raw480 (by simp) hd' hf (by rw [hlb]; exact (by decide +kernel : 1 + 2 ≤ closedOf 120 (resample 120 tfInit) [tfX480]))

/-- … and evaluated: both sides return, with the same three buckets -/
example :
    ((candlesOf (runIndicator (mkTop (.atr 3) "ATR_3" 4 : Ind Int) (cfgTf 120) tfInit [])).bind fun done =>
        candlesOf ((mgrState (TwinMgr.tf Int 120 (by decide)) (mkTop (.atr 3) "ATR_3" 4) (done.drop 1) 0).append
          [tfX480])).toOption.map (·.map view)
      = (candlesOf (runIndicator (mkTop (.atr 3) "ATR_3" 4 : Ind Int) (cfgTf 120) tfInit [[tfX480]])).toOption.map
        (fun o => (o.drop 1).map view) ∧
    ((candlesOf (runIndicator (mkTop (.atr 3) "ATR_3" 4 : Ind Int) (cfgTf 120) tfInit [[tfX480]])).toOption.map
        List.length) = some 4 := by decide +kernel

/-- with gap filling (`TwinMgr.fill`): the state after any run over the gap schedule satisfies the hypotheses -/
example (st : IndState Int)
    (hr : runIndicator (mkTop (.atr 3) "ATR_3" 4) (TwinMgr.fill Int 120 (by decide)).cfg tfInit tfChunksGap = .ok st) :
    ∃ out act, st = mgrState (TwinMgr.fill Int 120 (by decide)) (mkTop (.atr 3) "ATR_3" 4) out act ∧
      Dressed (fillSpec 120 (tfInit ++ tfChunksGap.flatten)) out ∧ CalcFull (mkTop (.atr 3) "ATR_3" 4) out :=
  run_finished_mgr (.atr 3) "ATR_3" 4 atrDemoOK (TwinMgr.fill Int 120 (by decide)) tfInit tfChunksGap tfGap_raw st hr

end Demo

#print axioms append_mgr
#print axioms append_mgr_touches_only_new
#print axioms append_mgr_history_length_independence
#print axioms append_mgr_window_function
#print axioms append_mgr_new_buckets_agree
#print axioms mgr_run_finished
#print axioms resample_snoc_length
#print axioms tf_append_one_bucket
#print axioms bounded_footprint_mgr
#print axioms new_buckets_window_function_mgr
#print axioms append_one_recomputes_one_bucket
#print axioms run_finished_mgr

end Hex

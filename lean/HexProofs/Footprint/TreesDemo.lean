import HexProofs.Footprint.Trees
/-
Non-vacuity of the C07 tree theorems (HexProofs/Footprint/Trees.lean) on the toy carrier `Int`: ATR 3 (prior
TR helper), RSI 2 (own `_data` series), MACD 2/3/2 (prior EMAs + a managed signal EMA driven by
`calculate_index`), ADX 3/2 (prior ATR tree, managed `_data` holder with non-prior RMA children, managed RMA).
Six finished candles (`demoDone`: `calculate()` over the five candles `ttInit` and the candle `tt420` of
Manager2/TwinTrees.lean), one appended candle.  Every hypothesis is discharged, every run returns `.ok`.
-/
namespace Hex
namespace TreesDemo
set_option synthInstance.maxSize 2000

/-- the appended candle (stamp 480) -/
def x480 : Candle Int :=
  { o := .int 50, h := .int 170, l := .int 40, c := .int 160, v := .int 80, ts := some 480 }

/-- six finished candles of the tree: `calculate()` over six raw candles -/
def demoDone (k : Kind Int) (name : String) : List (Candle Int) :=
  ((engineCalc (mkTop k name 4) (ttInit ++ tt420)).toOption).getD []

/-- another history: TWO finished candles with quite different prices (keys in place, entries arbitrary) -/
def otherPre (k : Kind Int) (name : String) : List (Candle Int) :=
  ((demoDone k name).take 2).map fun c => { c with o := .int 900, h := .int 990, l := .int 10, c := .int 500 }

/-- what the theorems say about the demo, for one tree: `calculate()` on six raw candles returns (six
finished candles); (b) the run on the last `2 = lookback` finished candles + the new one returns, and is the
full run minus four candles; (a) with the other history in front of the same two candles the new candle is
the same; (c) the six old candles are untouched and the result has seven -/
def demoChecks (k : Kind Int) (name : String) : Bool :=
  let ind := mkTop k name 4
  let done := demoDone k name
  let full := (engineCalc ind (done ++ [x480])).toOption
  let win := (engineCalc ind (done.drop 4 ++ [x480])).toOption
  let other := (engineCalc ind (otherPre k name ++ done.drop 4 ++ [x480])).toOption
  done.length == 6 && decide (CalcFull ind done) && decide (CalcFull ind (otherPre k name ++ done.drop 4)) &&
  full.isSome && win.isSome && other.isSome &&
  decide (win.map (·.map view) = full.map (fun b => (b.drop 4).map view)) &&
  decide (other.map (fun b => (b.drop 4).map view) = full.map (fun b => (b.drop 6).map view)) &&
  decide (full.map (fun b => (b.take 6).map view) = some (done.map view)) &&
  decide (full.map (·.length) = some 7)

/-! #### ATR 3 -/

example : lookback (F := Int) (.atr 3) = 2 := by decide
example : demoChecks (.atr 3) "ATR_3" = true := by decide +kernel

/-- (b) applied: any finished result of `calculate()` over the six raw candles -/
example (done : List (Candle Int)) (h : engineCalc (mkTop (.atr 3) "ATR_3" 4) (ttInit ++ tt420) = .ok done) :
    engineCalc (mkTop (.atr 3) "ATR_3" 4) (done.drop 4 ++ [x480])
      = (engineCalc (mkTop (.atr 3) "ATR_3" 4) (done ++ [x480])).map (·.drop 4) :=
  bounded_footprint_trees (.atr 3) "ATR_3" 4 atrDemoOK done [x480] 4
    (finished_of_engine_trees (.atr 3) "ATR_3" 4 atrDemoOK _ done (by decide) h) (by decide)
    (by have := (engine_frame _ _ done h).1
        have e : lookback (F := Int) (.atr 3) = 2 := by decide
        rw [e, this]; decide)

/-- (a) applied: the other history in front of the same last two candles -/
example : (engineCalc (mkTop (.atr 3) "ATR_3" 4) ((demoDone (.atr 3) "ATR_3").take 4
              ++ (demoDone (.atr 3) "ATR_3").drop 4 ++ [x480])).map
            (·.drop ((demoDone (.atr 3) "ATR_3").take 4 ++ (demoDone (.atr 3) "ATR_3").drop 4).length)
    = (engineCalc (mkTop (.atr 3) "ATR_3" 4) (otherPre (.atr 3) "ATR_3"
              ++ (demoDone (.atr 3) "ATR_3").drop 4 ++ [x480])).map
            (·.drop (otherPre (.atr 3) "ATR_3" ++ (demoDone (.atr 3) "ATR_3").drop 4).length) :=
  new_candles_ignore_prefix (mkTop (.atr 3) "ATR_3" 4) (atrDemoOK.twinOK 4) (shallow_mkTop _ _ _)
    ((demoDone (.atr 3) "ATR_3").take 4) (otherPre (.atr 3) "ATR_3") ((demoDone (.atr 3) "ATR_3").drop 4) [x480]
    (by decide +kernel) (by decide +kernel) (by decide)
    (by have : max 1 (mkTop (F := Int) (.atr 3) "ATR_3" 4).lb = 2 := atrDemo_look
        rw [this]; decide +kernel)

/-- the new candle, concretely: ATR reading and TR helper entry -/
example : ((engineCalc (mkTop (.atr 3) "ATR_3" 4) ((demoDone (.atr 3) "ATR_3").drop 4 ++ [x480])).toOption.map
      (·.map view)) = some
    [(some 300, [("ATR_3", [("", some 77)])], [("ATR_3_TR", [("", some 100)])]),
     (some 420, [("ATR_3", [("", some 68)])], [("ATR_3_TR", [("", some 50)])]),
     (some 480, [("ATR_3", [("", some 92)])], [("ATR_3_TR", [("", some 140)])])] := by decide +kernel

/-! #### RSI 2, MACD 2/3/2, ADX 3/2 -/

example : lookback (F := Int) (.rsi 2 "close") = 2 := by decide
example : demoChecks (.rsi 2 "close") "RSI_2" = true := by decide +kernel
example : lookback (F := Int) (.macd 2 3 2 "close") = 2 := by decide
example : demoChecks (.macd 2 3 2 "close") "MACD_2_3_2" = true := by decide +kernel
example : lookback (F := Int) (.adx 3 2) = 2 := by decide
example : demoChecks (.adx 3 2) "ADX_3_2" = true := by decide +kernel

example (done : List (Candle Int))
    (h : engineCalc (mkTop (.adx 3 2) "ADX_3_2" 4) (ttInit ++ tt420) = .ok done) (out : List (Candle Int))
    (ho : engineCalc (mkTop (.adx 3 2) "ADX_3_2" 4) (done ++ [x480]) = .ok out) :
    ∃ x', out = done ++ [x'] ∧ hasKey "ADX_3_2" x' = true ∧ hasKey "ADX_3_2" x480 = false :=
  append_one_changes_one_trees (.adx 3 2) "ADX_3_2" 4 adxDemoOK done out x480
    (finished_of_engine_trees (.adx 3 2) "ADX_3_2" 4 adxDemoOK _ done (by decide) h) (by decide) ho

/-! #### the closed-form look-backs of the nine classes that write helper series (parameters only) -/

example (p : Int) (name : String) (r : Nat) : treeLook (F := Int) (.vwap p) name r = 1 := treeLook_eq _ _ _
example (name : String) (r : Nat) : treeLook (F := Int) (.stdev 20 "close") name r = 20 := treeLook_eq _ _ _
example (name : String) (r : Nat) : treeLook (F := Int) (.rsi 14 "close") name r = 14 := treeLook_eq _ _ _
example (name : String) (r : Nat) (m : Num Int) : treeLook (F := Int) (.supertrend 7 "close" m) name r = 6 :=
  treeLook_eq _ _ _
example (name : String) (r : Nat) : treeLook (F := Int) (.macd 12 26 9 "close") name r = 25 := treeLook_eq _ _ _
example (name : String) (r : Nat) : treeLook (F := Int) (.hma 10 "close") name r = 9 := by
  rw [treeLook_eq, lookback_hma]; decide
example (name : String) (r : Nat) : treeLook (F := Int) (.stoch 14 3 3 "close") name r = 13 := treeLook_eq _ _ _
example (name : String) (r : Nat) : treeLook (F := Int) (.tsi 25 13 "close") name r = 24 := treeLook_eq _ _ _
example (name : String) (r : Nat) : treeLook (F := Int) (.adx 14 14) name r = 13 := treeLook_eq _ _ _

end TreesDemo
end Hex

import HexProofs.Footprint.TreesEngine
import HexProofs.Footprint.TreesFuel
import HexProofs.Footprint.TreesFrame
import HexProofs.Manager2.TwinTrees
/-
C07 – "constant work per appended candle", the BOUNDED FOOTPRINT for every shipped indicator class,
the nine classes included whose step writes helper series or drives managed children (VWAP, STDEV, RSI,
Supertrend, MACD, HMA, STOCH, TSI, ADX): all 27 classes = every `CoveredTreeX name k`.

On a FINISHED candle list `done` (every candle carries the key of every `calculate()`-reached node of the
tree – the state after `calculate()` returned, `finished_of_engine`) appending fresh candles `ch` (one
candle `[x]` in particular) and calculating

 (b) `engineCalc_drop` / `history_length_independence`: gives, on the list with `d` leading candles removed,
     EXACTLY the result on the full list minus those `d` candles – as an equation in `PyM`: same candles
     (top reading, helper series, `_data` series) or the same exception – for every `d` with
     `d + L ≤ done.length`, `L = treeLook k name round`;
 (a) `new_candles_agree` / `newest_candle_agrees` / `new_candles_window_function`: hence the newly written
     candles are a function of the last `L` finished candles (as full candles, stored entries included) and
     of the fresh candles only: two histories of ANY lengths whose last `L` candles agree produce the same
     new candles (or the same exception);
 (c) `append_touches_only_new`: every earlier candle is left exactly as it was, the appended ones get the
     tree's key: appending one candle changes exactly one candle.

`L` is a function of the PARAMETERS only: `treeLook k name round = lookback k` (`treeLook_eq`), a closed
form per class, independent of the data, the name, the rounding and the history length.

The same for the object (`IndState.append` on the base timeframe, `append_*`) and after any schedule of
appends (`runIndicator`, `run_newest_candle_agrees`).

Ingredients: the drop law as an EQUATION for every kind (`calcKind_dropE`, TreesKinds.lean) and for the
whole mutual engine at equal fuel (`engineDropE`, TreesEngine.lean); the fuel of the model is immaterial
(`engineFuel`, `costC_mkTop_le`, TreesFuel.lean – the popped list gets less fuel from the object);
position-locality of the writes (`engineFrame`, TreesFrame.lean); `engineFull`, `CoveredTreeX.twinOK`
(Manager2/TwinTrees*.lean).
-/
namespace Hex
set_option linter.unusedSectionVars false
set_option linter.unusedSimpArgs false
variable {F : Type} [PyF F]

/-! ### small `PyM` facts -/

theorem pym_map_map {α β γ : Type} (m : PyM α) (f : α → β) (g : β → γ) :
    (m.map f).map g = m.map (fun a => g (f a)) := by cases m <;> rfl

theorem pym_map_congr {α β : Type} (m : PyM α) (f g : α → β) (h : ∀ a, m = .ok a → f a = g a) :
    m.map f = m.map g := by
  cases m with
  | error e => rfl
  | ok a => simp only [Except.map]; rw [h a rfl]

/-! ### finished states -/

/-- **finished**: every candle carries the key of every node whose `calculate()` loop runs (the node and,
recursively, its sub-indicators) – what `_find_calc_index` looks at on the next append -/
def CalcFull (ind : Ind F) (done : List (Candle F)) : Prop := ∀ n ∈ ind.calcNames, Full n done

instance (ind : Ind F) (done : List (Candle F)) : Decidable (CalcFull ind done) := by
  unfold CalcFull Full; infer_instance

/-- the fuel the object passes covers the tree's depth (true of every shipped tree, `shallow_mkTop`) -/
def Shallow (ind : Ind F) : Prop := ∀ n, ind.costC n ≤ n + 16

theorem shallow_mkTop (k : Kind F) (name : String) (round : Nat) : Shallow (mkTop k name round) :=
  fun n => by have := costC_mkTop_le k name round n; omega

/-- after `calculate()` returned on raw candles the list is finished -/
theorem finished_of_engine (ind : Ind F) {L : Nat} (T : TwinOK ind L) (raw done : List (Candle F))
    (hp : ∀ c ∈ raw, Plain c) (h : engineCalc ind raw = .ok done) : CalcFull ind done :=
  engine_full ind T [] raw done (fun n _ c hc => by cases hc) hp (by simpa using h)

/-- … and stays finished through every further append -/
theorem finished_append (ind : Ind F) {L : Nat} (T : TwinOK ind L) (done ch out : List (Candle F))
    (hfin : CalcFull ind done) (hp : ∀ c ∈ ch, Plain c) (h : engineCalc ind (done ++ ch) = .ok out) :
    CalcFull ind out :=
  engine_full ind T done ch out hfin hp h

/-! ### (b) history-length independence -/

/-- **Popping old candles commutes with `calculate()`, as an equation** (`engineCalc`: the engine with the
fuel the object passes).  `done` finished, `ch` fresh, `d + L ≤ done.length`: the run on the list without
its first `d` candles returns exactly when the run on the full list does, with the same candles minus the
popped ones – and raises the same exception otherwise. -/
theorem engineCalc_drop (ind : Ind F) {L : Nat} (T : TwinOK ind L) (hs : Shallow ind)
    (done ch : List (Candle F)) (d : Nat) (hfin : CalcFull ind done) (hp : ∀ c ∈ ch, Plain c)
    (hkeep : d + L ≤ done.length) :
    engineCalc ind ((done ++ ch).drop d) = (engineCalc ind (done ++ ch)).map (·.drop d) := by
  unfold engineCalc
  have hL := T.hL
  have hsplit : ∀ n ∈ ind.calcNames, KeySplit n done.length (done ++ ch) := fun n hn =>
    KeySplit.of_append n done ch (hfin n hn) (fun c hc => hasKey_plain n c (hp c hc))
  have hsplit' : ∀ n ∈ ind.calcNames, KeySplit n (done.length - d) ((done ++ ch).drop d) := fun n hn =>
    (hsplit n hn).drop d (by omega)
  have hlen : ((done ++ ch).drop d).length - (done.length - d) = ch.length := by
    simp only [List.length_drop, List.length_append]; omega
  have e1 : calculate (fuelFor ((done ++ ch).drop d) + 1) ind ((done ++ ch).drop d)
      = calculate (fuelFor (done ++ ch) + 1) ind ((done ++ ch).drop d) := by
    refine (engineFuel _ _).calculate ind _ (done.length - d) T.prior T.nodup (by omega)
      (by simp only [List.length_drop, List.length_append]; omega) hsplit' ?_ ?_
    · rw [hlen]
      have := hs ch.length
      unfold fuelFor
      simp only [List.length_drop, List.length_append]; omega
    · rw [hlen]
      have := hs ch.length
      unfold fuelFor
      simp only [List.length_append]; omega
  rw [e1]
  exact (engineDropE T.hL _).calculate ind (done ++ ch) done.length T.lb T.prior T.nodup hkeep (by simp) hsplit

/-- the same with the popped history written out -/
theorem history_length_independence (ind : Ind F) {L : Nat} (T : TwinOK ind L) (hs : Shallow ind)
    (done ch : List (Candle F)) (d : Nat) (hfin : CalcFull ind done) (hp : ∀ c ∈ ch, Plain c)
    (hkeep : d + L ≤ done.length) :
    engineCalc ind (done.drop d ++ ch) = (engineCalc ind (done ++ ch)).map (·.drop d) := by
  rw [← engineCalc_drop ind T hs done ch d hfin hp hkeep, List.drop_append_of_le_length (by omega)]

/-- **The result on the last `L` finished candles and the fresh ones is computed from them alone.** -/
theorem engineCalc_window (ind : Ind F) {L : Nat} (T : TwinOK ind L) (hs : Shallow ind)
    (done ch : List (Candle F)) (hfin : CalcFull ind done) (hp : ∀ c ∈ ch, Plain c) (hL : L ≤ done.length) :
    (engineCalc ind (done ++ ch)).map (·.drop (done.length - L))
      = engineCalc ind (done.drop (done.length - L) ++ ch) :=
  (history_length_independence ind T hs done ch (done.length - L) hfin hp (by omega)).symm

/-! ### (a) the new candles are a function of the last `L` finished candles and the fresh ones -/

/-- two histories whose last `L` candles agree: the results agree from there on -/
theorem window_agree (ind : Ind F) {L : Nat} (T : TwinOK ind L) (hs : Shallow ind)
    (done₁ done₂ ch : List (Candle F)) (h₁ : CalcFull ind done₁) (h₂ : CalcFull ind done₂)
    (hp : ∀ c ∈ ch, Plain c) (hL₁ : L ≤ done₁.length) (hL₂ : L ≤ done₂.length)
    (hw : done₁.drop (done₁.length - L) = done₂.drop (done₂.length - L)) :
    (engineCalc ind (done₁ ++ ch)).map (·.drop (done₁.length - L))
      = (engineCalc ind (done₂ ++ ch)).map (·.drop (done₂.length - L)) := by
  rw [engineCalc_window ind T hs done₁ ch h₁ hp hL₁, engineCalc_window ind T hs done₂ ch h₂ hp hL₂, hw]

/-- **(a), per append**: two finished histories – of any lengths – whose last `L` candles agree (as full
candles: OHLCV, stamp and every stored entry) give the same newly written candles: top readings, helper
series and `_data` series alike; and the same exception if the step raises. -/
theorem new_candles_agree (ind : Ind F) {L : Nat} (T : TwinOK ind L) (hs : Shallow ind)
    (done₁ done₂ ch : List (Candle F)) (h₁ : CalcFull ind done₁) (h₂ : CalcFull ind done₂)
    (hp : ∀ c ∈ ch, Plain c) (hL₁ : L ≤ done₁.length) (hL₂ : L ≤ done₂.length)
    (hw : done₁.drop (done₁.length - L) = done₂.drop (done₂.length - L)) :
    (engineCalc ind (done₁ ++ ch)).map (·.drop done₁.length)
      = (engineCalc ind (done₂ ++ ch)).map (·.drop done₂.length) := by
  have h := congrArg (fun m => Except.map (List.drop L) m)
    (window_agree ind T hs done₁ done₂ ch h₁ h₂ hp hL₁ hL₂ hw)
  simp only [pym_map_map, List.drop_drop] at h
  rw [show done₁.length - L + L = done₁.length by omega,
    show done₂.length - L + L = done₂.length by omega] at h
  exact h

/-- … for ONE appended candle: the new last candle -/
theorem newest_candle_agrees (ind : Ind F) {L : Nat} (T : TwinOK ind L) (hs : Shallow ind)
    (done₁ done₂ : List (Candle F)) (x : Candle F) (h₁ : CalcFull ind done₁) (h₂ : CalcFull ind done₂)
    (hp : Plain x) (hL₁ : L ≤ done₁.length) (hL₂ : L ≤ done₂.length)
    (hw : done₁.drop (done₁.length - L) = done₂.drop (done₂.length - L)) :
    (engineCalc ind (done₁ ++ [x])).map List.getLast? = (engineCalc ind (done₂ ++ [x])).map List.getLast? := by
  have h := congrArg (fun m => Except.map List.getLast? m)
    (new_candles_agree ind T hs done₁ done₂ [x] h₁ h₂ (fun c hc => by simp at hc; subst hc; exact hp)
      hL₁ hL₂ hw)
  simp only [pym_map_map] at h
  have key : ∀ done : List (Candle F),
      (engineCalc ind (done ++ [x])).map (fun a => (a.drop done.length).getLast?)
        = (engineCalc ind (done ++ [x])).map List.getLast? := by
    intro done
    refine pym_map_congr _ _ _ (fun out hout => ?_)
    have hl := (engine_frame ind _ out hout).1
    rw [List.getLast?_drop]
    simp only [List.length_append, List.length_cons, List.length_nil] at hl
    rw [if_neg (by omega)]
  rw [key done₁, key done₂] at h
  exact h

/-- **(a), prefix form**: whatever precedes the last `L` finished candles – `pre₁` or `pre₂`, of any
lengths – is irrelevant to the newly written candles -/
theorem new_candles_ignore_prefix (ind : Ind F) {L : Nat} (T : TwinOK ind L) (hs : Shallow ind)
    (pre₁ pre₂ w ch : List (Candle F)) (h₁ : CalcFull ind (pre₁ ++ w)) (h₂ : CalcFull ind (pre₂ ++ w))
    (hp : ∀ c ∈ ch, Plain c) (hw : L ≤ w.length) :
    (engineCalc ind (pre₁ ++ w ++ ch)).map (·.drop (pre₁ ++ w).length)
      = (engineCalc ind (pre₂ ++ w ++ ch)).map (·.drop (pre₂ ++ w).length) := by
  refine new_candles_agree ind T hs (pre₁ ++ w) (pre₂ ++ w) ch h₁ h₂ hp (by simp; omega) (by simp; omega) ?_
  have e : ∀ pre : List (Candle F), (pre ++ w).drop ((pre ++ w).length - L) = w.drop (w.length - L) := by
    intro pre
    rw [List.length_append, show pre.length + w.length - L = pre.length + (w.length - L) by omega,
      ← List.drop_drop, List.drop_left]
  rw [e pre₁, e pre₂]

/-- **(a), as a function**: there is ONE function `g` of `L` candles and the fresh candles that gives the
newly written candles of EVERY finished history (`g w ch` = run the engine on `w ++ ch`, keep the new ones) -/
theorem new_candles_window_function (ind : Ind F) {L : Nat} (T : TwinOK ind L) (hs : Shallow ind) :
    ∃ g : List (Candle F) → List (Candle F) → PyM (List (Candle F)),
      ∀ done ch : List (Candle F), CalcFull ind done → (∀ c ∈ ch, Plain c) → L ≤ done.length →
        (done.drop (done.length - L)).length = L ∧
        (engineCalc ind (done ++ ch)).map (·.drop done.length) = g (done.drop (done.length - L)) ch := by
  refine ⟨fun w ch => (engineCalc ind (w ++ ch)).map (·.drop w.length), fun done ch hfin hp hL => ?_⟩
  have hwl : (done.drop (done.length - L)).length = L := by rw [List.length_drop]; omega
  refine ⟨hwl, ?_⟩
  simp only
  rw [← engineCalc_window ind T hs done ch hfin hp hL, pym_map_map, hwl]
  refine pym_map_congr _ _ _ (fun out _ => ?_)
  rw [List.drop_drop]
  congr 1; omega

/-! ### (c) an append touches only the new candles -/

/-- **(c)**: every earlier candle is left exactly as it was; the result is `done` followed by as many
candles as were appended, each carrying the tree's key (so each of them DID change: a fresh candle carries
none).  Appending one candle changes exactly one candle. -/
theorem append_touches_only_new (ind : Ind F) {L : Nat} (T : TwinOK ind L) (done ch out : List (Candle F))
    (hfin : CalcFull ind done) (hp : ∀ c ∈ ch, Plain c) (h : engineCalc ind (done ++ ch) = .ok out) :
    ∃ new, out = done ++ new ∧ new.length = ch.length ∧
      (∀ c ∈ new, hasKey ind.name c = true) ∧ (∀ c ∈ ch, hasKey ind.name c = false) := by
  have hsplit : ∀ n ∈ ind.calcNames, KeySplit n done.length (done ++ ch) := fun n hn =>
    KeySplit.of_append n done ch (hfin n hn) (fun c hc => hasKey_plain n c (hp c hc))
  have hk : Keeps done.length (done ++ ch) out :=
    (engineFrame _).calculate ind (done ++ ch) done.length out T.prior T.nodup (by simp) hsplit h
  have hl := (engine_frame ind _ out h).1
  have hfull := finished_append ind T done ch out hfin hp h
  unfold Keeps at hk
  rw [List.take_append_of_le_length (Nat.le_refl _), List.take_length] at hk
  refine ⟨out.drop done.length, ?_, ?_, ?_, fun c hc => hasKey_plain _ c (hp c hc)⟩
  · conv_lhs => rw [← List.take_append_drop done.length out, hk]
  · rw [List.length_drop, hl, List.length_append]; omega
  · intro c hc
    exact hfull ind.name (by rw [Ind.calcNames_eq]; simp) c (List.mem_of_mem_drop hc)

/-- one candle appended: exactly one candle changes -/
theorem append_one_changes_one (ind : Ind F) {L : Nat} (T : TwinOK ind L) (done out : List (Candle F))
    (x : Candle F) (hfin : CalcFull ind done) (hp : Plain x) (h : engineCalc ind (done ++ [x]) = .ok out) :
    ∃ x', out = done ++ [x'] ∧ hasKey ind.name x' = true ∧ hasKey ind.name x = false := by
  obtain ⟨new, ho, hl, hk, _⟩ := append_touches_only_new ind T done [x] out hfin
    (fun c hc => by simp at hc; subst hc; exact hp) h
  cases new with
  | nil => simp at hl
  | cons x' r =>
    cases r with
    | nil => exact ⟨x', ho, hk x' (by simp), hasKey_plain _ x hp⟩
    | cons y r => simp at hl

/-! ### the object: `IndState.append` on the base timeframe -/

/-- an indicator object on the base timeframe (default manager configuration) holding `done` -/
def baseState (ind : Ind F) (done : List (Candle F)) (act : Int) : IndState F :=
  { tree := ind, mgr := { cfg := {}, candles := done }, active := act }

/-- `Indicator.append(ch)` of the object is the engine on `done ++ ch` -/
theorem append_base (ind : Ind F) (done ch : List (Candle F)) (act : Int) :
    candlesOf ((baseState ind done act).append ch) = engineCalc ind (done ++ ch) := by
  unfold IndState.append baseState
  simp only [Manager.append_default, bind, Except.bind]
  exact IndState.calculate_engine _

/-- (b) for the object: the object holding only `done.drop d` appends to exactly the full object's result
minus the `d` old candles -/
theorem append_history_length_independence (ind : Ind F) {L : Nat} (T : TwinOK ind L) (hs : Shallow ind)
    (done ch : List (Candle F)) (d : Nat) (a₁ a₂ : Int) (hfin : CalcFull ind done) (hp : ∀ c ∈ ch, Plain c)
    (hkeep : d + L ≤ done.length) :
    candlesOf ((baseState ind (done.drop d) a₁).append ch)
      = (candlesOf ((baseState ind done a₂).append ch)).map (·.drop d) := by
  rw [append_base, append_base]
  exact history_length_independence ind T hs done ch d hfin hp hkeep

/-- (a) for the object -/
theorem append_new_candles_agree (ind : Ind F) {L : Nat} (T : TwinOK ind L) (hs : Shallow ind)
    (done₁ done₂ ch : List (Candle F)) (a₁ a₂ : Int) (h₁ : CalcFull ind done₁) (h₂ : CalcFull ind done₂)
    (hp : ∀ c ∈ ch, Plain c) (hL₁ : L ≤ done₁.length) (hL₂ : L ≤ done₂.length)
    (hw : done₁.drop (done₁.length - L) = done₂.drop (done₂.length - L)) :
    (candlesOf ((baseState ind done₁ a₁).append ch)).map (·.drop done₁.length)
      = (candlesOf ((baseState ind done₂ a₂).append ch)).map (·.drop done₂.length) := by
  rw [append_base, append_base]
  exact new_candles_agree ind T hs done₁ done₂ ch h₁ h₂ hp hL₁ hL₂ hw

theorem append_newest_candle_agrees (ind : Ind F) {L : Nat} (T : TwinOK ind L) (hs : Shallow ind)
    (done₁ done₂ : List (Candle F)) (x : Candle F) (a₁ a₂ : Int) (h₁ : CalcFull ind done₁)
    (h₂ : CalcFull ind done₂) (hp : Plain x) (hL₁ : L ≤ done₁.length) (hL₂ : L ≤ done₂.length)
    (hw : done₁.drop (done₁.length - L) = done₂.drop (done₂.length - L)) :
    (candlesOf ((baseState ind done₁ a₁).append [x])).map List.getLast?
      = (candlesOf ((baseState ind done₂ a₂).append [x])).map List.getLast? := by
  rw [append_base, append_base]
  exact newest_candle_agrees ind T hs done₁ done₂ x h₁ h₂ hp hL₁ hL₂ hw

/-- (c) for the object -/
theorem append_state_touches_only_new (ind : Ind F) {L : Nat} (T : TwinOK ind L) (done ch : List (Candle F))
    (act : Int) (st : IndState F) (hfin : CalcFull ind done) (hp : ∀ c ∈ ch, Plain c)
    (h : (baseState ind done act).append ch = .ok st) :
    ∃ new, st.mgr.candles = done ++ new ∧ new.length = ch.length ∧
      (∀ c ∈ new, hasKey ind.name c = true) ∧ (∀ c ∈ ch, hasKey ind.name c = false) := by
  have he : engineCalc ind (done ++ ch) = .ok st.mgr.candles := by
    rw [← append_base ind done ch act, h]; rfl
  exact append_touches_only_new ind T done ch st.mgr.candles hfin hp he

/-! ### after any schedule of appends (`runIndicator`) -/

theorem appends_finished (ind : Ind F) {L : Nat} (T : TwinOK ind L) (chunks : List (List (Candle F))) :
    ∀ (done : List (Candle F)) (act : Int) (st : IndState F), CalcFull ind done →
      (∀ c ∈ chunks.flatten, Plain c) →
      chunks.foldlM (fun (s : IndState F) ch => s.append ch) (baseState ind done act) = .ok st →
      ∃ out act', st = baseState ind out act' ∧ CalcFull ind out := by
  induction chunks with
  | nil =>
    intro done act st hfin _ h
    simp only [List.foldlM_nil, pure, Except.pure] at h
    cases h
    exact ⟨done, act, rfl, hfin⟩
  | cons ch rest ih =>
    intro done act st hfin hp h
    rw [List.foldlM_cons] at h
    obtain ⟨s1, h1, h2⟩ := Writes.bind_ok h
    have hA : (baseState ind done act).append ch
        = IndState.calculate { tree := ind, mgr := { cfg := {}, candles := done ++ ch }, active := act } := by
      unfold IndState.append baseState
      simp only [Manager.append_default, bind, Except.bind]
    rw [hA] at h1
    obtain ⟨b1, act1, rfl, he⟩ := IndState.calculate_shape ind {} (done ++ ch) act s1 h1
    have hf1 := finished_append ind T done ch b1 hfin (fun c hc => hp c (by simp [hc])) he
    exact ih b1 act1 st hf1 (fun c hc => hp c (by
      simp only [List.flatten_cons, List.mem_append]; exact Or.inr hc)) h2

/-- a returned run over raw candles (construction, `calculate()`, any appends, base timeframe) ends in a
finished object -/
theorem run_finished (ind : Ind F) {L : Nat} (T : TwinOK ind L) (init : List (Candle F))
    (chunks : List (List (Candle F))) (hp : ∀ c ∈ init ++ chunks.flatten, Plain c) (st : IndState F)
    (h : runIndicator ind {} init chunks = .ok st) :
    ∃ out act, st = baseState ind out act ∧ CalcFull ind out := by
  have hpi : ∀ c ∈ init, Plain c := fun c hc => hp c (by simp [hc])
  have hpc : ∀ c ∈ chunks.flatten, Plain c := fun c hc => hp c (List.mem_append.2 (Or.inr hc))
  unfold runIndicator IndState.init Manager.init at h
  rw [tasks_default] at h
  simp only [bind, Except.bind, pure, Except.pure] at h
  cases hc : IndState.calculate ({ tree := ind, mgr := { cfg := {}, candles := init } } : IndState F) with
  | error e => rw [hc] at h; cases h
  | ok s0 =>
    rw [hc] at h
    simp only at h
    obtain ⟨b0, act0, rfl, he⟩ := IndState.calculate_shape ind {} init 0 s0 hc
    have hf0 := finished_of_engine ind T init b0 hpi he
    exact appends_finished ind T chunks b0 act0 st hf0 hpc h

/-- **(a) after any two histories**: two objects built by ANY schedules over ANY raw streams whose last
`L` candles (with their entries) agree compute the same new candle from the same appended candle. -/
theorem run_newest_candle_agrees (ind : Ind F) {L : Nat} (T : TwinOK ind L) (hs : Shallow ind)
    (init₁ init₂ : List (Candle F)) (chunks₁ chunks₂ : List (List (Candle F)))
    (hp₁ : ∀ c ∈ init₁ ++ chunks₁.flatten, Plain c) (hp₂ : ∀ c ∈ init₂ ++ chunks₂.flatten, Plain c)
    (st₁ st₂ : IndState F) (hr₁ : runIndicator ind {} init₁ chunks₁ = .ok st₁)
    (hr₂ : runIndicator ind {} init₂ chunks₂ = .ok st₂) (x : Candle F) (hx : Plain x)
    (hL₁ : L ≤ st₁.mgr.candles.length) (hL₂ : L ≤ st₂.mgr.candles.length)
    (hw : st₁.mgr.candles.drop (st₁.mgr.candles.length - L)
        = st₂.mgr.candles.drop (st₂.mgr.candles.length - L)) :
    (candlesOf (st₁.append [x])).map List.getLast? = (candlesOf (st₂.append [x])).map List.getLast? := by
  obtain ⟨o₁, a₁, rfl, hf₁⟩ := run_finished ind T init₁ chunks₁ hp₁ st₁ hr₁
  obtain ⟨o₂, a₂, rfl, hf₂⟩ := run_finished ind T init₂ chunks₂ hp₂ st₂ hr₂
  exact append_newest_candle_agrees ind T hs o₁ o₂ x a₁ a₂ hf₁ hf₂ hx hL₁ hL₂ hw

/-! ### the look-back, per class, in closed form: a function of the parameters only -/

/-- **look-back of every class** (number of finished candles the next reading may depend on), from the
parameters alone -/
def lookback : Kind F → Nat
  | .sma p _ => max p.toNat 1
  | .ema p _ _ => max (p - 1).toNat 1
  | .rma p _ => max (p - 1).toNat 1
  | .wma p _ => max (p - 1).toNat 1
  | .vwma p => max (p - 1).toNat 1
  | .hma p _ => max (max (p - 1).toNat (p / 2 - 1).toNat) (max (isqrt p - 1).toNat 1)
  | .tr => 1
  | .atr p => max (p - 1).toNat 1
  | .stdev p _ => max p.toNat 1
  | .bbands p _ => max p.toNat 1
  | .kc p _ _ => max (p - 1).toNat 1
  | .donchian p => max (p - 1).toNat 1
  | .hl p => max p.toNat 1
  | .hla => 1
  | .supertrend p _ _ => max (p - 1).toNat 1
  | .stdevthres p _ _ => max p.toNat 1
  | .counter _ _ => 1
  | .rsi p _ => max p.toNat 1
  | .macd fast slow signal _ => max (max (fast - 1).toNat (slow - 1).toNat) (max (signal - 1).toNat 1)
  | .roc p _ => max p.toNat 1
  | .stoch p slow smoothK _ => max (max (p - 1).toNat smoothK.toNat) (max slow.toNat 1)
  | .tsi p smooth _ => max (max (p - 1).toNat (smooth - 1).toNat) 1
  | .aroon p => max p.toNat 1
  | .adx p signal => max (max (p - 1).toNat (signal - 1).toNat) 1
  | .obv => 1
  | .vwap _ => 1
  | .amorph a => max (Foot.anaWindow a) 1
  | .managed => 1

/-- **the look-back of a tree is a function of the kind's parameters only** – not of the data, not of the
history length, not of the name or the rounding -/
theorem treeLook_eq (k : Kind F) (name : String) (round : Nat) : treeLook k name round = lookback k := by
  cases k <;>
    simp [treeLook, lookback, mkTop, children, Ind.lb_eq, Ind.kind, Ind.subs, Ind.managed, leaf, atrNode,
      stdevNode, kwin, window] <;> omega

/-- HMA: the three WMA windows collapse to the longest one -/
theorem lookback_hma (p : Int) (input : String) : lookback (F := F) (.hma p input) = max (p - 1).toNat 1 := by
  have h := Nat.sqrt_le_self p.toNat
  simp only [lookback, isqrt]
  omega

/-! ### every shipped class -/

section covered
variable (k : Kind F) (name : String) (round : Nat) (hc : CoveredTreeX name k)
include hc

/-- **C07 (b), every class** -/
theorem bounded_footprint_trees (done ch : List (Candle F)) (d : Nat)
    (hfin : CalcFull (mkTop k name round) done) (hp : ∀ c ∈ ch, Plain c)
    (hkeep : d + lookback k ≤ done.length) :
    engineCalc (mkTop k name round) (done.drop d ++ ch)
      = (engineCalc (mkTop k name round) (done ++ ch)).map (·.drop d) :=
  history_length_independence _ (hc.twinOK round) (shallow_mkTop k name round) done ch d hfin hp
    (by have := treeLook_eq k name round; unfold treeLook at this; omega)

/-- **C07 (a), every class**: the new candle is a function of the last `lookback k` finished candles and
the appended candle -/
theorem newest_reading_reads_window_trees (done₁ done₂ : List (Candle F)) (x : Candle F)
    (h₁ : CalcFull (mkTop k name round) done₁) (h₂ : CalcFull (mkTop k name round) done₂) (hp : Plain x)
    (hL₁ : lookback k ≤ done₁.length) (hL₂ : lookback k ≤ done₂.length)
    (hw : done₁.drop (done₁.length - lookback k) = done₂.drop (done₂.length - lookback k)) :
    (engineCalc (mkTop k name round) (done₁ ++ [x])).map List.getLast?
      = (engineCalc (mkTop k name round) (done₂ ++ [x])).map List.getLast? := by
  have e : max 1 (mkTop k name round).lb = lookback k := treeLook_eq k name round
  have T := hc.twinOK round
  rw [e] at T
  exact newest_candle_agrees _ T (shallow_mkTop k name round) done₁ done₂ x h₁ h₂ hp hL₁ hL₂ hw

/-- … as ONE function of `lookback k` candles and the fresh ones, for every history -/
theorem new_candles_window_function_trees :
    ∃ g : List (Candle F) → List (Candle F) → PyM (List (Candle F)),
      ∀ done ch : List (Candle F), CalcFull (mkTop k name round) done → (∀ c ∈ ch, Plain c) →
        lookback k ≤ done.length →
        (done.drop (done.length - lookback k)).length = lookback k ∧
        (engineCalc (mkTop k name round) (done ++ ch)).map (·.drop done.length)
          = g (done.drop (done.length - lookback k)) ch := by
  have e : max 1 (mkTop k name round).lb = lookback k := treeLook_eq k name round
  have T := hc.twinOK round
  rw [e] at T
  exact new_candles_window_function _ T (shallow_mkTop k name round)

/-- **C07 (c), every class** -/
theorem append_one_changes_one_trees (done out : List (Candle F)) (x : Candle F)
    (hfin : CalcFull (mkTop k name round) done) (hp : Plain x)
    (h : engineCalc (mkTop k name round) (done ++ [x]) = .ok out) :
    ∃ x', out = done ++ [x'] ∧ hasKey name x' = true ∧ hasKey name x = false := by
  have := append_one_changes_one _ (hc.twinOK round) done out x hfin hp h
  simpa [mkTop, Ind.name] using this

/-- the state after `calculate()` over raw candles is finished -/
theorem finished_of_engine_trees (raw done : List (Candle F)) (hp : ∀ c ∈ raw, Plain c)
    (h : engineCalc (mkTop k name round) raw = .ok done) : CalcFull (mkTop k name round) done :=
  finished_of_engine _ (hc.twinOK round) raw done hp h

end covered

#print axioms engineCalc_drop
#print axioms history_length_independence
#print axioms new_candles_agree
#print axioms newest_candle_agrees
#print axioms new_candles_ignore_prefix
#print axioms new_candles_window_function
#print axioms append_touches_only_new
#print axioms append_one_changes_one
#print axioms append_history_length_independence
#print axioms append_newest_candle_agrees
#print axioms run_newest_candle_agrees
#print axioms treeLook_eq
#print axioms bounded_footprint_trees
#print axioms newest_reading_reads_window_trees
#print axioms new_candles_window_function_trees
#print axioms append_one_changes_one_trees

end Hex

import HexProofs.Manager2.TwinTreesKinds
/-
C07, bounded footprint for indicator TREES – part 1: the drop law of `_calculate_reading` of every kind
as an EQUATION in `PyM` (errors included).

`TwinTreesKinds.lean` proves the two-sided form (`DRel`: WHEN BOTH sides return, …), which is what the
lifespan twin needs (there the two sides run with different fuels).  The footprint statement wants more: the
reading computed on the popped list IS the reading computed on the full list – the popped run returns exactly
when the full run returns, and raises the same exception otherwise.  `ERel d m' m : m' = m.map (drop d)`.
With helper services that commute with popping as equations (`OpsDropE`), `calcKind` on the shifted context
equals `calcKind` on the full context (`calcKind_dropE`), as soon as one predecessor and the kind's own
look-back `kwin` are retained.
-/
namespace Hex
set_option linter.unusedSectionVars false
set_option linter.unusedSimpArgs false
variable {F : Type} [PyF F]

/-- the trimmed computation IS the untrimmed one with the candles dropped (errors included) -/
def ERel (d : Nat) (m' m : PyM (Val F × List (Candle F))) : Prop :=
  m' = m.map (fun r => (r.1, r.2.drop d))

/-- helper services on the trimmed list vs. on the untrimmed one (lists of length `n`), as equations -/
structure OpsDropE (d n : Nat) (ops' ops : Ops F) : Prop where
  hset : ∀ key v (cs : List (Candle F)), cs.length = n →
    ops'.setManaged key v (cs.drop d) = (ops.setManaged key v cs).map (·.drop d)
  hsetl : ∀ key v (cs b : List (Candle F)), cs.length = n → ops.setManaged key v cs = .ok b → b.length = n
  hcalc : ∀ key (cs : List (Candle F)), cs.length = n →
    ops'.calcManaged key (cs.drop d) = (ops.calcManaged key cs).map (·.drop d)
  hcalcl : ∀ key (cs b : List (Candle F)), cs.length = n → ops.calcManaged key cs = .ok b → b.length = n

namespace ERel
variable {d : Nat}

theorem bind_same {α : Type} (m : PyM α) (f' f : α → PyM (Val F × List (Candle F)))
    (h : ∀ a, m = .ok a → ERel d (f' a) (f a)) : ERel d (m >>= f') (m >>= f) := by
  cases m with
  | error e => rfl
  | ok a => exact h a rfl

theorem bind_list (m' m : PyM (List (Candle F))) (f' f : List (Candle F) → PyM (Val F × List (Candle F)))
    (n : Nat) (hm : m' = m.map (·.drop d)) (hl : ∀ b, m = .ok b → b.length = n)
    (h : ∀ b, b.length = n → ERel d (f' (b.drop d)) (f b)) : ERel d (m' >>= f') (m >>= f) := by
  subst hm
  cases m with
  | error e => rfl
  | ok b => exact h b (hl b rfl)

theorem pure_pair (v : Val F) (cs : List (Candle F)) :
    ERel d (pure (v, cs.drop d)) (pure (v, cs)) := rfl

theorem ite {c : Prop} [Decidable c] {a' b' a b : PyM (Val F × List (Candle F))}
    (ha : c → ERel d a' a) (hb : ¬ c → ERel d b' b) :
    ERel d (if c then a' else b') (if c then a else b) := by
  by_cases hc : c
  · simp only [hc, if_true]; exact ha hc
  · simp only [hc, if_false]; exact hb hc

theorem err {e : PyErr} : ERel d (.error e : PyM (Val F × List (Candle F))) (.error e) := rfl

/-- the equation gives the two-sided relation -/
theorem toDRel {m' m : PyM (Val F × List (Candle F))} (h : ERel d m' m) : DRel d m' m :=
  DRel.of_eq h

end ERel

theorem updateAt_len_ok (cs : List (Candle F)) (i : Int) (g : Candle F → Candle F) :
    ∀ b, updateAt cs i g = .ok b → b.length = cs.length := fun b hb => updateAt_len cs b i g hb

macro "erel_step" hops:ident hd0:ident : tactic => `(tactic| first
  | exact ERel.pure_pair _ _
  | exact ERel.err
  | (refine ERel.bind_list _ _ _ _ _
      (OpsDropE.hset $hops _ _ _ (by first | rfl | assumption))
      (fun b hb => OpsDropE.hsetl $hops _ _ _ b (by first | rfl | assumption) hb) (fun _ _ => ?_)
     try simp only [Ctx.reading_drop_cur _ _ _ _ _ $hd0, Ctx.num_drop_cur _ _ _ _ _ $hd0])
  | (refine ERel.bind_list _ _ _ _ _
      (OpsDropE.hcalc $hops _ _ (by first | rfl | assumption))
      (fun b hb => OpsDropE.hcalcl $hops _ _ b (by first | rfl | assumption) hb) (fun _ _ => ?_)
     try simp only [Ctx.reading_drop_cur _ _ _ _ _ $hd0, Ctx.num_drop_cur _ _ _ _ _ $hd0])
  | refine ERel.bind_same _ _ _ (fun _ _ => ?_)
  | refine ERel.ite (fun _ => ?_) (fun _ => ?_)
  | (split <;> (try dsimp only)))

macro "erel_walk" hops:ident hd0:ident : tactic => `(tactic| repeat' (erel_step $hops $hd0))

section kinds
variable (ops' ops : Ops F) (x : Ctx F) (d : Nat) (hd : (d : Int) + 1 ≤ x.i) (hi : x.i < x.cs.length)
  (hops : OpsDropE d x.cs.length ops' ops)
include hd hi hops

theorem vwap_dropE : ERel d (Calc.vwap ops' (x.shift d)) (Calc.vwap ops x) := by
  unfold Calc.vwap
  have hd0 : (d : Int) ≤ x.i := by omega
  simp only [Ctx.shift_name, Ctx.shift_cs, Ctx.prevExists_shift x d _ hd hi,
    Ctx.num_shift_cur x d _ (by omega : (d : Int) ≤ x.i), Ctx.prevNum_shift x d _ hd hi]
  erel_walk hops hd0

theorem hma_dropE : ERel d (Calc.hma ops' (x.shift d)) (Calc.hma ops x) := by
  unfold Calc.hma
  have hd0 : (d : Int) ≤ x.i := by omega
  simp only [Ctx.shift_name, Ctx.shift_cs, Ctx.shift_i, Ctx.reading_shift_cur x d _ hd0,
    Ctx.num_shift_cur x d _ hd0]
  erel_walk hops hd0

theorem supertrend_dropE (m : Num F) :
    ERel d (Calc.supertrend ops' (x.shift d) m) (Calc.supertrend ops x m) := by
  unfold Calc.supertrend
  have hd0 : (d : Int) ≤ x.i := by omega
  simp only [Ctx.shift_name, Ctx.shift_cs, Ctx.shift_i, Ctx.reading_shift_cur x d _ hd0,
    Ctx.num_shift_cur x d _ hd0, Ctx.prevExists_shift x d _ hd hi, Ctx.prevNum_shift x d _ hd hi,
    Ctx.prevReading_shift x d _ hd hi]
  erel_walk hops hd0

theorem tsi_dropE (input : String) : ERel d (Calc.tsi ops' (x.shift d) input) (Calc.tsi ops x input) := by
  unfold Calc.tsi
  have hd0 : (d : Int) ≤ x.i := by omega
  simp only [Ctx.shift_name, Ctx.shift_cs, Ctx.shift_i, Ctx.reading_shift_cur x d _ hd0,
    Ctx.num_shift_cur x d _ hd0, Ctx.prevNum_shift x d _ hd hi,
    Foot.readingPeriod_shift' x d 2 _ hd0 (by omega)]
  erel_walk hops hd0

theorem macd_dropE : ERel d (Calc.macd ops' (x.shift d)) (Calc.macd ops x) := by
  unfold Calc.macd
  have hd0 : (d : Int) ≤ x.i := by omega
  simp only [Ctx.shift_name, Ctx.shift_cs, Ctx.shift_i, Ctx.reading_shift_cur x d _ hd0,
    Ctx.num_shift_cur x d _ hd0]
  repeat' (first
    | refine ERel.bind_list _ _ _ _ _ (updateAt_drop _ _ _ _ hd0) (updateAt_len_ok _ _ _) (fun _ _ => ?_)
    | erel_step hops hd0)

theorem stdev_dropE (p : Int) (input : String) (hw : (d : Int) + p ≤ x.i) :
    ERel d (Calc.stdev ops' (x.shift d) p input) (Calc.stdev ops x p input) := by
  unfold Calc.stdev
  have hd0 : (d : Int) ≤ x.i := by omega
  have e : x.i - (d : Int) - p = (x.i - p) - d := by omega
  simp only [Ctx.shift_name, Ctx.shift_cs, Ctx.shift_i, e, Ctx.reading_shift_cur x d _ hd0,
    Ctx.num_shift x d _ (x.i - p) (by omega), Ctx.prevExists_shift x d _ hd hi, Ctx.prevNum_shift x d _ hd hi,
    Foot.readingPeriod_shift_at x d (p + 1) _ hd0 (by omega)]
  erel_walk hops hd0

theorem adx_dropE : ERel d (Calc.adx ops' (x.shift d)) (Calc.adx ops x) := by
  unfold Calc.adx
  have hd0 : (d : Int) ≤ x.i := by omega
  have e1 : (x.i - (d : Int) > 0) = True := eq_true (by omega)
  have e2 : (x.i > 0) = True := eq_true (by omega)
  have e : x.i - (d : Int) - 1 = (x.i - 1) - d := by omega
  simp only [Ctx.shift_name, Ctx.shift_cs, Ctx.shift_i, e1, e2, e, decide_true, Bool.not_true,
    Bool.false_eq_true, if_false, Ctx.num_shift_cur x d _ hd0,
    Ctx.num_shift x d _ (x.i - 1) (by omega)]
  erel_walk hops hd0

theorem stoch_dropE (p : Int) (input : String) (hw : (d : Int) + p ≤ x.i + 1) :
    ERel d (Calc.stoch ops' (x.shift d) p input) (Calc.stoch ops x p input) := by
  unfold Calc.stoch
  have hd0 : (d : Int) ≤ x.i := by omega
  have e1 : x.i - (d : Int) - (p - 1) = (x.i - (p - 1)) - d := by omega
  have e2 : x.i - (d : Int) + 1 = (x.i + 1) - d := by omega
  have hm : ∀ (nm : String), List.mapM (fun i => (x.shift d).num nm (some i))
        (List.map (fun j => j - (d : Int)) (pyRange (x.i - (p - 1)) (x.i + 1)))
      = List.mapM (fun i => x.num nm (some i)) (pyRange (x.i - (p - 1)) (x.i + 1)) := by
    intro nm
    apply Foot.mapM_shift
    intro j hj
    have := (Ana.mem_pyRange _ _ _).1 hj
    exact Ctx.num_shift x d nm j (by omega)
  simp only [Ctx.shift_name, Ctx.shift_cs, Ctx.shift_i, e1, e2, Ctx.num_shift_cur x d _ hd0,
    Foot.readingPeriod_shift' x d p _ hd0 hw, Foot.pyRange_sub, hm]
  erel_walk hops hd0

theorem rsi_dropE (p : Int) (input : String) (hw : (d : Int) + p ≤ x.i) :
    ERel d (Calc.rsi ops' (x.shift d) p input) (Calc.rsi ops x p input) := by
  unfold Calc.rsi
  have hd0 : (d : Int) ≤ x.i := by omega
  have e1 : x.i - (d : Int) - (p - 1) = (x.i - (p - 1)) - d := by omega
  have e2 : x.i - (d : Int) + 1 = (x.i + 1) - d := by omega
  have hm : List.mapM (fun i => do
          let a ← (x.shift d).num input (some i)
          let b ← (x.shift d).num input (some (i - 1))
          pure (a.sub b))
        (List.map (fun j => j - (d : Int)) (pyRange (x.i - (p - 1)) (x.i + 1)))
      = List.mapM (fun i => do
          let a ← x.num input (some i)
          let b ← x.num input (some (i - 1))
          pure (a.sub b)) (pyRange (x.i - (p - 1)) (x.i + 1)) := by
    apply Foot.mapM_shift
    intro j hj
    have := (Ana.mem_pyRange _ _ _).1 hj
    rw [Ctx.num_shift x d input j (by omega), show j - (d : Int) - 1 = (j - 1) - d by omega,
      Ctx.num_shift x d input (j - 1) (by omega)]
  simp only [Ctx.shift_name, Ctx.shift_cs, Ctx.shift_i, e1, e2, Ctx.num_shift_cur x d _ hd0,
    Ctx.prevExists_shift x d _ hd hi, Ctx.prevNum_shift x d _ hd hi,
    Foot.readingPeriod_shift' x d (p + 1) _ hd0 (by omega), Foot.pyRange_sub, hm,
    Ctx.reading_drop_cur _ _ _ _ _ hd0, Ctx.num_drop_cur _ _ _ _ _ hd0]
  erel_walk hops hd0

end kinds

/-- **Drop law of `_calculate_reading`, every kind, as an equation**: with helper services that commute
with popping `d` candles, the computation at index `i - d` of the popped list IS the computation at `i` of
the full list (same reading or same exception; the returned candles are the popped ones) – as soon as the
kind's own look-back (and one predecessor) is retained. -/
theorem calcKind_dropE (ops' ops : Ops F) (ind : Ind F) (x : Ctx F) (d : Nat)
    (hd : (d : Int) + 1 ≤ x.i) (hi : x.i < x.cs.length) (hw : (d : Int) + kwin ind.kind ≤ x.i)
    (hnm : x.name = ind.name)
    (hops : OpsDropE d x.cs.length ops' ops) :
    ERel d (calcKind ops' ind (x.shift d)) (calcKind ops ind x) := by
  by_cases hro : ind.kind.readOnly = true
  · obtain ⟨W, hW⟩ : ∃ W, window ind.kind = some W := by
      have := window_isSome_iff ind.kind
      rw [hro] at this
      exact Option.isSome_iff_exists.1 this
    have hk : kwin ind.kind = W := by
      cases hq : ind.kind <;> rw [hq] at hW hro <;> first | (cases hro; done) | (simp [kwin, hW] at *)
    obtain ⟨cs, i, nm⟩ := x
    simp only at hnm; subst hnm
    exact footprint_calcKind ops ops' ind W hW cs i d (by rw [hk] at hw; simpa using hw) hi
  · unfold calcKind
    cases hq : ind.kind <;> rw [hq] at hro hw <;> first
      | (exfalso; exact hro rfl)
      | skip
    all_goals simp only [kwin] at hw
    · exact hma_dropE ops' ops x d hd hi hops
    · exact stdev_dropE ops' ops x d hd hi hops _ _ (by omega)
    · exact supertrend_dropE ops' ops x d hd hi hops _
    · exact rsi_dropE ops' ops x d hd hi hops _ _ (by omega)
    · exact macd_dropE ops' ops x d hd hi hops
    · exact stoch_dropE ops' ops x d hd hi hops _ _ (by omega)
    · exact tsi_dropE ops' ops x d hd hi hops _
    · exact adx_dropE ops' ops x d hd hi hops
    · exact vwap_dropE ops' ops x d hd hi hops

#print axioms calcKind_dropE

end Hex

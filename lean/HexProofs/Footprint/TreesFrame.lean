import HexProofs.Manager2.TwinTreesEngine
/-
C07, bounded footprint for indicator TREES – part 4: an append touches ONLY the new candles.

`Keeps lo cs cs'`: the first `lo` candles are the same (as full candles: OHLCV, stamp, every stored
entry).  `engineFrame`: `_calculate_reading(i)`, `Managed.set_reading`, `calculate_index(s, e)` and the
sub-indicator passes keep every candle before the index they work at; `calculate()` keeps every candle
before the first fresh one (`KeySplit n m` for the `calculate()`-reached nodes) – for every tree and every
fuel, by the induction of the writes-only theorem (`engineLocal`) with positions in place of names.
-/
namespace Hex
set_option linter.unusedSectionVars false
set_option linter.unusedSimpArgs false
variable {F : Type} [PyF F]

/-- the first `lo` candles are untouched -/
def Keeps (lo : Nat) (cs cs' : List (Candle F)) : Prop := cs'.take lo = cs.take lo

theorem Keeps.refl (lo : Nat) (cs : List (Candle F)) : Keeps lo cs cs := rfl
theorem Keeps.trans {lo : Nat} {a b c : List (Candle F)} (h1 : Keeps lo a b) (h2 : Keeps lo b c) :
    Keeps lo a c := by unfold Keeps at *; rw [h2, h1]
theorem Keeps.zero (cs cs' : List (Candle F)) : Keeps 0 cs cs' := by simp [Keeps]
theorem Keeps.mono {lo lo' : Nat} {a b : List (Candle F)} (h : Keeps lo a b) (hl : lo' ≤ lo) :
    Keeps lo' a b := by
  unfold Keeps at *
  have := congrArg (List.take lo') h
  simpa [List.take_take, Nat.min_eq_left hl] using this

theorem keeps_modify (cs : List (Candle F)) (j lo : Nat) (h : lo ≤ j) (g : Candle F → Candle F) :
    Keeps lo cs (cs.modify j g) := by
  unfold Keeps
  apply List.ext_getElem?
  intro k
  simp only [List.getElem?_take]
  split
  · rw [List.getElem?_modify]
    have : j ≠ k := by omega
    simp [this]
  · rfl

theorem updateAt_keeps (cs cs' : List (Candle F)) (i : Int) (lo : Nat) (g : Candle F → Candle F)
    (hlo : (lo : Int) ≤ i) (h : updateAt cs i g = .ok cs') : Keeps lo cs cs' := by
  unfold updateAt at h
  have h0 : ¬ i < 0 := by omega
  simp only [h0, if_false, false_or] at h
  by_cases hc : i ≥ cs.length
  · rw [if_pos hc] at h; cases h
  · rw [if_neg hc] at h; cases h
    exact keeps_modify cs _ lo (by omega) g

theorem setReading_keeps (isSub : Bool) (n : String) (cs cs' : List (Candle F)) (i : Int) (lo : Nat)
    (v : Val F) (hlo : (lo : Int) ≤ i) (h : setReading isSub n cs i v = .ok cs') : Keeps lo cs cs' := by
  rw [setReading_eq] at h
  exact updateAt_keeps cs cs' i lo _ hlo h

/-! ### the kinds -/

/-- the services keep the first `lo` candles -/
structure OpsP (lo : Nat) (ops : Ops F) : Prop where
  hset : ∀ key v cs cs', ops.setManaged key v cs = .ok cs' → Keeps lo cs cs'
  hcalc : ∀ key cs cs', ops.calcManaged key cs = .ok cs' → Keeps lo cs cs'

def TracksP (lo : Nat) (cs0 : List (Candle F)) (m : PyM (Val F × List (Candle F))) : Prop :=
  ∀ v cs', m = .ok (v, cs') → Keeps lo cs0 cs'

namespace TracksP
variable {lo : Nat} {cs0 : List (Candle F)}

theorem pure' {v : Val F} {cs : List (Candle F)} (h : Keeps lo cs0 cs) : TracksP lo cs0 (pure (v, cs)) := by
  intro v' cs' e; cases e; exact h

theorem bind {α : Type} (m : PyM α) (f : α → PyM (Val F × List (Candle F)))
    (hf : ∀ a, TracksP lo cs0 (f a)) : TracksP lo cs0 (m >>= f) := by
  intro v cs' e
  cases m with
  | error err => cases e
  | ok a => exact hf a v cs' e

theorem bindW (m : PyM (List (Candle F))) (f : List (Candle F) → PyM (Val F × List (Candle F)))
    (hm : ∀ a, m = .ok a → Keeps lo cs0 a)
    (hf : ∀ a, Keeps lo cs0 a → TracksP lo cs0 (f a)) : TracksP lo cs0 (m >>= f) := by
  intro v cs' e
  cases m with
  | error err => cases e
  | ok a => exact hf a (hm a rfl) v cs' e

theorem ite {c : Prop} [Decidable c] {a b : PyM (Val F × List (Candle F))}
    (ha : TracksP lo cs0 a) (hb : TracksP lo cs0 b) : TracksP lo cs0 (if c then a else b) := by
  split <;> assumption

theorem error {e : PyErr} : TracksP lo cs0 (Except.error e : PyM (Val F × List (Candle F))) := by
  intro v cs' h; cases h

end TracksP

theorem OpsP.setW {lo : Nat} {ops : Ops F} (hops : OpsP lo ops) {cs0 cs : List (Candle F)}
    (h : Keeps lo cs0 cs) (key : String) (v : Val F) :
    ∀ a, ops.setManaged key v cs = .ok a → Keeps lo cs0 a :=
  fun a e => h.trans (hops.hset key v cs a e)

theorem OpsP.calcW {lo : Nat} {ops : Ops F} (hops : OpsP lo ops) {cs0 cs : List (Candle F)}
    (h : Keeps lo cs0 cs) (key : String) : ∀ a, ops.calcManaged key cs = .ok a → Keeps lo cs0 a :=
  fun a e => h.trans (hops.hcalc key cs a e)

theorem updateAt_W {lo : Nat} {cs0 cs : List (Candle F)} (h : Keeps lo cs0 cs) (i : Int)
    (hlo : (lo : Int) ≤ i) (g : Candle F → Candle F) :
    ∀ a, updateAt cs i g = .ok a → Keeps lo cs0 a :=
  fun a e => h.trans (updateAt_keeps cs a i lo g hlo e)

macro "ptrack_step" hops:ident : tactic => `(tactic| first
  | exact TracksP.error
  | (apply TracksP.pure'; assumption)
  | (refine TracksP.bindW _ _ (OpsP.setW $hops (by assumption) _ _) (fun _ _ => ?_))
  | (refine TracksP.bindW _ _ (OpsP.calcW $hops (by assumption) _) (fun _ _ => ?_))
  | (refine TracksP.bind _ _ (fun _ => ?_))
  | (refine TracksP.ite ?_ ?_)
  | (split))

macro "ptrack_all" hops:ident : tactic => `(tactic| (
  repeat (first | ptrack_step $hops | (dsimp only; ptrack_step $hops))))

section kinds
variable {lo : Nat} {ops : Ops F} (hops : OpsP lo ops) (x : Ctx F)
include hops

theorem Calc.hma_tracksP : TracksP lo x.cs (Calc.hma ops x) := by
  unfold Calc.hma
  have h0 := Keeps.refl lo x.cs
  ptrack_all hops

theorem Calc.stdev_tracksP (p : Int) (input : String) : TracksP lo x.cs (Calc.stdev ops x p input) := by
  unfold Calc.stdev
  have h0 := Keeps.refl lo x.cs
  ptrack_all hops

theorem Calc.supertrend_tracksP (m : Num F) : TracksP lo x.cs (Calc.supertrend ops x m) := by
  unfold Calc.supertrend
  have h0 := Keeps.refl lo x.cs
  ptrack_all hops

theorem Calc.rsi_tracksP (p : Int) (input : String) : TracksP lo x.cs (Calc.rsi ops x p input) := by
  unfold Calc.rsi
  have h0 := Keeps.refl lo x.cs
  ptrack_all hops

theorem Calc.stoch_tracksP (p : Int) (input : String) : TracksP lo x.cs (Calc.stoch ops x p input) := by
  unfold Calc.stoch
  have h0 := Keeps.refl lo x.cs
  ptrack_all hops

theorem Calc.vwap_tracksP : TracksP lo x.cs (Calc.vwap ops x) := by
  unfold Calc.vwap
  have h0 := Keeps.refl lo x.cs
  ptrack_all hops

theorem Calc.tsi_tracksP (input : String) : TracksP lo x.cs (Calc.tsi ops x input) := by
  unfold Calc.tsi
  have h0 := Keeps.refl lo x.cs
  ptrack_all hops

theorem Calc.adx_tracksP : TracksP lo x.cs (Calc.adx ops x) := by
  unfold Calc.adx
  have h0 := Keeps.refl lo x.cs
  ptrack_all hops

/-- MACD additionally inserts a temporary reading AT ITS OWN INDEX -/
theorem Calc.macd_tracksP (hlo : (lo : Int) ≤ x.i) : TracksP lo x.cs (Calc.macd ops x) := by
  unfold Calc.macd
  have h0 := Keeps.refl lo x.cs
  repeat (first
    | (refine TracksP.bindW (updateAt _ _ _) _ (updateAt_W (by assumption) _ hlo _) (fun _ _ => ?_))
    | ptrack_step hops)

end kinds

/-- **`_calculate_reading(i)` of every kind keeps every candle before `i`** (given services that do) -/
theorem calcKind_keeps {lo : Nat} {ops : Ops F} (hops : OpsP lo ops) (ind : Ind F) (x : Ctx F)
    (hlo : (lo : Int) ≤ x.i) (v : Val F) (cs' : List (Candle F)) (h : calcKind ops ind x = .ok (v, cs')) :
    Keeps lo x.cs cs' := by
  revert v cs'
  show TracksP lo x.cs (calcKind ops ind x)
  unfold calcKind
  dsimp only
  split
  all_goals first
    | exact Calc.hma_tracksP hops x
    | exact Calc.stdev_tracksP hops x _ _
    | exact Calc.supertrend_tracksP hops x _
    | exact Calc.rsi_tracksP hops x _ _
    | exact Calc.macd_tracksP hops x hlo
    | exact Calc.stoch_tracksP hops x _ _
    | exact Calc.tsi_tracksP hops x _
    | exact Calc.adx_tracksP hops x
    | exact Calc.vwap_tracksP hops x
    | (intro v cs' e
       obtain ⟨a, _, e⟩ := Writes.bind_ok e
       cases e; exact Keeps.refl _ _)
    | (intro v cs' e; cases e; exact Keeps.refl _ _)

/-! ### the engine -/

theorem foldlM_keeps {α : Type} {lo : Nat} (step : List (Candle F) → α → PyM (List (Candle F))) :
    ∀ (l : List α) (cs cs' : List (Candle F)),
      (∀ cs, ∀ a ∈ l, ∀ cs', step cs a = .ok cs' → Keeps lo cs cs') →
      l.foldlM step cs = .ok cs' → Keeps lo cs cs' := by
  intro l
  induction l with
  | nil => intro cs cs' _ h; simp [List.foldlM, pure, Except.pure] at h; subst h; exact Keeps.refl _ _
  | cons a r ih =>
    intro cs cs' hstep h
    rw [List.foldlM_cons] at h
    obtain ⟨cs1, h1, h2⟩ := Writes.bind_ok h
    exact (hstep cs a (by simp) cs1 h1).trans (ih cs1 cs' (fun cs b hb => hstep cs b (by simp [hb])) h2)

/-- the statements proved together by induction on the fuel -/
structure EngineFrame (f : Nat) : Prop where
  calcReading : ∀ (ind : Ind F) cs (i : Int) v cs' (lo : Nat), (lo : Int) ≤ i →
    calcReading f ind cs i = .ok (v, cs') → Keeps lo cs cs'
  setManagedReading : ∀ (m : Ind F) cs (i : Int) v cs' (lo : Nat), (lo : Int) ≤ i →
    setManagedReading f m cs i v = .ok cs' → Keeps lo cs cs'
  calculateIndex : ∀ (ind : Ind F) cs (s e : Int) cs' (lo : Nat), (lo : Int) ≤ s → s < e →
    calculateIndex f ind cs s e = .ok cs' → Keeps lo cs cs'
  calcSubsIdx : ∀ (subs : List (Ind F)) prior cs (s e : Int) cs' (lo : Nat), (lo : Int) ≤ s → s < e →
    calcSubs f subs prior (some (s, e)) cs = .ok cs' → Keeps lo cs cs'
  calcLoop : ∀ (ind : Ind F) cs (k n : Nat) cs' (lo : Nat), lo ≤ k →
    calcLoop f ind cs k n = .ok cs' → Keeps lo cs cs'
  calculate : ∀ (ind : Ind F) (cs : List (Candle F)) (m : Nat) cs', ind.allPrior = true →
    ind.allNames.Nodup → m ≤ cs.length → (∀ n ∈ ind.calcNames, KeySplit n m cs) →
    calculate f ind cs = .ok cs' → Keeps m cs cs'
  calcSubsNone : ∀ (subs : List (Ind F)) (cs : List (Candle F)) (m : Nat) cs', Ind.allPriorL subs = true →
    (Ind.allNamesL subs).Nodup → m ≤ cs.length → (∀ n ∈ Ind.calcNamesL subs, KeySplit n m cs) →
    calcSubs f subs true none cs = .ok cs' → Keeps m cs cs'

theorem readSet_keeps {f : Nat} (ih : EngineFrame (F := F) f) (ind : Ind F) (cs cs' : List (Candle F))
    (i : Int) (lo : Nat) (hlo : (lo : Int) ≤ i) (h : readSet f ind cs i = .ok cs') : Keeps lo cs cs' := by
  unfold readSet at h
  obtain ⟨⟨v, cs1⟩, h1, h2⟩ := Writes.bind_ok h
  exact (ih.calcReading ind cs i v cs1 lo hlo h1).trans (setReading_keeps _ _ _ _ _ _ _ hlo h2)

theorem engineFrame : ∀ f : Nat, EngineFrame (F := F) f := by
  intro f
  induction f with
  | zero =>
    refine ⟨?_, ?_, ?_, ?_, ?_, ?_, ?_⟩
    · intro ind cs i v cs' lo _ h; simp [Hex.calcReading] at h
    · intro m cs i v cs' lo _ h; simp [Hex.setManagedReading] at h
    · intro ind cs s e cs' lo _ _ h; simp [Hex.calculateIndex] at h
    · intro subs prior cs s e cs' lo _ _ h; simp [Hex.calcSubs] at h
    · intro ind cs k n cs' lo _ h; simp [Hex.calcLoop] at h
    · intro ind cs m cs' _ _ _ _ h; simp [Hex.calculate] at h
    · intro subs cs m cs' _ _ _ _ h; simp [Hex.calcSubs] at h
  | succ g ih =>
    refine ⟨?_, ?_, ?_, ?_, ?_, ?_, ?_⟩
    · -- calcReading
      intro ind cs i v cs' lo hlo h
      rw [Hex.calcReading] at h
      refine calcKind_keeps (lo := lo) ⟨?_, ?_⟩ ind _ hlo v cs' h
      · intro key v cs cs' hh
        obtain ⟨m, hm, hh⟩ := Writes.bind_ok hh
        exact ih.setManagedReading m cs i v cs' lo hlo hh
      · intro key cs cs' hh
        obtain ⟨m, hm, hh⟩ := Writes.bind_ok hh
        exact ih.calculateIndex m cs i (i + 1) cs' lo hlo (by omega) hh
    · -- setManagedReading
      intro m cs i v cs' lo hlo h
      rw [setManagedReading_succ] at h
      obtain ⟨cs1, h1, h⟩ := Writes.bind_ok h
      obtain ⟨cs2, h2, h3⟩ := Writes.bind_ok h
      exact ((ih.calcSubsIdx _ _ _ _ _ _ lo hlo (by omega) h1).trans
        (setReading_keeps _ _ _ _ _ _ _ hlo h2)).trans (ih.calcSubsIdx _ _ _ _ _ _ lo hlo (by omega) h3)
    · -- calculateIndex
      intro ind cs s e cs' lo hlo hse h
      rw [calculateIndex_succ] at h
      obtain ⟨cs1, h1, h⟩ := Writes.bind_ok h
      obtain ⟨cs2, h2, h3⟩ := Writes.bind_ok h
      refine ((ih.calcSubsIdx _ _ _ _ _ _ lo hlo hse h1).trans ?_).trans
        (ih.calcSubsIdx _ _ _ _ _ _ lo hlo hse h3)
      refine foldlM_keeps _ _ _ _ (fun cs j hj cs' hh => ?_) h2
      have := (Ana.mem_pyRange _ _ _).1 hj
      exact readSet_keeps ih ind cs cs' j lo (by omega) hh
    · -- calcSubs with an index range
      intro subs prior cs s e cs' lo hlo hse h
      cases subs with
      | nil => rw [calcSubs_nil'] at h; cases h; exact Keeps.refl _ _
      | cons x rest =>
        rw [calcSubs_cons_range] at h
        obtain ⟨cs1, h1, h2⟩ := Writes.bind_ok h
        refine Keeps.trans ?_ (ih.calcSubsIdx rest prior cs1 s e cs' lo hlo hse h2)
        by_cases hp : (x.priorCalc == prior) = true
        · simp only [hp, if_true] at h1
          by_cases hz : (s != 0 && e != 0) = true
          · simp only [hz, if_true] at h1
            exact ih.calculateIndex x cs s e cs1 lo hlo hse h1
          · -- index 0: the sub-indicator falls back to a whole `calculate()`; nothing lies before index 0
            have hs0 : s = 0 := by
              simp only [bne_iff_ne, ne_eq, Bool.and_eq_true, decide_eq_true_eq, not_and_or, not_not] at hz
              omega
            have : lo = 0 := by omega
            subst this
            exact Keeps.zero _ _
        · simp only [hp, if_false, pure, Except.pure] at h1
          cases h1; exact Keeps.refl _ _
    · -- calcLoop
      intro ind cs k n cs' lo hlo h
      cases n with
      | zero => rw [calcLoop_zero'] at h; cases h; exact Keeps.refl _ _
      | succ n =>
        rw [calcLoop_succ'] at h
        obtain ⟨c, _, h⟩ := Writes.bind_ok h
        obtain ⟨cs1, h1, h2⟩ := Writes.bind_ok h
        refine Keeps.trans ?_ (ih.calcLoop ind cs1 (k + 1) n cs' lo (by omega) h2)
        by_cases hp : present ind.name c = true
        · simp only [hp, if_true, pure, Except.pure] at h1; cases h1; exact Keeps.refl _ _
        · simp only [hp, if_false] at h1
          exact readSet_keeps ih ind cs cs1 k lo (by omega) h1
    · -- calculate
      intro ind cs m cs' hap hnd hm hsplit h
      rw [calculate_succ] at h
      obtain ⟨cs1, h1, h⟩ := Writes.bind_ok h
      obtain ⟨cs2, h2, h3⟩ := Writes.bind_ok h
      obtain ⟨hn1, hn2⟩ := ind.nodup_parts hnd
      have hapL : Ind.allPriorL ind.subs = true := by rw [← Ind.allPrior_eq]; exact hap
      have hb : cs' = cs2 := calcSubs_false_none g ind.subs cs2 cs' hapL h3
      subst hb
      have hsub : ∀ n ∈ Ind.calcNamesL ind.subs, KeySplit n m cs := fun n hn =>
        hsplit n (by rw [Ind.calcNames_eq]; exact List.mem_cons_of_mem _ hn)
      have hk1 := ih.calcSubsNone ind.subs cs m cs1 hapL hn2 hm hsub h1
      have hst1 := calcSubs_stripEq g ind.subs true none cs cs1 h1
      have hl1 : cs.length = cs1.length := hst1.length_eq
      have hs1 : KeySplit ind.name m cs1 :=
        (hsplit ind.name (by rw [Ind.calcNames_eq]; simp)).agree hst1.agreeOff hn1
      rw [hs1.findCalcIndex (by omega)] at h2
      exact hk1.trans (ih.calcLoop ind cs1 m (cs1.length - m) cs' m (Nat.le_refl _) h2)
    · -- calcSubs of a whole `calculate()`
      intro subs cs m cs' hap hnd hm hsplit h
      cases subs with
      | nil => rw [calcSubs_nil'] at h; cases h; exact Keeps.refl _ _
      | cons x rest =>
        rw [Ind.allPriorL_cons] at hap
        simp only [Bool.and_eq_true] at hap
        obtain ⟨hs1, hs2, hs3⟩ := Ind.nodupL_parts x rest hnd
        rw [calcSubs_cons_none] at h
        have : (x.priorCalc == true) = true := by rw [hap.1.1]; rfl
        simp only [this, if_true] at h
        obtain ⟨cs1, h1, h2⟩ := Writes.bind_ok h
        have hst1 := calculate_stripEq g x cs cs1 h1
        have hk1 := ih.calculate x cs m cs1 hap.1.2 hs1 hm
          (fun n hn => hsplit n (by rw [Ind.calcNamesL_cons]; exact List.mem_append_left _ hn)) h1
        have hsr : ∀ n ∈ Ind.calcNamesL rest, KeySplit n m cs1 := fun n hn =>
          (hsplit n (by rw [Ind.calcNamesL_cons]; exact List.mem_append_right _ hn)).agree hst1.agreeOff
            (hs3 n (Ind.calcNamesL_sub rest n hn))
        exact hk1.trans (ih.calcSubsNone rest cs1 m cs' hap.2 hs2 (by rw [← hst1.length_eq]; exact hm) hsr h2)

#print axioms engineFrame

end Hex

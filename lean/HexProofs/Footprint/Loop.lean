import HexProofs.Footprint.Kinds
import HexProofs.Manager2.ShiftLoop
/-
From the bounded footprint of one reading (`footprint`, HexProofs/Footprint/Kinds.lean) to the
calculation loop: `calculate()` on `finished candles ++ new raw candles` with the first `d` candles
popped computes the same readings as on the untrimmed list, provided the look-back window `W` of
the kind – and at least one finished candle, for `_find_calc_index` – survives the pop.

This is `leafLoop_drop` / `leafCalc_drop` / `append_trimmed` of HexProofs/Manager2/ShiftLoop.lean
with the ONE retained predecessor replaced by the `W` retained predecessors of `window`, and
without a state condition (`footprint` needs none): it covers every read-only leaf kind – SMA,
EMA / RMA unseeded, WMA, VWMA, ROC, HighestLowest, Donchian, Aroon and `Amorph` included.
-/
namespace Hex
set_option linter.unusedSectionVars false
variable {F : Type} [PyF F]

/-- **The calculation loop commutes with popping `d` leading candles**, from an index `k` whose
`W` predecessors are retained, over raw candles -/
theorem leafLoop_drop_window (ind : Ind F) (W : Nat) (hw : window ind.kind = some W) (d : Nat) :
    ∀ (n : Nat) (cs : List (Candle F)) (k : Nat), d + W ≤ k → k + n = cs.length →
      (∀ j c, k ≤ j → cs[j]? = some c → Plain c) →
      leafLoop ind (cs.drop d) (k - d) n = (leafLoop ind cs k n).map (·.drop d) := by
  intro n
  induction n with
  | zero => intro cs k _ _ _; rfl
  | succ n ih =>
    intro cs k hd hlen hplain
    have hk : k < cs.length := by omega
    obtain ⟨c, hc⟩ : ∃ c, cs[k]? = some c := ⟨cs[k], List.getElem?_eq_getElem hk⟩
    have hcp : Plain c := hplain k c (le_refl k) hc
    have hcast : (((k - d : Nat)) : Int) = (k : Int) - d := by omega
    have hkd : k - d < (cs.drop d).length := by rw [List.length_drop]; omega
    rw [leafLoop, leafLoop]
    have hidx : pyIndex (cs.drop d) ((k - d : Nat) : Int) = .ok c := by
      rw [hcast, pyIndex_drop cs d k (by omega)]; exact pyIndex_nat cs k c hc
    rw [hidx, pyIndex_nat cs k c hc]
    simp only [bind, Except.bind, present_plain ind.name c hcp, Bool.false_eq_true, if_false]
    rw [stepLeaf_nat ind _ _ hkd, stepLeaf_nat ind cs k hk, hcast,
      ← footprint ind.kind W hw cs (k : Int) ind.name d (by omega) (by omega)]
    cases hv : readKind ind.kind { cs := cs, i := (k : Int), name := ind.name } with
    | error e => rfl
    | ok v =>
      simp only [bind, Except.bind, pure, Except.pure]
      have hmod : (cs.drop d).modify (k - d) (setKey ind.isSub ind.name (v.roundBy ind.round))
          = (cs.modify k (setKey ind.isSub ind.name (v.roundBy ind.round))).drop d :=
        (List.drop_modify_of_ge _ k d cs (by omega)).symm
      rw [hmod]
      have := ih (cs.modify k (setKey ind.isSub ind.name (v.roundBy ind.round))) (k + 1) (by omega)
        (by rw [List.length_modify]; omega)
        (by
          intro j c' hj hc'
          rw [List.getElem?_modify] at hc'
          have hne : ¬ k = j := by omega
          simp only [hne, if_false] at hc'
          cases hq : cs[j]? with
          | none => rw [hq] at hc'; cases hc'
          | some q =>
            rw [hq] at hc'
            have : q = c' := by simpa using hc'
            subst this
            exact hplain j q (by omega) hq)
      rw [show k + 1 - d = k - d + 1 by omega] at this
      exact this

/-- **`calculate()` commutes with popping `d` leading candles** when `max W 1` finished candles
survive: `_find_calc_index` resumes at the first raw candle on both sides, and every raw candle has
its whole look-back window -/
theorem leafCalc_drop_window (ind : Ind F) (W : Nat) (hw : window ind.kind = some W)
    (a new : List (Candle F)) (d : Nat)
    (hfin : ∀ c ∈ a, hasKey ind.name c = true) (hnew : ∀ c ∈ new, Plain c)
    (hkeep1 : d + 1 ≤ a.length) (hkeepW : d + W ≤ a.length) :
    leafCalc ind ((a ++ new).drop d) = (leafCalc ind (a ++ new)).map (·.drop d) := by
  have hfresh : ∀ c ∈ new, hasKey ind.name c = false := fun c hc => hasKey_plain ind.name c (hnew c hc)
  have hdrop : (a ++ new).drop d = a.drop d ++ new := List.drop_append_of_le_length (by omega)
  have hfinD : ∀ c ∈ a.drop d, hasKey ind.name c = true := fun c hc => hfin c (List.mem_of_mem_drop hc)
  have hidxA := findCalcIndex_split ind.name a new hfin hfresh
  have hidxB := findCalcIndex_split ind.name (a.drop d) new hfinD hfresh
  unfold leafCalc
  rw [hdrop, hidxA, hidxB, ← hdrop]
  have e1 : ((a ++ new).drop d).length - (a.drop d).length = new.length := by
    simp only [List.length_drop, List.length_append]; omega
  have e2 : (a ++ new).length - a.length = new.length := by simp
  rw [e1, e2, List.length_drop]
  refine leafLoop_drop_window ind W hw d new.length (a ++ new) a.length (by omega) (by simp) ?_
  intro j c hj hc
  rw [List.getElem?_append_right hj] at hc
  exact hnew c (List.mem_of_getElem? hc)

/-- what must survive the pop: nothing was popped, or `max W 1` finished candles are retained -/
def KeepW (W : Nat) (a : List (Candle F)) (d : Nat) : Prop := d = 0 ∨ (d + 1 ≤ a.length ∧ d + W ≤ a.length)

theorem leafCalc_drop_keepW (ind : Ind F) (W : Nat) (hw : window ind.kind = some W)
    (a new : List (Candle F)) (d : Nat)
    (hfin : ∀ c ∈ a, hasKey ind.name c = true) (hnew : ∀ c ∈ new, Plain c) (hkeep : KeepW W a d) :
    leafCalc ind ((a ++ new).drop d) = (leafCalc ind (a ++ new)).map (·.drop d) := by
  rcases hkeep with h0 | ⟨h1, h2⟩
  · subst h0
    simp only [List.drop_zero]
    cases leafCalc ind (a ++ new) <;> simp [Except.map]
  · exact leafCalc_drop_window ind W hw a new d hfin hnew h1 h2

/-- **One `append` on a lifespan-trimmed indicator, any read-only leaf kind.**  `a` is the finished
candle list of the untrimmed twin, the trimmed indicator holds `a.drop d₀`.  If, after `append new`,
the trim leaves at least `max W 1` of the already finished candles (`r` = the trimmed list), then
the trimmed indicator ends with exactly the candles of the untrimmed twin minus the popped ones –
same readings, same exception if a reading raises. -/
theorem append_trimmed_window (ind : Ind F) (hl : IsLeaf ind) (W : Nat) (hw : window ind.kind = some W)
    (life : Int) (a new r : List (Candle F)) (d₀ : Nat) (actA actB : Int) (hd₀ : d₀ ≤ a.length)
    (hfin : ∀ c ∈ a, hasKey ind.name c = true) (hnew : ∀ c ∈ new, Plain c) (hne : new ≠ [])
    (htrim : trimCandles (some life) (a.drop d₀ ++ new) = .ok r)
    (hkeep : KeepW W a (a.length + new.length - r.length)) :
    candlesOf (IndState.append ({ tree := ind, mgr := { cfg := cfgLifeOnly life, candles := a.drop d₀ }, active := actB } : IndState F) new)
      = (candlesOf (IndState.append ({ tree := ind, mgr := { cfg := {}, candles := a }, active := actA } : IndState F)
          new)).map (·.drop (a.length + new.length - r.length)) := by
  obtain ⟨m, hr, hm⟩ := trim_is_drop _ _ _ htrim
  have hab : a.drop d₀ ++ new = (a ++ new).drop d₀ := (List.drop_append_of_le_length hd₀).symm
  have hr' : r = (a ++ new).drop (d₀ + m) := by rw [hr, hab, List.drop_drop]
  have hrl : r.length = a.length + new.length - (d₀ + m) := by rw [hr']; simp
  have hml : m ≤ (a.drop d₀ ++ new).length := hm
  rw [List.length_append, List.length_drop] at hml
  have hd : a.length + new.length - r.length = d₀ + m := by omega
  rw [hd] at hkeep
  have hempty : new.isEmpty = false := by cases new <;> simp at hne ⊢
  have hA : IndState.append ({ tree := ind, mgr := { cfg := {}, candles := a }, active := actA } : IndState F) new
      = IndState.calculate { tree := ind, mgr := { cfg := {}, candles := a ++ new }, active := actA } := by
    unfold IndState.append
    simp only [Manager.append_default, bind, Except.bind]
  have hB : IndState.append ({ tree := ind, mgr := { cfg := cfgLifeOnly life, candles := a.drop d₀ }, active := actB } : IndState F) new
      = IndState.calculate { tree := ind, mgr := { cfg := cfgLifeOnly life, candles := r }, active := actB } := by
    unfold IndState.append Manager.append
    simp only [hempty, Bool.false_eq_true, if_false, tasks_lifeOnly, htrim, bind, Except.bind]
    rfl
  rw [hA, hB, IndState.calculate_leaf _ hl, IndState.calculate_leaf _ hl, hd]
  simp only
  rw [hr', leafCalc_drop_keepW ind W hw a new (d₀ + m) hfin hnew hkeep]
  cases leafCalc ind (a ++ new) <;> rfl

#print axioms leafLoop_drop_window
#print axioms append_trimmed_window

/-! ### non-vacuity: `SMA_3` with a lifespan of 180 s -/

namespace FootDemo

def smaDemo : Ind Int := mkTop (.sma 3 "close") "SMA_3" 4
/-- five finished candles (stamps 60 … 300) of the untrimmed twin, one new raw candle (360) -/
def demoFin : List (Candle Int) := demo6.take 5
def demoNew : List (Candle Int) := demo6.drop 5

example : IsLeaf smaDemo := isLeaf_mkTop _ _ _ rfl rfl
example : ∀ c ∈ demoFin, hasKey smaDemo.name c = true := by decide
example : ∀ c ∈ demoNew, Plain c := by decide
/-- lifespan 180 s: the append of the candle stamped 360 pops the candles stamped 60 and 120 –
exactly `W = 3` finished candles (180, 240, 300) are retained -/
example : trimCandles (some 180) (demoFin.drop 0 ++ demoNew) = .ok ((demoFin ++ demoNew).drop 2) := rfl

/-- all hypotheses of the one-append theorem hold together on the demo -/
example :
    candlesOf (IndState.append ({ tree := smaDemo, mgr := { cfg := cfgLifeOnly 180, candles := demoFin.drop 0 }, active := 4 } : IndState Int) demoNew)
      = (candlesOf (IndState.append ({ tree := smaDemo, mgr := { cfg := {}, candles := demoFin }, active := 4 } : IndState Int)
          demoNew)).map (·.drop (demoFin.length + demoNew.length - ((demoFin ++ demoNew).drop 2).length)) :=
  append_trimmed_window smaDemo (isLeaf_mkTop _ _ _ rfl rfl) 3 rfl 180 demoFin demoNew _ 0 4 4
    (by decide) (by decide) (by decide) (by decide) rfl (Or.inr ⟨by decide, by decide⟩)

end FootDemo

end Hex

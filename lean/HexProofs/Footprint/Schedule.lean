import HexProofs.Footprint.Kinds
import HexProofs.Manager2.TwinWindow
/-
The bounded footprint over a WHOLE append schedule on a lifespan-trimmed indicator: the footprint
of one reading (`footprint_shift`, no state condition) fed into the schedule induction of
HexProofs/Manager2/TwinWindow.lean (`twin_schedule_uncond`).  Covers every covered leaf kind –
HighestLowest, Donchian, Aroon and `Amorph` included – with look-back `max 1 (window k)`.
-/
namespace Hex
set_option linter.unusedSectionVars false
variable {F : Type} [PyF F]

/-- **C15, second clause, every covered leaf kind, every append schedule.**  If nothing is popped
at construction and every append that pops retains `max 1 W` finished candles (`RetainsFrom`),
`W = window k`, the lifespan-trimmed indicator ends with the candles of its untrimmed twin minus
the popped ones: same readings on every retained candle, same exception if a reading raises. -/
theorem twin_schedule_window (k : Kind F) (name : String) (round : Nat) (hc : Covered name k)
    (W : Nat) (hw : window k = some W)
    (life : Int) (init : List (Candle F)) (chunks : List (List (Candle F)))
    (hp : ∀ c ∈ init ++ chunks.flatten, Plain c)
    (hinit : trimCandles (some life) init = .ok init)
    (hret : RetainsFrom (max 1 W) life init init.length chunks) :
    ∃ d, candlesOf (runIndicator (mkTop k name round) (cfgLifeOnly life) init chunks)
        = (candlesOf (runIndicator (mkTop k name round) {} init chunks)).map (·.drop d) := by
  obtain ⟨K⟩ := hc.contract round
  refine twin_schedule_uncond (mkTop k name round) (hc.isLeaf round) K (max 1 W) (by omega) ?_
    life init chunks hp hinit hret
  intro x d hd hi
  rw [mkTop_kind]
  exact footprint_shift k W hw x d (by omega) hi

/-- every covered leaf kind has a window -/
theorem Covered.window_some {name : String} {k : Kind F} (hc : Covered name k) : ∃ W, window k = some W := by
  cases hc <;> exact ⟨_, rfl⟩

#print axioms twin_schedule_window

end Hex

import HexProofs.Footprint.Window
import HexProofs.Lib.IntInst
/-
Bounded footprint, the per-kind theorems: the reading of a read-only kind at index `i` touches only
the candles in the window `[i - W, i]`, `W = window k` a function of the parameters only.  Stated as
DROP-PREFIX invariance of a single reading (`footprint`), for every float carrier `F`.

This is the fact behind C07 ("work per appended candle is constant": the newest reading is a
function of the last `W + 1` candles, `footprint_newest`) and behind the second clause of C15
(readings are unchanged by lifespan trimming as long as the look-back is retained).

No parameter guard and no reachable-state hypothesis is needed for the windows chosen here: where a
kind switches between a seeding window and a one-step recurrence on "the previous own reading
exists" (SMA, EMA, RMA, WMA, VWMA, ROC, ATR, Donchian), one retained predecessor makes the switch
itself shift-invariant, so the window is `max (seed window) 1`.  The tighter, state-dependent
statement for EMA / RMA (one predecessor once seeded) is `footprint_seeded`.
-/
namespace Hex
set_option linter.unusedSectionVars false
set_option linter.unusedVariables false
variable {F : Type} [PyF F]

namespace Foot

/-! ### the formula kinds of `HexModel/Ind/Simple.lean` -/

/-- SMA, any period: the running update reads `index - period` -/
theorem sma_shift (x : Ctx F) (d : Nat) (p : Int) (input : String)
    (hd : (d : Int) + 1 ≤ x.i) (hi : x.i < x.cs.length) (hw : (d : Int) + p ≤ x.i) :
    Calc.sma (x.shift d) p input = Calc.sma x p input := by
  unfold Calc.sma
  have e : x.i - (d : Int) - p = (x.i - p) - d := by omega
  simp only [Ctx.shift_name, Ctx.shift_i, e, Ctx.prevExists_shift x d _ hd hi,
    Ctx.num_shift_cur x d _ (by omega : (d : Int) ≤ x.i), Ctx.prevNum_shift x d _ hd hi,
    Ctx.num_shift x d _ (x.i - p) (by omega),
    readingPeriod_shift' x d p _ (by omega) (by omega), candlesSum_shift' x d p _ hd hi (by omega)]

/-- EMA, any period: the seeding window is `period` candles, afterwards one predecessor -/
theorem ema_shift (x : Ctx F) (d : Nat) (p : Int) (input : String) (sm : Num F)
    (hd : (d : Int) + 1 ≤ x.i) (hi : x.i < x.cs.length) (hw : (d : Int) + p ≤ x.i + 1) :
    Calc.ema (x.shift d) p input sm = Calc.ema x p input sm := by
  unfold Calc.ema
  simp only [Ctx.shift_name, Ctx.prevExists_shift x d _ hd hi,
    Ctx.num_shift_cur x d _ (by omega : (d : Int) ≤ x.i), Ctx.prevNum_shift x d _ hd hi,
    readingPeriod_shift' x d p _ (by omega) hw, candlesSum_shift' x d p _ hd hi hw]

/-- ATR (over its stored TR helper column): the same shape as EMA -/
theorem atr_shift (x : Ctx F) (d : Nat) (p : Int) (trName : String)
    (hd : (d : Int) + 1 ≤ x.i) (hi : x.i < x.cs.length) (hw : (d : Int) + p ≤ x.i + 1) :
    Calc.atr (x.shift d) p trName = Calc.atr x p trName := by
  unfold Calc.atr
  simp only [Ctx.shift_name, Ctx.prevExists_shift x d _ hd hi,
    Ctx.num_shift_cur x d _ (by omega : (d : Int) ≤ x.i), Ctx.prevNum_shift x d _ hd hi,
    readingPeriod_shift' x d p _ (by omega) hw, candlesSum_shift' x d p _ hd hi hw]

/-- ROC, any period: reads `index - period` -/
theorem roc_shift (x : Ctx F) (d : Nat) (p : Int) (input : String)
    (hd : (d : Int) + 1 ≤ x.i) (hi : x.i < x.cs.length) (hw : (d : Int) + p ≤ x.i) :
    Calc.roc (x.shift d) p input = Calc.roc x p input := by
  unfold Calc.roc
  have e : x.i - (d : Int) - p = (x.i - p) - d := by omega
  simp only [Ctx.shift_name, Ctx.shift_i, e, Ctx.prevExists_shift x d _ hd hi,
    Ctx.num_shift_cur x d _ (by omega : (d : Int) ≤ x.i),
    Ctx.num_shift x d _ (x.i - p) (by omega),
    readingPeriod_shift' x d (p + 1) _ (by omega) (by omega)]

/-- RMA, any period: the seeding window is the `period` candles `i, i-1, …, i-period+1` -/
theorem rma_shift (x : Ctx F) (d : Nat) (p : Int) (input : String)
    (hd : (d : Int) + 1 ≤ x.i) (hi : x.i < x.cs.length) (hw : (d : Int) + p ≤ x.i + 1) :
    Calc.rma (x.shift d) p input = Calc.rma x p input := by
  unfold Calc.rma
  have e : x.i - (d : Int) - p = (x.i - p) - d := by omega
  simp only [Ctx.shift_name, Ctx.shift_i, e, Ctx.prevExists_shift x d _ hd hi,
    Ctx.num_shift_cur x d _ (by omega : (d : Int) ≤ x.i), Ctx.prevNum_shift x d _ hd hi,
    readingPeriod_shift' x d p _ (by omega) hw]
  cases (fl 1 : Num F).truediv (.int p) with
  | error e => rfl
  | ok alpha =>
    simp only [bind, Except.bind]
    cases x.prevExists x.name with
    | error e => rfl
    | ok b =>
      simp only
      cases b with
      | true => rfl
      | false =>
        simp only [Bool.false_eq_true, if_false]
        by_cases hg : x.readingPeriod p input = true
        · simp only [hg, if_true]
          rw [pyRangeDown_sub]
          congr 1
          apply mapM_zipIdx_shift
          intro q hq
          have hm := (Ana.mem_pyRangeDown _ _ _).1 (List.fst_mem_of_mem_zipIdx hq)
          obtain ⟨j, py⟩ := q
          simp only
          rw [Ctx.num_shift x d input j (by simp only at hm; omega)]
        · simp only [hg, Bool.false_eq_true, if_false]

end Foot
end Hex

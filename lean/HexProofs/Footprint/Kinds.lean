import HexProofs.Footprint.Window
import HexProofs.Lib.IntInst
/-
Bounded footprint, the per-kind theorems: the reading of a read-only kind at index `i` touches only
the candles in the window `[i - W, i]`, `W = window k` a function of the parameters only.  Stated as
DROP-PREFIX invariance of a single reading (`footprint`), for every float carrier `F`.

This is the fact behind C07 ("work per appended candle is constant": the newest reading is a
function of the last `W + 1` candles, `footprint_newest`) and behind the second clause of C15
(readings are unchanged by lifespan trimming as long as the look-back is retained).

No parameter guard and no reachable-state hypothesis is needed for the windows chosen here: where a
kind switches between a seeding window and a one-step recurrence on "the previous own reading
exists" (SMA, EMA, RMA, WMA, VWMA, ROC, ATR, Donchian), one retained predecessor makes the switch
itself shift-invariant, so the window is `max (seed window) 1`.  The tighter, state-dependent
statement for EMA / RMA (one predecessor once seeded) is `footprint_seeded`.
-/
namespace Hex
set_option linter.unusedSectionVars false
set_option linter.unusedVariables false
variable {F : Type} [PyF F]

namespace Foot

/-! ### the formula kinds of `HexModel/Ind/Simple.lean` -/

/-- SMA, any period: the running update reads `index - period` -/
theorem sma_shift (x : Ctx F) (d : Nat) (p : Int) (input : String)
    (hd : (d : Int) + 1 ≤ x.i) (hi : x.i < x.cs.length) (hw : (d : Int) + p ≤ x.i) :
    Calc.sma (x.shift d) p input = Calc.sma x p input := by
  unfold Calc.sma
  have e : x.i - (d : Int) - p = (x.i - p) - d := by omega
  simp only [Ctx.shift_name, Ctx.shift_i, e, Ctx.prevExists_shift x d _ hd hi,
    Ctx.num_shift_cur x d _ (by omega : (d : Int) ≤ x.i), Ctx.prevNum_shift x d _ hd hi,
    Ctx.num_shift x d _ (x.i - p) (by omega),
    readingPeriod_shift' x d p _ (by omega) (by omega), candlesSum_shift' x d p _ hd hi (by omega)]

/-- EMA, any period: the seeding window is `period` candles, afterwards one predecessor -/
theorem ema_shift (x : Ctx F) (d : Nat) (p : Int) (input : String) (sm : Num F)
    (hd : (d : Int) + 1 ≤ x.i) (hi : x.i < x.cs.length) (hw : (d : Int) + p ≤ x.i + 1) :
    Calc.ema (x.shift d) p input sm = Calc.ema x p input sm := by
  unfold Calc.ema
  simp only [Ctx.shift_name, Ctx.prevExists_shift x d _ hd hi,
    Ctx.num_shift_cur x d _ (by omega : (d : Int) ≤ x.i), Ctx.prevNum_shift x d _ hd hi,
    readingPeriod_shift' x d p _ (by omega) hw, candlesSum_shift' x d p _ hd hi hw]

/-- ATR (over its stored TR helper column): the same shape as EMA -/
theorem atr_shift (x : Ctx F) (d : Nat) (p : Int) (trName : String)
    (hd : (d : Int) + 1 ≤ x.i) (hi : x.i < x.cs.length) (hw : (d : Int) + p ≤ x.i + 1) :
    Calc.atr (x.shift d) p trName = Calc.atr x p trName := by
  unfold Calc.atr
  simp only [Ctx.shift_name, Ctx.prevExists_shift x d _ hd hi,
    Ctx.num_shift_cur x d _ (by omega : (d : Int) ≤ x.i), Ctx.prevNum_shift x d _ hd hi,
    readingPeriod_shift' x d p _ (by omega) hw, candlesSum_shift' x d p _ hd hi hw]

/-- ROC, any period: reads `index - period` -/
theorem roc_shift (x : Ctx F) (d : Nat) (p : Int) (input : String)
    (hd : (d : Int) + 1 ≤ x.i) (hi : x.i < x.cs.length) (hw : (d : Int) + p ≤ x.i) :
    Calc.roc (x.shift d) p input = Calc.roc x p input := by
  unfold Calc.roc
  have e : x.i - (d : Int) - p = (x.i - p) - d := by omega
  simp only [Ctx.shift_name, Ctx.shift_i, e, Ctx.prevExists_shift x d _ hd hi,
    Ctx.num_shift_cur x d _ (by omega : (d : Int) ≤ x.i),
    Ctx.num_shift x d _ (x.i - p) (by omega),
    readingPeriod_shift' x d (p + 1) _ (by omega) (by omega)]

/-- RMA, any period: the seeding window is the `period` candles `i, i-1, …, i-period+1` -/
theorem rma_shift (x : Ctx F) (d : Nat) (p : Int) (input : String)
    (hd : (d : Int) + 1 ≤ x.i) (hi : x.i < x.cs.length) (hw : (d : Int) + p ≤ x.i + 1) :
    Calc.rma (x.shift d) p input = Calc.rma x p input := by
  unfold Calc.rma
  have e : x.i - (d : Int) - p = (x.i - p) - d := by omega
  simp only [Ctx.shift_name, Ctx.shift_i, e, Ctx.prevExists_shift x d _ hd hi,
    Ctx.num_shift_cur x d _ (by omega : (d : Int) ≤ x.i), Ctx.prevNum_shift x d _ hd hi,
    readingPeriod_shift' x d p _ (by omega) hw]
  cases (fl 1 : Num F).truediv (.int p) with
  | error e => rfl
  | ok alpha =>
    simp only [bind, Except.bind]
    cases x.prevExists x.name with
    | error e => rfl
    | ok b =>
      simp only
      cases b with
      | true => rfl
      | false =>
        simp only [Bool.false_eq_true, if_false]
        by_cases hg : x.readingPeriod p input = true
        · simp only [hg, if_true]
          rw [pyRangeDown_sub]
          congr 1
          apply mapM_zipIdx_shift
          intro q hq
          have hm := (Ana.mem_pyRangeDown _ _ _).1 (List.fst_mem_of_mem_zipIdx hq)
          obtain ⟨j, py⟩ := q
          simp only
          rw [Ctx.num_shift x d input j (by simp only at hm; omega)]
        · simp only [hg, Bool.false_eq_true, if_false]

/-- WMA, any period: the `period` candles `i, i-1, …, i-period+1` -/
theorem wma_shift (x : Ctx F) (d : Nat) (p : Int) (input : String)
    (hd : (d : Int) + 1 ≤ x.i) (hi : x.i < x.cs.length) (hw : (d : Int) + p ≤ x.i + 1) :
    Calc.wma (x.shift d) p input = Calc.wma x p input := by
  unfold Calc.wma
  have e : x.i - (d : Int) - p = (x.i - p) - d := by omega
  simp only [Ctx.shift_name, Ctx.shift_i, e, Ctx.prevExists_shift x d _ hd hi,
    readingPeriod_shift' x d p _ (by omega) hw]
  cases x.prevExists x.name with
  | error e => rfl
  | ok b =>
    simp only [bind, Except.bind]
    by_cases hg : (b || x.readingPeriod p input) = true
    · simp only [hg, if_true]
      rw [pyRangeDown_sub]
      congr 1
      apply mapM_zipIdx_shift
      intro q hq
      have hm := (Ana.mem_pyRangeDown _ _ _).1 (List.fst_mem_of_mem_zipIdx hq)
      obtain ⟨j, py⟩ := q
      simp only
      rw [Ctx.num_shift x d input j (by simp only at hm; omega)]
    · simp only [hg, Bool.false_eq_true, if_false]

/-- VWMA, any period: the `period` candles `i-period+1, …, i` -/
theorem vwma_shift (x : Ctx F) (d : Nat) (p : Int)
    (hd : (d : Int) + 1 ≤ x.i) (hi : x.i < x.cs.length) (hw : (d : Int) + p ≤ x.i + 1) :
    Calc.vwma (x.shift d) p = Calc.vwma x p := by
  unfold Calc.vwma
  have e1 : x.i - (d : Int) - (p - 1) = (x.i - (p - 1)) - d := by omega
  have e2 : x.i - (d : Int) + 1 = (x.i + 1) - d := by omega
  simp only [Ctx.shift_name, Ctx.shift_i, e1, e2, Ctx.prevExists_shift x d _ hd hi,
    readingPeriod_shift' x d p _ (by omega) hw, candlesSum_shift' x d p _ hd hi hw]
  cases x.prevExists x.name with
  | error e => rfl
  | ok b =>
    simp only [bind, Except.bind]
    by_cases hg : (b || x.readingPeriod p "close") = true
    · simp only [hg, if_true]
      rw [pyRange_sub]
      congr 1
      apply mapM_shift
      intro j hj
      have hm := (Ana.mem_pyRange _ _ _).1 hj
      rw [Ctx.num_shift x d "close" j (by omega), Ctx.num_shift x d "volume" j (by omega)]
    · simp only [hg, Bool.false_eq_true, if_false]

/-! ### the window extremes: HighestLowest, Donchian, Aroon -/

/-- HighestLowest: the `period + 1` candles `[i - period, i]` -/
theorem hl_shift (x : Ctx F) (d : Nat) (p : Int)
    (hd0 : (d : Int) ≤ x.i) (hi : x.i < x.cs.length) (hw : (d : Int) + p ≤ x.i) :
    Calc.hl (x.shift d) p = Calc.hl x p := by
  unfold Calc.hl Mov.lowest Mov.highest
  simp only [Ctx.shift_i, Ctx.shift_cs]
  rw [extreme_drop x.cs "low" p _ d x.i hd0 hw hi, extreme_drop x.cs "high" p _ d x.i hd0 hw hi]

/-- Donchian: the `period` candles `[i - (period - 1), i]`, and the previous own reading -/
theorem donchian_shift (x : Ctx F) (d : Nat) (p : Int)
    (hd : (d : Int) + 1 ≤ x.i) (hi : x.i < x.cs.length) (hw : (d : Int) + p ≤ x.i + 1) :
    Calc.donchian (x.shift d) p = Calc.donchian x p := by
  unfold Calc.donchian Mov.lowest Mov.highest
  simp only [Ctx.shift_i, Ctx.shift_cs, Ctx.shift_name, Ctx.prevReading_shift x d _ hd hi,
    readingPeriod_shift_at x d p _ (by omega) hw]
  rw [extreme_drop x.cs "low" (p - 1) _ d x.i (by omega) (by omega) hi,
    extreme_drop x.cs "high" (p - 1) _ d x.i (by omega) (by omega) hi]

/-- Aroon: the `period + 1` candles `[i - period, i]` -/
theorem aroon_shift (x : Ctx F) (d : Nat) (p : Int)
    (hd0 : (d : Int) ≤ x.i) (hi : x.i < x.cs.length) (hw : (d : Int) + p ≤ x.i) :
    Calc.aroon (x.shift d) p = Calc.aroon x p := by
  unfold Calc.aroon Mov.highestbar Mov.lowestbar
  simp only [Ctx.shift_i, Ctx.shift_cs, readingPeriod_shift' x d (p + 1) _ hd0 (by omega)]
  rw [extremeBar_drop x.cs "high" (p + 1) _ d x.i hd0 (by omega) hi,
    extremeBar_drop x.cs "low" (p + 1) _ d x.i hd0 (by omega) hi]

/-! ### read-only readings over stored helper columns: Bollinger Bands, Keltner Channel,
StandardDeviationThreshold -/

theorem bbands_shift (x : Ctx F) (d : Nat) (a b : String) (hd0 : (d : Int) ≤ x.i) :
    Calc.bbands (x.shift d) a b = Calc.bbands x a b := by
  unfold Calc.bbands
  simp only [Ctx.reading_shift_cur x d _ hd0]

theorem kc_shift (x : Ctx F) (d : Nat) (m : Num F) (hd0 : (d : Int) ≤ x.i) :
    Calc.kc (x.shift d) m = Calc.kc x m := by
  unfold Calc.kc
  simp only [Ctx.shift_name, Ctx.reading_shift_cur x d _ hd0]

theorem stdevthres_shift (x : Ctx F) (d : Nat) (input : String) (m : Num F)
    (hd : (d : Int) + 1 ≤ x.i) (hi : x.i < x.cs.length) :
    Calc.stdevthres (x.shift d) input m = Calc.stdevthres x input m := by
  unfold Calc.stdevthres
  simp only [Ctx.shift_name, Ctx.reading_shift_cur x d _ (by omega : (d : Int) ≤ x.i),
    Ctx.num_shift_cur x d _ (by omega : (d : Int) ≤ x.i), Ctx.prevNum_shift x d _ hd hi]

/-! ### `Amorph` over the analysis functions -/

/-- the look-back of an analysis function, from its arguments only: nothing for the per-candle
predicates; `length` for the window functions (`_get_clean_readings` slices `[i - length, i]`, the
crosses compare `length` consecutive pairs); `length - 1` for `highestbar` / `lowestbar` (which
walk `i, …, i - length + 1`); ten candles plus one per further look-back position for the
patterns. -/
def anaWindow : Analysis → Nat
  | .positive | .negative | .above .. | .below .. => 0
  | .valueRange _ n | .rising _ n | .falling _ n | .meanRising _ n | .meanFalling _ n
  | .highest _ n | .lowest _ n => n.toNat
  | .highestbar _ n | .lowestbar _ n => (n - 1).toNat
  | .cross _ _ n | .crossover _ _ n | .crossunder _ _ n => n.toNat
  | .doji lb | .dojistar lb | .hammer lb | .invHammer lb => patWindow lb

theorem runAnalysis_drop (a : Analysis) (cs : List (Candle F)) (d : Nat) (i : Int)
    (hd : (d : Int) + anaWindow a ≤ i) (hi : i < cs.length) :
    runAnalysis a (cs.drop d) (i - d) = runAnalysis a cs i := by
  have hd0 : (d : Int) ≤ i := by omega
  cases a with
  | positive => simp only [runAnalysis, positive_drop cs d i hd0]
  | negative => simp only [runAnalysis, negative_drop cs d i hd0]
  | above a b => simp only [runAnalysis, Mov.above, aboveB_drop cs a b d i i hd0 (le_refl i) hi]
  | below a b => simp only [runAnalysis, Mov.below, belowB_drop cs a b d i i hd0 (le_refl i) hi]
  | valueRange ind n =>
    simp only [anaWindow] at hd
    simp only [runAnalysis, valueRange_drop cs ind n d i hd0 (by omega) hi]
  | rising ind n =>
    simp only [anaWindow] at hd
    simp only [runAnalysis, Mov.rising, monotone_drop cs ind n _ d i hd0 (by omega) hi]
  | falling ind n =>
    simp only [anaWindow] at hd
    simp only [runAnalysis, Mov.falling, monotone_drop cs ind n _ d i hd0 (by omega) hi]
  | meanRising ind n =>
    simp only [anaWindow] at hd
    simp only [runAnalysis, Mov.meanRising, meanCmp_drop cs ind n _ d i hd0 (by omega) hi]
  | meanFalling ind n =>
    simp only [anaWindow] at hd
    simp only [runAnalysis, Mov.meanFalling, meanCmp_drop cs ind n _ d i hd0 (by omega) hi]
  | highest ind n =>
    simp only [anaWindow] at hd
    simp only [runAnalysis, Mov.highest, extreme_drop cs ind n _ d i hd0 (by omega) hi]
  | lowest ind n =>
    simp only [anaWindow] at hd
    simp only [runAnalysis, Mov.lowest, extreme_drop cs ind n _ d i hd0 (by omega) hi]
  | highestbar ind n =>
    simp only [anaWindow] at hd
    simp only [runAnalysis, Mov.highestbar, extremeBar_drop cs ind n _ d i hd0 (by omega) hi]
  | lowestbar ind n =>
    simp only [anaWindow] at hd
    simp only [runAnalysis, Mov.lowestbar, extremeBar_drop cs ind n _ d i hd0 (by omega) hi]
  | cross a b n =>
    simp only [anaWindow] at hd
    simp only [runAnalysis, cross_drop cs a b n d i hd0 (by omega) hi]
  | crossover a b n =>
    simp only [anaWindow] at hd
    simp only [runAnalysis, crossover_drop cs a b n d i hd0 (by omega) hi]
  | crossunder a b n =>
    simp only [anaWindow] at hd
    simp only [runAnalysis, crossunder_drop cs a b n d i hd0 (by omega) hi]
  | doji lb => simp only [runAnalysis, Pat.doji, pattern_drop dojiAt_shift lb cs d i hd hi]
  | dojistar lb => simp only [runAnalysis, Pat.dojistar, pattern_drop dojistarAt_shift lb cs d i hd hi]
  | hammer lb => simp only [runAnalysis, Pat.hammer, pattern_drop hammerAt_shift lb cs d i hd hi]
  | invHammer lb => simp only [runAnalysis, Pat.invHammer, pattern_drop invHammerAt_shift lb cs d i hd hi]

end Foot

/-! ## the window of a kind and the footprint theorem -/

/-- **The look-back `W` of a read-only kind**, a function of its parameters only: the reading at
index `i` touches only the candles `[i - W, i]`.

* SMA `p`: `p` (the running update reads `index - period`), ROC `p`: `p`;
* EMA / RMA / WMA / VWMA / ATR `p`: the seeding window `p - 1`;
* Donchian `p`: `p - 1`; HighestLowest / Aroon `p`: `p`;
* TR, OBV, Counter, StandardDeviationThreshold: one predecessor; HLA, Bollinger Bands, Keltner
  Channel, `Managed`: the current candle only;
* `Amorph`: `Foot.anaWindow`.

Where the formula switches on "the previous own reading exists" the window is at least `1`, so that
the switch itself is answered identically on the trimmed list.  `none`: the kinds whose
`_calculate_reading` writes helper series (not read-only; `readKind` is not their reading). -/
def window : Kind F → Option Nat
  | .sma p _ => some (max p.toNat 1)
  | .ema p _ _ => some (max (p - 1).toNat 1)
  | .rma p _ => some (max (p - 1).toNat 1)
  | .wma p _ => some (max (p - 1).toNat 1)
  | .vwma p => some (max (p - 1).toNat 1)
  | .roc p _ => some (max p.toNat 1)
  | .atr p => some (max (p - 1).toNat 1)
  | .tr => some 1
  | .obv => some 1
  | .counter _ _ => some 1
  | .stdevthres _ _ _ => some 1
  | .hla => some 0
  | .bbands _ _ => some 0
  | .kc _ _ _ => some 0
  | .managed => some 0
  | .hl p => some p.toNat
  | .donchian p => some (max (p - 1).toNat 1)
  | .aroon p => some p.toNat
  | .amorph a => some (Foot.anaWindow a)
  | _ => none

/-- the window is defined exactly on the read-only kinds -/
theorem window_isSome_iff (k : Kind F) : (window k).isSome = k.readOnly := by
  cases k <;> rfl

/-- **Bounded footprint** (drop-prefix invariance of a single reading), in `Ctx.shift` form -/
theorem footprint_shift (k : Kind F) (W : Nat) (hw : window k = some W) (x : Ctx F) (d : Nat)
    (hd : (d : Int) + W ≤ x.i) (hi : x.i < x.cs.length) :
    readKind k (x.shift d) = readKind k x := by
  cases k with
  | sma p input =>
    simp only [window, Option.some.injEq] at hw; subst hw
    exact Foot.sma_shift x d p input (by omega) hi (by omega)
  | ema p input sm =>
    simp only [window, Option.some.injEq] at hw; subst hw
    exact Foot.ema_shift x d p input sm (by omega) hi (by omega)
  | rma p input =>
    simp only [window, Option.some.injEq] at hw; subst hw
    exact Foot.rma_shift x d p input (by omega) hi (by omega)
  | wma p input =>
    simp only [window, Option.some.injEq] at hw; subst hw
    exact Foot.wma_shift x d p input (by omega) hi (by omega)
  | vwma p =>
    simp only [window, Option.some.injEq] at hw; subst hw
    exact Foot.vwma_shift x d p (by omega) hi (by omega)
  | roc p input =>
    simp only [window, Option.some.injEq] at hw; subst hw
    exact Foot.roc_shift x d p input (by omega) hi (by omega)
  | atr p =>
    simp only [window, Option.some.injEq] at hw; subst hw
    exact Foot.atr_shift x d p _ (by omega) hi (by omega)
  | tr =>
    simp only [window, Option.some.injEq] at hw; subst hw
    exact tr_shift x d (by omega) hi
  | obv =>
    simp only [window, Option.some.injEq] at hw; subst hw
    exact obv_shift x d (by omega) hi
  | counter input cv =>
    simp only [window, Option.some.injEq] at hw; subst hw
    exact counter_shift x d input cv (by omega) hi
  | stdevthres p input m =>
    simp only [window, Option.some.injEq] at hw; subst hw
    exact Foot.stdevthres_shift x d input m (by omega) hi
  | hla =>
    simp only [window, Option.some.injEq] at hw; subst hw
    exact hla_shift x d (by omega)
  | bbands p input =>
    simp only [window, Option.some.injEq] at hw; subst hw
    exact Foot.bbands_shift x d _ _ (by omega)
  | kc p input m =>
    simp only [window, Option.some.injEq] at hw; subst hw
    exact Foot.kc_shift x d m (by omega)
  | managed => rfl
  | hl p =>
    simp only [window, Option.some.injEq] at hw; subst hw
    exact Foot.hl_shift x d p (by omega) hi (by omega)
  | donchian p =>
    simp only [window, Option.some.injEq] at hw; subst hw
    exact Foot.donchian_shift x d p (by omega) hi (by omega)
  | aroon p =>
    simp only [window, Option.some.injEq] at hw; subst hw
    exact Foot.aroon_shift x d p (by omega) hi (by omega)
  | amorph a =>
    simp only [window, Option.some.injEq] at hw; subst hw
    exact Foot.runAnalysis_drop a x.cs d x.i hd hi
  | hma _ _ => cases hw
  | stdev _ _ => cases hw
  | supertrend _ _ _ => cases hw
  | rsi _ _ => cases hw
  | macd _ _ _ _ => cases hw
  | stoch _ _ _ _ => cases hw
  | tsi _ _ _ => cases hw
  | adx _ _ => cases hw
  | vwap _ => cases hw

/-- **Bounded footprint.**  For every read-only kind `k` with look-back `W = window k`, every
candle list (raw or carrying any stored readings), every index `i` inside it and every `d` with
`d + W ≤ i`: the reading computed at index `i` equals the reading computed at index `i - d` of the
list whose first `d` candles were dropped.  No side condition on parameters or state. -/
theorem footprint (k : Kind F) (W : Nat) (hw : window k = some W) (cs : List (Candle F)) (i : Int)
    (nm : String) (d : Nat) (hd : (d : Int) + W ≤ i) (hi : i < cs.length) :
    readKind k { cs := cs, i := i, name := nm } = readKind k { cs := cs.drop d, i := i - d, name := nm } :=
  (footprint_shift k W hw { cs := cs, i := i, name := nm } d hd hi).symm

/-- **C07 form**: the reading at the newest index of a list of length `n > W` equals the reading
at index `W` of the list of its last `W + 1` candles – a function of `W + 1` candles, whatever the
history length. -/
theorem footprint_newest (k : Kind F) (W : Nat) (hw : window k = some W) (cs : List (Candle F))
    (nm : String) (hn : W < cs.length) :
    readKind k { cs := cs, i := (cs.length : Int) - 1, name := nm }
      = readKind k { cs := cs.drop (cs.length - 1 - W), i := (W : Int), name := nm } := by
  have h := footprint k W hw cs ((cs.length : Int) - 1) nm (cs.length - 1 - W) (by omega) (by omega)
  have e : (cs.length : Int) - 1 - ((cs.length - 1 - W : Nat) : Int) = (W : Int) := by omega
  rw [e] at h
  exact h

/-- the list the newest reading is computed from has exactly `W + 1` candles -/
theorem footprint_newest_length {α : Type} (cs : List α) (W : Nat) (hn : W < cs.length) :
    (cs.drop (cs.length - 1 - W)).length = W + 1 := by
  rw [List.length_drop]; omega

/-- the same without the length condition: a list shorter than the window is used entirely -/
theorem footprint_newest' (k : Kind F) (W : Nat) (hw : window k = some W) (cs : List (Candle F))
    (nm : String) (hne : cs ≠ []) :
    readKind k { cs := cs, i := (cs.length : Int) - 1, name := nm }
      = readKind k { cs := cs.drop (cs.length - 1 - W),
                     i := (cs.length : Int) - 1 - ((cs.length - 1 - W : Nat) : Int), name := nm } := by
  have hl : 0 < cs.length := List.length_pos_iff.mpr hne
  by_cases hn : W < cs.length
  · exact footprint k W hw cs ((cs.length : Int) - 1) nm (cs.length - 1 - W) (by omega) (by omega)
  · have : cs.length - 1 - W = 0 := by omega
    rw [this]
    simp

/-- **C07 form, as a function of the window**: there is ONE function of `W + 1` candles that gives
the newest reading of every longer list -/
theorem newest_reading_is_window_function (k : Kind F) (W : Nat) (hw : window k = some W) (nm : String) :
    ∃ g : List (Candle F) → PyM (Val F), ∀ cs : List (Candle F), W < cs.length →
      (cs.drop (cs.length - 1 - W)).length = W + 1 ∧
      readKind k { cs := cs, i := (cs.length : Int) - 1, name := nm } = g (cs.drop (cs.length - 1 - W)) :=
  ⟨fun w => readKind k { cs := w, i := (W : Int), name := nm }, fun cs hn =>
    ⟨footprint_newest_length cs W hn, footprint_newest k W hw cs nm hn⟩⟩

/-- **Through the engine's dispatch** (`calcKind`, any helper services): the same reading, and the
returned candle list is the trimmed one -/
theorem footprint_calcKind (ops ops' : Ops F) (ind : Ind F) (W : Nat) (hw : window ind.kind = some W)
    (cs : List (Candle F)) (i : Int) (d : Nat) (hd : (d : Int) + W ≤ i) (hi : i < cs.length) :
    calcKind ops' ind { cs := cs.drop d, i := i - d, name := ind.name }
      = (calcKind ops ind { cs := cs, i := i, name := ind.name }).map (fun r => (r.1, r.2.drop d)) := by
  have hro : ind.kind.readOnly = true := by
    rw [← window_isSome_iff, hw]; rfl
  rw [calcKind_readOnly _ _ _ hro, calcKind_readOnly _ _ _ hro]
  rw [footprint ind.kind W hw cs i ind.name d hd hi]
  cases readKind ind.kind { cs := cs.drop d, i := i - d, name := ind.name } <;> rfl

/-! ### the tighter, state-dependent window of the seeded recurrences -/

/-- once the recurrence is seeded (the previous own reading is not `None` – maintained along the
engine's loop: `ema_seeded_nonNone`, `rma_seeded_nonNone`, `prevExists_after_step`,
`seeded_at_end` in `HexProofs/Manager2/ShiftInst.lean`), EMA and RMA look back ONE candle -/
def windowSeeded : Kind F → Option Nat
  | .ema _ _ _ => some 1
  | .rma _ _ => some 1
  | k => window k

theorem footprint_seeded (k : Kind F) (W : Nat) (hw : windowSeeded k = some W) (cs : List (Candle F))
    (i : Int) (nm : String) (d : Nat) (hd : (d : Int) + W ≤ i) (hi : i < cs.length)
    (hs : Seeded k { cs := cs, i := i, name := nm }) :
    readKind k { cs := cs, i := i, name := nm } = readKind k { cs := cs.drop d, i := i - d, name := nm } := by
  cases k with
  | ema p input sm =>
    simp only [windowSeeded, Option.some.injEq] at hw; subst hw
    exact (ema_shift_seeded { cs := cs, i := i, name := nm } d p input sm (by simp only; omega) hi hs).symm
  | rma p input =>
    simp only [windowSeeded, Option.some.injEq] at hw; subst hw
    exact (rma_shift_seeded { cs := cs, i := i, name := nm } d p input (by simp only; omega) hi hs).symm
  | _ => refine footprint _ W ?_ cs i nm d hd hi; exact hw

/-! ### axioms -/

#print axioms footprint
#print axioms footprint_newest
#print axioms newest_reading_is_window_function
#print axioms footprint_calcKind
#print axioms footprint_seeded

/-! ### non-vacuity: `SMA_3` over `close` on six finished candles (carrier `Int`) -/

namespace FootDemo

/-- six finished candles: closes 2, 4, 3, 8, 7, 6 with the `SMA_3` column the engine stores on them
(`None`, `None`, 3, 5, 6, and – to be recomputed – 7) -/
def demo6 : List (Candle Int) :=
  [ { o := .int 1, h := .int 3, l := .int 1, c := .int 2, v := .int 10, ts := some 60, inds := [("SMA_3", .none)] },
    { o := .int 2, h := .int 5, l := .int 2, c := .int 4, v := .int 20, ts := some 120, inds := [("SMA_3", .none)] },
    { o := .int 4, h := .int 4, l := .int 0, c := .int 3, v := .int 5, ts := some 180, inds := [("SMA_3", .num (.flt 3))] },
    { o := .int 1, h := .int 7, l := .int 1, c := .int 8, v := .int 8, ts := some 240, inds := [("SMA_3", .num (.flt 5))] },
    { o := .int 6, h := .int 9, l := .int 5, c := .int 7, v := .int 12, ts := some 300, inds := [("SMA_3", .num (.flt 6))] },
    { o := .int 7, h := .int 8, l := .int 3, c := .int 6, v := .int 9, ts := some 360 } ]

/-- the float value of a reading (`none`: the reading raised, is `None`, or is not a float) -/
def fltOf (r : PyM (Val Int)) : Option Int :=
  match r with
  | .ok (Val.s (Scalar.num (Num.flt x))) => some x
  | _ => none

/-- the `SMA_3` column of a candle list -/
def column (cs : List (Candle Int)) : List (Option Int) :=
  cs.map fun c => fltOf (match (dlookup "SMA_3" c.inds : Option (Val Int)) with | some v => .ok v | none => .error .keyError)

/-- the stored column IS what the engine computes from the raw candles -/
example : (leafCalc (mkTop (.sma 3 "close") "SMA_3" 4) (demo6.map Candle.reset)).toOption.map column
    = some [none, none, some 3, some 5, some 6, some 7] := by decide +kernel
example : column demo6 = [none, none, some 3, some 5, some 6, none] := by decide +kernel

example : window (F := Int) (.sma 3 "close") = some 3 := rfl

/-- `footprint` instantiated: the reading at index 5 of the six candles is the reading at index 3
of the last four (`d = 2`, `W = 3`); the side conditions are decided -/
example : readKind (.sma 3 "close") { cs := demo6, i := 5, name := "SMA_3" }
    = readKind (.sma 3 "close") { cs := demo6.drop 2, i := 5 - (2 : Nat), name := "SMA_3" } :=
  footprint (.sma 3 "close") 3 rfl demo6 5 "SMA_3" 2 (by decide) (by decide)

/-- the C07 form on the demo: the newest reading from the last `W + 1 = 4` candles -/
example : readKind (.sma 3 "close") { cs := demo6, i := (demo6.length : Int) - 1, name := "SMA_3" }
    = readKind (.sma 3 "close") { cs := demo6.drop (demo6.length - 1 - 3), i := ((3 : Nat) : Int), name := "SMA_3" } :=
  footprint_newest (.sma 3 "close") 3 rfl demo6 "SMA_3" (by decide)

/-- … and both sides are a genuine number (7 = 6 - (3 - 6) / 3), not an error -/
example : fltOf (readKind (.sma 3 "close") { cs := demo6, i := 5, name := "SMA_3" }) = some 7 := by
  decide +kernel
example : fltOf (readKind (.sma 3 "close") { cs := demo6.drop 2, i := 3, name := "SMA_3" }) = some 7 := by
  decide +kernel

/-- the window of SMA is TIGHT: with one candle less retained (`d = 3`, `d + W = 6 > 5`) the running
update reads `index - period = -1`, which Python wraps to the newest candle, and the reading differs -/
example : fltOf (readKind (.sma 3 "close") { cs := demo6.drop 3, i := 2, name := "SMA_3" }) = some 6 := by
  decide +kernel

end FootDemo

end Hex

import HexProofs.Manager.Trim
import HexProofs.Manager.Schedule
import HexProofs.Framework.Timeframe
/-
Lifespan trimming on a collapsing timeframe (no fill, no conversion).  The manager holds the
buckets of `resample tf stream` inside the window.  Trimming drops whole leading buckets, the
resampling fold only ever touches its newest bucket, and the newest bucket always survives the
trim (lifespan ≥ 0): re-collapsing `window ++ new candles` therefore gives the resampling of the
whole stream minus the dropped leading buckets, and the trim with the new (larger) bound removes
at least those.
-/
namespace Hex
set_option linter.unusedSectionVars false
variable {F : Type} [PyF F]

/-- timeframe + lifespan -/
def cfgTfLife (tf life : Int) : MgrCfg := { tf := some tf, lifespan := some life }

theorem tasks_cfgTfLife (tf life : Int) (cs : List (Candle F)) :
    tasks (cfgTfLife tf life) cs = (do
      let cs ← collapseCandles (some tf) false cs
      trimCandles (some life) cs) := by
  unfold tasks cfgTfLife
  cases collapseCandles (some tf) false cs <;> simp [bind, Except.bind]

/-- raw stream: stamped, unconverted, non-decreasing stamps -/
structure RawBk (xs : List (Candle F)) : Prop where
  stamped : ∀ c ∈ xs, c.ts ≠ none
  cleanNone : ∀ c ∈ xs, c.clean = none
  sorted : (xs.filterMap (·.ts)).Pairwise (· ≤ ·)

theorem RawBk.cleanOk {xs : List (Candle F)} (h : RawBk xs) (tf : Int) : ∀ c ∈ xs, CleanOk tf c := by
  intro c hc k hk; rw [h.cleanNone c hc] at hk; cases hk

theorem RawBk.append_left {a b : List (Candle F)} (h : RawBk (a ++ b)) : RawBk a :=
  ⟨fun c hc => h.stamped c (by simp [hc]), fun c hc => h.cleanNone c (by simp [hc]),
   by have := h.sorted; rw [List.filterMap_append] at this; exact (List.pairwise_append.1 this).1⟩

theorem RawBk.append_right {a b : List (Candle F)} (h : RawBk (a ++ b)) : RawBk b :=
  ⟨fun c hc => h.stamped c (by simp [hc]), fun c hc => h.cleanNone c (by simp [hc]),
   by have := h.sorted; rw [List.filterMap_append] at this; exact (List.pairwise_append.1 this).2.1⟩

/-! ### list facts -/

theorem mem_takeWhile_imp' {α : Type} (p : α → Bool) (l : List α) : ∀ a ∈ l.takeWhile p, p a = true := by
  induction l with
  | nil => intro a ha; cases ha
  | cons x r ih =>
    intro a ha
    by_cases hx : p x = true
    · rw [List.takeWhile_cons_of_pos hx] at ha
      rcases List.mem_cons.1 ha with rfl | ha
      · exact hx
      · exact ih a ha
    · rw [List.takeWhile_cons_of_neg hx] at ha; cases ha

theorem foldl_step_ne_nil (tf : Int) (new : List (Candle F)) :
    ∀ (acc : List (Candle F)), acc ≠ [] → new.foldl (resampleStep tf) acc ≠ [] := by
  induction new with
  | nil => intro acc h; exact h
  | cons c rest ih => intro acc h; exact ih _ (resampleStep_ne_nil tf acc c h)

theorem BucketedR.append_left {tf : Int} {a b : List (Candle F)} (h : BucketedR tf (a ++ b)) : BucketedR tf a :=
  ⟨fun x hx => h.stamped x (by simp [hx]), by
    have := h.decr; rw [List.filterMap_append] at this; exact (List.pairwise_append.1 this).1⟩

/-- an in-order bucket list has all candles stamped and non-decreasing stamps -/
theorem sortedStamped_of_bucketedR (tf : Int) (acc : List (Candle F)) (h : BucketedR tf acc) :
    SortedStamped acc.reverse :=
  ⟨fun c hc => by obtain ⟨t, ht, _⟩ := h.stamped c (List.mem_reverse.1 hc); simp [ht],
   (h.incr_reverse tf acc).imp (fun hab => le_of_lt hab)⟩

theorem SortedStamped.append_right {a b : List (Candle F)} (h : SortedStamped (a ++ b)) : SortedStamped b :=
  ⟨fun c hc => h.stamped c (by simp [hc]), by
    have := h.sorted; rw [List.filterMap_append] at this; exact (List.pairwise_append.1 this).2.1⟩

theorem pairwise_last_le (A C : List Int) (n n' : Int) (h : (A ++ C).Pairwise (· ≤ ·))
    (hn : A.getLast? = some n) (hn' : (A ++ C).getLast? = some n') : n ≤ n' := by
  rw [List.getLast?_append] at hn'
  cases hc : C.getLast? with
  | none =>
    rw [hc, hn] at hn'
    simp at hn'; omega
  | some x =>
    rw [hc] at hn'
    simp at hn'; subst hn'
    exact (List.pairwise_append.1 h).2.2 n (List.mem_of_getLast? hn) x (List.mem_of_getLast? hc)

/-- the newest stamp of the resampling is the last label of the stream -/
theorem newest_resample (tf : Int) (P : List (Candle F)) (hP : ∀ c ∈ P, CleanOk tf c) :
    (resample tf P).getLast?.bind (·.ts) = (labels tf P).getLast? := by
  unfold resample
  rw [List.getLast?_reverse]
  exact (resampleR_props tf P hP).2

theorem labels_ne_nil (tf : Int) (P : List (Candle F)) (hs : ∀ c ∈ P, c.ts ≠ none) (hne : P ≠ []) :
    labels tf P ≠ [] := by
  cases P with
  | nil => exact absurd rfl hne
  | cons c r =>
    cases hc : c.ts with
    | none => exact absurd hc (hs c (by simp))
    | some t => rw [labels_cons_some tf c r t hc]; simp

/-! ### the resampling of a window followed by new candles -/

/-- **Re-collapsing the retained buckets with new candles.**  Let `older ++ W` be the buckets of
the stream so far with `W ≠ []`.  Collapsing `W ++ new` succeeds, and the resampling of the longer
stream is `older` followed by its result. -/
theorem collapse_suffix_append (tf : Int) (htf : 0 < tf) (s new older W : List (Candle F))
    (h : RawBk (s ++ new)) (hB : resample tf s = older ++ W) (hW : W ≠ []) :
    ∃ R, collapseCandles (some tf) false (W ++ new) = .ok R ∧ R ≠ [] ∧
      resample tf (s ++ new) = older ++ R := by
  have hs : RawBk s := h.append_left
  have hn : RawBk new := h.append_right
  have hcs := hs.cleanOk tf
  have hms : LabelsMono tf s := labelsMono_of_sorted tf htf s hs.sorted
  have hb : BucketedR tf (resampleR tf s) := resampleR_bucketed tf htf s hcs hms
  have hprops := resampleR_props tf s hcs
  have hBR : resampleR tf s = W.reverse ++ older.reverse := by
    have := congrArg List.reverse hB
    simpa [resample] using this
  have hbW : BucketedR tf W.reverse := by rw [hBR] at hb; exact hb.append_left
  have hselfW : resampleR tf W = W.reverse := by
    have := resampleR_reverse_self tf W.reverse hbW; simpa using this
  have hWmem : ∀ c ∈ W, c ∈ resampleR tf s := by
    intro c hc; rw [hBR]; simp [hc]
  have hclean : ∀ c ∈ W ++ new, CleanOk tf c := by
    intro c hc
    rcases List.mem_append.1 hc with hc | hc
    · exact hprops.1 c (hWmem c hc)
    · exact hn.cleanOk tf c hc
  have hmono : LabelsMono tf (W ++ new) := by
    have := labelsMono_resample_append tf htf s new hcs (labelsMono_of_sorted tf htf _ h.sorted)
    rw [hB, List.append_assoc] at this
    unfold LabelsMono at this ⊢
    rw [labels_append] at this
    exact (List.pairwise_append.1 this).2.1
  have hfirst : ∀ c, (W ++ new).head? = some c → c.ts ≠ none := by
    intro c hc
    cases hWc : W with
    | nil => exact absurd hWc hW
    | cons y yr =>
      rw [hWc] at hc; simp at hc; subst hc
      obtain ⟨t, ht, _⟩ := hb.stamped y (hWmem y (by rw [hWc]; simp))
      simp [ht]
  have hcol := collapse_eq_resample tf htf _ hfirst hclean hmono
  have hfoldW : resampleR tf (W ++ new) = new.foldl (resampleStep tf) W.reverse := by
    simp only [resampleR, List.foldl_append]
    have := hselfW; simp only [resampleR] at this; rw [this]
  have hfoldB : resampleR tf (s ++ new) = new.foldl (resampleStep tf) (W.reverse ++ older.reverse) := by
    rw [← hBR]; simp [resampleR, List.foldl_append]
  have hWr : W.reverse ≠ [] := by simpa using hW
  refine ⟨resample tf (W ++ new), hcol, ?_, ?_⟩
  · unfold resample; rw [hfoldW]
    simpa using foldl_step_ne_nil tf new W.reverse hWr
  · unfold resample
    rw [hfoldB, foldl_step_tail tf new W.reverse older.reverse hWr, hfoldW]
    simp

/-- **One pass of collapse → trim** over the retained window of `s` followed by new raw candles
gives the window of the resampling of `s ++ new` (bound taken from ITS newest bucket). -/
theorem tasks_tf_life_append (tf : Int) (htf : 0 < tf) (life : Int) (hlife : 0 ≤ life)
    (s new : List (Candle F)) (h : RawBk (s ++ new)) (n : Int)
    (hn : s = [] ∨ (resample tf s).getLast?.bind (·.ts) = some n) :
    ∃ n', tasks (cfgTfLife tf life) ((resample tf s).filter (fun c => !tooOld (n - life) c) ++ new)
        = .ok ((resample tf (s ++ new)).filter (fun c => !tooOld (n' - life) c)) ∧
      (s ++ new = [] ∨ (resample tf (s ++ new)).getLast?.bind (·.ts) = some n') ∧
      (s = [] ∨ n ≤ n') := by
  have hs : RawBk s := h.append_left
  have hnw : RawBk new := h.append_right
  have hcs := hs.cleanOk tf
  have hc := h.cleanOk tf
  have hm : LabelsMono tf (s ++ new) := labelsMono_of_sorted tf htf _ h.sorted
  have hms : LabelsMono tf s := labelsMono_of_sorted tf htf s hs.sorted
  have hb : BucketedR tf (resampleR tf s) := resampleR_bucketed tf htf s hcs hms
  have hbf : BucketedR tf (resampleR tf (s ++ new)) := resampleR_bucketed tf htf _ hc hm
  have hSS : SortedStamped (resample tf s) := sortedStamped_of_bucketedR tf _ hb
  have hSSf : SortedStamped (resample tf (s ++ new)) := sortedStamped_of_bucketedR tf _ hbf
  by_cases hall : s ++ new = []
  · have h1 : s = [] ∧ new = [] := by simpa using hall
    refine ⟨n, ?_, Or.inl hall, Or.inl h1.1⟩
    rw [h1.1, h1.2]
    simp [resample, resampleR, tasks_cfgTfLife, collapseCandles, trimCandles, bind, Except.bind]
  · -- the newest stamp of the longer stream
    obtain ⟨n', hn'⟩ : ∃ n', (labels tf (s ++ new)).getLast? = some n' := by
      cases hq : (labels tf (s ++ new)).getLast? with
      | none => exact absurd (List.getLast?_eq_none_iff.1 hq) (labels_ne_nil tf _ h.stamped hall)
      | some x => exact ⟨x, rfl⟩
    have hnewest : (resample tf (s ++ new)).getLast?.bind (·.ts) = some n' := by
      rw [newest_resample tf _ hc, hn']
    -- split the old buckets at the window
    have hW : (resample tf s).filter (fun c => !tooOld (n - life) c)
        = (resample tf s).dropWhile (tooOld (n - life)) :=
      (dropWhile_eq_filter_sorted (n - life) _ hSS).symm
    have hsplit : resample tf s = (resample tf s).takeWhile (tooOld (n - life))
        ++ (resample tf s).dropWhile (tooOld (n - life)) := (List.takeWhile_append_dropWhile).symm
    have holder : ∀ c ∈ (resample tf s).takeWhile (tooOld (n - life)), tooOld (n - life) c = true :=
      fun c hc => mem_takeWhile_imp' _ _ c hc
    rw [hW]
    -- the collapse of window ++ new
    have key : ∃ R, collapseCandles (some tf) false ((resample tf s).dropWhile (tooOld (n - life)) ++ new) = .ok R ∧
        R ≠ [] ∧ resample tf (s ++ new) = (resample tf s).takeWhile (tooOld (n - life)) ++ R ∧ (s = [] ∨ n ≤ n') := by
      rcases hn with hse | hn
      · subst hse
        have hR : collapseCandles (some tf) false new = .ok (resample tf new) :=
          collapse_eq_resample tf htf new (by intro c hc; exact hnw.stamped c (List.mem_of_mem_head? hc))
            (hnw.cleanOk tf) (labelsMono_of_sorted tf htf new hnw.sorted)
        refine ⟨resample tf new, by simpa [resample, resampleR] using hR, ?_, by simp [resample, resampleR], Or.inl rfl⟩
        intro he
        rw [List.nil_append] at hnewest
        rw [he] at hnewest; simp at hnewest
      · -- the newest old bucket is inside the window
        obtain ⟨lastC, hl⟩ : ∃ l, (resample tf s).getLast? = some l := by
          cases hq : (resample tf s).getLast? with
          | none => rw [hq] at hn; cases hn
          | some l => exact ⟨l, rfl⟩
        have hlt : lastC.ts = some n := by rw [hl] at hn; simpa using hn
        have hWne : (resample tf s).dropWhile (tooOld (n - life)) ≠ [] := by
          rw [← hW]
          intro he
          have : lastC ∈ (resample tf s).filter (fun c => !tooOld (n - life) c) := by
            refine List.mem_filter.2 ⟨List.mem_of_getLast? hl, ?_⟩
            simp only [tooOld, hlt, Bool.not_eq_true', decide_eq_false_iff_not, not_lt]
            linarith
          rw [he] at this; cases this
        obtain ⟨R, hR1, hR2, hR3⟩ := collapse_suffix_append tf htf s new _ _ h hsplit hWne
        refine ⟨R, hR1, hR2, hR3, Or.inr ?_⟩
        have hnl : (labels tf s).getLast? = some n := by rw [← newest_resample tf s hcs]; exact hn
        unfold LabelsMono at hm
        rw [labels_append] at hm hn'
        exact pairwise_last_le _ _ n n' hm hnl hn'
    obtain ⟨R, hR1, hR2, hR3, hle⟩ := key
    refine ⟨n', ?_, Or.inr hnewest, hle⟩
    rw [tasks_cfgTfLife, hR1]
    simp only [bind, Except.bind]
    -- trim R with its newest stamp
    have hSSR : SortedStamped R := by rw [hR3] at hSSf; exact hSSf.append_right
    obtain ⟨lastR, hlR⟩ : ∃ l, R.getLast? = some l := by
      cases hq : R.getLast? with
      | none => exact absurd (List.getLast?_eq_none_iff.1 hq) hR2
      | some l => exact ⟨l, rfl⟩
    have hltR : lastR.ts = some n' := by
      rw [hR3, List.getLast?_append, hlR] at hnewest
      simpa using hnewest
    rw [trim_eq_window life hlife R hSSR lastR n' hlR hltR, hR3, List.filter_append]
    have : ((resample tf s).takeWhile (tooOld (n - life))).filter (fun c => !tooOld (n' - life) c) = [] := by
      apply List.filter_eq_nil_iff.2
      intro c hc
      have h1 := holder c hc
      rcases hle with hse | hle
      · subst hse; simp [resample, resampleR] at hc
      · cases hts : c.ts with
        | none => simp [tooOld, hts] at h1
        | some t =>
          simp only [tooOld, hts, decide_eq_true_eq] at h1
          simp only [tooOld, hts, Bool.not_eq_true', decide_eq_false_iff_not, not_lt, not_le]
          linarith
    rw [this, List.nil_append]

end Hex

import HexProofs.Manager2.ShiftKinds
import HexProofs.Framework.Kinds.All
import HexProofs.Framework.Schedule
import HexProofs.Manager.Trim
/-
From the shift invariance of one reading to `Indicator.append` on a trimmed list: `calculate()`
on `finished candles ++ new raw candles` with the first `d` candles popped computes the same
readings as on the untrimmed list, provided (a) ONE finished candle survives the pop (then
`_find_calc_index` – whose scan inspects index 0 since the repair – resumes at the first new candle
on both sides and every new candle has its predecessor), and (b) the kind's reachable-state condition holds (EMA / RMA seeded).
-/
namespace Hex
set_option linter.unusedSectionVars false
variable {F : Type} [PyF F]

/-! ### the shift contract of a leaf -/

/-- what the loop needs from a kind: a state condition `P cs k` ("about to compute index `k`")
under which the reading at `k` is shift-invariant, and which a computation step re-establishes
for `k + 1` -/
structure ShiftOK (ind : Ind F) where
  P : List (Candle F) → Nat → Prop
  shift : ∀ (cs : List (Candle F)) (k d : Nat), P cs k → d + 1 ≤ k → k < cs.length →
    readKind ind.kind { cs := cs.drop d, i := (k : Int) - d, name := ind.name }
      = readKind ind.kind { cs := cs, i := k, name := ind.name }
  step : ∀ (cs : List (Candle F)) (k : Nat) (c : Candle F) (v : Val F), P cs k → cs[k]? = some c → Plain c →
    readKind ind.kind { cs := cs, i := k, name := ind.name } = .ok v →
    P (cs.modify k (setKey ind.isSub ind.name (v.roundBy ind.round))) (k + 1)

/-- kinds without a state condition -/
def ShiftOK.ofUncond (ind : Ind F)
    (h : ∀ (x : Ctx F) (d : Nat), (d : Int) + 1 ≤ x.i → x.i < x.cs.length →
      readKind ind.kind (x.shift d) = readKind ind.kind x) : ShiftOK ind where
  P := fun _ _ => True
  shift := by
    intro cs k d _ hd hk
    exact h { cs := cs, i := k, name := ind.name } d (by simp only; omega) (by simp only; omega)
  step := fun _ _ _ _ _ _ _ _ => trivial

/-! ### list plumbing -/

theorem updateAt_nat (cs : List (Candle F)) (k : Nat) (g : Candle F → Candle F) (hk : k < cs.length) :
    updateAt cs (k : Int) g = .ok (cs.modify k g) := by
  unfold updateAt
  have h1 : ¬ ((k : Int) < 0) := by omega
  have h2 : ¬ ((k : Int) ≥ (cs.length : Int)) := by omega
  simp only [h1, if_false, false_or, h2]
  rw [show ((k : Int)).toNat = k by omega]

theorem stepLeaf_nat (ind : Ind F) (cs : List (Candle F)) (k : Nat) (hk : k < cs.length) :
    stepLeaf ind cs k = (do
      let v ← readKind ind.kind { cs := cs, i := k, name := ind.name }
      pure (cs.modify k (setKey ind.isSub ind.name (v.roundBy ind.round)))) := by
  unfold stepLeaf
  cases readKind ind.kind { cs := cs, i := (k : Int), name := ind.name } with
  | error e => rfl
  | ok v => simp only [bind, Except.bind, setReading_eq, updateAt_nat cs k _ hk]; rfl

theorem pyIndex_nat {α : Type} (l : List α) (k : Nat) (c : α) (h : l[k]? = some c) :
    pyIndex l (k : Int) = .ok c := by
  rw [pyIndex_nonneg _ _ (by omega)]
  simp [h, getOrIndexError]

theorem eq_dropLast_append_of_getLast? {α : Type} (a : List α) (z : α) (hz : a.getLast? = some z) :
    a = a.dropLast ++ [z] := by
  rcases List.eq_nil_or_concat a with rfl | ⟨pre, x, rfl⟩
  · cases hz
  · simp only [List.concat_eq_append, List.getLast?_append, List.getLast?_singleton, Option.some_or,
      Option.some.injEq] at hz
    subst hz
    simp

/-! ### the loop on a popped list -/

/-- **The calculation loop commutes with popping `d` leading candles**, from an index `k` whose
predecessor is retained, over raw candles -/
theorem leafLoop_drop (ind : Ind F) (S : ShiftOK ind) (d : Nat) :
    ∀ (n : Nat) (cs : List (Candle F)) (k : Nat), d + 1 ≤ k → k + n = cs.length →
      (∀ j c, k ≤ j → cs[j]? = some c → Plain c) → S.P cs k →
      leafLoop ind (cs.drop d) (k - d) n = (leafLoop ind cs k n).map (·.drop d) := by
  intro n
  induction n with
  | zero => intro cs k _ _ _ _; rfl
  | succ n ih =>
    intro cs k hd hlen hplain hP
    have hk : k < cs.length := by omega
    obtain ⟨c, hc⟩ : ∃ c, cs[k]? = some c := ⟨cs[k], List.getElem?_eq_getElem hk⟩
    have hcp : Plain c := hplain k c (le_refl k) hc
    have hcast : (((k - d : Nat)) : Int) = (k : Int) - d := by omega
    have hkd : k - d < (cs.drop d).length := by rw [List.length_drop]; omega
    rw [leafLoop, leafLoop]
    have hidx : pyIndex (cs.drop d) ((k - d : Nat) : Int) = .ok c := by
      rw [hcast, pyIndex_drop cs d k (by omega)]; exact pyIndex_nat cs k c hc
    rw [hidx, pyIndex_nat cs k c hc]
    simp only [bind, Except.bind, present_plain ind.name c hcp, Bool.false_eq_true, if_false]
    rw [stepLeaf_nat ind _ _ hkd, stepLeaf_nat ind cs k hk, hcast, S.shift cs k d hP hd hk]
    cases hv : readKind ind.kind { cs := cs, i := (k : Int), name := ind.name } with
    | error e => rfl
    | ok v =>
      simp only [bind, Except.bind, pure, Except.pure]
      have hmod : (cs.drop d).modify (k - d) (setKey ind.isSub ind.name (v.roundBy ind.round))
          = (cs.modify k (setKey ind.isSub ind.name (v.roundBy ind.round))).drop d :=
        (List.drop_modify_of_ge _ k d cs (by omega)).symm
      rw [hmod]
      have := ih (cs.modify k (setKey ind.isSub ind.name (v.roundBy ind.round))) (k + 1) (by omega)
        (by rw [List.length_modify]; omega)
        (by
          intro j c' hj hc'
          rw [List.getElem?_modify] at hc'
          have hne : ¬ k = j := by omega
          simp only [hne, if_false] at hc'
          cases hq : cs[j]? with
          | none => rw [hq] at hc'; cases hc'
          | some q =>
            rw [hq] at hc'
            have : q = c' := by simpa using hc'
            subst this
            exact hplain j q (by omega) hq)
        (S.step cs k c v hP hc hcp hv)
      rw [show k + 1 - d = k - d + 1 by omega] at this
      exact this

/-- **`calculate()` commutes with popping `d` leading candles** when ONE finished candle survives:
`_find_calc_index` (whose backward scan inspects every index down to 0) resumes at the first raw
candle on both sides, and every raw candle has its predecessor -/
theorem leafCalc_drop (ind : Ind F) (S : ShiftOK ind) (a new : List (Candle F)) (d : Nat)
    (hfin : ∀ c ∈ a, hasKey ind.name c = true) (hnew : ∀ c ∈ new, Plain c)
    (hkeep : d + 1 ≤ a.length) (hP : S.P (a ++ new) a.length) :
    leafCalc ind ((a ++ new).drop d) = (leafCalc ind (a ++ new)).map (·.drop d) := by
  have hfresh : ∀ c ∈ new, hasKey ind.name c = false := fun c hc => hasKey_plain ind.name c (hnew c hc)
  have hdrop : (a ++ new).drop d = a.drop d ++ new := List.drop_append_of_le_length (by omega)
  have hfinD : ∀ c ∈ a.drop d, hasKey ind.name c = true := fun c hc => hfin c (List.mem_of_mem_drop hc)
  have hidxA := findCalcIndex_split ind.name a new hfin hfresh
  have hidxB := findCalcIndex_split ind.name (a.drop d) new hfinD hfresh
  unfold leafCalc
  rw [hdrop, hidxA, hidxB, ← hdrop]
  have e1 : ((a ++ new).drop d).length - (a.drop d).length = new.length := by
    simp only [List.length_drop, List.length_append]; omega
  have e2 : (a ++ new).length - a.length = new.length := by simp
  rw [e1, e2, List.length_drop]
  refine leafLoop_drop ind S d new.length (a ++ new) a.length (by omega) (by simp) ?_ hP
  intro j c hj hc
  rw [List.getElem?_append_right hj] at hc
  exact hnew c (List.mem_of_getElem? hc)

/-- what must survive the pop for `calculate()` to compute the same readings: nothing was popped,
or ONE finished candle (the predecessor of the first new candle) is retained -/
def KeepOK (a : List (Candle F)) (d : Nat) : Prop := d = 0 ∨ d + 1 ≤ a.length

theorem leafCalc_drop_keep (ind : Ind F) (S : ShiftOK ind) (a new : List (Candle F)) (d : Nat)
    (hfin : ∀ c ∈ a, hasKey ind.name c = true) (hnew : ∀ c ∈ new, Plain c)
    (hkeep : KeepOK a d) (hP : S.P (a ++ new) a.length) :
    leafCalc ind ((a ++ new).drop d) = (leafCalc ind (a ++ new)).map (·.drop d) := by
  rcases hkeep with h0 | h1
  · subst h0
    simp only [List.drop_zero]
    cases leafCalc ind (a ++ new) <;> simp [Except.map]
  · exact leafCalc_drop ind S a new d hfin hnew h1 hP

/-! ### the manager's trim pops leading candles -/

theorem dropWhile_eq_drop' {α : Type} (p : α → Bool) (l : List α) :
    l.dropWhile p = l.drop (l.takeWhile p).length := by
  induction l with
  | nil => rfl
  | cons x r ih =>
    by_cases hx : p x = true
    · rw [List.dropWhile_cons_of_pos hx, List.takeWhile_cons_of_pos hx]; simpa using ih
    · rw [List.dropWhile_cons_of_neg hx, List.takeWhile_cons_of_neg hx]; rfl

/-- `trim_candles` returns its argument minus some leading candles -/
theorem trim_is_drop (life : Option Int) (cs r : List (Candle F)) (h : trimCandles life cs = .ok r) :
    ∃ m, r = cs.drop m ∧ m ≤ cs.length := by
  unfold trimCandles at h
  split at h
  · exact ⟨0, by cases h; rfl, by omega⟩
  · exact ⟨0, by cases h; rfl, by omega⟩
  · split at h
    · exact ⟨0, by cases h; rfl, by omega⟩
    · simp only at h
      split at h
      · cases h
      · cases h
        exact ⟨_, dropWhile_eq_drop' _ _, (List.takeWhile_sublist _).length_le⟩

/-! ### `Indicator.append` on a trimmed twin -/

/-- lifespan only -/
def cfgLifeOnly (life : Int) : MgrCfg := { lifespan := some life }

theorem tasks_lifeOnly (life : Int) (cs : List (Candle F)) :
    tasks (cfgLifeOnly life) cs = trimCandles (some life) cs := by
  unfold tasks cfgLifeOnly collapseCandles
  simp [bind, Except.bind]

/-- **One `append` on a lifespan-trimmed indicator.**  `a` is the finished candle list of the
untrimmed twin, the trimmed indicator holds `a.drop d₀`.  If, after `append new`, the trim leaves
at least ONE of the already finished candles (`r` = the trimmed list, `KeepOK`), and the kind's state condition holds, then the trimmed indicator ends with exactly the candles of the untrimmed twin
minus the popped ones – same readings, same exception if a reading raises. -/
theorem append_trimmed (ind : Ind F) (hl : IsLeaf ind) (S : ShiftOK ind) (life : Int)
    (a new r : List (Candle F)) (d₀ : Nat) (actA actB : Int) (hd₀ : d₀ ≤ a.length)
    (hfin : ∀ c ∈ a, hasKey ind.name c = true) (hnew : ∀ c ∈ new, Plain c) (hne : new ≠ [])
    (htrim : trimCandles (some life) (a.drop d₀ ++ new) = .ok r)
    (hkeep : KeepOK a (a.length + new.length - r.length)) (hP : S.P (a ++ new) a.length) :
    candlesOf (IndState.append ({ tree := ind, mgr := { cfg := cfgLifeOnly life, candles := a.drop d₀ }, active := actB } : IndState F) new)
      = (candlesOf (IndState.append ({ tree := ind, mgr := { cfg := {}, candles := a }, active := actA } : IndState F)
          new)).map (·.drop (a.length + new.length - r.length)) := by
  obtain ⟨m, hr, hm⟩ := trim_is_drop _ _ _ htrim
  have hab : a.drop d₀ ++ new = (a ++ new).drop d₀ := (List.drop_append_of_le_length hd₀).symm
  have hr' : r = (a ++ new).drop (d₀ + m) := by rw [hr, hab, List.drop_drop]
  have hrl : r.length = a.length + new.length - (d₀ + m) := by rw [hr']; simp
  have hml : m ≤ (a.drop d₀ ++ new).length := hm
  rw [List.length_append, List.length_drop] at hml
  have hd : a.length + new.length - r.length = d₀ + m := by omega
  rw [hd] at hkeep
  have hempty : new.isEmpty = false := by cases new <;> simp at hne ⊢
  have hA : IndState.append ({ tree := ind, mgr := { cfg := {}, candles := a }, active := actA } : IndState F) new
      = IndState.calculate { tree := ind, mgr := { cfg := {}, candles := a ++ new }, active := actA } := by
    unfold IndState.append
    simp only [Manager.append_default, bind, Except.bind]
  have hB : IndState.append ({ tree := ind, mgr := { cfg := cfgLifeOnly life, candles := a.drop d₀ }, active := actB } : IndState F) new
      = IndState.calculate { tree := ind, mgr := { cfg := cfgLifeOnly life, candles := r }, active := actB } := by
    unfold IndState.append Manager.append
    simp only [hempty, Bool.false_eq_true, if_false, tasks_lifeOnly, htrim, bind, Except.bind]
    rfl
  rw [hA, hB, IndState.calculate_leaf _ hl, IndState.calculate_leaf _ hl, hd]
  simp only
  rw [hr', leafCalc_drop_keep ind S a new (d₀ + m) hfin hnew hkeep hP]
  cases leafCalc ind (a ++ new) <;> rfl

end Hex

namespace Hex
set_option linter.unusedSectionVars false
variable {F : Type} [PyF F]

/-- one retained finished candle is enough -/
theorem keepOK_of_one (a new r : List (Candle F)) (h : new.length + 1 ≤ r.length)
    (hr : r.length ≤ a.length + new.length) : KeepOK a (a.length + new.length - r.length) :=
  Or.inr (by omega)

end Hex

import HexProofs.Manager2.TwinTreesTf
import HexProofs.Numeric.TotalMoreHA
/-
C15, second clause (readings on the retained candles equal those of the untrimmed twin) on HEIKIN-ASHI managers:
`{ha, lifespan}` next to `{ha}` and `{timeframe, ha, lifespan}` next to `{timeframe, ha}` – every `CoveredTreeX`
class, every lifespan, every construction prefix and append schedule of pristine candles.

The conversion is itself a recurrence (HA-open of a candle = mean of the previous CONVERTED open / close), but a
converted candle is tagged and never converted again: `_find_conv_index` resumes after the last tagged candle and
uses it as the predecessor.  So after a trim
  * the retained candles keep the values they got when their predecessor was still there;
  * the candles converted by an append are the new ones and – with a timeframe – the bucket the append re-opens
    (`Candle.merge` restores its raw values and clears the tag); their predecessor is the LAST CLOSED candle.
Hence both managers fit the interface `TwinMgr` with the SAME closed counts as their unconverted counterparts
(`TwinMgr.ha`: every candle held is closed; `TwinMgr.tfHA`: `closedBuckets`), and the drop law holds as soon as
one closed candle is retained (`d + 1 ≤ closed`) – which every look-back `treeLook ≥ 1` already asks for.
No extra bucket is needed, and since conversion changes neither the number of candles nor their stamps the retention
hypotheses are literally those of the unconverted statements (`RetainsFrom` / `RetainsBuckets`:
`retainsClosed_ha`, `retainsClosed_tfHA`).  `C15b_trees_ha`, `C15b_trees_tf_ha`: all `CoveredTreeX` classes.
The naive count (the still-forming bucket counted as retained history) stays insufficient with conversion
(`C15b_trees_tf_ha_naive_false`, replayed on the library: same HA values, different reading on the re-opened bucket).
What the hypotheses exclude is shown at the end: a re-opened bucket that is the FIRST retained candle is converted
as if it were the first candle ever (its OHLC differ from the twin's; replayed on the library).
-/
namespace Hex
set_option linter.unusedSectionVars false
set_option linter.unusedSimpArgs false
set_option linter.unusedVariables false
variable {F : Type} [PyF F]

/-! ### what conversion appends depends on the last candle only -/

/-- converting fresh candles after two lists whose last candles agree (up to readings) appends the SAME candles -/
theorem haFold_ext_congr (Q : List (Candle F)) : ∀ (X Y : List (Candle F)),
    X.getLast?.map Candle.bare = Y.getLast?.map Candle.bare →
    ∃ ext, haFold X Q = X ++ ext ∧ haFold Y Q = Y ++ ext ∧ (∀ c ∈ ext, Plain c) ∧ ext.length = Q.length := by
  induction Q with
  | nil => intro X Y _; exact ⟨[], by simp [haFold], by simp [haFold], by simp, rfl⟩
  | cons c rest ih =>
    intro X Y h
    have e : haCandle c Y.getLast? = haCandle c X.getLast? := haCandle_congr c _ _ h.symm
    obtain ⟨ext, h1, h2, h3, h4⟩ := ih (X ++ [haCandle c X.getLast?]) (Y ++ [haCandle c X.getLast?])
      (by simp)
    refine ⟨haCandle c X.getLast? :: ext, by simp [haFold, h1], by simp [haFold, e, h2], ?_, by simp [h4]⟩
    intro x hx
    rcases List.mem_cons.1 hx with rfl | hx
    · exact plain_haCandle _ _
    · exact h3 x hx

theorem getLast?_drop_lt {α : Type} (X : List α) (d : Nat) (h : d < X.length) :
    (X.drop d).getLast? = X.getLast? := by
  rw [List.getLast?_drop, if_neg (by omega)]

/-- **`convert_candles` on a dressed converted list minus `d` leading candles** (at least one is left) followed
by unconverted candles: the result is that of the whole list minus those `d` candles -/
theorem convert_tagged_drop (D T : List (Candle F)) (hD : ∀ c ∈ D, c.tag = true) (hT : ∀ c ∈ T, c.tag = false) :
    ∃ ext, (∀ c ∈ ext, Plain c) ∧ ext.length = T.length ∧ haFold D T = D ++ ext ∧
      convertCandles (D ++ T) = .ok (D ++ ext) ∧
      ∀ d, d < D.length → convertCandles (D.drop d ++ T) = .ok ((D ++ ext).drop d) := by
  obtain ⟨ext, h1, _, h3, h4⟩ := haFold_ext_congr T D D rfl
  refine ⟨ext, h3, h4, h1, by rw [convertCandles_resume D T hD hT, h1], ?_⟩
  intro d hd
  obtain ⟨ext', e1, e2, _, _⟩ := haFold_ext_congr T D (D.drop d) (by rw [getLast?_drop_lt D d hd])
  have : ext' = ext := List.append_cancel_left (e1.symm.trans h1)
  subst this
  rw [convertCandles_resume (D.drop d) T (fun c hc => hD c (List.mem_of_mem_drop hc)) hT, e2,
    List.drop_append_of_le_length (by omega)]

/-! ### base timeframe + Heikin-Ashi -/

/-- **The Heikin-Ashi manager without timeframe as a `TwinMgr`**: spec `haSpec`, every candle held is closed. -/
def TwinMgr.ha (F : Type) [PyF F] : TwinMgr F where
  cfg := cfgHAOnly
  nolife := rfl
  Ok := RawHAPlain
  spec := haSpec
  closed := fun s _ => s.length
  ok_left := fun a b h c hc => h c (by simp [hc])
  spec_plain := fun s _ => plain_haSpec s
  init := (MgrSpec.ha F).init
  append := fun s new done hok hne hd => by
    have hl : done.length = s.length := by rw [← hd.length_eq, haSpec_length]
    have hT : ∀ c ∈ new, c.tag = false := fun c hc => (hok c (by simp [hc])).2
    obtain ⟨ext, hp, hlen, hfold, hconv, hdrop⟩ := convert_tagged_drop done new
      (hd.tagged (haSpec_rel s).tagged) hT
    obtain ⟨ext0, e1, e2, _, _⟩ := haFold_ext_congr new (haSpec s) done hd.getLast?.symm
    have he : ext0 = ext := List.append_cancel_left (e2.symm.trans hfold)
    subst he
    refine ⟨ext0, hp, by omega, by omega, ?_, ?_, ?_⟩
    · rw [tasks_haOnly, ← hl, List.take_length]; exact hconv
    · rw [← haSpec_length s, List.take_length, haSpec_append, e1]
    · intro d hd1
      rw [tasks_haOnly, ← hl, List.take_length]
      exact hdrop d (by omega)

/-! ### collapsing timeframe + Heikin-Ashi -/

theorem closedOf_congr_ts (tf : Int) (X Y new : List (Candle F)) (h : X.map (·.ts) = Y.map (·.ts)) :
    closedOf tf X new = closedOf tf Y new := by
  have hlen : X.length = Y.length := by simpa using congrArg List.length h
  have hlast : X.getLast?.map (·.ts) = Y.getLast?.map (·.ts) := by
    rw [← List.getLast?_map, ← List.getLast?_map, h]
  unfold closedOf
  cases hx : X.getLast? with
  | none =>
    cases hy : Y.getLast? with
    | none => simp [hlen]
    | some y => rw [hx, hy] at hlast; simp at hlast
  | some x =>
    cases hy : Y.getLast? with
    | none => rw [hx, hy] at hlast; simp at hlast
    | some y =>
      rw [hx, hy] at hlast
      have : x.ts = y.ts := by simpa using hlast
      cases new.head? with
      | none => simp [hlen]
      | some c => simp [this, hlen]

/-- what a re-collapse puts after the closed buckets is raw: never converted -/
theorem resample_tail_untouched (tf : Int) (X : List (Candle F)) (c : Candle F) (rest : List (Candle F)) (t : Int)
    (hct : c.ts = some t) (hun : ∀ x ∈ c :: rest, Untouched x) (hsX : resampleR tf X = X.reverse) :
    ∀ x ∈ (resample tf (X ++ c :: rest)).drop (closedOf tf X (c :: rest)), Untouched x := by
  have hunc : Untouched c := hun c (by simp)
  have hunr : ∀ x ∈ rest, Untouched x := fun x hx => hun x (by simp [hx])
  rcases List.eq_nil_or_concat X with hnil | ⟨A, bl, hP⟩
  · subst hnil
    intro x hx
    exact resample_untouched tf _ hun x (List.mem_of_mem_drop (by simpa using hx))
  · simp only [List.concat_eq_append] at hP
    subst hP
    have e2 : resampleR tf (A ++ [bl] ++ c :: rest)
        = rest.foldl (resampleStep tf) (resampleStep tf (bl :: A.reverse) c) := by
      rw [resampleR_append', hsX]; simp
    rw [closedOf_snoc tf A bl c rest t hct]
    by_cases hm : bl.ts = some (label tf t)
    · have s2 : resampleStep tf (bl :: A.reverse) c = [bl.merge c] ++ A.reverse := by
        simp [resampleStep, hct, hm]
      unfold resample
      rw [e2, s2, foldl_step_tail tf rest _ _ (by simp), if_pos hm]
      intro x hx
      simp only [List.reverse_append, List.reverse_reverse, List.drop_left'] at hx
      exact foldl_step_untouched tf rest _
        (by intro y hy; simp at hy; subst hy; exact untouched_merge bl c) hunr x (List.mem_reverse.1 hx)
    · have s2 : resampleStep tf (bl :: A.reverse) c
          = [{ c with ts := some (label tf t) }] ++ (bl :: A.reverse) := by
        simp [resampleStep, hct, hm]
      unfold resample
      rw [e2, s2, foldl_step_tail tf rest _ _ (by simp), if_neg hm]
      intro x hx
      simp only [List.reverse_append, List.reverse_reverse, List.reverse_cons] at hx
      rw [List.drop_left' (by simp)] at hx
      exact foldl_step_untouched tf rest _
        (by intro y hy; simp at hy; subst hy; exact hunc) hunr x (List.mem_reverse.1 hx)

/-- **One append on `{timeframe, ha}`, dressed converted buckets, canonical closed count** – and the same list
minus `d` leading buckets, as long as one closed bucket is left (`d + 1 ≤ closedBuckets`): the re-opened bucket
and the new ones are converted with the last closed bucket as predecessor. `Q`: the raw tail of the re-collapse. -/
theorem tasks_tf_ha_closed (tf : Int) (htf : 0 < tf) (s new done : List (Candle F))
    (hok : RawTfHA (s ++ new)) (hne : new ≠ []) (hd : Dressed (haSpec (resample tf s)) done) :
    ∃ ext, (∀ c ∈ ext, Plain c) ∧ ext ≠ [] ∧
      tasks (cfgTfHA tf) (done ++ new) = .ok (done.take (closedBuckets tf s new) ++ ext) ∧
      haFold ((haSpec (resample tf s)).take (closedBuckets tf s new))
          ((resample tf (haSpec (resample tf s) ++ new)).drop (closedBuckets tf s new))
        = (haSpec (resample tf s)).take (closedBuckets tf s new) ++ ext ∧
      ∀ d, d + 1 ≤ closedBuckets tf s new →
        tasks (cfgTfHA tf) (done.drop d ++ new) = .ok ((done.take (closedBuckets tf s new) ++ ext).drop d) := by
  have hs : RawTf s := hok.1.append_left
  have hn : RawTf new := hok.1.append_right
  have hcs := hs.cleanOk tf
  have hms : LabelsMono tf s := labelsMono_of_sorted tf htf s hs.sorted
  have hb : BucketedR tf (resampleR tf s) := resampleR_bucketed tf htf s hcs hms
  have hrel : HaRel (resample tf s) (haSpec (resample tf s)) := haSpec_rel _
  have hts := hrel.ts_eq
  have hstamp : ∀ b ∈ resample tf s, ∃ t, b.ts = some t ∧ t % tf = 0 :=
    fun b hb' => hb.stamped b (List.mem_reverse.1 hb')
  have hmono : LabelsMono tf (haSpec (resample tf s) ++ new) := by
    have := labelsMono_resample_append tf htf s new hcs (labelsMono_of_sorted tf htf _ hok.1.sorted)
    unfold LabelsMono at this ⊢
    rw [labels_append] at this ⊢
    rw [labels_of_ts_eq tf _ _ hts]; exact this
  have hbZ : BucketedR tf (haSpec (resample tf s)).reverse := by
    apply bucketedR_of_ts_eq tf _ (resampleR tf s) _ hb
    rw [List.map_reverse, hts]; unfold resample; rw [List.map_reverse, List.reverse_reverse]
  have hsZ : resampleR tf (haSpec (resample tf s)) = (haSpec (resample tf s)).reverse := by
    have := resampleR_reverse_self tf _ hbZ; simpa using this
  have hk : closedOf tf (haSpec (resample tf s)) new = closedBuckets tf s new :=
    closedOf_congr_ts tf _ _ new hts
  obtain ⟨Q, hQp, hQne, hcol, hres, hdropc⟩ := collapse_dressed_closed tf htf (haSpec (resample tf s)) new done
    hbZ (hrel.cleanOk tf hstamp) hn hne hmono hd
  rw [hk] at hcol hres hdropc
  have hkle : closedBuckets tf s new ≤ (haSpec (resample tf s)).length := by
    rw [← hk]; exact closedOf_le tf _ new
  have hlenD : done.length = (haSpec (resample tf s)).length := hd.length_eq.symm
  -- the raw tail
  have hQeq : (resample tf (haSpec (resample tf s) ++ new)).drop (closedBuckets tf s new) = Q := by
    rw [hres, List.drop_left' (by rw [List.length_take]; omega)]
  have hQun : ∀ x ∈ Q, Untouched x := by
    rw [← hQeq, ← hk]
    cases new with
    | nil => exact absurd rfl hne
    | cons c rest =>
      obtain ⟨t, hct⟩ : ∃ t, c.ts = some t := by
        cases h : c.ts with
        | none => exact absurd h (hn.stamped c (by simp))
        | some t => exact ⟨t, rfl⟩
      exact resample_tail_untouched tf _ c rest t hct hok.append_right.rawHA.untouched hsZ
  rw [hQeq]
  -- conversion resumes after the closed buckets
  have htag : ∀ c ∈ done.take (closedBuckets tf s new), c.tag = true :=
    fun c hc => hd.tagged hrel.tagged c (List.mem_of_mem_take hc)
  obtain ⟨ext, hp, hlen, hfold, hconv, hdrop⟩ := convert_tagged_drop (done.take (closedBuckets tf s new)) Q htag
    (fun c hc => (hQun c hc).1)
  obtain ⟨ext0, e1, e2, _, _⟩ := haFold_ext_congr Q ((haSpec (resample tf s)).take (closedBuckets tf s new))
    (done.take (closedBuckets tf s new)) (hd.take _).getLast?.symm
  have he : ext0 = ext := List.append_cancel_left (e2.symm.trans hfold)
  subst he
  refine ⟨ext0, hp, ?_, ?_, e1, ?_⟩
  · intro h0; rw [h0] at hlen; exact hQne (List.eq_nil_of_length_eq_zero hlen.symm)
  · rw [tasks_cfgTfHA', hcol]; exact hconv
  · intro d hd1
    rw [tasks_cfgTfHA', hdropc d (by omega), List.drop_append_of_le_length (by rw [List.length_take]; omega)]
    simp only [bind, Except.bind]
    rw [hdrop d (by rw [List.length_take]; omega),
      List.drop_append_of_le_length (by rw [List.length_take]; omega)]

/-- **The collapsing-timeframe + Heikin-Ashi manager as a `TwinMgr`**: spec `haSpec ∘ resample tf`, closed
count `closedBuckets tf` (that of the unconverted timeframe manager). -/
def TwinMgr.tfHA (F : Type) [PyF F] (tf : Int) (htf : 0 < tf) : TwinMgr F where
  cfg := cfgTfHA tf
  nolife := rfl
  Ok := RawTfHA
  spec := fun s => haSpec (resample tf s)
  closed := closedBuckets tf
  ok_left := fun a b h => h.append_left
  spec_plain := fun s _ => plain_haSpec _
  init := (MgrSpec.tfHA F tf htf).init
  append := fun s new done hok hne hd => by
    obtain ⟨ext, hp, hne', htasks, hfold, hdrop⟩ := tasks_tf_ha_closed tf htf s new done hok hne hd
    obtain ⟨ext0, _, _, htasks0, hfold0, _⟩ := tasks_tf_ha_closed tf htf s new (haSpec (resample tf s)) hok hne
      (Dressed.refl _)
    have he : ext0 = ext := List.append_cancel_left (hfold0.symm.trans hfold)
    subst he
    have hlenD : done.length = (resample tf s).length := by rw [← hd.length_eq, haSpec_length]
    have h1 := closedOf_le tf (resample tf s) new
    have h2 := le_closedOf_succ tf (resample tf s) new
    have hl : 1 ≤ ext0.length := by
      cases ext0 with
      | nil => exact absurd rfl hne'
      | cons _ _ => simp
    refine ⟨ext0, hp, ?_, ?_, htasks, ?_, hdrop⟩
    · unfold closedBuckets; omega
    · unfold closedBuckets; omega
    · have := tasks_tf_ha_append tf htf s new hok.rawHA
      rw [htasks0] at this
      exact (Except.ok.inj this).symm

/-! ### the retention hypotheses are those of the unconverted managers

Conversion changes neither the number of candles nor their stamps, and the trim reads stamps only. -/

/-- `RetainsClosed` only looks at the stamps of the spec -/
theorem RetainsClosed.congr_ts (spec spec' : List (Candle F) → List (Candle F))
    (closed : List (Candle F) → List (Candle F) → Nat) (L : Nat) (life : Int)
    (hts : ∀ s, (spec' s).map (·.ts) = (spec s).map (·.ts)) (chunks : List (List (Candle F))) :
    ∀ (s : List (Candle F)) (d : Nat), RetainsClosed spec closed L life s d chunks →
      RetainsClosed spec' closed L life s d chunks := by
  induction chunks with
  | nil => intro s d _; trivial
  | cons ch rest ih =>
    intro s d h
    unfold RetainsClosed at h ⊢
    rcases h with ⟨hce, h⟩ | ⟨hne, m', htrim, hcount, hrest⟩
    · exact Or.inl ⟨hce, ih s d h⟩
    · have hl : (spec' (s ++ ch)).length = (spec (s ++ ch)).length := by
        simpa using congrArg List.length (hts (s ++ ch))
      have hts' : ((spec' (s ++ ch)).drop d).map (·.ts) = ((spec (s ++ ch)).drop d).map (·.ts) := by
        rw [List.map_drop, List.map_drop, hts]
      obtain ⟨_, hle, htrim'⟩ := trim_congr_ts life _ _ m' hts' htrim
      rw [List.length_drop] at hle htrim'
      have hm : (((spec' (s ++ ch)).drop d).drop ((spec (s ++ ch)).length - d - m'.length)).length
          = m'.length := by
        rw [List.length_drop, List.length_drop, hl]; omega
      refine Or.inr ⟨hne, _, htrim', ?_, ?_⟩
      · rw [hm, hl]; exact hcount
      · rw [hm, hl]; exact ih _ _ hrest

/-- **`{timeframe, ha}`: the hypothesis of the unconverted timeframe manager** (`RetainsBuckets`, closed buckets of
`resample tf`) is the hypothesis on the converted buckets -/
theorem retainsClosed_tfHA (L : Nat) (tf life : Int) (s : List (Candle F)) (d : Nat)
    (chunks : List (List (Candle F))) (h : RetainsBuckets L tf life s d chunks) :
    RetainsClosed (fun s => haSpec (resample tf s)) (closedBuckets tf) L life s d chunks :=
  RetainsClosed.congr_ts (resample tf) _ (closedBuckets tf) L life (fun s => (haSpec_rel _).ts_eq) chunks s d h

theorem trim_init_congr (life : Int) (cs cs' : List (Candle F)) (hts : cs'.map (·.ts) = cs.map (·.ts))
    (h : trimCandles (some life) cs = .ok cs) : trimCandles (some life) cs' = .ok cs' := by
  obtain ⟨_, _, h'⟩ := trim_congr_ts life cs cs' cs hts h
  simpa using h'

/-- **`{ha}`: the hypothesis of the plain lifespan manager** (`RetainsFrom`, on the raw candles) is the hypothesis
on the converted candles: `s` the raw stream so far, `d` leading candles popped -/
theorem retainsClosed_ha (L : Nat) (life : Int) (chunks : List (List (Candle F))) :
    ∀ (s : List (Candle F)) (d : Nat), d ≤ s.length → RetainsFrom L life (s.drop d) s.length chunks →
      RetainsClosed haSpec (fun s _ => s.length) L life s d chunks := by
  induction chunks with
  | nil => intro s d _ _; trivial
  | cons ch rest ih =>
    intro s d hd h
    unfold RetainsFrom at h
    unfold RetainsClosed
    rcases h with ⟨hce, h⟩ | ⟨hne, m', htrim, hcount, hrest⟩
    · exact Or.inl ⟨hce, ih s d hd h⟩
    · have hcs : s.drop d ++ ch = (s ++ ch).drop d := (List.drop_append_of_le_length hd).symm
      rw [hcs] at htrim
      have hts' : ((haSpec (s ++ ch)).drop d).map (·.ts) = ((s ++ ch).drop d).map (·.ts) := by
        rw [List.map_drop, List.map_drop, (haSpec_rel _).ts_eq]
      obtain ⟨hm', hle, htrim'⟩ := trim_congr_ts life _ _ m' hts' htrim
      have hm'' : m' = (s ++ ch).drop (s.length + ch.length - m'.length) := by
        have e : d + (((s ++ ch).drop d).length - m'.length) = s.length + ch.length - m'.length := by
          rw [List.length_drop, List.length_append] at hle ⊢; omega
        rw [List.drop_drop, e] at hm'
        exact hm'
      rw [List.length_drop, List.length_append] at hle htrim'
      have hl : (haSpec (s ++ ch)).length = s.length + ch.length := by rw [haSpec_length, List.length_append]
      have hm : (((haSpec (s ++ ch)).drop d).drop (s.length + ch.length - d - m'.length)).length
          = m'.length := by
        rw [List.length_drop, List.length_drop, hl]; omega
      refine Or.inr ⟨hne, _, htrim', ?_, ?_⟩
      · rw [hm, hl]
        rcases hcount with hc | hc
        · left; omega
        · right; omega
      · rw [hm, hl]
        apply ih (s ++ ch) _ (by rw [List.length_append]; omega)
        rw [List.length_append]
        rw [← hm'']; exact hrest

/-! ### the configurations -/

/-- Heikin-Ashi + lifespan -/
def cfgHALife (life : Int) : MgrCfg := { ha := true, lifespan := some life }
/-- timeframe + Heikin-Ashi + lifespan -/
def cfgTfHALife (tf life : Int) : MgrCfg := { tf := some tf, ha := true, lifespan := some life }

theorem cfgHA_withLife (life : Int) : cfgHAOnly.withLife life = cfgHALife life := rfl
theorem cfgTfHA_withLife (tf life : Int) : (cfgTfHA tf).withLife life = cfgTfHALife tf life := rfl

/-! ### the theorems -/

/-- **Whole schedule on a Heikin-Ashi manager, any tree with `TwinOK`.** -/
theorem twin_schedule_tree_ha (ind : Ind F) {L : Nat} (T : TwinOK ind L) (life : Int)
    (init : List (Candle F)) (chunks : List (List (Candle F))) (hraw : RawHAPlain (init ++ chunks.flatten))
    (hinit : trimCandles (some life) init = .ok init)
    (hret : RetainsFrom L life init init.length chunks) (a b : List (Candle F))
    (ha : candlesOf (runIndicator ind (cfgHALife life) init chunks) = .ok a)
    (hb : candlesOf (runIndicator ind cfgHAOnly init chunks) = .ok b) : ∃ d, a = b.drop d :=
  twin_schedule_mgr (TwinMgr.ha F) ind T life init chunks hraw
    (trim_init_congr life init (haSpec init) (haSpec_rel _).ts_eq hinit)
    (retainsClosed_ha L life chunks init 0 (Nat.zero_le _) (by simpa using hret)) a b ha hb

/-- **Whole schedule on a collapsing timeframe with Heikin-Ashi conversion, any tree with `TwinOK`.** -/
theorem twin_schedule_tree_tf_ha (ind : Ind F) {L : Nat} (T : TwinOK ind L) (tf : Int) (htf : 0 < tf) (life : Int)
    (init : List (Candle F)) (chunks : List (List (Candle F))) (hraw : RawTfHA (init ++ chunks.flatten))
    (hinit : trimCandles (some life) (resample tf init) = .ok (resample tf init))
    (hret : RetainsBuckets L tf life init 0 chunks) (a b : List (Candle F))
    (ha : candlesOf (runIndicator ind (cfgTfHALife tf life) init chunks) = .ok a)
    (hb : candlesOf (runIndicator ind (cfgTfHA tf) init chunks) = .ok b) : ∃ d, a = b.drop d :=
  twin_schedule_mgr (TwinMgr.tfHA F tf htf) ind T life init chunks hraw
    (trim_init_congr life _ (haSpec (resample tf init)) (haSpec_rel _).ts_eq hinit)
    (retainsClosed_tfHA L tf life init 0 chunks hret) a b ha hb

/-- **C15, second clause, on a Heikin-Ashi manager – every shipped class.**  For every `CoveredTreeX` kind (the 27
classes), every lifespan, every construction prefix `init` and append schedule `chunks` of reading-free, not yet
converted candles (`RawHAPlain`): under EXACTLY the hypothesis of the unconverted statement `C15b_trees_look` –
the trim pops nothing at construction and at every non-empty append either nothing has been popped so far or
`treeLook k name round` candles from before the append are retained (`RetainsFrom`, on the raw stamps) – whenever
the run with `{candlestick = HA, candles_lifespan}` and its untrimmed twin `{candlestick = HA}` both return, the
trimmed indicator holds exactly the twin's candles minus the popped ones: same Heikin-Ashi OHLC (each retained
candle keeps the values computed when its predecessor was still there), same saved raw values, same readings,
helper series and `_data` series. -/
theorem C15b_trees_ha (k : Kind F) (name : String) (round : Nat) (hc : CoveredTreeX name k)
    (life : Int) (init : List (Candle F)) (chunks : List (List (Candle F)))
    (hraw : RawHAPlain (init ++ chunks.flatten)) (hinit : trimCandles (some life) init = .ok init)
    (hret : RetainsFrom (treeLook k name round) life init init.length chunks) (a b : List (Candle F))
    (ha : candlesOf (runIndicator (mkTop k name round) (cfgHALife life) init chunks) = .ok a)
    (hb : candlesOf (runIndicator (mkTop k name round) cfgHAOnly init chunks) = .ok b) : ∃ d, a = b.drop d :=
  twin_schedule_tree_ha (mkTop k name round) (hc.twinOK round) life init chunks hraw hinit hret a b ha hb

/-- **C15, second clause, on a collapsing timeframe with Heikin-Ashi conversion – every shipped class.**  Streams of
pristine candles (`RawTfHA`: stamped, sorted, reading-free, never converted), every timeframe `tf > 0`, every
lifespan: under EXACTLY the hypothesis of the unconverted statement `C15b_trees_tf` – nothing popped at
construction, `treeLook k name round` CLOSED buckets retained at every popping append (`RetainsBuckets`, on the
unconverted resampled stream) – whenever the run with `{timeframe, HA, candles_lifespan}` and its untrimmed twin
`{timeframe, HA}` both return, the trimmed indicator holds the twin's candles minus the popped leading buckets
(Heikin-Ashi OHLC, saved raw values, readings, helper and `_data` series; the forming bucket included).  One
retained closed bucket is what the conversion itself needs (the re-opened bucket is converted again, with the last
closed bucket as predecessor); `treeLook ≥ 1` provides it – no additional bucket is required. -/
theorem C15b_trees_tf_ha (k : Kind F) (name : String) (round : Nat) (hc : CoveredTreeX name k)
    (tf : Int) (htf : 0 < tf) (life : Int) (init : List (Candle F)) (chunks : List (List (Candle F)))
    (hraw : RawTfHA (init ++ chunks.flatten))
    (hinit : trimCandles (some life) (resample tf init) = .ok (resample tf init))
    (hret : RetainsBuckets (treeLook k name round) tf life init 0 chunks) (a b : List (Candle F))
    (ha : candlesOf (runIndicator (mkTop k name round) (cfgTfHALife tf life) init chunks) = .ok a)
    (hb : candlesOf (runIndicator (mkTop k name round) (cfgTfHA tf) init chunks) = .ok b) : ∃ d, a = b.drop d :=
  twin_schedule_tree_tf_ha (mkTop k name round) (hc.twinOK round) tf htf life init chunks hraw hinit hret a b ha hb

/-! ### non-vacuity (toy carrier `Int`) -/

section Demo
set_option synthInstance.maxSize 4000

/-- a number as an `Int` (toy carrier) -/
def numv : Num Int → Int
  | .flt n => n
  | .int n => n

/-- Heikin-Ashi OHLC, tag and saved raw close of a candle -/
def viewHA (c : Candle Int) : (Int × Int × Int × Int) × Bool × Option Int :=
  ((numv c.o, numv c.h, numv c.l, numv c.c), c.tag, c.clean.map (fun k => numv k.c))

private def mkc (o h l c v : Int) (t : Int) : Candle Int :=
  { o := .int o, h := .int h, l := .int l, c := .int c, v := .int v, ts := some t }

/-! `{ha}`: the schedule of HexProofs/Manager2/TwinTrees.lean (five candles, lifespan 240 s; the append of 420
pops 60 and 120, the append of 480 pops 180) -/

theorem haDemo_raw : RawHAPlain (ttInit ++ [tt420, [], tt480].flatten) :=
  show ∀ c ∈ ttInit ++ [tt420, [], tt480].flatten, Plain c ∧ c.tag = false from by decide

def runTha (k : Kind Int) (name : String) : PyM (List (Candle Int)) :=
  candlesOf (runIndicator (mkTop k name 4) (cfgHALife 240) ttInit [tt420, [], tt480])
def runUha (k : Kind Int) (name : String) : PyM (List (Candle Int)) :=
  candlesOf (runIndicator (mkTop k name 4) cfgHAOnly ttInit [tt420, [], tt480])

/-- the theorem applied to the demo – ATR 3 (look-back 2) over Heikin-Ashi candles -/
example (a b : List (Candle Int)) (ha : runTha (.atr 3) "ATR_3" = .ok a) (hb : runUha (.atr 3) "ATR_3" = .ok b) :
    ∃ d, a = b.drop d :=
  C15b_trees_ha (.atr 3) "ATR_3" 4 atrDemoOK 240 ttInit [tt420, [], tt480] haDemo_raw rfl
    (by rw [atrDemo_look]; exact ttDemo_retains2) a b ha hb
/-- both runs return; the trimmed run holds the twin's last four candles: HA values, tags, saved closes, readings -/
example : (runTha (.atr 3) "ATR_3").toOption.map (·.map (fun c => (viewHA c, view c)))
    = (runUha (.atr 3) "ATR_3").toOption.map (fun b => (b.drop 3).map (fun c => (viewHA c, view c))) := by
  decide +kernel
/-- the retained candles carry the Heikin-Ashi values computed when their predecessors were still there (the HA open
35 of the candle stamped 240 is the mean of the HA open / close 28, 42 of the popped candle 180), not the raw prices -/
example : (runTha (.atr 3) "ATR_3").toOption.map (·.map viewHA) = some
    [((35, 120, 10, 65), true, some 120), ((50, 60, 20, 42), true, some 60), ((46, 46, 10, 25), true, some 30),
     ((35, 170, 35, 105), true, some 160)] := by decide +kernel
example : (runTha (.atr 3) "ATR_3").toOption.map (·.map view) = some
    [(some 240, [("ATR_3", [("", some 60)])], [("ATR_3_TR", [("", some 110)])]),
     (some 300, [("ATR_3", [("", some 55)])], [("ATR_3_TR", [("", some 45)])]),
     (some 420, [("ATR_3", [("", some 48)])], [("ATR_3_TR", [("", some 36)])]),
     (some 480, [("ATR_3", [("", some 80)])], [("ATR_3_TR", [("", some 145)])])] := by decide +kernel
example (a b : List (Candle Int)) (ha : runTha (.rsi 2 "close") "RSI_2" = .ok a)
    (hb : runUha (.rsi 2 "close") "RSI_2" = .ok b) : ∃ d, a = b.drop d :=
  C15b_trees_ha (.rsi 2 "close") "RSI_2" 4 rsiDemoOK 240 ttInit [tt420, [], tt480] haDemo_raw rfl
    (by rw [rsiDemo_look]; exact ttDemo_retains2) a b ha hb
example : (runTha (.rsi 2 "close") "RSI_2").toOption.map (·.map (fun c => (viewHA c, view c)))
    = (runUha (.rsi 2 "close") "RSI_2").toOption.map (fun b => (b.drop 3).map (fun c => (viewHA c, view c))) := by
  decide +kernel
example : ((runTha (.rsi 2 "close") "RSI_2").toOption.map (·.map view)).isSome = true := by decide +kernel

/-! `{timeframe, ha}`: the schedule of HexProofs/Manager2/TwinTreesTf.lean (one-minute candles on 120 s buckets,
lifespan 360 s; three buckets popped over five non-empty appends, one merge-only, two merge-and-open) -/

theorem tfHADemo_raw : RawTfHA (tfInit ++ tfChunks.flatten) := ⟨tfDemo_raw, by decide⟩

def runTtfha (k : Kind Int) (name : String) : PyM (List (Candle Int)) :=
  candlesOf (runIndicator (mkTop k name 4) (cfgTfHALife 120 360) tfInit tfChunks)
def runUtfha (k : Kind Int) (name : String) : PyM (List (Candle Int)) :=
  candlesOf (runIndicator (mkTop k name 4) (cfgTfHA 120) tfInit tfChunks)

example (a b : List (Candle Int)) (ha : runTtfha (.atr 3) "ATR_3" = .ok a)
    (hb : runUtfha (.atr 3) "ATR_3" = .ok b) : ∃ d, a = b.drop d :=
  C15b_trees_tf_ha (.atr 3) "ATR_3" 4 atrDemoOK 120 (by decide) 360 tfInit tfChunks tfHADemo_raw tfDemo_init
    (by rw [atrDemo_look]; exact tfDemo_retains) a b ha hb
example : (runTtfha (.atr 3) "ATR_3").toOption.map (·.map (fun c => (viewHA c, view c)))
    = (runUtfha (.atr 3) "ATR_3").toOption.map (fun b => (b.drop 3).map (fun c => (viewHA c, view c))) := by
  decide +kernel
example : (runUtfha (.atr 3) "ATR_3").toOption.map (·.map (·.ts))
    = some [some 120, some 240, some 360, some 480, some 600, some 720, some 840] := by decide +kernel
/-- the trimmed run: buckets 480 … 840 with the twin's Heikin-Ashi values (bucket 600 and 720 were re-opened and
converted again, each time with the last closed bucket as predecessor) and the twin's ATR / TR series -/
example : (runTtfha (.atr 3) "ATR_3").toOption.map (·.map viewHA) = some
    [((69, 100, 60, 76), true, some 65), ((72, 150, 60, 98), true, some 120), ((85, 125, 30, 87), true, some 75),
     ((86, 110, 20, 58), true, some 30)] := by decide +kernel
example : (runTtfha (.atr 3) "ATR_3").toOption.map (·.map view) = some
    [(some 480, [("ATR_3", [("", some 81)])], [("ATR_3_TR", [("", some 40)])]),
     (some 600, [("ATR_3", [("", some 84)])], [("ATR_3_TR", [("", some 90)])]),
     (some 720, [("ATR_3", [("", some 87)])], [("ATR_3_TR", [("", some 95)])]),
     (some 840, [("ATR_3", [("", some 88)])], [("ATR_3_TR", [("", some 90)])])] := by decide +kernel
example (a b : List (Candle Int)) (ha : runTtfha (.rsi 2 "close") "RSI_2" = .ok a)
    (hb : runUtfha (.rsi 2 "close") "RSI_2" = .ok b) : ∃ d, a = b.drop d :=
  C15b_trees_tf_ha (.rsi 2 "close") "RSI_2" 4 rsiDemoOK 120 (by decide) 360 tfInit tfChunks tfHADemo_raw tfDemo_init
    (by rw [rsiDemo_look]; exact tfDemo_retains) a b ha hb
example : (runTtfha (.rsi 2 "close") "RSI_2").toOption.map (·.map (fun c => (viewHA c, view c)))
    = (runUtfha (.rsi 2 "close") "RSI_2").toOption.map (fun b => (b.drop 3).map (fun c => (viewHA c, view c))) := by
  decide +kernel
example : ((runTtfha (.rsi 2 "close") "RSI_2").toOption.map (·.map view)).isSome = true := by decide +kernel

/-! ### CLOSED buckets, also with conversion: the naive count is not enough

The schedule of `C15b_trees_tf_naive_false` (ROC 2 on 120 s buckets 240, 360 and the forming bucket 480, lifespan
240 s; the append `[480, 540]` re-opens 480, opens 600 and pops 240) with Heikin-Ashi conversion: two buckets from
before the append are retained, but 480 was re-opened.  The CONVERSION is unaffected (bucket 480 is converted again
with bucket 360 as predecessor, on both sides: same HA values) – the engine's recomputed reading on it is not: `None`
on the popped list, `100` for the twin.  Replayed on the real library (`candlestick_type="HA"`, `timeframe="S120"`):
trimmed `[None, None, 94.4444]`, twin `[None, None, 140.9091, 94.4444]`, identical HA OHLC on the three retained
buckets. -/

def cxTha : PyM (List (Candle Int)) :=
  candlesOf (runIndicator (mkTop (.roc 2 "close") "ROC_2" 4) (cfgTfHALife 120 240) cxInit cxChunks)
def cxUha : PyM (List (Candle Int)) :=
  candlesOf (runIndicator (mkTop (.roc 2 "close") "ROC_2" 4) (cfgTfHA 120) cxInit cxChunks)

theorem cxTha_view : cxTha.toOption.map (·.map view) = some
    [(some 360, [("ROC_2", [("", none)])], []), (some 480, [("ROC_2", [("", none)])], []),
     (some 600, [("ROC_2", [("", some 0)])], [])] := by decide +kernel
theorem cxUha_view : cxUha.toOption.map (·.map view) = some
    [(some 240, [("ROC_2", [("", none)])], []), (some 360, [("ROC_2", [("", none)])], []),
     (some 480, [("ROC_2", [("", some 100)])], []), (some 600, [("ROC_2", [("", some 0)])], [])] := by
  decide +kernel
/-- the Heikin-Ashi values themselves agree on the retained buckets -/
example : cxTha.toOption.map (·.map viewHA) = cxUha.toOption.map (fun b => (b.drop 1).map viewHA) := by
  decide +kernel

/-- **The statement with the naive hypothesis (every bucket held before the append counts) is false on
`{timeframe, HA}` managers as well** (witness over `Int`, replayed on the library). -/
theorem C15b_trees_tf_ha_naive_false :
    ¬ (∀ (k : Kind Int) (name : String) (round : Nat), CoveredTreeX name k → ∀ (tf : Int), 0 < tf →
        ∀ (life : Int) (init : List (Candle Int)) (chunks : List (List (Candle Int))),
        RawTfHA (init ++ chunks.flatten) → trimCandles (some life) (resample tf init) = .ok (resample tf init) →
        RetainsBucketsNaive (treeLook k name round) tf life init 0 chunks → ∀ a b,
        candlesOf (runIndicator (mkTop k name round) (cfgTfHALife tf life) init chunks) = .ok a →
        candlesOf (runIndicator (mkTop k name round) (cfgTfHA tf) init chunks) = .ok b → ∃ d, a = b.drop d) := by
  intro H
  have hT := cxTha_view
  have hU := cxUha_view
  cases hA : cxTha with
  | error e => rw [hA] at hT; cases hT
  | ok a =>
    cases hB : cxUha with
    | error e => rw [hB] at hU; cases hU
    | ok b =>
      rw [hA] at hT; rw [hB] at hU
      simp only [Except.toOption, Option.map_some, Option.some.injEq] at hT hU
      obtain ⟨d, hd⟩ := H (.roc 2 "close") "ROC_2" 4 rocDemoOK 120 (by decide) 240 cxInit cxChunks
        ⟨⟨by decide, by decide, by decide, by decide⟩, by decide⟩ rfl
        (by rw [rocDemo_look]; exact retainsClosed_of_B _ _ 2 240 cxChunks cxInit 0 (by decide +kernel))
        a b hA hB
      have hv : a.map view = (b.map view).drop d := by rw [hd, List.map_drop]
      rw [hT, hU] at hv
      match d, hv with
      | 0, hv => simp at hv
      | 1, hv => revert hv; decide
      | (n + 2), hv =>
        have := congrArg List.length hv
        simp at this
        omega

/-! ### what the hypotheses exclude: the re-opened bucket as the FIRST retained candle

If the lifespan is so short that a trim leaves only the still-forming bucket (here already at construction: lifespan
60 s on 120 s buckets – `hinit` fails), the next merge re-opens it, `_find_conv_index` sees an untagged first candle
and converts it as if it were the first candle ever (HA open = mean of its OWN open / close: 65), while the twin uses
the predecessor (45): the candle values themselves differ.  Replayed on the real library: trimmed
`(open 65.0, high 90, low 45, close 66.25)`, twin `(open 45.0, high 90, low 45.0, close 66.25)`. -/

def voidInit : List (Candle Int) := [mkc 40 45 30 35 50 300, mkc 35 60 30 50 70 360, mkc 50 70 45 60 90 420]
def voidChunks : List (List (Candle Int)) := [[mkc 60 90 55 80 30 480]]
example : (trimCandles (some 60) (resample 120 voidInit)).toOption.map (·.map (·.ts)) = some [some 480] := by
  decide +kernel
example : (candlesOf (runIndicator (mkTop (.roc 2 "close") "ROC_2" 4) (cfgTfHALife 120 60) voidInit
      voidChunks)).toOption.map (·.map viewHA) = some [((65, 90, 45, 66), true, some 80)] := by decide +kernel
example : (candlesOf (runIndicator (mkTop (.roc 2 "close") "ROC_2" 4) (cfgTfHA 120) voidInit
      voidChunks)).toOption.map (·.map viewHA)
    = some [((45, 60, 30, 45), true, some 50), ((45, 90, 45, 66), true, some 80)] := by decide +kernel

end Demo

#print axioms TwinMgr.ha
#print axioms TwinMgr.tfHA
#print axioms retainsClosed_ha
#print axioms retainsClosed_tfHA
#print axioms C15b_trees_ha
#print axioms C15b_trees_tf_ha
#print axioms C15b_trees_tf_ha_naive_false

end Hex

import HexProofs.Manager2.FillReadings
/-
Heikin-Ashi + timeframe + gap filling (C11) for raw input candles that ALREADY CARRY READINGS.
`HexProps/C11.lean` leaves `with_timeframe_fill_FULL` open because `run_fill_ha_schedule`
(`HexProofs/Manager2/HAFill.lean`) takes a `RawTf` stream (reading-free).  The proof never uses
that: conversion wipes the readings of every candle it converts, the collapse wipes those of every
bucket it merges into, and neither reads them.  Re-proved here for `RawR` streams; the FULL
statement is restated verbatim (`WithTimeframeFillFULL`) and proved for every positive timeframe.
-/
namespace Hex
set_option linter.unusedSectionVars false
variable {F : Type} [PyF F]

theorem RawR.rawHA {xs : List (Candle F)} (h : RawR xs) (htag : ∀ c ∈ xs, c.tag = false) : RawHA xs :=
  ⟨h.stamped, fun c hc => ⟨htag c hc, h.cleanNone c hc⟩, h.sorted⟩

/-- the gap-filled resampling of an unconverted stream is unconverted (cf. `FilledOf.untouched`) -/
theorem FilledOfR.untouched {tf : Int} {s Z : List (Candle F)} (h : FilledOfR tf s Z)
    (hs : ∀ c ∈ s, Untouched c) : ∀ c ∈ Z, Untouched c := by
  intro c hc
  rcases mem_fillMissing tf _ Z h.eq c hc with h1 | ⟨p, u, rfl⟩
  · exact resample_untouched tf s hs c h1
  · exact untouched_fillCandle p u

/-- **One pass of collapse (+ fill) → convert**, streams with readings
(cf. `tasks_fill_ha_append`) -/
theorem tasks_fill_ha_appendR (tf : Int) (htf : 0 < tf) (s new Z : List (Candle F))
    (hraw : RawR (s ++ new)) (htag : ∀ c ∈ s ++ new, c.tag = false) (hZ : FilledOfR tf s Z) :
    ∃ Z', FilledOfR tf (s ++ new) Z' ∧ tasks (cfgFillHA tf) (haSpec Z ++ new) = .ok (haSpec Z') := by
  have hha : RawHA (s ++ new) := hraw.rawHA htag
  have hn : RawHA new := hha.append_right
  have hunZ : ∀ c ∈ Z, Untouched c := hZ.untouched hha.append_left.untouched
  obtain ⟨Z', hZ'⟩ := filledOfR tf htf (s ++ new) hraw
  obtain ⟨k, Q, _, hcol, hres, hQ⟩ := collapse_ha_bk tf htf Z new hZ.bucketed.reverseR hunZ hn
    (labelsMono_filled_appendR tf htf s new Z hraw hZ)
  have hfill : fillMissing tf (Z.take k ++ Q) = .ok Z' := by
    rw [← hres, fill_resample_appendR tf htf s new Z hraw hZ]; exact hZ'.eq
  obtain ⟨T, hZT, hfillZ, hT⟩ := fill_ha_prefix tf htf (Z.take k) Q Z' (contiguous_take tf Z k hZ.contig)
    (fun c hc => hunZ c (List.mem_of_mem_take hc)) hQ hfill
  have hfirst : ∀ c, (haSpec Z ++ new).head? = some c → c.ts ≠ none := by
    intro c hc
    cases hz : haSpec Z with
    | nil => rw [hz] at hc; exact hn.stamped c (List.mem_of_mem_head? (by simpa using hc))
    | cons y yr =>
      rw [hz] at hc; simp at hc; subst hc
      have hmem : y.ts ∈ (haSpec Z).map (·.ts) := List.mem_map.2 ⟨y, by rw [hz]; simp, rfl⟩
      rw [(haSpec_rel Z).ts_eq] at hmem
      obtain ⟨b, hb, hby⟩ := List.mem_map.1 hmem
      obtain ⟨t, ht, _⟩ := hZ.bucketed.stamped b hb
      rw [← hby, ht]; simp
  refine ⟨Z', hZ', ?_⟩
  rw [tasks_cfgFillHA, collapse_fill_eq tf _ hfirst, hcol]
  simp only [bind, Except.bind]
  rw [hfillZ]
  simp only
  by_cases he : (haSpec (Z.take k) ++ T).isEmpty = true
  · have h1 : haSpec (Z.take k) = [] ∧ T = [] := by simpa using he
    have hA : Z.take k = [] := haSpec_eq_nil _ h1.1
    simp [hZT, h1.2, hA, haSpec_nil]
  · simp only [he, Bool.false_eq_true, if_false]
    rw [convertCandles_resume (haSpec (Z.take k)) T (haSpec_rel _).tagged (fun c hc => (hT c hc).1),
      ← haSpec_append, ← hZT]

/-- **Every append schedule, timeframe + fill + Heikin-Ashi, streams with readings** (manager
level; cf. `manager_fill_ha_schedule`) -/
theorem manager_fill_ha_scheduleR (tf : Int) (htf : 0 < tf) (chunks : List (List (Candle F))) :
    ∀ (s Z : List (Candle F)), FilledOfR tf s Z → RawR (s ++ chunks.flatten) →
      (∀ c ∈ s ++ chunks.flatten, c.tag = false) →
      chunks.foldlM (fun (m : Manager F) ch => m.append ch) { cfg := cfgFillHA tf, candles := haSpec Z }
        = .ok { cfg := cfgFillHA tf, candles := haSpec (fillSpec tf (s ++ chunks.flatten)) } := by
  induction chunks with
  | nil => intro s Z hZ _ _; simp [hZ.spec_eq, pure, Except.pure]
  | cons ch rest ih =>
    intro s Z hZ hraw htag
    have hraw' : RawR ((s ++ ch) ++ rest.flatten) := by simpa [List.append_assoc] using hraw
    have htag' : ∀ c ∈ (s ++ ch) ++ rest.flatten, c.tag = false := by simpa [List.append_assoc] using htag
    have hsch : RawR (s ++ ch) := hraw'.append_left
    have htsch : ∀ c ∈ s ++ ch, c.tag = false := fun c hc => htag' c (List.mem_append_left _ hc)
    simp only [List.foldlM_cons, List.flatten_cons, bind, Except.bind]
    by_cases hch : ch = []
    · subst hch
      have e : Manager.append ({ cfg := cfgFillHA tf, candles := haSpec Z } : Manager F) []
          = .ok { cfg := cfgFillHA tf, candles := haSpec Z } := by simp [Manager.append]
      rw [e]
      simpa using ih s Z hZ (by simpa using hraw) (by simpa using htag)
    · obtain ⟨Z', hZ', htasks⟩ := tasks_fill_ha_appendR tf htf s ch Z hsch htsch hZ
      have hne : ch.isEmpty = false := by cases ch <;> simp at hch ⊢
      have happ : Manager.append ({ cfg := cfgFillHA tf, candles := haSpec Z } : Manager F) ch
          = .ok { cfg := cfgFillHA tf, candles := haSpec Z' } := by
        unfold Manager.append
        simp only [hne, Bool.false_eq_true, if_false, htasks, bind, Except.bind]
        rfl
      rw [happ]
      have := ih (s ++ ch) Z' hZ' hraw' htag'
      simpa [List.append_assoc] using this

/-- **Every append schedule with timeframe + gap filling + Heikin-Ashi, input candles carrying any
readings.**  From any starting size (including empty and one candle): the candles indicators see are
the Heikin-Ashi left fold over the gap-filled collapsed RAW buckets (`fillSpec`), the fill pass of
the specification succeeds, and no call raises.  Every converted candle is reading-free
(`haCandle` has `inds := []`, `subs := []`): whatever entries the raw candles carried are gone after
conversion, single-candle buckets included. -/
theorem fill_ha_schedule_readings (tf : Int) (htf : 0 < tf) (init : List (Candle F))
    (chunks : List (List (Candle F))) (hraw : RawR (init ++ chunks.flatten))
    (htag : ∀ c ∈ init ++ chunks.flatten, c.tag = false) :
    runSched (cfgFillHA tf) init chunks
      = .ok { cfg := cfgFillHA tf, candles := haSpec (fillSpec tf (init ++ chunks.flatten)) } ∧
    fillMissing tf (resample tf (init ++ chunks.flatten)) = .ok (fillSpec tf (init ++ chunks.flatten)) := by
  refine ⟨?_, (filledOfR_spec tf htf _ hraw).eq⟩
  obtain ⟨Z0, hZ0⟩ := filledOfR tf htf ([] : List (Candle F)) rawR_nil
  have hnil := filledOfR_nil tf Z0 hZ0
  subst hnil
  obtain ⟨Z1, hZ1, h1⟩ := tasks_fill_ha_appendR tf htf [] init [] (by simpa using hraw.append_left)
    (by intro c hc; exact htag c (by simpa using Or.inl (by simpa using hc))) hZ0
  simp only [haSpec_nil, List.nil_append] at h1 hZ1
  unfold runSched Manager.init
  rw [h1]
  simp only [bind, Except.bind, pure, Except.pure]
  exact manager_fill_ha_scheduleR tf htf chunks init Z1 hZ1 hraw htag

/-- `with_timeframe_fill_FULL` of `HexProps/C11.lean`, restated verbatim (`RawStream` of
`HexProps/C03.lean` is `RawR`, `RawPlain` of `HexProps/C11.lean` is "no candle is tagged",
`runSchedule` is `runSched`) -/
def WithTimeframeFillFULL (F : Type) [PyF F] (tf : Int) : Prop :=
  ∀ (init : List (Candle F)) (chunks : List (List (Candle F))) (spec : List (Candle F)),
    RawR (init ++ chunks.flatten) → (∀ c ∈ init ++ chunks.flatten, c.tag = false) →
    fillMissing tf (resample tf (init ++ chunks.flatten)) = .ok spec →
    runSched ({ tf := some tf, fill := true, ha := true } : MgrCfg) init chunks
      = .ok { cfg := { tf := some tf, fill := true, ha := true }, candles := haSpec spec }

/-- **`with_timeframe_fill_FULL` holds for every positive timeframe.** -/
theorem withTimeframeFillFULL (tf : Int) (htf : 0 < tf) : WithTimeframeFillFULL F tf := by
  intro init chunks spec hraw htag hspec
  obtain ⟨h1, h2⟩ := fill_ha_schedule_readings tf htf init chunks hraw htag
  rw [hspec] at h2
  rw [Except.ok.inj h2]
  exact h1

/-- every candle the indicators see after conversion carries no readings -/
theorem haSpec_noEntries (xs : List (Candle F)) : ∀ z ∈ haSpec xs, z.inds = [] ∧ z.subs = [] ∧ z.tag = true := by
  intro z hz
  have hrel := haSpec_rel xs
  have : ∀ {B Z : List (Candle F)}, HaRel B Z → ∀ z ∈ Z, z.inds = [] ∧ z.subs = [] ∧ z.tag = true := by
    intro B Z h
    induction h with
    | nil => intro z hz; cases hz
    | cons hbz _ ih =>
      intro z hz
      rcases List.mem_cons.1 hz with rfl | hz
      · obtain ⟨p, rfl⟩ := hbz; exact ⟨rfl, rfl, rfl⟩
      · exact ih z hz
  exact this hrel z hz

/-! ### non-vacuity over `Int` (the stream of `FillReadings.lean`: a two-bucket gap, three input
candles carrying `"X" ↦ 5`) -/

example : RawR ([readingsDemo[0]] ++ [[readingsDemo[1], readingsDemo[2]], [], [readingsDemo[3]], [readingsDemo[4]]].flatten) ∧
    (∀ c ∈ [readingsDemo[0]] ++ [[readingsDemo[1], readingsDemo[2]], [], [readingsDemo[3]], [readingsDemo[4]]].flatten,
      c.tag = false) ∧
    ¬ (∀ c ∈ readingsDemo, Plain c) :=
  ⟨⟨by decide, by decide, by decide⟩, by decide, by decide⟩

/-- the run returns: six converted candles (120, fills 180 and 240, 300, 360, 420), none carries
an entry any more -/
example : (runSched (cfgFillHA 60) [readingsDemo[0]]
      [[readingsDemo[1], readingsDemo[2]], [], [readingsDemo[3]], [readingsDemo[4]]]).toOption.map
      (fun m => m.candles.map (fun c => (c.ts, c.tag, numI c.v, c.inds.length, c.subs.length)))
    = some [ (some 120, true, 30, 0, 0), (some 180, true, 0, 0, 0), (some 240, true, 0, 0, 0),
             (some 300, true, 5, 0, 0), (some 360, true, 3, 0, 0), (some 420, true, 1, 0, 0) ] := by
  decide +kernel

end Hex

#print axioms Hex.fill_ha_schedule_readings
#print axioms Hex.withTimeframeFillFULL
#print axioms Hex.manager_fill_ha_scheduleR

import HexProofs.Manager2.TwinTreesFillHA
import HexProofs.Manager2.FillReadings
/-
C11 (Heikin-Ashi conversion follows its recurrence under every append schedule) TOGETHER WITH A LIFESPAN:
`{candlestick = HA, candles_lifespan}`, `{timeframe, HA, candles_lifespan}`, `{timeframe, timeframe_fill, HA,
candles_lifespan}` bare managers, every construction prefix and append schedule.

The task order is collapse → fill → convert → trim, so a trim pops candles that are ALREADY converted; the next append
re-collapses the retained list, `_find_conv_index` resumes after the last still-tagged candle and uses it as the
predecessor of the first candle it converts.  Hence

  * `ha_life_schedule` (no timeframe): for EVERY lifespan `≥ 0`, unconditionally, the manager holds
    `(haSpec stream).drop d` – the Heikin-Ashi left fold over the WHOLE raw stream minus the `d` popped candles (`d` is
    computed by `poppedAfter`: the sum of what each trim pops).  No retention hypothesis: a trim never pops the newest
    candle, so the predecessor of the next chunk is always there.
  * `tf_ha_life_schedule`, `fill_ha_life_schedule` (collapsing timeframe, without / with gap filling): the same with
    `haSpec (resample tf stream)` / `haSpec (fillSpec tf stream)` under `KeepsPredecessor`: at every non-empty append,
    either nothing has been popped so far or at least one CLOSED bucket (one the append does not re-open) is still held.
    `keepsPredecessor_of_retainsClosed`: C15's hypothesis `RetainsBuckets 1` / `RetainsFilled 1` (indeed any look-back
    `L ≥ 1`) implies it.
  * `tf_ha_life_needs_predecessor`: without it the statement is FALSE (lifespan 60 s on 120 s buckets: the trim leaves
    only the still-forming bucket, the next merge clears its tag, it is the first candle of the list and is converted as
    if it were the first candle ever – HA-open from its own open / close instead of the popped predecessor's).  Replayed
    on the library.  Exact threshold: the re-opened bucket must not be the first retained candle unless it is the first
    bucket of the whole stream.

Everything is derived from the `TwinMgr` interface (HexProofs/Manager2/TwinTreesTfCore.lean) instantiated with
`done := spec s` – `life_schedule_mgr` is generic in the manager.
-/
namespace Hex
set_option linter.unusedSectionVars false
set_option linter.unusedSimpArgs false
set_option linter.unusedVariables false
variable {F : Type} [PyF F]

/-! ### the trim as a drop -/

/-- a successful trim of a non-empty list leaves a non-empty list (the model raises `IndexError` otherwise) -/
theorem trim_ok_ne (life : Int) (X r : List (Candle F)) (h : trimCandles (some life) X = .ok r) (hX : X ≠ []) :
    r ≠ [] := by
  unfold trimCandles at h
  cases hl : X.getLast? with
  | none => rw [hl] at h; cases h; exact hX
  | some lastC =>
    rw [hl] at h
    simp only at h
    cases hts : lastC.ts with
    | none => rw [hts] at h; cases h; exact hX
    | some latest =>
      rw [hts] at h
      simp only at h
      split at h
      · cases h
      · rename_i hne
        cases h
        intro he; rw [he] at hne; exact hne rfl

theorem dropWhile_nil_all_c11 {α : Type} (p : α → Bool) (l : List α) (h : l.dropWhile p = []) :
    ∀ x ∈ l, p x = true := by
  induction l with
  | nil => intro x hx; cases hx
  | cons a r ih =>
    by_cases ha : p a = true
    · rw [List.dropWhile_cons_of_pos ha] at h
      intro x hx
      rcases List.mem_cons.1 hx with rfl | hx
      · exact ha
      · exact ih h x hx
    · rw [List.dropWhile_cons_of_neg ha] at h; cases h

/-- with a non-negative lifespan the trim never raises: the newest candle is never too old -/
theorem trim_total_nonneg (life : Int) (hlife : 0 ≤ life) (X : List (Candle F)) :
    ∃ r, trimCandles (some life) X = .ok r := by
  unfold trimCandles
  cases hl : X.getLast? with
  | none => exact ⟨X, rfl⟩
  | some lastC =>
    simp only
    cases hts : lastC.ts with
    | none => exact ⟨X, rfl⟩
    | some latest =>
      simp only
      have hne : (X.dropWhile (tooOld (latest - life))).isEmpty = false := by
        cases hd : X.dropWhile (tooOld (latest - life)) with
        | cons _ _ => rfl
        | nil =>
          have hall := dropWhile_nil_all_c11 _ X hd lastC (List.mem_of_getLast? hl)
          simp only [tooOld, hts, decide_eq_true_eq] at hall
          omega
      rw [hne]
      exact ⟨_, rfl⟩

/-- the number of leading candles one trim pops (`0` if the trim raises) -/
def poppedBy (life : Int) (X : List (Candle F)) : Nat :=
  match trimCandles (some life) X with
  | .ok r => X.length - r.length
  | .error _ => 0

theorem trim_eq_drop_nonneg (life : Int) (hlife : 0 ≤ life) (X : List (Candle F)) :
    trimCandles (some life) X = .ok (X.drop (poppedBy life X)) := by
  obtain ⟨r, hr⟩ := trim_total_nonneg life hlife X
  obtain ⟨h1, _, _⟩ := trim_congr_ts life X X r rfl hr
  unfold poppedBy
  rw [hr]
  simp only
  rw [← h1]

theorem poppedBy_lt (life : Int) (hlife : 0 ≤ life) (X : List (Candle F)) (hX : X ≠ []) :
    poppedBy life X < X.length := by
  obtain ⟨r, hr⟩ := trim_total_nonneg life hlife X
  obtain ⟨_, h2, _⟩ := trim_congr_ts life X X r rfl hr
  have hne := trim_ok_ne life X r hr hX
  have hrl : 0 < r.length := List.length_pos_iff.2 hne
  unfold poppedBy
  rw [hr]
  simp only
  omega

theorem poppedBy_le (life : Int) (X : List (Candle F)) : poppedBy life X ≤ X.length := by
  unfold poppedBy
  split <;> omega

/-- the trim only reads stamps -/
theorem poppedBy_congr_ts (life : Int) (X Y : List (Candle F)) (h : Y.map (·.ts) = X.map (·.ts)) :
    poppedBy life Y = poppedBy life X := by
  have hlen : Y.length = X.length := by simpa using congrArg List.length h
  unfold poppedBy
  cases hx : trimCandles (some life) X with
  | ok r =>
    obtain ⟨_, h2, h3⟩ := trim_congr_ts life X Y r h hx
    rw [h3]
    simp only [List.length_drop]
    omega
  | error e =>
    cases hy : trimCandles (some life) Y with
    | error e' => rfl
    | ok r' =>
      obtain ⟨_, _, h3⟩ := trim_congr_ts life Y X r' h.symm hy
      rw [h3] at hx; cases hx

/-! ### the schedule: what is popped, what must be kept -/

/-- the total number of leading spec candles popped after a schedule: `s` the raw stream received so far, `d` the number
popped so far (the manager holds `(spec s).drop d`); every non-empty append adds what its trim pops -/
def poppedAfter (spec : List (Candle F) → List (Candle F)) (life : Int) :
    List (Candle F) → Nat → List (List (Candle F)) → Nat
  | _, d, [] => d
  | s, d, ch :: rest =>
    if ch.isEmpty then poppedAfter spec life s d rest
    else poppedAfter spec life (s ++ ch) (d + poppedBy life ((spec (s ++ ch)).drop d)) rest

/-- **The retention hypothesis of the conversion.**  At every non-empty append either nothing has been popped so far
or at least one candle that the append leaves CLOSED is still held (`d + 1 ≤ closed s ch`): the candle the conversion
resumes from. -/
def KeepsPredecessor (spec : List (Candle F) → List (Candle F)) (closed : List (Candle F) → List (Candle F) → Nat)
    (life : Int) : List (Candle F) → Nat → List (List (Candle F)) → Prop
  | _, _, [] => True
  | s, d, ch :: rest =>
    if ch.isEmpty then KeepsPredecessor spec closed life s d rest
    else (d = 0 ∨ d + 1 ≤ closed s ch) ∧
      KeepsPredecessor spec closed life (s ++ ch) (d + poppedBy life ((spec (s ++ ch)).drop d)) rest

/-- the same as a Boolean check (concrete schedules) -/
def keepsPredecessorB (spec : List (Candle F) → List (Candle F)) (closed : List (Candle F) → List (Candle F) → Nat)
    (life : Int) : List (Candle F) → Nat → List (List (Candle F)) → Bool
  | _, _, [] => true
  | s, d, ch :: rest =>
    if ch.isEmpty then keepsPredecessorB spec closed life s d rest
    else (decide (d = 0) || decide (d + 1 ≤ closed s ch)) &&
      keepsPredecessorB spec closed life (s ++ ch) (d + poppedBy life ((spec (s ++ ch)).drop d)) rest

theorem keepsPredecessor_of_B (spec : List (Candle F) → List (Candle F))
    (closed : List (Candle F) → List (Candle F) → Nat) (life : Int) (chunks : List (List (Candle F))) :
    ∀ (s : List (Candle F)) (d : Nat), keepsPredecessorB spec closed life s d chunks = true →
      KeepsPredecessor spec closed life s d chunks := by
  induction chunks with
  | nil => intro s d _; trivial
  | cons ch rest ih =>
    intro s d h
    unfold keepsPredecessorB at h
    unfold KeepsPredecessor
    by_cases he : ch.isEmpty = true
    · simp only [he, if_true] at h ⊢
      exact ih s d h
    · simp only [he, Bool.false_eq_true, if_false] at h ⊢
      simp only [Bool.and_eq_true, Bool.or_eq_true, decide_eq_true_eq] at h
      exact ⟨h.1, ih _ _ h.2⟩

/-! ### the generic schedule theorem -/

/-- **Every append on a lifespan manager over a `TwinMgr`.**  The manager holds the spec of the stream so far minus the
popped candles, before and after. -/
theorem life_appends_mgr (M : TwinMgr F) (life : Int) (hlife : 0 ≤ life) (chunks : List (List (Candle F))) :
    ∀ (s : List (Candle F)) (d : Nat), M.Ok (s ++ chunks.flatten) →
      KeepsPredecessor M.spec M.closed life s d chunks →
      chunks.foldlM (fun (m : Manager F) ch => m.append ch)
          { cfg := M.cfg.withLife life, candles := (M.spec s).drop d }
        = .ok { cfg := M.cfg.withLife life,
                candles := (M.spec (s ++ chunks.flatten)).drop (poppedAfter M.spec life s d chunks) } := by
  induction chunks with
  | nil => intro s d _ _; simp [List.foldlM, pure, Except.pure, poppedAfter]
  | cons ch rest ih =>
    intro s d hok hk
    have hok' : M.Ok ((s ++ ch) ++ rest.flatten) := by simpa [List.append_assoc] using hok
    have hsch : M.Ok (s ++ ch) := M.ok_left _ _ hok'
    rw [List.foldlM_cons]
    unfold KeepsPredecessor at hk
    unfold poppedAfter
    by_cases he : ch.isEmpty = true
    · simp only [he, if_true] at hk ⊢
      have hnil : ch = [] := List.isEmpty_iff.1 he
      subst hnil
      have e : Manager.append ({ cfg := M.cfg.withLife life, candles := (M.spec s).drop d } : Manager F) []
          = .ok { cfg := M.cfg.withLife life, candles := (M.spec s).drop d } := by simp [Manager.append]
      rw [e]
      have := ih s d (by simpa using hok) hk
      simpa [bind, Except.bind] using this
    · have hef : ch.isEmpty = false := by simpa using he
      have hne : ch ≠ [] := fun h => by rw [h] at hef; simp at hef
      simp only [hef, Bool.false_eq_true, if_false] at hk ⊢
      obtain ⟨hkeep, hk'⟩ := hk
      obtain ⟨Q, _, hkc, _, htasks, hspec, hdrop⟩ := M.append s ch (M.spec s) hsch hne (Dressed.rfl' _)
      have htasksB : tasks M.cfg ((M.spec s).drop d ++ ch) = .ok ((M.spec (s ++ ch)).drop d) := by
        rw [hspec]
        rcases hkeep with h0 | h1
        · subst h0; simpa using htasks
        · exact hdrop d h1
      have happ : Manager.append ({ cfg := M.cfg.withLife life, candles := (M.spec s).drop d } : Manager F) ch
          = .ok { cfg := M.cfg.withLife life,
                  candles := (M.spec (s ++ ch)).drop (d + poppedBy life ((M.spec (s ++ ch)).drop d)) } := by
        simp only [Manager.append, hef, Bool.false_eq_true, if_false, tasks_withLife M.cfg M.nolife, htasksB,
          trim_eq_drop_nonneg life hlife, bind, Except.bind, List.drop_drop]
        rfl
      rw [happ]
      have := ih (s ++ ch) _ hok' hk'
      simpa [bind, Except.bind, List.append_assoc] using this

/-- **Whole schedule on a lifespan manager over a `TwinMgr`** (construction from any prefix, any appends): the
manager ends with the spec of the WHOLE stream minus the popped candles – never a re-conversion from a wrong
predecessor. -/
theorem life_schedule_mgr (M : TwinMgr F) (life : Int) (hlife : 0 ≤ life) (init : List (Candle F))
    (chunks : List (List (Candle F))) (hok : M.Ok (init ++ chunks.flatten))
    (hk : KeepsPredecessor M.spec M.closed life init (poppedBy life (M.spec init)) chunks) :
    runSched (M.cfg.withLife life) init chunks
      = .ok { cfg := M.cfg.withLife life,
              candles := (M.spec (init ++ chunks.flatten)).drop
                (poppedAfter M.spec life init (poppedBy life (M.spec init)) chunks) } := by
  have hoki : M.Ok init := M.ok_left _ _ hok
  unfold runSched Manager.init
  rw [tasks_withLife M.cfg M.nolife, M.init init hoki]
  simp only [bind, Except.bind, trim_eq_drop_nonneg life hlife, pure, Except.pure]
  exact life_appends_mgr M life hlife chunks init _ hok hk

/-! ### C15's hypothesis implies `KeepsPredecessor` -/

/-- `RetainsClosed` with any look-back `L ≥ 1` (C15's `RetainsBuckets` / `RetainsFilled`, on the converted spec)
implies `KeepsPredecessor` -/
theorem keepsPredecessor_of_retainsClosed (M : TwinMgr F) (L : Nat) (hL : 1 ≤ L) (life : Int)
    (chunks : List (List (Candle F))) :
    ∀ (s : List (Candle F)) (d : Nat), M.Ok (s ++ chunks.flatten) → d ≤ (M.spec s).length →
      RetainsClosed M.spec M.closed L life s d chunks → KeepsPredecessor M.spec M.closed life s d chunks := by
  induction chunks with
  | nil => intro s d _ _ _; trivial
  | cons ch rest ih =>
    intro s d hok hd h
    have hok' : M.Ok ((s ++ ch) ++ rest.flatten) := by simpa [List.append_assoc] using hok
    have hsch : M.Ok (s ++ ch) := M.ok_left _ _ hok'
    unfold RetainsClosed at h
    unfold KeepsPredecessor
    rcases h with ⟨hce, h⟩ | ⟨hne, m', htrim, hcount, hrest⟩
    · subst hce
      simp only [List.isEmpty_nil, if_true]
      exact ih s d (by simpa using hok) hd h
    · have hef : ch.isEmpty = false := by cases ch <;> simp at hne ⊢
      simp only [hef, Bool.false_eq_true, if_false]
      obtain ⟨Q, _, hkc, hgrow, _, hspec, _⟩ := M.append s ch (M.spec s) hsch hne (Dressed.rfl' _)
      have hYlen : (M.spec (s ++ ch)).length = M.closed s ch + Q.length := by
        rw [hspec, List.length_append, List.length_take]; omega
      obtain ⟨_, hle, _⟩ := trim_congr_ts life _ _ m' rfl htrim
      rw [List.length_drop] at hle
      have hpop : poppedBy life ((M.spec (s ++ ch)).drop d) = (M.spec (s ++ ch)).length - d - m'.length := by
        unfold poppedBy; rw [htrim]; simp [List.length_drop]
      have hd' : d + poppedBy life ((M.spec (s ++ ch)).drop d) = (M.spec (s ++ ch)).length - m'.length := by
        rw [hpop]; omega
      refine ⟨?_, ?_⟩
      · rcases hcount with hc | hc
        · left; omega
        · right; omega
      · rw [hd']
        exact ih (s ++ ch) _ hok' (by omega) hrest

/-! ### Heikin-Ashi + lifespan, no timeframe: unconditional -/

/-- without a timeframe every candle held is closed and a trim never pops the newest one: the predecessor is always
there -/
theorem keepsPredecessor_ha (life : Int) (hlife : 0 ≤ life) (chunks : List (List (Candle F))) :
    ∀ (s : List (Candle F)) (d : Nat), (d = 0 ∨ d < s.length) →
      KeepsPredecessor (haSpec (F := F)) (fun s _ => s.length) life s d chunks := by
  induction chunks with
  | nil => intro s d _; trivial
  | cons ch rest ih =>
    intro s d hd
    unfold KeepsPredecessor
    by_cases he : ch.isEmpty = true
    · simp only [he, if_true]; exact ih s d hd
    · have hef : ch.isEmpty = false := by simpa using he
      have hne : ch ≠ [] := fun h => by rw [h] at hef; simp at hef
      have hcl : 0 < ch.length := List.length_pos_iff.2 hne
      simp only [hef, Bool.false_eq_true, if_false]
      refine ⟨by omega, ih _ _ ?_⟩
      right
      have hX : ((haSpec (s ++ ch)).drop d) ≠ [] := by
        intro h0
        have := congrArg List.length h0
        rw [List.length_drop, haSpec_length, List.length_append] at this
        simp at this; omega
      have := poppedBy_lt life hlife _ hX
      rw [List.length_drop, haSpec_length] at this
      rw [List.length_append] at this ⊢
      omega

/-- **C11 + lifespan, no timeframe – every append schedule, every lifespan `≥ 0`, no retention hypothesis.**
After construction from any prefix `init` (empty and single-candle included) and any appends of reading-free, not yet
converted candles, the run never raises and the manager holds the Heikin-Ashi left fold over the WHOLE raw stream minus
the popped leading candles: each retained candle keeps the values computed from its (possibly popped) predecessor, each
new candle is converted once, from the last retained converted candle. -/
theorem ha_life_schedule (life : Int) (hlife : 0 ≤ life) (init : List (Candle F)) (chunks : List (List (Candle F)))
    (hraw : RawHAPlain (init ++ chunks.flatten)) :
    runSched (cfgHALife life) init chunks
      = .ok { cfg := cfgHALife life,
              candles := (haSpec (init ++ chunks.flatten)).drop
                (poppedAfter haSpec life init (poppedBy life (haSpec init)) chunks) } := by
  have h := life_schedule_mgr (TwinMgr.ha F) life hlife init chunks hraw
    (keepsPredecessor_ha life hlife chunks init _ (by
      show poppedBy life (haSpec init) = 0 ∨ poppedBy life (haSpec init) < init.length
      by_cases hi : init = []
      · left; subst hi
        have := poppedBy_le life (haSpec ([] : List (Candle F)))
        rw [haSpec_length] at this
        simpa using this
      · right
        have hX : haSpec init ≠ [] := by
          intro h0; have := congrArg List.length h0; rw [haSpec_length] at this
          exact hi (List.eq_nil_of_length_eq_zero (by simpa using this))
        have := poppedBy_lt life hlife _ hX
        rwa [haSpec_length] at this))
  exact h

/-- the popped count in terms of the RAW stamps (conversion changes no stamp) -/
theorem poppedBy_haSpec_drop (life : Int) (X : List (Candle F)) (d : Nat) :
    poppedBy life ((haSpec X).drop d) = poppedBy life (X.drop d) :=
  poppedBy_congr_ts life _ _ (by rw [List.map_drop, List.map_drop, (haSpec_rel X).ts_eq])

/-! ### collapsing timeframe (+ gap filling) + Heikin-Ashi + lifespan -/

/-- **C11 + lifespan on a collapsing timeframe.**  Under `KeepsPredecessor` (at every non-empty append: nothing popped
yet, or one closed bucket – one the append does not re-open – still held) the run never raises and the manager holds the
Heikin-Ashi left fold over the collapsed raw buckets of the WHOLE stream minus the popped leading buckets. -/
theorem tf_ha_life_schedule (tf : Int) (htf : 0 < tf) (life : Int) (hlife : 0 ≤ life) (init : List (Candle F))
    (chunks : List (List (Candle F))) (hraw : RawTfHA (init ++ chunks.flatten))
    (hk : KeepsPredecessor (fun s => haSpec (resample tf s)) (closedBuckets tf) life init
            (poppedBy life (haSpec (resample tf init))) chunks) :
    runSched (cfgTfHALife tf life) init chunks
      = .ok { cfg := cfgTfHALife tf life,
              candles := (haSpec (resample tf (init ++ chunks.flatten))).drop
                (poppedAfter (fun s => haSpec (resample tf s)) life init
                  (poppedBy life (haSpec (resample tf init))) chunks) } :=
  life_schedule_mgr (TwinMgr.tfHA F tf htf) life hlife init chunks hraw hk

/-- … under C15's hypothesis: nothing popped at construction, `RetainsBuckets L` with any `L ≥ 1` -/
theorem tf_ha_life_schedule_retains (tf : Int) (htf : 0 < tf) (life : Int) (hlife : 0 ≤ life) (L : Nat) (hL : 1 ≤ L)
    (init : List (Candle F)) (chunks : List (List (Candle F))) (hraw : RawTfHA (init ++ chunks.flatten))
    (hinit : trimCandles (some life) (resample tf init) = .ok (resample tf init))
    (hret : RetainsBuckets L tf life init 0 chunks) :
    runSched (cfgTfHALife tf life) init chunks
      = .ok { cfg := cfgTfHALife tf life,
              candles := (haSpec (resample tf (init ++ chunks.flatten))).drop
                (poppedAfter (fun s => haSpec (resample tf s)) life init 0 chunks) } := by
  have h0 : poppedBy life (haSpec (resample tf init)) = 0 := by
    rw [poppedBy_congr_ts life (resample tf init) _ (haSpec_rel _).ts_eq]
    unfold poppedBy; rw [hinit]; simp
  have h := tf_ha_life_schedule tf htf life hlife init chunks hraw (by
    rw [h0]
    exact keepsPredecessor_of_retainsClosed (TwinMgr.tfHA F tf htf) L hL life chunks init 0 hraw (Nat.zero_le _)
      (retainsClosed_tfHA L tf life init 0 chunks hret))
  rw [h0] at h
  exact h

/-- **C11 + lifespan on a collapsing timeframe with gap filling.** -/
theorem fill_ha_life_schedule (tf : Int) (htf : 0 < tf) (life : Int) (hlife : 0 ≤ life) (init : List (Candle F))
    (chunks : List (List (Candle F))) (hraw : RawTfHA (init ++ chunks.flatten))
    (hk : KeepsPredecessor (fun s => haSpec (fillSpec tf s)) (closedFilled tf) life init
            (poppedBy life (haSpec (fillSpec tf init))) chunks) :
    runSched (cfgFillHALife tf life) init chunks
      = .ok { cfg := cfgFillHALife tf life,
              candles := (haSpec (fillSpec tf (init ++ chunks.flatten))).drop
                (poppedAfter (fun s => haSpec (fillSpec tf s)) life init
                  (poppedBy life (haSpec (fillSpec tf init))) chunks) } :=
  life_schedule_mgr (TwinMgr.fillHA F tf htf) life hlife init chunks hraw hk

/-- … under C15's hypothesis: nothing popped at construction, `RetainsFilled L` with any `L ≥ 1` -/
theorem fill_ha_life_schedule_retains (tf : Int) (htf : 0 < tf) (life : Int) (hlife : 0 ≤ life) (L : Nat)
    (hL : 1 ≤ L) (init : List (Candle F)) (chunks : List (List (Candle F)))
    (hraw : RawTfHA (init ++ chunks.flatten))
    (hinit : trimCandles (some life) (fillSpec tf init) = .ok (fillSpec tf init))
    (hret : RetainsFilled L tf life init 0 chunks) :
    runSched (cfgFillHALife tf life) init chunks
      = .ok { cfg := cfgFillHALife tf life,
              candles := (haSpec (fillSpec tf (init ++ chunks.flatten))).drop
                (poppedAfter (fun s => haSpec (fillSpec tf s)) life init 0 chunks) } := by
  have h0 : poppedBy life (haSpec (fillSpec tf init)) = 0 := by
    rw [poppedBy_congr_ts life (fillSpec tf init) _ (haSpec_rel _).ts_eq]
    unfold poppedBy; rw [hinit]; simp
  have h := fill_ha_life_schedule tf htf life hlife init chunks hraw (by
    rw [h0]
    exact keepsPredecessor_of_retainsClosed (TwinMgr.fillHA F tf htf) L hL life chunks init 0 hraw (Nat.zero_le _)
      (retainsClosed_fillHA L tf life init 0 chunks hret))
  rw [h0] at h
  exact h

end Hex

import HexProofs.Manager2.TwinTreesKeys
import HexProofs.Manager2.TwinWindow
/-
C15, second clause, for indicator TREES – part 2b: the calculation engine on a POPPED list.

* `Ind.calcNames` (the nodes reached through `calculate()`: the node and, recursively, its
  sub-indicators), `Ind.allPrior` (all of them are calculated before their parent – true of every
  shipped tree), `Ind.lb` (look-back of a tree: the maximum of `kwin` over ALL its nodes, managed
  children included).
* `engineFull`: after `calculate()` every candle carries the key of every node of `calcNames`
  (`Full`) – what `_find_calc_index` of the node and of every prior helper looks at next time.
* `engineDrop`: for every tree with `lb ≤ L` (`1 ≤ L`), popping `d` leading candles commutes with
  `calculate()`, `calculate_index`, the sub-indicator passes, `_calculate_reading` and
  `Managed.set_reading`, as long as `L` candles before the first processed index are retained and the
  finished prefix carries the keys (`KeySplit`).  Two-sided "both return" form, the trimmed side running
  with ANY fuel not larger than the untrimmed side's (the trimmed list is shorter).
-/
namespace Hex
set_option linter.unusedSectionVars false
set_option linter.unusedSimpArgs false
variable {F : Type} [PyF F]

/-! ### the nodes whose `calculate()` loop runs, the look-back of a tree -/

mutual
  /-- names of the nodes reached through `calculate()` (the node and, recursively, its
  sub-indicators; managed children are driven by index) -/
  def Ind.calcNames : Ind F → List String
    | .mk _ n _ _ _ subs _ => n :: Ind.calcNamesL subs
  def Ind.calcNamesL : List (Ind F) → List String
    | [] => []
    | s :: r => s.calcNames ++ Ind.calcNamesL r
end

mutual
  /-- every sub-indicator reached through `calculate()` is calculated BEFORE its parent -/
  def Ind.allPrior : Ind F → Bool
    | .mk _ _ _ _ _ subs _ => Ind.allPriorL subs
  def Ind.allPriorL : List (Ind F) → Bool
    | [] => true
    | s :: r => s.priorCalc && s.allPrior && Ind.allPriorL r
end

mutual
  /-- **look-back of a tree**: the maximum of `kwin` over all its nodes -/
  def Ind.lb : Ind F → Nat
    | .mk k _ _ _ _ subs managed => max (kwin k) (max (Ind.lbL subs) (Ind.lbM managed))
  def Ind.lbL : List (Ind F) → Nat
    | [] => 0
    | s :: r => max s.lb (Ind.lbL r)
  def Ind.lbM : List (String × Ind F) → Nat
    | [] => 0
    | (_, m) :: r => max m.lb (Ind.lbM r)
end

theorem Ind.calcNames_eq (i : Ind F) : i.calcNames = i.name :: Ind.calcNamesL i.subs := by
  cases i; simp [Ind.calcNames, Ind.name, Ind.subs]

@[simp] theorem Ind.calcNamesL_nil : Ind.calcNamesL ([] : List (Ind F)) = [] := by simp [Ind.calcNamesL]
@[simp] theorem Ind.calcNamesL_cons (s : Ind F) (r : List (Ind F)) :
    Ind.calcNamesL (s :: r) = s.calcNames ++ Ind.calcNamesL r := by simp [Ind.calcNamesL]

theorem Ind.allPrior_eq (i : Ind F) : i.allPrior = Ind.allPriorL i.subs := by
  cases i; simp [Ind.allPrior, Ind.subs]
@[simp] theorem Ind.allPriorL_nil : Ind.allPriorL ([] : List (Ind F)) = true := by simp [Ind.allPriorL]
theorem Ind.allPriorL_cons (s : Ind F) (r : List (Ind F)) :
    Ind.allPriorL (s :: r) = (s.priorCalc && s.allPrior && Ind.allPriorL r) := by simp [Ind.allPriorL]

theorem Ind.lb_eq (i : Ind F) : i.lb = max (kwin i.kind) (max (Ind.lbL i.subs) (Ind.lbM i.managed)) := by
  cases i; simp [Ind.lb, Ind.kind, Ind.subs, Ind.managed]
@[simp] theorem Ind.lbL_nil : Ind.lbL ([] : List (Ind F)) = 0 := by simp [Ind.lbL]
@[simp] theorem Ind.lbL_cons (s : Ind F) (r : List (Ind F)) : Ind.lbL (s :: r) = max s.lb (Ind.lbL r) := by
  simp [Ind.lbL]
@[simp] theorem Ind.lbM_nil : Ind.lbM ([] : List (String × Ind F)) = 0 := by simp [Ind.lbM]
@[simp] theorem Ind.lbM_cons (p : String × Ind F) (r : List (String × Ind F)) :
    Ind.lbM (p :: r) = max p.2.lb (Ind.lbM r) := by
  obtain ⟨k, m⟩ := p; simp [Ind.lbM]

theorem Ind.kwin_le_lb (i : Ind F) : kwin i.kind ≤ i.lb := by rw [Ind.lb_eq]; omega
theorem Ind.lbL_le_lb (i : Ind F) : Ind.lbL i.subs ≤ i.lb := by rw [Ind.lb_eq]; omega
theorem Ind.lbM_le_lb (i : Ind F) : Ind.lbM i.managed ≤ i.lb := by rw [Ind.lb_eq]; omega

theorem Ind.lbM_lookup {key : String} {m : Ind F} {l : List (String × Ind F)} (h : dlookup key l = some m) :
    m.lb ≤ Ind.lbM l := by
  induction l with
  | nil => simp at h
  | cons p r ih =>
    obtain ⟨k', v'⟩ := p
    unfold dlookup at h
    rw [Ind.lbM_cons]
    split at h
    · cases h; simp only; omega
    · have := ih h; omega

theorem Ind.getManaged_lb {i m : Ind F} {key : String} (h : i.getManaged key = .ok m) : m.lb ≤ i.lb := by
  unfold Ind.getManaged at h
  split at h
  · rename_i m' hm; cases h
    exact Nat.le_trans (Ind.lbM_lookup hm) i.lbM_le_lb
  · cases h

mutual
  theorem Ind.calcNames_sub : (i : Ind F) → ∀ k, k ∈ i.calcNames → k ∈ i.allNames
    | .mk _ n _ _ _ subs managed => by
      intro k hk
      simp only [Ind.calcNames, List.mem_cons] at hk
      simp only [Ind.allNames, List.mem_cons, List.mem_append]
      rcases hk with rfl | hk
      · exact Or.inl rfl
      · exact Or.inr (Or.inl (Ind.calcNamesL_sub subs k hk))
  theorem Ind.calcNamesL_sub : (l : List (Ind F)) → ∀ k, k ∈ Ind.calcNamesL l → k ∈ Ind.allNamesL l
    | [] => by intro k hk; simp at hk
    | s :: r => by
      intro k hk
      simp only [Ind.calcNamesL_cons, List.mem_append] at hk
      simp only [Ind.allNamesL_cons, List.mem_append]
      rcases hk with hk | hk
      · exact Or.inl (Ind.calcNames_sub s k hk)
      · exact Or.inr (Ind.calcNamesL_sub r k hk)
end

/-! ### finished prefix / fresh suffix, position-wise -/

/-- the key `n` is on exactly the first `m` candles -/
def KeySplit (n : String) (m : Nat) (cs : List (Candle F)) : Prop :=
  ∀ (j : Nat) (c : Candle F), cs[j]? = some c → (hasKey n c = true ↔ j < m)

/-- the key `n` is on every candle -/
def Full (n : String) (cs : List (Candle F)) : Prop := ∀ c ∈ cs, hasKey n c = true

theorem KeySplit.of_append (n : String) (a new : List (Candle F)) (ha : Full n a)
    (hnew : ∀ c ∈ new, hasKey n c = false) : KeySplit n a.length (a ++ new) := by
  intro j c hc
  by_cases hj : j < a.length
  · rw [List.getElem?_append_left hj] at hc
    simp [hj, ha c (List.mem_of_getElem? hc)]
  · rw [List.getElem?_append_right (by omega)] at hc
    simp [hj, hnew c (List.mem_of_getElem? hc)]

theorem KeySplit.findCalcIndex {n : String} {m : Nat} {cs : List (Candle F)} (h : KeySplit n m cs)
    (hm : m ≤ cs.length) : findCalcIndex n cs = m := by
  have hsplit : cs = cs.take m ++ cs.drop m := (List.take_append_drop m cs).symm
  have hlen : (cs.take m).length = m := by simp [hm]
  rw [hsplit, findCalcIndex_split n (cs.take m) (cs.drop m) ?_ ?_, hlen]
  · intro c hc
    obtain ⟨j, hj, rfl⟩ := List.getElem_of_mem hc
    rw [List.length_take] at hj
    have : cs[j]? = some (cs.take m)[j] := by
      rw [List.getElem_take]; exact List.getElem?_eq_getElem (by omega)
    exact (h j _ this).2 (by omega)
  · intro c hc
    obtain ⟨j, hj, rfl⟩ := List.getElem_of_mem hc
    rw [List.length_drop] at hj
    have : cs[m + j]? = some (cs.drop m)[j] := by
      rw [List.getElem_drop]; exact List.getElem?_eq_getElem (by omega)
    have := (h (m + j) _ this)
    cases hk : hasKey n (cs.drop m)[j] with
    | false => rfl
    | true => exact absurd (this.1 hk) (by omega)

theorem KeySplit.drop {n : String} {m : Nat} {cs : List (Candle F)} (h : KeySplit n m cs) (d : Nat)
    (hd : d ≤ m) : KeySplit n (m - d) (cs.drop d) := by
  intro j c hc
  rw [List.getElem?_drop] at hc
  have := h (d + j) c hc
  rw [this]; omega

theorem KeySplit.agree {N : List String} {n : String} {m : Nat} {cs cs' : List (Candle F)}
    (h : KeySplit n m cs) (ha : AgreeOff N cs cs') (hn : n ∉ N) : KeySplit n m cs' := by
  intro j c' hc'
  have hj : j < cs.length := by
    have := (List.getElem?_eq_some_iff.1 hc').1
    rw [ha.1]; exact this
  have hag := ha.2 j cs[j] c' (List.getElem?_eq_getElem hj) hc'
  have : hasKey n c' = hasKey n cs[j] := by
    unfold hasKey dhas
    rw [hag.einds n hn, hag.esubs n hn]
  rw [this]
  exact h j cs[j] (List.getElem?_eq_getElem hj)

theorem Full.keyLe {n : String} {cs cs' : List (Candle F)} (h : Full n cs) (hk : KeyLe cs cs') : Full n cs' := by
  intro c' hc'
  obtain ⟨j, hj, rfl⟩ := List.getElem_of_mem hc'
  have hj' : j < cs.length := by rw [hk.len]; exact hj
  exact hk.keys j cs[j] cs'[j] (List.getElem?_eq_getElem hj') (List.getElem?_eq_getElem hj) n
    (h _ (List.getElem_mem hj'))

theorem Full.keySplit {n : String} {cs : List (Candle F)} (h : Full n cs) : KeySplit n cs.length cs := by
  intro j c hc
  have := (List.getElem?_eq_some_iff.1 hc).1
  simp [this, h c (List.mem_of_getElem? hc)]

theorem StripEq.length_eq {N : List String} {cs cs' : List (Candle F)} (h : StripEq N cs cs') :
    cs.length = cs'.length := by
  have := congrArg List.length h
  simpa using this

/-! ### the primitive write on a popped list -/

theorem setReading_drop (isSub : Bool) (name : String) (cs : List (Candle F)) (i : Int) (d : Nat) (v : Val F)
    (hd : (d : Int) ≤ i) :
    setReading isSub name (cs.drop d) (i - d) v = (setReading isSub name cs i v).map (·.drop d) := by
  rw [setReading_eq, setReading_eq]; exact updateAt_drop cs i d _ hd

theorem setReading_drop_rel (isSub : Bool) (name : String) (cs : List (Candle F)) (i : Int) (d : Nat) (v : Val F)
    (hd : (d : Int) ≤ i) (a b : List (Candle F)) (ha : setReading isSub name (cs.drop d) (i - d) v = .ok a)
    (hb : setReading isSub name cs i v = .ok b) : a = b.drop d ∧ b.length = cs.length := by
  rw [setReading_eq] at ha hb
  exact updateAt_drop_rel cs i d _ hd a b ha hb

/-! ### clean unfoldings of the engine -/

theorem calcLoop_zero' (f : Nat) (ind : Ind F) (cs : List (Candle F)) (k : Nat) :
    calcLoop (f + 1) ind cs k 0 = .ok cs := by
  rw [calcLoop]; simp

/-- one `_calculate_reading` + `round_values` + `_set_reading` -/
def readSet (f : Nat) (ind : Ind F) (cs : List (Candle F)) (i : Int) : PyM (List (Candle F)) :=
  calcReading f ind cs i >>= fun r => setReading ind.isSub ind.name r.2 i (r.1.roundBy ind.round)

theorem calcLoop_succ' (f : Nat) (ind : Ind F) (cs : List (Candle F)) (k n : Nat) :
    calcLoop (f + 1) ind cs k (n + 1) =
      pyIndex cs k >>= fun c =>
        (if present ind.name c then pure cs else readSet f ind cs k) >>= fun cs =>
          calcLoop f ind cs (k + 1) n := by
  rw [calcLoop]
  unfold readSet present
  cases pyIndex cs (k : Int) with
  | error e => rfl
  | ok c =>
    simp only [bind, Except.bind]
    cases hl : dlookup ind.name c.inds with
    | none =>
      simp only [Bool.false_eq_true, if_false]
      cases calcReading f ind cs (k : Int) with
      | error e => rfl
      | ok r => rfl
    | some v =>
      simp only
      by_cases hv : (!v.isNone) = true
      · rw [if_pos hv, if_pos hv]
      · rw [if_neg hv, if_neg hv]
        cases calcReading f ind cs (k : Int) with
        | error e => rfl
        | ok r => rfl

theorem calcSubs_nil' (f : Nat) (prior : Bool) (range : Option (Int × Int)) (cs : List (Candle F)) :
    calcSubs (f + 1) ([] : List (Ind F)) prior range cs = .ok cs := by
  rw [calcSubs]; simp

theorem calcSubs_cons_range (f : Nat) (s : Ind F) (rest : List (Ind F)) (prior : Bool) (a b : Int)
    (cs : List (Candle F)) :
    calcSubs (f + 1) (s :: rest) prior (some (a, b)) cs =
      (if s.priorCalc == prior then
          (if a != 0 && b != 0 then calculateIndex f s cs a b else calculate f s cs)
        else pure cs) >>= fun cs => calcSubs f rest prior (some (a, b)) cs := by
  rw [calcSubs]
  by_cases h1 : (s.priorCalc == prior) = true <;> by_cases h2 : (a != 0 && b != 0) = true <;>
    simp only [h1, h2, if_true, if_false, Bool.false_eq_true]

theorem calcSubs_cons_none (f : Nat) (s : Ind F) (rest : List (Ind F)) (prior : Bool)
    (cs : List (Candle F)) :
    calcSubs (f + 1) (s :: rest) prior none cs =
      (if s.priorCalc == prior then calculate f s cs else pure cs) >>= fun cs =>
        calcSubs f rest prior none cs := by
  rw [calcSubs]
  by_cases h1 : (s.priorCalc == prior) = true <;>
    simp only [h1, if_true, if_false, Bool.false_eq_true]

theorem calculateIndex_succ (f : Nat) (ind : Ind F) (cs : List (Candle F)) (s e : Int) :
    calculateIndex (f + 1) ind cs s e =
      calcSubs f ind.subs true (some (s, e)) cs >>= fun cs =>
        (pyRange s e).foldlM (readSet f ind) cs >>= fun cs =>
          calcSubs f ind.subs false (some (s, e)) cs := by
  rw [calculateIndex]
  rfl

theorem setManagedReading_succ (f : Nat) (m : Ind F) (cs : List (Candle F)) (i : Int) (v : Val F) :
    setManagedReading (f + 1) m cs i v = (do
      let cs ← calcSubs f m.subs true (some (i, i + 1)) cs
      let cs ← setReading m.isSub m.name cs i v
      calcSubs f m.subs false (some (i, i + 1)) cs) := by
  rw [setManagedReading]

/-! ### after `calculate()` every candle carries the keys of the calculated nodes -/

theorem present_hasKey (name : String) (c : Candle F) (h : present name c = true) : hasKey name c = true := by
  unfold present at h
  unfold hasKey dhas
  cases hl : dlookup name c.inds with
  | none => rw [hl] at h; cases h
  | some v => simp

/-- with every sub-indicator prior, the pass over the non-prior ones does nothing -/
theorem calcSubs_false_none : ∀ (f : Nat) (subs : List (Ind F)) (cs b : List (Candle F)),
    Ind.allPriorL subs = true → calcSubs f subs false none cs = .ok b → b = cs := by
  intro f
  induction f with
  | zero => intro subs cs b _ h; simp [calcSubs] at h
  | succ f ih =>
    intro subs cs b hap h
    cases subs with
    | nil => rw [calcSubs_nil'] at h; cases h; rfl
    | cons s rest =>
      rw [Ind.allPriorL_cons] at hap
      simp only [Bool.and_eq_true] at hap
      rw [calcSubs_cons_none] at h
      have : (s.priorCalc == false) = false := by rw [hap.1.1]; rfl
      simp only [this, Bool.false_eq_true, if_false, bind, Except.bind, pure, Except.pure] at h
      exact ih rest cs b hap.2 h

/-- the loop of `calculate()` leaves the node's key on every index it visited -/
theorem calcLoop_full (ind : Ind F) : ∀ (n f : Nat) (cs : List (Candle F)) (k : Nat) (b : List (Candle F)),
    calcLoop f ind cs k n = .ok b →
      ∀ j c, k ≤ j → j < k + n → b[j]? = some c → hasKey ind.name c = true := by
  intro n
  induction n with
  | zero => intro f cs k b _ j c h1 h2; omega
  | succ n ih =>
    intro f cs k b h j c hkj hjn hc
    cases f with
    | zero => simp [calcLoop] at h
    | succ f =>
      rw [calcLoop_succ'] at h
      obtain ⟨c0, hc0, h⟩ := Writes.bind_ok h
      obtain ⟨cs1, h1, h2⟩ := Writes.bind_ok h
      have hk : k < cs.length := by
        by_contra hge
        have : cs[k]? = none := List.getElem?_eq_none (by omega)
        rw [pyIndex_nonneg _ _ (by omega)] at hc0
        simp [this, getOrIndexError] at hc0
      have hck : cs[k]? = some c0 := by
        rw [pyIndex_nonneg _ _ (by omega)] at hc0
        simp only [Int.toNat_natCast] at hc0
        cases hq : cs[k]? with
        | none => rw [hq] at hc0; simp [getOrIndexError] at hc0
        | some q => rw [hq] at hc0; simp [getOrIndexError] at hc0; rw [hc0]
      have hkl := (engineKeys f).calcLoop ind cs1 (k + 1) n b h2
      by_cases hjk : j = k
      · subst hjk
        -- the candle at `k` holds the key in `cs1`
        have hk1 : ∃ c1, cs1[j]? = some c1 ∧ hasKey ind.name c1 = true := by
          by_cases hp : present ind.name c0 = true
          · simp only [hp, if_true, pure, Except.pure] at h1
            cases h1
            exact ⟨c0, hck, present_hasKey _ _ hp⟩
          · simp only [hp, Bool.false_eq_true, if_false] at h1
            obtain ⟨⟨v, cs2⟩, hr, hs⟩ := Writes.bind_ok h1
            simp only at hs
            have hl2 : cs.length = cs2.length := (calcReading_stripEq f ind cs cs2 j v hr).length_eq
            rw [setReading_eq, updateAt_nat cs2 j _ (by omega)] at hs
            cases hs
            refine ⟨setKey ind.isSub ind.name (v.roundBy ind.round) cs2[j], ?_, hasKey_setKey _ _ _ _⟩
            rw [List.getElem?_modify]
            simp [List.getElem?_eq_getElem (by omega : j < cs2.length)]
        obtain ⟨c1, hc1, hk1⟩ := hk1
        exact hkl.keys j c1 c hc1 hc _ hk1
      · exact ih f cs1 (k + 1) b h2 j c (by omega) (by omega) hc

/-- the two statements proved together by induction on the fuel -/
structure EngineFull (f : Nat) : Prop where
  calculate : ∀ (ind : Ind F) (cs : List (Candle F)) (m : Nat) (b : List (Candle F)), ind.allPrior = true →
    ind.allNames.Nodup → m ≤ cs.length → (∀ n ∈ ind.calcNames, KeySplit n m cs) →
    calculate f ind cs = .ok b → ∀ n ∈ ind.calcNames, Full n b
  calcSubs : ∀ (subs : List (Ind F)) (cs : List (Candle F)) (m : Nat) (b : List (Candle F)),
    Ind.allPriorL subs = true → (Ind.allNamesL subs).Nodup → m ≤ cs.length →
    (∀ n ∈ Ind.calcNamesL subs, KeySplit n m cs) →
    calcSubs f subs true none cs = .ok b → ∀ n ∈ Ind.calcNamesL subs, Full n b

theorem Ind.nodup_parts (i : Ind F) (h : i.allNames.Nodup) :
    i.name ∉ Ind.allNamesL i.subs ∧ (Ind.allNamesL i.subs).Nodup := by
  rw [Ind.allNames_eq] at h
  have h1 := (List.nodup_cons.1 h).1
  have h2 := (List.nodup_cons.1 h).2
  exact ⟨fun hm => h1 (List.mem_append_left _ hm), (List.nodup_append.1 h2).1⟩

theorem Ind.nodupL_parts (s : Ind F) (r : List (Ind F)) (h : (Ind.allNamesL (s :: r)).Nodup) :
    s.allNames.Nodup ∧ (Ind.allNamesL r).Nodup ∧ ∀ k ∈ Ind.allNamesL r, k ∉ s.allNames := by
  rw [Ind.allNamesL_cons] at h
  obtain ⟨h1, h2, h3⟩ := List.nodup_append.1 h
  exact ⟨h1, h2, fun k hk hs => h3 k hs k hk rfl⟩

theorem engineFull : ∀ f : Nat, EngineFull (F := F) f := by
  intro f
  induction f with
  | zero =>
    refine ⟨?_, ?_⟩
    · intro ind cs m b _ _ _ _ h; simp [Hex.calculate] at h
    · intro subs cs m b _ _ _ _ h; simp [Hex.calcSubs] at h
  | succ f ih =>
    refine ⟨?_, ?_⟩
    · intro ind cs m b hap hnd hm hsplit h
      rw [calculate_succ] at h
      obtain ⟨cs1, h1, h⟩ := Writes.bind_ok h
      obtain ⟨cs2, h2, h3⟩ := Writes.bind_ok h
      obtain ⟨hn1, hn2⟩ := ind.nodup_parts hnd
      have hapL : Ind.allPriorL ind.subs = true := by rw [← Ind.allPrior_eq]; exact hap
      have hb : b = cs2 := calcSubs_false_none f ind.subs cs2 b hapL h3
      subst hb
      have hsub : ∀ n ∈ Ind.calcNamesL ind.subs, KeySplit n m cs := fun n hn =>
        hsplit n (by rw [Ind.calcNames_eq]; exact List.mem_cons_of_mem _ hn)
      have hfull1 := ih.calcSubs ind.subs cs m cs1 hapL hn2 hm hsub h1
      have hst1 := calcSubs_stripEq f ind.subs true none cs cs1 h1
      have hl1 : cs.length = cs1.length := hst1.length_eq
      have hs1 : KeySplit ind.name m cs1 :=
        (hsplit ind.name (by rw [Ind.calcNames_eq]; simp)).agree hst1.agreeOff hn1
      rw [hs1.findCalcIndex (by omega)] at h2
      have hk12 := (engineKeys f).calcLoop ind cs1 m (cs1.length - m) b h2
      intro n hn
      rw [Ind.calcNames_eq] at hn
      rcases List.mem_cons.1 hn with rfl | hn
      · intro c hc
        obtain ⟨j, hj, rfl⟩ := List.getElem_of_mem hc
        by_cases hjm : j < m
        · have hj1 : j < cs1.length := by omega
          exact hk12.keys j cs1[j] b[j] (List.getElem?_eq_getElem hj1) (List.getElem?_eq_getElem hj) _
            ((hs1 j cs1[j] (List.getElem?_eq_getElem hj1)).2 hjm)
        · exact calcLoop_full ind _ f cs1 m b h2 j b[j] (by omega)
            (by rw [← hk12.len] at hj; omega) (List.getElem?_eq_getElem hj)
      · exact (hfull1 n hn).keyLe hk12
    · intro subs cs m b hap hnd hm hsplit h
      cases subs with
      | nil => intro n hn; simp at hn
      | cons s rest =>
        rw [Ind.allPriorL_cons] at hap
        simp only [Bool.and_eq_true] at hap
        obtain ⟨hs1, hs2, hs3⟩ := Ind.nodupL_parts s rest hnd
        rw [calcSubs_cons_none] at h
        have : (s.priorCalc == true) = true := by rw [hap.1.1]; rfl
        simp only [this, if_true] at h
        obtain ⟨cs1, h1, h2⟩ := Writes.bind_ok h
        have hst1 := calculate_stripEq f s cs cs1 h1
        have hfs := ih.calculate s cs m cs1 hap.1.2 hs1 hm
          (fun n hn => hsplit n (by rw [Ind.calcNamesL_cons]; exact List.mem_append_left _ hn)) h1
        have hsr : ∀ n ∈ Ind.calcNamesL rest, KeySplit n m cs1 := fun n hn =>
          (hsplit n (by rw [Ind.calcNamesL_cons]; exact List.mem_append_right _ hn)).agree hst1.agreeOff
            (hs3 n (Ind.calcNamesL_sub rest n hn))
        have hfr := ih.calcSubs rest cs1 m b hap.2 hs2 (by rw [← hst1.length_eq]; exact hm) hsr h2
        have hk := (engineKeys f).calcSubs rest true none cs1 b h2
        intro n hn
        rw [Ind.calcNamesL_cons] at hn
        rcases List.mem_append.1 hn with hn | hn
        · exact (hfs n hn).keyLe hk
        · exact hfr n hn

/-! ### the engine on a popped list -/

section drop
variable (d L : Nat)

/-- the statements proved together by induction on the fuel of the TRIMMED side (`f'`; the untrimmed
side runs with any fuel `f ≥ f'`): when both sides return, the trimmed result is the untrimmed one
minus the `d` popped candles -/
structure EngineDrop (f' f : Nat) : Prop where
  calcReading : ∀ (ind : Ind F) (cs : List (Candle F)) (i : Int) r' r, ind.lb ≤ L → (d : Int) + L ≤ i →
    i < cs.length → calcReading f' ind (cs.drop d) (i - d) = .ok r' → calcReading f ind cs i = .ok r →
    r' = (r.1, r.2.drop d)
  setManagedReading : ∀ (m : Ind F) (cs : List (Candle F)) (i : Int) v a b, m.lb ≤ L → (d : Int) + L ≤ i →
    i < cs.length → setManagedReading f' m (cs.drop d) (i - d) v = .ok a → setManagedReading f m cs i v = .ok b →
    a = b.drop d
  calculateIndex : ∀ (ind : Ind F) (cs : List (Candle F)) (s e : Int) a b, ind.lb ≤ L → (d : Int) + L ≤ s →
    s < e → e ≤ cs.length → calculateIndex f' ind (cs.drop d) (s - d) (e - d) = .ok a →
    calculateIndex f ind cs s e = .ok b → a = b.drop d
  calcSubsIdx : ∀ (subs : List (Ind F)) (prior : Bool) (cs : List (Candle F)) (s e : Int) a b,
    Ind.lbL subs ≤ L → (d : Int) + L ≤ s → s < e → e ≤ cs.length →
    calcSubs f' subs prior (some (s - d, e - d)) (cs.drop d) = .ok a →
    calcSubs f subs prior (some (s, e)) cs = .ok b → a = b.drop d
  calcLoop : ∀ (ind : Ind F) (cs : List (Candle F)) (k n : Nat) a b, ind.lb ≤ L → d + L ≤ k →
    k + n ≤ cs.length → calcLoop f' ind (cs.drop d) (k - d) n = .ok a → calcLoop f ind cs k n = .ok b →
    a = b.drop d
  calculate : ∀ (ind : Ind F) (cs : List (Candle F)) (m : Nat) a b, ind.lb ≤ L → ind.allPrior = true →
    ind.allNames.Nodup → d + L ≤ m → m ≤ cs.length → (∀ n ∈ ind.calcNames, KeySplit n m cs) →
    calculate f' ind (cs.drop d) = .ok a → calculate f ind cs = .ok b → a = b.drop d
  calcSubsNone : ∀ (subs : List (Ind F)) (cs : List (Candle F)) (m : Nat) a b, Ind.lbL subs ≤ L →
    Ind.allPriorL subs = true → (Ind.allNamesL subs).Nodup → d + L ≤ m → m ≤ cs.length →
    (∀ n ∈ Ind.calcNamesL subs, KeySplit n m cs) →
    calcSubs f' subs true none (cs.drop d) = .ok a → calcSubs f subs true none cs = .ok b → a = b.drop d

variable {d L}

/-- one `_calculate_reading` + `_set_reading` on the two sides -/
theorem readSet_drop {f' f : Nat} (ih : EngineDrop (F := F) d L f' f) (ind : Ind F) (hlb : ind.lb ≤ L)
    (cs : List (Candle F)) (i : Int) (hdi : (d : Int) + L ≤ i) (hi : i < cs.length) (a b : List (Candle F))
    (h' : readSet f' ind (cs.drop d) (i - d) = .ok a) (h : readSet f ind cs i = .ok b) :
    a = b.drop d ∧ b.length = cs.length := by
  unfold readSet at h' h
  obtain ⟨r', hr', hs'⟩ := Writes.bind_ok h'
  obtain ⟨r, hr, hs⟩ := Writes.bind_ok h
  have e := ih.calcReading ind cs i r' r hlb hdi hi hr' hr
  subst e
  have hl : cs.length = r.2.length := by
    obtain ⟨v, cs1⟩ := r
    exact (calcReading_stripEq f ind cs cs1 i v hr).length_eq
  obtain ⟨e2, hl2⟩ := setReading_drop_rel ind.isSub ind.name r.2 i d _ (by omega) a b hs' hs
  exact ⟨e2, by omega⟩

theorem foldl_readSet_drop {f' f : Nat} (ih : EngineDrop (F := F) d L f' f) (ind : Ind F) (hlb : ind.lb ≤ L) :
    ∀ (l : List Int) (cs a b : List (Candle F)), (∀ j ∈ l, (d : Int) + L ≤ j ∧ j < cs.length) →
      (l.map (fun j => j - (d : Int))).foldlM (readSet f' ind) (cs.drop d) = .ok a →
      l.foldlM (readSet f ind) cs = .ok b → a = b.drop d ∧ b.length = cs.length := by
  intro l
  induction l with
  | nil =>
    intro cs a b _ h' h
    simp only [List.map_nil, List.foldlM_nil, pure, Except.pure] at h' h
    cases h'; cases h; exact ⟨rfl, rfl⟩
  | cons j r ihl =>
    intro cs a b hj h' h
    simp only [List.map_cons, List.foldlM_cons] at h' h
    obtain ⟨a1, ha1, h'⟩ := Writes.bind_ok h'
    obtain ⟨b1, hb1, h⟩ := Writes.bind_ok h
    obtain ⟨hjd, hjl⟩ := hj j (by simp)
    obtain ⟨e1, hl1⟩ := readSet_drop ih ind hlb cs j hjd hjl a1 b1 ha1 hb1
    subst e1
    obtain ⟨e2, hl2⟩ := ihl b1 a b (fun q hq => by rw [hl1]; exact hj q (by simp [hq])) h' h
    exact ⟨e2, by omega⟩

theorem engineDrop (hL : 1 ≤ L) : ∀ f' f : Nat, f' ≤ f → EngineDrop (F := F) d L f' f := by
  intro f'
  induction f' with
  | zero =>
    intro f _
    refine ⟨?_, ?_, ?_, ?_, ?_, ?_, ?_⟩
    · intro ind cs i r' r _ _ _ h; simp [Hex.calcReading] at h
    · intro m cs i v a b _ _ _ h; simp [Hex.setManagedReading] at h
    · intro ind cs s e a b _ _ _ _ h; simp [Hex.calculateIndex] at h
    · intro subs prior cs s e a b _ _ _ _ h; simp [Hex.calcSubs] at h
    · intro ind cs k n a b _ _ _ h; simp [Hex.calcLoop] at h
    · intro ind cs m a b _ _ _ _ _ _ h; simp [Hex.calculate] at h
    · intro subs cs m a b _ _ _ _ _ _ h; simp [Hex.calcSubs] at h
  | succ f' ih =>
    intro f hf
    obtain ⟨g, rfl⟩ : ∃ g, f = g + 1 := ⟨f - 1, by omega⟩
    have ih := ih g (by omega)
    refine ⟨?_, ?_, ?_, ?_, ?_, ?_, ?_⟩
    · -- calcReading
      intro ind cs i r' r hlb hdi hi h' h
      rw [Hex.calcReading] at h' h
      have hkw : kwin ind.kind ≤ L := Nat.le_trans ind.kwin_le_lb hlb
      refine calcKind_drop _ _ ind { cs := cs, i := i, name := ind.name } d (by simp only; omega) hi
        (by simp only; omega) rfl ⟨?_, ?_⟩ r' r h' h
      · intro key v cs0 a b hl ha hb
        obtain ⟨m, hm, ha⟩ := Writes.bind_ok ha
        obtain ⟨m2, hm2, hb⟩ := Writes.bind_ok hb
        rw [hm] at hm2; cases hm2
        have hmlb : m.lb ≤ L := Nat.le_trans (Ind.getManaged_lb hm) hlb
        have hl : cs0.length = cs.length := hl
        have hi0 : i < cs0.length := by omega
        refine ⟨ih.setManagedReading m cs0 i v a b hmlb hdi hi0 ha hb, ?_⟩
        have := (setManagedReading_stripEq g m cs0 b i v hb).length_eq
        show b.length = cs.length
        omega
      · intro key cs0 a b hl ha hb
        obtain ⟨m, hm, ha⟩ := Writes.bind_ok ha
        obtain ⟨m2, hm2, hb⟩ := Writes.bind_ok hb
        rw [hm] at hm2; cases hm2
        have hmlb : m.lb ≤ L := Nat.le_trans (Ind.getManaged_lb hm) hlb
        have hl : cs0.length = cs.length := hl
        have hi0 : i < cs0.length := by omega
        rw [show i - (d : Int) + 1 = (i + 1) - d by omega] at ha
        refine ⟨ih.calculateIndex m cs0 i (i + 1) a b hmlb hdi (by omega) (by omega) ha hb, ?_⟩
        have := (calculateIndex_stripEq g m cs0 b i (i + 1) hb).length_eq
        show b.length = cs.length
        omega
    · -- setManagedReading
      intro m cs i v a b hlb hdi hi h' h
      rw [setManagedReading_succ] at h' h
      rw [show i - (d : Int) + 1 = (i + 1) - d by omega] at h'
      obtain ⟨a1, ha1, h'⟩ := Writes.bind_ok h'
      obtain ⟨a2, ha2, ha3⟩ := Writes.bind_ok h'
      obtain ⟨b1, hb1, h⟩ := Writes.bind_ok h
      obtain ⟨b2, hb2, hb3⟩ := Writes.bind_ok h
      have hsl : Ind.lbL m.subs ≤ L := Nat.le_trans m.lbL_le_lb hlb
      have e1 := ih.calcSubsIdx m.subs true cs i (i + 1) a1 b1 hsl hdi (by omega) (by omega) ha1 hb1
      subst e1
      have hl1 : cs.length = b1.length := (calcSubs_stripEq g m.subs true _ cs b1 hb1).length_eq
      obtain ⟨e2, hl2⟩ := setReading_drop_rel m.isSub m.name b1 i d v (by omega) a2 b2 ha2 hb2
      subst e2
      exact ih.calcSubsIdx m.subs false b2 i (i + 1) a b hsl hdi (by omega) (by omega) ha3 hb3
    · -- calculateIndex
      intro ind cs s e a b hlb hds hse hel h' h
      rw [calculateIndex_succ] at h' h
      obtain ⟨a1, ha1, h'⟩ := Writes.bind_ok h'
      obtain ⟨a2, ha2, ha3⟩ := Writes.bind_ok h'
      obtain ⟨b1, hb1, h⟩ := Writes.bind_ok h
      obtain ⟨b2, hb2, hb3⟩ := Writes.bind_ok h
      have hsl : Ind.lbL ind.subs ≤ L := Nat.le_trans ind.lbL_le_lb hlb
      have e1 := ih.calcSubsIdx ind.subs true cs s e a1 b1 hsl hds hse hel ha1 hb1
      subst e1
      have hl1 : cs.length = b1.length := (calcSubs_stripEq g ind.subs true _ cs b1 hb1).length_eq
      rw [Foot.pyRange_sub] at ha2
      obtain ⟨e2, hl2⟩ := foldl_readSet_drop ih ind hlb (pyRange s e) b1 a2 b2
        (fun j hj => by
          have := (Ana.mem_pyRange _ _ _).1 hj
          omega) ha2 hb2
      subst e2
      exact ih.calcSubsIdx ind.subs false b2 s e a b hsl hds hse (by omega) ha3 hb3
    · -- calcSubs with an index range
      intro subs prior cs s e a b hlb hds hse hel h' h
      cases subs with
      | nil => rw [calcSubs_nil'] at h' h; cases h'; cases h; rfl
      | cons x rest =>
        rw [Ind.lbL_cons] at hlb
        rw [calcSubs_cons_range] at h' h
        have c1 : (s - (d : Int) != 0 && e - (d : Int) != 0) = true := by
          simp only [bne_iff_ne, ne_eq, Bool.and_eq_true, decide_eq_true_eq]; omega
        have c2 : (s != 0 && e != 0) = true := by
          simp only [bne_iff_ne, ne_eq, Bool.and_eq_true, decide_eq_true_eq]; omega
        simp only [c1, c2, if_true] at h' h
        obtain ⟨a1, ha1, h'⟩ := Writes.bind_ok h'
        obtain ⟨b1, hb1, h⟩ := Writes.bind_ok h
        by_cases hp : (x.priorCalc == prior) = true
        · simp only [hp, if_true] at ha1 hb1
          have e1 := ih.calculateIndex x cs s e a1 b1 (by omega) hds hse hel ha1 hb1
          subst e1
          have hl1 : cs.length = b1.length := (calculateIndex_stripEq g x cs b1 s e hb1).length_eq
          exact ih.calcSubsIdx rest prior b1 s e a b (by omega) hds hse (by omega) h' h
        · simp only [hp, if_false, pure, Except.pure] at ha1 hb1
          cases ha1; cases hb1
          exact ih.calcSubsIdx rest prior cs s e a b (by omega) hds hse hel h' h
    · -- calcLoop
      intro ind cs k n a b hlb hk hkn h' h
      cases n with
      | zero => rw [calcLoop_zero'] at h' h; cases h'; cases h; rfl
      | succ n =>
        rw [calcLoop_succ'] at h' h
        have hcast : (((k - d : Nat)) : Int) = (k : Int) - d := by omega
        rw [hcast, pyIndex_drop cs d k (by omega)] at h'
        obtain ⟨c, hc, h'⟩ := Writes.bind_ok h'
        obtain ⟨c2, hc2, h⟩ := Writes.bind_ok h
        rw [hc] at hc2; cases hc2
        obtain ⟨a1, ha1, h'⟩ := Writes.bind_ok h'
        obtain ⟨b1, hb1, h⟩ := Writes.bind_ok h
        rw [show k - d + 1 = (k + 1) - d by omega] at h'
        by_cases hp : present ind.name c = true
        · simp only [hp, if_true, pure, Except.pure] at ha1 hb1
          cases ha1; cases hb1
          exact ih.calcLoop ind cs (k + 1) n a b hlb (by omega) (by omega) h' h
        · simp only [hp, if_false] at ha1 hb1
          obtain ⟨e1, hl1⟩ := readSet_drop ih ind hlb cs k (by omega) (by omega) a1 b1 ha1 hb1
          subst e1
          exact ih.calcLoop ind b1 (k + 1) n a b hlb (by omega) (by omega) h' h
    · -- calculate
      intro ind cs m a b hlb hap hnd hdm hm hsplit h' h
      rw [calculate_succ] at h' h
      obtain ⟨a1, ha1, h'⟩ := Writes.bind_ok h'
      obtain ⟨a2, ha2, ha3⟩ := Writes.bind_ok h'
      obtain ⟨b1, hb1, h⟩ := Writes.bind_ok h
      obtain ⟨b2, hb2, hb3⟩ := Writes.bind_ok h
      obtain ⟨hn1, hn2⟩ := ind.nodup_parts hnd
      have hapL : Ind.allPriorL ind.subs = true := by rw [← Ind.allPrior_eq]; exact hap
      have hsl : Ind.lbL ind.subs ≤ L := Nat.le_trans ind.lbL_le_lb hlb
      have hsub : ∀ n ∈ Ind.calcNamesL ind.subs, KeySplit n m cs := fun n hn =>
        hsplit n (by rw [Ind.calcNames_eq]; exact List.mem_cons_of_mem _ hn)
      have e1 := ih.calcSubsNone ind.subs cs m a1 b1 hsl hapL hn2 hdm hm hsub ha1 hb1
      subst e1
      have hst1 := calcSubs_stripEq g ind.subs true none cs b1 hb1
      have hl1 : cs.length = b1.length := hst1.length_eq
      have hs1 : KeySplit ind.name m b1 :=
        (hsplit ind.name (by rw [Ind.calcNames_eq]; simp)).agree hst1.agreeOff hn1
      rw [hs1.findCalcIndex (by omega)] at hb2
      rw [(hs1.drop d (by omega)).findCalcIndex (by rw [List.length_drop]; omega), List.length_drop,
        show b1.length - d - (m - d) = b1.length - m by omega] at ha2
      have e2 := ih.calcLoop ind b1 m (b1.length - m) a2 b2 hlb hdm (by omega) ha2 hb2
      subst e2
      have := calcSubs_false_none f' ind.subs _ a hapL ha3
      have := calcSubs_false_none g ind.subs _ b hapL hb3
      subst_vars; rfl
    · -- calcSubs of a whole `calculate()`
      intro subs cs m a b hlb hap hnd hdm hm hsplit h' h
      cases subs with
      | nil => rw [calcSubs_nil'] at h' h; cases h'; cases h; rfl
      | cons x rest =>
        rw [Ind.lbL_cons] at hlb
        rw [Ind.allPriorL_cons] at hap
        simp only [Bool.and_eq_true] at hap
        obtain ⟨hs1, hs2, hs3⟩ := Ind.nodupL_parts x rest hnd
        rw [calcSubs_cons_none] at h' h
        have : (x.priorCalc == true) = true := by rw [hap.1.1]; rfl
        simp only [this, if_true] at h' h
        obtain ⟨a1, ha1, h'⟩ := Writes.bind_ok h'
        obtain ⟨b1, hb1, h⟩ := Writes.bind_ok h
        have e1 := ih.calculate x cs m a1 b1 (by omega) hap.1.2 hs1 hdm hm
          (fun n hn => hsplit n (by rw [Ind.calcNamesL_cons]; exact List.mem_append_left _ hn)) ha1 hb1
        subst e1
        have hst1 := calculate_stripEq g x cs b1 hb1
        have hsr : ∀ n ∈ Ind.calcNamesL rest, KeySplit n m b1 := fun n hn =>
          (hsplit n (by rw [Ind.calcNamesL_cons]; exact List.mem_append_right _ hn)).agree hst1.agreeOff
            (hs3 n (Ind.calcNamesL_sub rest n hn))
        exact ih.calcSubsNone rest b1 m a b (by omega) hap.2 hs2 hdm (by rw [← hst1.length_eq]; exact hm)
          hsr h' h

end drop
end Hex

import HexProofs.Manager2.HATf
import HexProofs.Framework.Fill
/-
Heikin-Ashi on a collapsing timeframe WITH gap filling.  The manager holds `haSpec Z`, `Z` the
gap-filled resampling of the stream.  On append: the collapse re-opens at most the newest bucket
(as without fill); the fill pass then leaves the still-converted contiguous prefix alone and
inserts after its last candle exactly what it inserts after the raw one (it only reads the stamp
and the RAW close – `clean_values["close"]` – of a candle); conversion resumes after the tagged
prefix and converts the re-opened bucket, the new buckets and the new fill candles.
-/
namespace Hex
set_option linter.unusedSectionVars false
variable {F : Type} [PyF F]

/-! ### re-collapsing a converted bucket list (any bucket list) -/

theorem collapse_ha_bk (tf : Int) (htf : 0 < tf) (Bk new : List (Candle F))
    (hb : BucketedR tf Bk.reverse) (hun : ∀ c ∈ Bk, Untouched c) (hn : RawHA new)
    (hmono : LabelsMono tf (Bk ++ new)) :
    ∃ (k : Nat) (Q : List (Candle F)), Bk.length ≤ k + 1 ∧
      collapseCandles (some tf) false (haSpec Bk ++ new) = .ok (haSpec (Bk.take k) ++ Q) ∧
      resample tf (Bk ++ new) = Bk.take k ++ Q ∧ (∀ c ∈ Q, Untouched c) := by
  have hrel : HaRel Bk (haSpec Bk) := haSpec_rel _
  have hts := hrel.ts_eq
  have hstamp : ∀ b ∈ Bk, ∃ t, b.ts = some t ∧ t % tf = 0 :=
    fun b hb' => hb.stamped b (List.mem_reverse.2 hb')
  have hmonoZ : LabelsMono tf (haSpec Bk ++ new) := by
    unfold LabelsMono at hmono ⊢
    rw [labels_append] at hmono ⊢
    rw [labels_of_ts_eq tf _ _ hts]; exact hmono
  have hclean : ∀ c ∈ haSpec Bk ++ new, CleanOk tf c := by
    intro c hc
    rcases List.mem_append.1 hc with hc | hc
    · exact hrel.cleanOk tf hstamp c hc
    · exact hn.cleanOk tf c hc
  have hbZ : BucketedR tf (haSpec Bk).reverse := by
    apply bucketedR_of_ts_eq tf _ Bk.reverse _ hb
    rw [List.map_reverse, hts, List.map_reverse]
  have hfirst : ∀ c, (haSpec Bk ++ new).head? = some c → c.ts ≠ none := by
    intro c hc
    cases hZ : haSpec Bk with
    | nil =>
      rw [hZ] at hc
      exact hn.stamped c (List.mem_of_mem_head? (by simpa using hc))
    | cons y yr =>
      rw [hZ] at hc; simp at hc; subst hc
      obtain ⟨t, ht, _⟩ := hbZ.stamped y (by rw [hZ]; simp)
      simp [ht]
  have hcol := collapse_eq_resample tf htf _ hfirst hclean hmonoZ
  have hselfZ : resampleR tf (haSpec Bk) = (haSpec Bk).reverse := by
    have := resampleR_reverse_self tf _ hbZ; simpa using this
  have hselfB : resampleR tf Bk = Bk.reverse := by
    have := resampleR_reverse_self tf _ hb; simpa using this
  have hfoldZ : resampleR tf (haSpec Bk ++ new) = new.foldl (resampleStep tf) (haSpec Bk).reverse := by
    simp only [resampleR, List.foldl_append]
    have := hselfZ; simp only [resampleR] at this; rw [this]
  have hfoldB : resampleR tf (Bk ++ new) = new.foldl (resampleStep tf) Bk.reverse := by
    simp only [resampleR, List.foldl_append]
    have := hselfB; simp only [resampleR] at this; rw [this]
  have hunAll : ∀ c ∈ resampleR tf (Bk ++ new), Untouched c :=
    resampleR_untouched tf _ (by
      intro c hc
      rcases List.mem_append.1 hc with hc | hc
      · exact hun c hc
      · exact hn.untouched c hc)
  rw [hcol]
  unfold resample
  rw [hfoldZ, hfoldB]
  rw [hfoldB] at hunAll
  rcases List.eq_nil_or_concat Bk with rfl | ⟨pre, bl, rfl⟩
  · refine ⟨0, (new.foldl (resampleStep tf) []).reverse, by simp, by simp [haSpec_nil], by simp, ?_⟩
    intro c hc; exact hunAll c (by simpa using hc)
  · simp only [List.concat_eq_append] at hunAll hun ⊢
    have hblc : bl.clean = none := (hun bl (by simp)).2
    simp only [haSpec_snoc, List.reverse_append, List.reverse_cons, List.reverse_nil, List.nil_append,
      List.singleton_append] at hunAll ⊢
    rcases foldl_pair tf (haCandle bl (haSpec pre).getLast?) bl rfl
        (fun x => merge_haCandle bl x _ hblc) new (haSpec pre).reverse pre.reverse with
      ⟨X, h1, h2⟩ | ⟨Y, _, h1, h2⟩
    · refine ⟨(pre ++ [bl]).length, X.reverse, by omega, ?_, ?_, ?_⟩
      · rw [h1, List.take_length, haSpec_snoc]; simp
      · rw [h2, List.take_length]; simp
      · intro c hc; rw [h2] at hunAll; exact hunAll c (by simp [List.mem_reverse.1 hc])
    · have htake : (pre ++ [bl]).take pre.length = pre := by simp
      refine ⟨pre.length, Y.reverse, by simp, ?_, ?_, ?_⟩
      · rw [h1, htake]; simp
      · rw [h2, htake]; simp
      · intro c hc; rw [h2] at hunAll; exact hunAll c (by simp [List.mem_reverse.1 hc])

/-! ### the fill pass on a converted prefix -/

theorem rawClose_haCandle (b : Candle F) (p : Option (Candle F)) (hb : b.clean = none) :
    (haCandle b p).rawClose = b.rawClose := by
  simp [Candle.rawClose, haCandle, hb]

theorem untouched_fillCandle (p : Candle F) (u : Int) : Untouched (fillCandle p u) := ⟨rfl, rfl⟩

/-- the gap-filled resampling of an unconverted stream is unconverted -/
theorem FilledOf.untouched {tf : Int} {s Z : List (Candle F)} (h : FilledOf tf s Z)
    (hs : ∀ c ∈ s, Untouched c) : ∀ c ∈ Z, Untouched c := by
  intro c hc
  rcases mem_fillMissing tf _ Z h.eq c hc with h1 | ⟨p, u, rfl⟩
  · exact resample_untouched tf s hs c h1
  · exact untouched_fillCandle p u

/-- **Filling `converted prefix ++ raw rest`.**  If `A` is contiguous and unconverted and filling
`A ++ Q` gives `Z'`, then `Z' = A ++ T` and filling `haSpec A ++ Q` gives `haSpec A ++ T` with the
same `T` (new raw buckets and fill candles). -/
theorem fill_ha_prefix (tf : Int) (htf : 0 < tf) (A Q Z' : List (Candle F))
    (hcont : Contiguous tf A) (hunA : ∀ c ∈ A, Untouched c) (hunQ : ∀ c ∈ Q, Untouched c)
    (hfill : fillMissing tf (A ++ Q) = .ok Z') :
    ∃ T, Z' = A ++ T ∧ fillMissing tf (haSpec A ++ Q) = .ok (haSpec A ++ T) ∧ (∀ c ∈ T, Untouched c) := by
  rcases List.eq_nil_or_concat A with rfl | ⟨A', a₀, rfl⟩
  · refine ⟨Z', by simp, by simpa [haSpec_nil] using hfill, ?_⟩
    intro c hc
    rcases mem_fillMissing tf _ Z' (by simpa using hfill) c hc with h1 | ⟨p, u, rfl⟩
    · exact hunQ c h1
    · exact untouched_fillCandle p u
  · simp only [List.concat_eq_append] at hcont hunA hfill ⊢
    have ha₀ : a₀.clean = none := (hunA a₀ (by simp)).2
    have hcontZ : Contiguous tf (haSpec (A' ++ [a₀])) :=
      contiguous_of_ts tf _ _ (haSpec_rel _).ts_eq hcont
    rw [List.append_assoc, List.singleton_append, fillMissing_split tf A' a₀ Q,
        fillMissing_contiguous tf htf _ hcont] at hfill
    cases hB : fillMissing tf (a₀ :: Q) with
    | error e => rw [hB] at hfill; cases hfill
    | ok B' =>
      rw [hB] at hfill
      simp only [bind, Except.bind, pure, Except.pure, List.dropLast_concat] at hfill
      obtain ⟨T, rfl⟩ := fillMissing_head tf a₀ Q B' hB
      have hZ'eq : Z' = A' ++ a₀ :: T := (Except.ok.inj hfill).symm
      refine ⟨T, by rw [hZ'eq]; simp, ?_, ?_⟩
      · rw [haSpec_snoc] at hcontZ ⊢
        rw [List.append_assoc, List.singleton_append, fillMissing_split tf (haSpec A') _ Q,
            fillMissing_contiguous tf htf _ hcontZ,
            fillMissing_head_congr tf a₀ (haCandle a₀ (haSpec A').getLast?) Q T rfl
              (rawClose_haCandle a₀ _ ha₀) hB]
        simp [bind, Except.bind, pure, Except.pure]
      · intro c hc
        rcases mem_fillMissing tf _ _ hB c (List.mem_cons_of_mem _ hc) with h1 | ⟨p, u, rfl⟩
        · rcases List.mem_cons.1 h1 with rfl | h1
          · exact hunA _ (by simp)
          · exact hunQ c h1
        · exact untouched_fillCandle p u

/-! ### one pass of the manager's tasks -/

/-- timeframe + fill + Heikin-Ashi -/
def cfgFillHA (tf : Int) : MgrCfg := { tf := some tf, fill := true, ha := true }

theorem tasks_cfgFillHA (tf : Int) (cs : List (Candle F)) :
    tasks (cfgFillHA tf) cs = (do
      let cs ← collapseCandles (some tf) true cs
      if cs.isEmpty then .ok cs else convertCandles cs) := by
  unfold tasks cfgFillHA trimCandles
  cases collapseCandles (some tf) true cs with
  | error e => rfl
  | ok out =>
    simp only [bind, Except.bind]
    cases out with
    | nil => rfl
    | cons c r =>
      simp only [List.isEmpty_cons, Bool.not_false, Bool.and_self, if_true, Bool.false_eq_true, if_false]
      cases convertCandles (c :: r) <;> rfl

theorem RawTf.rawHA {xs : List (Candle F)} (h : RawTf xs) (htag : ∀ c ∈ xs, c.tag = false) : RawHA xs :=
  ⟨h.stamped, fun c hc => ⟨htag c hc, h.cleanNone c hc⟩, h.sorted⟩

/-- **One pass of collapse (+ fill) → convert** over the converted filled buckets of `s` followed
by new raw candles gives the converted filled buckets of `s ++ new`. -/
theorem tasks_fill_ha_append (tf : Int) (htf : 0 < tf) (s new Z : List (Candle F))
    (hraw : RawTf (s ++ new)) (htag : ∀ c ∈ s ++ new, c.tag = false) (hZ : FilledOf tf s Z) :
    ∃ Z', FilledOf tf (s ++ new) Z' ∧ tasks (cfgFillHA tf) (haSpec Z ++ new) = .ok (haSpec Z') := by
  have hha : RawHA (s ++ new) := hraw.rawHA htag
  have hn : RawHA new := hha.append_right
  have hunZ : ∀ c ∈ Z, Untouched c := hZ.untouched hha.append_left.untouched
  obtain ⟨Z', hZ'⟩ := filledOf tf htf (s ++ new) hraw
  obtain ⟨k, Q, _, hcol, hres, hQ⟩ := collapse_ha_bk tf htf Z new hZ.bucketed.reverseR hunZ hn
    (labelsMono_filled_append tf htf s new Z hraw hZ)
  have hfill : fillMissing tf (Z.take k ++ Q) = .ok Z' := by
    rw [← hres, fill_resample_append tf htf s new Z hraw hZ]; exact hZ'.eq
  obtain ⟨T, hZT, hfillZ, hT⟩ := fill_ha_prefix tf htf (Z.take k) Q Z' (contiguous_take tf Z k hZ.contig)
    (fun c hc => hunZ c (List.mem_of_mem_take hc)) hQ hfill
  have hfirst : ∀ c, (haSpec Z ++ new).head? = some c → c.ts ≠ none := by
    intro c hc
    cases hz : haSpec Z with
    | nil => rw [hz] at hc; exact hn.stamped c (List.mem_of_mem_head? (by simpa using hc))
    | cons y yr =>
      rw [hz] at hc; simp at hc; subst hc
      have hmem : y.ts ∈ (haSpec Z).map (·.ts) := List.mem_map.2 ⟨y, by rw [hz]; simp, rfl⟩
      rw [(haSpec_rel Z).ts_eq] at hmem
      obtain ⟨b, hb, hby⟩ := List.mem_map.1 hmem
      obtain ⟨t, ht, _⟩ := hZ.bucketed.stamped b hb
      rw [← hby, ht]; simp
  refine ⟨Z', hZ', ?_⟩
  rw [tasks_cfgFillHA, collapse_fill_eq tf _ hfirst, hcol]
  simp only [bind, Except.bind]
  rw [hfillZ]
  simp only
  by_cases he : (haSpec (Z.take k) ++ T).isEmpty = true
  · have h1 : haSpec (Z.take k) = [] ∧ T = [] := by simpa using he
    have hA : Z.take k = [] := haSpec_eq_nil _ h1.1
    simp [hZT, h1.2, hA, haSpec_nil]
  · simp only [he, Bool.false_eq_true, if_false]
    rw [convertCandles_resume (haSpec (Z.take k)) T (haSpec_rel _).tagged (fun c hc => (hT c hc).1),
      ← haSpec_append, ← hZT]

theorem filledOf_nil (tf : Int) (Z : List (Candle F)) (h : FilledOf tf [] Z) : Z = [] := by
  have := h.eq
  simp only [resample, resampleR, List.foldl_nil, List.reverse_nil] at this
  rw [fillMissing] at this
  exact (Except.ok.inj this).symm

/-- **Every append schedule, timeframe + fill + Heikin-Ashi** (manager level) -/
theorem manager_fill_ha_schedule (tf : Int) (htf : 0 < tf) (chunks : List (List (Candle F))) :
    ∀ (s Z : List (Candle F)), FilledOf tf s Z → RawTf (s ++ chunks.flatten) →
      (∀ c ∈ s ++ chunks.flatten, c.tag = false) →
      chunks.foldlM (fun (m : Manager F) ch => m.append ch) { cfg := cfgFillHA tf, candles := haSpec Z }
        = .ok { cfg := cfgFillHA tf, candles := haSpec (fillSpec tf (s ++ chunks.flatten)) } := by
  induction chunks with
  | nil => intro s Z hZ _ _; simp [hZ.spec_eq, pure, Except.pure]
  | cons ch rest ih =>
    intro s Z hZ hraw htag
    have hraw' : RawTf ((s ++ ch) ++ rest.flatten) := by simpa [List.append_assoc] using hraw
    have htag' : ∀ c ∈ (s ++ ch) ++ rest.flatten, c.tag = false := by simpa [List.append_assoc] using htag
    have hsch : RawTf (s ++ ch) := hraw'.append_left
    have htsch : ∀ c ∈ s ++ ch, c.tag = false := fun c hc => htag' c (List.mem_append_left _ hc)
    simp only [List.foldlM_cons, List.flatten_cons, bind, Except.bind]
    by_cases hch : ch = []
    · subst hch
      have e : Manager.append ({ cfg := cfgFillHA tf, candles := haSpec Z } : Manager F) []
          = .ok { cfg := cfgFillHA tf, candles := haSpec Z } := by simp [Manager.append]
      rw [e]
      simpa using ih s Z hZ (by simpa using hraw) (by simpa using htag)
    · obtain ⟨Z', hZ', htasks⟩ := tasks_fill_ha_append tf htf s ch Z hsch htsch hZ
      have hne : ch.isEmpty = false := by cases ch <;> simp at hch ⊢
      have happ : Manager.append ({ cfg := cfgFillHA tf, candles := haSpec Z } : Manager F) ch
          = .ok { cfg := cfgFillHA tf, candles := haSpec Z' } := by
        unfold Manager.append
        simp only [hne, Bool.false_eq_true, if_false, htasks, bind, Except.bind]
        rfl
      rw [happ]
      have := ih (s ++ ch) Z' hZ' hraw' htag'
      simpa [List.append_assoc] using this

/-- construction + appends -/
theorem run_fill_ha_schedule (tf : Int) (htf : 0 < tf) (init : List (Candle F)) (chunks : List (List (Candle F)))
    (hraw : RawTf (init ++ chunks.flatten)) (htag : ∀ c ∈ init ++ chunks.flatten, c.tag = false) :
    (do let m ← Manager.init (cfgFillHA tf) init
        chunks.foldlM (fun (m : Manager F) ch => m.append ch) m)
      = .ok { cfg := cfgFillHA tf, candles := haSpec (fillSpec tf (init ++ chunks.flatten)) } := by
  obtain ⟨Z0, hZ0⟩ := filledOf tf htf ([] : List (Candle F)) ⟨by simp, by simp, by simp, by simp⟩
  have hnil := filledOf_nil tf Z0 hZ0
  subst hnil
  obtain ⟨Z1, hZ1, h1⟩ := tasks_fill_ha_append tf htf [] init [] (by simpa using hraw.append_left)
    (by intro c hc; exact htag c (by simpa using Or.inl (by simpa using hc))) hZ0
  simp only [haSpec_nil, List.nil_append] at h1 hZ1
  unfold Manager.init
  rw [h1]
  simp only [bind, Except.bind, pure, Except.pure]
  exact manager_fill_ha_schedule tf htf chunks init Z1 hZ1 hraw htag

end Hex

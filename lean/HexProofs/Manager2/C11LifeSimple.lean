import HexProofs.Manager2.C11Life
import HexProofs.Manager2.C11LifeEx
/-
C11 + lifespan on a GAP-FILLED collapsing timeframe: a sufficient condition for `KeepsPredecessor` that can be read off
the configuration alone.

With `timeframe_fill` consecutive candles of the manager are exactly one timeframe apart (`Contiguous`), so a lifespan of
at least one timeframe (`tf ≤ life`, seconds) never pops the candle before the newest one: after every trim either
nothing has ever been popped or at least TWO candles are held, and the next append re-opens at most the newest of them.
Hence `KeepsPredecessor` holds for EVERY raw stream and append schedule (`keepsPredecessor_of_fill_le`) and
`fill_ha_life_schedule` needs no retention hypothesis (`fill_ha_life_schedule_of_le`).

The bound is sharp: with `life < tf` every trim of a list of two or more candles leaves the newest candle only
(`fill_le_sharp`: 120 s buckets, lifespan 119 s, the run does not end with a suffix of the Heikin-Ashi fold).
-/
namespace Hex
set_option linter.unusedSectionVars false
set_option linter.unusedSimpArgs false
set_option linter.unusedVariables false
variable {F : Type} [PyF F]

/-! ### lists -/

theorem dropWhile_length_ge_suffix {α : Type} (p : α → Bool) (a : α) (suf : List α) (ha : p a = false) :
    ∀ pre : List α, (a :: suf).length ≤ ((pre ++ a :: suf).dropWhile p).length := by
  intro pre
  induction pre with
  | nil =>
    have : p a ≠ true := by rw [ha]; exact Bool.false_ne_true
    rw [List.nil_append, List.dropWhile_cons_of_neg this]
  | cons x r ih =>
    by_cases hx : p x = true
    · rw [List.cons_append, List.dropWhile_cons_of_pos hx]; exact ih
    · rw [List.cons_append, List.dropWhile_cons_of_neg hx]
      simp only [List.length_cons, List.length_append] at ih ⊢
      omega

/-- the last two candles of a contiguous list of two or more candles are one timeframe apart -/
theorem contigFrom_last_two (tf : Int) (r : List (Candle F)) :
    ∀ (c : Candle F) (t : Int), c.ts = some t → ContigFrom tf t r → r ≠ [] →
      ∃ pre a b u, c :: r = pre ++ [a, b] ∧ a.ts = some u ∧ b.ts = some (u + tf) := by
  induction r with
  | nil => intro c t _ _ h; exact absurd rfl h
  | cons x r ih =>
    intro c t hc h _
    obtain ⟨hx, hr⟩ := h
    cases r with
    | nil => exact ⟨[], c, x, t, rfl, hc, hx⟩
    | cons y r' =>
      obtain ⟨pre, a, b, u, e, ha, hb⟩ := ih x (t + tf) hx hr (by simp)
      exact ⟨c :: pre, a, b, u, by rw [e]; rfl, ha, hb⟩

theorem contiguous_last_two (tf : Int) (Z : List (Candle F)) (hc : Contiguous tf Z) (h2 : 2 ≤ Z.length) :
    ∃ pre a b u, Z = pre ++ [a, b] ∧ a.ts = some u ∧ b.ts = some (u + tf) := by
  cases Z with
  | nil => simp at h2
  | cons c r =>
    obtain ⟨t, ht, hr⟩ := hc
    exact contigFrom_last_two tf r c t ht hr (by intro h; rw [h] at h2; simp at h2)

/-! ### one trim -/

/-- a trim with a lifespan of at least the distance between the last two candles keeps both -/
theorem poppedBy_keeps_two (life tf : Int) (hle : tf ≤ life) (pre : List (Candle F)) (a b : Candle F) (u : Int)
    (ha : a.ts = some u) (hb : b.ts = some (u + tf)) :
    poppedBy life (pre ++ [a, b]) + 2 ≤ (pre ++ [a, b]).length := by
  have hlast : (pre ++ [a, b]).getLast? = some b := by simp
  have hta : tooOld (u + tf - life) a = false := by
    simp only [tooOld, ha, decide_eq_false_iff_not]; omega
  have hlen := dropWhile_length_ge_suffix (tooOld (u + tf - life)) a [b] hta pre
  have hdl : ((pre ++ [a, b]).dropWhile (tooOld (u + tf - life))).length ≤ (pre ++ [a, b]).length := by
    have := (List.dropWhile_sublist (tooOld (F := F) (u + tf - life)) (l := pre ++ [a, b])).length_le
    exact this
  have hne : ((pre ++ [a, b]).dropWhile (tooOld (u + tf - life))).isEmpty = false := by
    cases hd : (pre ++ [a, b]).dropWhile (tooOld (u + tf - life)) with
    | cons _ _ => rfl
    | nil => rw [hd] at hlen; simp at hlen
  have htrim : trimCandles (some life) (pre ++ [a, b])
      = .ok ((pre ++ [a, b]).dropWhile (tooOld (u + tf - life))) := by
    unfold trimCandles
    rw [hlast]
    simp only [hb, hne, Bool.false_eq_true, if_false]
  unfold poppedBy
  rw [htrim]
  simp only [List.length_cons, List.length_nil] at hlen
  simp only
  omega

/-- **the invariant of one trim on a contiguous list**: `d` leading candles popped so far (none, or two candles still
held); after the trim none have been popped or two candles are still held -/
theorem popped_step_contig (tf life : Int) (htf : 0 < tf) (hle : tf ≤ life) (Z : List (Candle F))
    (hc : Contiguous tf Z) (d : Nat) (hd : d = 0 ∨ d + 2 ≤ Z.length) :
    d + poppedBy life (Z.drop d) = 0 ∨ d + poppedBy life (Z.drop d) + 2 ≤ Z.length := by
  by_cases h2 : 2 ≤ Z.length
  · right
    obtain ⟨pre, a, b, u, e, ha, hb⟩ := contiguous_last_two tf Z hc h2
    have hlen : Z.length = pre.length + 2 := by rw [e]; simp
    have hdp : d ≤ pre.length := by omega
    have hdrop : Z.drop d = pre.drop d ++ [a, b] := by
      rw [e, List.drop_append_of_le_length hdp]
    have := poppedBy_keeps_two life tf hle (pre.drop d) a b u ha hb
    rw [hdrop]
    simp only [List.length_append, List.length_drop, List.length_cons, List.length_nil] at this
    omega
  · left
    have hd0 : d = 0 := by omega
    subst hd0
    simp only [List.drop_zero, Nat.zero_add]
    by_cases hZ : Z = []
    · have := poppedBy_le life Z; rw [hZ] at this ⊢; simpa using this
    · have := poppedBy_lt life (by omega) Z hZ
      omega

/-! ### the schedule -/

theorem fillSpec_contiguous (tf : Int) (htf : 0 < tf) (s : List (Candle F)) (h : RawTf s) :
    Contiguous tf (fillSpec tf s) := by
  obtain ⟨Z, hZ⟩ := filledOf tf htf s h
  rw [hZ.spec_eq]; exact hZ.contig

/-- an append never shortens the filled spec -/
theorem fillSpec_length_mono (tf : Int) (htf : 0 < tf) (s ch : List (Candle F)) (hok : RawTfHA (s ++ ch))
    (hne : ch ≠ []) : (fillSpec tf s).length ≤ (fillSpec tf (s ++ ch)).length := by
  obtain ⟨Q, _, hkc, hgrow, _, hspec, _⟩ :=
    (TwinMgr.fillHA F tf htf).append s ch ((TwinMgr.fillHA F tf htf).spec s) hok hne (Dressed.rfl' _)
  have h1 : ((TwinMgr.fillHA F tf htf).spec (s ++ ch)).length
      = (TwinMgr.fillHA F tf htf).closed s ch + Q.length := by
    rw [hspec, List.length_append, List.length_take]; omega
  have e1 : ((TwinMgr.fillHA F tf htf).spec (s ++ ch)).length = (fillSpec tf (s ++ ch)).length := haSpec_length _
  have e2 : ((TwinMgr.fillHA F tf htf).spec s).length = (fillSpec tf s).length := haSpec_length _
  omega

theorem keepsPredecessor_fill_aux (tf : Int) (htf : 0 < tf) (life : Int) (hle : tf ≤ life)
    (chunks : List (List (Candle F))) :
    ∀ (s : List (Candle F)) (d : Nat), RawTfHA (s ++ chunks.flatten) →
      (d = 0 ∨ d + 2 ≤ (fillSpec tf s).length) →
      KeepsPredecessor (fun s => haSpec (fillSpec tf s)) (closedFilled tf) life s d chunks := by
  induction chunks with
  | nil => intro s d _ _; trivial
  | cons ch rest ih =>
    intro s d hok hd
    have hok' : RawTfHA ((s ++ ch) ++ rest.flatten) := by simpa [List.append_assoc] using hok
    have hsch : RawTfHA (s ++ ch) := hok'.append_left
    unfold KeepsPredecessor
    by_cases he : ch.isEmpty = true
    · simp only [he, if_true]
      have hnil : ch = [] := List.isEmpty_iff.1 he
      subst hnil
      exact ih s d (by simpa using hok) hd
    · have hef : ch.isEmpty = false := by simpa using he
      have hne : ch ≠ [] := fun h => by rw [h] at hef; simp at hef
      simp only [hef, Bool.false_eq_true, if_false]
      refine ⟨?_, ?_⟩
      · rcases hd with h0 | h1
        · left; exact h0
        · right
          have := le_closedOf_succ tf (fillSpec tf s) ch
          unfold closedFilled
          omega
      · rw [poppedBy_haSpec_drop]
        apply ih (s ++ ch) _ hok'
        have hmono := fillSpec_length_mono tf htf s ch hsch hne
        exact popped_step_contig tf life htf hle _ (fillSpec_contiguous tf htf _ hsch.1) d (by omega)

/-- **On a gap-filled timeframe a lifespan of at least one timeframe keeps the predecessor.**  `tf ≤ life` (both in
seconds) – a condition on the configuration alone; every raw stream (stamped, time-ordered, reading-free, not yet
converted candles), every construction prefix, every append schedule. -/
theorem keepsPredecessor_of_fill_le (tf : Int) (htf : 0 < tf) (life : Int) (hle : tf ≤ life)
    (init : List (Candle F)) (chunks : List (List (Candle F))) (hraw : RawTfHA (init ++ chunks.flatten)) :
    KeepsPredecessor (fun s => haSpec (fillSpec tf s)) (closedFilled tf) life init
      (poppedBy life (haSpec (fillSpec tf init))) chunks := by
  apply keepsPredecessor_fill_aux tf htf life hle chunks init _ hraw
  have h := popped_step_contig tf life htf hle (fillSpec tf init)
    (fillSpec_contiguous tf htf init hraw.append_left.1) 0 (Or.inl rfl)
  have e : poppedBy life (haSpec (fillSpec tf init)) = poppedBy life (fillSpec tf init) := by
    have := poppedBy_haSpec_drop life (fillSpec tf init) 0
    simpa using this
  rw [e]
  simpa using h

/-- **C11 + lifespan on a gap-filled collapsing timeframe, lifespan of at least one timeframe: NO retention
hypothesis.**  After construction from any prefix and any appends the run never raises and the manager holds the
Heikin-Ashi left fold over the gap-filled collapsed buckets of the WHOLE raw stream minus the popped leading candles. -/
theorem fill_ha_life_schedule_of_le (tf : Int) (htf : 0 < tf) (life : Int) (hle : tf ≤ life) (init : List (Candle F))
    (chunks : List (List (Candle F))) (hraw : RawTfHA (init ++ chunks.flatten)) :
    runSched (cfgFillHALife tf life) init chunks
      = .ok { cfg := cfgFillHALife tf life,
              candles := (haSpec (fillSpec tf (init ++ chunks.flatten))).drop
                (poppedAfter (fun s => haSpec (fillSpec tf s)) life init
                  (poppedBy life (haSpec (fillSpec tf init))) chunks) } :=
  fill_ha_life_schedule tf htf life (by omega) init chunks hraw
    (keepsPredecessor_of_fill_le tf htf life hle init chunks hraw)

/-! ### non-vacuity, and sharpness of the bound -/
namespace C11LifeEx

/-- lifespan = exactly one timeframe (120 s buckets, gap in the stream): the theorem applied -/
example : runSched (cfgFillHALife 120 120) tfInit tfChunksGap
    = .ok { cfg := cfgFillHALife 120 120,
            candles := (haSpec (fillSpec 120 (tfInit ++ tfChunksGap.flatten))).drop
              (poppedAfter (fun s => haSpec (fillSpec 120 s)) 120 tfInit
                (poppedBy 120 (haSpec (fillSpec 120 tfInit))) tfChunksGap) } :=
  fill_ha_life_schedule_of_le 120 (by decide) 120 (by decide) tfInit tfChunksGap tfGapRaw

example : keepsPredecessorB (fun s => haSpec (fillSpec 120 s)) (closedFilled 120) 120 tfInit
    (poppedBy 120 (haSpec (fillSpec 120 tfInit))) tfChunksGap = true := by decide +kernel

/-- candles ARE popped on that run, and exactly two are held at the end -/
theorem le_popped : (poppedAfter (fun s => haSpec (fillSpec 120 s)) 120 tfInit
      (poppedBy 120 (haSpec (fillSpec 120 tfInit))) tfChunksGap,
      (haSpec (fillSpec 120 (tfInit ++ tfChunksGap.flatten))).length) =
    ((haSpec (fillSpec 120 (tfInit ++ tfChunksGap.flatten))).length - 2,
      (haSpec (fillSpec 120 (tfInit ++ tfChunksGap.flatten))).length) := by decide +kernel

/-- **the bound is sharp**: one second less (lifespan 119 s on filled 120 s buckets, the witness stream of
`tf_ha_life_needs_predecessor`) and the hypothesis fails … -/
theorem fill_le_sharp_hyp : keepsPredecessorB (fun s => haSpec (fillSpec 120 s)) (closedFilled 120) 119 wInit
    (poppedBy 119 (haSpec (fillSpec 120 wInit))) wChunks = false := by decide +kernel

theorem w_fill_trimmed : (runSched (cfgFillHALife 120 119) wInit wChunks).toOption.map (·.candles.map viewHA)
    = some [((65, 90, 45, 66), true, some 80)] := by decide +kernel
theorem w_fill_spec : (haSpec (fillSpec 120 (wInit ++ wChunks.flatten))).map viewHA
    = [((45, 60, 30, 45), true, some 50), ((45, 90, 45, 66), true, some 80)] := by decide +kernel

/-- … and so does the conclusion: the manager does not end with a suffix of the Heikin-Ashi fold -/
theorem fill_le_sharp :
    ¬ (∀ (tf : Int), 0 < tf → ∀ (life : Int), tf - 1 ≤ life →
        ∀ (init : List (Candle Int)) (chunks : List (List (Candle Int))), RawTfHA (init ++ chunks.flatten) →
        ∃ m d, runSched (cfgFillHALife tf life) init chunks = .ok m ∧
          m.candles = (haSpec (fillSpec tf (init ++ chunks.flatten))).drop d) := by
  intro H
  obtain ⟨m, d, h1, h2⟩ := H 120 (by decide) 119 (by decide) wInit wChunks wRaw
  have hT := w_fill_trimmed
  rw [h1] at hT
  simp only [Except.toOption, Option.map_some, Option.some.injEq] at hT
  rw [h2, List.map_drop, w_fill_spec] at hT
  match d, hT with
  | 0, hT => simp at hT
  | 1, hT => revert hT; decide
  | (n + 2), hT => simp at hT

end C11LifeEx
end Hex

#print axioms Hex.popped_step_contig
#print axioms Hex.keepsPredecessor_of_fill_le
#print axioms Hex.fill_ha_life_schedule_of_le
#print axioms Hex.C11LifeEx.fill_le_sharp

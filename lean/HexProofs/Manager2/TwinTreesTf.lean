import HexProofs.Manager2.TwinTreesTfFill
/-
C15, second clause (readings on the retained candles equal those of the untrimmed twin) TOGETHER with a
collapsing timeframe – every `CoveredTreeX` class, every timeframe `tf > 0`, every lifespan, every
construction prefix and append schedule of raw candles.

The manager runs `collapse → fill → convert → trim` on `retained buckets ++ new raw candles`:
  * the retained buckets are already labelled, so re-collapsing them loses nothing, whatever was popped in
    front of them (`collapse_dressed_closed`: the result is the untrimmed twin's result minus the popped
    buckets);
  * the newest bucket is still forming: a raw candle carrying its label is merged into it, `Candle.merge`
    wipes its readings and the engine re-computes it – on BOTH sides.  So the candles that count as
    retained history are the CLOSED buckets (`closedOf`): the buckets from before the append that the
    append does not re-open;
  * the trim runs last and compares bucket labels with `latest − lifespan`.
Hypothesis (`RetainsBuckets`, on the collapsed stream only): nothing is popped at construction, and at every
non-empty append either nothing has been popped so far or `treeLook` closed buckets are retained.
Conclusion: whenever both runs return, the trimmed run's candles are the twin's candles `.drop d`
(`C15b_trees_tf`; with `timeframe_fill`: `C15b_trees_tf_fill`, on the filled bucket list).
-/
namespace Hex
set_option linter.unusedSectionVars false
set_option linter.unusedSimpArgs false
variable {F : Type} [PyF F]

/-! ### the hypothesis on the collapsed stream -/

/-- buckets of the raw stream `s` that are closed when the raw chunk `ch` arrives: all of them, or all but
the newest if the first candle of `ch` still falls into it -/
def closedBuckets (tf : Int) (s ch : List (Candle F)) : Nat := closedOf tf (resample tf s) ch

/-- **The retention hypothesis for a collapsing timeframe**, on the collapsed stream (cf. `RetainsFrom`).
`s`: raw stream received so far, `d`: leading buckets of `resample tf s` popped so far.  At every non-empty
append the trim of the re-collapsed list `(resample tf (s ++ ch)).drop d` succeeds and – with `d'` the number
of buckets popped after it – either `d' = 0` or `d' + L ≤ closedBuckets tf s ch`: at least `L` finished buckets
from before the append, not counting the still-forming one if the append re-opens it, are retained. -/
def RetainsBuckets (L : Nat) (tf life : Int) : List (Candle F) → Nat → List (List (Candle F)) → Prop :=
  RetainsClosed (resample tf) (closedBuckets tf) L life

/-- the same with gap filling: buckets and fill candles of `fillSpec tf s` (resample, then fill) -/
def closedFilled (tf : Int) (s ch : List (Candle F)) : Nat := closedOf tf (fillSpec tf s) ch

def RetainsFilled (L : Nat) (tf life : Int) : List (Candle F) → Nat → List (List (Candle F)) → Prop :=
  RetainsClosed (fillSpec tf) (closedFilled tf) L life

/-- Boolean checks for concrete schedules -/
def retainsBucketsB (L : Nat) (tf life : Int) : List (Candle F) → Nat → List (List (Candle F)) → Bool :=
  retainsClosedB (resample tf) (closedBuckets tf) L life
def retainsFilledB (L : Nat) (tf life : Int) : List (Candle F) → Nat → List (List (Candle F)) → Bool :=
  retainsClosedB (fillSpec tf) (closedFilled tf) L life

theorem retainsBuckets_of_B (L : Nat) (tf life : Int) (s : List (Candle F)) (d : Nat)
    (chunks : List (List (Candle F))) (h : retainsBucketsB L tf life s d chunks = true) :
    RetainsBuckets L tf life s d chunks := retainsClosed_of_B _ _ L life chunks s d h
theorem retainsFilled_of_B (L : Nat) (tf life : Int) (s : List (Candle F)) (d : Nat)
    (chunks : List (List (Candle F))) (h : retainsFilledB L tf life s d chunks = true) :
    RetainsFilled L tf life s d chunks := retainsClosed_of_B _ _ L life chunks s d h

/-- one step of the hypothesis, spelled out -/
theorem retainsBuckets_cons (L : Nat) (tf life : Int) (s : List (Candle F)) (d : Nat) (ch : List (Candle F))
    (rest : List (List (Candle F))) :
    RetainsBuckets L tf life s d (ch :: rest) ↔
      (ch = [] ∧ RetainsBuckets L tf life s d rest) ∨
      (ch ≠ [] ∧ ∃ m', trimCandles (some life) ((resample tf (s ++ ch)).drop d) = .ok m' ∧
        ((resample tf (s ++ ch)).length - m'.length = 0 ∨
          (resample tf (s ++ ch)).length - m'.length + L ≤ closedBuckets tf s ch) ∧
        RetainsBuckets L tf life (s ++ ch) ((resample tf (s ++ ch)).length - m'.length) rest) := by
  unfold RetainsBuckets
  rw [RetainsClosed]

/-! ### the configurations -/

/-- timeframe + fill + lifespan -/
def cfgFillLife (tf life : Int) : MgrCfg := { tf := some tf, fill := true, lifespan := some life }

theorem cfgTf_withLife (tf life : Int) : (cfgTf tf).withLife life = cfgTfLife tf life := rfl
theorem cfgFill_withLife (tf life : Int) : (cfgFill tf).withLife life = cfgFillLife tf life := rfl

/-! ### the theorems -/

/-- **Whole schedule on a collapsing timeframe, any tree with `TwinOK`.** -/
theorem twin_schedule_tree_tf (ind : Ind F) {L : Nat} (T : TwinOK ind L) (tf : Int) (htf : 0 < tf) (life : Int)
    (init : List (Candle F)) (chunks : List (List (Candle F))) (hraw : RawTf (init ++ chunks.flatten))
    (hinit : trimCandles (some life) (resample tf init) = .ok (resample tf init))
    (hret : RetainsBuckets L tf life init 0 chunks) (a b : List (Candle F))
    (ha : candlesOf (runIndicator ind (cfgTfLife tf life) init chunks) = .ok a)
    (hb : candlesOf (runIndicator ind (cfgTf tf) init chunks) = .ok b) : ∃ d, a = b.drop d :=
  twin_schedule_mgr (TwinMgr.tf F tf htf) ind T life init chunks hraw hinit hret a b ha hb

/-- **Whole schedule on a collapsing timeframe with gap filling, any tree with `TwinOK`.** -/
theorem twin_schedule_tree_tf_fill (ind : Ind F) {L : Nat} (T : TwinOK ind L) (tf : Int) (htf : 0 < tf)
    (life : Int) (init : List (Candle F)) (chunks : List (List (Candle F)))
    (hraw : RawTf (init ++ chunks.flatten))
    (hinit : trimCandles (some life) (fillSpec tf init) = .ok (fillSpec tf init))
    (hret : RetainsFilled L tf life init 0 chunks) (a b : List (Candle F))
    (ha : candlesOf (runIndicator ind (cfgFillLife tf life) init chunks) = .ok a)
    (hb : candlesOf (runIndicator ind (cfgFill tf) init chunks) = .ok b) : ∃ d, a = b.drop d :=
  twin_schedule_mgr (TwinMgr.fill F tf htf) ind T life init chunks hraw hinit hret a b ha hb

/-- **C15, second clause, on a collapsing timeframe – every shipped class.**  For every `CoveredTreeX` kind
(the 27 classes), every timeframe `tf > 0`, every lifespan, every construction prefix `init` and append
schedule `chunks` of raw candles (`RawTf`: stamped, unconverted, sorted, reading-free): if the trim pops
nothing at construction and every non-empty append retains `treeLook k name round` closed buckets
(`RetainsBuckets`) then – whenever the run with `{timeframe, candles_lifespan}` and its untrimmed twin
`{timeframe}` both return – the trimmed indicator holds exactly the twin's candles minus the popped leading
buckets: same OHLCV, same stamps, same top-level readings, helper series and `_data` series on every retained
bucket, the still-forming newest one included. -/
theorem C15b_trees_tf (k : Kind F) (name : String) (round : Nat) (hc : CoveredTreeX name k)
    (tf : Int) (htf : 0 < tf) (life : Int) (init : List (Candle F)) (chunks : List (List (Candle F)))
    (hraw : RawTf (init ++ chunks.flatten))
    (hinit : trimCandles (some life) (resample tf init) = .ok (resample tf init))
    (hret : RetainsBuckets (treeLook k name round) tf life init 0 chunks) (a b : List (Candle F))
    (ha : candlesOf (runIndicator (mkTop k name round) (cfgTfLife tf life) init chunks) = .ok a)
    (hb : candlesOf (runIndicator (mkTop k name round) (cfgTf tf) init chunks) = .ok b) : ∃ d, a = b.drop d :=
  twin_schedule_tree_tf (mkTop k name round) (hc.twinOK round) tf htf life init chunks hraw hinit hret a b ha hb

/-- **… and with `timeframe_fill = True`** (task order `collapse → fill → trim`): the same over the filled
bucket list `fillSpec tf` (fill candles count as candles: they carry readings and can be popped). -/
theorem C15b_trees_tf_fill (k : Kind F) (name : String) (round : Nat) (hc : CoveredTreeX name k)
    (tf : Int) (htf : 0 < tf) (life : Int) (init : List (Candle F)) (chunks : List (List (Candle F)))
    (hraw : RawTf (init ++ chunks.flatten))
    (hinit : trimCandles (some life) (fillSpec tf init) = .ok (fillSpec tf init))
    (hret : RetainsFilled (treeLook k name round) tf life init 0 chunks) (a b : List (Candle F))
    (ha : candlesOf (runIndicator (mkTop k name round) (cfgFillLife tf life) init chunks) = .ok a)
    (hb : candlesOf (runIndicator (mkTop k name round) (cfgFill tf) init chunks) = .ok b) : ∃ d, a = b.drop d :=
  twin_schedule_tree_tf_fill (mkTop k name round) (hc.twinOK round) tf htf life init chunks hraw hinit hret
    a b ha hb

/-! ### non-vacuity (toy carrier `Int`) -/

section Demo
set_option synthInstance.maxSize 2000

private def mkc (o h l c v : Int) (t : Int) : Candle Int :=
  { o := .int o, h := .int h, l := .int l, c := .int c, v := .int v, ts := some t }

/-- seven one-minute candles, stamps 60 … 420: on a 120 s timeframe the buckets 120, 240, 360 and the still
forming bucket 480 -/
def tfInit : List (Candle Int) :=
  [mkc 10 30 10 30 100 60, mkc 30 50 20 40 200 120, mkc 40 40 0 10 50 180, mkc 10 120 10 110 70 240,
   mkc 110 130 60 70 90 300, mkc 70 90 50 80 30 360, mkc 80 100 70 90 60 420]
/-- the schedule: 480 completes the forming bucket; 540 opens bucket 600 (pops 120); 600 is merged into the
forming bucket 600 and 660 opens 720 (pops 240); an empty chunk; 720 is merged; 780, 840 open 840 (pops 360) -/
def tfChunks : List (List (Candle Int)) :=
  [[mkc 90 95 60 65 40 480], [mkc 65 140 60 130 80 540], [mkc 130 150 100 120 20 600, mkc 120 125 30 40 75 660],
   [], [mkc 40 80 35 75 10 720], [mkc 75 110 70 100 45 780, mkc 100 105 20 30 55 840]]

theorem tfDemo_raw : RawTf (tfInit ++ tfChunks.flatten) := ⟨by decide, by decide, by decide, by decide⟩
/-- lifespan 360 s: nothing is popped at construction (buckets 120 … 480) -/
theorem tfDemo_init : trimCandles (some 360) (resample 120 tfInit) = .ok (resample 120 tfInit) := rfl
/-- at every non-empty append two closed buckets are retained (tight at the third append: the buckets 120 and
240 are popped, 360 and 480 are the two closed ones, 600 is re-opened, 720 is new) -/
theorem tfDemo_retains : RetainsBuckets 2 120 360 tfInit 0 tfChunks :=
  retainsBuckets_of_B 2 120 360 tfInit 0 tfChunks (by decide +kernel)

def runTtf (k : Kind Int) (name : String) : PyM (List (Candle Int)) :=
  candlesOf (runIndicator (mkTop k name 4) (cfgTfLife 120 360) tfInit tfChunks)
def runUtf (k : Kind Int) (name : String) : PyM (List (Candle Int)) :=
  candlesOf (runIndicator (mkTop k name 4) (cfgTf 120) tfInit tfChunks)

/-- the theorem applied to the demo – ATR 3 (look-back 2) -/
example (a b : List (Candle Int)) (ha : runTtf (.atr 3) "ATR_3" = .ok a) (hb : runUtf (.atr 3) "ATR_3" = .ok b) :
    ∃ d, a = b.drop d :=
  C15b_trees_tf (.atr 3) "ATR_3" 4 atrDemoOK 120 (by decide) 360 tfInit tfChunks tfDemo_raw tfDemo_init
    (by rw [atrDemo_look]; exact tfDemo_retains) a b ha hb

/-- … and what the two runs hold: both return; the untrimmed twin holds the buckets 120 … 840, the trimmed run
the buckets 480 … 840 (THREE buckets popped over five non-empty appends) with the twin's ATR readings and TR
helper series -/
example : (runTtf (.atr 3) "ATR_3").toOption.map (·.map view)
    = (runUtf (.atr 3) "ATR_3").toOption.map (fun b => (b.drop 3).map view) := by decide +kernel
example : (runUtf (.atr 3) "ATR_3").toOption.map (·.map (·.ts))
    = some [some 120, some 240, some 360, some 480, some 600, some 720, some 840] := by decide +kernel
example : (runTtf (.atr 3) "ATR_3").toOption.map (·.map view) = some
    [(some 480, [("ATR_3", [("", some 80)])], [("ATR_3_TR", [("", some 40)])]),
     (some 600, [("ATR_3", [("", some 83)])], [("ATR_3_TR", [("", some 90)])]),
     (some 720, [("ATR_3", [("", some 87)])], [("ATR_3_TR", [("", some 95)])]),
     (some 840, [("ATR_3", [("", some 88)])], [("ATR_3_TR", [("", some 90)])])] := by decide +kernel

/-- RSI 2 (own `_data` series; look-back 2) on the same schedule -/
example (a b : List (Candle Int)) (ha : runTtf (.rsi 2 "close") "RSI_2" = .ok a)
    (hb : runUtf (.rsi 2 "close") "RSI_2" = .ok b) : ∃ d, a = b.drop d :=
  C15b_trees_tf (.rsi 2 "close") "RSI_2" 4 rsiDemoOK 120 (by decide) 360 tfInit tfChunks tfDemo_raw tfDemo_init
    (by rw [rsiDemo_look]; exact tfDemo_retains) a b ha hb
example : (runTtf (.rsi 2 "close") "RSI_2").toOption.map (·.map view)
    = (runUtf (.rsi 2 "close") "RSI_2").toOption.map (fun b => (b.drop 3).map view) := by decide +kernel
example : ((runTtf (.rsi 2 "close") "RSI_2").toOption.map (·.map view)).isSome = true := by decide +kernel

/-! with gap filling: a schedule with a two-bucket gap (no raw candle in buckets 720 and 840) -/

def tfChunksGap : List (List (Candle Int)) :=
  [[mkc 90 95 60 65 40 480], [mkc 65 140 60 130 80 540], [mkc 130 150 100 120 20 600, mkc 120 125 30 40 75 900],
   [], [mkc 40 80 35 75 10 960], [mkc 75 110 70 100 45 1020]]

theorem tfGap_raw : RawTf (tfInit ++ tfChunksGap.flatten) := ⟨by decide, by decide, by decide, by decide⟩
/-- lifespan 600 s: nothing is popped at construction -/
theorem tfGap_init : trimCandles (some 600) (fillSpec 120 tfInit) = .ok (fillSpec 120 tfInit) := rfl
theorem tfGap_retains : RetainsFilled 2 120 600 tfInit 0 tfChunksGap :=
  retainsFilled_of_B 2 120 600 tfInit 0 tfChunksGap (by decide +kernel)

def runTfill (k : Kind Int) (name : String) : PyM (List (Candle Int)) :=
  candlesOf (runIndicator (mkTop k name 4) (cfgFillLife 120 600) tfInit tfChunksGap)
def runUfill (k : Kind Int) (name : String) : PyM (List (Candle Int)) :=
  candlesOf (runIndicator (mkTop k name 4) (cfgFill 120) tfInit tfChunksGap)

example (a b : List (Candle Int)) (ha : runTfill (.atr 3) "ATR_3" = .ok a) (hb : runUfill (.atr 3) "ATR_3" = .ok b) :
    ∃ d, a = b.drop d :=
  C15b_trees_tf_fill (.atr 3) "ATR_3" 4 atrDemoOK 120 (by decide) 600 tfInit tfChunksGap tfGap_raw tfGap_init
    (by rw [atrDemo_look]; exact tfGap_retains) a b ha hb
/-- both return; the twin holds 120 … 1080 with the fill candles 720, 840; the trimmed run the last six (three popped) -/
example : (runUfill (.atr 3) "ATR_3").toOption.map (·.map (·.ts))
    = some [some 120, some 240, some 360, some 480, some 600, some 720, some 840, some 960, some 1080] := by
  decide +kernel
example : (runTfill (.atr 3) "ATR_3").toOption.map (·.map view)
    = (runUfill (.atr 3) "ATR_3").toOption.map (fun b => (b.drop 3).map view) := by decide +kernel
example : ((runTfill (.atr 3) "ATR_3").toOption.map (·.map view)).isSome = true := by decide +kernel

/-- the hypothesis cannot be dropped: with lifespan 360 s the append `[600, 900]` re-opens bucket 600, inserts the
fill candles 720 and 840, opens 960 and pops ALL four closed buckets – `RetainsFilled 2` fails, and the trimmed run
(ATR `None` on the fill candles) is not a suffix of its twin (ATR 55, 36 there); same on the real library -/
example : retainsFilledB 2 120 360 tfInit 0 tfChunksGap = false := by decide +kernel
example : (candlesOf (runIndicator (mkTop (.atr 3) "ATR_3" 4) (cfgFillLife 120 360) tfInit tfChunksGap)).toOption.map
      (·.map view)
    ≠ (runUfill (.atr 3) "ATR_3").toOption.map (fun b => (b.drop 5).map view) := by decide +kernel

/-! ### why CLOSED buckets: the still-forming bucket does not count as retained history

The naive reading of "retains `L` finished buckets from before the append" counts every bucket held before the
append.  That statement is FALSE: ROC 2 (look-back 2) on 120 s buckets 240, 360 and the forming bucket 480,
lifespan 240 s; appending the raw candles 480 and 540 merges the first into bucket 480, opens bucket 600 and
pops bucket 240.  Two buckets from before the append (360, 480) are retained, but 480 was re-opened: its reading
is re-computed on the popped list, where the candle two back is gone (`None`), while the untrimmed twin reads
bucket 240 (`100`).  Replayed on the real library: same result (`[None, None, 100.0]` vs `[…, None, 100.0, 100.0]`). -/

/-- the naive hypothesis: all buckets held before the append count as finished -/
def RetainsBucketsNaive (L : Nat) (tf life : Int) : List (Candle F) → Nat → List (List (Candle F)) → Prop :=
  RetainsClosed (resample tf) (fun s _ => (resample tf s).length) L life

def cxInit : List (Candle Int) :=
  [mkc 10 30 10 20 100 180, mkc 20 50 20 40 200 240, mkc 40 45 30 35 50 300, mkc 35 60 30 50 70 360,
   mkc 50 70 45 60 90 420]
def cxChunks : List (List (Candle Int)) := [[mkc 60 90 55 80 30 480, mkc 80 100 70 100 60 540]]

theorem rocDemoOK : CoveredTreeX (F := Int) "ROC_2" (.roc 2 "close") :=
  .base _ (.leaf _ (.roc 2 "close" (by decide) (by decide) (by decide)))
theorem rocDemo_look : treeLook (F := Int) (.roc 2 "close") "ROC_2" 4 = 2 := by
  simp [treeLook, mkTop, children, Ind.lb_eq, Ind.kind, Ind.subs, Ind.managed, leaf, kwin, window]

def cxT : PyM (List (Candle Int)) :=
  candlesOf (runIndicator (mkTop (.roc 2 "close") "ROC_2" 4) (cfgTfLife 120 240) cxInit cxChunks)
def cxU : PyM (List (Candle Int)) :=
  candlesOf (runIndicator (mkTop (.roc 2 "close") "ROC_2" 4) (cfgTf 120) cxInit cxChunks)

theorem cxT_view : cxT.toOption.map (·.map view) = some
    [(some 360, [("ROC_2", [("", none)])], []), (some 480, [("ROC_2", [("", none)])], []),
     (some 600, [("ROC_2", [("", some 100)])], [])] := by decide +kernel
theorem cxU_view : cxU.toOption.map (·.map view) = some
    [(some 240, [("ROC_2", [("", none)])], []), (some 360, [("ROC_2", [("", none)])], []),
     (some 480, [("ROC_2", [("", some 100)])], []), (some 600, [("ROC_2", [("", some 100)])], [])] := by
  decide +kernel

/-- **The statement with the naive hypothesis is false** (witness over `Int`, replayed on the library). -/
theorem C15b_trees_tf_naive_false :
    ¬ (∀ (k : Kind Int) (name : String) (round : Nat), CoveredTreeX name k → ∀ (tf : Int), 0 < tf →
        ∀ (life : Int) (init : List (Candle Int)) (chunks : List (List (Candle Int))),
        RawTf (init ++ chunks.flatten) → trimCandles (some life) (resample tf init) = .ok (resample tf init) →
        RetainsBucketsNaive (treeLook k name round) tf life init 0 chunks → ∀ a b,
        candlesOf (runIndicator (mkTop k name round) (cfgTfLife tf life) init chunks) = .ok a →
        candlesOf (runIndicator (mkTop k name round) (cfgTf tf) init chunks) = .ok b → ∃ d, a = b.drop d) := by
  intro H
  have hT := cxT_view
  have hU := cxU_view
  cases hA : cxT with
  | error e => rw [hA] at hT; cases hT
  | ok a =>
    cases hB : cxU with
    | error e => rw [hB] at hU; cases hU
    | ok b =>
      rw [hA] at hT; rw [hB] at hU
      simp only [Except.toOption, Option.map_some, Option.some.injEq] at hT hU
      obtain ⟨d, hd⟩ := H (.roc 2 "close") "ROC_2" 4 rocDemoOK 120 (by decide) 240 cxInit cxChunks
        ⟨by decide, by decide, by decide, by decide⟩ rfl
        (by rw [rocDemo_look]; exact retainsClosed_of_B _ _ 2 240 cxChunks cxInit 0 (by decide +kernel))
        a b hA hB
      have hv : a.map view = (b.map view).drop d := by rw [hd, List.map_drop]
      rw [hT, hU] at hv
      match d, hv with
      | 0, hv => simp at hv
      | 1, hv => revert hv; decide
      | (n + 2), hv =>
        have := congrArg List.length hv
        simp at this
        omega

/-- the correct hypothesis indeed fails on this schedule: only ONE closed bucket (360) is retained -/
example : retainsBucketsB 2 120 240 cxInit 0 cxChunks = false := by decide +kernel

end Demo

#print axioms twin_schedule_mgr
#print axioms TwinMgr.tf
#print axioms TwinMgr.fill
#print axioms C15b_trees_tf
#print axioms C15b_trees_tf_fill
#print axioms C15b_trees_tf_naive_false

end Hex

import HexProofs.Manager2.TwinTreesTfCollapse
/-
The collapsing-timeframe manager WITH gap filling (`collapse → fill`) as a `TwinMgr`.  The filled list is
contiguous, so the fill pass only inserts after the last closed candle; dropping leading closed candles
(other than the last closed one) commutes with it.
-/
namespace Hex
set_option linter.unusedSectionVars false
set_option linter.unusedSimpArgs false
variable {F : Type} [PyF F]

theorem fillMissing_length_le (tf : Int) (l : List (Candle F)) :
    ∀ out, fillMissing tf l = .ok out → l.length ≤ out.length := by
  induction l with
  | nil => intro out h; simp
  | cons a l ih =>
    intro out h
    cases l with
    | nil => rw [fillMissing] at h; cases h; simp
    | cons b r =>
      rw [fillMissing_cons_cons] at h
      cases hh : fillHead tf a b with
      | error e => rw [hh] at h; cases h
      | ok hd =>
        rw [hh] at h
        obtain ⟨h', rfl⟩ := fillHead_ne_nil tf a b hd hh
        cases ht : fillMissing tf (b :: r) with
        | error e => rw [ht] at h; cases h
        | ok t =>
          rw [ht] at h
          simp only [bind, Except.bind, pure, Except.pure] at h
          cases h
          have := ih t ht
          simp only [List.length_cons, List.length_append] at this ⊢
          omega

theorem contiguous_tail (tf : Int) (c : Candle F) (r : List (Candle F)) (h : Contiguous tf (c :: r)) :
    Contiguous tf r := by
  obtain ⟨t, _, hr⟩ := h
  cases r with
  | nil => trivial
  | cons c' r' => exact ⟨t + tf, hr.1, hr.2⟩

theorem contiguous_drop (tf : Int) (k : Nat) : ∀ (zs : List (Candle F)), Contiguous tf zs →
    Contiguous tf (zs.drop k) := by
  induction k with
  | zero => intro zs h; simpa using h
  | succ k ih =>
    intro zs h
    cases zs with
    | nil => simpa using h
    | cons c r => simpa using ih r (contiguous_tail tf c r h)

/-- one append with fill on dressed filled buckets, with the canonical closed count, and the same list minus
`d` leading closed candles (cf. `tasks_fill_dressed`) -/
theorem tasks_fill_closed (tf : Int) (htf : 0 < tf) (s new Z DZ : List (Candle F))
    (hraw : RawTf (s ++ new)) (hne : new ≠ []) (hZ : FilledOf tf s Z) (hd : Dressed Z DZ) :
    ∃ (T Z' : List (Candle F)), (∀ c ∈ T, Plain c) ∧ 1 ≤ T.length ∧
      tasks (cfgFill tf) (DZ ++ new) = .ok (DZ.take (closedOf tf Z new) ++ T) ∧
      FilledOf tf (s ++ new) Z' ∧ Z' = Z.take (closedOf tf Z new) ++ T ∧
      ∀ d, d + 1 ≤ closedOf tf Z new →
        tasks (cfgFill tf) (DZ.drop d ++ new) = .ok ((DZ.take (closedOf tf Z new) ++ T).drop d) := by
  have hn : RawTf new := hraw.append_right
  obtain ⟨Z', hZ'⟩ := filledOf tf htf (s ++ new) hraw
  obtain ⟨Q, hQ, hQne, hcol, hres, hdrop⟩ := collapse_dressed_closed tf htf Z new DZ hZ.bucketed.reverseR
    hZ.cleanOk hn hne (labelsMono_filled_append tf htf s new Z hraw hZ) hd
  have hkle : closedOf tf Z new ≤ Z.length := closedOf_le tf Z new
  have hlen : Z.length = DZ.length := hd.length_eq
  have hQl : 1 ≤ Q.length := by
    cases Q with
    | nil => exact absurd rfl hQne
    | cons _ _ => simp
  generalize hk : closedOf tf Z new = k at hcol hres hdrop hkle ⊢
  have hfill : fillMissing tf (Z.take k ++ Q) = .ok Z' := by
    rw [← hres, fill_resample_append tf htf s new Z hraw hZ]; exact hZ'.eq
  have hstampD : ∀ y ∈ DZ, y.ts ≠ none := by
    intro y hy
    obtain ⟨t, ht, _⟩ := (hd.reverse.bucketedR tf hZ.bucketed.reverseR).stamped y (List.mem_reverse.2 hy)
    simp [ht]
  have hfirst : ∀ c, (DZ ++ new).head? = some c → c.ts ≠ none := by
    intro c hc
    cases hdz : DZ with
    | nil => rw [hdz] at hc; exact hn.stamped c (List.mem_of_mem_head? (by simpa using hc))
    | cons y yr =>
      rw [hdz] at hc; simp at hc; subst hc
      exact hstampD y (by rw [hdz]; simp)
  have htasks : tasks (cfgFill tf) (DZ ++ new) = fillMissing tf (DZ.take k ++ Q) := by
    rw [tasks_cfgFill, collapse_fill_eq tf _ hfirst, hcol]; rfl
  rw [htasks]
  rcases List.eq_nil_or_concat (Z.take k) with hnil | ⟨A, a₀, hP⟩
  · have hk0 : k = 0 := by
      have h0 : (Z.take k).length = 0 := by rw [hnil]; rfl
      rw [List.length_take] at h0; omega
    subst hk0
    simp only [List.take_zero, List.nil_append] at hfill ⊢
    have hlen' := fillMissing_length_le tf Q Z' hfill
    exact ⟨Z', Z', hZ'.plain, by omega, hfill, hZ', rfl, fun d hd0 => absurd hd0 (by omega)⟩
  · simp only [List.concat_eq_append] at hP
    have hdP := hd.take k
    rw [hP] at hdP
    obtain ⟨DA, a, hDP, ha, hdA⟩ := hdP.snoc_inv
    have hcontP : Contiguous tf (A ++ [a₀]) := by rw [← hP]; exact contiguous_take tf Z k hZ.contig
    have hcontD : Contiguous tf (DA ++ [a]) := by
      apply contiguous_of_ts tf _ _ _ hcontP
      simp [hdA.ts_eq, bare_ts ha]
    rw [hP, List.append_assoc, List.singleton_append, fillMissing_split tf A a₀ Q,
        fillMissing_contiguous tf htf _ hcontP] at hfill
    cases hB : fillMissing tf (a₀ :: Q) with
    | error e => rw [hB] at hfill; cases hfill
    | ok B' =>
      rw [hB] at hfill
      simp only [bind, Except.bind, pure, Except.pure, List.dropLast_concat] at hfill
      obtain ⟨T, rfl⟩ := fillMissing_head tf a₀ Q B' hB
      have hZ'eq : Z' = A ++ a₀ :: T := (Except.ok.inj hfill).symm
      have hTplain : ∀ c ∈ T, Plain c := by
        intro c hc
        rcases mem_fillMissing tf _ _ hB c (List.mem_cons_of_mem _ hc) with h1 | ⟨p, u, rfl⟩
        · rcases List.mem_cons.1 h1 with rfl | h1
          · exact hZ.plain _ (List.mem_of_mem_take (by rw [hP]; simp))
          · exact hQ c h1
        · exact plain_fillCandle p u
      have hTl : 1 ≤ T.length := by
        have := fillMissing_length_le tf _ _ hB
        simp only [List.length_cons] at this; omega
      have hBD : fillMissing tf (a :: Q) = .ok (a :: T) :=
        fillMissing_head_congr tf a₀ a Q T (bare_ts ha) (bare_rawClose ha) hB
      have hDAl : DA.length + 1 = k := by
        have := congrArg List.length hDP
        rw [List.length_take, List.length_append] at this
        simp at this; omega
      refine ⟨T, Z', hTplain, hTl, ?_, hZ', by rw [hZ'eq, hP]; simp, ?_⟩
      · rw [hDP, List.append_assoc, List.singleton_append, fillMissing_split tf DA _ Q,
            fillMissing_contiguous tf htf _ hcontD, hBD]
        simp [bind, Except.bind, pure, Except.pure]
      · intro d hdk
        have hdlt : d < DZ.length := by omega
        have hfirst' : ∀ c, (DZ.drop d ++ new).head? = some c → c.ts ≠ none := by
          intro c hc
          cases hdz : DZ.drop d with
          | nil =>
            have := congrArg List.length hdz
            rw [List.length_drop] at this; simp at this; omega
          | cons y yr =>
            rw [hdz] at hc; simp at hc; subst hc
            exact hstampD y (List.mem_of_mem_drop (by rw [hdz]; simp))
        have hsplit : (DZ.take k ++ Q).drop d = DA.drop d ++ a :: Q := by
          rw [hDP, List.append_assoc, List.singleton_append, List.drop_append_of_le_length (by omega)]
        have hcontD' : Contiguous tf (DA.drop d ++ [a]) := by
          have := contiguous_drop tf d _ hcontD
          rwa [List.drop_append_of_le_length (by omega)] at this
        rw [tasks_cfgFill, collapse_fill_eq tf _ hfirst', hdrop d hdlt]
        simp only [bind, Except.bind]
        rw [hsplit, fillMissing_split tf (DA.drop d) a Q, fillMissing_contiguous tf htf _ hcontD', hBD]
        simp only [bind, Except.bind, pure, Except.pure, List.dropLast_concat]
        rw [hDP, List.append_assoc, List.singleton_append, List.drop_append_of_le_length (by omega)]

/-- **The collapsing-timeframe manager with gap filling** (`timeframe = tf`, `timeframe_fill = True`):
spec `fillSpec tf` (resample, then fill), closed count `closedOf tf (fillSpec tf s) new`. -/
def TwinMgr.fill (F : Type) [PyF F] (tf : Int) (htf : 0 < tf) : TwinMgr F where
  cfg := cfgFill tf
  nolife := rfl
  Ok := RawTf
  spec := fillSpec tf
  closed := fun s new => closedOf tf (fillSpec tf s) new
  ok_left := fun a b h => h.append_left
  spec_plain := fun s h => by
    obtain ⟨Z, hZ⟩ := filledOf tf htf s h
    rw [hZ.spec_eq]; exact hZ.plain
  init := fun s h => by
    obtain ⟨Z, hZ⟩ := filledOf tf htf s h
    rw [hZ.spec_eq]; exact tasks_fill_raw tf htf s Z h hZ
  append := fun s new done hok hne hd => by
    obtain ⟨Z, hZ⟩ := filledOf tf htf s (hok.append_left)
    rw [hZ.spec_eq] at hd ⊢
    obtain ⟨T, Z', hT, hTl, ht, hZ', hres, hdrop⟩ := tasks_fill_closed tf htf s new Z done hok hne hZ hd
    have hlen : Z.length = done.length := hd.length_eq
    have h1 := closedOf_le tf Z new
    have h2 := le_closedOf_succ tf Z new
    exact ⟨T, hT, by omega, by omega, ht, by rw [hZ'.spec_eq]; exact hres, hdrop⟩

#print axioms tasks_fill_closed
#print axioms TwinMgr.fill

end Hex

import HexProofs.Manager2.ShiftInst
import HexProofs.Framework.Timeframe
/-
The lifespan-trimmed indicator next to its untrimmed twin over a WHOLE append schedule (leaf kinds
without a state condition: HLA, TR, OBV, Counter).  The hypothesis is on the raw candle manager
only (`RetainsFrom 1`): at every append the trim either has popped nothing so far or leaves ONE
candle from before the append (the predecessor of the first new candle).
-/
namespace Hex
set_option linter.unusedSectionVars false
variable {F : Type} [PyF F]

/-! ### `trim_candles` only looks at the timestamps -/

theorem tooOld_congr (b : Int) (c c' : Candle F) (h : c'.ts = c.ts) : tooOld b c' = tooOld b c := by
  unfold tooOld; rw [h]

theorem takeWhile_tooOld_length (b : Int) (cs : List (Candle F)) :
    ∀ (cs' : List (Candle F)), cs'.map (·.ts) = cs.map (·.ts) →
      (cs'.takeWhile (tooOld b)).length = (cs.takeWhile (tooOld b)).length := by
  induction cs with
  | nil => intro cs' h; cases cs' with | nil => rfl | cons _ _ => simp at h
  | cons c r ih =>
    intro cs' h
    cases cs' with
    | nil => simp at h
    | cons c' r' =>
      simp only [List.map_cons, List.cons.injEq] at h
      have hc := tooOld_congr b c c' h.1
      by_cases hq : tooOld b c = true
      · rw [List.takeWhile_cons_of_pos hq, List.takeWhile_cons_of_pos (by rw [hc]; exact hq)]
        simp [ih r' h.2]
      · rw [List.takeWhile_cons_of_neg hq, List.takeWhile_cons_of_neg (by rw [hc]; exact hq)]

/-- two lists with the same stamps are trimmed alike -/
theorem trim_congr_ts (life : Int) (cs cs' r : List (Candle F)) (hts : cs'.map (·.ts) = cs.map (·.ts))
    (h : trimCandles (some life) cs = .ok r) :
    r = cs.drop (cs.length - r.length) ∧ r.length ≤ cs.length ∧
    trimCandles (some life) cs' = .ok (cs'.drop (cs.length - r.length)) := by
  have hlen : cs'.length = cs.length := by simpa using congrArg List.length hts
  have hlast : cs'.getLast?.map (·.ts) = cs.getLast?.map (·.ts) := by
    rw [← List.getLast?_map, ← List.getLast?_map, hts]
  unfold trimCandles at h ⊢
  cases hl : cs.getLast? with
  | none =>
    rw [hl] at h hlast
    have hl' : cs'.getLast? = none := by simpa using hlast
    rw [hl']
    simp only at h ⊢
    cases h
    simp
  | some lastC =>
    rw [hl] at h hlast
    obtain ⟨lastC', hl', hlt⟩ : ∃ l', cs'.getLast? = some l' ∧ l'.ts = lastC.ts := by
      cases hq : cs'.getLast? with
      | none => rw [hq] at hlast; simp at hlast
      | some l' => rw [hq] at hlast; exact ⟨l', rfl, by simpa using hlast⟩
    rw [hl']
    simp only at h ⊢
    rw [hlt]
    cases hts' : lastC.ts with
    | none =>
      rw [hts'] at h
      simp only at h ⊢
      cases h
      simp
    | some latest =>
      rw [hts'] at h
      simp only at h ⊢
      split at h
      · cases h
      · rename_i hne
        cases h
        have hdw := dropWhile_eq_drop' (tooOld (latest - life)) cs
        have hdw' := dropWhile_eq_drop' (tooOld (latest - life)) cs'
        have htw := takeWhile_tooOld_length (latest - life) cs cs' hts
        have htl : (cs.takeWhile (tooOld (latest - life))).length ≤ cs.length :=
          (List.takeWhile_sublist _).length_le
        have hrl : (cs.dropWhile (tooOld (latest - life))).length
            = cs.length - (cs.takeWhile (tooOld (latest - life))).length := by rw [hdw]; simp
        have hcnt : cs.length - (cs.dropWhile (tooOld (latest - life))).length
            = (cs.takeWhile (tooOld (latest - life))).length := by omega
        refine ⟨by rw [hcnt]; exact hdw, by omega, ?_⟩
        rw [hcnt, hdw', htw]
        have hne' : ¬ (cs'.drop (cs.takeWhile (tooOld (latest - life))).length).isEmpty = true := by
          intro he
          apply hne
          have h1 : (cs'.drop (cs.takeWhile (tooOld (latest - life))).length).length = 0 := by
            rw [List.isEmpty_iff.1 he]; rfl
          rw [List.length_drop, hlen] at h1
          rw [List.isEmpty_iff, ← List.length_eq_zero_iff, hrl]
          exact h1
        simp [hne']

/-! ### the hypothesis on the raw manager -/

/-- the lifespan manager holding the raw candles `m` (out of `total` received so far) can take the
remaining chunks such that at every non-empty append the trim succeeds and either nothing has been
popped so far, or at least `L` candles from before the append are retained -/
def RetainsFrom (L : Nat) (life : Int) : List (Candle F) → Nat → List (List (Candle F)) → Prop
  | _, _, [] => True
  | m, total, ch :: rest =>
    (ch = [] ∧ RetainsFrom L life m total rest) ∨
    (ch ≠ [] ∧ ∃ m', trimCandles (some life) (m ++ ch) = .ok m' ∧
      (m'.length = total + ch.length ∨ ch.length + L ≤ m'.length) ∧
      RetainsFrom L life m' (total + ch.length) rest)

/-! ### one append, as a statement about the whole object -/

theorem append_trimmed_state (ind : Ind F) (hl : IsLeaf ind) (S : ShiftOK ind) (life : Int)
    (a new r : List (Candle F)) (d₀ : Nat) (actB : Int) (hd₀ : d₀ ≤ a.length)
    (hfin : ∀ c ∈ a, hasKey ind.name c = true) (hnew : ∀ c ∈ new, Plain c) (hne : new ≠ [])
    (htrim : trimCandles (some life) (a.drop d₀ ++ new) = .ok r)
    (hkeep : KeepOK a (a.length + new.length - r.length)) (hP : S.P (a ++ new) a.length) :
    ∃ act' : Int,
      IndState.append ({ tree := ind, mgr := { cfg := cfgLifeOnly life, candles := a.drop d₀ }, active := actB } : IndState F) new
        = (leafCalc ind (a ++ new)).map (fun cs =>
            ({ tree := ind, mgr := { cfg := cfgLifeOnly life, candles := cs.drop (a.length + new.length - r.length) },
               active := act' } : IndState F)) := by
  obtain ⟨m, hr, hm⟩ := trim_is_drop _ _ _ htrim
  have hab : a.drop d₀ ++ new = (a ++ new).drop d₀ := (List.drop_append_of_le_length hd₀).symm
  have hr' : r = (a ++ new).drop (d₀ + m) := by rw [hr, hab, List.drop_drop]
  have hrl : r.length = a.length + new.length - (d₀ + m) := by rw [hr']; simp
  have hml : m ≤ (a.drop d₀ ++ new).length := hm
  rw [List.length_append, List.length_drop] at hml
  have hd : a.length + new.length - r.length = d₀ + m := by omega
  rw [hd] at hkeep
  have hempty : new.isEmpty = false := by cases new <;> simp at hne ⊢
  have hB : IndState.append ({ tree := ind, mgr := { cfg := cfgLifeOnly life, candles := a.drop d₀ }, active := actB } : IndState F) new
      = IndState.calculate { tree := ind, mgr := { cfg := cfgLifeOnly life, candles := r }, active := actB } := by
    unfold IndState.append Manager.append
    simp only [hempty, Bool.false_eq_true, if_false, tasks_lifeOnly, htrim, bind, Except.bind]
    rfl
  refine ⟨if findCalcIndex ind.name r < r.length then (r.length : Int) - 1 else actB, ?_⟩
  rw [hB, IndState.calculate_leaf _ hl, hd]
  simp only
  rw [hr', leafCalc_drop_keep ind S a new (d₀ + m) hfin hnew hkeep hP]
  cases leafCalc ind (a ++ new) <;> rfl

/-- `calculate()` on a list whose candles all hold the key does nothing -/
theorem leafCalc_finished (ind : Ind F) (b : List (Candle F))
    (hfin : ∀ c ∈ b, hasKey ind.name c = true) : leafCalc ind b = .ok b := by
  have hidx := findCalcIndex_split ind.name b [] hfin (by simp)
  simp only [List.append_nil] at hidx
  unfold leafCalc
  rw [hidx, Nat.sub_self]
  rfl

/-! ### the schedule -/

/-- **The trimmed indicator follows its untrimmed twin through every append.**  `a` is the
row-major run over the stream `s` so far, the trimmed indicator holds `a.drop d`, the raw lifespan
manager would hold `s.drop d`. -/
theorem twin_appends (ind : Ind F) (hl : IsLeaf ind) (K : Contract ind) (S : ShiftOK ind)
    (Q : List (Candle F) → Prop) (hQP : ∀ a ch, Q a → ch ≠ [] → S.P (a ++ ch) a.length)
    (hQstep : ∀ a ch a', Q a → (∀ c ∈ ch, Plain c) → rowMajorFrom ind a ch = .ok a' → Q a')
    (life : Int) (chunks : List (List (Candle F))) :
    ∀ (s a : List (Candle F)) (d : Nat) (actB : Int), rowMajor ind s = .ok a → (∀ c ∈ s, Plain c) →
      (∀ c ∈ chunks.flatten, Plain c) → d ≤ a.length → Q a →
      RetainsFrom 1 life (s.drop d) s.length chunks →
      ∃ d', candlesOf (chunks.foldlM (fun (st : IndState F) ch => st.append ch)
              { tree := ind, mgr := { cfg := cfgLifeOnly life, candles := a.drop d }, active := actB })
            = (rowMajorFrom ind a chunks.flatten).map (·.drop d') := by
  induction chunks with
  | nil =>
    intro s a d actB _ _ _ _ _ _
    exact ⟨d, rfl⟩
  | cons ch rest ih =>
    intro s a d actB h hps hpc hd hQ hret
    have hpch : ∀ c ∈ ch, Plain c := fun c hc => hpc c (by simp [hc])
    have hprest : ∀ c ∈ rest.flatten, Plain c := fun c hc => hpc c (by
      simp only [List.flatten_cons, List.mem_append]; exact Or.inr hc)
    have hdec := rowMajor_shape ind s a h
    have hlen : s.length = a.length := hdec.length_eq
    simp only [List.foldlM_cons, List.flatten_cons]
    rcases hret with ⟨hce, hret⟩ | ⟨hne, m', htrim, hcount, hret⟩
    · -- empty chunk: `append` only calls `calculate()`, which leaves a finished list alone
      subst hce
      have hcalc : leafCalc ind (a.drop d) = .ok (a.drop d) :=
        leafCalc_finished ind (a.drop d) (fun c hc => hdec.hasKey c (List.mem_of_mem_drop hc))
      have hA : IndState.append ({ tree := ind, mgr := { cfg := cfgLifeOnly life, candles := a.drop d }, active := actB } : IndState F) []
          = .ok { tree := ind, mgr := { cfg := cfgLifeOnly life, candles := a.drop d },
                  active := if findCalcIndex ind.name (a.drop d) < (a.drop d).length
                    then ((a.drop d).length : Int) - 1 else actB } := by
        have : IndState.append ({ tree := ind, mgr := { cfg := cfgLifeOnly life, candles := a.drop d }, active := actB } : IndState F) []
            = IndState.calculate { tree := ind, mgr := { cfg := cfgLifeOnly life, candles := a.drop d }, active := actB } := by
          simp [IndState.append, Manager.append, bind, Except.bind]
        rw [this, IndState.calculate_leaf _ hl]
        simp only [hcalc, bind, Except.bind, pure, Except.pure]
      rw [hA]
      simp only [bind, Except.bind, List.nil_append]
      exact ih s a d _ h hps hprest hd hQ hret
    · -- a real append
      have hts : (a.drop d ++ ch).map (·.ts) = (s.drop d ++ ch).map (·.ts) := by
        simp only [List.map_append, List.map_drop, hdec.ts_eq]
      obtain ⟨hm', hm'len, htrimB⟩ := trim_congr_ts life (s.drop d ++ ch) (a.drop d ++ ch) m' hts htrim
      have hl1 : (s.drop d ++ ch).length = a.length - d + ch.length := by simp [hlen]
      have hl2 : (a.drop d ++ ch).length = a.length - d + ch.length := by simp
      have hrlen : ((a.drop d ++ ch).drop ((s.drop d ++ ch).length - m'.length)).length = m'.length := by
        rw [List.length_drop, hl1, hl2]; omega
      have hD : a.length + ch.length - ((a.drop d ++ ch).drop ((s.drop d ++ ch).length - m'.length)).length
          = d + ((s.drop d ++ ch).length - m'.length) := by rw [hrlen, hl1]; omega
      have hkeep : KeepOK a
          (a.length + ch.length - ((a.drop d ++ ch).drop ((s.drop d ++ ch).length - m'.length)).length) := by
        rw [hrlen]
        rcases hcount with hc | hc
        · exact Or.inl (by omega)
        · exact Or.inr (by omega)
      obtain ⟨act', happ⟩ := append_trimmed_state ind hl S life a ch _ d actB hd hdec.hasKey hpch hne htrimB
        hkeep (hQP a ch hQ hne)
      rw [happ, leafCalc_refines ind K s ch a h hps hpch, rowMajorFrom_append]
      have hsplit : rowMajor ind (s ++ ch) = rowMajorFrom ind a ch := by rw [rowMajor_append, h]; rfl
      rw [hsplit]
      cases hr : rowMajorFrom ind a ch with
      | error e => exact ⟨0, rfl⟩
      | ok a' =>
        simp only [Except.map, bind, Except.bind]
        have hra' : rowMajor ind (s ++ ch) = .ok a' := by rw [hsplit, hr]
        have hlen' : a'.length = a.length + ch.length := by
          rw [← (rowMajor_shape ind _ a' hra').length_eq]; simp [hlen]
        rw [hD]
        have hm'eq : m' = (s ++ ch).drop (d + ((s.drop d ++ ch).length - m'.length)) := by
          conv_lhs => rw [hm']
          rw [← List.drop_drop, List.drop_append_of_le_length (by omega : d ≤ s.length)]
        have := ih (s ++ ch) a' (d + ((s.drop d ++ ch).length - m'.length)) act' hra'
          (fun c hc => by rcases List.mem_append.1 hc with h1 | h1; exact hps c h1; exact hpch c h1)
          hprest
          (by rw [hlen', hl1]; omega)
          (hQstep a ch a' hQ hpch hr)
          (by rw [← hm'eq, List.length_append]; exact hret)
        exact this

/-- **Whole schedule** (construction, `calculate()`, appends): if the lifespan manager pops
nothing at construction and `RetainsFrom 1` holds for the appends, the trimmed indicator ends with
the candles of the untrimmed one minus the popped ones (same readings, same exception). -/
theorem twin_schedule (ind : Ind F) (hl : IsLeaf ind) (K : Contract ind) (S : ShiftOK ind)
    (Q : List (Candle F) → Prop) (hQP : ∀ a ch, Q a → ch ≠ [] → S.P (a ++ ch) a.length)
    (hQstep : ∀ a ch a', Q a → (∀ c ∈ ch, Plain c) → rowMajorFrom ind a ch = .ok a' → Q a')
    (life : Int) (init : List (Candle F)) (chunks : List (List (Candle F)))
    (hp : ∀ c ∈ init ++ chunks.flatten, Plain c)
    (hinit : trimCandles (some life) init = .ok init)
    (hQ0 : ∀ a, rowMajor ind init = .ok a → Q a)
    (hret : RetainsFrom 1 life init init.length chunks) :
    ∃ d, candlesOf (runIndicator ind (cfgLifeOnly life) init chunks)
        = (candlesOf (runIndicator ind {} init chunks)).map (·.drop d) := by
  have hpi : ∀ c ∈ init, Plain c := fun c hc => hp c (by simp [hc])
  have hpc : ∀ c ∈ chunks.flatten, Plain c := fun c hc => hp c (List.mem_append.2 (Or.inr hc))
  rw [runIndicator_refines ind hl K init chunks hp, rowMajor_append]
  unfold runIndicator IndState.init Manager.init
  rw [tasks_lifeOnly, hinit]
  simp only [bind, Except.bind, pure, Except.pure]
  rw [IndState.calculate_leaf _ hl]
  have h0 : rowMajor ind ([] : List (Candle F)) = .ok [] := rfl
  have href := leafCalc_refines ind K [] init [] h0 (by simp) hpi
  simp only [List.nil_append] at href
  simp only [href]
  cases hr : rowMajor ind init with
  | error e => exact ⟨0, rfl⟩
  | ok a =>
    simp only [bind, Except.bind, pure, Except.pure]
    have := twin_appends ind hl K S Q hQP hQstep life chunks init a 0
      (if findCalcIndex ind.name init < init.length then (init.length : Int) - 1 else 0) hr hpi hpc (Nat.zero_le _)
      (hQ0 a hr) (by simpa using hret)
    simpa using this

/-! ### instances -/

/-- kinds without a state condition -/
theorem twin_schedule_free (ind : Ind F) (hl : IsLeaf ind) (K : Contract ind) (hk : OnePredFree ind.kind)
    (life : Int) (init : List (Candle F)) (chunks : List (List (Candle F)))
    (hp : ∀ c ∈ init ++ chunks.flatten, Plain c)
    (hinit : trimCandles (some life) init = .ok init)
    (hret : RetainsFrom 1 life init init.length chunks) :
    ∃ d, candlesOf (runIndicator ind (cfgLifeOnly life) init chunks)
        = (candlesOf (runIndicator ind {} init chunks)).map (·.drop d) :=
  twin_schedule ind hl K (shiftOK_free ind hk) (fun _ => True) (fun _ _ _ _ => trivial)
    (fun _ _ _ _ _ _ => trivial) life init chunks hp hinit (fun _ _ => trivial) hret

/-- "seeded": the last finished candle holds a non-`None` own reading -/
def SeededEnd (name : String) (a : List (Candle F)) : Prop := (Ctx.lastReading name a).isNone = false

theorem seededEnd_P (name : String) (a ch : List (Candle F)) (h : SeededEnd name a) (hne : ch ≠ []) :
    ({ cs := a ++ ch, i := (a.length : Int), name := name } : Ctx F).prevExists name = .ok true :=
  seeded_at_end a ch name hne h

/-- once seeded, every later row-major step of a kind whose seeded readings are never `None`
keeps the run seeded -/
theorem seededEnd_step (ind : Ind F) (hname : IsKey ind.name)
    (hnn : ∀ (x : Ctx F) (v : Val F), x.name = ind.name → x.prevExists x.name = .ok true →
      readKind ind.kind x = .ok v → v.isNone = false)
    (ch : List (Candle F)) :
    ∀ (a a' : List (Candle F)), SeededEnd ind.name a → (∀ c ∈ ch, Plain c) →
      rowMajorFrom ind a ch = .ok a' → SeededEnd ind.name a' := by
  induction ch with
  | nil => intro a a' hq _ h; rw [rowMajorFrom_nil] at h; cases h; exact hq
  | cons c rest ih =>
    intro a a' hq hp h
    rw [rowMajorFrom_cons] at h
    cases hs : rowStep ind a c with
    | error e => rw [hs] at h; cases h
    | ok d1 =>
      rw [hs] at h
      obtain ⟨v, hv, hd1⟩ := rowStep_ok ind a c d1 hs
      have hcp : Plain c := hp c (by simp)
      have hpe : ({ cs := a ++ [c], i := (a.length : Int), name := ind.name } : Ctx F).prevExists ind.name
          = .ok true := seeded_at_end a [c] ind.name (by simp) hq
      have hvn := hnn _ v rfl hpe hv
      have hq1 : SeededEnd ind.name d1 := by
        unfold SeededEnd Ctx.lastReading
        rw [hd1, List.getLast?_append]
        simp [readingByCandle_setKey ind.isSub ind.name hname _ c hcp, Val.roundBy_isNone, hvn]
      exact ih d1 a' hq1 (fun x hx => hp x (by simp [hx])) h

/-- **EMA over a whole schedule**, seeded at construction -/
theorem twin_schedule_ema (ind : Ind F) (hl : IsLeaf ind) (K : Contract ind) (p : Int) (input : String)
    (sm : Num F) (hk : ind.kind = .ema p input sm) (hname : IsKey ind.name)
    (life : Int) (init : List (Candle F)) (chunks : List (List (Candle F)))
    (hp : ∀ c ∈ init ++ chunks.flatten, Plain c)
    (hinit : trimCandles (some life) init = .ok init)
    (hseed : ∀ a, rowMajor ind init = .ok a → SeededEnd ind.name a)
    (hret : RetainsFrom 1 life init init.length chunks) :
    ∃ d, candlesOf (runIndicator ind (cfgLifeOnly life) init chunks)
        = (candlesOf (runIndicator ind {} init chunks)).map (·.drop d) :=
  twin_schedule ind hl K (emaShiftOK ind p input sm hk hname) (SeededEnd ind.name)
    (fun a ch hq hne => seededEnd_P ind.name a ch hq hne)
    (fun a ch a' hq hpc hr => seededEnd_step ind hname
      (by intro x v hx hpe hv; rw [hk] at hv; exact ema_seeded_nonNone x p input sm v hpe hv) ch a a' hq hpc hr)
    life init chunks hp hinit hseed hret

/-- **RMA over a whole schedule**, seeded at construction -/
theorem twin_schedule_rma (ind : Ind F) (hl : IsLeaf ind) (K : Contract ind) (p : Int) (input : String)
    (hk : ind.kind = .rma p input) (hname : IsKey ind.name)
    (life : Int) (init : List (Candle F)) (chunks : List (List (Candle F)))
    (hp : ∀ c ∈ init ++ chunks.flatten, Plain c)
    (hinit : trimCandles (some life) init = .ok init)
    (hseed : ∀ a, rowMajor ind init = .ok a → SeededEnd ind.name a)
    (hret : RetainsFrom 1 life init init.length chunks) :
    ∃ d, candlesOf (runIndicator ind (cfgLifeOnly life) init chunks)
        = (candlesOf (runIndicator ind {} init chunks)).map (·.drop d) :=
  twin_schedule ind hl K (rmaShiftOK ind p input hk hname) (SeededEnd ind.name)
    (fun a ch hq hne => seededEnd_P ind.name a ch hq hne)
    (fun a ch a' hq hpc hr => seededEnd_step ind hname
      (by intro x v hx hpe hv; rw [hk] at hv; exact rma_seeded_nonNone x p input v hpe hv) ch a a' hq hpc hr)
    life init chunks hp hinit hseed hret

end Hex

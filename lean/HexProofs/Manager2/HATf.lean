import HexProofs.Manager.HA
import HexProofs.Manager.Schedule
import HexProofs.Framework.Timeframe
/-
Heikin-Ashi on a collapsing timeframe (no fill, no lifespan).  After every append the manager
holds `haSpec (resample tf stream)`.  On the next append the list `converted buckets ++ raw candles`
is re-collapsed: the resampling fold only touches its newest bucket; `Candle.merge` first restores
the raw values of that bucket (so the converted and the raw bucket merge alike) and clears the tag;
`convert_candles` then resumes exactly after the still-tagged buckets, with the last of them as
the predecessor.
-/
namespace Hex
set_option linter.unusedSectionVars false
variable {F : Type} [PyF F]

/-! ### converted lists -/

/-- `Z` is `B` converted candle by candle (each with some predecessor) -/
def HaRel (B Z : List (Candle F)) : Prop := List.Forall₂ (fun b z => ∃ p, z = haCandle b p) B Z

theorem haFold_rel (fresh : List (Candle F)) :
    ∀ done, ∃ ext, haFold done fresh = done ++ ext ∧ HaRel fresh ext := by
  induction fresh with
  | nil => intro done; exact ⟨[], by simp [haFold], List.Forall₂.nil⟩
  | cons c rest ih =>
    intro done
    obtain ⟨ext, h1, h2⟩ := ih (done ++ [haCandle c done.getLast?])
    exact ⟨haCandle c done.getLast? :: ext, by simp [haFold, h1], List.Forall₂.cons ⟨_, rfl⟩ h2⟩

theorem haSpec_rel (B : List (Candle F)) : HaRel B (haSpec B) := by
  obtain ⟨ext, h1, h2⟩ := haFold_rel B ([] : List (Candle F))
  unfold haSpec; rw [h1]; simpa using h2

theorem HaRel.ts_eq {B Z : List (Candle F)} (h : HaRel B Z) : Z.map (·.ts) = B.map (·.ts) := by
  induction h with
  | nil => rfl
  | cons hcd _ ih => obtain ⟨p, rfl⟩ := hcd; simp [ih, haCandle]

theorem HaRel.length_eq {B Z : List (Candle F)} (h : HaRel B Z) : Z.length = B.length := by
  have := congrArg List.length h.ts_eq; simpa using this

theorem haSpec_length (B : List (Candle F)) : (haSpec B).length = B.length := (haSpec_rel B).length_eq

theorem haSpec_eq_nil (B : List (Candle F)) (h : haSpec B = []) : B = [] := by
  have := haSpec_length B; rw [h] at this
  exact List.eq_nil_of_length_eq_zero this.symm

theorem haSpec_nil : haSpec ([] : List (Candle F)) = [] := rfl

theorem haSpec_append (A Q : List (Candle F)) : haSpec (A ++ Q) = haFold (haSpec A) Q := by
  unfold haSpec; rw [haFold_append]

theorem haSpec_snoc (A : List (Candle F)) (b : Candle F) :
    haSpec (A ++ [b]) = haSpec A ++ [haCandle b (haSpec A).getLast?] := by
  rw [haSpec_append]; rfl

theorem HaRel.tagged {B Z : List (Candle F)} (h : HaRel B Z) : ∀ z ∈ Z, z.tag = true := by
  induction h with
  | nil => intro z hz; cases hz
  | cons hcd _ ih =>
    intro z hz
    rcases List.mem_cons.1 hz with rfl | hz
    · obtain ⟨p, rfl⟩ := hcd; rfl
    · exact ih z hz

/-- a converted bucket carries its own aligned stamp as the saved stamp -/
theorem HaRel.cleanOk {B Z : List (Candle F)} (h : HaRel B Z) (tf : Int)
    (hb : ∀ b ∈ B, ∃ t, b.ts = some t ∧ t % tf = 0) : ∀ z ∈ Z, CleanOk tf z := by
  induction h with
  | nil => intro z hz; cases hz
  | cons hcd _ ih =>
    intro z hz
    rcases List.mem_cons.1 hz with rfl | hz
    · obtain ⟨p, rfl⟩ := hcd
      obtain ⟨t, ht, hal⟩ := hb _ (List.mem_cons_self)
      intro k hk t' hk'
      simp only [haCandle, Option.some.injEq] at hk
      subst hk
      simp only at hk'
      rw [ht] at hk'
      have := Option.some.inj hk'; subst this
      exact ⟨by simp [haCandle, ht], hal⟩
    · exact ih (fun b hb' => hb b (List.mem_cons_of_mem _ hb')) z hz

/-- what a converted list looks like next to its raw list: tagged, same stamp, no readings, and
the raw OHLCV + stamp saved as `clean_values` -/
theorem HaRel.clean_values {B Z : List (Candle F)} (h : HaRel B Z) :
    List.Forall₂ (fun b z => z.tag = true ∧ z.ts = b.ts ∧ z.inds = [] ∧ z.subs = [] ∧
        z.clean = some { o := b.o, h := b.h, l := b.l, c := b.c, v := b.v, ts := b.ts }) B Z := by
  induction h with
  | nil => exact List.Forall₂.nil
  | cons hcd _ ih => obtain ⟨p, rfl⟩ := hcd; exact List.Forall₂.cons (by simp [haCandle]) ih

theorem labels_of_ts_eq (tf : Int) (A B : List (Candle F)) (h : A.map (·.ts) = B.map (·.ts)) :
    labels tf A = labels tf B := by
  have e : ∀ (L : List (Candle F)), labels tf L = (L.map (·.ts)).filterMap (fun o => o.map (label tf)) := by
    intro L; unfold labels; rw [List.filterMap_map]; rfl
  rw [e, e, h]

theorem filterMap_ts_of_ts_eq (A B : List (Candle F)) (h : A.map (·.ts) = B.map (·.ts)) :
    A.filterMap (·.ts) = B.filterMap (·.ts) := by
  have e : ∀ (L : List (Candle F)), L.filterMap (·.ts) = (L.map (·.ts)).filterMap id := by
    intro L; rw [List.filterMap_map]; rfl
  rw [e, e, h]

theorem bucketedR_of_ts_eq (tf : Int) (A B : List (Candle F)) (h : A.map (·.ts) = B.map (·.ts))
    (hb : BucketedR tf B) : BucketedR tf A := by
  refine ⟨?_, by rw [filterMap_ts_of_ts_eq A B h]; exact hb.decr⟩
  intro a ha
  have : a.ts ∈ B.map (·.ts) := by rw [← h]; exact List.mem_map.2 ⟨a, ha, rfl⟩
  obtain ⟨b, hb', hab⟩ := List.mem_map.1 this
  obtain ⟨t, ht, hal⟩ := hb.stamped b hb'
  exact ⟨t, by rw [← hab, ht], hal⟩

/-! ### raw candles stay raw through the resampling fold -/

/-- not converted: no tag, no saved values -/
def Untouched (c : Candle F) : Prop := c.tag = false ∧ c.clean = none

theorem untouched_merge (a b : Candle F) : Untouched (a.merge b) := by
  simp [Untouched, Candle.merge, Candle.reset]

theorem resampleStep_untouched (tf : Int) (acc : List (Candle F)) (c : Candle F)
    (ha : ∀ x ∈ acc, Untouched x) (hc : Untouched c) : ∀ x ∈ resampleStep tf acc c, Untouched x := by
  unfold resampleStep
  cases c.ts with
  | none => exact ha
  | some t =>
    cases acc with
    | nil => intro x hx; simp at hx; subst hx; exact hc
    | cons l r =>
      simp only
      split
      · intro x hx
        rcases List.mem_cons.1 hx with rfl | hx
        · exact untouched_merge l c
        · exact ha x (List.mem_cons_of_mem _ hx)
      · intro x hx
        rcases List.mem_cons.1 hx with rfl | hx
        · exact hc
        · exact ha x hx

theorem foldl_step_untouched (tf : Int) (new : List (Candle F)) :
    ∀ (acc : List (Candle F)), (∀ x ∈ acc, Untouched x) → (∀ c ∈ new, Untouched c) →
      ∀ x ∈ new.foldl (resampleStep tf) acc, Untouched x := by
  induction new with
  | nil => intro acc ha _; exact ha
  | cons c rest ih =>
    intro acc ha hn
    simp only [List.foldl_cons]
    exact ih _ (resampleStep_untouched tf acc c ha (hn c (by simp))) (fun x hx => hn x (by simp [hx]))

theorem resampleR_untouched (tf : Int) (xs : List (Candle F)) (h : ∀ c ∈ xs, Untouched c) :
    ∀ c ∈ resampleR tf xs, Untouched c :=
  foldl_step_untouched tf xs [] (by simp) h

theorem resample_untouched (tf : Int) (xs : List (Candle F)) (h : ∀ c ∈ xs, Untouched c) :
    ∀ c ∈ resample tf xs, Untouched c :=
  fun c hc => resampleR_untouched tf xs h c (List.mem_reverse.1 hc)

/-! ### merging into a converted bucket -/

/-- `Candle.merge` restores the raw values first: the converted and the raw bucket merge alike -/
theorem merge_haCandle (b x : Candle F) (p : Option (Candle F)) (hb : b.clean = none) :
    (haCandle b p).merge x = b.merge x := by
  cases b with
  | mk o h l c v ts inds subs tag clean =>
    simp only at hb; subst hb
    cases ts <;> simp [haCandle, Candle.merge, Candle.reset, Candle.recoverClean]

/-! ### two folds that differ only in their newest bucket -/

/-- the accumulators over `[dl]` and `[bl]`: either nothing merged into the newest old bucket yet
(same new buckets `X` on top), or something did and both accumulators coincide -/
def PairRel (dl bl : Candle F) (acc acc' : List (Candle F)) : Prop :=
  (∃ X, acc = X ++ [dl] ∧ acc' = X ++ [bl]) ∨ (acc ≠ [] ∧ acc = acc')

theorem pairRel_step (tf : Int) (dl bl : Candle F) (hts : dl.ts = bl.ts)
    (hm : ∀ x, dl.merge x = bl.merge x) (acc acc' : List (Candle F)) (c : Candle F)
    (h : PairRel dl bl acc acc') :
    PairRel dl bl (resampleStep tf acc c) (resampleStep tf acc' c) := by
  rcases h with ⟨X, rfl, rfl⟩ | ⟨hne, rfl⟩
  · cases X with
    | nil =>
      simp only [List.nil_append]
      unfold resampleStep
      cases hct : c.ts with
      | none => exact Or.inl ⟨[], rfl, rfl⟩
      | some t =>
        simp only
        by_cases hl : dl.ts = some (label tf t)
        · have hl' : bl.ts = some (label tf t) := hts ▸ hl
          simp only [hl, hl', if_true]
          exact Or.inr ⟨by simp, by rw [hm]⟩
        · have hl' : ¬ bl.ts = some (label tf t) := hts ▸ hl
          simp only [hl, hl', if_false]
          exact Or.inl ⟨[{ c with ts := some (label tf t) }], rfl, rfl⟩
    | cons h X' =>
      have hne : (h :: X') ≠ [] := by simp
      rw [resampleStep_tail tf (h :: X') [dl] c hne, resampleStep_tail tf (h :: X') [bl] c hne]
      exact Or.inl ⟨_, rfl, rfl⟩
  · exact Or.inr ⟨resampleStep_ne_nil tf acc c hne, rfl⟩

theorem pairRel_foldl (tf : Int) (dl bl : Candle F) (hts : dl.ts = bl.ts)
    (hm : ∀ x, dl.merge x = bl.merge x) (new : List (Candle F)) :
    ∀ (acc acc' : List (Candle F)), PairRel dl bl acc acc' →
      PairRel dl bl (new.foldl (resampleStep tf) acc) (new.foldl (resampleStep tf) acc') := by
  induction new with
  | nil => intro acc acc' h; exact h
  | cons c rest ih =>
    intro acc acc' h
    simp only [List.foldl_cons]
    exact ih _ _ (pairRel_step tf dl bl hts hm acc acc' c h)

/-- folding new candles on top of two reversed bucket lists whose newest buckets merge alike:
either all old buckets survive under the same new ones, or the newest old bucket was re-opened
and everything from it on is the same in both -/
theorem foldl_pair (tf : Int) (dl bl : Candle F) (hts : dl.ts = bl.ts)
    (hm : ∀ x, dl.merge x = bl.merge x) (new dr br : List (Candle F)) :
    (∃ X, new.foldl (resampleStep tf) (dl :: dr) = X ++ dl :: dr ∧
          new.foldl (resampleStep tf) (bl :: br) = X ++ bl :: br) ∨
    (∃ Y, Y ≠ [] ∧ new.foldl (resampleStep tf) (dl :: dr) = Y ++ dr ∧
          new.foldl (resampleStep tf) (bl :: br) = Y ++ br) := by
  have e1 := foldl_step_tail tf new [dl] dr (by simp)
  have e2 := foldl_step_tail tf new [bl] br (by simp)
  simp only [List.singleton_append] at e1 e2
  rw [e1, e2]
  rcases pairRel_foldl tf dl bl hts hm new [dl] [bl] (Or.inl ⟨[], rfl, rfl⟩) with ⟨X, h1, h2⟩ | ⟨hne, heq⟩
  · exact Or.inl ⟨X, by rw [h1]; simp, by rw [h2]; simp⟩
  · exact Or.inr ⟨_, hne, rfl, by rw [heq]⟩

/-! ### one pass of the manager's tasks -/

/-- timeframe + Heikin-Ashi -/
def cfgTfHA (tf : Int) : MgrCfg := { tf := some tf, ha := true }

theorem tasks_cfgTfHA (tf : Int) (cs : List (Candle F)) :
    tasks (cfgTfHA tf) cs = (do
      let cs ← collapseCandles (some tf) false cs
      if cs.isEmpty then .ok cs else convertCandles cs) := by
  unfold tasks cfgTfHA trimCandles
  cases collapseCandles (some tf) false cs with
  | error e => rfl
  | ok out =>
    simp only [bind, Except.bind]
    cases out with
    | nil => rfl
    | cons c r =>
      simp only [List.isEmpty_cons, Bool.not_false, Bool.and_self, if_true, Bool.false_eq_true, if_false]
      cases convertCandles (c :: r) <;> rfl

/-- the stream hypotheses of C11 with a timeframe -/
structure RawHA (xs : List (Candle F)) : Prop where
  stamped : ∀ c ∈ xs, c.ts ≠ none
  untouched : ∀ c ∈ xs, Untouched c
  sorted : (xs.filterMap (·.ts)).Pairwise (· ≤ ·)

theorem RawHA.cleanOk {xs : List (Candle F)} (h : RawHA xs) (tf : Int) : ∀ c ∈ xs, CleanOk tf c := by
  intro c hc k hk; rw [(h.untouched c hc).2] at hk; cases hk

theorem RawHA.append_left {a b : List (Candle F)} (h : RawHA (a ++ b)) : RawHA a :=
  ⟨fun c hc => h.stamped c (by simp [hc]), fun c hc => h.untouched c (by simp [hc]),
   by have := h.sorted; rw [List.filterMap_append] at this; exact (List.pairwise_append.1 this).1⟩

theorem RawHA.append_right {a b : List (Candle F)} (h : RawHA (a ++ b)) : RawHA b :=
  ⟨fun c hc => h.stamped c (by simp [hc]), fun c hc => h.untouched c (by simp [hc]),
   by have := h.sorted; rw [List.filterMap_append] at this; exact (List.pairwise_append.1 this).2.1⟩

/-- **Re-collapsing converted buckets followed by new raw candles.**  The result is the converted
form of a prefix `A` of the old raw buckets (all, or all but the re-opened newest) followed by
raw buckets `Q`, and `A ++ Q` is the resampling of the longer stream. -/
theorem collapse_ha_append (tf : Int) (htf : 0 < tf) (s new : List (Candle F)) (h : RawHA (s ++ new)) :
    ∃ A Q, collapseCandles (some tf) false (haSpec (resample tf s) ++ new) = .ok (haSpec A ++ Q) ∧
      resample tf (s ++ new) = A ++ Q ∧ (∀ c ∈ Q, Untouched c) := by
  have hs : RawHA s := h.append_left
  have hn : RawHA new := h.append_right
  have hcs := hs.cleanOk tf
  have hms : LabelsMono tf s := labelsMono_of_sorted tf htf s hs.sorted
  have hb : BucketedR tf (resampleR tf s) := resampleR_bucketed tf htf s hcs hms
  have hrel : HaRel (resample tf s) (haSpec (resample tf s)) := haSpec_rel _
  have hts := hrel.ts_eq
  have hstamp : ∀ b ∈ resample tf s, ∃ t, b.ts = some t ∧ t % tf = 0 :=
    fun b hb' => hb.stamped b (List.mem_reverse.1 hb')
  -- the converted list followed by the new candles collapses to its own resampling fold
  have hmono : LabelsMono tf (haSpec (resample tf s) ++ new) := by
    have := labelsMono_resample_append tf htf s new hcs (labelsMono_of_sorted tf htf _ h.sorted)
    unfold LabelsMono at this ⊢
    rw [labels_append] at this ⊢
    rw [labels_of_ts_eq tf _ _ hts]; exact this
  have hclean : ∀ c ∈ haSpec (resample tf s) ++ new, CleanOk tf c := by
    intro c hc
    rcases List.mem_append.1 hc with hc | hc
    · exact hrel.cleanOk tf hstamp c hc
    · exact hn.cleanOk tf c hc
  have hbZ : BucketedR tf (haSpec (resample tf s)).reverse := by
    apply bucketedR_of_ts_eq tf _ (resampleR tf s) _ hb
    rw [List.map_reverse, hts]; unfold resample; rw [List.map_reverse, List.reverse_reverse]
  have hfirst : ∀ c, (haSpec (resample tf s) ++ new).head? = some c → c.ts ≠ none := by
    intro c hc
    cases hZ : haSpec (resample tf s) with
    | nil =>
      rw [hZ] at hc
      exact hn.stamped c (List.mem_of_mem_head? (by simpa using hc))
    | cons y yr =>
      rw [hZ] at hc; simp at hc; subst hc
      obtain ⟨t, ht, _⟩ := hbZ.stamped y (by rw [hZ]; simp)
      simp [ht]
  have hcol := collapse_eq_resample tf htf _ hfirst hclean hmono
  have hselfZ : resampleR tf (haSpec (resample tf s)) = (haSpec (resample tf s)).reverse := by
    have := resampleR_reverse_self tf _ hbZ; simpa using this
  have hfoldZ : resampleR tf (haSpec (resample tf s) ++ new)
      = new.foldl (resampleStep tf) (haSpec (resample tf s)).reverse := by
    simp only [resampleR, List.foldl_append]
    have := hselfZ; simp only [resampleR] at this; rw [this]
  have hfoldB : resampleR tf (s ++ new) = new.foldl (resampleStep tf) (resampleR tf s) := by
    simp [resampleR, List.foldl_append]
  have hun : ∀ c ∈ resampleR tf (s ++ new), Untouched c := resampleR_untouched tf _ h.untouched
  rw [hcol]
  unfold resample at hfoldZ ⊢
  rw [hfoldZ, hfoldB]
  rw [hfoldB] at hun
  cases hB : resampleR tf s with
  | nil =>
    refine ⟨[], (new.foldl (resampleStep tf) []).reverse, by simp [haSpec_nil], by simp, ?_⟩
    intro c hc; rw [hB] at hun; exact hun c (List.mem_reverse.1 hc)
  | cons bl br =>
    rw [hB] at hun
    have hblc : bl.clean = none := (resampleR_untouched tf s hs.untouched bl (by rw [hB]; simp)).2
    simp only [List.reverse_cons, haSpec_snoc, List.reverse_append, List.reverse_nil, List.nil_append,
      List.singleton_append]
    rcases foldl_pair tf (haCandle bl (haSpec br.reverse).getLast?) bl rfl
        (fun x => merge_haCandle bl x _ hblc) new (haSpec br.reverse).reverse br with
      ⟨X, h1, h2⟩ | ⟨Y, _, h1, h2⟩
    · refine ⟨br.reverse ++ [bl], X.reverse, ?_, ?_, ?_⟩
      · rw [h1, haSpec_snoc]; simp
      · rw [h2]; simp
      · intro c hc; rw [h2] at hun; exact hun c (by simp [List.mem_reverse.1 hc])
    · refine ⟨br.reverse, Y.reverse, ?_, ?_, ?_⟩
      · rw [h1]; simp
      · rw [h2]; simp
      · intro c hc; rw [h2] at hun; exact hun c (by simp [List.mem_reverse.1 hc])

/-- **One pass of collapse → convert** over the converted buckets of `s` followed by new raw
candles gives the converted buckets of `s ++ new` (also for empty `s`, empty `new`). -/
theorem tasks_tf_ha_append (tf : Int) (htf : 0 < tf) (s new : List (Candle F)) (h : RawHA (s ++ new)) :
    tasks (cfgTfHA tf) (haSpec (resample tf s) ++ new) = .ok (haSpec (resample tf (s ++ new))) := by
  obtain ⟨A, Q, hcol, hres, hQ⟩ := collapse_ha_append tf htf s new h
  rw [tasks_cfgTfHA, hcol, hres]
  simp only [bind, Except.bind]
  by_cases he : (haSpec A ++ Q).isEmpty = true
  · have h1 : haSpec A = [] ∧ Q = [] := by simpa using he
    have hA : A = [] := haSpec_eq_nil A h1.1
    simp [h1.2, hA, haSpec_nil]
  · simp only [he, Bool.false_eq_true, if_false]
    rw [convertCandles_resume (haSpec A) Q (haSpec_rel A).tagged (fun c hc => (hQ c hc).1), haSpec_append]

end Hex

import HexProofs.Manager2.FillReadingsSpec
import HexProofs.Framework.Gen.Object
/-
Why `MgrSpec.fill` / `mgrSpecOf_ok` are NOT generalised to streams with readings: `Plain` is not
required by `MgrSpec` only because the fill lemmas were stated for `RawTf`.  The structure has a
field `spec_plain : ∀ s, Ok s → ∀ c ∈ spec s, Plain c` (used by `TreeSpec.engine`, whose row-major
refinement is stated for reading-free raw candles), and with readings on the input that field is
FALSE for the fill spec: a single-candle bucket keeps its entries (`fillSpec_single_keeps`).
-/
namespace Hex

/-- no `MgrSpec` whose spec is the gap-filled resampling can accept the stream `readingsDemo`
(two-bucket gap, three candles carrying `"X" ↦ 5`) -/
theorem no_mgrSpec_fill_with_readings :
    ¬ ∃ M : MgrSpec Int, M.spec readingsDemo = fillSpec 60 readingsDemo ∧ M.Ok readingsDemo := by
  rintro ⟨M, hs, hok⟩
  have hp := M.spec_plain _ hok
  rw [hs] at hp
  exact absurd hp (by decide +kernel)

/-- the same for the collapsing timeframe without fill (`MgrSpec.tf`) -/
theorem no_mgrSpec_tf_with_readings :
    ¬ ∃ M : MgrSpec Int, M.spec readingsDemo = resample 60 readingsDemo ∧ M.Ok readingsDemo := by
  rintro ⟨M, hs, hok⟩
  have hp := M.spec_plain _ hok
  rw [hs] at hp
  exact absurd hp (by decide +kernel)

end Hex

#print axioms Hex.no_mgrSpec_fill_with_readings
#print axioms Hex.no_mgrSpec_tf_with_readings

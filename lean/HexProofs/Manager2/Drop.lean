import HexProofs.Access.Basic
/-
`drop` analogue of `HexProofs/Access/Basic.lean`: Python indexing and the read accessors on a list
whose first `d` candles were popped (lifespan trimming) answer, at the index shifted by `d`, what
they answered on the untrimmed list – as long as everything they look at is retained.
-/
namespace Hex
set_option linter.unusedSectionVars false
variable {F : Type} [PyF F]

theorem pyIndex_drop {α : Type} (l : List α) (d : Nat) (j : Int) (hj : (d : Int) ≤ j) :
    pyIndex (l.drop d) (j - d) = pyIndex l j := by
  rw [pyIndex_nonneg _ _ (by omega), pyIndex_nonneg _ _ (by omega : 0 ≤ j), List.getElem?_drop]
  congr 2
  omega

theorem validIndex_drop {α : Type} (l : List α) (d : Nat) (j : Int) (hj : (d : Int) ≤ j) :
    validIndex (j - d) (l.drop d).length = validIndex j l.length := by
  unfold validIndex
  rw [List.length_drop]
  have h1 : decide (-(((l.length - d : Nat)) : Int) ≤ j - d) = true := by simp; omega
  have h2 : decide (-((l.length : Nat) : Int) ≤ j) = true := by simp; omega
  rw [h1, h2, Bool.and_true, Bool.and_true]
  by_cases h : j < l.length
  · have : j - d < ((l.length - d : Nat) : Int) := by omega
    simp [h, this]
  · have : ¬ (j - d < ((l.length - d : Nat) : Int)) := by omega
    simp [h, this]

theorem readingByIndex_drop (cs : List (Candle F)) (name : String) (d : Nat) (j : Int)
    (hj : (d : Int) ≤ j) :
    readingByIndex (cs.drop d) name (j - d) = readingByIndex cs name j := by
  unfold readingByIndex
  rw [validIndex_drop cs d j hj, pyIndex_drop cs d j hj]

/-- `reading_period` looks back `period - 1` candles: shift-invariant when they are all retained -/
theorem readingPeriod_drop (cs : List (Candle F)) (period : Int) (name : String) (d : Nat) (i : Int)
    (hp : 1 ≤ period) (hd : (d : Int) + period ≤ i + 1) :
    readingPeriod (cs.drop d) period name (i - d) = readingPeriod cs period name i := by
  unfold readingPeriod
  rw [validIndex_drop cs d i (by omega)]
  have h1 : ¬ (i - d - (period - 1) < 0) := by omega
  have h2 : ¬ (i - (period - 1) < 0) := by omega
  have hp0 : period - 1 ≥ 0 := by omega
  simp only [h1, h2, if_false, hp0, if_true]
  have hh : 0 ≤ (period - 1) / 2 := Int.ediv_nonneg hp0 (by decide)
  have hh2 : (period - 1) / 2 ≤ period - 1 := Int.ediv_le_self _ hp0
  have e1 : i - d - (period - 1) = (i - (period - 1)) - d := by omega
  have e2 : i - d - (period - 1) / 2 = (i - (period - 1) / 2) - d := by omega
  rw [e1, e2, readingByIndex_drop cs name d (i - (period - 1)) (by omega),
      readingByIndex_drop cs name d (i - (period - 1) / 2) (by omega),
      readingByIndex_drop cs name d i (by omega)]

theorem pySlice_drop {α : Type} (l : List α) (d : Nat) (s e : Int) (hs : (d : Int) ≤ s) (hse : s ≤ e)
    (he : e ≤ l.length) : pySlice (l.drop d) (s - d) (e - d) = pySlice l s e := by
  unfold pySlice
  simp only [List.length_drop]
  have hdl : d ≤ l.length := by omega
  have a1 : ¬ (s - d < 0) := by omega
  have a2 : ¬ (e - d < 0) := by omega
  have a3 : ¬ (s < 0) := by omega
  have a4 : ¬ (e < 0) := by omega
  have a5 : ¬ (s - d > ((l.length - d : Nat) : Int)) := by omega
  have a6 : ¬ (e - d > ((l.length - d : Nat) : Int)) := by omega
  have a7 : ¬ (s > (l.length : Int)) := by omega
  have a8 : ¬ (e > (l.length : Int)) := by omega
  simp only [a1, a2, a3, a4, a5, a6, a7, a8, if_false]
  by_cases h : s ≥ e
  · have h' : s - d ≥ e - d := by omega
    simp [h, h']
  · have h' : ¬ (s - d ≥ e - d) := by omega
    simp only [h, h', if_false]
    rw [List.drop_drop]
    congr 2 <;> omega

/-- `candles_sum` over `length` candles ending at `i`: shift-invariant when the whole window and
at least one more index (`absindex` 0 is falsy) are retained -/
theorem candlesSum_drop (cs : List (Candle F)) (name : String) (length : Int) (d : Nat) (i : Int)
    (hd : (d : Int) + 1 ≤ i) (hi : i < cs.length) (hl : 0 ≤ length) (hle : (d : Int) + length ≤ i + 1) :
    candlesSum (cs.drop d) name length (i - d) = candlesSum cs name length i := by
  unfold candlesSum absIndex
  rw [validIndex_drop cs d i (by omega)]
  have hv : validIndex i cs.length = true := by simp [validIndex]; omega
  have n1 : ¬ (i - d < 0) := by omega
  have n2 : ¬ (i < 0) := by omega
  simp only [hv, Bool.not_true, Bool.false_eq_true, if_false, n1, n2]
  have z1 : ((i - d) == 0) = false := by simp; omega
  have z2 : (i == 0) = false := by simp; omega
  simp only [z1, z2, Bool.false_eq_true, if_false]
  have l1 : ¬ (length > (((cs.drop d).length : Nat) : Int)) := by rw [List.length_drop]; omega
  have l2 : ¬ (length > (cs.length : Int)) := by omega
  simp only [l1, l2, if_false]
  have e1 : i - d + 1 - length = (i + 1 - length) - d := by omega
  have e2 : i - d + 1 = (i + 1) - d := by omega
  rw [e1, e2, pySlice_drop cs d (i + 1 - length) (i + 1) (by omega) (by omega) (by omega)]

namespace Ctx

/-- the context of the same candle after the first `d` candles were popped -/
def shift (x : Ctx F) (d : Nat) : Ctx F := { cs := x.cs.drop d, i := x.i - d, name := x.name }

@[simp] theorem shift_i (x : Ctx F) (d : Nat) : (x.shift d).i = x.i - d := rfl
@[simp] theorem shift_name (x : Ctx F) (d : Nat) : (x.shift d).name = x.name := rfl
@[simp] theorem shift_cs (x : Ctx F) (d : Nat) : (x.shift d).cs = x.cs.drop d := rfl

theorem reading_shift (x : Ctx F) (d : Nat) (name : String) (j : Int) (hj : (d : Int) ≤ j) :
    (x.shift d).reading name (some (j - d)) = x.reading name (some j) := by
  unfold Ctx.reading shift
  simp only [Option.getD_some]
  rw [pyIndex_drop x.cs d j hj]

theorem reading_shift_cur (x : Ctx F) (d : Nat) (name : String) (hd : (d : Int) ≤ x.i) :
    (x.shift d).reading name none = x.reading name none := by
  unfold Ctx.reading shift
  simp only [Option.getD_none]
  rw [pyIndex_drop x.cs d x.i hd]

/-- `prev_reading` needs exactly one retained predecessor -/
theorem prevReading_shift (x : Ctx F) (d : Nat) (name : String) (hd : (d : Int) + 1 ≤ x.i)
    (hi : x.i < x.cs.length) : (x.shift d).prevReading name = x.prevReading name := by
  unfold Ctx.prevReading
  have a : ((x.shift d).cs.length == 0) = false := by
    simp only [shift_cs, List.length_drop, beq_eq_false_iff_ne, ne_eq]; omega
  have b : (x.cs.length == 0) = false := by simp only [beq_eq_false_iff_ne, ne_eq]; omega
  have c : (x.i - (d : Int) == 0) = false := by simp only [beq_eq_false_iff_ne, ne_eq]; omega
  have e : (x.i == 0) = false := by simp only [beq_eq_false_iff_ne, ne_eq]; omega
  simp only [shift_i, a, b, c, e, Bool.or_false, Bool.false_eq_true, if_false]
  have : x.i - d - 1 = (x.i - 1) - d := by omega
  rw [this]
  exact reading_shift x d name (x.i - 1) (by omega)

theorem prevExists_shift (x : Ctx F) (d : Nat) (name : String) (hd : (d : Int) + 1 ≤ x.i)
    (hi : x.i < x.cs.length) : (x.shift d).prevExists name = x.prevExists name := by
  unfold Ctx.prevExists; rw [prevReading_shift x d name hd hi]

theorem prevNum_shift (x : Ctx F) (d : Nat) (name : String) (hd : (d : Int) + 1 ≤ x.i)
    (hi : x.i < x.cs.length) : (x.shift d).prevNum name = x.prevNum name := by
  unfold Ctx.prevNum; rw [prevReading_shift x d name hd hi]

theorem num_shift (x : Ctx F) (d : Nat) (name : String) (j : Int) (hj : (d : Int) ≤ j) :
    (x.shift d).num name (some (j - d)) = x.num name (some j) := by
  unfold Ctx.num; rw [reading_shift x d name j hj]

theorem num_shift_cur (x : Ctx F) (d : Nat) (name : String) (hd : (d : Int) ≤ x.i) :
    (x.shift d).num name none = x.num name none := by
  unfold Ctx.num; rw [reading_shift_cur x d name hd]

theorem readingPeriod_shift (x : Ctx F) (d : Nat) (period : Int) (name : String) (hp : 1 ≤ period)
    (hd : (d : Int) + period ≤ x.i + 1) :
    (x.shift d).readingPeriod period name none = x.readingPeriod period name none := by
  unfold Ctx.readingPeriod shift
  simp only [Option.getD_none]
  exact readingPeriod_drop x.cs period name d x.i hp hd

theorem candlesSum_shift (x : Ctx F) (d : Nat) (length : Int) (name : String) (hd : (d : Int) + 1 ≤ x.i)
    (hi : x.i < x.cs.length) (hl : 0 ≤ length) (hle : (d : Int) + length ≤ x.i + 1) :
    (x.shift d).candlesSum length name none = x.candlesSum length name none := by
  unfold Ctx.candlesSum shift
  simp only [Option.getD_none]
  exact candlesSum_drop x.cs name length d x.i hd hi hl hle

end Ctx
end Hex

import HexProofs.Manager2.C11Life
import HexProofs.Lib.IntInst
/-
C11 + lifespan: non-vacuity of `ha_life_schedule`, `tf_ha_life_schedule`, `fill_ha_life_schedule` over the toy carrier
`Int`, and the witness that the retention hypothesis `KeepsPredecessor` cannot be dropped on a collapsing timeframe
(`tf_ha_life_needs_predecessor`, replayed on the real library).
-/
namespace Hex
namespace C11LifeEx
set_option synthInstance.maxSize 4000

def mk (o h l c v : Int) (t : Int) : Candle Int :=
  { o := .int o, h := .int h, l := .int l, c := .int c, v := .int v, ts := some t }

/-! ### `{ha, lifespan}`: unconditional

The stream of HexProofs/Manager2/TwinTrees.lean (`ttInit` = 60 … 300, then 420, then 480). -/

theorem haRaw : RawHAPlain (ttInit ++ [tt420, [], tt480].flatten) :=
  show ∀ c ∈ ttInit ++ [tt420, [], tt480].flatten, Plain c ∧ c.tag = false from by decide

/-- lifespan 240 s: three candles popped; the theorem applied -/
example : runSched (cfgHALife 240) ttInit [tt420, [], tt480]
    = .ok { cfg := cfgHALife 240,
            candles := (haSpec (ttInit ++ [tt420, [], tt480].flatten)).drop
              (poppedAfter haSpec 240 ttInit (poppedBy 240 (haSpec ttInit)) [tt420, [], tt480]) } :=
  ha_life_schedule 240 (by decide) ttInit [tt420, [], tt480] haRaw
example : poppedAfter haSpec 240 ttInit (poppedBy 240 (haSpec ttInit)) [tt420, [], tt480] = 3 := by decide +kernel

theorem haRaw0 : RawHAPlain (([] : List (Candle Int)) ++ [ttInit.take 1, ttInit.drop 1, tt420, [], tt480].flatten) :=
  show ∀ c ∈ ([] : List (Candle Int)) ++ [ttInit.take 1, ttInit.drop 1, tt420, [], tt480].flatten,
    Plain c ∧ c.tag = false from by decide

/-- lifespan 0 from an EMPTY manager, first chunk a single candle: every trim leaves the newest candle only, and the
manager still ends with the LAST candle of the untrimmed fold (HA-open 35 = mean of the popped predecessor's HA open /
close 46, 25 – not of its own open / close).  Replayed on the library on a four-candle stream: `27.6875` on both. -/
example : runSched (cfgHALife 0) ([] : List (Candle Int)) [ttInit.take 1, ttInit.drop 1, tt420, [], tt480]
    = .ok { cfg := cfgHALife 0,
            candles := (haSpec ([] ++ [ttInit.take 1, ttInit.drop 1, tt420, [], tt480].flatten)).drop
              (poppedAfter haSpec 0 [] (poppedBy 0 (haSpec ([] : List (Candle Int))))
                [ttInit.take 1, ttInit.drop 1, tt420, [], tt480]) } :=
  ha_life_schedule 0 (by decide) [] _ haRaw0
example : (runSched (cfgHALife 0) [] [ttInit.take 1, ttInit.drop 1, tt420, [], tt480]).toOption.map
    (·.candles.map viewHA) = some [((35, 170, 35, 105), true, some 160)] := by decide +kernel
example : ((haSpec (ttInit ++ tt420 ++ tt480)).map viewHA).drop 5
    = [((46, 46, 10, 25), true, some 30), ((35, 170, 35, 105), true, some 160)] := by decide +kernel

/-! ### `{timeframe, ha, lifespan}` and `{timeframe, fill, ha, lifespan}` under `KeepsPredecessor`

The schedules of HexProofs/Manager2/TwinTreesTf.lean (one-minute candles on 120 s buckets). -/

theorem tfRaw : RawTfHA (tfInit ++ tfChunks.flatten) := ⟨tfDemo_raw, by decide⟩
theorem tfGapRaw : RawTfHA (tfInit ++ tfChunksGap.flatten) := ⟨tfGap_raw, by decide⟩

theorem tfKeeps : KeepsPredecessor (fun s => haSpec (resample 120 s)) (closedBuckets 120) 360 tfInit
    (poppedBy 360 (haSpec (resample 120 tfInit))) tfChunks :=
  keepsPredecessor_of_B _ _ 360 tfChunks tfInit _ (by decide +kernel)

theorem tfGapKeeps : KeepsPredecessor (fun s => haSpec (fillSpec 120 s)) (closedFilled 120) 600 tfInit
    (poppedBy 600 (haSpec (fillSpec 120 tfInit))) tfChunksGap :=
  keepsPredecessor_of_B _ _ 600 tfChunksGap tfInit _ (by decide +kernel)

example := tf_ha_life_schedule 120 (by decide) 360 (by decide) tfInit tfChunks tfRaw tfKeeps
example := tf_ha_life_schedule_retains 120 (by decide) 360 (by decide) 2 (by decide) tfInit tfChunks tfRaw
  tfDemo_init tfDemo_retains
example : poppedAfter (fun s => haSpec (resample 120 s)) 360 tfInit
    (poppedBy 360 (haSpec (resample 120 tfInit))) tfChunks = 3 := by decide +kernel
example : (runSched (cfgTfHALife 120 360) tfInit tfChunks).toOption.map (·.candles.map viewHA)
    = some ((haSpec (resample 120 (tfInit ++ tfChunks.flatten))).drop 3 |>.map viewHA) := by decide +kernel

example := fill_ha_life_schedule 120 (by decide) 600 (by decide) tfInit tfChunksGap tfGapRaw tfGapKeeps
example := fill_ha_life_schedule_retains 120 (by decide) 600 (by decide) 2 (by decide) tfInit tfChunksGap tfGapRaw
  tfGap_init tfGap_retains
example : poppedAfter (fun s => haSpec (fillSpec 120 s)) 600 tfInit
    (poppedBy 600 (haSpec (fillSpec 120 tfInit))) tfChunksGap = 3 := by decide +kernel

/-! ### the hypothesis cannot be dropped

120 s buckets, lifespan 60 s.  Construction over 300, 360: one bucket (360).  Append 420: bucket 480 opens, is converted
from bucket 360 (HA-open 45), the trim pops 360 – the manager holds the still-forming bucket only.  Append 480: the merge
restores the bucket's raw values and clears its tag; it is the first candle of the list, so it is converted as the first
candle ever: HA-open 65 (its own open / close) where the untrimmed fold has 45.
Replayed on the real library (`CandleManager(candles_lifespan=60 s, timeframe="S120", candlestick_type=HeikinAshi())`):
after 420 `(open 45.0, high 70, low 45.0, close 56.25)`, after 480 `(open 65.0, high 90, low 45, close 66.25)`; untrimmed
`(open 45.0, high 90, low 45.0, close 66.25)`. -/

def wInit : List (Candle Int) := [mk 40 45 30 35 50 300, mk 35 60 30 50 70 360]
def wChunks : List (List (Candle Int)) := [[mk 50 70 45 60 90 420], [mk 60 90 55 80 30 480]]

theorem wRaw : RawTfHA (wInit ++ wChunks.flatten) := ⟨⟨by decide, by decide, by decide, by decide⟩, by decide⟩

theorem w_trimmed : (runSched (cfgTfHALife 120 60) wInit wChunks).toOption.map (·.candles.map viewHA)
    = some [((65, 90, 45, 66), true, some 80)] := by decide +kernel
theorem w_spec : (haSpec (resample 120 (wInit ++ wChunks.flatten))).map viewHA
    = [((45, 60, 30, 45), true, some 50), ((45, 90, 45, 66), true, some 80)] := by decide +kernel
/-- after the first append everything is still as the theorem says: the bucket 480 converted from the popped 360 -/
example : (runSched (cfgTfHALife 120 60) wInit (wChunks.take 1)).toOption.map (·.candles.map viewHA)
    = some [((45, 70, 45, 56), true, some 60)] := by decide +kernel
/-- `KeepsPredecessor` fails on the witness -/
example : keepsPredecessorB (fun s => haSpec (resample 120 s)) (closedBuckets 120) 60 wInit
    (poppedBy 60 (haSpec (resample 120 wInit))) wChunks = false := by decide +kernel

/-- **Heikin-Ashi + lifespan on a collapsing timeframe WITHOUT a retention hypothesis is false**: the manager does not
always hold a suffix of the Heikin-Ashi fold over the collapsed stream. -/
theorem tf_ha_life_needs_predecessor :
    ¬ (∀ (tf : Int), 0 < tf → ∀ (life : Int), 0 ≤ life →
        ∀ (init : List (Candle Int)) (chunks : List (List (Candle Int))), RawTfHA (init ++ chunks.flatten) →
        ∃ m d, runSched (cfgTfHALife tf life) init chunks = .ok m ∧
          m.candles = (haSpec (resample tf (init ++ chunks.flatten))).drop d) := by
  intro H
  obtain ⟨m, d, h1, h2⟩ := H 120 (by decide) 60 (by decide) wInit wChunks wRaw
  have hT := w_trimmed
  rw [h1] at hT
  simp only [Except.toOption, Option.map_some, Option.some.injEq] at hT
  rw [h2, List.map_drop, w_spec] at hT
  match d, hT with
  | 0, hT => simp at hT
  | 1, hT => revert hT; decide
  | (n + 2), hT => simp at hT

end C11LifeEx
end Hex

#print axioms Hex.trim_total_nonneg
#print axioms Hex.trim_eq_drop_nonneg
#print axioms Hex.life_appends_mgr
#print axioms Hex.life_schedule_mgr
#print axioms Hex.keepsPredecessor_of_retainsClosed
#print axioms Hex.keepsPredecessor_ha
#print axioms Hex.ha_life_schedule
#print axioms Hex.tf_ha_life_schedule
#print axioms Hex.tf_ha_life_schedule_retains
#print axioms Hex.fill_ha_life_schedule
#print axioms Hex.fill_ha_life_schedule_retains
#print axioms Hex.C11LifeEx.tf_ha_life_needs_predecessor

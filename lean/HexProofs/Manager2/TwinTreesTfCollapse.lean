import HexProofs.Manager2.TwinTreesTfCore
import HexProofs.Manager2.TrimTf
/-
The collapsing-timeframe manager as a `TwinMgr`: re-collapsing a dressed bucket list followed by new raw
candles keeps exactly the CLOSED buckets – all of them, or all but the newest one when the first new raw
candle carries its label (then `Candle.merge` wipes its readings and the engine re-computes it) – and
re-collapsing the same list minus `d` leading buckets gives the same result minus those buckets (the first
retained bucket is already labelled, nothing is lost from it).
-/
namespace Hex
set_option linter.unusedSectionVars false
set_option linter.unusedSimpArgs false
variable {F : Type} [PyF F]

/-- **Number of closed buckets**: of the bucket list `B` all are closed when the chunk `new` arrives, except
the newest one if the first candle of `new` falls into it (same label). -/
def closedOf (tf : Int) (B new : List (Candle F)) : Nat :=
  match B.getLast?, new.head? with
  | some l, some c => if l.ts = c.ts.map (label tf) then B.length - 1 else B.length
  | _, _ => B.length

theorem closedOf_le (tf : Int) (B new : List (Candle F)) : closedOf tf B new ≤ B.length := by
  unfold closedOf; split
  · split <;> omega
  · omega

theorem le_closedOf_succ (tf : Int) (B new : List (Candle F)) : B.length ≤ closedOf tf B new + 1 := by
  unfold closedOf; split
  · split <;> omega
  · omega

theorem closedOf_snoc (tf : Int) (A : List (Candle F)) (l c : Candle F) (rest : List (Candle F)) (t : Int)
    (hct : c.ts = some t) :
    closedOf tf (A ++ [l]) (c :: rest) = if l.ts = some (label tf t) then A.length else A.length + 1 := by
  unfold closedOf
  simp [hct]

/-! ### collapse of a dressed bucket list followed by raw candles -/

/-- `collapse_candles` over dressed buckets followed by raw candles IS the resampling fold, and the dressed
buckets resample to themselves -/
theorem collapse_dressed_resample (tf : Int) (htf : 0 < tf) (Bk new done : List (Candle F))
    (hb : BucketedR tf Bk.reverse) (hcB : ∀ c ∈ Bk, CleanOk tf c) (hn : RawTf new)
    (hmono : LabelsMono tf (Bk ++ new)) (hd : Dressed Bk done) :
    collapseCandles (some tf) false (done ++ new) = .ok (resample tf (done ++ new)) ∧
      resampleR tf done = done.reverse := by
  have hmonoD : LabelsMono tf (done ++ new) := by
    unfold LabelsMono at hmono ⊢
    rw [labels_append] at hmono ⊢
    rw [hd.labels_eq tf]; exact hmono
  have hclean : ∀ c ∈ done ++ new, CleanOk tf c := by
    intro c hc
    rcases List.mem_append.1 hc with hc | hc
    · exact hd.cleanOk tf hcB c hc
    · exact hn.cleanOk tf c hc
  have hdR : Dressed Bk.reverse done.reverse := hd.reverse
  have hbD : BucketedR tf done.reverse := hdR.bucketedR tf hb
  have hfirst : ∀ c, (done ++ new).head? = some c → c.ts ≠ none := by
    intro c hc
    cases hdone : done with
    | nil =>
      rw [hdone] at hc
      exact hn.stamped c (List.mem_of_mem_head? (by simpa using hc))
    | cons y yr =>
      rw [hdone] at hc; simp at hc; subst hc
      obtain ⟨t, ht, _⟩ := hbD.stamped y (by rw [hdone]; simp)
      simp [ht]
  refine ⟨collapse_eq_resample tf htf (done ++ new) hfirst hclean hmonoD, ?_⟩
  have := resampleR_reverse_self tf done.reverse hbD; simpa using this

theorem resampleR_append' (tf : Int) (a b : List (Candle F)) :
    resampleR tf (a ++ b) = b.foldl (resampleStep tf) (resampleR tf a) := by
  simp [resampleR, List.foldl_append]

/-- **The split at the closed buckets.**  Both the dressed and the bare bucket list, re-collapsed with the
same raw candles, keep their first `closedOf` buckets and end with the SAME reading-free tail. -/
theorem resample_closed_split (tf : Int) (Bk done : List (Candle F)) (c : Candle F) (rest : List (Candle F))
    (t : Int) (hct : c.ts = some t) (hpl : ∀ x ∈ c :: rest, Plain x) (hd : Dressed Bk done)
    (hsB : resampleR tf Bk = Bk.reverse) (hsD : resampleR tf done = done.reverse) :
    ∃ Q : List (Candle F), (∀ x ∈ Q, Plain x) ∧ Q ≠ [] ∧
      resample tf (done ++ c :: rest) = done.take (closedOf tf Bk (c :: rest)) ++ Q ∧
      resample tf (Bk ++ c :: rest) = Bk.take (closedOf tf Bk (c :: rest)) ++ Q := by
  have hplc : Plain c := hpl c (by simp)
  have hplr : ∀ x ∈ rest, Plain x := fun x hx => hpl x (by simp [hx])
  have hstep0 : resampleStep tf [] c = [{ c with ts := some (label tf t) }] := by
    simp [resampleStep, hct]
  rcases List.eq_nil_or_concat Bk with hnil | ⟨A, bl, hP⟩
  · subst hnil
    have hdn : done = [] := by cases hd; rfl
    subst hdn
    refine ⟨resample tf (c :: rest), resample_plain tf _ hpl, ?_, by simp [closedOf], by simp [closedOf]⟩
    unfold resample resampleR
    rw [List.foldl_cons, hstep0]
    simpa using foldl_step_ne_nil tf rest _ (by simp)
  · simp only [List.concat_eq_append] at hP
    subst hP
    obtain ⟨DA, dl, rfl, hdl, hdA⟩ := hd.snoc_inv
    have hlenA : A.length = DA.length := hdA.length_eq
    have e1 : resampleR tf (DA ++ [dl] ++ c :: rest)
        = rest.foldl (resampleStep tf) (resampleStep tf (dl :: DA.reverse) c) := by
      rw [resampleR_append', hsD]; simp
    have e2 : resampleR tf (A ++ [bl] ++ c :: rest)
        = rest.foldl (resampleStep tf) (resampleStep tf (bl :: A.reverse) c) := by
      rw [resampleR_append', hsB]; simp
    rw [closedOf_snoc tf A bl c rest t hct]
    by_cases hm : bl.ts = some (label tf t)
    · have hm' : dl.ts = some (label tf t) := by rw [bare_ts hdl]; exact hm
      have s1 : resampleStep tf (dl :: DA.reverse) c = [bl.merge c] ++ DA.reverse := by
        simp [resampleStep, hct, hm', bare_merge hdl]
      have s2 : resampleStep tf (bl :: A.reverse) c = [bl.merge c] ++ A.reverse := by
        simp [resampleStep, hct, hm]
      refine ⟨(rest.foldl (resampleStep tf) [bl.merge c]).reverse, ?_, ?_, ?_, ?_⟩
      · intro x hx
        exact foldl_step_plain tf rest _ (by intro y hy; simp at hy; subst hy; exact plain_merge bl c) hplr x
          (List.mem_reverse.1 hx)
      · simpa using foldl_step_ne_nil tf rest [bl.merge c] (by simp)
      · unfold resample
        rw [e1, s1, foldl_step_tail tf rest _ _ (by simp), if_pos hm, hlenA]
        simp
      · unfold resample
        rw [e2, s2, foldl_step_tail tf rest _ _ (by simp), if_pos hm]
        simp
    · have hm' : ¬ dl.ts = some (label tf t) := by rw [bare_ts hdl]; exact hm
      have s1 : resampleStep tf (dl :: DA.reverse) c
          = [{ c with ts := some (label tf t) }] ++ (dl :: DA.reverse) := by
        simp [resampleStep, hct, hm']
      have s2 : resampleStep tf (bl :: A.reverse) c
          = [{ c with ts := some (label tf t) }] ++ (bl :: A.reverse) := by
        simp [resampleStep, hct, hm]
      refine ⟨(rest.foldl (resampleStep tf) [{ c with ts := some (label tf t) }]).reverse, ?_, ?_, ?_, ?_⟩
      · intro x hx
        exact foldl_step_plain tf rest _
          (by intro y hy; simp at hy; subst hy; exact plain_setTs c _ hplc) hplr x (List.mem_reverse.1 hx)
      · simpa using foldl_step_ne_nil tf rest [{ c with ts := some (label tf t) }] (by simp)
      · unfold resample
        rw [e1, s1, foldl_step_tail tf rest _ _ (by simp), if_neg hm, hlenA]
        simp [List.take_of_length_le]
      · unfold resample
        rw [e2, s2, foldl_step_tail tf rest _ _ (by simp), if_neg hm]
        simp [List.take_of_length_le]

theorem BucketedR.drop_reverse {tf : Int} {Bk : List (Candle F)} (h : BucketedR tf Bk.reverse) (d : Nat) :
    BucketedR tf (Bk.drop d).reverse := by
  have e : Bk.reverse = (Bk.drop d).reverse ++ (Bk.take d).reverse := by
    rw [← List.reverse_append, List.take_append_drop]
  rw [e] at h
  exact h.append_left

theorem labelsMono_drop (tf : Int) (Bk new : List (Candle F)) (d : Nat) (h : LabelsMono tf (Bk ++ new)) :
    LabelsMono tf (Bk.drop d ++ new) := by
  unfold LabelsMono at h ⊢
  have e : Bk ++ new = Bk.take d ++ (Bk.drop d ++ new) := by
    rw [← List.append_assoc, List.take_append_drop]
  rw [e, labels_append] at h
  exact (List.pairwise_append.1 h).2.1

/-- **Re-collapsing dressed buckets with a non-empty raw chunk**, with the canonical closed count, and the
same list minus `d` leading buckets. -/
theorem collapse_dressed_closed (tf : Int) (htf : 0 < tf) (Bk new done : List (Candle F))
    (hb : BucketedR tf Bk.reverse) (hcB : ∀ c ∈ Bk, CleanOk tf c) (hn : RawTf new) (hne : new ≠ [])
    (hmono : LabelsMono tf (Bk ++ new)) (hd : Dressed Bk done) :
    ∃ Q : List (Candle F), (∀ c ∈ Q, Plain c) ∧ Q ≠ [] ∧
      collapseCandles (some tf) false (done ++ new) = .ok (done.take (closedOf tf Bk new) ++ Q) ∧
      resample tf (Bk ++ new) = Bk.take (closedOf tf Bk new) ++ Q ∧
      ∀ d, d < done.length → collapseCandles (some tf) false (done.drop d ++ new)
          = .ok ((done.take (closedOf tf Bk new) ++ Q).drop d) := by
  obtain ⟨hcol, hsD⟩ := collapse_dressed_resample tf htf Bk new done hb hcB hn hmono hd
  have hsB : resampleR tf Bk = Bk.reverse := by
    have := resampleR_reverse_self tf Bk.reverse hb; simpa using this
  cases new with
  | nil => exact absurd rfl hne
  | cons c rest =>
    obtain ⟨t, hct⟩ : ∃ t, c.ts = some t := by
      cases h : c.ts with
      | none => exact absurd h (hn.stamped c (by simp))
      | some t => exact ⟨t, rfl⟩
    obtain ⟨Q, hQ, hQne, e1, e2⟩ := resample_closed_split tf Bk done c rest t hct hn.plain hd hsB hsD
    refine ⟨Q, hQ, hQne, by rw [hcol, e1], e2, ?_⟩
    intro d hdlt
    obtain ⟨hcol', hsD'⟩ := collapse_dressed_resample tf htf (Bk.drop d) (c :: rest) (done.drop d)
      (hb.drop_reverse d) (fun x hx => hcB x (List.mem_of_mem_drop hx)) hn
      (labelsMono_drop tf Bk _ d hmono) (hd.drop d)
    rw [hcol', ← e1]
    congr 1
    have hsplit : done.reverse = (done.drop d).reverse ++ (done.take d).reverse := by
      rw [← List.reverse_append, List.take_append_drop]
    have hne' : (done.drop d).reverse ≠ [] := by
      intro h
      have h1 : ((done.drop d).reverse).length = 0 := by rw [h]; rfl
      rw [List.length_reverse, List.length_drop] at h1
      omega
    unfold resample
    rw [resampleR_append' tf done, hsD, hsplit, foldl_step_tail tf _ _ _ hne', resampleR_append', hsD',
      List.reverse_append, List.reverse_reverse]
    rw [List.drop_left' (by rw [List.length_take]; omega)]

/-! ### the instance -/

/-- **The collapsing-timeframe manager** (`timeframe = tf` seconds, no fill, no conversion): spec
`resample tf`, closed count `closedOf tf (resample tf s) new`. -/
def TwinMgr.tf (F : Type) [PyF F] (tf : Int) (htf : 0 < tf) : TwinMgr F where
  cfg := cfgTf tf
  nolife := rfl
  Ok := RawTf
  spec := resample tf
  closed := fun s new => closedOf tf (resample tf s) new
  ok_left := fun a b h => h.append_left
  spec_plain := fun s h => resample_plain tf s h.plain
  init := fun s h => tasks_tf_raw tf htf s h
  append := fun s new done hok hne hd => by
    have hs : RawTf s := hok.append_left
    have hcs := hs.cleanOk tf
    have hms : LabelsMono tf s := labelsMono_of_sorted tf htf s hs.sorted
    have hb : BucketedR tf (resampleR tf s) := resampleR_bucketed tf htf s hcs hms
    have hprops := resampleR_props tf s hcs
    obtain ⟨Q, hQ, hQne, hcol, hres, hdrop⟩ := collapse_dressed_closed tf htf (resample tf s) new done
      (by unfold resample; simpa using hb) (fun c hc => hprops.1 c (List.mem_reverse.1 hc)) hok.append_right hne
      (labelsMono_resample_append tf htf s new hcs (labelsMono_of_sorted tf htf _ hok.sorted)) hd
    have hlen : (resample tf s).length = done.length := hd.length_eq
    have hQl : 1 ≤ Q.length := by
      cases Q with
      | nil => exact absurd rfl hQne
      | cons _ _ => simp
    have h1 := closedOf_le tf (resample tf s) new
    have h2 := le_closedOf_succ tf (resample tf s) new
    refine ⟨Q, hQ, by omega, by omega, by rw [tasks_cfgTf, hcol], ?_, ?_⟩
    · rw [← hres]
      have e := resampleR_resample_append tf htf s new hcs hms
      unfold resample at e ⊢
      rw [e]
    · intro d hdk
      rw [tasks_cfgTf]
      exact hdrop d (by omega)

#print axioms resample_closed_split
#print axioms collapse_dressed_closed
#print axioms TwinMgr.tf

end Hex

import HexProofs.Manager2.TwinTreesHA
/-
C15, second clause (readings on the retained candles equal those of the untrimmed twin) on the LAST manager
combination: `{timeframe, timeframe_fill, candlestick = HA, candles_lifespan}` next to `{timeframe, timeframe_fill,
candlestick = HA}` – every `CoveredTreeX` class, every timeframe `tf > 0`, every lifespan, every construction prefix
and append schedule of pristine candles (`RawTfHA`).

Task order `collapse → fill → convert → trim` on `retained converted filled buckets ++ new raw candles`:
  * the collapse keeps the CLOSED candles (`closedOf`, read on the stamps only: conversion changes none) and puts a raw,
    never converted tail after them – the re-opened bucket (`Candle.merge` restores its raw values and clears the tag)
    and the new ones (`collapse_dressed_closed`, `resample_tail_untouched`);
  * the fill pass leaves the contiguous closed prefix alone and inserts after its last candle what it reads from that
    candle's stamp and RAW close (`rawClose` of a converted candle is its saved raw close): fill candles are raw and
    unconverted (`fill_prefix_drop`);
  * conversion resumes after the last tagged candle with it as predecessor (`convert_tagged_drop`).
None of the three looks at anything before the last closed candle, so dropping `d` leading candles (one closed candle
left) commutes with the whole pass: `TwinMgr.fillHA` (spec `haSpec ∘ fillSpec tf`, closed count `closedFilled tf` – the
one of the unconverted fill manager).  The retention hypothesis is literally that of `C15b_trees_tf_fill`
(`RetainsFilled`, on the unconverted filled stream): `retainsClosed_fillHA`.  `C15b_trees_tf_fill_ha`.
-/
namespace Hex
set_option linter.unusedSectionVars false
set_option linter.unusedSimpArgs false
set_option linter.unusedVariables false
variable {F : Type} [PyF F]

/-! ### the fill pass after a dressed contiguous prefix -/

/-- **Filling `dressed contiguous prefix ++ rest`, and the same minus leading candles.**  `D` contiguous, `D'` a
dressing of it: if filling `D ++ Q` gives `W` then `W = D ++ T`, filling `D' ++ Q` gives `D' ++ T`, and filling
`D'.drop d ++ Q` (one candle of the prefix left) gives `(D' ++ T).drop d`.  The inserted part `T` is untouched (raw, never
converted) as soon as `Q` is and the last candle of `D` has the stamp and raw close of SOME untouched candle (what the
fill pass reads of it). -/
theorem fill_prefix_drop (tf : Int) (htf : 0 < tf) (D D' Q W : List (Candle F))
    (hd : Dressed D D') (hcont : Contiguous tf D) (hfill : fillMissing tf (D ++ Q) = .ok W)
    (hun : ∀ a, D.getLast? = some a → ∃ a₀ : Candle F, Untouched a₀ ∧ a₀.ts = a.ts ∧ a₀.rawClose = a.rawClose)
    (hunQ : ∀ c ∈ Q, Untouched c) :
    ∃ T, W = D ++ T ∧ (∀ c ∈ T, Untouched c) ∧ fillMissing tf (D' ++ Q) = .ok (D' ++ T) ∧
      ∀ d, d < D.length → fillMissing tf (D'.drop d ++ Q) = .ok ((D' ++ T).drop d) := by
  rcases List.eq_nil_or_concat D with rfl | ⟨A, a, rfl⟩
  · have hdn : D' = [] := by
      have := hd.length_eq; simp at this
      exact List.eq_nil_of_length_eq_zero this.symm
    subst hdn
    refine ⟨W, by simp, ?_, by simpa using hfill, fun d hd0 => absurd hd0 (by simp)⟩
    intro c hc
    rcases mem_fillMissing tf _ W (by simpa using hfill) c hc with h1 | ⟨p, u, rfl⟩
    · exact hunQ c h1
    · exact untouched_fillCandle p u
  · simp only [List.concat_eq_append] at hd hcont hfill hun ⊢
    obtain ⟨DA, a', rfl, ha, hdA⟩ := hd.snoc_inv
    have hlenA : A.length = DA.length := hdA.length_eq
    have hcontD : Contiguous tf (DA ++ [a']) := by
      apply contiguous_of_ts tf _ _ _ hcont
      simp [hdA.ts_eq, bare_ts ha]
    rw [List.append_assoc, List.singleton_append, fillMissing_split tf A a Q,
        fillMissing_contiguous tf htf _ hcont] at hfill
    cases hB : fillMissing tf (a :: Q) with
    | error e => rw [hB] at hfill; cases hfill
    | ok B' =>
      rw [hB] at hfill
      simp only [bind, Except.bind, pure, Except.pure, List.dropLast_concat] at hfill
      obtain ⟨T, rfl⟩ := fillMissing_head tf a Q B' hB
      have hWeq : W = A ++ a :: T := (Except.ok.inj hfill).symm
      obtain ⟨a₀, hua, htsa, hrca⟩ := hun a (by simp)
      have hB0 : fillMissing tf (a₀ :: Q) = .ok (a₀ :: T) := fillMissing_head_congr tf a a₀ Q T htsa hrca hB
      have hBD : fillMissing tf (a' :: Q) = .ok (a' :: T) :=
        fillMissing_head_congr tf a a' Q T (bare_ts ha) (bare_rawClose ha) hB
      refine ⟨T, by rw [hWeq]; simp, ?_, ?_, ?_⟩
      · intro c hc
        rcases mem_fillMissing tf _ _ hB0 c (List.mem_cons_of_mem _ hc) with h1 | ⟨p, u, rfl⟩
        · rcases List.mem_cons.1 h1 with rfl | h1
          · exact hua
          · exact hunQ c h1
        · exact untouched_fillCandle p u
      · rw [List.append_assoc, List.singleton_append, fillMissing_split tf DA a' Q,
            fillMissing_contiguous tf htf _ hcontD, hBD]
        simp [bind, Except.bind, pure, Except.pure]
      · intro d hdlt
        have hdle : d ≤ DA.length := by simp at hdlt; omega
        have hcontD' : Contiguous tf (DA.drop d ++ [a']) := by
          have := contiguous_drop tf d _ hcontD
          rwa [List.drop_append_of_le_length hdle] at this
        rw [List.drop_append_of_le_length hdle, List.append_assoc, List.singleton_append,
          fillMissing_split tf (DA.drop d) a' Q, fillMissing_contiguous tf htf _ hcontD', hBD]
        simp only [bind, Except.bind, pure, Except.pure, List.dropLast_concat]
        rw [List.append_assoc, List.drop_append_of_le_length hdle]
        simp

/-! ### one append on `{timeframe, fill, ha}` -/

/-- **One append on `{timeframe, fill, ha}`, dressed converted filled buckets `done`, canonical closed count** – and the
same list minus `d` leading candles, as long as one closed candle is left; the bare list `haSpec Z` gets the SAME new
candles `ext`. -/
theorem tasks_fill_ha_closed (tf : Int) (htf : 0 < tf) (s new Z done : List (Candle F))
    (hok : RawTfHA (s ++ new)) (hne : new ≠ []) (hZ : FilledOf tf s Z) (hd : Dressed (haSpec Z) done) :
    ∃ ext, (∀ c ∈ ext, Plain c) ∧ ext ≠ [] ∧
      tasks (cfgFillHA tf) (done ++ new) = .ok (done.take (closedOf tf Z new) ++ ext) ∧
      tasks (cfgFillHA tf) (haSpec Z ++ new) = .ok ((haSpec Z).take (closedOf tf Z new) ++ ext) ∧
      ∀ d, d + 1 ≤ closedOf tf Z new →
        tasks (cfgFillHA tf) (done.drop d ++ new) = .ok ((done.take (closedOf tf Z new) ++ ext).drop d) := by
  have hraw : RawTf (s ++ new) := hok.1
  have hn : RawTf new := hraw.append_right
  have hunZ : ∀ c ∈ Z, Untouched c := hZ.untouched hok.rawHA.append_left.untouched
  have hrel : HaRel Z (haSpec Z) := haSpec_rel _
  have hts := hrel.ts_eq
  have hstamp : ∀ b ∈ Z, ∃ t, b.ts = some t ∧ t % tf = 0 := hZ.bucketed.stamped
  have hmono : LabelsMono tf (haSpec Z ++ new) := by
    have := labelsMono_filled_append tf htf s new Z hraw hZ
    unfold LabelsMono at this ⊢
    rw [labels_append] at this ⊢
    rw [labels_of_ts_eq tf _ _ hts]; exact this
  have hbZ : BucketedR tf (haSpec Z).reverse := by
    apply bucketedR_of_ts_eq tf _ Z.reverse _ hZ.bucketed.reverseR
    rw [List.map_reverse, hts, List.map_reverse]
  have hsZ : resampleR tf (haSpec Z) = (haSpec Z).reverse := by
    have := resampleR_reverse_self tf _ hbZ; simpa using this
  have hk : closedOf tf (haSpec Z) new = closedOf tf Z new := closedOf_congr_ts tf _ _ new hts
  have hcleanZ := hrel.cleanOk tf hstamp
  -- the collapse, on the dressed and on the bare list
  obtain ⟨Q, hQp, hQne, hcol, hres, hdropc⟩ := collapse_dressed_closed tf htf (haSpec Z) new done
    hbZ hcleanZ hn hne hmono hd
  obtain ⟨Q0, _, _, hcol0, hres0, _⟩ := collapse_dressed_closed tf htf (haSpec Z) new (haSpec Z)
    hbZ hcleanZ hn hne hmono (Dressed.refl _)
  have hQ0 : Q0 = Q := List.append_cancel_left (hres0.symm.trans hres)
  subst hQ0
  rw [hk] at hcol hres hdropc hcol0
  have hkle : closedOf tf Z new ≤ Z.length := closedOf_le tf Z new
  have hlenH : (haSpec Z).length = Z.length := haSpec_length Z
  have hlenD : done.length = Z.length := by rw [← hd.length_eq, hlenH]
  generalize hkk : closedOf tf Z new = k at *
  -- the raw tail
  have hQun : ∀ x ∈ Q0, Untouched x := by
    have hQeq : (resample tf (haSpec Z ++ new)).drop k = Q0 := by
      rw [hres, List.drop_left' (by rw [List.length_take]; omega)]
    rw [← hQeq, ← hk]
    cases new with
    | nil => exact absurd rfl hne
    | cons c rest =>
      obtain ⟨t, hct⟩ : ∃ t, c.ts = some t := by
        cases h : c.ts with
        | none => exact absurd h (hn.stamped c (by simp))
        | some t => exact ⟨t, rfl⟩
      exact resample_tail_untouched tf _ c rest t hct hok.append_right.rawHA.untouched hsZ
  -- the first candle of what the manager collapses is stamped
  have hstampH : ∀ y ∈ haSpec Z, y.ts ≠ none := by
    intro y hy
    have hmem : y.ts ∈ (haSpec Z).map (·.ts) := List.mem_map.2 ⟨y, hy, rfl⟩
    rw [hts] at hmem
    obtain ⟨b, hb, hby⟩ := List.mem_map.1 hmem
    obtain ⟨t, ht, _⟩ := hstamp b hb
    rw [← hby, ht]; simp
  have hstampD : ∀ y ∈ done, y.ts ≠ none := by
    intro y hy
    have hmem : y.ts ∈ done.map (·.ts) := List.mem_map.2 ⟨y, hy, rfl⟩
    rw [hd.ts_eq] at hmem
    obtain ⟨b, hb, hby⟩ := List.mem_map.1 hmem
    rw [← hby]; exact hstampH b hb
  have hfirst : ∀ (X : List (Candle F)), (∀ y ∈ X, y.ts ≠ none) → ∀ c, (X ++ new).head? = some c → c.ts ≠ none := by
    intro X hX c hc
    cases hx : X with
    | nil => rw [hx] at hc; exact hn.stamped c (List.mem_of_mem_head? (by simpa using hc))
    | cons y yr =>
      rw [hx] at hc; simp at hc; subst hc
      exact hX y (by rw [hx]; simp)
  -- the fill pass succeeds on the bare list (the untrimmed manager's tasks return)
  obtain ⟨Z', hZ', htasks0⟩ := tasks_fill_ha_append tf htf s new Z hraw hok.2 hZ
  have hW : ∃ W, fillMissing tf ((haSpec Z).take k ++ Q0) = .ok W := by
    rw [tasks_cfgFillHA', collapse_fill_eq tf _ (hfirst _ hstampH), hcol0] at htasks0
    simp only [bind, Except.bind] at htasks0
    cases hf : fillMissing tf ((haSpec Z).take k ++ Q0) with
    | error e => rw [hf] at htasks0; cases htasks0
    | ok W => exact ⟨W, rfl⟩
  obtain ⟨W, hfillW⟩ := hW
  have hcontH : Contiguous tf ((haSpec Z).take k) := by
    apply contiguous_take
    exact contiguous_of_ts tf Z _ hts hZ.contig
  have hunLast : ∀ a, ((haSpec Z).take k).getLast? = some a →
      ∃ a₀ : Candle F, Untouched a₀ ∧ a₀.ts = a.ts ∧ a₀.rawClose = a.rawClose := by
    intro a ha
    rw [haSpec_take] at ha
    rcases List.eq_nil_or_concat (Z.take k) with hnil | ⟨A, a₀, hP⟩
    · rw [hnil] at ha; simp [haSpec_nil] at ha
    · simp only [List.concat_eq_append] at hP
      rw [hP, haSpec_snoc, List.getLast?_concat] at ha
      have hu : Untouched a₀ := hunZ a₀ (List.mem_of_mem_take (by rw [hP]; simp))
      cases ha
      exact ⟨a₀, hu, rfl, (rawClose_haCandle a₀ _ hu.2).symm⟩
  obtain ⟨T, _, hTun, hfillH, _⟩ := fill_prefix_drop tf htf _ _ Q0 W (Dressed.refl ((haSpec Z).take k)) hcontH hfillW
    hunLast hQun
  obtain ⟨T', hWT', _, hfillD, hfillDrop⟩ := fill_prefix_drop tf htf _ _ Q0 W (hd.take k) hcontH hfillW hunLast hQun
  have hTT : T' = T := by
    have h1 := hfillH
    rw [hfillW] at h1
    have h2 : W = (haSpec Z).take k ++ T := Except.ok.inj h1
    exact List.append_cancel_left (hWT'.symm.trans h2)
  subst hTT
  -- conversion resumes after the closed candles
  have htagD : ∀ c ∈ done.take k, c.tag = true :=
    fun c hc => hd.tagged hrel.tagged c (List.mem_of_mem_take hc)
  have htagH : ∀ c ∈ (haSpec Z).take k, c.tag = true :=
    fun c hc => hrel.tagged c (List.mem_of_mem_take hc)
  have hTtag : ∀ c ∈ T', c.tag = false := fun c hc => (hTun c hc).1
  obtain ⟨ext, hp, hlen, hfold, hconv, hdrop⟩ := convert_tagged_drop (done.take k) T' htagD hTtag
  obtain ⟨ext0, e1, e2, _, _⟩ := haFold_ext_congr T' ((haSpec Z).take k) (done.take k) (hd.take _).getLast?.symm
  have he : ext0 = ext := List.append_cancel_left (e2.symm.trans hfold)
  subst he
  have hT'l : 1 ≤ T'.length := by
    -- the filled list is at least as long as the collapsed one, whose tail `Q0` is not empty
    have h1 := fillMissing_length_le tf _ W hfillW
    rw [hWT'] at h1
    simp only [List.length_append] at h1
    cases Q0 with
    | nil => exact absurd rfl hQne
    | cons _ _ => simp only [List.length_cons] at h1; omega
  refine ⟨ext0, hp, ?_, ?_, ?_, ?_⟩
  · intro h0; rw [h0] at hlen; simp at hlen; omega
  · rw [tasks_cfgFillHA', collapse_fill_eq tf _ (hfirst _ hstampD), hcol]
    simp only [bind, Except.bind]
    rw [hfillD]
    exact hconv
  · rw [tasks_cfgFillHA', collapse_fill_eq tf _ (hfirst _ hstampH), hcol0]
    simp only [bind, Except.bind]
    rw [hfillH]
    simp only
    rw [convertCandles_resume _ T' htagH hTtag, e1]
  · intro d hd1
    have hdlt : d < done.length := by omega
    have hstampDd : ∀ y ∈ done.drop d, y.ts ≠ none := fun y hy => hstampD y (List.mem_of_mem_drop hy)
    rw [tasks_cfgFillHA', collapse_fill_eq tf _ (hfirst _ hstampDd), hdropc d hdlt]
    simp only [bind, Except.bind]
    rw [List.drop_append_of_le_length (by rw [List.length_take]; omega),
      hfillDrop d (by rw [List.length_take]; omega)]
    simp only
    rw [List.drop_append_of_le_length (by rw [List.length_take]; omega),
      hdrop d (by rw [List.length_take]; omega),
      List.drop_append_of_le_length (by rw [List.length_take]; omega)]

/-- **The collapsing-timeframe + gap filling + Heikin-Ashi manager as a `TwinMgr`**: spec `haSpec ∘ fillSpec tf`,
closed count `closedFilled tf` (that of the unconverted fill manager `TwinMgr.fill`). -/
def TwinMgr.fillHA (F : Type) [PyF F] (tf : Int) (htf : 0 < tf) : TwinMgr F where
  cfg := cfgFillHA tf
  nolife := rfl
  Ok := RawTfHA
  spec := fun s => haSpec (fillSpec tf s)
  closed := closedFilled tf
  ok_left := fun a b h => h.append_left
  spec_plain := fun s _ => plain_haSpec _
  init := (MgrSpec.fillHA F tf htf).init
  append := fun s new done hok hne hd => by
    obtain ⟨Z, hZ⟩ := filledOf tf htf s hok.1.append_left
    unfold closedFilled
    rw [hZ.spec_eq] at hd ⊢
    obtain ⟨ext, hp, hne', htasks, htasks0, hdrop⟩ := tasks_fill_ha_closed tf htf s new Z done hok hne hZ hd
    obtain ⟨Z', hZ', h0⟩ := tasks_fill_ha_append tf htf s new Z hok.1 hok.2 hZ
    rw [htasks0] at h0
    have hlenD : done.length = Z.length := by rw [← hd.length_eq, haSpec_length]
    have h1 := closedOf_le tf Z new
    have h2 := le_closedOf_succ tf Z new
    have hl : 1 ≤ ext.length := by
      cases ext with
      | nil => exact absurd rfl hne'
      | cons _ _ => simp
    refine ⟨ext, hp, by omega, by omega, htasks, ?_, hdrop⟩
    rw [hZ'.spec_eq]
    exact (Except.ok.inj h0).symm

/-! ### the retention hypothesis is that of the unconverted fill manager -/

/-- **`{timeframe, fill, ha}`: the hypothesis of the unconverted fill manager** (`RetainsFilled`, closed candles of
`fillSpec tf`) is the hypothesis on the converted filled buckets -/
theorem retainsClosed_fillHA (L : Nat) (tf life : Int) (s : List (Candle F)) (d : Nat)
    (chunks : List (List (Candle F))) (h : RetainsFilled L tf life s d chunks) :
    RetainsClosed (fun s => haSpec (fillSpec tf s)) (closedFilled tf) L life s d chunks :=
  RetainsClosed.congr_ts (fillSpec tf) _ (closedFilled tf) L life (fun s => (haSpec_rel _).ts_eq) chunks s d h

/-- timeframe + fill + Heikin-Ashi + lifespan -/
def cfgFillHALife (tf life : Int) : MgrCfg := { tf := some tf, fill := true, ha := true, lifespan := some life }

theorem cfgFillHA_withLife (tf life : Int) : (cfgFillHA tf).withLife life = cfgFillHALife tf life := rfl

/-! ### the theorems -/

/-- **Whole schedule on a collapsing timeframe with gap filling and Heikin-Ashi conversion, any tree with `TwinOK`.** -/
theorem twin_schedule_tree_tf_fill_ha (ind : Ind F) {L : Nat} (T : TwinOK ind L) (tf : Int) (htf : 0 < tf)
    (life : Int) (init : List (Candle F)) (chunks : List (List (Candle F))) (hraw : RawTfHA (init ++ chunks.flatten))
    (hinit : trimCandles (some life) (fillSpec tf init) = .ok (fillSpec tf init))
    (hret : RetainsFilled L tf life init 0 chunks) (a b : List (Candle F))
    (ha : candlesOf (runIndicator ind (cfgFillHALife tf life) init chunks) = .ok a)
    (hb : candlesOf (runIndicator ind (cfgFillHA tf) init chunks) = .ok b) : ∃ d, a = b.drop d :=
  twin_schedule_mgr (TwinMgr.fillHA F tf htf) ind T life init chunks hraw
    (trim_init_congr life _ (haSpec (fillSpec tf init)) (haSpec_rel _).ts_eq hinit)
    (retainsClosed_fillHA L tf life init 0 chunks hret) a b ha hb

/-- **C15, second clause, on a collapsing timeframe with gap filling AND Heikin-Ashi conversion – every shipped
class.**  Streams of pristine candles (`RawTfHA`: stamped, sorted, reading-free, never converted), every timeframe
`tf > 0`, every lifespan: under EXACTLY the hypothesis of the unconverted statement `C15b_trees_tf_fill` – nothing
popped at construction, `treeLook k name round` CLOSED candles (buckets and fill candles of `fillSpec tf`) retained at
every popping append (`RetainsFilled`, on the unconverted filled stream) – whenever the run with `{timeframe,
timeframe_fill, HA, candles_lifespan}` and its untrimmed twin `{timeframe, timeframe_fill, HA}` both return, the trimmed
indicator holds the twin's candles minus the popped leading ones: Heikin-Ashi OHLC (fill candles converted like any
other), saved raw values, readings, helper and `_data` series, the forming bucket included. -/
theorem C15b_trees_tf_fill_ha (k : Kind F) (name : String) (round : Nat) (hc : CoveredTreeX name k)
    (tf : Int) (htf : 0 < tf) (life : Int) (init : List (Candle F)) (chunks : List (List (Candle F)))
    (hraw : RawTfHA (init ++ chunks.flatten))
    (hinit : trimCandles (some life) (fillSpec tf init) = .ok (fillSpec tf init))
    (hret : RetainsFilled (treeLook k name round) tf life init 0 chunks) (a b : List (Candle F))
    (ha : candlesOf (runIndicator (mkTop k name round) (cfgFillHALife tf life) init chunks) = .ok a)
    (hb : candlesOf (runIndicator (mkTop k name round) (cfgFillHA tf) init chunks) = .ok b) : ∃ d, a = b.drop d :=
  twin_schedule_tree_tf_fill_ha (mkTop k name round) (hc.twinOK round) tf htf life init chunks hraw hinit hret a b ha hb

/-! ### non-vacuity (toy carrier `Int`)

The schedule with a two-bucket gap of HexProofs/Manager2/TwinTreesTf.lean (one-minute candles on 120 s buckets, no raw
candle in the buckets 720 and 840; lifespan 600 s; three candles popped), now with conversion. -/

section Demo
set_option synthInstance.maxSize 4000

theorem fillHADemo_raw : RawTfHA (tfInit ++ tfChunksGap.flatten) := ⟨tfGap_raw, by decide⟩

def runTfillha (k : Kind Int) (name : String) : PyM (List (Candle Int)) :=
  candlesOf (runIndicator (mkTop k name 4) (cfgFillHALife 120 600) tfInit tfChunksGap)
def runUfillha (k : Kind Int) (name : String) : PyM (List (Candle Int)) :=
  candlesOf (runIndicator (mkTop k name 4) (cfgFillHA 120) tfInit tfChunksGap)

/-- the theorem applied to the demo – ATR 3 (look-back 2) -/
example (a b : List (Candle Int)) (ha : runTfillha (.atr 3) "ATR_3" = .ok a)
    (hb : runUfillha (.atr 3) "ATR_3" = .ok b) : ∃ d, a = b.drop d :=
  C15b_trees_tf_fill_ha (.atr 3) "ATR_3" 4 atrDemoOK 120 (by decide) 600 tfInit tfChunksGap fillHADemo_raw tfGap_init
    (by rw [atrDemo_look]; exact tfGap_retains) a b ha hb
/-- both runs return; the twin holds 120 … 1080 with the fill candles 720, 840; the trimmed run its last six candles:
Heikin-Ashi values, tags, saved raw closes, readings and helper series -/
example : (runUfillha (.atr 3) "ATR_3").toOption.map (·.map (·.ts))
    = some [some 120, some 240, some 360, some 480, some 600, some 720, some 840, some 960, some 1080] := by
  decide +kernel
example : (runTfillha (.atr 3) "ATR_3").toOption.map (·.map (fun c => (viewHA c, view c)))
    = (runUfillha (.atr 3) "ATR_3").toOption.map (fun b => (b.drop 3).map (fun c => (viewHA c, view c))) := by
  decide +kernel
example : ((runTfillha (.atr 3) "ATR_3").toOption.map (·.map view)).isSome = true := by decide +kernel
/-- the fill candles (stamps 720, 840: volume 0) ARE converted (tagged, raw close saved) -/
example : (runTfillha (.atr 3) "ATR_3").toOption.map (·.map (fun c => (c.ts, numv c.v, c.tag))) = some
    [(some 480, 100, true), (some 600, 100, true), (some 720, 0, true), (some 840, 0, true), (some 960, 85, true),
     (some 1080, 45, true)] := by decide +kernel
example (a b : List (Candle Int)) (ha : runTfillha (.rsi 2 "close") "RSI_2" = .ok a)
    (hb : runUfillha (.rsi 2 "close") "RSI_2" = .ok b) : ∃ d, a = b.drop d :=
  C15b_trees_tf_fill_ha (.rsi 2 "close") "RSI_2" 4 rsiDemoOK 120 (by decide) 600 tfInit tfChunksGap fillHADemo_raw
    tfGap_init (by rw [rsiDemo_look]; exact tfGap_retains) a b ha hb
example : (runTfillha (.rsi 2 "close") "RSI_2").toOption.map (·.map (fun c => (viewHA c, view c)))
    = (runUfillha (.rsi 2 "close") "RSI_2").toOption.map (fun b => (b.drop 3).map (fun c => (viewHA c, view c))) := by
  decide +kernel
example : ((runTfillha (.rsi 2 "close") "RSI_2").toOption.map (·.map view)).isSome = true := by decide +kernel

/-- the hypothesis cannot be dropped: with lifespan 360 s the append `[600, 900]` pops ALL closed candles –
`RetainsFilled 2` fails, and the trimmed run is not a suffix of its twin -/
example : retainsFilledB 2 120 360 tfInit 0 tfChunksGap = false := by decide +kernel
example : (candlesOf (runIndicator (mkTop (.atr 3) "ATR_3" 4) (cfgFillHALife 120 360) tfInit tfChunksGap)).toOption.map
      (·.map view)
    ≠ (runUfillha (.atr 3) "ATR_3").toOption.map (fun b => (b.drop 5).map view) := by decide +kernel

end Demo

#print axioms fill_prefix_drop
#print axioms tasks_fill_ha_closed
#print axioms TwinMgr.fillHA
#print axioms retainsClosed_fillHA
#print axioms C15b_trees_tf_fill_ha

end Hex

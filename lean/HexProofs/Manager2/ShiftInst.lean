import HexProofs.Manager2.ShiftLoop
/-
`ShiftOK` instances: HLA, TR, OBV, Counter (no state condition) and EMA, RMA (state condition
"seeded": the previous own reading is not `None`; once seeded the recurrence never yields `None`
again, so the condition maintains itself along the loop).
-/
namespace Hex
set_option linter.unusedSectionVars false
variable {F : Type} [PyF F]

/-! ### kinds without a state condition -/

/-- HLA, TR, OBV, Counter -/
inductive OnePredFree : Kind F → Prop
  | hla : OnePredFree .hla
  | tr : OnePredFree .tr
  | obv : OnePredFree .obv
  | counter (input : String) (cv : Scalar F) : OnePredFree (.counter input cv)

theorem OnePredFree.onePred {k : Kind F} (h : OnePredFree k) : OnePred k := by
  cases h
  · exact .hla
  · exact .tr
  · exact .obv
  · exact .counter _ _

theorem OnePredFree.seeded {k : Kind F} (h : OnePredFree k) (x : Ctx F) : Seeded k x := by
  cases h <;> trivial

def shiftOK_free (ind : Ind F) (hk : OnePredFree ind.kind) : ShiftOK ind :=
  ShiftOK.ofUncond ind (fun x d hd hi => readKind_shift hk.onePred x d hd hi (hk.seeded x))

/-! ### once seeded, always seeded -/

theorem ema_seeded_nonNone (x : Ctx F) (p : Int) (input : String) (sm : Num F) (v : Val F)
    (hseed : x.prevExists x.name = .ok true) (h : Calc.ema x p input sm = .ok v) : v.isNone = false := by
  unfold Calc.ema at h
  simp only [hseed, bind, Except.bind, if_true] at h
  split at h
  · cases h
  · split at h
    · cases h
    · split at h
      · cases h
      · simp only [pure, Except.pure] at h
        cases h; rfl

theorem rma_seeded_nonNone (x : Ctx F) (p : Int) (input : String) (v : Val F)
    (hseed : x.prevExists x.name = .ok true) (h : Calc.rma x p input = .ok v) : v.isNone = false := by
  unfold Calc.rma at h
  simp only [hseed, bind, Except.bind, if_true] at h
  split at h
  · cases h
  · split at h
    · cases h
    · split at h
      · cases h
      · simp only [pure, Except.pure] at h
        cases h; rfl

/-- after a step that stored a non-`None` reading at index `k`, index `k + 1` sees it as its
previous own reading -/
theorem prevExists_after_step (cs : List (Candle F)) (k : Nat) (c : Candle F) (isSub : Bool) (name : String)
    (w : Val F) (hc : cs[k]? = some c) (hcp : Plain c) (hname : IsKey name) (hw : w.isNone = false) :
    ({ cs := cs.modify k (setKey isSub name w), i := ((k + 1 : Nat) : Int), name := name } : Ctx F).prevExists name
      = .ok true := by
  have hk : k < cs.length := by
    by_contra hcon
    rw [List.getElem?_eq_none (by omega)] at hc; cases hc
  unfold Ctx.prevExists Ctx.prevReading
  have a : ((cs.modify k (setKey isSub name w)).length == 0) = false := by
    rw [List.length_modify]; simp only [beq_eq_false_iff_ne, ne_eq]; omega
  have b : ((((k + 1 : Nat)) : Int) == 0) = false := by simp only [beq_eq_false_iff_ne, ne_eq]; omega
  simp only [a, b, Bool.or_false, Bool.false_eq_true, if_false]
  unfold Ctx.reading
  simp only [Option.getD_some]
  have e : (((k + 1 : Nat)) : Int) - 1 = (k : Int) := by omega
  have hget : (cs.modify k (setKey isSub name w))[k]? = some (setKey isSub name w c) := by
    rw [List.getElem?_modify, hc]; simp
  rw [e, pyIndex_nat _ k _ hget]
  simp only [bind, Except.bind, pure, Except.pure, readingByCandle_setKey isSub name hname w c hcp, hw,
    Bool.not_false]

/-- EMA: shift contract with the state condition "seeded" (needs an ordinary own name so that the
stored reading is what `prev_reading` returns) -/
def emaShiftOK (ind : Ind F) (p : Int) (input : String) (sm : Num F) (hk : ind.kind = .ema p input sm)
    (hname : IsKey ind.name) : ShiftOK ind where
  P := fun cs k => ({ cs := cs, i := (k : Int), name := ind.name } : Ctx F).prevExists ind.name = .ok true
  shift := by
    intro cs k d hP hd hk'
    rw [hk]
    exact ema_shift_seeded { cs := cs, i := (k : Int), name := ind.name } d p input sm
      (by simp only; omega) (by simp only; omega) hP
  step := by
    intro cs k c v hP hc hcp hv
    rw [hk] at hv
    have hnn := ema_seeded_nonNone _ p input sm v hP hv
    exact prevExists_after_step cs k c ind.isSub ind.name _ hc hcp hname (by rw [Val.roundBy_isNone]; exact hnn)

/-- RMA: the same -/
def rmaShiftOK (ind : Ind F) (p : Int) (input : String) (hk : ind.kind = .rma p input)
    (hname : IsKey ind.name) : ShiftOK ind where
  P := fun cs k => ({ cs := cs, i := (k : Int), name := ind.name } : Ctx F).prevExists ind.name = .ok true
  shift := by
    intro cs k d hP hd hk'
    rw [hk]
    exact rma_shift_seeded { cs := cs, i := (k : Int), name := ind.name } d p input
      (by simp only; omega) (by simp only; omega) hP
  step := by
    intro cs k c v hP hc hcp hv
    rw [hk] at hv
    have hnn := rma_seeded_nonNone _ p input v hP hv
    exact prevExists_after_step cs k c ind.isSub ind.name _ hc hcp hname (by rw [Val.roundBy_isNone]; exact hnn)

/-- the state condition of EMA / RMA at the first new candle, in terms of the finished list: the
last finished candle holds a non-`None` own reading -/
theorem seeded_at_end (a new : List (Candle F)) (name : String) (hnew : new ≠ [])
    (h : (Ctx.lastReading name a).isNone = false) :
    ({ cs := a ++ new, i := (a.length : Int), name := name } : Ctx F).prevExists name = .ok true := by
  cases new with
  | nil => exact absurd rfl hnew
  | cons c rest => rw [Ctx.prevExists_append_cons]; simp [h]

end Hex

import HexProofs.Manager2.FillReadings
/-
Which candle of the (filled) resampling keeps which readings – derived from the model (and replayed
on the library, see the report): a bucket is its first raw candle re-stamped with the bucket label
and the later raw candles of the bucket merged in, in stream order.  `Candle.merge` ends with
`reset_candle`, so
  * a bucket made of ONE raw candle (on the grid or not) is that candle re-stamped: it keeps all
    its `.indicators` / `.sub_indicators` entries;
  * a bucket made of two or more raw candles carries none;
  * an inserted (gap-fill) candle carries none.
-/
namespace Hex
set_option linter.unusedSectionVars false
variable {F : Type} [PyF F]

/-- the raw candles of the stream that fall into the bucket labelled `L`, in stream order -/
def bucketGroup (tf : Int) (xs : List (Candle F)) (L : Int) : List (Candle F) :=
  xs.filter (fun c => decide (c.ts.map (label tf) = some L))

/-- the bucket made of a group: first candle re-stamped, the later ones merged in -/
def bucketOf (L : Int) : List (Candle F) → Option (Candle F)
  | [] => none
  | c :: g => some (g.foldl Candle.merge { c with ts := some L })

theorem bucketGroup_snoc (tf : Int) (P : List (Candle F)) (c : Candle F) (L : Int) :
    bucketGroup tf (P ++ [c]) L
      = bucketGroup tf P L ++ (if c.ts.map (label tf) = some L then [c] else []) := by
  unfold bucketGroup
  rw [List.filter_append]
  congr 1
  simp only [List.filter_cons, List.filter_nil, decide_eq_true_eq]

theorem bucketOf_snoc (L : Int) (g : List (Candle F)) (b c : Candle F) (h : bucketOf L g = some b) :
    bucketOf L (g ++ [c]) = some (b.merge c) := by
  cases g with
  | nil => cases h
  | cons c0 g' =>
    simp only [bucketOf, Option.some.injEq, List.cons_append] at h ⊢
    rw [List.foldl_append, h]; rfl

theorem mem_bucketGroup {tf : Int} {xs : List (Candle F)} {L : Int} {c : Candle F}
    (h : c ∈ bucketGroup tf xs L) : c ∈ xs ∧ c.ts.map (label tf) = some L := by
  unfold bucketGroup at h
  have := List.mem_filter.1 h
  exact ⟨this.1, by simpa using this.2⟩

theorem bucketGroup_eq_nil_of_unstamped (tf : Int) (P : List (Candle F)) (L : Int)
    (h : labels tf P = []) : bucketGroup tf P L = [] := by
  unfold bucketGroup
  rw [List.filter_eq_nil_iff]
  intro c hc hd
  have hd' : c.ts.map (label tf) = some L := by simpa using hd
  have : L ∈ labels tf P := List.mem_filterMap.2 ⟨c, hc, hd'⟩
  rw [h] at this; cases this

/-- in a non-decreasing list every member is at most the last one -/
theorem le_getLast_of_pairwise (l : List Int) (hp : l.Pairwise (· ≤ ·)) (z : Int) (hz : l.getLast? = some z) :
    ∀ a ∈ l, a ≤ z := by
  rcases List.eq_nil_or_concat l with rfl | ⟨l', y, rfl⟩
  · intro a ha; cases ha
  · simp only [List.concat_eq_append] at hz hp ⊢
    rw [List.getLast?_append] at hz
    simp only [List.getLast?_singleton, Option.some_or, Option.some.injEq] at hz
    subst hz
    intro a ha
    rcases List.mem_append.1 ha with ha | ha
    · exact (List.pairwise_append.1 hp).2.2 a ha y (by simp)
    · simp at ha; omega

/-- what the resampling fold holds: every bucket is `bucketOf` its group, and every stamped raw
candle has its bucket -/
structure GroupInv (tf : Int) (P acc : List (Candle F)) : Prop where
  bucket : ∀ b ∈ acc, ∃ L, b.ts = some L ∧ bucketOf L (bucketGroup tf P L) = some b
  covered : ∀ c ∈ P, ∀ t, c.ts = some t → ∃ b ∈ acc, b.ts = some (label tf t)

theorem groupInv_step (tf : Int) (htf : 0 < tf) (P : List (Candle F)) (c : Candle F)
    (hclean : ∀ x ∈ P, CleanOk tf x) (hmono : LabelsMono tf (P ++ [c]))
    (ih : GroupInv tf P (resampleR tf P)) :
    GroupInv tf (P ++ [c]) (resampleStep tf (resampleR tf P) c) := by
  have hmonoP : LabelsMono tf P := by
    unfold LabelsMono at hmono ⊢
    rw [labels_append] at hmono
    exact (List.pairwise_append.1 hmono).1
  have hb : BucketedR tf (resampleR tf P) := resampleR_bucketed tf htf P hclean hmonoP
  obtain ⟨hcl, hhead⟩ := resampleR_props tf P hclean
  cases hts : c.ts with
  | none =>
    have hstep : resampleStep tf (resampleR tf P) c = resampleR tf P := by simp [resampleStep, hts]
    have hg : ∀ L, bucketGroup tf (P ++ [c]) L = bucketGroup tf P L := by
      intro L; rw [bucketGroup_snoc]; simp [hts]
    rw [hstep]
    refine ⟨?_, ?_⟩
    · intro b hbm
      obtain ⟨L, h1, h2⟩ := ih.bucket b hbm
      exact ⟨L, h1, by rw [hg]; exact h2⟩
    · intro x hx t ht
      rcases List.mem_append.1 hx with hx | hx
      · exact ih.covered x hx t ht
      · have hxc : x = c := by simpa using hx
        rw [hxc, hts] at ht; cases ht
  | some t =>
    have hgL : bucketGroup tf (P ++ [c]) (label tf t) = bucketGroup tf P (label tf t) ++ [c] := by
      rw [bucketGroup_snoc]; simp [hts]
    have hgN : ∀ L, L ≠ label tf t → bucketGroup tf (P ++ [c]) L = bucketGroup tf P L := by
      intro L hL; rw [bucketGroup_snoc]
      have : ¬ (c.ts.map (label tf) = some L) := by simp [hts]; exact fun h => hL h.symm
      simp [this]
    cases hacc : resampleR tf P with
    | nil =>
      have hlab : labels tf P = [] := by
        rw [hacc] at hhead
        simp only [List.head?_nil, Option.bind_none] at hhead
        exact List.getLast?_eq_none_iff.1 hhead.symm
      have hstep : resampleStep tf [] c = [{ c with ts := some (label tf t) }] := by
        simp [resampleStep, hts]
      rw [hstep]
      refine ⟨?_, ?_⟩
      · intro b hbm
        simp only [List.mem_singleton] at hbm; subst hbm
        refine ⟨label tf t, rfl, ?_⟩
        rw [hgL, bucketGroup_eq_nil_of_unstamped tf P _ hlab]; rfl
      · intro x hx u hu
        rcases List.mem_append.1 hx with hx | hx
        · have : label tf u ∈ labels tf P := List.mem_filterMap.2 ⟨x, hx, by simp [hu]⟩
          rw [hlab] at this; cases this
        · have hxc : x = c := by simpa using hx
          rw [hxc, hts] at hu; cases hu
          exact ⟨_, List.mem_cons_self, rfl⟩
    | cons l r =>
      rw [hacc] at hb hcl hhead ih
      obtain ⟨tl, htl, _⟩ := hb.stamped l (by simp)
      have hlast : (labels tf P).getLast? = some tl := by
        simp only [List.head?_cons, Option.bind_some, htl] at hhead; exact hhead.symm
      by_cases hl : l.ts = some (label tf t)
      · -- merged into the newest bucket
        have hstep : resampleStep tf (l :: r) c = l.merge c :: r := by simp [resampleStep, hts, hl]
        have hmts : (l.merge c).ts = some (label tf t) := by
          rw [merge_ts tf l c (hcl l (by simp)), hl]
        rw [hstep]
        refine ⟨?_, ?_⟩
        · intro b hbm
          rcases List.mem_cons.1 hbm with rfl | hbr
          · obtain ⟨L, h1, h2⟩ := ih.bucket l (by simp)
            rw [hl] at h1; cases h1
            exact ⟨label tf t, hmts, by rw [hgL]; exact bucketOf_snoc _ _ l c h2⟩
          · obtain ⟨L, h1, h2⟩ := ih.bucket b (List.mem_cons_of_mem _ hbr)
            have hlt := hb.le_head tf l r (label tf t) hl b hbr L h1
            exact ⟨L, h1, by rw [hgN L (by omega)]; exact h2⟩
        · intro x hx u hu
          rcases List.mem_append.1 hx with hx | hx
          · obtain ⟨b, hbm, hbt⟩ := ih.covered x hx u hu
            rcases List.mem_cons.1 hbm with rfl | hbr
            · exact ⟨b.merge c, by simp, by rw [hmts, ← hl, hbt]⟩
            · exact ⟨b, List.mem_cons_of_mem _ hbr, hbt⟩
          · have hxc : x = c := by simpa using hx
            rw [hxc, hts] at hu; cases hu
            exact ⟨l.merge c, List.mem_cons_self, hmts⟩
      · -- a new bucket
        have hstep : resampleStep tf (l :: r) c = { c with ts := some (label tf t) } :: l :: r := by
          simp [resampleStep, hts, hl]
        have hnone : bucketGroup tf P (label tf t) = [] := by
          unfold bucketGroup
          rw [List.filter_eq_nil_iff]
          intro x hx hd
          have hd' : x.ts.map (label tf) = some (label tf t) := by simpa using hd
          have hmem : label tf t ∈ labels tf P := List.mem_filterMap.2 ⟨x, hx, hd'⟩
          have h1 : label tf t ≤ tl := le_getLast_of_pairwise _ hmonoP tl hlast _ hmem
          have h2 : tl ≤ label tf t := by
            unfold LabelsMono at hmono
            rw [labels_append] at hmono
            exact (List.pairwise_append.1 hmono).2.2 tl (List.mem_of_getLast? hlast) (label tf t)
              (by simp [labels, hts])
          exact hl (by rw [htl]; congr 1; omega)
        rw [hstep]
        refine ⟨?_, ?_⟩
        · intro b hbm
          rcases List.mem_cons.1 hbm with rfl | hbr
          · exact ⟨label tf t, rfl, by rw [hgL, hnone]; rfl⟩
          · obtain ⟨L, h1, h2⟩ := ih.bucket b hbr
            have hne : L ≠ label tf t := by
              intro he; rw [he, hnone] at h2; cases h2
            exact ⟨L, h1, by rw [hgN L hne]; exact h2⟩
        · intro x hx u hu
          rcases List.mem_append.1 hx with hx | hx
          · obtain ⟨b, hbm, hbt⟩ := ih.covered x hx u hu
            exact ⟨b, List.mem_cons_of_mem _ hbm, hbt⟩
          · have hxc : x = c := by simpa using hx
            rw [hxc, hts] at hu; cases hu
            exact ⟨_, List.mem_cons_self, rfl⟩

theorem groupInv_resampleR (tf : Int) (htf : 0 < tf) :
    ∀ (ys : List (Candle F)), (∀ x ∈ ys, CleanOk tf x) → LabelsMono tf ys.reverse →
      GroupInv tf ys.reverse (resampleR tf ys.reverse) := by
  intro ys
  induction ys with
  | nil => intro _ _; exact ⟨by simp [resampleR], by simp⟩
  | cons y ys ih =>
    intro hclean hmono
    simp only [List.reverse_cons] at hmono ⊢
    have hmonoP : LabelsMono tf ys.reverse := by
      unfold LabelsMono at hmono ⊢
      rw [labels_append] at hmono
      exact (List.pairwise_append.1 hmono).1
    rw [resampleR_snoc]
    exact groupInv_step tf htf ys.reverse y (fun x hx => hclean x (by simp [List.mem_reverse.1 hx])) hmono
      (ih (fun x hx => hclean x (by simp [hx])) hmonoP)

/-- **The buckets of the resampling, exactly**: every bucket is its group folded by `merge`, and
every stamped raw candle has its bucket. -/
theorem resample_groups (tf : Int) (htf : 0 < tf) (xs : List (Candle F)) (h : RawR xs) :
    (∀ b ∈ resample tf xs, ∃ L, b.ts = some L ∧ bucketOf L (bucketGroup tf xs L) = some b) ∧
    (∀ c ∈ xs, ∀ t, c.ts = some t → ∃ b ∈ resample tf xs, b.ts = some (label tf t)) := by
  have := groupInv_resampleR tf htf xs.reverse
    (fun x hx => h.cleanOk tf x (List.mem_reverse.1 hx)) (by simpa using h.labelsMono tf htf)
  simp only [List.reverse_reverse] at this
  refine ⟨fun b hb => this.bucket b (List.mem_reverse.1 hb), ?_⟩
  intro c hc t ht
  obtain ⟨b, hb, hbt⟩ := this.covered c hc t ht
  exact ⟨b, List.mem_reverse.2 hb, hbt⟩

/-! ### entries -/

theorem merge_noEntries (a b : Candle F) : (a.merge b).inds = [] ∧ (a.merge b).subs = [] := by
  simp [Candle.merge, Candle.reset]

theorem foldl_merge_noEntries (g : List (Candle F)) (hg : g ≠ []) (a : Candle F) :
    (g.foldl Candle.merge a).inds = [] ∧ (g.foldl Candle.merge a).subs = [] := by
  rcases List.eq_nil_or_concat g with rfl | ⟨g', y, rfl⟩
  · exact absurd rfl hg
  · simp only [List.concat_eq_append, List.foldl_append, List.foldl_cons, List.foldl_nil]
    exact merge_noEntries _ _

/-- the entry rule, as a predicate of a candle `z` stamped `L` and the group of raw candles of
bucket `L` -/
def EntryRule (L : Int) (z : Candle F) : List (Candle F) → Prop
  | [] => (∃ p, z = fillCandle p L) ∧ z.inds = [] ∧ z.subs = []
  | [c] => z = { c with ts := some L }
  | c :: d :: g => z = (d :: g).foldl Candle.merge { c with ts := some L } ∧ z.inds = [] ∧ z.subs = []

theorem entryRule_of_bucketOf (L : Int) (z : Candle F) (g : List (Candle F)) (h : bucketOf L g = some z) :
    EntryRule L z g := by
  cases g with
  | nil => cases h
  | cons c g' =>
    cases g' with
    | nil => simp only [bucketOf, List.foldl_nil, Option.some.injEq] at h; exact h.symm
    | cons d g'' =>
      simp only [bucketOf, Option.some.injEq] at h
      refine ⟨h.symm, ?_⟩
      rw [← h]; exact foldl_merge_noEntries (d :: g'') (by simp) _

/-- distinct members of an in-order bucket list have distinct stamps -/
theorem ts_inj_of_bucketed (tf : Int) (Z : List (Candle F)) (hZ : Bucketed tf Z) :
    ∀ a ∈ Z, ∀ b ∈ Z, a.ts = b.ts → a = b := by
  have hst := hZ.stamped
  have hinc := hZ.incr
  clear hZ
  induction Z with
  | nil => intro a ha; cases ha
  | cons x r ih =>
    obtain ⟨tx, htx, _⟩ := hst x (by simp)
    simp only [List.filterMap_cons, htx] at hinc
    obtain ⟨hlt, hr⟩ := List.pairwise_cons.1 hinc
    have ihr := ih (fun a ha => hst a (List.mem_cons_of_mem _ ha)) hr
    have key : ∀ b ∈ r, b.ts ≠ x.ts := by
      intro b hb he
      have : tx ∈ r.filterMap (·.ts) := List.mem_filterMap.2 ⟨b, hb, by rw [he, htx]⟩
      exact absurd (hlt tx this) (lt_irrefl tx)
    intro a ha b hb he
    rcases List.mem_cons.1 ha with hax | har
    · rcases List.mem_cons.1 hb with hbx | hbr
      · rw [hax, hbx]
      · rw [hax] at he; exact absurd he.symm (key b hbr)
    · rcases List.mem_cons.1 hb with hbx | hbr
      · rw [hbx] at he; exact absurd he (key a har)
      · exact ihr a har b hbr he

theorem FilledFrom.sublist {ys zs : List (Candle F)} (h : FilledFrom ys zs) : ys.Sublist zs := by
  induction h with
  | nil => exact List.Sublist.slnil
  | single a => exact List.Sublist.refl _
  | keep a b ys zs _ ih => exact List.Sublist.cons_cons a ih
  | fill a f ys zs _ _ ih =>
    exact List.Sublist.cons_cons a (List.Sublist.trans (List.sublist_cons_self f ys) ih)

/-- **Which candle keeps which entries, resampling without fill.** -/
theorem resample_entries (tf : Int) (htf : 0 < tf) (xs : List (Candle F)) (h : RawR xs)
    (z : Candle F) (hz : z ∈ resample tf xs) :
    ∃ L, z.ts = some L ∧ L % tf = 0 ∧ bucketGroup tf xs L ≠ [] ∧ EntryRule L z (bucketGroup tf xs L) := by
  obtain ⟨L, h1, h2⟩ := (resample_groups tf htf xs h).1 z hz
  obtain ⟨t, ht, hal⟩ := (h.bucketed_resample tf htf).stamped z hz
  rw [h1] at ht; cases ht
  refine ⟨L, h1, hal, ?_, entryRule_of_bucketOf L z _ h2⟩
  intro he; rw [he] at h2; cases h2

/-- **Which candle of the gap-filled resampling keeps which entries** (the candle is identified by
its stamp `L`, stamps being strictly increasing):
* no raw candle falls into bucket `L`: the candle is an inserted fill candle, no entries;
* exactly one raw candle `c` falls into bucket `L` (on the grid or not): the candle IS `c`
  re-stamped `L` – all entries of `c` kept (`inds`, `subs`, everything else too);
* two or more: the candle is the merge fold of the group, no entries. -/
theorem fillSpec_entries (tf : Int) (htf : 0 < tf) (xs : List (Candle F)) (h : RawR xs)
    (z : Candle F) (hz : z ∈ fillSpec tf xs) :
    ∃ L, z.ts = some L ∧ L % tf = 0 ∧ EntryRule L z (bucketGroup tf xs L) := by
  have hW := filledOfR_spec tf htf xs h
  rcases mem_fillMissing tf _ _ hW.eq z hz with h1 | ⟨p, u, rfl⟩
  · obtain ⟨L, a, b, _, d⟩ := resample_entries tf htf xs h z h1
    exact ⟨L, a, b, d⟩
  · obtain ⟨t, ht, hal⟩ := hW.bucketed.stamped _ hz
    have htu : t = u := by
      have : (fillCandle p u).ts = some u := rfl
      rw [this] at ht; exact (Option.some.inj ht).symm
    subst htu
    refine ⟨t, rfl, hal, ?_⟩
    cases hg : bucketGroup tf xs t with
    | nil => exact ⟨⟨p, rfl⟩, rfl, rfl⟩
    | cons c g =>
      -- then a real bucket is stamped `t` too, and the fill candle is that bucket
      obtain ⟨hcx, hcl⟩ := mem_bucketGroup (show c ∈ bucketGroup tf xs t by rw [hg]; simp)
      cases hct : c.ts with
      | none => rw [hct] at hcl; cases hcl
      | some tc =>
        rw [hct] at hcl
        simp only [Option.map_some, Option.some.injEq] at hcl
        obtain ⟨b, hb, hbt⟩ := (resample_groups tf htf xs h).2 c hcx tc hct
        rw [hcl] at hbt
        have hbz : b ∈ fillSpec tf xs := hW.filled.sublist.subset hb
        have hzb : fillCandle p t = b :=
          ts_inj_of_bucketed tf _ hW.bucketed _ hz _ hbz (by rw [hbt]; rfl)
        obtain ⟨L, a1, _, _, a4⟩ := resample_entries tf htf xs h b hb
        rw [hbt] at a1; cases a1
        rw [hzb, ← hg]; exact a4

/-- readable corollaries -/
theorem fillSpec_single_keeps (tf : Int) (htf : 0 < tf) (xs : List (Candle F)) (h : RawR xs)
    (z : Candle F) (hz : z ∈ fillSpec tf xs) (L : Int) (hL : z.ts = some L) (c : Candle F)
    (hg : bucketGroup tf xs L = [c]) :
    z = { c with ts := some L } ∧ z.inds = c.inds ∧ z.subs = c.subs := by
  obtain ⟨L', h1, _, h3⟩ := fillSpec_entries tf htf xs h z hz
  rw [hL] at h1; cases h1
  rw [hg] at h3
  have h3' : z = { c with ts := some L } := h3
  exact ⟨h3', by rw [h3'], by rw [h3']⟩

theorem fillSpec_other_none (tf : Int) (htf : 0 < tf) (xs : List (Candle F)) (h : RawR xs)
    (z : Candle F) (hz : z ∈ fillSpec tf xs) (L : Int) (hL : z.ts = some L)
    (hg : (bucketGroup tf xs L).length ≠ 1) : z.inds = [] ∧ z.subs = [] := by
  obtain ⟨L', h1, _, h3⟩ := fillSpec_entries tf htf xs h z hz
  rw [hL] at h1; cases h1
  cases hgr : bucketGroup tf xs L with
  | nil => rw [hgr] at h3; exact h3.2
  | cons c g =>
    cases g with
    | nil => rw [hgr] at hg; simp at hg
    | cons d g' => rw [hgr] at h3; exact h3.2

/-! ### non-vacuity over `Int` (the stream of `FillReadings.lean`) -/

example : (bucketGroup 60 readingsDemo 120).length = 2 ∧ (bucketGroup 60 readingsDemo 180).length = 0 ∧
    (bucketGroup 60 readingsDemo 300).length = 1 ∧ (bucketGroup 60 readingsDemo 360).length = 1 := by
  decide +kernel

/-- the off-grid single candle of bucket 300 keeps `"X" ↦ 5` and its sub entry, the on-grid single
candle of bucket 360 keeps `"X" ↦ 5`; the merged bucket 120 and the inserted 180, 240 carry none -/
example : (fillSpec 60 readingsDemo).map showC
    = [ ⟨some 120, 30, [], []⟩, ⟨some 180, 0, [], []⟩, ⟨some 240, 0, [], []⟩,
        ⟨some 300, 5, [("X", some 5)], [("Y", some 7)]⟩, ⟨some 360, 3, [("X", some 5)], []⟩,
        ⟨some 420, 1, [], []⟩ ] := by
  decide +kernel

end Hex

#print axioms Hex.resample_groups
#print axioms Hex.resample_entries
#print axioms Hex.fillSpec_entries
#print axioms Hex.fillSpec_single_keeps
#print axioms Hex.fillSpec_other_none

import HexProofs.Manager2.TwinSched
import HexProofs.Lib.IntInst
/-
The lifespan-trimmed indicator next to its untrimmed twin over a WHOLE append schedule, for an
arbitrary look-back `L ≥ 1` (`RetainsFrom L`): generalisation of ShiftLoop.lean / TwinSched.lean
(`ShiftOK`, `leafLoop_drop`, `leafCalc_drop`, `append_trimmed_state`, `twin_appends`,
`twin_schedule`, all with ONE retained predecessor) to `L` retained predecessors, and its
instances for the windowed leaf kinds SMA, ROC (`L = max 1 p`), WMA, VWMA and EMA / RMA WITHOUT
a seededness assumption (`L = max 1 (p - 1)`: the start-up window is retained).
-/
namespace Hex
set_option linter.unusedSectionVars false
variable {F : Type} [PyF F]

/-! ### the shift contract of a leaf with look-back `L` -/

/-- what the loop needs from a kind: a state condition `P cs k` ("about to compute index `k`")
under which the reading at `k` is invariant under popping `d` leading candles as long as `L`
predecessors of `k` are retained (`d + L ≤ k`), and which a computation step re-establishes for
`k + 1`.  (`ShiftOK` is the case `L = 1`: `ShiftOK.toW`.) -/
structure ShiftOKW (ind : Ind F) (L : Nat) where
  P : List (Candle F) → Nat → Prop
  hL : 1 ≤ L
  shift : ∀ (cs : List (Candle F)) (k d : Nat), P cs k → d + L ≤ k → k < cs.length →
    readKind ind.kind { cs := cs.drop d, i := (k : Int) - d, name := ind.name }
      = readKind ind.kind { cs := cs, i := k, name := ind.name }
  step : ∀ (cs : List (Candle F)) (k : Nat) (c : Candle F) (v : Val F), P cs k → cs[k]? = some c → Plain c →
    readKind ind.kind { cs := cs, i := k, name := ind.name } = .ok v →
    P (cs.modify k (setKey ind.isSub ind.name (v.roundBy ind.round))) (k + 1)

/-- the one-predecessor contract is the case `L = 1` -/
def ShiftOK.toW {ind : Ind F} (S : ShiftOK ind) : ShiftOKW ind 1 where
  P := S.P
  hL := le_refl 1
  shift := fun cs k d hP hd hk => S.shift cs k d hP hd hk
  step := S.step

/-- retaining more never hurts -/
def ShiftOKW.mono {ind : Ind F} {L L' : Nat} (S : ShiftOKW ind L) (h : L ≤ L') : ShiftOKW ind L' where
  P := S.P
  hL := le_trans S.hL h
  shift := fun cs k d hP hd hk => S.shift cs k d hP (by omega) hk
  step := S.step

/-- kinds without a state condition -/
def ShiftOKW.ofUncond (ind : Ind F) (L : Nat) (hL : 1 ≤ L)
    (h : ∀ (x : Ctx F) (d : Nat), (d : Int) + L ≤ x.i → x.i < x.cs.length →
      readKind ind.kind (x.shift d) = readKind ind.kind x) : ShiftOKW ind L where
  P := fun _ _ => True
  hL := hL
  shift := by
    intro cs k d _ hd hk
    exact h { cs := cs, i := k, name := ind.name } d (by simp only; omega) (by simp only; omega)
  step := fun _ _ _ _ _ _ _ _ => trivial

/-! ### the loop on a popped list -/

/-- **The calculation loop commutes with popping `d` leading candles**, from an index `k` whose `L`
predecessors are retained, over raw candles -/
theorem leafLoop_dropW (ind : Ind F) {L : Nat} (S : ShiftOKW ind L) (d : Nat) :
    ∀ (n : Nat) (cs : List (Candle F)) (k : Nat), d + L ≤ k → k + n = cs.length →
      (∀ j c, k ≤ j → cs[j]? = some c → Plain c) → S.P cs k →
      leafLoop ind (cs.drop d) (k - d) n = (leafLoop ind cs k n).map (·.drop d) := by
  have hL := S.hL
  intro n
  induction n with
  | zero => intro cs k _ _ _ _; rfl
  | succ n ih =>
    intro cs k hd hlen hplain hP
    have hk : k < cs.length := by omega
    obtain ⟨c, hc⟩ : ∃ c, cs[k]? = some c := ⟨cs[k], List.getElem?_eq_getElem hk⟩
    have hcp : Plain c := hplain k c (le_refl k) hc
    have hcast : (((k - d : Nat)) : Int) = (k : Int) - d := by omega
    have hkd : k - d < (cs.drop d).length := by rw [List.length_drop]; omega
    rw [leafLoop, leafLoop]
    have hidx : pyIndex (cs.drop d) ((k - d : Nat) : Int) = .ok c := by
      rw [hcast, pyIndex_drop cs d k (by omega)]; exact pyIndex_nat cs k c hc
    rw [hidx, pyIndex_nat cs k c hc]
    simp only [bind, Except.bind, present_plain ind.name c hcp, Bool.false_eq_true, if_false]
    rw [stepLeaf_nat ind _ _ hkd, stepLeaf_nat ind cs k hk, hcast, S.shift cs k d hP hd hk]
    cases hv : readKind ind.kind { cs := cs, i := (k : Int), name := ind.name } with
    | error e => rfl
    | ok v =>
      simp only [bind, Except.bind, pure, Except.pure]
      have hmod : (cs.drop d).modify (k - d) (setKey ind.isSub ind.name (v.roundBy ind.round))
          = (cs.modify k (setKey ind.isSub ind.name (v.roundBy ind.round))).drop d :=
        (List.drop_modify_of_ge _ k d cs (by omega)).symm
      rw [hmod]
      have := ih (cs.modify k (setKey ind.isSub ind.name (v.roundBy ind.round))) (k + 1) (by omega)
        (by rw [List.length_modify]; omega)
        (by
          intro j c' hj hc'
          rw [List.getElem?_modify] at hc'
          have hne : ¬ k = j := by omega
          simp only [hne, if_false] at hc'
          cases hq : cs[j]? with
          | none => rw [hq] at hc'; cases hc'
          | some q =>
            rw [hq] at hc'
            have : q = c' := by simpa using hc'
            subst this
            exact hplain j q (by omega) hq)
        (S.step cs k c v hP hc hcp hv)
      rw [show k + 1 - d = k - d + 1 by omega] at this
      exact this

/-- **`calculate()` commutes with popping `d` leading candles** when `L` finished candles survive:
`_find_calc_index` resumes at the first raw candle on both sides, and every raw candle has its `L`
predecessors -/
theorem leafCalc_dropW (ind : Ind F) {L : Nat} (S : ShiftOKW ind L) (a new : List (Candle F)) (d : Nat)
    (hfin : ∀ c ∈ a, hasKey ind.name c = true) (hnew : ∀ c ∈ new, Plain c)
    (hkeep : d + L ≤ a.length) (hP : S.P (a ++ new) a.length) :
    leafCalc ind ((a ++ new).drop d) = (leafCalc ind (a ++ new)).map (·.drop d) := by
  have hL := S.hL
  have hfresh : ∀ c ∈ new, hasKey ind.name c = false := fun c hc => hasKey_plain ind.name c (hnew c hc)
  have hdrop : (a ++ new).drop d = a.drop d ++ new := List.drop_append_of_le_length (by omega)
  have hfinD : ∀ c ∈ a.drop d, hasKey ind.name c = true := fun c hc => hfin c (List.mem_of_mem_drop hc)
  have hidxA := findCalcIndex_split ind.name a new hfin hfresh
  have hidxB := findCalcIndex_split ind.name (a.drop d) new hfinD hfresh
  unfold leafCalc
  rw [hdrop, hidxA, hidxB, ← hdrop]
  have e1 : ((a ++ new).drop d).length - (a.drop d).length = new.length := by
    simp only [List.length_drop, List.length_append]; omega
  have e2 : (a ++ new).length - a.length = new.length := by simp
  rw [e1, e2, List.length_drop]
  refine leafLoop_dropW ind S d new.length (a ++ new) a.length hkeep (by simp) ?_ hP
  intro j c hj hc
  rw [List.getElem?_append_right hj] at hc
  exact hnew c (List.mem_of_getElem? hc)

/-- what must survive the pop for `calculate()` to compute the same readings: nothing was popped,
or `L` finished candles (the look-back of the first new candle) are retained -/
def KeepOKW (L : Nat) (a : List (Candle F)) (d : Nat) : Prop := d = 0 ∨ d + L ≤ a.length

theorem keepOKW_one (a : List (Candle F)) (d : Nat) : KeepOKW 1 a d ↔ KeepOK a d := Iff.rfl

theorem leafCalc_drop_keepW (ind : Ind F) {L : Nat} (S : ShiftOKW ind L) (a new : List (Candle F)) (d : Nat)
    (hfin : ∀ c ∈ a, hasKey ind.name c = true) (hnew : ∀ c ∈ new, Plain c)
    (hkeep : KeepOKW L a d) (hP : S.P (a ++ new) a.length) :
    leafCalc ind ((a ++ new).drop d) = (leafCalc ind (a ++ new)).map (·.drop d) := by
  rcases hkeep with h0 | h1
  · subst h0
    simp only [List.drop_zero]
    cases leafCalc ind (a ++ new) <;> simp [Except.map]
  · exact leafCalc_dropW ind S a new d hfin hnew h1 hP

/-! ### one append, as a statement about the whole object -/

theorem append_trimmed_stateW (ind : Ind F) (hl : IsLeaf ind) {L : Nat} (S : ShiftOKW ind L) (life : Int)
    (a new r : List (Candle F)) (d₀ : Nat) (actB : Int) (hd₀ : d₀ ≤ a.length)
    (hfin : ∀ c ∈ a, hasKey ind.name c = true) (hnew : ∀ c ∈ new, Plain c) (hne : new ≠ [])
    (htrim : trimCandles (some life) (a.drop d₀ ++ new) = .ok r)
    (hkeep : KeepOKW L a (a.length + new.length - r.length)) (hP : S.P (a ++ new) a.length) :
    ∃ act' : Int,
      IndState.append ({ tree := ind, mgr := { cfg := cfgLifeOnly life, candles := a.drop d₀ }, active := actB } : IndState F) new
        = (leafCalc ind (a ++ new)).map (fun cs =>
            ({ tree := ind, mgr := { cfg := cfgLifeOnly life, candles := cs.drop (a.length + new.length - r.length) },
               active := act' } : IndState F)) := by
  obtain ⟨m, hr, hm⟩ := trim_is_drop _ _ _ htrim
  have hab : a.drop d₀ ++ new = (a ++ new).drop d₀ := (List.drop_append_of_le_length hd₀).symm
  have hr' : r = (a ++ new).drop (d₀ + m) := by rw [hr, hab, List.drop_drop]
  have hrl : r.length = a.length + new.length - (d₀ + m) := by rw [hr']; simp
  have hml : m ≤ (a.drop d₀ ++ new).length := hm
  rw [List.length_append, List.length_drop] at hml
  have hd : a.length + new.length - r.length = d₀ + m := by omega
  rw [hd] at hkeep
  have hempty : new.isEmpty = false := by cases new <;> simp at hne ⊢
  have hB : IndState.append ({ tree := ind, mgr := { cfg := cfgLifeOnly life, candles := a.drop d₀ }, active := actB } : IndState F) new
      = IndState.calculate { tree := ind, mgr := { cfg := cfgLifeOnly life, candles := r }, active := actB } := by
    unfold IndState.append Manager.append
    simp only [hempty, Bool.false_eq_true, if_false, tasks_lifeOnly, htrim, bind, Except.bind]
    rfl
  refine ⟨if findCalcIndex ind.name r < r.length then (r.length : Int) - 1 else actB, ?_⟩
  rw [hB, IndState.calculate_leaf _ hl, hd]
  simp only
  rw [hr', leafCalc_drop_keepW ind S a new (d₀ + m) hfin hnew hkeep hP]
  cases leafCalc ind (a ++ new) <;> rfl

/-- the same next to the untrimmed twin (generalisation of `append_trimmed`) -/
theorem append_trimmedW (ind : Ind F) (hl : IsLeaf ind) {L : Nat} (S : ShiftOKW ind L) (life : Int)
    (a new r : List (Candle F)) (d₀ : Nat) (actA actB : Int) (hd₀ : d₀ ≤ a.length)
    (hfin : ∀ c ∈ a, hasKey ind.name c = true) (hnew : ∀ c ∈ new, Plain c) (hne : new ≠ [])
    (htrim : trimCandles (some life) (a.drop d₀ ++ new) = .ok r)
    (hkeep : KeepOKW L a (a.length + new.length - r.length)) (hP : S.P (a ++ new) a.length) :
    candlesOf (IndState.append ({ tree := ind, mgr := { cfg := cfgLifeOnly life, candles := a.drop d₀ }, active := actB } : IndState F) new)
      = (candlesOf (IndState.append ({ tree := ind, mgr := { cfg := {}, candles := a }, active := actA } : IndState F)
          new)).map (·.drop (a.length + new.length - r.length)) := by
  obtain ⟨act', hB⟩ := append_trimmed_stateW ind hl S life a new r d₀ actB hd₀ hfin hnew hne htrim hkeep hP
  have hA : IndState.append ({ tree := ind, mgr := { cfg := {}, candles := a }, active := actA } : IndState F) new
      = IndState.calculate { tree := ind, mgr := { cfg := {}, candles := a ++ new }, active := actA } := by
    unfold IndState.append
    simp only [Manager.append_default, bind, Except.bind]
  rw [hA, hB, IndState.calculate_leaf _ hl]
  simp only
  cases leafCalc ind (a ++ new) <;> rfl

/-! ### the schedule -/

/-- **The trimmed indicator follows its untrimmed twin through every append** (look-back `L`).
`a` is the row-major run over the stream `s` so far, the trimmed indicator holds `a.drop d`, the raw
lifespan manager would hold `s.drop d`. -/
theorem twin_appendsW (ind : Ind F) (hl : IsLeaf ind) (K : Contract ind) {L : Nat} (S : ShiftOKW ind L)
    (Q : List (Candle F) → Prop) (hQP : ∀ a ch, Q a → ch ≠ [] → S.P (a ++ ch) a.length)
    (hQstep : ∀ a ch a', Q a → (∀ c ∈ ch, Plain c) → rowMajorFrom ind a ch = .ok a' → Q a')
    (life : Int) (chunks : List (List (Candle F))) :
    ∀ (s a : List (Candle F)) (d : Nat) (actB : Int), rowMajor ind s = .ok a → (∀ c ∈ s, Plain c) →
      (∀ c ∈ chunks.flatten, Plain c) → d ≤ a.length → Q a →
      RetainsFrom L life (s.drop d) s.length chunks →
      ∃ d', candlesOf (chunks.foldlM (fun (st : IndState F) ch => st.append ch)
              { tree := ind, mgr := { cfg := cfgLifeOnly life, candles := a.drop d }, active := actB })
            = (rowMajorFrom ind a chunks.flatten).map (·.drop d') := by
  induction chunks with
  | nil =>
    intro s a d actB _ _ _ _ _ _
    exact ⟨d, rfl⟩
  | cons ch rest ih =>
    intro s a d actB h hps hpc hd hQ hret
    have hpch : ∀ c ∈ ch, Plain c := fun c hc => hpc c (by simp [hc])
    have hprest : ∀ c ∈ rest.flatten, Plain c := fun c hc => hpc c (by
      simp only [List.flatten_cons, List.mem_append]; exact Or.inr hc)
    have hdec := rowMajor_shape ind s a h
    have hlen : s.length = a.length := hdec.length_eq
    simp only [List.foldlM_cons, List.flatten_cons]
    rcases hret with ⟨hce, hret⟩ | ⟨hne, m', htrim, hcount, hret⟩
    · -- empty chunk: `append` only calls `calculate()`, which leaves a finished list alone
      subst hce
      have hcalc : leafCalc ind (a.drop d) = .ok (a.drop d) :=
        leafCalc_finished ind (a.drop d) (fun c hc => hdec.hasKey c (List.mem_of_mem_drop hc))
      have hA : IndState.append ({ tree := ind, mgr := { cfg := cfgLifeOnly life, candles := a.drop d }, active := actB } : IndState F) []
          = .ok { tree := ind, mgr := { cfg := cfgLifeOnly life, candles := a.drop d },
                  active := if findCalcIndex ind.name (a.drop d) < (a.drop d).length
                    then ((a.drop d).length : Int) - 1 else actB } := by
        have : IndState.append ({ tree := ind, mgr := { cfg := cfgLifeOnly life, candles := a.drop d }, active := actB } : IndState F) []
            = IndState.calculate { tree := ind, mgr := { cfg := cfgLifeOnly life, candles := a.drop d }, active := actB } := by
          simp [IndState.append, Manager.append, bind, Except.bind]
        rw [this, IndState.calculate_leaf _ hl]
        simp only [hcalc, bind, Except.bind, pure, Except.pure]
      rw [hA]
      simp only [bind, Except.bind, List.nil_append]
      exact ih s a d _ h hps hprest hd hQ hret
    · -- a real append
      have hts : (a.drop d ++ ch).map (·.ts) = (s.drop d ++ ch).map (·.ts) := by
        simp only [List.map_append, List.map_drop, hdec.ts_eq]
      obtain ⟨hm', hm'len, htrimB⟩ := trim_congr_ts life (s.drop d ++ ch) (a.drop d ++ ch) m' hts htrim
      have hl1 : (s.drop d ++ ch).length = a.length - d + ch.length := by simp [hlen]
      have hl2 : (a.drop d ++ ch).length = a.length - d + ch.length := by simp
      have hrlen : ((a.drop d ++ ch).drop ((s.drop d ++ ch).length - m'.length)).length = m'.length := by
        rw [List.length_drop, hl1, hl2]; omega
      have hD : a.length + ch.length - ((a.drop d ++ ch).drop ((s.drop d ++ ch).length - m'.length)).length
          = d + ((s.drop d ++ ch).length - m'.length) := by rw [hrlen, hl1]; omega
      have hkeep : KeepOKW L a
          (a.length + ch.length - ((a.drop d ++ ch).drop ((s.drop d ++ ch).length - m'.length)).length) := by
        rw [hrlen]
        rcases hcount with hc | hc
        · exact Or.inl (by omega)
        · exact Or.inr (by omega)
      obtain ⟨act', happ⟩ := append_trimmed_stateW ind hl S life a ch _ d actB hd hdec.hasKey hpch hne htrimB
        hkeep (hQP a ch hQ hne)
      rw [happ, leafCalc_refines ind K s ch a h hps hpch, rowMajorFrom_append]
      have hsplit : rowMajor ind (s ++ ch) = rowMajorFrom ind a ch := by rw [rowMajor_append, h]; rfl
      rw [hsplit]
      cases hr : rowMajorFrom ind a ch with
      | error e => exact ⟨0, rfl⟩
      | ok a' =>
        simp only [Except.map, bind, Except.bind]
        have hra' : rowMajor ind (s ++ ch) = .ok a' := by rw [hsplit, hr]
        have hlen' : a'.length = a.length + ch.length := by
          rw [← (rowMajor_shape ind _ a' hra').length_eq]; simp [hlen]
        rw [hD]
        have hm'eq : m' = (s ++ ch).drop (d + ((s.drop d ++ ch).length - m'.length)) := by
          conv_lhs => rw [hm']
          rw [← List.drop_drop, List.drop_append_of_le_length (by omega : d ≤ s.length)]
        have := ih (s ++ ch) a' (d + ((s.drop d ++ ch).length - m'.length)) act' hra'
          (fun c hc => by rcases List.mem_append.1 hc with h1 | h1; exact hps c h1; exact hpch c h1)
          hprest
          (by rw [hlen', hl1]; omega)
          (hQstep a ch a' hQ hpch hr)
          (by rw [← hm'eq, List.length_append]; exact hret)
        exact this

/-- **Whole schedule** (construction, `calculate()`, appends), look-back `L`: if the lifespan
manager pops nothing at construction and `RetainsFrom L` holds for the appends, the trimmed
indicator ends with the candles of the untrimmed one minus the popped ones (same readings, same
exception). -/
theorem twin_scheduleW (ind : Ind F) (hl : IsLeaf ind) (K : Contract ind) {L : Nat} (S : ShiftOKW ind L)
    (Q : List (Candle F) → Prop) (hQP : ∀ a ch, Q a → ch ≠ [] → S.P (a ++ ch) a.length)
    (hQstep : ∀ a ch a', Q a → (∀ c ∈ ch, Plain c) → rowMajorFrom ind a ch = .ok a' → Q a')
    (life : Int) (init : List (Candle F)) (chunks : List (List (Candle F)))
    (hp : ∀ c ∈ init ++ chunks.flatten, Plain c)
    (hinit : trimCandles (some life) init = .ok init)
    (hQ0 : ∀ a, rowMajor ind init = .ok a → Q a)
    (hret : RetainsFrom L life init init.length chunks) :
    ∃ d, candlesOf (runIndicator ind (cfgLifeOnly life) init chunks)
        = (candlesOf (runIndicator ind {} init chunks)).map (·.drop d) := by
  have hpi : ∀ c ∈ init, Plain c := fun c hc => hp c (by simp [hc])
  have hpc : ∀ c ∈ chunks.flatten, Plain c := fun c hc => hp c (List.mem_append.2 (Or.inr hc))
  rw [runIndicator_refines ind hl K init chunks hp, rowMajor_append]
  unfold runIndicator IndState.init Manager.init
  rw [tasks_lifeOnly, hinit]
  simp only [bind, Except.bind, pure, Except.pure]
  rw [IndState.calculate_leaf _ hl]
  have h0 : rowMajor ind ([] : List (Candle F)) = .ok [] := rfl
  have href := leafCalc_refines ind K [] init [] h0 (by simp) hpi
  simp only [List.nil_append] at href
  simp only [href]
  cases hr : rowMajor ind init with
  | error e => exact ⟨0, rfl⟩
  | ok a =>
    simp only [bind, Except.bind, pure, Except.pure]
    have := twin_appendsW ind hl K S Q hQP hQstep life chunks init a 0
      (if findCalcIndex ind.name init < init.length then (init.length : Int) - 1 else 0) hr hpi hpc (Nat.zero_le _)
      (hQ0 a hr) (by simpa using hret)
    simpa using this

/-- the schedule theorem for a kind without a state condition -/
theorem twin_schedule_uncond (ind : Ind F) (hl : IsLeaf ind) (K : Contract ind) (L : Nat) (hL : 1 ≤ L)
    (h : ∀ (x : Ctx F) (d : Nat), (d : Int) + L ≤ x.i → x.i < x.cs.length →
      readKind ind.kind (x.shift d) = readKind ind.kind x)
    (life : Int) (init : List (Candle F)) (chunks : List (List (Candle F)))
    (hp : ∀ c ∈ init ++ chunks.flatten, Plain c)
    (hinit : trimCandles (some life) init = .ok init)
    (hret : RetainsFrom L life init init.length chunks) :
    ∃ d, candlesOf (runIndicator ind (cfgLifeOnly life) init chunks)
        = (candlesOf (runIndicator ind {} init chunks)).map (·.drop d) :=
  twin_scheduleW ind hl K (ShiftOKW.ofUncond ind L hL h) (fun _ => True) (fun _ _ _ _ => trivial)
    (fun _ _ _ _ _ _ => trivial) life init chunks hp hinit (fun _ _ => trivial) hret

/-! ### shift invariance of the windowed kinds (whole look-back retained) -/

theorem mapM_zipIdx_map_congr {α γ β : Type} (l : List α) (u v : α → γ) (f g : γ × Nat → PyM β)
    (h : ∀ a ∈ l, ∀ n, f (u a, n) = g (v a, n)) (n0 : Nat) :
    ((l.map u).zipIdx n0).mapM f = ((l.map v).zipIdx n0).mapM g := by
  induction l generalizing n0 with
  | nil => rfl
  | cons a r ih =>
    simp only [List.map_cons, List.zipIdx_cons, List.mapM_cons]
    rw [h a (by simp) n0, ih (fun x hx => h x (by simp [hx]))]

theorem mapM_map_congr {α γ β : Type} (l : List α) (u v : α → γ) (f g : γ → PyM β)
    (h : ∀ a ∈ l, f (u a) = g (v a)) : (l.map u).mapM f = (l.map v).mapM g := by
  induction l with
  | nil => rfl
  | cons a r ih =>
    simp only [List.map_cons, List.mapM_cons]
    rw [h a (by simp), ih (fun x hx => h x (by simp [hx]))]

/-- WMA reads the `period` inputs ending at the current index: shift-invariant when the other
`period - 1` (at least one) are retained -/
theorem wma_shift_window (x : Ctx F) (d : Nat) (p : Int) (input : String) (hp : 1 ≤ p)
    (hd : (d : Int) + 1 ≤ x.i) (hi : x.i < x.cs.length) (hw : (d : Int) + p ≤ x.i + 1) :
    Calc.wma (x.shift d) p input = Calc.wma x p input := by
  unfold Calc.wma
  simp only [Ctx.shift_name, Ctx.shift_i, Ctx.prevExists_shift x d _ hd hi,
    Ctx.readingPeriod_shift x d p _ hp hw]
  cases hpe : x.prevExists x.name with
  | error e => rfl
  | ok b =>
    simp only [bind, Except.bind]
    by_cases hg : (b || x.readingPeriod p input) = true
    · simp only [hg, if_true]
      congr 1
      unfold pyRangeDown
      rw [show x.i - (d : Int) - (x.i - (d : Int) - p) = x.i - (x.i - p) by omega]
      apply mapM_zipIdx_map_congr
      intro k hk n
      rw [List.mem_range] at hk
      show (do let r ← (x.shift d).num input (some (x.i - (d : Int) - (k : Int))); _) = _
      rw [show x.i - (d : Int) - (k : Int) = (x.i - (k : Int)) - d by omega,
        Ctx.num_shift x d input (x.i - (k : Int)) (by omega)]
      rfl
    · simp only [hg, Bool.false_eq_true, if_false]

/-- VWMA reads the `period` closes / volumes ending at the current index -/
theorem vwma_shift_window (x : Ctx F) (d : Nat) (p : Int) (hp : 1 ≤ p)
    (hd : (d : Int) + 1 ≤ x.i) (hi : x.i < x.cs.length) (hw : (d : Int) + p ≤ x.i + 1) :
    Calc.vwma (x.shift d) p = Calc.vwma x p := by
  unfold Calc.vwma
  simp only [Ctx.shift_name, Ctx.shift_i, Ctx.prevExists_shift x d _ hd hi,
    Ctx.readingPeriod_shift x d p _ hp hw,
    Ctx.candlesSum_shift x d p "volume" hd hi (by omega) hw,
    Ctx.candlesSum_shift x d p "close" hd hi (by omega) hw]
  cases hpe : x.prevExists x.name with
  | error e => rfl
  | ok b =>
    simp only [bind, Except.bind]
    by_cases hg : (b || x.readingPeriod p "close") = true
    · simp only [hg, if_true]
      congr 1
      unfold pyRange
      rw [show x.i - (d : Int) + 1 - (x.i - (d : Int) - (p - 1)) = x.i + 1 - (x.i - (p - 1)) by omega]
      apply mapM_map_congr
      intro k hk
      rw [List.mem_range] at hk
      rw [show x.i - (d : Int) - (p - 1) + (k : Int) = (x.i - (p - 1) + (k : Int)) - d by omega,
        Ctx.num_shift x d "close" (x.i - (p - 1) + (k : Int)) (by omega),
        Ctx.num_shift x d "volume" (x.i - (p - 1) + (k : Int)) (by omega)]
    · simp only [hg, Bool.false_eq_true, if_false]

/-- RMA in general (seed: weighted sum over the `period` inputs ending at the current index) -/
theorem rma_shift_window (x : Ctx F) (d : Nat) (p : Int) (input : String) (hp : 1 ≤ p)
    (hd : (d : Int) + 1 ≤ x.i) (hi : x.i < x.cs.length) (hw : (d : Int) + p ≤ x.i + 1) :
    Calc.rma (x.shift d) p input = Calc.rma x p input := by
  unfold Calc.rma
  simp only [Ctx.shift_name, Ctx.shift_i, Ctx.prevExists_shift x d _ hd hi,
    Ctx.num_shift_cur x d _ (by omega : (d : Int) ≤ x.i), Ctx.prevNum_shift x d _ hd hi,
    Ctx.readingPeriod_shift x d p _ hp hw]
  cases (fl 1 : Num F).truediv (.int p) with
  | error e => rfl
  | ok al =>
    simp only [bind, Except.bind]
    cases hpe : x.prevExists x.name with
    | error e => rfl
    | ok b =>
      cases b with
      | true => rfl
      | false =>
        simp only [Bool.false_eq_true, if_false]
        by_cases hrp : x.readingPeriod p input = true
        · simp only [hrp, if_true]
          congr 1
          unfold pyRangeDown
          rw [show x.i - (d : Int) - (x.i - (d : Int) - p) = x.i - (x.i - p) by omega]
          apply mapM_zipIdx_map_congr
          intro k hk n
          rw [List.mem_range] at hk
          show (do let r ← (x.shift d).num input (some (x.i - (d : Int) - (k : Int))); _) = _
          rw [show x.i - (d : Int) - (k : Int) = (x.i - (k : Int)) - d by omega,
            Ctx.num_shift x d input (x.i - (k : Int)) (by omega)]
          rfl
        · simp only [hrp, Bool.false_eq_true, if_false]

/-! ### `ShiftOKW` instances of the windowed kinds (no state condition is needed once the whole
look-back is retained) -/

/-- SMA: `max 1 period` predecessors (the running update reads `index - period`) -/
def smaShiftOKW (ind : Ind F) (p : Int) (input : String) (hk : ind.kind = .sma p input) (hp : 1 ≤ p) :
    ShiftOKW ind (max 1 p.toNat) :=
  ShiftOKW.ofUncond ind _ (by omega) (by
    intro x d hd hi
    rw [hk]
    exact sma_shift_window x d p input hp hi (by omega))

/-- ROC: `max 1 period` predecessors (reads `index - period`) -/
def rocShiftOKW (ind : Ind F) (p : Int) (input : String) (hk : ind.kind = .roc p input) (hp : 0 ≤ p) :
    ShiftOKW ind (max 1 p.toNat) :=
  ShiftOKW.ofUncond ind _ (by omega) (by
    intro x d hd hi
    rw [hk]
    exact roc_shift_window x d p input hp hi (by omega) (by omega))

/-- WMA: `max 1 (period - 1)` predecessors -/
def wmaShiftOKW (ind : Ind F) (p : Int) (input : String) (hk : ind.kind = .wma p input) (hp : 1 ≤ p) :
    ShiftOKW ind (max 1 (p - 1).toNat) :=
  ShiftOKW.ofUncond ind _ (by omega) (by
    intro x d hd hi
    rw [hk]
    exact wma_shift_window x d p input hp (by omega) hi (by omega))

/-- VWMA: `max 1 (period - 1)` predecessors -/
def vwmaShiftOKW (ind : Ind F) (p : Int) (hk : ind.kind = .vwma p) (hp : 1 ≤ p) :
    ShiftOKW ind (max 1 (p - 1).toNat) :=
  ShiftOKW.ofUncond ind _ (by omega) (by
    intro x d hd hi
    rw [hk]
    exact vwma_shift_window x d p hp (by omega) hi (by omega))

/-- EMA, seeded or not: `max 1 (period - 1)` predecessors (the start-up window) -/
def emaShiftOKW (ind : Ind F) (p : Int) (input : String) (sm : Num F) (hk : ind.kind = .ema p input sm)
    (hp : 1 ≤ p) : ShiftOKW ind (max 1 (p - 1).toNat) :=
  ShiftOKW.ofUncond ind _ (by omega) (by
    intro x d hd hi
    rw [hk]
    exact ema_shift_window x d p input sm hp (by omega) hi (by omega))

/-- RMA, seeded or not: `max 1 (period - 1)` predecessors -/
def rmaShiftOKW (ind : Ind F) (p : Int) (input : String) (hk : ind.kind = .rma p input) (hp : 1 ≤ p) :
    ShiftOKW ind (max 1 (p - 1).toNat) :=
  ShiftOKW.ofUncond ind _ (by omega) (by
    intro x d hd hi
    rw [hk]
    exact rma_shift_window x d p input hp (by omega) hi (by omega))

/-! ### the whole schedule, per kind -/

/-- the schedule theorem from an unconditional `ShiftOKW` -/
theorem twin_schedule_ofW (ind : Ind F) (hl : IsLeaf ind) (K : Contract ind) {L : Nat} (S : ShiftOKW ind L)
    (hS : ∀ cs k, S.P cs k)
    (life : Int) (init : List (Candle F)) (chunks : List (List (Candle F)))
    (hp : ∀ c ∈ init ++ chunks.flatten, Plain c)
    (hinit : trimCandles (some life) init = .ok init)
    (hret : RetainsFrom L life init init.length chunks) :
    ∃ d, candlesOf (runIndicator ind (cfgLifeOnly life) init chunks)
        = (candlesOf (runIndicator ind {} init chunks)).map (·.drop d) :=
  twin_scheduleW ind hl K S (fun _ => True) (fun a ch _ _ => hS _ _)
    (fun _ _ _ _ _ _ => trivial) life init chunks hp hinit (fun _ _ => trivial) hret

/-- **SMA over a whole schedule**: `max 1 period` candles from before each popping append retained -/
theorem twin_schedule_sma (ind : Ind F) (hl : IsLeaf ind) (K : Contract ind) (p : Int) (input : String)
    (hk : ind.kind = .sma p input) (hper : 1 ≤ p)
    (life : Int) (init : List (Candle F)) (chunks : List (List (Candle F)))
    (hp : ∀ c ∈ init ++ chunks.flatten, Plain c)
    (hinit : trimCandles (some life) init = .ok init)
    (hret : RetainsFrom (max 1 p.toNat) life init init.length chunks) :
    ∃ d, candlesOf (runIndicator ind (cfgLifeOnly life) init chunks)
        = (candlesOf (runIndicator ind {} init chunks)).map (·.drop d) :=
  twin_schedule_ofW ind hl K (smaShiftOKW ind p input hk hper) (fun _ _ => trivial) life init chunks hp hinit hret

/-- **ROC over a whole schedule**: `max 1 period` candles retained -/
theorem twin_schedule_roc (ind : Ind F) (hl : IsLeaf ind) (K : Contract ind) (p : Int) (input : String)
    (hk : ind.kind = .roc p input) (hper : 0 ≤ p)
    (life : Int) (init : List (Candle F)) (chunks : List (List (Candle F)))
    (hp : ∀ c ∈ init ++ chunks.flatten, Plain c)
    (hinit : trimCandles (some life) init = .ok init)
    (hret : RetainsFrom (max 1 p.toNat) life init init.length chunks) :
    ∃ d, candlesOf (runIndicator ind (cfgLifeOnly life) init chunks)
        = (candlesOf (runIndicator ind {} init chunks)).map (·.drop d) :=
  twin_schedule_ofW ind hl K (rocShiftOKW ind p input hk hper) (fun _ _ => trivial) life init chunks hp hinit hret

/-- **WMA over a whole schedule**: `max 1 (period - 1)` candles retained -/
theorem twin_schedule_wma (ind : Ind F) (hl : IsLeaf ind) (K : Contract ind) (p : Int) (input : String)
    (hk : ind.kind = .wma p input) (hper : 1 ≤ p)
    (life : Int) (init : List (Candle F)) (chunks : List (List (Candle F)))
    (hp : ∀ c ∈ init ++ chunks.flatten, Plain c)
    (hinit : trimCandles (some life) init = .ok init)
    (hret : RetainsFrom (max 1 (p - 1).toNat) life init init.length chunks) :
    ∃ d, candlesOf (runIndicator ind (cfgLifeOnly life) init chunks)
        = (candlesOf (runIndicator ind {} init chunks)).map (·.drop d) :=
  twin_schedule_ofW ind hl K (wmaShiftOKW ind p input hk hper) (fun _ _ => trivial) life init chunks hp hinit hret

/-- **VWMA over a whole schedule**: `max 1 (period - 1)` candles retained -/
theorem twin_schedule_vwma (ind : Ind F) (hl : IsLeaf ind) (K : Contract ind) (p : Int)
    (hk : ind.kind = .vwma p) (hper : 1 ≤ p)
    (life : Int) (init : List (Candle F)) (chunks : List (List (Candle F)))
    (hp : ∀ c ∈ init ++ chunks.flatten, Plain c)
    (hinit : trimCandles (some life) init = .ok init)
    (hret : RetainsFrom (max 1 (p - 1).toNat) life init init.length chunks) :
    ∃ d, candlesOf (runIndicator ind (cfgLifeOnly life) init chunks)
        = (candlesOf (runIndicator ind {} init chunks)).map (·.drop d) :=
  twin_schedule_ofW ind hl K (vwmaShiftOKW ind p hk hper) (fun _ _ => trivial) life init chunks hp hinit hret

/-- **EMA over a whole schedule, NO seededness assumption**: `max 1 (period - 1)` candles (the
start-up window) retained -/
theorem twin_schedule_ema_unseeded (ind : Ind F) (hl : IsLeaf ind) (K : Contract ind) (p : Int)
    (input : String) (sm : Num F) (hk : ind.kind = .ema p input sm) (hper : 1 ≤ p)
    (life : Int) (init : List (Candle F)) (chunks : List (List (Candle F)))
    (hp : ∀ c ∈ init ++ chunks.flatten, Plain c)
    (hinit : trimCandles (some life) init = .ok init)
    (hret : RetainsFrom (max 1 (p - 1).toNat) life init init.length chunks) :
    ∃ d, candlesOf (runIndicator ind (cfgLifeOnly life) init chunks)
        = (candlesOf (runIndicator ind {} init chunks)).map (·.drop d) :=
  twin_schedule_ofW ind hl K (emaShiftOKW ind p input sm hk hper) (fun _ _ => trivial) life init chunks hp hinit hret

/-- **RMA over a whole schedule, NO seededness assumption** -/
theorem twin_schedule_rma_unseeded (ind : Ind F) (hl : IsLeaf ind) (K : Contract ind) (p : Int)
    (input : String) (hk : ind.kind = .rma p input) (hper : 1 ≤ p)
    (life : Int) (init : List (Candle F)) (chunks : List (List (Candle F)))
    (hp : ∀ c ∈ init ++ chunks.flatten, Plain c)
    (hinit : trimCandles (some life) init = .ok init)
    (hret : RetainsFrom (max 1 (p - 1).toNat) life init init.length chunks) :
    ∃ d, candlesOf (runIndicator ind (cfgLifeOnly life) init chunks)
        = (candlesOf (runIndicator ind {} init chunks)).map (·.drop d) :=
  twin_schedule_ofW ind hl K (rmaShiftOKW ind p input hk hper) (fun _ _ => trivial) life init chunks hp hinit hret

/-! ### all covered leaf kinds with a look-back: `C15b_FULL` -/

/-- finished candles that must survive each popping trim, per leaf kind (the same table as
`Hex.C15.lookBack` in HexProps/C15.lean) -/
def lookBackW : Kind F → Option Nat
  | .hla | .tr | .obv | .counter .. => some 1
  | .ema p _ _ | .rma p _ => some (max 1 (p - 1).toNat)
  | .wma p _ | .vwma p => some (max 1 (p - 1).toNat)
  | .sma p _ | .roc p _ => some (max 1 p.toNat)
  | _ => none

/-- **C15, second clause, for every covered leaf kind with a look-back** (HLA, TR, OBV, Counter,
SMA, ROC, WMA, VWMA, EMA, RMA – the latter two without any seededness assumption): this is the
statement `Hex.C15.C15b_FULL` (with `cfgLifeOnly` = `C15.cfgLife`, `lookBackW` = `C15.lookBack`). -/
theorem C15b_full_leaf (k : Kind F) (name : String) (round : Nat) (L : Nat) (hc : Covered name k)
    (hL : lookBackW k = some L)
    (life : Int) (init : List (Candle F)) (chunks : List (List (Candle F)))
    (hp : ∀ c ∈ init ++ chunks.flatten, Plain c) (hinit : trimCandles (some life) init = .ok init)
    (hret : RetainsFrom L life init init.length chunks) :
    ∃ d, candlesOf (runIndicator (mkTop k name round) (cfgLifeOnly life) init chunks)
      = (candlesOf (runIndicator (mkTop k name round) {} init chunks)).map (·.drop d) := by
  obtain ⟨K⟩ := hc.contract round
  have hl := hc.isLeaf round
  cases hc with
  | hla =>
    cases hL
    exact twin_schedule_free _ hl K (by rw [mkTop_kind]; exact .hla) life init chunks hp hinit hret
  | tr =>
    cases hL
    exact twin_schedule_free _ hl K (by rw [mkTop_kind]; exact .tr) life init chunks hp hinit hret
  | obv =>
    cases hL
    exact twin_schedule_free _ hl K (by rw [mkTop_kind]; exact .obv) life init chunks hp hinit hret
  | counter input cv _ =>
    cases hL
    exact twin_schedule_free _ hl K (by rw [mkTop_kind]; exact .counter input cv) life init chunks hp hinit hret
  | sma p input hper _ _ =>
    cases hL
    exact twin_schedule_sma _ hl K p input (mkTop_kind _ _ _) hper life init chunks hp hinit hret
  | ema p input sm hper _ =>
    cases hL
    exact twin_schedule_ema_unseeded _ hl K p input sm (mkTop_kind _ _ _) hper life init chunks hp hinit hret
  | rma p input hper _ =>
    cases hL
    exact twin_schedule_rma_unseeded _ hl K p input (mkTop_kind _ _ _) hper life init chunks hp hinit hret
  | wma p input hper _ _ =>
    cases hL
    exact twin_schedule_wma _ hl K p input (mkTop_kind _ _ _) hper life init chunks hp hinit hret
  | vwma p hper _ =>
    cases hL
    exact twin_schedule_vwma _ hl K p (mkTop_kind _ _ _) hper life init chunks hp hinit hret
  | roc p input hper _ _ =>
    cases hL
    exact twin_schedule_roc _ hl K p input (mkTop_kind _ _ _) hper life init chunks hp hinit hret
  | hl p => cases hL
  | aroon p _ => cases hL
  | donchian p _ => cases hL
  | amorph a _ => cases hL

/-! ### non-vacuity (toy carrier `Int`) -/

section Demo

private def mk (o h l c v : Int) (t : Int) : Candle Int :=
  { o := .int o, h := .int h, l := .int l, c := .int c, v := .int v, ts := some t }

/-- a numeric reading as an `Int` (for `decide`) -/
private def rd (v : Option (Val Int)) : Option Int :=
  match v with
  | some (.s (.num (.flt n))) => some n
  | some (.s (.num (.int n))) => some n
  | _ => none

/-- five raw candles, stamps 60 … 300 -/
def twDemoInit : List (Candle Int) :=
  [mk 1 3 1 3 10 60, mk 2 5 2 6 20 120, mk 4 4 0 9 5 180, mk 1 2 1 12 7 240, mk 3 6 2 6 9 300]
def twDemo360 : List (Candle Int) := [mk 2 4 1 3 4 360]
def twDemo420 : List (Candle Int) := [mk 2 4 1 3 4 420]
def twDemo480 : List (Candle Int) := [mk 5 7 4 6 8 480]

example : ∀ c ∈ twDemoInit ++ [twDemo420, [], twDemo480].flatten, Plain c := by decide
/-- lifespan 240 s pops nothing at construction … -/
example : trimCandles (some 240) twDemoInit = .ok twDemoInit := rfl
/-- … the append of 420 pops 60 and 120, the append of 480 pops 180: each time exactly THREE
candles from before the append are retained – `RetainsFrom 3` (SMA 3, ROC 3), a fortiori
`RetainsFrom 2` (WMA / VWMA / EMA / RMA 3) -/
theorem twDemo_retains3 : RetainsFrom 3 240 twDemoInit twDemoInit.length [twDemo420, [], twDemo480] :=
  Or.inr ⟨by decide, (twDemoInit ++ twDemo420).drop 2, rfl, Or.inr (by decide),
    Or.inl ⟨rfl, Or.inr ⟨by decide, (twDemoInit ++ twDemo420 ++ twDemo480).drop 3, rfl, Or.inr (by decide), trivial⟩⟩⟩
/-- … while lifespan 100 s leaves only ONE predecessor: `RetainsFrom 1` holds, `RetainsFrom 3` does not -/
example : RetainsFrom 1 100 (twDemoInit.drop 3) 5 [twDemo360] :=
  Or.inr ⟨by decide, (twDemoInit ++ twDemo360).drop 4, rfl, Or.inr (by decide), trivial⟩
example : ¬ RetainsFrom 3 100 (twDemoInit.drop 3) 5 [twDemo360] := by
  intro h
  rcases h with ⟨h, _⟩ | ⟨_, m', hm, hc, _⟩
  · cases h
  · have : m' = (twDemoInit ++ twDemo360).drop 4 := by
      have e : trimCandles (some 100) (twDemoInit.drop 3 ++ twDemo360) = .ok ((twDemoInit ++ twDemo360).drop 4) := rfl
      rw [e] at hm; cases hm; rfl
    subst this
    revert hc; decide

example : Covered (F := Int) "SMA_3" (.sma 3 "close") := .sma 3 "close" (by decide) (by decide) (by decide)

/-- the schedule theorem applied to the demo – SMA 3 -/
example : ∃ d, candlesOf (runIndicator (mkTop (F := Int) (.sma 3 "close") "SMA_3" 4) (cfgLifeOnly 240) twDemoInit
      [twDemo420, [], twDemo480])
    = (candlesOf (runIndicator (mkTop (F := Int) (.sma 3 "close") "SMA_3" 4) {} twDemoInit
      [twDemo420, [], twDemo480])).map (·.drop d) :=
  C15b_full_leaf (.sma 3 "close") "SMA_3" 4 3 (.sma 3 "close" (by decide) (by decide) (by decide)) rfl 240
    twDemoInit [twDemo420, [], twDemo480] (by decide) rfl twDemo_retains3

/-- … and what the two runs actually hold: the trimmed run keeps the stamps 240 … 480 with the
untrimmed run's SMA readings (3 candles were popped) -/
example : (candlesOf (runIndicator (mkTop (F := Int) (.sma 3 "close") "SMA_3" 4) (cfgLifeOnly 240) twDemoInit
      [twDemo420, [], twDemo480])).toOption.map (·.map (fun c => (c.ts, rd (dlookup "SMA_3" c.inds))))
    = some [(some 240, some 9), (some 300, some 9), (some 420, some 7), (some 480, some 5)] := by
  decide +kernel
example : (candlesOf (runIndicator (mkTop (F := Int) (.sma 3 "close") "SMA_3" 4) {} twDemoInit
      [twDemo420, [], twDemo480])).toOption.map (·.map (fun c => (c.ts, rd (dlookup "SMA_3" c.inds))))
    = some [(some 60, none), (some 120, none), (some 180, some 6),
            (some 240, some 9), (some 300, some 9), (some 420, some 7), (some 480, some 5)] := by
  decide +kernel

/-- EMA 3 NOT seeded at construction (two candles): the recurrence is seeded during the first
append, the later appends pop candles; `RetainsFrom 2` holds (lifespan 120 s) -/
def twDemoInit2 : List (Candle Int) := twDemoInit.take 2
def twDemo180 : List (Candle Int) := [mk 4 4 0 9 5 180]
def twDemo240 : List (Candle Int) := [mk 1 2 1 12 7 240]
def twDemo300 : List (Candle Int) := [mk 3 6 2 6 9 300]

theorem twDemo_retains2 : RetainsFrom 2 120 twDemoInit2 twDemoInit2.length [twDemo180, twDemo240, twDemo300] :=
  Or.inr ⟨by decide, twDemoInit2 ++ twDemo180, rfl, Or.inl (by decide),
    Or.inr ⟨by decide, (twDemoInit2 ++ twDemo180 ++ twDemo240).drop 1, rfl, Or.inr (by decide),
      Or.inr ⟨by decide, (twDemoInit2 ++ twDemo180 ++ twDemo240 ++ twDemo300).drop 2, rfl, Or.inr (by decide),
        trivial⟩⟩⟩

example : ∃ d, candlesOf (runIndicator (mkTop (F := Int) (.ema 3 "close" (.int 2)) "EMA_3" 4) (cfgLifeOnly 120)
      twDemoInit2 [twDemo180, twDemo240, twDemo300])
    = (candlesOf (runIndicator (mkTop (F := Int) (.ema 3 "close" (.int 2)) "EMA_3" 4) {} twDemoInit2
      [twDemo180, twDemo240, twDemo300])).map (·.drop d) :=
  C15b_full_leaf (.ema 3 "close" (.int 2)) "EMA_3" 4 2 (.ema 3 "close" _ (by decide) (by decide)) rfl 120
    twDemoInit2 [twDemo180, twDemo240, twDemo300] (by decide) rfl twDemo_retains2

/-- the constructed EMA is indeed unseeded (so `twin_schedule_ema` does not apply) -/
example : (rowMajor (mkTop (F := Int) (.ema 3 "close" (.int 2)) "EMA_3" 4) twDemoInit2).toOption.map
    (fun a => (Ctx.lastReading "EMA_3" a).isNone) = some true := by decide

end Demo

#print axioms twin_scheduleW
#print axioms twin_schedule_sma
#print axioms twin_schedule_roc
#print axioms twin_schedule_wma
#print axioms twin_schedule_vwma
#print axioms twin_schedule_ema_unseeded
#print axioms twin_schedule_rma_unseeded
#print axioms C15b_full_leaf

end Hex

import HexProofs.Manager2.TwinTreesEngine
import HexProofs.Framework.Gen.AllX
import HexProofs.Lib.IntInst
/-
C15, second clause (readings on the retained candles equal those of the untrimmed twin) for
COMPOSITE indicator trees – every `CoveredTreeX` kind: the leaf kinds, VWAP / STDEV / RSI (data-series
nodes), ATR / KC / BBANDS / STDEVTHRES / Supertrend (prior helpers) and MACD / HMA / STOCH / TSI / ADX
(managed children driven from inside `_calculate_reading`).

Look-back of a tree: `treeLook k name round = max 1 (Ind.lb (mkTop k name round))`, the maximum over ALL
nodes of the node's own look-back `kwin` (HexProofs/Manager2/TwinTreesKinds.lean), at least one.  If at
every popping append `treeLook` finished candles from before the append are retained (`RetainsFrom`),
then – whenever the lifespan-trimmed run and the untrimmed run both return – the trimmed indicator holds
exactly the candles of its untrimmed twin minus the popped ones (`C15b_trees`): same readings, same
helper series, on every retained candle.

Proof: `engineDrop` (TwinTreesEngine.lean: the whole mutual engine commutes with popping candles, for
every tree, by induction on the fuel, from the per-kind drop law `calcKind_drop`), `engineFull` (after
`calculate()` every candle carries the key of every `calculate()`-reached node, so `_find_calc_index`
of the node and of every prior helper resumes at the first new candle on both sides), and the schedule
induction of TwinWindow.lean with the tree's `engineCalc` in place of the leaf loop.
-/
namespace Hex
set_option linter.unusedSectionVars false
set_option linter.unusedSimpArgs false
variable {F : Type} [PyF F]

/-! ### one `calculate()` of the object, trimmed next to untrimmed -/

/-- what a tree needs for the twin theorem: look-back at most `L`, every `calculate()`-reached
sub-indicator prior, pairwise distinct names -/
structure TwinOK (ind : Ind F) (L : Nat) : Prop where
  hL : 1 ≤ L
  lb : ind.lb ≤ L
  prior : ind.allPrior = true
  nodup : ind.allNames.Nodup

theorem engine_full (ind : Ind F) {L : Nat} (T : TwinOK ind L) (b ch b' : List (Candle F))
    (hfull : ∀ n ∈ ind.calcNames, Full n b) (hplain : ∀ c ∈ ch, Plain c)
    (h : engineCalc ind (b ++ ch) = .ok b') : ∀ n ∈ ind.calcNames, Full n b' :=
  (engineFull _).calculate ind (b ++ ch) b.length b' T.prior T.nodup (by simp)
    (fun n hn => KeySplit.of_append n b ch (hfull n hn) (fun c hc => hasKey_plain n c (hplain c hc))) h

theorem engine_frame (ind : Ind F) (cs b' : List (Candle F)) (h : engineCalc ind cs = .ok b') :
    b'.length = cs.length ∧ b'.map (·.ts) = cs.map (·.ts) := by
  have hs := calculate_stripEq _ ind cs b' h
  refine ⟨hs.length_eq.symm, ?_⟩
  have := congrArg (List.map (·.ts)) hs
  simpa [List.map_map, Function.comp_def] using this.symm

/-- **`calculate()` on the popped list** next to `calculate()` on the full list: when both return, the
trimmed result is the untrimmed one minus the popped candles -/
theorem engine_twin (ind : Ind F) {L : Nat} (T : TwinOK ind L) (b ch : List (Candle F)) (d : Nat)
    (hfull : ∀ n ∈ ind.calcNames, Full n b) (hplain : ∀ c ∈ ch, Plain c)
    (hkeep : d = 0 ∨ d + L ≤ b.length) (a' b' : List (Candle F))
    (h' : engineCalc ind ((b ++ ch).drop d) = .ok a') (h : engineCalc ind (b ++ ch) = .ok b') :
    a' = b'.drop d := by
  rcases hkeep with h0 | hk
  · subst h0
    simp only [List.drop_zero] at h' ⊢
    rw [h] at h'; cases h'; rfl
  · unfold engineCalc at h' h
    refine (engineDrop (d := d) (L := L) T.hL _ _ ?_).calculate ind (b ++ ch) b.length a' b' T.lb T.prior
      T.nodup hk (by simp)
      (fun n hn => KeySplit.of_append n b ch (hfull n hn) (fun c hc => hasKey_plain n c (hplain c hc))) h' h
    unfold fuelFor
    simp only [List.length_drop]
    omega

/-! ### the schedule -/

theorem IndState.calculate_shape (ind : Ind F) (cfg : MgrCfg) (cs : List (Candle F)) (act : Int) (s' : IndState F)
    (h : IndState.calculate ({ tree := ind, mgr := { cfg := cfg, candles := cs }, active := act } : IndState F) = .ok s') :
    ∃ out act', s' = { tree := ind, mgr := { cfg := cfg, candles := out }, active := act' } ∧
      engineCalc ind cs = .ok out := by
  obtain ⟨ht, hc, he⟩ := IndState.calculate_ok_engine _ s' h
  simp only at ht hc he
  refine ⟨s'.mgr.candles, s'.active, ?_, he⟩
  obtain ⟨tree, ⟨cfg', cands⟩, act'⟩ := s'
  simp only at ht hc
  subst ht; subst hc; rfl

theorem candlesOf_ok {r : PyM (IndState F)} {a : List (Candle F)} (h : candlesOf r = .ok a) :
    ∃ st, r = .ok st ∧ st.mgr.candles = a := by
  unfold candlesOf at h
  cases r with
  | error e => cases h
  | ok st => exact ⟨st, rfl, by simpa [Except.map] using h⟩

/-- **The trimmed tree follows its untrimmed twin through every append.**  `b`: the candles of the
untrimmed twin (over the raw stream `s`), the trimmed indicator holds `b.drop d`, the raw lifespan
manager would hold `s.drop d`. -/
theorem twin_appends_tree (ind : Ind F) {L : Nat} (T : TwinOK ind L) (life : Int) (chunks : List (List (Candle F))) :
    ∀ (s b : List (Candle F)) (d : Nat) (actA actB : Int), b.map (·.ts) = s.map (·.ts) →
      (∀ n ∈ ind.calcNames, Full n b) → (d = 0 ∨ d + L ≤ b.length) → (∀ c ∈ chunks.flatten, Plain c) →
      RetainsFrom L life (s.drop d) s.length chunks →
      ∀ a bb, candlesOf (chunks.foldlM (fun (st : IndState F) ch => st.append ch)
              { tree := ind, mgr := { cfg := cfgLifeOnly life, candles := b.drop d }, active := actB }) = .ok a →
        candlesOf (chunks.foldlM (fun (st : IndState F) ch => st.append ch)
              { tree := ind, mgr := { cfg := {}, candles := b }, active := actA }) = .ok bb →
        ∃ d', a = bb.drop d' := by
  induction chunks with
  | nil =>
    intro s b d actA actB _ _ _ _ _ a bb ha hb
    simp only [List.foldlM_nil, candlesOf, pure, Except.pure, Except.map] at ha hb
    cases ha; cases hb
    exact ⟨d, rfl⟩
  | cons ch rest ih =>
    intro s b d actA actB hts hfull hkeep hpc hret a bb ha hb
    have hpch : ∀ c ∈ ch, Plain c := fun c hc => hpc c (by simp [hc])
    have hprest : ∀ c ∈ rest.flatten, Plain c := fun c hc => hpc c (by
      simp only [List.flatten_cons, List.mem_append]; exact Or.inr hc)
    have hlen : b.length = s.length := by simpa using congrArg List.length hts
    obtain ⟨stA, hstA, hcA⟩ := candlesOf_ok hb
    obtain ⟨stB, hstB, hcB⟩ := candlesOf_ok ha
    rw [List.foldlM_cons] at hstA hstB
    obtain ⟨sA1, hA1, hstA⟩ := Writes.bind_ok hstA
    obtain ⟨sB1, hB1, hstB⟩ := Writes.bind_ok hstB
    -- the untrimmed twin: `calculate()` on `b ++ ch`
    have hA : IndState.append ({ tree := ind, mgr := { cfg := {}, candles := b }, active := actA } : IndState F) ch
        = IndState.calculate { tree := ind, mgr := { cfg := {}, candles := b ++ ch }, active := actA } := by
      unfold IndState.append
      simp only [Manager.append_default, bind, Except.bind]
    rw [hA] at hA1
    obtain ⟨b1, actA1, rfl, heA⟩ := IndState.calculate_shape ind {} (b ++ ch) actA sA1 hA1
    have hfull1 := engine_full ind T b ch b1 hfull hpch heA
    obtain ⟨hl1, hts1⟩ := engine_frame ind (b ++ ch) b1 heA
    -- the trimmed indicator: `calculate()` on `(b ++ ch).drop d'`
    have key : ∃ d', (d' = 0 ∨ d' + L ≤ b.length) ∧
        RetainsFrom L life ((s ++ ch).drop d') (s ++ ch).length rest ∧
        IndState.append ({ tree := ind, mgr := { cfg := cfgLifeOnly life, candles := b.drop d }, active := actB } : IndState F) ch
          = IndState.calculate { tree := ind, mgr := { cfg := cfgLifeOnly life, candles := (b ++ ch).drop d' },
                                 active := actB } := by
      rcases hret with ⟨hce, hret⟩ | ⟨hne, m', htrim, hcount, hret⟩
      · subst hce
        refine ⟨d, hkeep, by simpa using hret, ?_⟩
        simp [IndState.append, Manager.append, bind, Except.bind]
      · have hdb : d ≤ b.length := by rcases hkeep with h | h <;> omega
        have hts' : (b.drop d ++ ch).map (·.ts) = (s.drop d ++ ch).map (·.ts) := by
          simp only [List.map_append, List.map_drop, hts]
        obtain ⟨hm', hm'len, htrimB⟩ := trim_congr_ts life (s.drop d ++ ch) (b.drop d ++ ch) m' hts' htrim
        have hl1' : (s.drop d ++ ch).length = b.length - d + ch.length := by simp [hlen]
        refine ⟨d + ((s.drop d ++ ch).length - m'.length), ?_, ?_, ?_⟩
        · rcases hcount with hc | hc
          · exact Or.inl (by omega)
          · exact Or.inr (by omega)
        · have hm'eq : m' = (s ++ ch).drop (d + ((s.drop d ++ ch).length - m'.length)) := by
            conv_lhs => rw [hm']
            rw [← List.drop_drop, List.drop_append_of_le_length (by omega : d ≤ s.length)]
          rw [← hm'eq, List.length_append]; exact hret
        · have hempty : ch.isEmpty = false := by cases ch <;> simp at hne ⊢
          have e : (b ++ ch).drop (d + ((s.drop d ++ ch).length - m'.length))
              = (b.drop d ++ ch).drop ((s.drop d ++ ch).length - m'.length) := by
            rw [← List.drop_drop, List.drop_append_of_le_length hdb]
          rw [e]
          unfold IndState.append Manager.append
          simp only [hempty, Bool.false_eq_true, if_false, tasks_lifeOnly, htrimB, bind, Except.bind]
          rfl
    obtain ⟨d', hkeep', hret', hB⟩ := key
    rw [hB] at hB1
    obtain ⟨a1, actB1, rfl, heB⟩ := IndState.calculate_shape ind _ _ actB sB1 hB1
    have e1 := engine_twin ind T b ch d' hfull hpch hkeep' a1 b1 heB heA
    subst e1
    have := ih (s ++ ch) b1 d' actA1 actB1 (by rw [hts1]; simp [hts]) hfull1
      (by rcases hkeep' with h | h
          · exact Or.inl h
          · right; rw [hl1, List.length_append]; omega)
      hprest hret' a bb
      (by unfold candlesOf; rw [hstB]; simp [Except.map, hcB])
      (by unfold candlesOf; rw [hstA]; simp [Except.map, hcA])
    exact this

/-- **Whole schedule, any covered tree** (construction, `calculate()`, appends): if the lifespan manager
pops nothing at construction and `RetainsFrom L` holds for the appends, then – whenever both runs
return – the trimmed indicator ends with the candles of the untrimmed one minus the popped ones. -/
theorem twin_schedule_tree (ind : Ind F) {L : Nat} (T : TwinOK ind L) (life : Int)
    (init : List (Candle F)) (chunks : List (List (Candle F)))
    (hp : ∀ c ∈ init ++ chunks.flatten, Plain c)
    (hinit : trimCandles (some life) init = .ok init)
    (hret : RetainsFrom L life init init.length chunks) (a b : List (Candle F))
    (ha : candlesOf (runIndicator ind (cfgLifeOnly life) init chunks) = .ok a)
    (hb : candlesOf (runIndicator ind {} init chunks) = .ok b) : ∃ d, a = b.drop d := by
  have hpi : ∀ c ∈ init, Plain c := fun c hc => hp c (by simp [hc])
  have hpc : ∀ c ∈ chunks.flatten, Plain c := fun c hc => hp c (List.mem_append.2 (Or.inr hc))
  unfold runIndicator IndState.init Manager.init at ha hb
  rw [tasks_lifeOnly, hinit] at ha
  rw [tasks_default] at hb
  simp only [bind, Except.bind, pure, Except.pure] at ha hb
  cases hcA : IndState.calculate ({ tree := ind, mgr := { cfg := {}, candles := init } } : IndState F) with
  | error e => rw [hcA] at hb; cases hb
  | ok sA =>
    cases hcB : IndState.calculate ({ tree := ind, mgr := { cfg := cfgLifeOnly life, candles := init } } : IndState F) with
    | error e => rw [hcB] at ha; cases ha
    | ok sB =>
      rw [hcA] at hb; rw [hcB] at ha
      simp only at ha hb
      obtain ⟨b0, actA, rfl, heA⟩ := IndState.calculate_shape ind {} init 0 sA hcA
      obtain ⟨a0, actB, rfl, heB⟩ := IndState.calculate_shape ind _ init 0 sB hcB
      rw [heA] at heB; cases heB
      have hfull0 := engine_full ind T [] init b0 (fun n _ c hc => by cases hc) hpi (by simpa using heA)
      obtain ⟨hl0, hts0⟩ := engine_frame ind init b0 heA
      exact twin_appends_tree ind T life chunks init b0 0 actA actB hts0 hfull0 (Or.inl rfl) hpc
        (by simpa using hret) a b (by simpa using ha) hb

/-! ### every covered tree -/

theorem str_self_eq_append (s t : String) : s = s ++ t ↔ "" = t := by
  conv_lhs => lhs; rw [← String.append_empty (s := s)]
  exact String.append_right_inj s

theorem str_append_eq_self (s t : String) : s ++ t = s ↔ t = "" := by
  conv_lhs => rhs; rw [← String.append_empty (s := s)]
  exact String.append_right_inj s


theorem twinOK_of (ind : Ind F) (hp : ind.allPrior = true) (hn : ind.allNames.Nodup) :
    TwinOK ind (max 1 ind.lb) := ⟨by omega, by omega, hp, hn⟩

macro "tree_facts" : tactic => `(tactic|
  simp [mkTop, children, Ind.allPrior_eq, Ind.allPriorL_cons, Ind.allNames_eq, Ind.subs, Ind.managed, Ind.name,
    atrNode, stdevNode, leaf, Ind.priorCalc, Ind.isSub, Ind.prior, String.append_assoc, String.append_right_inj,
    str_self_eq_append, str_append_eq_self])

/-- **Every covered tree** (leaf kinds, data-series kinds, prior-helper composites and the composites
that drive managed children) satisfies the hypotheses of the twin theorem, with look-back
`max 1 (Ind.lb tree)`. -/
theorem CoveredTreeX.twinOK {name : String} {k : Kind F} (h : CoveredTreeX name k) (round : Nat) :
    TwinOK (mkTop k name round) (max 1 (mkTop k name round).lb) := by
  refine twinOK_of _ ?_ ?_
  · cases h
    case base hk =>
      cases hk
      case leaf hl => cases hl <;> tree_facts
      all_goals tree_facts
    all_goals tree_facts
  · cases h
    case base hk =>
      cases hk
      case leaf hl => cases hl <;> tree_facts
      all_goals tree_facts
    all_goals tree_facts


/-- **look-back of a covered tree**: the maximum over all nodes of the tree (sub-indicators and managed
children included) of the node's own look-back, at least one -/
def treeLook (k : Kind F) (name : String) (round : Nat) : Nat := max 1 (mkTop k name round).lb

/-- **C15, second clause, for every covered indicator tree** (explicit look-back).  -/
theorem C15b_trees_look (k : Kind F) (name : String) (round : Nat) (hc : CoveredTreeX name k)
    (life : Int) (init : List (Candle F)) (chunks : List (List (Candle F)))
    (hp : ∀ c ∈ init ++ chunks.flatten, Plain c) (hinit : trimCandles (some life) init = .ok init)
    (hret : RetainsFrom (treeLook k name round) life init init.length chunks) (a b : List (Candle F))
    (ha : candlesOf (runIndicator (mkTop k name round) (cfgLifeOnly life) init chunks) = .ok a)
    (hb : candlesOf (runIndicator (mkTop k name round) {} init chunks) = .ok b) : ∃ d, a = b.drop d :=
  twin_schedule_tree (mkTop k name round) (hc.twinOK round) life init chunks hp hinit hret a b ha hb

/-- the statement `Hex.C15.C15b_trees_FULL` of HexProps/C15.lean (with `cfgLifeOnly` = `C15.cfgLife`) -/
def C15b_trees_statement (F : Type) [PyF F] : Prop :=
  ∀ (k : Kind F) (name : String) (round : Nat), CoveredTreeX name k →
    ∃ L : Nat, ∀ (life : Int) (init : List (Candle F)) (chunks : List (List (Candle F))),
      (∀ c ∈ init ++ chunks.flatten, Plain c) → trimCandles (some life) init = .ok init →
      RetainsFrom L life init init.length chunks →
      ∀ a b, candlesOf (runIndicator (mkTop k name round) (cfgLifeOnly life) init chunks) = .ok a →
        candlesOf (runIndicator (mkTop k name round) {} init chunks) = .ok b →
        ∃ d, a = b.drop d

/-- **`C15b_trees_FULL` holds.** -/
theorem C15b_trees : C15b_trees_statement F := by
  intro k name round hc
  exact ⟨treeLook k name round, fun life init chunks hp hinit hret a b ha hb =>
    C15b_trees_look k name round hc life init chunks hp hinit hret a b ha hb⟩

/-! ### the look-back of the simplest trees, in closed form -/

/-- ATR (TR helper + Wilder node): the Wilder seed window -/
example (p : Int) (name : String) (round : Nat) :
    treeLook (F := F) (.atr p) name round = max (p - 1).toNat 1 := by
  simp [treeLook, mkTop, children, Ind.lb_eq, Ind.kind, Ind.subs, Ind.managed, leaf, kwin, window]
/-- RSI (own `_data` series): the seed reads `period + 1` inputs -/
example (p : Int) (input name : String) (round : Nat) :
    treeLook (F := F) (.rsi p input) name round = max p.toNat 1 := by
  simp [treeLook, mkTop, children, Ind.lb_eq, Ind.kind, Ind.subs, Ind.managed, leaf, kwin, window]
/-- VWAP (cumulative `_data` series): one predecessor -/
example (p : Int) (name : String) (round : Nat) : treeLook (F := F) (.vwap p) name round = 1 := by
  simp [treeLook, mkTop, children, Ind.lb_eq, Ind.kind, Ind.subs, Ind.managed, leaf, kwin, window]
/-- MACD: the seed windows of its three EMAs -/
example (fast slow signal : Int) (input name : String) (round : Nat) :
    treeLook (F := F) (.macd fast slow signal input) name round
      = max (max (fast - 1).toNat (slow - 1).toNat) (max (signal - 1).toNat 1) := by
  simp [treeLook, mkTop, children, Ind.lb_eq, Ind.kind, Ind.subs, Ind.managed, leaf, kwin, window]

/-! ### non-vacuity (toy carrier `Int`) -/

section Demo
-- (the `DecidableEq` instance of the nested view type below exceeds the default instance size)
set_option synthInstance.maxSize 2000

private def mk' (o h l c v : Int) (t : Int) : Candle Int :=
  { o := .int o, h := .int h, l := .int l, c := .int c, v := .int v, ts := some t }

/-- five raw candles, stamps 60 … 300 -/
def ttInit : List (Candle Int) :=
  [mk' 10 30 10 30 100 60, mk' 20 50 20 60 200 120, mk' 40 40 0 90 50 180, mk' 10 120 10 120 70 240,
   mk' 30 60 20 60 90 300]
def tt420 : List (Candle Int) := [mk' 20 40 10 30 40 420]
def tt480 : List (Candle Int) := [mk' 50 170 40 160 80 480]

example : ∀ c ∈ ttInit ++ [tt420, [], tt480].flatten, Plain c := by decide
/-- lifespan 240 s pops nothing at construction … -/
example : trimCandles (some 240) ttInit = .ok ttInit := rfl
/-- … the append of 420 pops 60 and 120, the empty chunk pops nothing, the append of 480 pops 180:
each time THREE candles from before the append are retained, a fortiori `RetainsFrom 2` -/
theorem ttDemo_retains2 : RetainsFrom 2 240 ttInit ttInit.length [tt420, [], tt480] :=
  Or.inr ⟨by decide, (ttInit ++ tt420).drop 2, rfl, Or.inr (by decide),
    Or.inl ⟨rfl, Or.inr ⟨by decide, (ttInit ++ tt420 ++ tt480).drop 3, rfl, Or.inr (by decide), trivial⟩⟩⟩

/-- a reading as `Int`s: a number, or the fields of a dict -/
def rdv (v : Val Int) : List (String × Option Int) :=
  match v with
  | .dict kvs => kvs.map fun p =>
      (p.1, match p.2 with | .num (.flt n) => some n | .num (.int n) => some n | _ => none)
  | .s (.num (.flt n)) => [("", some n)]
  | .s (.num (.int n)) => [("", some n)]
  | _ => [("", none)]

/-- everything a candle carries (stamp, top-level readings, helper readings), as `Int`s -/
def view (c : Candle Int) :
    Option Int × List (String × List (String × Option Int)) × List (String × List (String × Option Int)) :=
  (c.ts, c.inds.map (fun p => (p.1, rdv p.2)), c.subs.map (fun p => (p.1, rdv p.2)))

/-- the lifespan-trimmed run and its untrimmed twin over the demo schedule -/
def runT (k : Kind Int) (name : String) : PyM (List (Candle Int)) :=
  candlesOf (runIndicator (mkTop k name 4) (cfgLifeOnly 240) ttInit [tt420, [], tt480])
def runU (k : Kind Int) (name : String) : PyM (List (Candle Int)) :=
  candlesOf (runIndicator (mkTop k name 4) {} ttInit [tt420, [], tt480])

/-- ATR 3 = TR helper + Wilder node: look-back 2 -/
theorem atrDemoOK : CoveredTreeX (F := Int) "ATR_3" (.atr 3) := .base _ (.atr 3 (by decide) ⟨by decide, by decide⟩)
theorem atrDemo_look : treeLook (F := Int) (.atr 3) "ATR_3" 4 = 2 := by
  simp [treeLook, mkTop, children, Ind.lb_eq, Ind.kind, Ind.subs, Ind.managed, leaf, kwin, window]

/-- the theorem applied to the demo – ATR 3 -/
example (a b : List (Candle Int)) (ha : runT (.atr 3) "ATR_3" = .ok a) (hb : runU (.atr 3) "ATR_3" = .ok b) :
    ∃ d, a = b.drop d :=
  C15b_trees_look (.atr 3) "ATR_3" 4 atrDemoOK 240 ttInit [tt420, [], tt480] (by decide) rfl
    (by rw [atrDemo_look]; exact ttDemo_retains2) a b ha hb

/-- … and what the two runs actually hold: both return; the trimmed run keeps the stamps 240 … 480 with
the untrimmed run's ATR readings AND its TR helper series (3 candles were popped) -/
example : (runT (.atr 3) "ATR_3").toOption.map (·.map view) = some
    [(some 240, [("ATR_3", [("", some 66)])], [("ATR_3_TR", [("", some 110)])]),
     (some 300, [("ATR_3", [("", some 77)])], [("ATR_3_TR", [("", some 100)])]),
     (some 420, [("ATR_3", [("", some 68)])], [("ATR_3_TR", [("", some 50)])]),
     (some 480, [("ATR_3", [("", some 92)])], [("ATR_3_TR", [("", some 140)])])] := by decide +kernel
example : (runU (.atr 3) "ATR_3").toOption.map (·.map view) = some
    [(some 60, [("ATR_3", [("", none)])], [("ATR_3_TR", [("", none)])]),
     (some 120, [("ATR_3", [("", none)])], [("ATR_3_TR", [("", some 30)])]),
     (some 180, [("ATR_3", [("", none)])], [("ATR_3_TR", [("", some 60)])]),
     (some 240, [("ATR_3", [("", some 66)])], [("ATR_3_TR", [("", some 110)])]),
     (some 300, [("ATR_3", [("", some 77)])], [("ATR_3_TR", [("", some 100)])]),
     (some 420, [("ATR_3", [("", some 68)])], [("ATR_3_TR", [("", some 50)])]),
     (some 480, [("ATR_3", [("", some 92)])], [("ATR_3_TR", [("", some 140)])])] := by decide +kernel

/-- RSI 2 (own `_data` series written from inside the step): look-back 2 -/
theorem rsiDemoOK : CoveredTreeX (F := Int) "RSI_2" (.rsi 2 "close") :=
  .base _ (.rsi 2 "close" (by decide) ⟨by decide, by decide, by decide, by decide⟩ (by decide))
theorem rsiDemo_look : treeLook (F := Int) (.rsi 2 "close") "RSI_2" 4 = 2 := by
  simp [treeLook, mkTop, children, Ind.lb_eq, Ind.kind, Ind.subs, Ind.managed, leaf, kwin, window]
example (a b : List (Candle Int)) (ha : runT (.rsi 2 "close") "RSI_2" = .ok a)
    (hb : runU (.rsi 2 "close") "RSI_2" = .ok b) : ∃ d, a = b.drop d :=
  C15b_trees_look (.rsi 2 "close") "RSI_2" 4 rsiDemoOK 240 ttInit [tt420, [], tt480] (by decide) rfl
    (by rw [rsiDemo_look]; exact ttDemo_retains2) a b ha hb
/-- both runs return, and the trimmed one is the untrimmed one minus 3 candles (readings and `_data`) -/
example : (runT (.rsi 2 "close") "RSI_2").toOption.map (·.map view)
    = (runU (.rsi 2 "close") "RSI_2").toOption.map (fun b => (b.drop 3).map view) := by decide +kernel
example : ((runT (.rsi 2 "close") "RSI_2").toOption.map (·.map view)).isSome = true := by decide +kernel

/-- MACD 2/3/2 (two prior EMAs, a signal EMA driven by `calculate_index` over the node's own dict):
look-back 2 -/
theorem macdDemoOK : CoveredTreeX (F := Int) "MACD_2_3_2" (.macd 2 3 2 "close") :=
  .macd 2 3 2 "close" (by decide) (by decide) (by decide)
    ⟨by decide, by decide, by decide, by decide, by decide, by decide, by decide, by decide, by decide,
      by decide⟩ (by decide)
theorem macdDemo_look : treeLook (F := Int) (.macd 2 3 2 "close") "MACD_2_3_2" 4 = 2 := by
  simp [treeLook, mkTop, children, Ind.lb_eq, Ind.kind, Ind.subs, Ind.managed, leaf, kwin, window]
example (a b : List (Candle Int)) (ha : runT (.macd 2 3 2 "close") "MACD_2_3_2" = .ok a)
    (hb : runU (.macd 2 3 2 "close") "MACD_2_3_2" = .ok b) : ∃ d, a = b.drop d :=
  C15b_trees_look (.macd 2 3 2 "close") "MACD_2_3_2" 4 macdDemoOK 240 ttInit [tt420, [], tt480] (by decide) rfl
    (by rw [macdDemo_look]; exact ttDemo_retains2) a b ha hb
example : (runT (.macd 2 3 2 "close") "MACD_2_3_2").toOption.map (·.map view)
    = (runU (.macd 2 3 2 "close") "MACD_2_3_2").toOption.map (fun b => (b.drop 3).map view) := by decide +kernel
example : ((runT (.macd 2 3 2 "close") "MACD_2_3_2").toOption.map (·.map view)).isSome = true := by
  decide +kernel

/-- ADX 3/2 (prior ATR tree, a managed `_data` holder with two non-prior RMA children, a managed RMA
driven by `calculate_index`): look-back 2 -/
theorem adxDemoOK : CoveredTreeX (F := Int) "ADX_3_2" (.adx 3 2) :=
  .adx 3 2 (by decide) (by decide)
    ⟨by decide, by decide, by decide, by decide, by decide, by decide, by decide, by decide, by decide, by decide,
      by decide, by decide, by decide, by decide, by decide, by decide, by decide, by decide, by decide, by decide,
      by decide, by decide, by decide, by decide, by decide, by decide, by decide, by decide⟩
theorem adxDemo_look : treeLook (F := Int) (.adx 3 2) "ADX_3_2" 4 = 2 := by
  simp [treeLook, mkTop, children, Ind.lb_eq, Ind.kind, Ind.subs, Ind.managed, leaf, atrNode, kwin, window]
example (a b : List (Candle Int)) (ha : runT (.adx 3 2) "ADX_3_2" = .ok a)
    (hb : runU (.adx 3 2) "ADX_3_2" = .ok b) : ∃ d, a = b.drop d :=
  C15b_trees_look (.adx 3 2) "ADX_3_2" 4 adxDemoOK 240 ttInit [tt420, [], tt480] (by decide) rfl
    (by rw [adxDemo_look]; exact ttDemo_retains2) a b ha hb
example : (runT (.adx 3 2) "ADX_3_2").toOption.map (·.map view)
    = (runU (.adx 3 2) "ADX_3_2").toOption.map (fun b => (b.drop 3).map view) := by decide +kernel
example : ((runT (.adx 3 2) "ADX_3_2").toOption.map (·.map view)).isSome = true := by decide +kernel

end Demo

#print axioms calcKind_drop
#print axioms engineKeys
#print axioms engineFull
#print axioms engineDrop
#print axioms twin_schedule_tree
#print axioms CoveredTreeX.twinOK
#print axioms C15b_trees_look
#print axioms C15b_trees

end Hex

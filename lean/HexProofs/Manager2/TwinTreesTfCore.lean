import HexProofs.Manager2.TwinTrees
/-
C15, second clause TOGETHER with a re-collapsing manager (timeframe, timeframe + fill): the generic part.

`TwinMgr` describes a lifespan-free manager configuration whose tasks refine a spec `spec` of the raw
stream incrementally, with a CANONICAL count `closed s new` of the spec candles that appending `new`
leaves closed (all of them, or all but the re-opened newest one), and such that re-running the tasks on
a list whose leading candles were popped gives the same result minus those candles.

`RetainsClosed`: the retention hypothesis on the collapsed stream.  `twin_schedule_mgr`: for every tree
satisfying `TwinOK ind L`, whenever the lifespan-trimmed run and the untrimmed twin both return, the
trimmed candles are the twin's candles `.drop d`.
-/
namespace Hex
set_option linter.unusedSectionVars false
set_option linter.unusedSimpArgs false
variable {F : Type} [PyF F]

/-! ### adding a lifespan to a configuration -/

/-- the same configuration with `candles_lifespan = life` seconds -/
def MgrCfg.withLife (cfg : MgrCfg) (life : Int) : MgrCfg := { cfg with lifespan := some life }

theorem tasks_nolife (cfg : MgrCfg) (hn : cfg.lifespan = none) (cs : List (Candle F)) :
    tasks cfg cs = (do
      let cs ← collapseCandles cfg.tf cfg.fill cs
      if cfg.ha && !cs.isEmpty then convertCandles cs else .ok cs) := by
  unfold tasks
  rw [hn]
  cases collapseCandles cfg.tf cfg.fill cs with
  | error e => rfl
  | ok c1 =>
    simp only [bind, Except.bind]
    by_cases hc : (cfg.ha && !c1.isEmpty) = true
    · simp only [hc, if_true]
      cases convertCandles c1 <;> simp [trimCandles]
    · simp only [hc, if_false]
      simp [trimCandles]

/-- the manager's task order `collapse → fill → convert → trim`: with a lifespan the trim runs LAST, on the
result of the lifespan-free tasks -/
theorem tasks_withLife (cfg : MgrCfg) (hn : cfg.lifespan = none) (life : Int) (cs : List (Candle F)) :
    tasks (cfg.withLife life) cs = (do
      let x ← tasks cfg cs
      trimCandles (some life) x) := by
  rw [tasks_nolife cfg hn]
  unfold tasks MgrCfg.withLife
  cases collapseCandles cfg.tf cfg.fill cs with
  | error e => rfl
  | ok c1 =>
    simp only [bind, Except.bind]
    by_cases hc : (cfg.ha && !c1.isEmpty) = true
    · simp only [hc, if_true]
    · simp only [hc, if_false]
      simp

/-! ### dressed lists, as equality of the bare lists -/

theorem Dressed.map_bare {raw out : List (Candle F)} (h : Dressed raw out) :
    out.map Candle.bare = raw.map Candle.bare := by
  induction h with
  | nil => rfl
  | cons hcd _ ih => simp [ih, hcd]

theorem dressed_of_map_bare : ∀ {raw out : List (Candle F)},
    out.map Candle.bare = raw.map Candle.bare → Dressed raw out
  | [], [], _ => List.Forall₂.nil
  | [], _ :: _, h => by simp at h
  | _ :: _, [], h => by simp at h
  | c :: r, d :: o, h => by
    simp only [List.map_cons, List.cons.injEq] at h
    exact List.Forall₂.cons h.1 (dressed_of_map_bare h.2)

theorem Dressed.rfl' (l : List (Candle F)) : Dressed l l := dressed_of_map_bare rfl

theorem Dressed.append {a b c d : List (Candle F)} (h1 : Dressed a b) (h2 : Dressed c d) :
    Dressed (a ++ c) (b ++ d) := forall₂_append h1 h2

theorem Dressed.drop {raw out : List (Candle F)} (h : Dressed raw out) (k : Nat) :
    Dressed (raw.drop k) (out.drop k) := by
  apply dressed_of_map_bare
  rw [List.map_drop, List.map_drop, h.map_bare]

theorem bare_strip (N : List String) (c : Candle F) : (strip N c).bare = c.bare := rfl

/-- `calculate()` only adds readings -/
theorem engine_dressed (ind : Ind F) (raw cs out : List (Candle F)) (hd : Dressed raw cs)
    (h : engineCalc ind cs = .ok out) : Dressed raw out := by
  have hs := calculate_stripEq _ ind cs out h
  apply dressed_of_map_bare
  rw [← hd.map_bare]
  have := congrArg (List.map Candle.bare) hs
  simp only [List.map_map, Function.comp_def, bare_strip] at this
  exact this.symm

/-! ### managers that re-collapse: the interface -/

/-- A lifespan-free manager configuration whose tasks refine `spec` on construction and on every append.
`closed s new` is the number of candles of `spec s` that appending the raw chunk `new` leaves CLOSED: the
tasks over `dressed (spec s) ++ new` keep exactly those (with their readings) and replace the rest by
reading-free candles `Q` – the re-opened newest candle (readings wiped by `Candle.merge`) and the new
ones.  `drop`: running the tasks over a list whose `d` leading candles were popped, all of them closed
ones other than the last closed one, gives the same list minus those `d` candles. -/
structure TwinMgr (F : Type) [PyF F] where
  cfg : MgrCfg
  nolife : cfg.lifespan = none
  Ok : List (Candle F) → Prop
  spec : List (Candle F) → List (Candle F)
  closed : List (Candle F) → List (Candle F) → Nat
  ok_left : ∀ a b, Ok (a ++ b) → Ok a
  spec_plain : ∀ s, Ok s → ∀ c ∈ spec s, Plain c
  init : ∀ s, Ok s → tasks cfg s = .ok (spec s)
  append : ∀ s new done, Ok (s ++ new) → new ≠ [] → Dressed (spec s) done →
    ∃ Q : List (Candle F), (∀ c ∈ Q, Plain c) ∧ closed s new ≤ done.length ∧
      done.length ≤ closed s new + Q.length ∧
      tasks cfg (done ++ new) = .ok (done.take (closed s new) ++ Q) ∧
      spec (s ++ new) = (spec s).take (closed s new) ++ Q ∧
      ∀ d, d + 1 ≤ closed s new →
        tasks cfg (done.drop d ++ new) = .ok ((done.take (closed s new) ++ Q).drop d)

/-- **The retention hypothesis, on the collapsed stream.**  `s`: the raw stream received so far, `d`: the
number of leading candles of `spec s` popped so far (the lifespan manager holds `(spec s).drop d`).  At
every non-empty append the trim of `(spec (s ++ ch)).drop d` succeeds and, with `d'` the number of candles
popped after it, either nothing has been popped so far (`d' = 0`) or at least `L` CLOSED candles of `spec s`
– candles from before the append that the append does not re-open – are retained
(`d' + L ≤ closed s ch`). -/
def RetainsClosed (spec : List (Candle F) → List (Candle F)) (closed : List (Candle F) → List (Candle F) → Nat)
    (L : Nat) (life : Int) : List (Candle F) → Nat → List (List (Candle F)) → Prop
  | _, _, [] => True
  | s, d, ch :: rest =>
    (ch = [] ∧ RetainsClosed spec closed L life s d rest) ∨
    (ch ≠ [] ∧ ∃ m', trimCandles (some life) ((spec (s ++ ch)).drop d) = .ok m' ∧
      ((spec (s ++ ch)).length - m'.length = 0 ∨
        (spec (s ++ ch)).length - m'.length + L ≤ closed s ch) ∧
      RetainsClosed spec closed L life (s ++ ch) ((spec (s ++ ch)).length - m'.length) rest)

/-- the same as a Boolean check (for concrete schedules) -/
def retainsClosedB (spec : List (Candle F) → List (Candle F)) (closed : List (Candle F) → List (Candle F) → Nat)
    (L : Nat) (life : Int) : List (Candle F) → Nat → List (List (Candle F)) → Bool
  | _, _, [] => true
  | s, d, ch :: rest =>
    if ch.isEmpty then retainsClosedB spec closed L life s d rest else
    match trimCandles (some life) ((spec (s ++ ch)).drop d) with
    | .ok m' =>
      (decide ((spec (s ++ ch)).length - m'.length = 0) ||
        decide ((spec (s ++ ch)).length - m'.length + L ≤ closed s ch)) &&
      retainsClosedB spec closed L life (s ++ ch) ((spec (s ++ ch)).length - m'.length) rest
    | .error _ => false

theorem retainsClosed_of_B (spec : List (Candle F) → List (Candle F))
    (closed : List (Candle F) → List (Candle F) → Nat) (L : Nat) (life : Int) (chunks : List (List (Candle F))) :
    ∀ (s : List (Candle F)) (d : Nat), retainsClosedB spec closed L life s d chunks = true →
      RetainsClosed spec closed L life s d chunks := by
  induction chunks with
  | nil => intro s d _; trivial
  | cons ch rest ih =>
    intro s d h
    unfold retainsClosedB at h
    unfold RetainsClosed
    by_cases hch : ch = []
    · subst hch
      simp only [List.isEmpty_nil, if_true] at h
      exact Or.inl ⟨rfl, ih s d h⟩
    · have hempty : ch.isEmpty = false := by cases ch <;> simp at hch ⊢
      simp only [hempty, Bool.false_eq_true, if_false] at h
      cases ht : trimCandles (some life) ((spec (s ++ ch)).drop d) with
      | error e => rw [ht] at h; cases h
      | ok m' =>
        rw [ht] at h
        simp only [Bool.and_eq_true, Bool.or_eq_true, decide_eq_true_eq] at h
        exact Or.inr ⟨hch, m', rfl, h.1, ih _ _ h.2⟩

/-! ### the schedule -/

theorem Full.take {n : String} {b : List (Candle F)} (h : Full n b) (k : Nat) : Full n (b.take k) :=
  fun c hc => h c (List.mem_of_mem_take hc)

/-- **The trimmed tree follows its untrimmed twin through every append**, on a re-collapsing manager.
`b`: the candles of the untrimmed twin (the spec of the raw stream `s`, dressed with readings); the trimmed
indicator holds `b.drop d`. -/
theorem twin_appends_mgr (M : TwinMgr F) (ind : Ind F) {L : Nat} (T : TwinOK ind L) (life : Int)
    (chunks : List (List (Candle F))) :
    ∀ (s b : List (Candle F)) (d : Nat) (actA actB : Int), Dressed (M.spec s) b →
      (∀ n ∈ ind.calcNames, Full n b) → (d = 0 ∨ d + L ≤ b.length) → M.Ok (s ++ chunks.flatten) →
      RetainsClosed M.spec M.closed L life s d chunks →
      ∀ a bb, candlesOf (chunks.foldlM (fun (st : IndState F) ch => st.append ch)
              { tree := ind, mgr := { cfg := M.cfg.withLife life, candles := b.drop d }, active := actB }) = .ok a →
        candlesOf (chunks.foldlM (fun (st : IndState F) ch => st.append ch)
              { tree := ind, mgr := { cfg := M.cfg, candles := b }, active := actA }) = .ok bb →
        ∃ d', a = bb.drop d' := by
  induction chunks with
  | nil =>
    intro s b d actA actB _ _ _ _ _ a bb ha hb
    simp only [List.foldlM_nil, candlesOf, pure, Except.pure, Except.map] at ha hb
    cases ha; cases hb
    exact ⟨d, rfl⟩
  | cons ch rest ih =>
    intro s b d actA actB hdr hfull hkeep hok hret a bb ha hb
    have hok' : M.Ok ((s ++ ch) ++ rest.flatten) := by simpa [List.append_assoc] using hok
    have hsch : M.Ok (s ++ ch) := M.ok_left _ _ hok'
    have hlen : (M.spec s).length = b.length := hdr.length_eq
    obtain ⟨stA, hstA, hcA⟩ := candlesOf_ok hb
    obtain ⟨stB, hstB, hcB⟩ := candlesOf_ok ha
    rw [List.foldlM_cons] at hstA hstB
    obtain ⟨sA1, hA1, hstA⟩ := Writes.bind_ok hstA
    obtain ⟨sB1, hB1, hstB⟩ := Writes.bind_ok hstB
    -- what both managers do with the chunk
    have key : ∃ (b0 Q : List (Candle F)) (d' : Nat), (∀ n ∈ ind.calcNames, Full n b0) ∧ (∀ c ∈ Q, Plain c) ∧
        Dressed (M.spec (s ++ ch)) (b0 ++ Q) ∧ (d' = 0 ∨ d' + L ≤ b0.length) ∧
        RetainsClosed M.spec M.closed L life (s ++ ch) d' rest ∧
        IndState.append ({ tree := ind, mgr := { cfg := M.cfg, candles := b }, active := actA } : IndState F) ch
          = IndState.calculate { tree := ind, mgr := { cfg := M.cfg, candles := b0 ++ Q }, active := actA } ∧
        IndState.append ({ tree := ind, mgr := { cfg := M.cfg.withLife life, candles := b.drop d }, active := actB } : IndState F) ch
          = IndState.calculate { tree := ind, mgr := { cfg := M.cfg.withLife life, candles := (b0 ++ Q).drop d' },
                                 active := actB } := by
      rcases hret with ⟨hce, hret⟩ | ⟨hne, m', htrim, hcount, hret⟩
      · subst hce
        refine ⟨b, [], d, hfull, by simp, by simpa using hdr, hkeep, by simpa using hret, ?_, ?_⟩
        · simp [IndState.append, Manager.append, bind, Except.bind]
        · simp [IndState.append, Manager.append, bind, Except.bind]
      · obtain ⟨Q, hQ, hkc, hgrow, htasks, hspec, hdrop⟩ := M.append s ch b hsch hne hdr
        have hempty : ch.isEmpty = false := by cases ch <;> simp at hne ⊢
        -- lengths
        have hYlen : (M.spec (s ++ ch)).length = M.closed s ch + Q.length := by
          rw [hspec, List.length_append, List.length_take, hlen]; omega
        have hXlen : (b.take (M.closed s ch) ++ Q).length = M.closed s ch + Q.length := by
          rw [List.length_append, List.length_take]; omega
        have hdX : Dressed (M.spec (s ++ ch)) (b.take (M.closed s ch) ++ Q) := by
          rw [hspec]; exact (hdr.take _).append (Dressed.rfl' Q)
        have hts : ((b.take (M.closed s ch) ++ Q).drop d).map (·.ts)
            = ((M.spec (s ++ ch)).drop d).map (·.ts) := by
          rw [List.map_drop, List.map_drop, hdX.ts_eq]
        obtain ⟨hm', hm'len, htrimB⟩ := trim_congr_ts life _ _ m' hts htrim
        rw [List.length_drop] at hm'len htrimB
        -- the old pop count is within the closed prefix
        have hdle : d ≤ M.closed s ch ∧ (d = 0 ∨ d + 1 ≤ M.closed s ch) := by
          rcases hkeep with h0 | hk
          · subst h0; exact ⟨Nat.zero_le _, Or.inl rfl⟩
          · have hL := T.hL
            rcases hcount with hc | hc
            · -- nothing popped after this append although `d > 0`: impossible unless `d = 0`
              have : d ≤ (M.spec (s ++ ch)).length - m'.length := by omega
              have hd0 : d = 0 := by omega
              subst hd0; exact ⟨Nat.zero_le _, Or.inl rfl⟩
            · have : d ≤ (M.spec (s ++ ch)).length - m'.length := by omega
              exact ⟨by omega, Or.inr (by omega)⟩
        have hd'eq : d + ((M.spec (s ++ ch)).length - d - m'.length) = (M.spec (s ++ ch)).length - m'.length := by
          omega
        -- the trimmed manager's tasks
        have htasksB : tasks M.cfg (b.drop d ++ ch) = .ok ((b.take (M.closed s ch) ++ Q).drop d) := by
          rcases hdle.2 with h0 | h1
          · subst h0; simpa using htasks
          · exact hdrop d h1
        refine ⟨b.take (M.closed s ch), Q, (M.spec (s ++ ch)).length - m'.length,
          fun n hn => (hfull n hn).take _, hQ, hdX, ?_, hret, ?_, ?_⟩
        · rw [List.length_take, Nat.min_eq_left hkc]; exact hcount
        · simp only [IndState.append, Manager.append, hempty, Bool.false_eq_true, if_false, htasks, bind,
            Except.bind]
          rfl
        · simp only [IndState.append, Manager.append, hempty, Bool.false_eq_true, if_false,
            tasks_withLife M.cfg M.nolife, htasksB, htrimB, bind, Except.bind, List.drop_drop, hd'eq]
          rfl
    obtain ⟨b0, Q, d', hfull0, hQ, hdX, hkeep', hret', hA, hB⟩ := key
    rw [hA] at hA1
    rw [hB] at hB1
    obtain ⟨b1, actA1, rfl, heA⟩ := IndState.calculate_shape ind _ (b0 ++ Q) actA sA1 hA1
    obtain ⟨a1, actB1, rfl, heB⟩ := IndState.calculate_shape ind _ _ actB sB1 hB1
    have hfull1 := engine_full ind T b0 Q b1 hfull0 hQ heA
    obtain ⟨hl1, _⟩ := engine_frame ind (b0 ++ Q) b1 heA
    have e1 := engine_twin ind T b0 Q d' hfull0 hQ hkeep' a1 b1 heB heA
    subst e1
    exact ih (s ++ ch) b1 d' actA1 actB1 (engine_dressed ind _ _ b1 hdX heA) hfull1
      (by rcases hkeep' with h | h
          · exact Or.inl h
          · right; rw [hl1, List.length_append]; omega)
      hok' hret' a bb
      (by unfold candlesOf; rw [hstB]; simp [Except.map, hcB])
      (by unfold candlesOf; rw [hstA]; simp [Except.map, hcA])

/-- **Whole schedule on a re-collapsing manager, any tree with `TwinOK`** (construction, `calculate()`,
appends): if the trim pops nothing at construction and `RetainsClosed L` holds for the appends, then –
whenever both runs return – the lifespan-trimmed indicator ends with the candles of its untrimmed twin
minus the popped ones. -/
theorem twin_schedule_mgr (M : TwinMgr F) (ind : Ind F) {L : Nat} (T : TwinOK ind L) (life : Int)
    (init : List (Candle F)) (chunks : List (List (Candle F)))
    (hok : M.Ok (init ++ chunks.flatten))
    (hinit : trimCandles (some life) (M.spec init) = .ok (M.spec init))
    (hret : RetainsClosed M.spec M.closed L life init 0 chunks) (a b : List (Candle F))
    (ha : candlesOf (runIndicator ind (M.cfg.withLife life) init chunks) = .ok a)
    (hb : candlesOf (runIndicator ind M.cfg init chunks) = .ok b) : ∃ d, a = b.drop d := by
  have hoki : M.Ok init := M.ok_left _ _ hok
  unfold runIndicator IndState.init Manager.init at ha hb
  rw [tasks_withLife M.cfg M.nolife, M.init init hoki] at ha
  rw [M.init init hoki] at hb
  simp only [bind, Except.bind, pure, Except.pure, hinit] at ha hb
  cases hcA : IndState.calculate ({ tree := ind, mgr := { cfg := M.cfg, candles := M.spec init } } : IndState F) with
  | error e => rw [hcA] at hb; cases hb
  | ok sA =>
    cases hcB : IndState.calculate ({ tree := ind, mgr := { cfg := M.cfg.withLife life, candles := M.spec init } } : IndState F) with
    | error e => rw [hcB] at ha; cases ha
    | ok sB =>
      rw [hcA] at hb; rw [hcB] at ha
      simp only at ha hb
      obtain ⟨b0, actA, rfl, heA⟩ := IndState.calculate_shape ind _ (M.spec init) 0 sA hcA
      obtain ⟨a0, actB, rfl, heB⟩ := IndState.calculate_shape ind _ (M.spec init) 0 sB hcB
      rw [heA] at heB; cases heB
      have hpl := M.spec_plain init hoki
      have hfull0 := engine_full ind T [] (M.spec init) b0 (fun n _ c hc => by cases hc) hpl (by simpa using heA)
      exact twin_appends_mgr M ind T life chunks init b0 0 actA actB
        (engine_dressed ind _ _ b0 (Dressed.rfl' _) heA) hfull0 (Or.inl rfl) hok hret a b
        (by simpa using ha) hb

#print axioms tasks_withLife
#print axioms engine_dressed
#print axioms twin_appends_mgr
#print axioms twin_schedule_mgr
#print axioms retainsClosed_of_B

end Hex

import HexProofs.Manager2.HAFill
import HexProofs.Lib.IntInst
/-
Gap filling (C12) for raw input candles that ALREADY CARRY READINGS (arbitrary `.indicators` /
`.sub_indicators` entries).  The manager-level fill lemmas of `HexProofs/Framework/Fill.lean` are
stated for `RawTf` streams, whose fourth field says every candle is `Plain` (no entries); none of
the manager-level proofs needs that field.  Here the same lemmas are re-proved for `RawR` streams
(stamped, unconverted, sorted – nothing about entries) and the C12 schedule theorem follows at
full strength.  What happens to the entries is derived in `FillReadingsSpec.lean`.
-/
namespace Hex
set_option linter.unusedSectionVars false
variable {F : Type} [PyF F]

/-- a well-formed raw stream whose candles may carry any readings: every candle stamped, nothing
converted (`clean_values` empty), stamps non-decreasing.  (= `Hex.C03.RawStream`, = `RawTf`
without its `Plain` field.) -/
structure RawR (xs : List (Candle F)) : Prop where
  stamped : ∀ c ∈ xs, c.ts ≠ none
  cleanNone : ∀ c ∈ xs, c.clean = none
  sorted : (xs.filterMap (·.ts)).Pairwise (· ≤ ·)

theorem RawTf.rawR {xs : List (Candle F)} (h : RawTf xs) : RawR xs := ⟨h.stamped, h.cleanNone, h.sorted⟩

theorem RawR.cleanOk {xs : List (Candle F)} (h : RawR xs) (tf : Int) : ∀ c ∈ xs, CleanOk tf c := by
  intro c hc k hk; rw [h.cleanNone c hc] at hk; cases hk

theorem RawR.append_left {a b : List (Candle F)} (h : RawR (a ++ b)) : RawR a :=
  ⟨fun c hc => h.stamped c (by simp [hc]), fun c hc => h.cleanNone c (by simp [hc]),
   by have := h.sorted; rw [List.filterMap_append] at this; exact (List.pairwise_append.1 this).1⟩

theorem RawR.append_right {a b : List (Candle F)} (h : RawR (a ++ b)) : RawR b :=
  ⟨fun c hc => h.stamped c (by simp [hc]), fun c hc => h.cleanNone c (by simp [hc]),
   by have := h.sorted; rw [List.filterMap_append] at this; exact (List.pairwise_append.1 this).2.1⟩

theorem rawR_nil : RawR ([] : List (Candle F)) := ⟨by simp, by simp, by simp⟩

theorem RawR.first_stamped {xs : List (Candle F)} (h : RawR xs) :
    ∀ c, xs.head? = some c → c.ts ≠ none := fun c hc => h.stamped c (List.mem_of_mem_head? hc)

theorem RawR.labelsMono {xs : List (Candle F)} (h : RawR xs) (tf : Int) (htf : 0 < tf) : LabelsMono tf xs :=
  labelsMono_of_sorted tf htf xs h.sorted

theorem RawR.bucketed_resample {xs : List (Candle F)} (h : RawR xs) (tf : Int) (htf : 0 < tf) :
    Bucketed tf (resample tf xs) := by
  have hb := resampleR_bucketed tf htf xs (h.cleanOk tf) (h.labelsMono tf htf)
  exact ⟨fun c hc => hb.stamped c (List.mem_reverse.1 hc), hb.incr_reverse tf _⟩

/-- facts about the filled resampling `Z` of a raw stream (`FilledOf` without its `plain` field) -/
structure FilledOfR (tf : Int) (s Z : List (Candle F)) : Prop where
  eq : fillMissing tf (resample tf s) = .ok Z
  contig : Contiguous tf Z
  bucketed : Bucketed tf Z
  cleanOk : ∀ c ∈ Z, CleanOk tf c
  last : Z.getLast? = (resample tf s).getLast?
  head : Z.head? = (resample tf s).head?
  filled : FilledFrom (resample tf s) Z

theorem FilledOfR.spec_eq {tf : Int} {s Z : List (Candle F)} (h : FilledOfR tf s Z) : fillSpec tf s = Z := by
  unfold fillSpec; rw [h.eq]

/-- the fill pass of the specification is total on the resampling of a well-formed stream -/
theorem filledOfR (tf : Int) (htf : 0 < tf) (s : List (Candle F)) (h : RawR s) :
    ∃ Z, FilledOfR tf s Z := by
  have hb := h.bucketed_resample tf htf
  obtain ⟨Z, hz, hc, hff, hhead, hlast⟩ := fillMissing_ok tf htf (resample tf s) hb
  have hprops := resampleR_props tf s (h.cleanOk tf)
  have hmem := mem_fillMissing tf _ Z hz
  refine ⟨Z, hz, hc, ?_, ?_, hlast, hhead, hff⟩
  · apply bucketed_of_contiguous tf htf Z hc
    intro c t hcz hct
    rw [hhead] at hcz
    obtain ⟨u, hu, hal⟩ := hb.stamped c (List.mem_of_mem_head? hcz)
    rw [hct] at hu; cases hu; exact hal
  · intro c hc
    rcases hmem c hc with h1 | ⟨p, u, rfl⟩
    · exact hprops.1 c (List.mem_reverse.1 h1)
    · exact cleanOk_fillCandle tf p u

theorem filledOfR_spec (tf : Int) (htf : 0 < tf) (s : List (Candle F)) (h : RawR s) :
    FilledOfR tf s (fillSpec tf s) := by
  obtain ⟨Z, hZ⟩ := filledOfR tf htf s h
  rw [hZ.spec_eq]; exact hZ

theorem filledOfR_nil (tf : Int) (Z : List (Candle F)) (h : FilledOfR tf [] Z) : Z = [] := by
  have := h.eq
  simp only [resample, resampleR, List.foldl_nil, List.reverse_nil] at this
  rw [fillMissing] at this
  exact (Except.ok.inj this).symm

/-- **Re-filling on append**, streams with readings (cf. `fill_resample_append`) -/
theorem fill_resample_appendR (tf : Int) (htf : 0 < tf) (s new Z : List (Candle F))
    (hraw : RawR (s ++ new)) (hZ : FilledOfR tf s Z) :
    fillMissing tf (resample tf (Z ++ new)) = fillMissing tf (resample tf (s ++ new)) := by
  have hs : RawR s := hraw.append_left
  have hprops := resampleR_props tf s (hs.cleanOk tf)
  have hselfZ : resampleR tf Z = Z.reverse := by
    have := resampleR_reverse_self tf Z.reverse hZ.bucketed.reverseR; simpa using this
  have e1 : resampleR tf (s ++ new) = new.foldl (resampleStep tf) (resampleR tf s) := by
    simp [resampleR, List.foldl_append]
  have e2 : resampleR tf (Z ++ new) = new.foldl (resampleStep tf) Z.reverse := by
    rw [← hselfZ]; simp [resampleR, List.foldl_append]
  cases hR : resampleR tf s with
  | nil =>
    have hZnil : Z = [] := by
      have := hZ.eq; unfold resample at this; rw [hR] at this
      simp only [List.reverse_nil] at this; rw [fillMissing] at this; cases this; rfl
    unfold resample
    rw [e1, e2, hR, hZnil]; rfl
  | cons l br =>
    have hRl : resample tf s = br.reverse ++ [l] := by unfold resample; rw [hR]; simp
    have hzeq := hZ.eq
    rw [hRl] at hzeq
    obtain ⟨Z0, hZ0⟩ := fillMissing_last tf br.reverse l Z hzeq
    have hcl : CleanOk tf l := hprops.1 l (by rw [hR]; simp)
    obtain ⟨Y, m, hfold, hm, _⟩ := foldl_step_last tf l hcl new [l] ⟨[], l, rfl, rfl, hcl⟩
    have f1 : resample tf (s ++ new) = br.reverse ++ m :: Y.reverse := by
      unfold resample
      rw [e1, hR, show l :: br = [l] ++ br from rfl, foldl_step_tail tf new [l] br (by simp), hfold]
      simp
    have f2 : resample tf (Z ++ new) = Z0 ++ m :: Y.reverse := by
      unfold resample
      rw [e2, hZ0]
      simp only [List.reverse_append, List.reverse_cons, List.reverse_nil, List.nil_append,
        List.singleton_append]
      rw [show l :: Z0.reverse = [l] ++ Z0.reverse from rfl, foldl_step_tail tf new [l] _ (by simp), hfold]
      simp
    rw [f1, f2, fillMissing_split tf br.reverse m, fillMissing_split tf Z0 m]
    have a1 : fillMissing tf (br.reverse ++ [m]) = .ok (Z0 ++ [m]) :=
      fillMissing_last_congr tf br.reverse l m Z0 hm (by rw [← hZ0]; exact hzeq)
    have a2 : fillMissing tf (Z0 ++ [m]) = .ok (Z0 ++ [m]) := by
      apply fillMissing_contiguous tf htf
      apply contiguous_of_ts tf Z _ _ hZ.contig
      rw [hZ0]; simp [hm]
    rw [a1, a2]

/-- labels stay monotone when the filled buckets replace the stream so far
(cf. `labelsMono_filled_append`) -/
theorem labelsMono_filled_appendR (tf : Int) (htf : 0 < tf) (s new Z : List (Candle F))
    (hraw : RawR (s ++ new)) (hZ : FilledOfR tf s Z) : LabelsMono tf (Z ++ new) := by
  have hs : RawR s := hraw.append_left
  have hmono := labelsMono_of_sorted tf htf _ hraw.sorted
  have hprops := resampleR_props tf s (hs.cleanOk tf)
  unfold LabelsMono at hmono ⊢
  rw [labels_append] at hmono ⊢
  obtain ⟨_, hnew, hcross⟩ := List.pairwise_append.1 hmono
  have hlz := labels_eq_stamps tf Z hZ.bucketed.stamped
  refine List.pairwise_append.2 ⟨by rw [hlz]; exact hZ.bucketed.incr.imp (fun h => le_of_lt h), hnew, ?_⟩
  intro a ha b hb
  rcases List.eq_nil_or_concat Z with hnil | ⟨Z0, l, hZ0⟩
  · rw [hnil] at ha; simp [labels] at ha
  · simp only [List.concat_eq_append] at hZ0
    obtain ⟨tl, htl, _⟩ := hZ.bucketed.stamped l (by rw [hZ0]; simp)
    have hlast := hZ.last
    rw [hZ0, List.getLast?_append] at hlast
    simp only [List.getLast?_singleton, Option.some_or] at hlast
    have hhead : (resampleR tf s).head? = some l := by
      have : (resample tf s).getLast? = (resampleR tf s).head? := by unfold resample; simp
      rw [← this, ← hlast]
    have hmem : tl ∈ labels tf s := by
      have := hprops.2
      rw [hhead] at this
      simp only [Option.bind_some, htl] at this
      exact List.mem_of_getLast? this.symm
    have h1 : tl ≤ b := hcross tl hmem b hb
    have h2 : a ≤ tl := by
      rw [hlz, hZ0, List.filterMap_append] at ha
      have hincr := hZ.bucketed.incr
      rw [hZ0, List.filterMap_append] at hincr
      simp only [List.filterMap_cons, htl, List.filterMap_nil] at ha hincr
      rcases List.mem_append.1 ha with ha | ha
      · exact le_of_lt ((List.pairwise_append.1 hincr).2.2 a ha tl (by simp))
      · simp at ha; omega
    omega

/-- the first candle of `filled buckets ++ new` is stamped -/
theorem first_stamped_filledR (tf : Int) (s new Z : List (Candle F)) (hn : RawR new)
    (hZ : FilledOfR tf s Z) : ∀ c, (Z ++ new).head? = some c → c.ts ≠ none := by
  intro c hc
  cases hz : Z with
  | nil => rw [hz] at hc; exact hn.stamped c (List.mem_of_mem_head? (by simpa using hc))
  | cons y yr =>
    rw [hz] at hc; simp at hc; subst hc
    obtain ⟨t, ht, _⟩ := hZ.bucketed.stamped y (by rw [hz]; simp)
    simp [ht]

/-- construction with fill over a stream with readings (cf. `tasks_fill_raw`) -/
theorem tasks_fill_rawR (tf : Int) (htf : 0 < tf) (xs Z : List (Candle F)) (h : RawR xs)
    (hZ : FilledOfR tf xs Z) : tasks (cfgFill tf) xs = .ok Z := by
  rw [tasks_cfgFill, collapse_fill_eq tf xs h.first_stamped,
      collapse_eq_resample tf htf xs h.first_stamped (h.cleanOk tf) (h.labelsMono tf htf)]
  exact hZ.eq

/-- **one append with fill**, manager level: the tasks over `filled buckets ++ new` give the filled
buckets of the longer stream -/
theorem tasks_fill_appendR (tf : Int) (htf : 0 < tf) (s new Z Z' : List (Candle F))
    (hraw : RawR (s ++ new)) (hZ : FilledOfR tf s Z) (hZ' : FilledOfR tf (s ++ new) Z') :
    tasks (cfgFill tf) (Z ++ new) = .ok Z' := by
  have hn : RawR new := hraw.append_right
  have hfirst := first_stamped_filledR tf s new Z hn hZ
  have hcolZ : collapseCandles (some tf) false (Z ++ new) = .ok (resample tf (Z ++ new)) :=
    collapse_eq_resample tf htf (Z ++ new) hfirst
      (by
        intro c hc
        rcases List.mem_append.1 hc with h | h
        · exact hZ.cleanOk c h
        · exact hn.cleanOk tf c h)
      (labelsMono_filled_appendR tf htf s new Z hraw hZ)
  rw [tasks_cfgFill, collapse_fill_eq tf (Z ++ new) hfirst, hcolZ]
  simp only [bind, Except.bind]
  rw [fill_resample_appendR tf htf s new Z hraw hZ, hZ'.eq]

/-- **C12 schedule, manager level, streams with readings** (cf. `manager_fill_schedule`) -/
theorem manager_fill_scheduleR (tf : Int) (htf : 0 < tf) (chunks : List (List (Candle F))) :
    ∀ (s Z : List (Candle F)), FilledOfR tf s Z → RawR (s ++ chunks.flatten) →
      chunks.foldlM (fun (m : Manager F) ch => m.append ch) { cfg := cfgFill tf, candles := Z }
        = .ok { cfg := cfgFill tf, candles := fillSpec tf (s ++ chunks.flatten) } := by
  induction chunks with
  | nil => intro s Z hZ _; simp [hZ.spec_eq, pure, Except.pure]
  | cons ch rest ih =>
    intro s Z hZ hraw
    have hraw' : RawR ((s ++ ch) ++ rest.flatten) := by simpa [List.append_assoc] using hraw
    have hsch : RawR (s ++ ch) := hraw'.append_left
    simp only [List.foldlM_cons, List.flatten_cons, bind, Except.bind]
    by_cases hch : ch = []
    · subst hch
      have e : Manager.append ({ cfg := cfgFill tf, candles := Z } : Manager F) []
          = .ok { cfg := cfgFill tf, candles := Z } := by simp [Manager.append]
      rw [e]
      simpa using ih s Z hZ (by simpa using hraw)
    · obtain ⟨Z', hZ'⟩ := filledOfR tf htf (s ++ ch) hsch
      have hne : ch.isEmpty = false := by cases ch <;> simp at hch ⊢
      have happ : Manager.append ({ cfg := cfgFill tf, candles := Z } : Manager F) ch
          = .ok { cfg := cfgFill tf, candles := Z' } := by
        unfold Manager.append
        simp only [hne, Bool.false_eq_true, if_false, tasks_fill_appendR tf htf s ch Z Z' hsch hZ hZ',
          bind, Except.bind]
        rfl
      rw [happ]
      have := ih (s ++ ch) Z' hZ' hraw'
      simpa [List.append_assoc] using this

/-- construct with `init`, then append the chunks one call at a time
(= `Hex.C03.runSchedule`, restated) -/
def runSched (cfg : MgrCfg) (init : List (Candle F)) (chunks : List (List (Candle F))) :
    PyM (Manager F) := do
  let m ← Manager.init cfg init
  chunks.foldlM (fun m ch => m.append ch) m

/-- **C12 at full strength for input candles that carry readings: batch and every append
schedule.**  For every well-formed stream (stamped, unconverted, sorted; ANY `.indicators` /
`.sub_indicators` content), constructing with any prefix (possibly empty) and appending the rest in
chunks of any sizes never raises and ends with exactly the filled resampling of the whole stream,
the same candles as one construction over the whole stream; the fill pass of the specification is
total (`fillSpec` is the model's own fill pass over the C03 resampling), its result is contiguous,
aligned and strictly increasing, it is the resampling with flat zero-volume reading-free candles
inserted (`FilledFrom`), first and last bucket are those of the resampling.  Which candle keeps which entries:
`fillSpec_entries` in `FillReadingsSpec.lean`. -/
theorem fill_schedule_readings (tf : Int) (htf : 0 < tf) (init : List (Candle F))
    (chunks : List (List (Candle F))) (h : RawR (init ++ chunks.flatten)) :
    runSched (cfgFill tf) init chunks
        = .ok { cfg := cfgFill tf, candles := fillSpec tf (init ++ chunks.flatten) } ∧
    Manager.init (cfgFill tf) (init ++ chunks.flatten)
        = .ok { cfg := cfgFill tf, candles := fillSpec tf (init ++ chunks.flatten) } ∧
    fillMissing tf (resample tf (init ++ chunks.flatten)) = .ok (fillSpec tf (init ++ chunks.flatten)) ∧
    Contiguous tf (fillSpec tf (init ++ chunks.flatten)) ∧
    Bucketed tf (fillSpec tf (init ++ chunks.flatten)) ∧
    FilledFrom (resample tf (init ++ chunks.flatten)) (fillSpec tf (init ++ chunks.flatten)) ∧
    (fillSpec tf (init ++ chunks.flatten)).head? = (resample tf (init ++ chunks.flatten)).head? ∧
    (fillSpec tf (init ++ chunks.flatten)).getLast? = (resample tf (init ++ chunks.flatten)).getLast? := by
  have hinit : RawR init := h.append_left
  obtain ⟨Z, hZ⟩ := filledOfR tf htf init hinit
  have hW := filledOfR_spec tf htf (init ++ chunks.flatten) h
  refine ⟨?_, ?_, hW.eq, hW.contig, hW.bucketed, hW.filled, hW.head, hW.last⟩
  · unfold runSched Manager.init
    rw [tasks_fill_rawR tf htf init Z hinit hZ]
    simp only [bind, Except.bind]
    exact manager_fill_scheduleR tf htf chunks init Z hZ h
  · unfold Manager.init
    rw [tasks_fill_rawR tf htf _ _ h hW]
    rfl

/-- batch alone -/
theorem fill_batch_readings (tf : Int) (htf : 0 < tf) (xs : List (Candle F)) (h : RawR xs) :
    Manager.init (cfgFill tf) xs = .ok { cfg := cfgFill tf, candles := fillSpec tf xs } := by
  have := (fill_schedule_readings tf htf xs [] (by simpa using h)).2.1
  simpa using this

/-! ### non-vacuity over `Int` -/

/-- five raw candles on a 60-second grid: two fall into bucket 120 (the first of them carries
`"X" ↦ 5`), then a two-bucket gap (180, 240 are missing), then a single OFF-grid candle in bucket
300 that carries `"X" ↦ 5` and a sub-indicator entry, then a single ON-grid candle at 360 carrying
`"X" ↦ 5`, then a plain candle in bucket 420 -/
def readingsDemo : List (Candle Int) :=
  [ { o := .int 1, h := .int 3, l := .int 1, c := .int 2, v := .int 10, ts := some 61,
      inds := [("X", .num (.int 5))] },
    { o := .int 2, h := .int 5, l := .int 2, c := .int 4, v := .int 20, ts := some 120 },
    { o := .int 4, h := .int 4, l := .int 0, c := .int 1, v := .int 5, ts := some 241,
      inds := [("X", .num (.int 5))], subs := [("Y", .num (.int 7))] },
    { o := .int 1, h := .int 2, l := .int 1, c := .int 2, v := .int 3, ts := some 360,
      inds := [("X", .num (.int 5))] },
    { o := .int 2, h := .int 2, l := .int 2, c := .int 2, v := .int 1, ts := some 361 } ]

/-- display helpers for the examples (`Num`/`Val` have no decidable equality) -/
def numI : Num Int → Int | .int i => i | .flt x => x
def valI : Val Int → Option Int | .s (.num n) => some (numI n) | _ => none
structure Row where
  ts : Option Int
  v : Int
  inds : List (String × Option Int)
  subs : List (String × Option Int)
  deriving DecidableEq, Repr
def showC (c : Candle Int) : Row :=
  ⟨c.ts, numI c.v, c.inds.map (fun e => (e.1, valI e.2)), c.subs.map (fun e => (e.1, valI e.2))⟩

theorem readingsDemo_raw : RawR readingsDemo := ⟨by decide, by decide, by decide⟩

example : ¬ (∀ c ∈ readingsDemo, Plain c) := by decide

/-- the hypotheses of `fill_schedule_readings` hold for the schedule "construct over the first
candle, append [second, third], append [], append [fourth], append [fifth]" -/
example : RawR ([readingsDemo[0]] ++ [[readingsDemo[1], readingsDemo[2]], [], [readingsDemo[3]], [readingsDemo[4]]].flatten) :=
  ⟨by decide, by decide, by decide⟩

/-- … and the run returns: buckets 120 (merged – entries wiped), 180 and 240 (inserted – none),
300 (single off-grid candle – keeps `"X" ↦ 5` and its sub entry), 360 (single on-grid candle –
keeps `"X" ↦ 5`), 420 -/
example : (runSched (cfgFill 60) [readingsDemo[0]]
      [[readingsDemo[1], readingsDemo[2]], [], [readingsDemo[3]], [readingsDemo[4]]]).toOption.map
      (fun m => m.candles.map showC)
    = some [ ⟨some 120, 30, [], []⟩, ⟨some 180, 0, [], []⟩, ⟨some 240, 0, [], []⟩,
             ⟨some 300, 5, [("X", some 5)], [("Y", some 7)]⟩, ⟨some 360, 3, [("X", some 5)], []⟩,
             ⟨some 420, 1, [], []⟩ ] := by
  decide +kernel

example : (fillSpec 60 readingsDemo).map (fun c => (c.ts, c.inds.map (fun e => (e.1, valI e.2))))
    = [ (some 120, []), (some 180, []), (some 240, []), (some 300, [("X", some 5)]),
        (some 360, [("X", some 5)]), (some 420, []) ] := by
  decide +kernel

end Hex

#print axioms Hex.fill_schedule_readings
#print axioms Hex.fill_batch_readings
#print axioms Hex.manager_fill_scheduleR

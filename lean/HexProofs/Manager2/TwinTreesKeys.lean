import HexProofs.Manager2.TwinTreesKinds
import HexProofs.Writes.Engine
import HexProofs.Framework.Gen.Object
/-
C15, second clause, for indicator TREES – part 2a: the calculation engine never REMOVES a key
(`KeyLe`: same length and, position by position, every key of the input list is a key of the output
list), for every tree and every fuel (`engineKeys`, the same induction as the writes-only theorem
`engineLocal`).  Used to show that after `calculate()` every candle carries the key of every node
whose `calculate()` loop ran (`Full`), which is what `_find_calc_index` looks at on the next append.
-/
namespace Hex
set_option linter.unusedSectionVars false
set_option linter.unusedSimpArgs false
variable {F : Type} [PyF F]

/-! ### keys are never removed -/

/-- same length and, position by position, every key of the first list is a key of the second -/
structure KeyLe (cs cs' : List (Candle F)) : Prop where
  len : cs.length = cs'.length
  keys : ∀ (j : Nat) (c c' : Candle F), cs[j]? = some c → cs'[j]? = some c' →
    ∀ n, hasKey n c = true → hasKey n c' = true

theorem KeyLe.refl (cs : List (Candle F)) : KeyLe cs cs :=
  ⟨rfl, fun j c c' h h' n hn => by rw [h] at h'; cases h'; exact hn⟩

theorem KeyLe.trans {a b c : List (Candle F)} (h1 : KeyLe a b) (h2 : KeyLe b c) : KeyLe a c := by
  refine ⟨h1.len.trans h2.len, fun j x z hx hz n hn => ?_⟩
  have hj : j < b.length := by
    have := (List.getElem?_eq_some_iff.1 hx).1
    rw [← h1.len]; exact this
  exact h2.keys j b[j] z (List.getElem?_eq_getElem hj) hz n
    (h1.keys j x b[j] hx (List.getElem?_eq_getElem hj) n hn)

theorem KeyLe.modify (g : Candle F → Candle F) (hg : ∀ c n, hasKey n c = true → hasKey n (g c) = true)
    (j : Nat) (cs : List (Candle F)) : KeyLe cs (cs.modify j g) := by
  refine ⟨by simp, fun k c c' hc hc' n hn => ?_⟩
  rw [List.getElem?_modify, hc] at hc'
  by_cases hjk : j = k
  · simp [hjk] at hc'
    subst hc'
    exact hg c n hn
  · simp [hjk] at hc'
    subst hc'
    exact hn

theorem updateAt_keyLe (g : Candle F → Candle F) (hg : ∀ c n, hasKey n c = true → hasKey n (g c) = true)
    (cs cs' : List (Candle F)) (i : Int) (h : updateAt cs i g = .ok cs') : KeyLe cs cs' := by
  unfold updateAt at h
  dsimp only at h
  generalize (if i < 0 then (cs.length : Int) + i else i) = j at h
  by_cases hc : j < 0 ∨ j ≥ cs.length
  · rw [if_pos hc] at h; cases h
  · rw [if_neg hc] at h; cases h; exact KeyLe.modify g hg _ cs

theorem hasKey_setKey_mono (isSub : Bool) (name : String) (v : Val F) (c : Candle F) (n : String)
    (h : hasKey n c = true) : hasKey n (setKey isSub name v c) = true := by
  unfold hasKey dhas setKey at *
  cases isSub <;> simp only [Bool.false_eq_true, if_false, if_true, dlookup_dset] <;>
    by_cases hn : name = n <;> simp_all

theorem setReading_keyLe (isSub : Bool) (n : String) (cs cs' : List (Candle F)) (i : Int) (v : Val F)
    (h : setReading isSub n cs i v = .ok cs') : KeyLe cs cs' := by
  rw [setReading_eq] at h
  exact updateAt_keyLe _ (fun c k hk => hasKey_setKey_mono isSub n v c k hk) cs cs' i h

/-- the services never remove keys -/
structure OpsK (ops : Ops F) : Prop where
  hset : ∀ key v cs cs', ops.setManaged key v cs = .ok cs' → KeyLe cs cs'
  hcalc : ∀ key cs cs', ops.calcManaged key cs = .ok cs' → KeyLe cs cs'

def TracksK (cs0 : List (Candle F)) (m : PyM (Val F × List (Candle F))) : Prop :=
  ∀ v cs', m = .ok (v, cs') → KeyLe cs0 cs'

namespace TracksK
variable {cs0 : List (Candle F)}

theorem pure' {v : Val F} {cs : List (Candle F)} (h : KeyLe cs0 cs) : TracksK cs0 (pure (v, cs)) := by
  intro v' cs' e; cases e; exact h

theorem bind {α : Type} (m : PyM α) (f : α → PyM (Val F × List (Candle F)))
    (hf : ∀ a, TracksK cs0 (f a)) : TracksK cs0 (m >>= f) := by
  intro v cs' e
  cases m with
  | error err => cases e
  | ok a => exact hf a v cs' e

theorem bindW (m : PyM (List (Candle F))) (f : List (Candle F) → PyM (Val F × List (Candle F)))
    (hm : ∀ a, m = .ok a → KeyLe cs0 a)
    (hf : ∀ a, KeyLe cs0 a → TracksK cs0 (f a)) : TracksK cs0 (m >>= f) := by
  intro v cs' e
  cases m with
  | error err => cases e
  | ok a => exact hf a (hm a rfl) v cs' e

theorem ite {c : Prop} [Decidable c] {a b : PyM (Val F × List (Candle F))}
    (ha : TracksK cs0 a) (hb : TracksK cs0 b) : TracksK cs0 (if c then a else b) := by
  split <;> assumption

theorem error {e : PyErr} : TracksK cs0 (Except.error e : PyM (Val F × List (Candle F))) := by
  intro v cs' h; cases h

end TracksK

theorem OpsK.setW {ops : Ops F} (hops : OpsK ops) {cs0 cs : List (Candle F)} (h : KeyLe cs0 cs)
    (key : String) (v : Val F) : ∀ a, ops.setManaged key v cs = .ok a → KeyLe cs0 a :=
  fun a e => h.trans (hops.hset key v cs a e)

theorem OpsK.calcW {ops : Ops F} (hops : OpsK ops) {cs0 cs : List (Candle F)} (h : KeyLe cs0 cs)
    (key : String) : ∀ a, ops.calcManaged key cs = .ok a → KeyLe cs0 a :=
  fun a e => h.trans (hops.hcalc key cs a e)

theorem updateAt_setInds_K {cs0 cs : List (Candle F)} (h : KeyLe cs0 cs) (n : String) (i : Int) (v : Val F) :
    ∀ a, updateAt cs i (fun c => { c with inds := dset n v c.inds }) = .ok a → KeyLe cs0 a :=
  fun a e => h.trans (updateAt_keyLe _ (fun c k hk => hasKey_setKey_mono false n v c k hk) cs a i e)

macro "ktrack_step" hops:ident : tactic => `(tactic| first
  | exact TracksK.error
  | (apply TracksK.pure'; assumption)
  | (refine TracksK.bindW (updateAt _ _ _) _ (updateAt_setInds_K (by assumption) _ _ _) (fun _ _ => ?_))
  | (refine TracksK.bindW _ _ (OpsK.setW $hops (by assumption) _ _) (fun _ _ => ?_))
  | (refine TracksK.bindW _ _ (OpsK.calcW $hops (by assumption) _) (fun _ _ => ?_))
  | (refine TracksK.bind _ _ (fun _ => ?_))
  | (refine TracksK.ite ?_ ?_)
  | (split))

macro "ktrack_all" hops:ident : tactic => `(tactic| (
  repeat (first | ktrack_step $hops | (dsimp only; ktrack_step $hops))))

theorem Calc.hma_tracksK {ops : Ops F} (hops : OpsK ops) (x : Ctx F) :
    TracksK x.cs (Calc.hma ops x) := by
  unfold Calc.hma
  have h0 := KeyLe.refl x.cs
  ktrack_all hops

theorem Calc.stdev_tracksK {ops : Ops F} (hops : OpsK ops) (x : Ctx F) (p : Int) (input : String) :
    TracksK x.cs (Calc.stdev ops x p input) := by
  unfold Calc.stdev
  have h0 := KeyLe.refl x.cs
  ktrack_all hops

theorem Calc.supertrend_tracksK {ops : Ops F} (hops : OpsK ops) (x : Ctx F) (m : Num F) :
    TracksK x.cs (Calc.supertrend ops x m) := by
  unfold Calc.supertrend
  have h0 := KeyLe.refl x.cs
  ktrack_all hops

theorem Calc.rsi_tracksK {ops : Ops F} (hops : OpsK ops) (x : Ctx F) (p : Int) (input : String) :
    TracksK x.cs (Calc.rsi ops x p input) := by
  unfold Calc.rsi
  have h0 := KeyLe.refl x.cs
  ktrack_all hops

theorem Calc.macd_tracksK {ops : Ops F} (hops : OpsK ops) (x : Ctx F) :
    TracksK x.cs (Calc.macd ops x) := by
  unfold Calc.macd
  have h0 := KeyLe.refl x.cs
  ktrack_all hops

theorem Calc.stoch_tracksK {ops : Ops F} (hops : OpsK ops) (x : Ctx F) (p : Int) (input : String) :
    TracksK x.cs (Calc.stoch ops x p input) := by
  unfold Calc.stoch
  have h0 := KeyLe.refl x.cs
  ktrack_all hops

theorem Calc.tsi_tracksK {ops : Ops F} (hops : OpsK ops) (x : Ctx F) (input : String) :
    TracksK x.cs (Calc.tsi ops x input) := by
  unfold Calc.tsi
  have h0 := KeyLe.refl x.cs
  ktrack_all hops

theorem Calc.adx_tracksK {ops : Ops F} (hops : OpsK ops) (x : Ctx F) :
    TracksK x.cs (Calc.adx ops x) := by
  unfold Calc.adx
  have h0 := KeyLe.refl x.cs
  ktrack_all hops

theorem Calc.vwap_tracksK {ops : Ops F} (hops : OpsK ops) (x : Ctx F) :
    TracksK x.cs (Calc.vwap ops x) := by
  unfold Calc.vwap
  have h0 := KeyLe.refl x.cs
  ktrack_all hops

/-- **`_calculate_reading` of every kind never removes a key.** -/
theorem calcKind_keyLe {ops : Ops F} (hops : OpsK ops) (ind : Ind F) (x : Ctx F)
    (v : Val F) (cs' : List (Candle F)) (h : calcKind ops ind x = .ok (v, cs')) : KeyLe x.cs cs' := by
  revert v cs'
  show TracksK x.cs (calcKind ops ind x)
  unfold calcKind
  dsimp only
  split
  all_goals first
    | exact Calc.hma_tracksK hops x
    | exact Calc.stdev_tracksK hops x _ _
    | exact Calc.supertrend_tracksK hops x _
    | exact Calc.rsi_tracksK hops x _ _
    | exact Calc.macd_tracksK hops x
    | exact Calc.stoch_tracksK hops x _ _
    | exact Calc.tsi_tracksK hops x _
    | exact Calc.adx_tracksK hops x
    | exact Calc.vwap_tracksK hops x
    | (intro v cs' e
       obtain ⟨a, _, e⟩ := Writes.bind_ok e
       cases e; exact KeyLe.refl _)
    | (intro v cs' e; cases e; exact KeyLe.refl _)

theorem foldlM_keyLe {α : Type} (step : List (Candle F) → α → PyM (List (Candle F)))
    (hstep : ∀ cs a cs', step cs a = .ok cs' → KeyLe cs cs') :
    ∀ (l : List α) (cs cs' : List (Candle F)), l.foldlM step cs = .ok cs' → KeyLe cs cs' := by
  intro l
  induction l with
  | nil => intro cs cs' h; simp [List.foldlM, pure, Except.pure] at h; subst h; exact KeyLe.refl _
  | cons a r ih =>
    intro cs cs' h
    rw [List.foldlM_cons] at h
    obtain ⟨cs1, h1, h2⟩ := Writes.bind_ok h
    exact (hstep cs a cs1 h1).trans (ih cs1 cs' h2)

/-- the six statements proved together by induction on the fuel -/
structure EngineKeys (f : Nat) : Prop where
  calculate : ∀ (ind : Ind F) cs cs', calculate f ind cs = .ok cs' → KeyLe cs cs'
  calcLoop : ∀ (ind : Ind F) cs k n cs', calcLoop f ind cs k n = .ok cs' → KeyLe cs cs'
  calculateIndex : ∀ (ind : Ind F) cs s e cs', calculateIndex f ind cs s e = .ok cs' → KeyLe cs cs'
  calcSubs : ∀ (subs : List (Ind F)) prior range cs cs', calcSubs f subs prior range cs = .ok cs' → KeyLe cs cs'
  calcReading : ∀ (ind : Ind F) cs i v cs', calcReading f ind cs i = .ok (v, cs') → KeyLe cs cs'
  setManagedReading : ∀ (m : Ind F) cs i v cs', setManagedReading f m cs i v = .ok cs' → KeyLe cs cs'

theorem readSet_keyLe {f : Nat} (ih : EngineKeys (F := F) f) (ind : Ind F) (cs cs1 cs' : List (Candle F))
    (i : Int) (v : Val F) (h1 : Hex.calcReading f ind cs i = .ok (v, cs1))
    (h2 : setReading ind.isSub ind.name cs1 i (v.roundBy ind.round) = .ok cs') : KeyLe cs cs' :=
  (ih.calcReading ind cs i v cs1 h1).trans (setReading_keyLe ind.isSub ind.name cs1 cs' i _ h2)

theorem engineKeys : ∀ f : Nat, EngineKeys (F := F) f := by
  intro f
  induction f with
  | zero =>
    refine ⟨?_, ?_, ?_, ?_, ?_, ?_⟩
    · intro ind cs cs' h; simp [Hex.calculate] at h
    · intro ind cs k n cs' h; simp [Hex.calcLoop] at h
    · intro ind cs s e cs' h; simp [Hex.calculateIndex] at h
    · intro subs prior range cs cs' h; simp [Hex.calcSubs] at h
    · intro ind cs i v cs' h; simp [Hex.calcReading] at h
    · intro m cs i v cs' h; simp [Hex.setManagedReading] at h
  | succ f ih =>
    refine ⟨?_, ?_, ?_, ?_, ?_, ?_⟩
    · intro ind cs cs' h
      rw [Hex.calculate] at h
      obtain ⟨cs1, h1, h⟩ := Writes.bind_ok h
      obtain ⟨cs2, h2, h3⟩ := Writes.bind_ok h
      exact ((ih.calcSubs _ _ _ _ _ h1).trans (ih.calcLoop _ _ _ _ _ h2)).trans (ih.calcSubs _ _ _ _ _ h3)
    · intro ind cs k n cs' h
      cases n with
      | zero =>
        rw [Hex.calcLoop] at h
        · cases h; exact KeyLe.refl _
        · simp
      | succ n =>
        rw [Hex.calcLoop] at h
        obtain ⟨c, _, h⟩ := Writes.bind_ok h
        dsimp only at h
        repeat' (split at h)
        all_goals first
          | (obtain ⟨cs1, h1, h2⟩ := Writes.bind_ok h
             cases h1
             exact ih.calcLoop _ _ _ _ _ h2)
          | (obtain ⟨⟨v, cs1⟩, h1, h⟩ := Writes.bind_ok h
             obtain ⟨cs2, h2, h3⟩ := Writes.bind_ok h
             exact (readSet_keyLe ih ind cs cs1 cs2 k v h1 h2).trans (ih.calcLoop _ _ _ _ _ h3))
    · intro ind cs s e cs' h
      rw [Hex.calculateIndex] at h
      obtain ⟨cs1, h1, h⟩ := Writes.bind_ok h
      obtain ⟨cs2, h2, h3⟩ := Writes.bind_ok h
      refine ((ih.calcSubs _ _ _ _ _ h1).trans ?_).trans (ih.calcSubs _ _ _ _ _ h3)
      refine foldlM_keyLe _ (fun cs i cs' hh => ?_) _ _ _ h2
      obtain ⟨⟨v, cs1⟩, hh1, hh2⟩ := Writes.bind_ok hh
      exact readSet_keyLe ih ind cs cs1 cs' i v hh1 hh2
    · intro subs prior range cs cs' h
      cases subs with
      | nil =>
        rw [Hex.calcSubs] at h
        · cases h; exact KeyLe.refl _
        · simp
      | cons s rest =>
        simp only [Hex.calcSubs] at h
        have hs : ∃ cs1, KeyLe cs cs1 ∧ Hex.calcSubs f rest prior range cs1 = .ok cs' := by
          repeat' (split at h)
          all_goals (obtain ⟨cs1, h1, h2⟩ := Writes.bind_ok h; refine ⟨cs1, ?_, h2⟩)
          all_goals first
            | exact ih.calculateIndex _ _ _ _ _ h1
            | exact ih.calculate _ _ _ h1
            | (cases h1; exact KeyLe.refl _)
        obtain ⟨cs1, hs, h2⟩ := hs
        exact hs.trans (ih.calcSubs _ _ _ _ _ h2)
    · intro ind cs i v cs' h
      rw [Hex.calcReading] at h
      refine calcKind_keyLe ⟨?_, ?_⟩ ind _ v cs' h
      · intro key v cs cs' hh
        obtain ⟨m, hm, hh⟩ := Writes.bind_ok hh
        exact ih.setManagedReading m cs i v cs' hh
      · intro key cs cs' hh
        obtain ⟨m, hm, hh⟩ := Writes.bind_ok hh
        exact ih.calculateIndex m cs i (i + 1) cs' hh
    · intro m cs i v cs' h
      rw [Hex.setManagedReading] at h
      obtain ⟨cs1, h1, h⟩ := Writes.bind_ok h
      obtain ⟨cs2, h2, h3⟩ := Writes.bind_ok h
      exact ((ih.calcSubs _ _ _ _ _ h1).trans (setReading_keyLe m.isSub m.name cs1 cs2 i v h2)).trans
        (ih.calcSubs _ _ _ _ _ h3)

end Hex

import HexProofs.Manager2.Drop
import HexProofs.Framework.Leaf
/-
SHIFT invariance of the purely recursive leaf kinds: the reading computed at index `i - d` of the
list whose first `d` candles were popped equals the reading at index `i` of the untrimmed list,
as long as one predecessor is retained (`d + 1 ≤ i`) – for EMA / RMA once the recurrence has been
seeded (the previous own reading is not `None`); and, for the windowed start-up of SMA / EMA, as
long as the whole look-back window is retained.
-/
namespace Hex
set_option linter.unusedSectionVars false
variable {F : Type} [PyF F]

/-! ### no look-back: HLA -/

theorem hla_shift (x : Ctx F) (d : Nat) (hd : (d : Int) ≤ x.i) : Calc.hla (x.shift d) = Calc.hla x := by
  unfold Calc.hla
  rw [Ctx.num_shift_cur x d "high" hd, Ctx.num_shift_cur x d "low" hd]

/-! ### one predecessor: TR, OBV, Counter -/

theorem tr_shift (x : Ctx F) (d : Nat) (hd : (d : Int) + 1 ≤ x.i) (hi : x.i < x.cs.length) :
    Calc.tr (x.shift d) = Calc.tr x := by
  unfold Calc.tr
  simp only [Ctx.reading_shift_cur x d _ (by omega : (d : Int) ≤ x.i), Ctx.prevNum_shift x d _ hd hi,
    Ctx.readingPeriod_shift x d 2 _ (by decide) (by omega)]

theorem obv_shift (x : Ctx F) (d : Nat) (hd : (d : Int) + 1 ≤ x.i) (hi : x.i < x.cs.length) :
    Calc.obv (x.shift d) = Calc.obv x := by
  unfold Calc.obv
  simp only [Ctx.shift_name, Ctx.prevExists_shift x d _ hd hi,
    Ctx.num_shift_cur x d _ (by omega : (d : Int) ≤ x.i), Ctx.prevNum_shift x d _ hd hi,
    Ctx.reading_shift_cur x d _ (by omega : (d : Int) ≤ x.i)]

theorem counter_shift (x : Ctx F) (d : Nat) (input : String) (cv : Scalar F) (hd : (d : Int) + 1 ≤ x.i)
    (hi : x.i < x.cs.length) : Calc.counter (x.shift d) input cv = Calc.counter x input cv := by
  unfold Calc.counter
  simp only [Ctx.shift_name, Ctx.reading_shift_cur x d _ (by omega : (d : Int) ≤ x.i),
    Ctx.prevReading_shift x d _ hd hi]

/-! ### one predecessor once seeded: EMA, RMA -/

/-- EMA after seeding: `alpha·cur + (1 - alpha)·prev` only needs the previous own reading -/
theorem ema_shift_seeded (x : Ctx F) (d : Nat) (p : Int) (input : String) (sm : Num F)
    (hd : (d : Int) + 1 ≤ x.i) (hi : x.i < x.cs.length) (hseed : x.prevExists x.name = .ok true) :
    Calc.ema (x.shift d) p input sm = Calc.ema x p input sm := by
  unfold Calc.ema
  simp only [Ctx.shift_name, Ctx.prevExists_shift x d _ hd hi, hseed,
    Ctx.num_shift_cur x d _ (by omega : (d : Int) ≤ x.i), Ctx.prevNum_shift x d _ hd hi,
    bind, Except.bind, if_true]

/-- EMA in general: shift-invariant when the whole start-up window (`period` candles) and one
more index are retained -/
theorem ema_shift_window (x : Ctx F) (d : Nat) (p : Int) (input : String) (sm : Num F) (hp : 1 ≤ p)
    (hd : (d : Int) + 1 ≤ x.i) (hi : x.i < x.cs.length) (hw : (d : Int) + p ≤ x.i + 1) :
    Calc.ema (x.shift d) p input sm = Calc.ema x p input sm := by
  unfold Calc.ema
  simp only [Ctx.shift_name, Ctx.prevExists_shift x d _ hd hi,
    Ctx.num_shift_cur x d _ (by omega : (d : Int) ≤ x.i), Ctx.prevNum_shift x d _ hd hi,
    Ctx.readingPeriod_shift x d p _ hp hw, Ctx.candlesSum_shift x d p _ hd hi (by omega) hw]

/-- RMA (Wilder) after seeding -/
theorem rma_shift_seeded (x : Ctx F) (d : Nat) (p : Int) (input : String)
    (hd : (d : Int) + 1 ≤ x.i) (hi : x.i < x.cs.length) (hseed : x.prevExists x.name = .ok true) :
    Calc.rma (x.shift d) p input = Calc.rma x p input := by
  unfold Calc.rma
  simp only [Ctx.shift_name, Ctx.prevExists_shift x d _ hd hi, hseed,
    Ctx.num_shift_cur x d _ (by omega : (d : Int) ≤ x.i), Ctx.prevNum_shift x d _ hd hi,
    bind, Except.bind, if_true]

/-! ### bounded look-back: SMA (`period` candles back), ROC -/

/-- SMA: the running update reads `index - period`; shift-invariant when that candle is retained -/
theorem sma_shift_window (x : Ctx F) (d : Nat) (p : Int) (input : String) (hp : 1 ≤ p)
    (hi : x.i < x.cs.length) (hw : (d : Int) + p ≤ x.i) :
    Calc.sma (x.shift d) p input = Calc.sma x p input := by
  unfold Calc.sma
  have hd : (d : Int) + 1 ≤ x.i := by omega
  have e : x.i - (d : Int) - p = (x.i - p) - d := by omega
  simp only [Ctx.shift_name, Ctx.shift_i, e, Ctx.prevExists_shift x d _ hd hi,
    Ctx.num_shift_cur x d _ (by omega : (d : Int) ≤ x.i), Ctx.prevNum_shift x d _ hd hi,
    Ctx.num_shift x d _ (x.i - p) (by omega),
    Ctx.readingPeriod_shift x d p _ hp (by omega), Ctx.candlesSum_shift x d p _ hd hi (by omega) (by omega)]

/-- ROC: reads `index - period` -/
theorem roc_shift_window (x : Ctx F) (d : Nat) (p : Int) (input : String) (hp : 0 ≤ p)
    (hi : x.i < x.cs.length) (hd : (d : Int) + 1 ≤ x.i) (hw : (d : Int) + p ≤ x.i) :
    Calc.roc (x.shift d) p input = Calc.roc x p input := by
  unfold Calc.roc
  have e : x.i - (d : Int) - p = (x.i - p) - d := by omega
  simp only [Ctx.shift_name, Ctx.shift_i, e, Ctx.prevExists_shift x d _ hd hi,
    Ctx.num_shift_cur x d _ (by omega : (d : Int) ≤ x.i),
    Ctx.num_shift x d _ (x.i - p) (by omega),
    Ctx.readingPeriod_shift x d (p + 1) _ (by omega) (by omega)]

/-! ### packaged: the purely recursive kinds -/

/-- the leaf kinds whose reading depends only on the current candle and on the previous candle
(its fields and/or its own reading) -/
inductive OnePred : Kind F → Prop
  | hla : OnePred .hla
  | tr : OnePred .tr
  | obv : OnePred .obv
  | counter (input : String) (cv : Scalar F) : OnePred (.counter input cv)
  | ema (p : Int) (input : String) (sm : Num F) : OnePred (.ema p input sm)
  | rma (p : Int) (input : String) : OnePred (.rma p input)

/-- the reachable-state condition under which one predecessor suffices: EMA / RMA have been seeded
(the previous own reading exists); nothing for the other kinds -/
def Seeded (k : Kind F) (x : Ctx F) : Prop :=
  match k with
  | .ema .. | .rma .. => x.prevExists x.name = .ok true
  | _ => True

theorem OnePred.readOnly {k : Kind F} (h : OnePred k) : k.readOnly = true := by
  cases h <;> rfl

/-- **Shift invariance of `_calculate_reading`** for the purely recursive kinds -/
theorem readKind_shift {k : Kind F} (hk : OnePred k) (x : Ctx F) (d : Nat)
    (hd : (d : Int) + 1 ≤ x.i) (hi : x.i < x.cs.length) (hs : Seeded k x) :
    readKind k (x.shift d) = readKind k x := by
  cases hk with
  | hla => exact hla_shift x d (by omega)
  | tr => exact tr_shift x d hd hi
  | obv => exact obv_shift x d hd hi
  | counter input cv => exact counter_shift x d input cv hd hi
  | ema p input sm => exact ema_shift_seeded x d p input sm hd hi hs
  | rma p input => exact rma_shift_seeded x d p input hd hi hs

/-- the same through the engine's dispatch (`calcKind`, any helper services): same reading, and
the returned candle list is the trimmed one -/
theorem calcKind_shift (ops ops' : Ops F) (ind : Ind F) (hk : OnePred ind.kind) (cs : List (Candle F))
    (i : Int) (d : Nat) (hd : (d : Int) + 1 ≤ i) (hi : i < cs.length)
    (hs : Seeded ind.kind { cs := cs, i := i, name := ind.name }) :
    calcKind ops' ind { cs := cs.drop d, i := i - d, name := ind.name }
      = (calcKind ops ind { cs := cs, i := i, name := ind.name }).map (fun r => (r.1, r.2.drop d)) := by
  rw [calcKind_readOnly _ _ _ hk.readOnly, calcKind_readOnly _ _ _ hk.readOnly]
  have := readKind_shift hk { cs := cs, i := i, name := ind.name } d hd hi hs
  unfold Ctx.shift at this
  simp only at this
  rw [this]
  cases readKind ind.kind { cs := cs, i := i, name := ind.name } <;> rfl

end Hex

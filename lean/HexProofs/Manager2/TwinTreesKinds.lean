import HexProofs.Footprint.Kinds
/-
C15, second clause, for indicator TREES – part 1: the DROP law of `_calculate_reading` for every
kind, including the kinds that write helper series / drive managed children while computing (HMA,
STDEV, Supertrend, RSI, MACD, STOCH, TSI, ADX, VWAP).

`DRel d m' m` relates the computation `m'` on the list whose first `d` candles were popped with the
computation `m` on the untrimmed list: WHEN BOTH RETURN, the reading is the same and the returned
candles are the untrimmed ones minus the popped ones.  (The two-sided "both return" form composes
through `bind` and lets the engine theorem of part 2 run the two sides with DIFFERENT fuels – the
trimmed list is shorter, so the object gives it less fuel.)

`calcKind_drop`: with helper services that commute with popping (`OpsDrop`), `calcKind` on the shifted
context is `DRel`-related to `calcKind` on the original context as soon as one predecessor and the
kind's own look-back `kwin` are retained.  The read-only kinds are `Foot.footprint_calcKind`.
-/
namespace Hex
set_option linter.unusedSectionVars false
set_option linter.unusedSimpArgs false
variable {F : Type} [PyF F]

/-- weak two-sided relation: when both computations return, the trimmed result is the untrimmed
one with the candles dropped -/
def DRel (d : Nat) (m' m : PyM (Val F × List (Candle F))) : Prop :=
  ∀ r' r, m' = .ok r' → m = .ok r → r' = (r.1, r.2.drop d)

/-- helper services on the trimmed list vs. on the untrimmed one (lists of length `n`) -/
structure OpsDrop (d n : Nat) (ops' ops : Ops F) : Prop where
  hset : ∀ key v (cs a b : List (Candle F)), cs.length = n → ops'.setManaged key v (cs.drop d) = .ok a →
    ops.setManaged key v cs = .ok b → a = b.drop d ∧ b.length = n
  hcalc : ∀ key (cs a b : List (Candle F)), cs.length = n → ops'.calcManaged key (cs.drop d) = .ok a →
    ops.calcManaged key cs = .ok b → a = b.drop d ∧ b.length = n

namespace DRel
variable {d : Nat}

theorem bind_same {α : Type} (m : PyM α) (f' f : α → PyM (Val F × List (Candle F)))
    (h : ∀ a, m = .ok a → DRel d (f' a) (f a)) : DRel d (m >>= f') (m >>= f) := by
  intro r' r h1 h2
  cases m with
  | error e => cases h1
  | ok a => exact h a rfl r' r h1 h2

theorem bind_list (m' m : PyM (List (Candle F))) (f' f : List (Candle F) → PyM (Val F × List (Candle F)))
    (n : Nat)
    (hm : ∀ a b, m' = .ok a → m = .ok b → a = b.drop d ∧ b.length = n)
    (h : ∀ b, b.length = n → DRel d (f' (b.drop d)) (f b)) : DRel d (m' >>= f') (m >>= f) := by
  intro r' r h1 h2
  cases m' with
  | error e => cases h1
  | ok a =>
    cases m with
    | error e => cases h2
    | ok b =>
      obtain ⟨rfl, hb⟩ := hm a b rfl rfl
      exact h b hb r' r h1 h2

theorem pure_pair (v : Val F) (cs : List (Candle F)) :
    DRel d (pure (v, cs.drop d)) (pure (v, cs)) := by
  intro r' r h1 h2; cases h1; cases h2; rfl

theorem ite {c : Prop} [Decidable c] {a' b' a b : PyM (Val F × List (Candle F))}
    (ha : c → DRel d a' a) (hb : ¬ c → DRel d b' b) :
    DRel d (if c then a' else b') (if c then a else b) := by
  by_cases hc : c
  · simp only [hc, if_true]; exact ha hc
  · simp only [hc, if_false]; exact hb hc

theorem err_left {e : PyErr} {m : PyM (Val F × List (Candle F))} : DRel d (.error e) m := by
  intro r' r h1; cases h1

end DRel

theorem Ctx.reading_drop_cur (cs : List (Candle F)) (i : Int) (nm : String) (d : Nat) (name : String)
    (h : (d : Int) ≤ i) :
    Ctx.reading { cs := cs.drop d, i := i - d, name := nm } name none
      = Ctx.reading { cs := cs, i := i, name := nm } name none :=
  Ctx.reading_shift_cur { cs := cs, i := i, name := nm } d name h

theorem Ctx.num_drop_cur (cs : List (Candle F)) (i : Int) (nm : String) (d : Nat) (name : String)
    (h : (d : Int) ≤ i) :
    Ctx.num { cs := cs.drop d, i := i - d, name := nm } name none
      = Ctx.num { cs := cs, i := i, name := nm } name none :=
  Ctx.num_shift_cur { cs := cs, i := i, name := nm } d name h

theorem updateAt_drop (cs : List (Candle F)) (i : Int) (d : Nat) (g : Candle F → Candle F)
    (hd : (d : Int) ≤ i) :
    updateAt (cs.drop d) (i - d) g = (updateAt cs i g).map (·.drop d) := by
  unfold updateAt
  have a1 : ¬ (i - (d : Int) < 0) := by omega
  have a2 : ¬ (i < 0) := by omega
  simp only [a1, a2, if_false, List.length_drop, false_or]
  by_cases hc : i ≥ (cs.length : Int)
  · have hc' : i - (d : Int) ≥ ((cs.length - d : Nat) : Int) := by omega
    rw [if_pos hc, if_pos hc']; rfl
  · have hc' : ¬ (i - (d : Int) ≥ ((cs.length - d : Nat) : Int)) := by omega
    rw [if_neg hc, if_neg hc']
    simp only [Except.map]
    congr 1
    have : (i - (d : Int)).toNat = i.toNat - d := by omega
    rw [this]
    exact (List.drop_modify_of_ge _ i.toNat d cs (by omega)).symm

theorem updateAt_len (cs b : List (Candle F)) (i : Int) (g : Candle F → Candle F)
    (hb : updateAt cs i g = .ok b) : b.length = cs.length := by
  unfold updateAt at hb
  simp only at hb
  generalize (if i < 0 then (cs.length : Int) + i else i) = j at hb
  by_cases hc : j < 0 ∨ j ≥ (cs.length : Int)
  · rw [if_pos hc] at hb; cases hb
  · rw [if_neg hc] at hb; cases hb; simp

theorem updateAt_drop_rel (cs : List (Candle F)) (i : Int) (d : Nat) (g : Candle F → Candle F)
    (hd : (d : Int) ≤ i) (a b : List (Candle F)) (ha : updateAt (cs.drop d) (i - d) g = .ok a)
    (hb : updateAt cs i g = .ok b) : a = b.drop d ∧ b.length = cs.length := by
  rw [updateAt_drop cs i d g hd, hb] at ha
  exact ⟨by cases ha; rfl, updateAt_len cs b i g hb⟩

macro "drel_step" hops:ident hd0:ident : tactic => `(tactic| first
  | exact DRel.pure_pair _ _
  | exact DRel.err_left
  | (refine DRel.bind_list _ _ _ _ _
      (fun a b ha hb => OpsDrop.hset $hops _ _ _ a b (by first | rfl | assumption) ha hb) (fun _ _ => ?_)
     try simp only [Ctx.reading_drop_cur _ _ _ _ _ $hd0, Ctx.num_drop_cur _ _ _ _ _ $hd0])
  | (refine DRel.bind_list _ _ _ _ _
      (fun a b ha hb => OpsDrop.hcalc $hops _ _ a b (by first | rfl | assumption) ha hb) (fun _ _ => ?_)
     try simp only [Ctx.reading_drop_cur _ _ _ _ _ $hd0, Ctx.num_drop_cur _ _ _ _ _ $hd0])
  | refine DRel.bind_same _ _ _ (fun _ _ => ?_)
  | refine DRel.ite (fun _ => ?_) (fun _ => ?_)
  | (split <;> (try dsimp only)))

macro "drel_walk" hops:ident hd0:ident : tactic => `(tactic| repeat' (drel_step $hops $hd0))

section kinds
variable (ops' ops : Ops F) (x : Ctx F) (d : Nat) (hd : (d : Int) + 1 ≤ x.i) (hi : x.i < x.cs.length)
  (hops : OpsDrop d x.cs.length ops' ops)
include hd hi hops

theorem vwap_drop : DRel d (Calc.vwap ops' (x.shift d)) (Calc.vwap ops x) := by
  unfold Calc.vwap
  have hd0 : (d : Int) ≤ x.i := by omega
  simp only [Ctx.shift_name, Ctx.shift_cs, Ctx.prevExists_shift x d _ hd hi,
    Ctx.num_shift_cur x d _ (by omega : (d : Int) ≤ x.i), Ctx.prevNum_shift x d _ hd hi]
  drel_walk hops hd0

theorem hma_drop : DRel d (Calc.hma ops' (x.shift d)) (Calc.hma ops x) := by
  unfold Calc.hma
  have hd0 : (d : Int) ≤ x.i := by omega
  simp only [Ctx.shift_name, Ctx.shift_cs, Ctx.shift_i, Ctx.reading_shift_cur x d _ hd0,
    Ctx.num_shift_cur x d _ hd0]
  drel_walk hops hd0

theorem supertrend_drop (m : Num F) : DRel d (Calc.supertrend ops' (x.shift d) m) (Calc.supertrend ops x m) := by
  unfold Calc.supertrend
  have hd0 : (d : Int) ≤ x.i := by omega
  simp only [Ctx.shift_name, Ctx.shift_cs, Ctx.shift_i, Ctx.reading_shift_cur x d _ hd0,
    Ctx.num_shift_cur x d _ hd0, Ctx.prevExists_shift x d _ hd hi, Ctx.prevNum_shift x d _ hd hi,
    Ctx.prevReading_shift x d _ hd hi]
  drel_walk hops hd0

theorem tsi_drop (input : String) : DRel d (Calc.tsi ops' (x.shift d) input) (Calc.tsi ops x input) := by
  unfold Calc.tsi
  have hd0 : (d : Int) ≤ x.i := by omega
  simp only [Ctx.shift_name, Ctx.shift_cs, Ctx.shift_i, Ctx.reading_shift_cur x d _ hd0,
    Ctx.num_shift_cur x d _ hd0, Ctx.prevNum_shift x d _ hd hi,
    Foot.readingPeriod_shift' x d 2 _ hd0 (by omega)]
  drel_walk hops hd0

theorem macd_drop : DRel d (Calc.macd ops' (x.shift d)) (Calc.macd ops x) := by
  unfold Calc.macd
  have hd0 : (d : Int) ≤ x.i := by omega
  simp only [Ctx.shift_name, Ctx.shift_cs, Ctx.shift_i, Ctx.reading_shift_cur x d _ hd0,
    Ctx.num_shift_cur x d _ hd0]
  repeat' (first
    | refine DRel.bind_list _ _ _ _ _ (updateAt_drop_rel _ _ _ _ hd0) (fun _ _ => ?_)
    | drel_step hops hd0)


theorem stdev_drop (p : Int) (input : String) (hw : (d : Int) + p ≤ x.i) :
    DRel d (Calc.stdev ops' (x.shift d) p input) (Calc.stdev ops x p input) := by
  unfold Calc.stdev
  have hd0 : (d : Int) ≤ x.i := by omega
  have e : x.i - (d : Int) - p = (x.i - p) - d := by omega
  simp only [Ctx.shift_name, Ctx.shift_cs, Ctx.shift_i, e, Ctx.reading_shift_cur x d _ hd0,
    Ctx.num_shift x d _ (x.i - p) (by omega), Ctx.prevExists_shift x d _ hd hi, Ctx.prevNum_shift x d _ hd hi,
    Foot.readingPeriod_shift_at x d (p + 1) _ hd0 (by omega)]
  drel_walk hops hd0

theorem adx_drop : DRel d (Calc.adx ops' (x.shift d)) (Calc.adx ops x) := by
  unfold Calc.adx
  have hd0 : (d : Int) ≤ x.i := by omega
  have e1 : (x.i - (d : Int) > 0) = True := eq_true (by omega)
  have e2 : (x.i > 0) = True := eq_true (by omega)
  have e : x.i - (d : Int) - 1 = (x.i - 1) - d := by omega
  simp only [Ctx.shift_name, Ctx.shift_cs, Ctx.shift_i, e1, e2, e, decide_true, Bool.not_true,
    Bool.false_eq_true, if_false, Ctx.num_shift_cur x d _ hd0,
    Ctx.num_shift x d _ (x.i - 1) (by omega)]
  drel_walk hops hd0

theorem stoch_drop (p : Int) (input : String) (hw : (d : Int) + p ≤ x.i + 1) :
    DRel d (Calc.stoch ops' (x.shift d) p input) (Calc.stoch ops x p input) := by
  unfold Calc.stoch
  have hd0 : (d : Int) ≤ x.i := by omega
  have e1 : x.i - (d : Int) - (p - 1) = (x.i - (p - 1)) - d := by omega
  have e2 : x.i - (d : Int) + 1 = (x.i + 1) - d := by omega
  have hm : ∀ (nm : String), List.mapM (fun i => (x.shift d).num nm (some i))
        (List.map (fun j => j - (d : Int)) (pyRange (x.i - (p - 1)) (x.i + 1)))
      = List.mapM (fun i => x.num nm (some i)) (pyRange (x.i - (p - 1)) (x.i + 1)) := by
    intro nm
    apply Foot.mapM_shift
    intro j hj
    have := (Ana.mem_pyRange _ _ _).1 hj
    exact Ctx.num_shift x d nm j (by omega)
  simp only [Ctx.shift_name, Ctx.shift_cs, Ctx.shift_i, e1, e2, Ctx.num_shift_cur x d _ hd0,
    Foot.readingPeriod_shift' x d p _ hd0 hw, Foot.pyRange_sub, hm]
  drel_walk hops hd0

theorem rsi_drop (p : Int) (input : String) (hw : (d : Int) + p ≤ x.i) :
    DRel d (Calc.rsi ops' (x.shift d) p input) (Calc.rsi ops x p input) := by
  unfold Calc.rsi
  have hd0 : (d : Int) ≤ x.i := by omega
  have e1 : x.i - (d : Int) - (p - 1) = (x.i - (p - 1)) - d := by omega
  have e2 : x.i - (d : Int) + 1 = (x.i + 1) - d := by omega
  have hm : List.mapM (fun i => do
          let a ← (x.shift d).num input (some i)
          let b ← (x.shift d).num input (some (i - 1))
          pure (a.sub b))
        (List.map (fun j => j - (d : Int)) (pyRange (x.i - (p - 1)) (x.i + 1)))
      = List.mapM (fun i => do
          let a ← x.num input (some i)
          let b ← x.num input (some (i - 1))
          pure (a.sub b)) (pyRange (x.i - (p - 1)) (x.i + 1)) := by
    apply Foot.mapM_shift
    intro j hj
    have := (Ana.mem_pyRange _ _ _).1 hj
    rw [Ctx.num_shift x d input j (by omega), show j - (d : Int) - 1 = (j - 1) - d by omega,
      Ctx.num_shift x d input (j - 1) (by omega)]
  simp only [Ctx.shift_name, Ctx.shift_cs, Ctx.shift_i, e1, e2, Ctx.num_shift_cur x d _ hd0,
    Ctx.prevExists_shift x d _ hd hi, Ctx.prevNum_shift x d _ hd hi,
    Foot.readingPeriod_shift' x d (p + 1) _ hd0 (by omega), Foot.pyRange_sub, hm,
    Ctx.reading_drop_cur _ _ _ _ _ hd0, Ctx.num_drop_cur _ _ _ _ _ hd0]
  drel_walk hops hd0

end kinds

/-- look-back of a kind's own `_calculate_reading` (its children not included): `Hex.window` on the
read-only kinds, and for the kinds that write helper series while computing the candles their own
formula reads -/
def kwin : Kind F → Nat
  | .hma _ _ => 0
  | .stdev p _ => max p.toNat 1
  | .supertrend _ _ _ => 1
  | .rsi p _ => max p.toNat 1
  | .macd _ _ _ _ => 0
  | .stoch p _ _ _ => (p - 1).toNat
  | .tsi _ _ _ => 1
  | .adx _ _ => 1
  | .vwap _ => 1
  | k => (window k).getD 0

theorem DRel.of_eq {d : Nat} {m' m : PyM (Val F × List (Candle F))}
    (h : m' = m.map (fun r => (r.1, r.2.drop d))) : DRel d m' m := by
  intro r' r h1 h2
  rw [h, h2] at h1
  cases h1; rfl

/-- **Drop law of `_calculate_reading`, every kind**: with helper services that commute with popping
`d` candles, the reading at index `i - d` of the popped list is the reading at `i` of the full list and
the returned candles are the popped ones – as soon as the kind's own look-back (and one predecessor)
is retained. -/
theorem calcKind_drop (ops' ops : Ops F) (ind : Ind F) (x : Ctx F) (d : Nat)
    (hd : (d : Int) + 1 ≤ x.i) (hi : x.i < x.cs.length) (hw : (d : Int) + kwin ind.kind ≤ x.i)
    (hnm : x.name = ind.name)
    (hops : OpsDrop d x.cs.length ops' ops) :
    DRel d (calcKind ops' ind (x.shift d)) (calcKind ops ind x) := by
  by_cases hro : ind.kind.readOnly = true
  · obtain ⟨W, hW⟩ : ∃ W, window ind.kind = some W := by
      have := window_isSome_iff ind.kind
      rw [hro] at this
      exact Option.isSome_iff_exists.1 this
    have hk : kwin ind.kind = W := by
      cases hq : ind.kind <;> rw [hq] at hW hro <;> first | (cases hro; done) | (simp [kwin, hW] at *)
    apply DRel.of_eq
    obtain ⟨cs, i, nm⟩ := x
    simp only at hnm; subst hnm
    exact footprint_calcKind ops ops' ind W hW cs i d (by rw [hk] at hw; simpa using hw) hi
  · unfold calcKind
    cases hq : ind.kind <;> rw [hq] at hro hw <;> first
      | (exfalso; exact hro rfl)
      | skip
    all_goals simp only [kwin] at hw
    · exact hma_drop ops' ops x d hd hi hops
    · exact stdev_drop ops' ops x d hd hi hops _ _ (by omega)
    · exact supertrend_drop ops' ops x d hd hi hops _
    · exact rsi_drop ops' ops x d hd hi hops _ _ (by omega)
    · exact macd_drop ops' ops x d hd hi hops
    · exact stoch_drop ops' ops x d hd hi hops _ _ (by omega)
    · exact tsi_drop ops' ops x d hd hi hops _
    · exact adx_drop ops' ops x d hd hi hops
    · exact vwap_drop ops' ops x d hd hi hops
end Hex

import HexProofs.Framework.Gen.ADX
import HexProofs.Numeric.Adx
import HexProofs.Numeric.SeriesMACD
import HexProofs.Numeric.SeriesSupertrend
/-!
# ADX: the whole series (closes the ADX item of `C06_FULL`)

`adxTree name round p signal` (HexProofs/Framework/Gen/ADX.lean) is the `TreeSpec` of an ADX node: a prior
ATR helper `<name>_atr` (with its own prior TR leaf `<name>_atr_TR`), a `Managed` holder `<name>_data`
with two non-prior RMA leaves `<name>_pos` / `<name>_neg` over `<name>_data.pos` / `<name>_data.neg`, and a
managed RMA leaf `<name>_dx` over `<name>_data.dx`, driven with `calculate_index(i)` from inside the node's
own `_calculate_reading`.  Its row step is "TR; ATR; own step" (`adx_rowStep`).  This file proves, for
EVERY raw candle list, what the row-major run – and hence the engine's `calculate()`, the batch run and
every append schedule (`TreeSpec.engine`, `batch_iff`, `live_refines`) – stores on every candle.

What the model (HexModel/Ind/Composite.lean `Calc.adx`, HexModel/Ind/Simple.lean `Calc.rma`, `children` in
HexModel/Core/Eval.lean) actually does – found by reading it and cross-checked against the Python class on
the demo candles –, and what is therefore stated here (`p` = `period`, `s` = `period_signal`, both `≥ 1`):

* **ATR subtree**: as in `SeriesATR` / `SeriesSupertrend`: `<name>_atr_TR` = `trStored` (`None` on candle 0,
  then the true range rounded to 4 decimals), `<name>_atr` = `stAtrStored p` (`None` on candles `0 … p−1`, the
  rounded mean of the stored `TR₁ … TR_p` on candle `p`, then Wilder's recurrence on the STORED predecessor).
* **`<name>_data`** (`Managed.set_reading`: NOT rounded): nothing on candle 0 (the reading is guarded by
  `index > 0`); `{pos, neg}` on candles `1 … p−1`; `{pos, neg, dx}` from candle `p` on.  `pos` / `neg` are the
  numbers `dmPN` / `dmNN` (ints stay ints) with values `dmPlusAt` / `dmMinusAt` = the textbook `+DM` / `−DM` of
  consecutive highs and lows (`dmPlusAt_eq`: the larger positive move, `0` otherwise, in particular on ties).
* **`<name>_pos`, `<name>_neg`** (RMA leaves, rounded to `defaultRound = 4`): the input columns start at
  candle 1, so `reading_period(p)` first holds on candle `p` (NOT `p − 1`): `None` on candles `1 … p−1` (no
  entry at all on candle 0), on candle `p` the decay-weighted mean of the movements of candles `1 … p` (newest
  weighted 1, weights `(1−1/p)^k`, as `C04.rma_series`), then `round₄(x_j/p + (1−1/p)·prev)` on the STORED
  predecessor: `rmaCol p 1`.  The second `set_reading` of the step recomputes both with the same result.
* **guard**: ATR and `<name>_pos` both get their first reading on candle `p`; below it the own dict is the
  all-`None` dict `adxNone3` and `<name>_dx` is not touched (no entry).
* **`DI±`** (UNROUNDED, `adxPlusU` / `adxMinusU`): `mod·pos`, `mod·neg` on the STORED (4-decimal) ATR and smoothed
  movements, `mod = 100/ATR`, `0` for a zero ATR.  **`dx`** (`adxDxU`, stored UNROUNDED in `<name>_data`):
  `100·|DI+ − DI−|/(DI+ + DI−)` on those unrounded indices, `0` when the sum is `0`.
* **`<name>_dx`** (RMA leaf, period `s`, 4 decimals) over the `dx` column, which starts at candle `p`: `None` on
  candles `p … p+s−2`, seed on candle `p + s − 1`, then Wilder's recurrence on the stored predecessor:
  `rmaCol s p adxDxU`.
* **own dict** (`adxOwn`, rounded to the node's `round_value = n`): `adxNone3` below candle `p`; from `p` on
  `{ADX: round_n (<name>_dx reading) – None up to candle p+s−2 –, DM_Plus: round_n DI+, DM_Neg: round_n DI−}`
  (so `ADX` is rounded twice: to 4 decimals as a helper reading, then to `n`).

Main results: `adx_series` (the run returns EXACTLY `adxOut`, an explicit function of the raw candles),
`adx_engine`, `adx_batch`, `adx_batch_out`, `adx_live`; the numeric layer `adxPosV_ok` / `adxNegV_ok` (`RecOK`
against the TEXTBOOK smoothed movements, budget `p·ε₄`: their inputs are exact), `adxV_ok` (`RecOK` against the
Wilder average of the `dx` column read, budget `s·ε₄`), the exact ranges `adxDxU_range` (`0 ≤ DX ≤ 100`),
`adxF_range` (`0 ≤ ADX ≤ 100`), `adxOwn_ranges` (`0 ≤ DI±`, `0 ≤ ADX ≤ 100` for the stored dict – no budget is
needed), and the budgets against the exact textbook series `adxDiPlusE`, `adxDxE`, `adxE` where the denominators
are bounded away from 0 (`AdxCond`): `adxPlusU_err`, `adxDxU_err`, `adxF_err`, `adxOwn_ok`; and the
reading-by-reading forms `adx_series_readings`, `adx_engine_readings`, `adx_batch_readings`,
`adx_live_readings` (`AdxCandleOK`).
-/
set_option linter.unusedSectionVars false
set_option linter.unusedSimpArgs false
namespace Hex
namespace Numeric
variable {K : Type} [Field K] [LinearOrder K] [IsStrictOrderedRing K] [LawfulPyF K]

/-! ### the row step -/

theorem adx_rowStep (nm : String) (n : Nat) (p signal : Int) (hp : 1 ≤ p) (hs : 1 ≤ signal) (hn : AdxNames nm)
    (H : List (Candle K)) (c : Candle K) :
    Gen.rowStep (adxTree (F := K) nm n p signal hp hs hn).S H c = (do
      let t ← valOf (adxTr nm) H c
      let a ← valOf (adxA nm p) H (decOf (adxTr nm) t c)
      let z ← adxVal nm p signal H (decOf (adxA nm p) a (decOf (adxTr nm) t c))
      pure (H ++ [adxApp nm n z (decOf (adxA nm p) a (decOf (adxTr nm) t c))])) := by
  show Gen.rowStep ((adxComp nm n p signal hp hn).spec _) H c = _
  rw [TComp.rowStep_spec]
  show (do
    let z ← (do
      let x ← (do
        let t ← valOf (adxTr nm) H c
        let a ← valOf (adxA nm p) H (decOf (adxTr nm) t c)
        pure (t, a))
      let q ← adxVal nm p signal H (decOf (adxA nm p) x.2 (decOf (adxTr nm) x.1 c))
      pure (x, q))
    pure (H ++ [adxApp nm n z.2 (decOf (adxA nm p) z.1.2 (decOf (adxTr nm) z.1.1 c))])) = _
  cases valOf (adxTr nm) H c with
  | error e => rfl
  | ok t =>
    simp only [bind, Except.bind]
    cases valOf (adxA nm p) H (decOf (adxTr nm) t c) with
    | error e => rfl
    | ok a =>
      simp only [pure, Except.pure]
      cases adxVal nm p signal H (decOf (adxA nm p) a (decOf (adxTr nm) t c)) with
      | error e => rfl
      | ok z => rfl

/-! ### the stored RMA column over an input column that starts late -/

/-- the STORED Wilder average (RMA, `a = 1/q`) over an input column `x` that starts at index `o`:
the decay-weighted mean of `x o … x (o+q−1)` rounded to `defaultRound = 4` decimals at index
`o + q − 1` (and, by convention, before it), then `round₄(x j / q + (1 − 1/q)·prev)` on the STORED
predecessor -/
def rmaColF (q o : Nat) (x : Nat → K) : Nat → K
  | 0 => PyF.round defaultRound (decayMean x q (o + q - 1))
  | j + 1 => if j + 1 < o + q then PyF.round defaultRound (decayMean x q (o + q - 1))
             else PyF.round defaultRound (1 / (q : K) * x (j + 1) + (1 - 1 / (q : K)) * rmaColF q o x j)

theorem rmaColF_seed (q o : Nat) (x : Nat → K) (j : Nat) (h : j < o + q) :
    rmaColF q o x j = PyF.round defaultRound (decayMean x q (o + q - 1)) := by
  cases j with
  | zero => rfl
  | succ i => simp [rmaColF, h]

theorem rmaColF_step (q o : Nat) (x : Nat → K) (j : Nat) (h : o + q ≤ j) (hq : 1 ≤ q) :
    rmaColF q o x j = PyF.round defaultRound (1 / (q : K) * x j + (1 - 1 / (q : K)) * rmaColF q o x (j - 1)) := by
  obtain ⟨i, rfl⟩ : ∃ i, j = i + 1 := ⟨j - 1, by omega⟩
  have : ¬ i + 1 < o + q := by omega
  simp [rmaColF, this]

/-- the stored reading: `None` before the seed index `o + q − 1` -/
def rmaCol (q o : Nat) (x : Nat → K) (j : Nat) : Val K :=
  if j + 1 < o + q then .none else .flt (rmaColF q o x j)

theorem rmaCol_none (q o : Nat) (x : Nat → K) (j : Nat) (h : j + 1 < o + q) : rmaCol q o x j = .none := by
  unfold rmaCol; rw [if_pos h]

theorem rmaCol_flt (q o : Nat) (x : Nat → K) (j : Nat) (h : o + q ≤ j + 1) :
    rmaCol q o x j = .flt (rmaColF q o x j) := by
  unfold rmaCol; rw [if_neg (by omega)]

/-- the textbook Wilder average of the column: seeded at `o + q − 1` with the decay-weighted mean of
the first `q` inputs (newest weighted 1, as `C04.rma_series`), then `r j = x j / q + (1 − 1/q)·r (j−1)` -/
def rmaColExact (q o : Nat) (x : Nat → K) : Nat → K :=
  recExact (1 / (q : K)) (decayMean x q (o + q - 1)) x (o + q)

theorem rmaColF_err (q o : Nat) (hq : 1 ≤ q) (x : Nat → K) (j : Nat) :
    |rmaColF q o x j - rmaColExact q o x j| ≤ eps K defaultRound / (1 / (q : K)) := by
  have hqK : (0 : K) < q := by exact_mod_cast (by omega : 0 < q)
  have ha0 : (0 : K) < 1 / (q : K) := by positivity
  have ha1 : 1 / (q : K) ≤ 1 := by rw [div_le_one hqK]; exact_mod_cast hq
  unfold rmaColExact
  induction j with
  | zero =>
    rw [rmaColF_seed _ _ _ _ (by omega), recExact_seed _ _ _ _ _ (by omega)]
    exact le_trans (LawfulPyF.round_err _ _) (eps_le_div _ _ ha0 ha1)
  | succ i ih =>
    by_cases h : i + 1 < o + q
    · rw [rmaColF_seed _ _ _ _ h, recExact_seed _ _ _ _ _ h]
      exact le_trans (LawfulPyF.round_err _ _) (eps_le_div _ _ ha0 ha1)
    · rw [rmaColF_step _ _ _ _ (by omega) hq, recExact_step _ _ _ _ _ (by omega) (by omega)]
      simp only [Nat.add_sub_cancel]
      exact ema_error_budget _ _ (x (i + 1)) _ _ ha0 ha1 ih

/-- the stored column is `RecOK` w.r.t. the textbook Wilder average: `None` before `o + q − 1`, then
within `ε₄/(1/q) = q·ε₄` -/
theorem rmaCol_ok (q o : Nat) (hq : 1 ≤ q) (x : Nat → K) (j : Nat) :
    RecOK (o + q) defaultRound (1 / (q : K)) (rmaColExact q o x) j (rmaCol q o x j) := by
  unfold rmaCol
  refine ⟨fun h => by rw [if_pos h], fun h => ?_⟩
  rw [if_neg (by omega)]
  exact ⟨_, rfl, rmaColF_err q o hq x j⟩

/-- **one RMA call inside a series.**  The call at index `H.length` on `H ++ [c]`, reading an input
column `g` that is `None` exactly below index `o` and carries the numbers `rn j` from `o` on, with
the own column so far equal to `rmaCol` -/
theorem rma_view_step (H : List (Candle K)) (c : Candle K) (own inp : String) (q o : Nat) (hq : 1 ≤ q)
    (g : Nat → Val K) (rn : Nat → Num K)
    (hH : ∀ j, j < H.length → readingByCandle (H.getD j default) inp = g j)
    (hc : readingByCandle c inp = g H.length)
    (hnone : ∀ j, j ≤ H.length → (g j).isNone = decide (j < o))
    (hnum : ∀ j, o ≤ j → j ≤ H.length → g j = .num (rn j))
    (hprev : Ctx.lastReading own H = if H.length = 0 then .none else
      rmaCol q o (fun j => (rn j).toF) (H.length - 1)) :
    ∃ v, Calc.rma (snocCtx H c own) (q : Int) inp = .ok v ∧
      v.roundBy defaultRound = rmaCol q o (fun j => (rn j).toF) H.length := by
  have hrd : ∀ j, j ≤ H.length → (snocCtx H c own).reading inp (some (j : Int)) = .ok (g j) := by
    intro j hj
    rw [snocCtx_reading H c own inp j hj]
    by_cases h : j < H.length
    · rw [if_pos h, hH j h]
    · have : j = H.length := by omega
      subst this
      rw [if_neg h, hc]
  have hper := snocCtx_period H c own inp o g hrd hnone q hq
  have hpr : (snocCtx H c own).prevReading (snocCtx H c own).name = .ok (Ctx.lastReading own H) :=
    Ctx.prevReading_append_cons H c [] own own
  have hqK : (0 : K) < q := by exact_mod_cast (by omega : 0 < q)
  have hqI : (((q : Nat) : Int) : K) ≠ 0 := by simpa using hqK.ne'
  have hd2 : (Num.int (q : Int) : Num K).toF ≠ 0 := by simpa using hqK.ne'
  by_cases h1 : H.length + 1 < o + q
  · have hpn : (snocCtx H c own).prevReading (snocCtx H c own).name = .ok .none := by
      rw [hpr, hprev]
      by_cases h0 : H.length = 0
      · simp [h0]
      · simp only [h0, if_false]
        exact congrArg _ (rmaCol_none _ _ _ _ (by omega))
    have hrp : (snocCtx H c own).readingPeriod (q : Int) inp = false := by
      rw [hper]; simp; omega
    refine ⟨.none, ?_, ?_⟩
    · simp [Calc.rma, Num.truediv_ok _ _ hd2, Ctx.prevExists_of hpn, hrp]
    · rw [rmaCol_none _ _ _ _ h1]; rfl
  · by_cases h2 : H.length + 1 = o + q
    · have hpn : (snocCtx H c own).prevReading (snocCtx H c own).name = .ok .none := by
        rw [hpr, hprev]
        by_cases h0 : H.length = 0
        · simp [h0]
        · simp only [h0, if_false]
          exact congrArg _ (rmaCol_none _ _ _ _ (by omega))
      have hrp : (snocCtx H c own).readingPeriod (q : Int) inp = true := by
        rw [hper]; simp; omega
      have hwin := rma_seed_window (snocCtx H c own) q inp (fun k => rn (H.length - k)) hpn hrp hq
        (by
          intro k hk
          have e : (snocCtx H c own).i - (k : Int) = ((H.length - k : Nat) : Int) := by
            show (H.length : Int) - (k : Int) = _; omega
          rw [e, hrd (H.length - k) (by omega), hnum _ (by omega) (by omega)])
      refine ⟨_, hwin, ?_⟩
      rw [rmaCol_flt _ _ _ _ (by omega), rmaColF_seed _ _ _ _ (by omega)]
      have e : o + q - 1 = H.length := by omega
      rw [e]
      rfl
    · have h3 : o + q ≤ H.length := by omega
      have h0 : H.length ≠ 0 := by omega
      have hpn : (snocCtx H c own).prevReading (snocCtx H c own).name
          = .ok (.num (.flt (rmaColF q o (fun j => (rn j).toF) (H.length - 1)))) := by
        rw [hpr, hprev]
        simp only [h0, if_false]
        exact congrArg _ (rmaCol_flt _ _ _ _ (by omega))
      have hcur' : (snocCtx H c own).reading inp = .ok (.num (rn H.length)) := by
        have := hrd H.length (le_refl _)
        rw [hnum _ (by omega) (le_refl _)] at this
        exact this
      refine ⟨_, rma_rec _ _ _ _ _ hpn hcur' hqI, ?_⟩
      rw [rmaCol_flt _ _ _ _ (by omega), rmaColF_step _ _ _ _ h3 hq]
      simp only [Num.toF_flt, Int.cast_natCast]
      rfl

/-! ### the prior helpers inside a series -/

/-- **the TR call inside a series**: on a history whose candles carry the raw candles' fields -/
theorem tr_view_step (H : List (Candle K)) (c : Candle K) (own : String) (raw : List (Candle K))
    (hH : ∀ j, j < H.length → readingByCandle (H.getD j default) "close" = .num (raw.getD j default).c)
    (hh : readingByCandle c "high" = .num (raw.getD H.length default).h)
    (hl : readingByCandle c "low" = .num (raw.getD H.length default).l)
    (hcl : readingByCandle c "close" = .num (raw.getD H.length default).c) :
    Calc.tr (snocCtx H c own) = .ok (if H.length = 0 then .none else .num (trNum raw H.length)) := by
  have hrh : (snocCtx H c own).reading "high" = .ok (.num (raw.getD H.length default).h) := by
    rw [Ctx.reading_cur H c [] own "high", hh]
  have hrl : (snocCtx H c own).reading "low" = .ok (.num (raw.getD H.length default).l) := by
    rw [Ctx.reading_cur H c [] own "low", hl]
  have hrd : ∀ j, j ≤ H.length → (snocCtx H c own).reading "close" (some (j : Int))
      = .ok (.num (raw.getD j default).c) := by
    intro j hj
    rw [snocCtx_reading H c own "close" j hj]
    by_cases h : j < H.length
    · rw [if_pos h, hH j h]
    · have : j = H.length := by omega
      subst this
      rw [if_neg h, hcl]
  have hper := snocCtx_period H c own "close" 0 (fun j => .num (raw.getD j default).c) hrd
    (fun j _ => by simp) 2 (by omega)
  by_cases h0 : H.length = 0
  · have hrp : (snocCtx H c own).readingPeriod 2 "close" = false := by
      have : (snocCtx H c own).readingPeriod ((2 : Nat) : Int) "close" = false := by
        rw [hper, decide_eq_false_iff_not]; omega
      exact this
    rw [tr_none _ _ _ hrh hrl hrp, if_pos h0]
  · have hrp : (snocCtx H c own).readingPeriod 2 "close" = true := by
      have : (snocCtx H c own).readingPeriod ((2 : Nat) : Int) "close" = true := by
        rw [hper, decide_eq_true_iff]; omega
      exact this
    have hpc : (snocCtx H c own).prevReading "close" = .ok (.num (raw.getD (H.length - 1) default).c) := by
      rw [Ctx.prevReading_append_cons H c [] own "close"]
      unfold Ctx.lastReading
      rw [List.getLast?_eq_getElem?]
      have := hH (H.length - 1) (by omega)
      rw [List.getD_eq_getElem?_getD, List.getElem?_eq_getElem (by omega)] at this
      rw [List.getElem?_eq_getElem (by omega)]
      simpa using this
    rw [if_neg h0]
    simp [Calc.tr, hrh, hrl, hrp, Ctx.prevNum_of hpc, trNum]

/-- **the ATR helper's call inside a series**: reading the stored true ranges, the own column so far
equal to `stAtrStored` -/
theorem atr_view_step (H : List (Candle K)) (c : Candle K) (own tn : String) (p : Nat) (hp : 1 ≤ p)
    (raw : List (Candle K))
    (hH : ∀ j, j < H.length → readingByCandle (H.getD j default) tn = trStored raw j)
    (hc : readingByCandle c tn = trStored raw H.length)
    (hprev : Ctx.lastReading own H = if H.length = 0 then .none else stAtrStored p raw (H.length - 1)) :
    ∃ w, Calc.atr (snocCtx H c own) (p : Int) tn = .ok w ∧
      w.roundBy defaultRound = stAtrStored p raw H.length := by
  have hpK : (0 : K) < p := by exact_mod_cast (by omega : 0 < p)
  have hpI : ((p : Int) : K) ≠ 0 := by simpa using hpK.ne'
  have hrd : ∀ j, j ≤ H.length → (snocCtx H c own).reading tn (some (j : Int)) = .ok (trStored raw j) := by
    intro j hj
    rw [snocCtx_reading H c own tn j hj]
    by_cases h : j < H.length
    · rw [if_pos h, hH j h]
    · have : j = H.length := by omega
      subst this
      rw [if_neg h, hc]
  have hper := snocCtx_period H c own tn 1 (trStored raw) hrd
    (fun j _ => by unfold trStored; by_cases h : j = 0 <;> simp [h]) p hp
  have hpr : (snocCtx H c own).prevReading (snocCtx H c own).name = .ok (Ctx.lastReading own H) :=
    Ctx.prevReading_append_cons H c [] own own
  by_cases h1 : H.length < p
  · have hpn : (snocCtx H c own).prevReading (snocCtx H c own).name = .ok .none := by
      rw [hpr, hprev]
      by_cases h0 : H.length = 0
      · simp [h0]
      · simp only [h0, if_false]
        unfold stAtrStored
        rw [if_pos (by omega)]
    have hrp : (snocCtx H c own).readingPeriod (p : Int) tn = false := by
      rw [hper]; simp; omega
    refine ⟨.none, atr_none _ _ _ hpn hrp, ?_⟩
    unfold stAtrStored
    rw [if_pos h1]; rfl
  · by_cases h2 : H.length = p
    · have h0 : H.length ≠ 0 := by omega
      have hpn : (snocCtx H c own).prevReading (snocCtx H c own).name = .ok .none := by
        rw [hpr, hprev]
        simp only [h0, if_false]
        unfold stAtrStored
        rw [if_pos (by omega)]
      have hrp : (snocCtx H c own).readingPeriod (p : Int) tn = true := by
        rw [hper]; simp; omega
      have hwin := atr_seed_window (snocCtx H c own) p tn
        (fun j => (trNum raw (1 + j)).roundBy defaultRound) hpn hrp hp
        (by show (p : Int) ≤ (H.length : Int) + 1; omega) (by show (1 : Int) ≤ (H.length : Int); omega)
        (by
          intro j hj
          have e : (snocCtx H c own).i + 1 - (p : Int) + (j : Int) = ((1 + j : Nat) : Int) := by
            show (H.length : Int) + 1 - (p : Int) + (j : Int) = _; omega
          rw [e, hrd (1 + j) (by omega)]
          unfold trStored
          rw [if_neg (by omega)])
      refine ⟨_, hwin, ?_⟩
      unfold stAtrStored
      rw [if_neg h1, stAtr_seed _ _ _ (by omega)]
      rfl
    · have h3 : p < H.length := by omega
      have h0 : H.length ≠ 0 := by omega
      have hpn : (snocCtx H c own).prevReading (snocCtx H c own).name
          = .ok (.num (.flt (stAtr p (trS raw) (H.length - 1)))) := by
        rw [hpr, hprev]
        simp only [h0, if_false]
        unfold stAtrStored
        rw [if_neg (by omega)]
      have htr : (snocCtx H c own).reading tn
          = .ok (.num ((trNum raw H.length).roundBy defaultRound)) := by
        have := hrd H.length (le_refl _)
        unfold trStored at this
        rw [if_neg h0] at this
        exact this
      have hrec := atr_rec (snocCtx H c own) p tn _ _ hpn htr hpI
      refine ⟨_, hrec, ?_⟩
      unfold stAtrStored
      rw [if_neg h1, stAtr_step _ _ _ h3]
      simp [Val.roundBy, Scalar.roundBy, Num.roundBy, trS]

/-! ### the candles of an ADX row -/

/-- what the node's own step stores besides its reading: nothing on candle 0, otherwise the
`<name>_data` dict, the two smoothed values and – past the guard – the `<name>_dx` reading -/
abbrev AdxSt (K : Type) := Option (Val K × Val K × Val K × Option (Val K))

/-- the candle after the two prior helper writes -/
def adxC2 (nm : String) (tv av : Val K) (c : Candle K) : Candle K :=
  setKey true (nm ++ "_atr") av (setKey true (nm ++ "_atr" ++ "_TR") tv c)

/-- the finished candle of an ADX row -/
def adxCand (nm : String) (tv av : Val K) (st : AdxSt K) (own : Val K) (c : Candle K) : Candle K :=
  setKey false nm own (adxStore nm st (adxC2 nm tv av c))

def AdxSt.pos : AdxSt K → Val K
  | none => .none
  | some (_, a, _, _) => a
def AdxSt.neg : AdxSt K → Val K
  | none => .none
  | some (_, _, b, _) => b
def AdxSt.dx : AdxSt K → Val K
  | some (_, _, _, some x) => x
  | _ => .none
def AdxSt.field (fld : String) : AdxSt K → Val K
  | none => .none
  | some (d, _, _, _) => d.nested fld

section cand
variable (nm : String) (hn : AdxNames nm) (tv av own : Val K) (st : AdxSt K) (c : Candle K)

theorem adxC2_bare : (adxC2 nm tv av c).bare = c.bare := by
  unfold adxC2; rw [bare_setKey, bare_setKey]

theorem adxCand_bare : (adxCand nm tv av st own c).bare = c.bare := by
  unfold adxCand
  rw [bare_setKey, (frameK_adxStore nm st _).1, adxC2_bare]

theorem adxCand_attr (input : String) (hd : NoDot input) (hin : input ∈ Candle.attrNames) :
    readingByCandle (adxCand nm tv av st own c) input = readingByCandle c input :=
  readingByCandle_attr_bare input hd hin _ _ (adxCand_bare nm tv av own st c)

theorem adxC2_attr (input : String) (hd : NoDot input) (hin : input ∈ Candle.attrNames) :
    readingByCandle (adxC2 nm tv av c) input = readingByCandle c input :=
  readingByCandle_attr_bare input hd hin _ _ (adxC2_bare nm tv av c)

include hn

theorem adxCand_own : readingByCandle (adxCand nm tv av st own c) nm = own := by
  rw [readingByCandle_key _ hn.kN]
  simp [adxCand, lookupKey, setKey, dlookup_dset_self]

theorem adxC2_inds (hc : Plain c) : (adxC2 nm tv av c).inds = [] := by
  unfold adxC2; simp [setKey, hc.1]

theorem adxC2_tr (hc : Plain c) : readingByCandle (adxC2 nm tv av c) (nm ++ "_atr" ++ "_TR") = tv := by
  rw [readingByCandle_key _ hn.kT]
  obtain ⟨hi, hs⟩ := hc
  have h1 := hn.AT
  simp only [adxC2, lookupKey]
  generalize nm ++ "_atr" ++ "_TR" = T at *
  generalize nm ++ "_atr" = A at *
  simp [setKey, hi, hs, dlookup_dset, dlookup, h1, h1.symm]

theorem adxC2_atr (hc : Plain c) : readingByCandle (adxC2 nm tv av c) (nm ++ "_atr") = av := by
  rw [readingByCandle_key _ hn.kA]
  obtain ⟨hi, hs⟩ := hc
  have h1 := hn.AT
  simp only [adxC2, lookupKey]
  generalize nm ++ "_atr" ++ "_TR" = T at *
  generalize nm ++ "_atr" = A at *
  simp [setKey, hi, hs, dlookup_dset, dlookup, h1, h1.symm]

theorem adxCand_tr (hc : Plain c) :
    readingByCandle (adxCand nm tv av st own c) (nm ++ "_atr" ++ "_TR") = tv := by
  rw [readingByCandle_key _ hn.kT]
  obtain ⟨hi, hs⟩ := hc
  have h1 := hn.AT; have h2 := hn.TD; have h3 := hn.TP; have h4 := hn.TG; have h5 := hn.TX; have h6 := hn.nT
  rcases st with _ | ⟨d, a, b, _ | x⟩ <;>
  · simp only [adxCand, adxC2, adxStore, adxSt, setD, lookupKey, AdxSt.pos, AdxSt.neg, AdxSt.dx, AdxSt.field]
    generalize nm ++ "_atr" ++ "_TR" = T at *
    generalize nm ++ "_atr" = A at *
    generalize nm ++ "_data" = D at *
    generalize nm ++ "_pos" = P at *
    generalize nm ++ "_neg" = G at *
    generalize nm ++ "_dx" = X at *
    simp [setKey, hi, hs, dlookup_dset, dlookup, h1, h1.symm,
      h2, h2.symm, h3, h3.symm, h4, h4.symm, h5, h5.symm, h6, h6.symm]

theorem adxCand_atr (hc : Plain c) :
    readingByCandle (adxCand nm tv av st own c) (nm ++ "_atr") = av := by
  rw [readingByCandle_key _ hn.kA]
  obtain ⟨hi, hs⟩ := hc
  have h1 := hn.AT; have h2 := hn.AD; have h3 := hn.AP; have h4 := hn.AG; have h5 := hn.AX; have h6 := hn.nA
  rcases st with _ | ⟨d, a, b, _ | x⟩ <;>
  · simp only [adxCand, adxC2, adxStore, adxSt, setD, lookupKey, AdxSt.pos, AdxSt.neg, AdxSt.dx, AdxSt.field]
    generalize nm ++ "_atr" ++ "_TR" = T at *
    generalize nm ++ "_atr" = A at *
    generalize nm ++ "_data" = D at *
    generalize nm ++ "_pos" = P at *
    generalize nm ++ "_neg" = G at *
    generalize nm ++ "_dx" = X at *
    simp [setKey, hi, hs, dlookup_dset, dlookup, h1, h1.symm,
      h2, h2.symm, h3, h3.symm, h4, h4.symm, h5, h5.symm, h6, h6.symm]

theorem adxCand_pos (hc : Plain c) :
    readingByCandle (adxCand nm tv av st own c) (nm ++ "_pos") = st.pos := by
  rw [readingByCandle_key _ hn.kP]
  obtain ⟨hi, hs⟩ := hc
  have h1 := hn.TP; have h2 := hn.AP; have h3 := hn.DP; have h4 := hn.PG; have h5 := hn.PX; have h6 := hn.nP
  rcases st with _ | ⟨d, a, b, _ | x⟩ <;>
  · simp only [adxCand, adxC2, adxStore, adxSt, setD, lookupKey, AdxSt.pos, AdxSt.neg, AdxSt.dx, AdxSt.field]
    generalize nm ++ "_atr" ++ "_TR" = T at *
    generalize nm ++ "_atr" = A at *
    generalize nm ++ "_data" = D at *
    generalize nm ++ "_pos" = P at *
    generalize nm ++ "_neg" = G at *
    generalize nm ++ "_dx" = X at *
    simp [setKey, hi, hs, dlookup_dset, dlookup, h1, h1.symm,
      h2, h2.symm, h3, h3.symm, h4, h4.symm, h5, h5.symm, h6, h6.symm]

theorem adxCand_neg (hc : Plain c) :
    readingByCandle (adxCand nm tv av st own c) (nm ++ "_neg") = st.neg := by
  rw [readingByCandle_key _ hn.kG]
  obtain ⟨hi, hs⟩ := hc
  have h1 := hn.TG; have h2 := hn.AG; have h3 := hn.DG; have h4 := hn.PG; have h5 := hn.GX; have h6 := hn.nG
  rcases st with _ | ⟨d, a, b, _ | x⟩ <;>
  · simp only [adxCand, adxC2, adxStore, adxSt, setD, lookupKey, AdxSt.pos, AdxSt.neg, AdxSt.dx, AdxSt.field]
    generalize nm ++ "_atr" ++ "_TR" = T at *
    generalize nm ++ "_atr" = A at *
    generalize nm ++ "_data" = D at *
    generalize nm ++ "_pos" = P at *
    generalize nm ++ "_neg" = G at *
    generalize nm ++ "_dx" = X at *
    simp [setKey, hi, hs, dlookup_dset, dlookup, h1, h1.symm,
      h2, h2.symm, h3, h3.symm, h4, h4.symm, h5, h5.symm, h6, h6.symm]

theorem adxCand_dx (hc : Plain c) :
    readingByCandle (adxCand nm tv av st own c) (nm ++ "_dx") = st.dx := by
  rw [readingByCandle_key _ hn.kX]
  obtain ⟨hi, hs⟩ := hc
  have h1 := hn.TX; have h2 := hn.AX; have h3 := hn.DX; have h4 := hn.PX; have h5 := hn.GX; have h6 := hn.nX
  rcases st with _ | ⟨d, a, b, _ | x⟩ <;>
  · simp only [adxCand, adxC2, adxStore, adxSt, setD, lookupKey, AdxSt.pos, AdxSt.neg, AdxSt.dx, AdxSt.field]
    generalize nm ++ "_atr" ++ "_TR" = T at *
    generalize nm ++ "_atr" = A at *
    generalize nm ++ "_data" = D at *
    generalize nm ++ "_pos" = P at *
    generalize nm ++ "_neg" = G at *
    generalize nm ++ "_dx" = X at *
    simp [setKey, hi, hs, dlookup_dset, dlookup, h1, h1.symm,
      h2, h2.symm, h3, h3.symm, h4, h4.symm, h5, h5.symm, h6, h6.symm]

theorem adxCand_field (fld full : String) (hsplit : splitDot full = [nm ++ "_data", fld]) (hc : Plain c) :
    readingByCandle (adxCand nm tv av st own c) full = st.field fld := by
  unfold readingByCandle
  rw [hsplit]
  obtain ⟨hi, hs⟩ := hc
  have h1 := hn.TD; have h2 := hn.AD; have h3 := hn.DP; have h4 := hn.DG; have h5 := hn.DX; have h6 := hn.nD
  rcases st with _ | ⟨d, a, b, _ | x⟩ <;>
  · simp only [adxCand, adxC2, adxStore, adxSt, setD, lookupKey, AdxSt.pos, AdxSt.neg, AdxSt.dx, AdxSt.field]
    generalize nm ++ "_atr" ++ "_TR" = T at *
    generalize nm ++ "_atr" = A at *
    generalize nm ++ "_data" = D at *
    generalize nm ++ "_pos" = P at *
    generalize nm ++ "_neg" = G at *
    generalize nm ++ "_dx" = X at *
    simp [setKey, hi, hs, dlookup_dset, dlookup, h1, h1.symm,
      h2, h2.symm, h3, h3.symm, h4, h4.symm, h5, h5.symm, h6, h6.symm]

end cand

/-! ### the node's own step, stage by stage -/

section stages
variable (nm : String) (p sg : Int) (H : List (Candle K)) (c : Candle K)

theorem adxVal_first (h : H.length = 0) : adxVal nm p sg H c = .ok (none, adxNone3) := by
  unfold adxVal
  simp [h]

theorem adxVal_eval (hi ph l pl : Num K) (hpos : 0 < H.length)
    (hh : readingByCandle c "high" = .num hi) (hph : Ctx.lastReading "high" H = .num ph)
    (hl : readingByCandle c "low" = .num l) (hpl : Ctx.lastReading "low" H = .num pl) :
    adxVal nm p sg H c = adxVal1 nm p sg H c (hi.sub ph) (pl.sub l) := by
  unfold adxVal
  have hd : (!decide ((H.length : Int) > 0)) = false := by simp; omega
  simp only [hd, Bool.false_eq_true, if_false, hh, hph, hl, hpl, Val.asNum_num, pym_bind_ok]

theorem adxVal1_eval (hi ph l pl : Num K) (a b : Val K)
    (ha : Calc.rma (snocCtx H (setKey true (nm ++ "_data")
        (sdict [("pos", sc (dmP hi ph l pl)), ("neg", sc (dmN hi ph l pl))]) c) (nm ++ "_pos"))
        p (nm ++ "_data.pos") = .ok a)
    (hb : Calc.rma (snocCtx H (setKey true (nm ++ "_pos") (a.roundBy defaultRound) (setKey true (nm ++ "_data")
        (sdict [("pos", sc (dmP hi ph l pl)), ("neg", sc (dmN hi ph l pl))]) c)) (nm ++ "_neg"))
        p (nm ++ "_data.neg") = .ok b) :
    adxVal1 nm p sg H c (hi.sub ph) (pl.sub l)
      = adxVal2 nm sg H c (dmP hi ph l pl) (dmN hi ph l pl) (a.roundBy defaultRound) (b.roundBy defaultRound) := by
  unfold adxVal1 adxSetV
  simp only []
  have ha' : Calc.rma (Ctx.mk (H ++ [setKey true (nm ++ "_data")
      (sdict [("pos", sc (if ((hi.sub ph).gt (pl.sub l) && (hi.sub ph).gt (.int 0)) = true then hi.sub ph else .int 0)),
        ("neg", sc (if ((pl.sub l).gt (hi.sub ph) && (pl.sub l).gt (.int 0)) = true then pl.sub l else .int 0))]) c])
      (H.length : Nat) (nm ++ "_pos") : Ctx K) p (nm ++ "_data.pos") = .ok a := ha
  rw [ha']
  simp only [pym_bind_ok]
  have hb' : Calc.rma (Ctx.mk (H ++ [setKey true (nm ++ "_pos") (a.roundBy defaultRound) (setKey true (nm ++ "_data")
      (sdict [("pos", sc (if ((hi.sub ph).gt (pl.sub l) && (hi.sub ph).gt (.int 0)) = true then hi.sub ph else .int 0)),
        ("neg", sc (if ((pl.sub l).gt (hi.sub ph) && (pl.sub l).gt (.int 0)) = true then pl.sub l else .int 0))]) c)])
      (H.length : Nat) (nm ++ "_neg") : Ctx K) p (nm ++ "_data.neg") = .ok b := hb
  rw [hb']
  rfl

theorem adxMid_eval {α : Type} (a ps ng : Num K) (Kf : Num K → Num K → Num K → PyM α) :
    adxMid (.num a) (.num ps) (.ok ng) Kf
      = Kf ((modNum a).mul ps) ((modNum a).mul ng) (dxNum ((modNum a).mul ps) ((modNum a).mul ng)) := by
  unfold adxMid
  simp only [Val.asNum_num, pym_bind_ok]
  by_cases h0 : a.toF = 0
  · have e0 : a.eq (.int 0) = true := by rw [Num.eq_iff]; simpa using h0
    have em : modNum a = fl 0 := by simp [modNum, h0]
    simp only [e0, if_true, pym_pure, pym_bind_ok, em]
    by_cases h1 : (((fl 0 : Num K).mul ps).add ((fl 0 : Num K).mul ng)).toF = 0
    · have e1 : (((fl 0 : Num K).mul ps).add ((fl 0 : Num K).mul ng)).eq (.int 0) = true := by
        rw [Num.eq_iff]; simp
      have ed : dxNum ((fl 0 : Num K).mul ps) ((fl 0 : Num K).mul ng) = fl 0 := by simp only [dxNum, h1, if_true]
      simp only [e1, if_true, pym_bind_ok, ed]
    · have e1 : (((fl 0 : Num K).mul ps).add ((fl 0 : Num K).mul ng)).eq (.int 0) = false := by
        rw [Num.eq_false_iff]; simp at h1
      have ed : dxNum ((fl 0 : Num K).mul ps) ((fl 0 : Num K).mul ng)
          = .flt (((Num.int 100).mul (((fl 0 : Num K).mul ps).sub ((fl 0 : Num K).mul ng)).abs).toF
                  / (((fl 0 : Num K).mul ps).add ((fl 0 : Num K).mul ng)).toF) := by
        simp only [dxNum, h1, if_false]
      simp only [e1, Bool.false_eq_true, if_false, Num.truediv_ok _ _ h1, pym_bind_ok, ed]
  · have e0 : a.eq (.int 0) = false := by rw [Num.eq_false_iff]; simpa using h0
    have em : modNum a = .flt ((Num.int 100 : Num K).toF / a.toF) := by simp only [modNum, h0, if_false]
    simp only [e0, Bool.false_eq_true, if_false, Num.truediv_ok _ _ h0, pym_pure, pym_bind_ok, em]
    generalize (Num.flt ((Num.int 100 : Num K).toF / a.toF)) = m
    by_cases h1 : ((m.mul ps).add (m.mul ng)).toF = 0
    · have e1 : ((m.mul ps).add (m.mul ng)).eq (.int 0) = true := by
        rw [Num.eq_iff]; simpa using h1
      have ed : dxNum (m.mul ps) (m.mul ng) = fl 0 := by simp only [dxNum, h1, if_true]
      simp only [e1, if_true, pym_bind_ok, ed]
    · have e1 : ((m.mul ps).add (m.mul ng)).eq (.int 0) = false := by
        rw [Num.eq_false_iff]; simpa using h1
      have ed : dxNum (m.mul ps) (m.mul ng)
          = .flt (((Num.int 100).mul ((m.mul ps).sub (m.mul ng)).abs).toF / ((m.mul ps).add (m.mul ng)).toF) := by
        simp only [dxNum, h1, if_false]
      simp only [e1, Bool.false_eq_true, if_false, Num.truediv_ok _ _ h1, pym_bind_ok, ed]

theorem adxVal2_none (P N : Num K) (a b : Val K)
    (h : readingByCandle (adxSt nm (sdict [("pos", sc P), ("neg", sc N)]) a b c) (nm ++ "_atr") = .none ∨
      readingByCandle (adxSt nm (sdict [("pos", sc P), ("neg", sc N)]) a b c) (nm ++ "_pos") = .none) :
    adxVal2 nm sg H c P N a b = .ok (some (sdict [("pos", sc P), ("neg", sc N)], a, b, none), adxNone3) := by
  unfold adxVal2
  rcases h with h | h
  · rw [h]; simp
  · rw [h]; simp

theorem adxVal2_some (P N : Num K) (a b : Val K) (av pv nv : Num K)
    (hA : readingByCandle (adxSt nm (sdict [("pos", sc P), ("neg", sc N)]) a b c) (nm ++ "_atr") = .num av)
    (hP : readingByCandle (adxSt nm (sdict [("pos", sc P), ("neg", sc N)]) a b c) (nm ++ "_pos") = .num pv)
    (hG : readingByCandle (adxSt nm (sdict [("pos", sc P), ("neg", sc N)]) a b c) (nm ++ "_neg") = .num nv) :
    adxVal2 nm sg H c P N a b
      = adxVal3 nm sg H c P N a b ((modNum av).mul pv) ((modNum av).mul nv)
          (dxNum ((modNum av).mul pv) ((modNum av).mul nv)) := by
  unfold adxVal2
  rw [hA, hP, hG]
  simp only [Val.isNone_num, Bool.or_self, Bool.false_eq_true, if_false, Val.asNum_num]
  exact adxMid_eval av pv nv _

theorem adxVal3_eval (P N : Num K) (a b : Val K) (plus minus dx : Num K) (x : Val K) (sx : Scalar K)
    (hx : Calc.rma (snocCtx H (adxSt nm (sdict [("pos", sc P), ("neg", sc N), ("dx", sc dx)]) a b c) (nm ++ "_dx"))
      sg (nm ++ "_data.dx") = .ok x)
    (hr : readingByCandle (setKey true (nm ++ "_dx") (x.roundBy defaultRound)
      (adxSt nm (sdict [("pos", sc P), ("neg", sc N), ("dx", sc dx)]) a b c)) (nm ++ "_dx") = .s sx) :
    adxVal3 nm sg H c P N a b plus minus dx
      = .ok (some (sdict [("pos", sc P), ("neg", sc N), ("dx", sc dx)], a, b, some (x.roundBy defaultRound)),
          sdict [("ADX", sx), ("DM_Plus", sc plus), ("DM_Neg", sc minus)]) := by
  unfold adxVal3 adxDxV
  have hx' : Calc.rma (Ctx.mk (H ++ [adxSt nm (sdict [("pos", sc P), ("neg", sc N), ("dx", sc dx)]) a b c])
      (H.length : Nat) (nm ++ "_dx") : Ctx K) sg (nm ++ "_data.dx") = .ok x := hx
  rw [hx']
  simp only [pym_bind_ok, pym_pure, hr]
  rfl

end stages

/-! ### the stored ADX series, as functions of the raw candles -/

section defs
variable (n p sg : Nat) (raw : List (Candle K))

/-- the `+DM` / `−DM` numbers the node computes on candle `j ≥ 1` (ints stay ints) -/
def dmPN (j : Nat) : Num K :=
  dmP (raw.getD j default).h (raw.getD (j - 1) default).h (raw.getD j default).l (raw.getD (j - 1) default).l
def dmNN (j : Nat) : Num K :=
  dmN (raw.getD j default).h (raw.getD (j - 1) default).h (raw.getD j default).l (raw.getD (j - 1) default).l

/-- the exact directional movements of candle `j ≥ 1` -/
def dmPlusAt (j : Nat) : K := (dmPN raw j).toF
def dmMinusAt (j : Nat) : K := (dmNN raw j).toF

/-- the stored smoothed directional movements `<name>_pos`, `<name>_neg` (4 decimals): Wilder
averages, period `p`, over the movement columns, which start at candle 1 -/
def adxPosF : Nat → K := rmaColF p 1 (dmPlusAt raw)
def adxNegF : Nat → K := rmaColF p 1 (dmMinusAt raw)
def adxPosV : Nat → Val K := rmaCol p 1 (dmPlusAt raw)
def adxNegV : Nat → Val K := rmaCol p 1 (dmMinusAt raw)

/-- the directional indices the node computes on candle `j ≥ p` (UNROUNDED):
`mod·pos`, `mod·neg` with `mod = 100/ATR` on the STORED ATR (0 for a zero ATR) -/
def adxPlusN (j : Nat) : Num K := (modNum (.flt (stAtr p (trS raw) j))).mul (.flt (adxPosF p raw j))
def adxMinusN (j : Nat) : Num K := (modNum (.flt (stAtr p (trS raw) j))).mul (.flt (adxNegF p raw j))

/-- the `dx` entry of `<name>_data` on candle `j ≥ p` (UNROUNDED) -/
def adxDxN (j : Nat) : Num K := dxNum (adxPlusN p raw j) (adxMinusN p raw j)
def adxDxU (j : Nat) : K := (adxDxN p raw j).toF

/-- the stored `<name>_dx` series (4 decimals): the Wilder average, period `signal`, of the `dx`
column, which starts at candle `p` -/
def adxF : Nat → K := rmaColF sg p (adxDxU p raw)
def adxV : Nat → Val K := rmaCol sg p (adxDxU p raw)

/-- the `ADX` field before the own rounding -/
def adxScal (j : Nat) : Scalar K := if j + 1 < p + sg then .none else .num (.flt (adxF p sg raw j))

theorem adxV_scal (j : Nat) : adxV p sg raw j = .s (adxScal p sg raw j) := by
  unfold adxV rmaCol adxScal adxF
  by_cases h : j + 1 < p + sg
  · rw [if_pos h, if_pos h]
  · rw [if_neg h, if_neg h]

/-- the `<name>_data` dict of candle `j ≥ 1` -/
def adxData (j : Nat) : Val K :=
  if j < p then sdict [("pos", sc (dmPN raw j)), ("neg", sc (dmNN raw j))]
  else sdict [("pos", sc (dmPN raw j)), ("neg", sc (dmNN raw j)), ("dx", sc (adxDxN p raw j))]

/-- what the own step stores on candle `j` besides its reading -/
def adxStAt (j : Nat) : AdxSt K :=
  if j = 0 then none
  else some (adxData p raw j, adxPosV p raw j, adxNegV p raw j, if j < p then none else some (adxV p sg raw j))

/-- the own dict of candle `j` before the own rounding -/
def adxOwnU (j : Nat) : Val K :=
  if j < p then adxNone3
  else sdict [("ADX", adxScal p sg raw j), ("DM_Plus", sc (adxPlusN p raw j)), ("DM_Neg", sc (adxMinusN p raw j))]

theorem adxStAt_pos (hp : 1 ≤ p) (j : Nat) : (adxStAt p sg raw j).pos = adxPosV p raw j := by
  unfold adxStAt
  by_cases h : j = 0
  · rw [if_pos h, h]
    exact (rmaCol_none _ _ _ _ (by omega)).symm
  · rw [if_neg h]; rfl

theorem adxStAt_neg (hp : 1 ≤ p) (j : Nat) : (adxStAt p sg raw j).neg = adxNegV p raw j := by
  unfold adxStAt
  by_cases h : j = 0
  · rw [if_pos h, h]
    exact (rmaCol_none _ _ _ _ (by omega)).symm
  · rw [if_neg h]; rfl

theorem adxStAt_dx (hp : 1 ≤ p) (hg : 1 ≤ sg) (j : Nat) : (adxStAt p sg raw j).dx = adxV p sg raw j := by
  unfold adxStAt
  by_cases h : j = 0
  · rw [if_pos h]
    exact (rmaCol_none _ _ _ _ (by omega)).symm
  · rw [if_neg h]
    by_cases h2 : j < p
    · rw [if_pos h2]
      exact (rmaCol_none _ _ _ _ (by omega)).symm
    · rw [if_neg h2]; rfl

theorem adxStAt_fpos (j : Nat) :
    (adxStAt p sg raw j).field "pos" = if j = 0 then .none else .num (dmPN raw j) := by
  unfold adxStAt adxData
  by_cases h : j = 0
  · rw [if_pos h, if_pos h]; rfl
  · rw [if_neg h, if_neg h]
    by_cases h2 : j < p
    · rw [if_pos h2]; rfl
    · rw [if_neg h2]; rfl

theorem adxStAt_fneg (j : Nat) :
    (adxStAt p sg raw j).field "neg" = if j = 0 then .none else .num (dmNN raw j) := by
  unfold adxStAt adxData
  by_cases h : j = 0
  · rw [if_pos h, if_pos h]; rfl
  · rw [if_neg h, if_neg h]
    by_cases h2 : j < p
    · rw [if_pos h2]; rfl
    · rw [if_neg h2]; rfl

theorem adxStAt_fdx (hp : 1 ≤ p) (j : Nat) :
    (adxStAt p sg raw j).field "dx" = if j < p then .none else .num (adxDxN p raw j) := by
  unfold adxStAt adxData
  by_cases h : j = 0
  · rw [if_pos h, if_pos (by omega)]; rfl
  · rw [if_neg h]
    by_cases h2 : j < p
    · simp only [h2, if_true]; rfl
    · simp only [h2, if_false]; rfl

end defs

/-! ### the finished candles -/

section rows
variable (nm : String) (n p sg : Nat) (raw : List (Candle K))

/-- candle `j` of an ADX run over `raw` -/
def adxRow (j : Nat) : Candle K :=
  adxCand nm (trStored raw j) (stAtrStored p raw j) (adxStAt p sg raw j) ((adxOwnU p sg raw j).roundBy n)
    (raw.getD j default)

/-- the first `m` finished candles -/
def adxRows (m : Nat) : List (Candle K) := (List.range m).map (adxRow nm n p sg raw)

/-- the finished candles of an ADX run over `raw` -/
def adxOut : List (Candle K) := adxRows nm n p sg raw raw.length

theorem adxRows_length (m : Nat) : (adxRows nm n p sg raw m).length = m := by
  simp [adxRows]

theorem adxRows_succ (m : Nat) :
    adxRows nm n p sg raw (m + 1) = adxRows nm n p sg raw m ++ [adxRow nm n p sg raw m] := by
  simp [adxRows, List.range_succ]

theorem adxRows_getD (m j : Nat) (hj : j < m) :
    (adxRows nm n p sg raw m).getD j default = adxRow nm n p sg raw j := by
  simp [adxRows, hj]

theorem adxRows_last (m : Nat) (key : String) :
    Ctx.lastReading key (adxRows nm n p sg raw m)
      = if m = 0 then .none else readingByCandle (adxRow nm n p sg raw (m - 1)) key := by
  cases m with
  | zero => rfl
  | succ k =>
    rw [adxRows_succ]
    unfold Ctx.lastReading
    simp

end rows

/-! ### one row -/

/-- the tree of `ADX(period, period_signal)` named `nm` with `round_value = n` -/
abbrev adxTreeN (nm : String) (n p sg : Nat) (hp : 1 ≤ p) (hg : 1 ≤ sg) (hn : AdxNames nm) :
    TreeSpec (mkTop (.adx (p : Int) (sg : Int) : Kind K) nm n) :=
  adxTree (F := K) nm n (p : Int) (sg : Int) (by omega) (by omega) hn

theorem adx_trVal_round (raw : List (Candle K)) (m : Nat) :
    (if m = 0 then (Val.none : Val K) else .num (trNum raw m)).roundBy defaultRound = trStored raw m := by
  unfold trStored
  by_cases h : m = 0 <;> simp [h, Val.roundBy, Scalar.roundBy]

section step
variable (nm : String) (n p sg : Nat) (hp : 1 ≤ p) (hg : 1 ≤ sg) (hn : AdxNames nm)
  (raw : List (Candle K)) (hraw : ∀ c ∈ raw, Plain c)

include hp hg hraw in
/-- **one row of the ADX run**: on the finished candles `0 … m−1` the row step at candle `m`
returns, and appends exactly `adxRow m` -/
theorem adx_row_step (m : Nat) (hm : m < raw.length) :
    Gen.rowStep (adxTreeN (K := K) nm n p sg hp hg hn).S (adxRows nm n p sg raw m) (raw.getD m default)
      = .ok (adxRows nm n p sg raw m ++ [adxRow nm n p sg raw m]) := by
  have hpl : ∀ j, j < raw.length → Plain (raw.getD j default) := fun j hj => getD_plain raw hraw j hj
  have hHl := adxRows_length nm n p sg raw m
  generalize hH : adxRows nm n p sg raw m = H at hHl
  have hHj : ∀ j, j < H.length → H.getD j default = adxRow nm n p sg raw j := by
    intro j hj; rw [← hH]; exact adxRows_getD nm n p sg raw m j (by omega)
  have hlast : ∀ key, Ctx.lastReading key H
      = if H.length = 0 then .none else readingByCandle (adxRow nm n p sg raw (H.length - 1)) key := by
    intro key; rw [← hH, adxRows_length]; exact adxRows_last nm n p sg raw m key
  have hc := hpl m hm
  generalize hcm : raw.getD m default = c at hc
  have hattrH : ∀ (input : String) (fld : Candle K → Num K), NoDot input → input ∈ Candle.attrNames →
      (∀ c : Candle K, c.attr input = some (.num (fld c))) → ∀ j, j < H.length →
      readingByCandle (H.getD j default) input = .num (fld (raw.getD j default)) := by
    intro input fld hd hin hattr j hj
    rw [hHj j hj]
    unfold adxRow
    rw [adxCand_attr nm _ _ _ _ _ input hd hin, readingByCandle_attr input hd _ _ (hattr _)]
  -- the TR helper
  have hT : valOf (adxTr nm) H c = .ok (if m = 0 then .none else .num (trNum raw m)) := by
    have := tr_view_step H c (nm ++ "_atr" ++ "_TR") raw
      (hattrH "close" (·.c) noDot_close (by decide) (fun _ => rfl))
      (by rw [hHl, hcm]; exact readingByCandle_attr "high" noDot_high _ _ rfl)
      (by rw [hHl, hcm]; exact readingByCandle_attr "low" noDot_low _ _ rfl)
      (by rw [hHl, hcm]; exact readingByCandle_attr "close" noDot_close _ _ rfl)
    rw [hHl] at this
    exact this
  -- the ATR helper
  obtain ⟨av, hA, hAr⟩ := atr_view_step H (setKey true (nm ++ "_atr" ++ "_TR") (trStored raw m) c)
    (nm ++ "_atr") (nm ++ "_atr" ++ "_TR") p hp raw
    (by
      intro j hj
      rw [hHj j hj]
      unfold adxRow
      exact adxCand_tr nm hn _ _ _ _ _ (hpl j (by omega)))
    (by rw [hHl]; exact readingByCandle_setKey true _ hn.kT _ _ hc)
    (by
      rw [hlast]
      by_cases h0 : H.length = 0
      · simp [h0]
      · simp only [h0, if_false]
        unfold adxRow
        exact adxCand_atr nm hn _ _ _ _ _ (hpl _ (by omega)))
  rw [hHl] at hAr
  have hA' : valOf (adxA nm (p : Int)) H (decOf (adxTr nm) (if m = 0 then .none else .num (trNum raw m)) c) = .ok av := by
    show Calc.atr (snocCtx H (setKey true (nm ++ "_atr" ++ "_TR")
      ((if m = 0 then (Val.none : Val K) else .num (trNum raw m)).roundBy defaultRound) c) (nm ++ "_atr"))
      (p : Int) (nm ++ "_atr" ++ "_TR") = _
    rw [adx_trVal_round]
    exact hA
  have hc2 : decOf (adxA nm (p : Int)) av (decOf (adxTr nm) (if m = 0 then .none else .num (trNum raw m)) c)
      = adxC2 nm (trStored raw m) (stAtrStored p raw m) c := by
    show setKey true (nm ++ "_atr") (av.roundBy defaultRound) (setKey true (nm ++ "_atr" ++ "_TR")
      ((if m = 0 then (Val.none : Val K) else .num (trNum raw m)).roundBy defaultRound) c) = _
    rw [adx_trVal_round, hAr]
    rfl
  rw [adx_rowStep, hT]
  simp only [pym_bind_ok]
  rw [hA']
  simp only [pym_bind_ok]
  rw [hc2]
  generalize hc2' : adxC2 nm (trStored raw m) (stAtrStored p raw m) c = c2
  have hc2i : c2.inds = [] := by rw [← hc2']; exact adxC2_inds nm hn _ _ _ hc
  -- it suffices to know what the own step returns
  suffices hv : adxVal nm (p : Int) (sg : Int) H c2 = .ok (adxStAt p sg raw m, adxOwnU p sg raw m) by
    rw [hv]
    simp only [pym_bind_ok, pym_pure]
    rw [← hc2', ← hcm]
    rfl
  by_cases h0 : m = 0
  · -- candle 0: nothing is stored
    rw [adxVal_first nm _ _ H c2 (by omega)]
    unfold adxStAt adxOwnU
    rw [if_pos h0, if_pos (by omega)]
  · -- the directional movements
    have hm1 : H.length - 1 = m - 1 := by omega
    have hplast := hpl (m - 1) (by omega)
    have hhi : readingByCandle c2 "high" = .num (raw.getD m default).h := by
      rw [← hc2', adxC2_attr nm _ _ _ "high" noDot_high (by decide), ← hcm]
      exact readingByCandle_attr "high" noDot_high _ _ rfl
    have hlo : readingByCandle c2 "low" = .num (raw.getD m default).l := by
      rw [← hc2', adxC2_attr nm _ _ _ "low" noDot_low (by decide), ← hcm]
      exact readingByCandle_attr "low" noDot_low _ _ rfl
    have hph : Ctx.lastReading "high" H = .num (raw.getD (m - 1) default).h := by
      rw [hlast, if_neg (by omega), hm1]
      unfold adxRow
      rw [adxCand_attr nm _ _ _ _ _ "high" noDot_high (by decide)]
      exact readingByCandle_attr "high" noDot_high _ _ rfl
    have hpl' : Ctx.lastReading "low" H = .num (raw.getD (m - 1) default).l := by
      rw [hlast, if_neg (by omega), hm1]
      unfold adxRow
      rw [adxCand_attr nm _ _ _ _ _ "low" noDot_low (by decide)]
      exact readingByCandle_attr "low" noDot_low _ _ rfl
    rw [adxVal_eval nm _ _ H c2 _ _ _ _ (by omega) hhi hph hlo hpl']
    have hdP : dmP (raw.getD m default).h (raw.getD (m - 1) default).h (raw.getD m default).l
        (raw.getD (m - 1) default).l = dmPN raw m := rfl
    have hdN : dmN (raw.getD m default).h (raw.getD (m - 1) default).h (raw.getD m default).l
        (raw.getD (m - 1) default).l = dmNN raw m := rfl
    -- the smoothed positive movement
    obtain ⟨a, ha, ea⟩ := rma_view_step H
      (setKey true (nm ++ "_data") (sdict [("pos", sc (dmPN raw m)), ("neg", sc (dmNN raw m))]) c2)
      (nm ++ "_pos") (nm ++ "_data.pos") p 1 hp
      (fun j => if j = 0 then .none else .num (dmPN raw j)) (dmPN raw)
      (by
        intro j hj
        rw [hHj j hj]
        unfold adxRow
        rw [adxCand_field nm hn _ _ _ _ _ "pos" _ hn.dPos (hpl j (by omega)), adxStAt_fpos])
      (by
        rw [Adx.rbc_field_set _ _ _ hn.dPos, hc2i, hHl, if_neg h0]
        rfl)
      (by
        intro j _
        by_cases h : j = 0
        · simp [h]
        · rw [if_neg h]; simp; omega)
      (by intro j hj _; rw [if_neg (by omega)])
      (by
        rw [hlast]
        by_cases h0' : H.length = 0
        · simp [h0']
        · simp only [h0', if_false]
          unfold adxRow
          rw [adxCand_pos nm hn _ _ _ _ _ (hpl _ (by omega)), adxStAt_pos p sg raw hp]
          rfl)
    rw [hHl] at ea
    have ea' : a.roundBy defaultRound = adxPosV p raw m := ea
    -- the smoothed negative movement
    obtain ⟨b, hb, eb⟩ := rma_view_step H
      (setKey true (nm ++ "_pos") (a.roundBy defaultRound)
        (setKey true (nm ++ "_data") (sdict [("pos", sc (dmPN raw m)), ("neg", sc (dmNN raw m))]) c2))
      (nm ++ "_neg") (nm ++ "_data.neg") p 1 hp
      (fun j => if j = 0 then .none else .num (dmNN raw j)) (dmNN raw)
      (by
        intro j hj
        rw [hHj j hj]
        unfold adxRow
        rw [adxCand_field nm hn _ _ _ _ _ "neg" _ hn.dNeg (hpl j (by omega)), adxStAt_fneg])
      (by
        rw [Adx.indep_dotted _ _ _ _ hn.dNeg hn.DP.symm, Adx.rbc_field_set _ _ _ hn.dNeg, hc2i, hHl, if_neg h0]
        rfl)
      (by
        intro j _
        by_cases h : j = 0
        · simp [h]
        · rw [if_neg h]; simp; omega)
      (by intro j hj _; rw [if_neg (by omega)])
      (by
        rw [hlast]
        by_cases h0' : H.length = 0
        · simp [h0']
        · simp only [h0', if_false]
          unfold adxRow
          rw [adxCand_neg nm hn _ _ _ _ _ (hpl _ (by omega)), adxStAt_neg p sg raw hp]
          rfl)
    rw [hHl] at eb
    have eb' : b.roundBy defaultRound = adxNegV p raw m := eb
    rw [adxVal1_eval nm _ _ H c2 _ _ _ _ a b (by rw [hdP, hdN]; exact ha) (by rw [hdP, hdN]; exact hb), hdP, hdN,
      ea', eb']
    by_cases h1 : m < p
    · -- the guard fails: no smoothed movement yet
      rw [adxVal2_none nm _ H c2 _ _ _ _ (Or.inr (by
        rw [rbc_adxSt_pos nm hn, hc2i]
        exact rmaCol_none _ _ _ _ (by omega)))]
      unfold adxStAt adxOwnU adxData
      rw [if_neg h0, if_pos h1, if_pos h1, if_pos h1]
    · -- past the guard
      have hpv : adxPosV p raw m = .num (.flt (adxPosF p raw m)) := rmaCol_flt _ _ _ _ (by omega)
      have hnv : adxNegV p raw m = .num (.flt (adxNegF p raw m)) := rmaCol_flt _ _ _ _ (by omega)
      have hatr : readingByCandle c2 (nm ++ "_atr") = .num (.flt (stAtr p (trS raw) m)) := by
        rw [← hc2', adxC2_atr nm hn _ _ _ hc]
        unfold stAtrStored
        rw [if_neg h1]
      rw [adxVal2_some nm _ H c2 _ _ _ _ (.flt (stAtr p (trS raw) m)) (.flt (adxPosF p raw m)) (.flt (adxNegF p raw m))
        (by rw [rbc_adxSt_atr nm hn, hatr])
        (by rw [rbc_adxSt_pos nm hn, hc2i]; exact hpv)
        (by rw [rbc_adxSt_neg nm hn, hc2i]; exact hnv)]
      have hplus : (modNum (.flt (stAtr p (trS raw) m))).mul (.flt (adxPosF p raw m)) = adxPlusN p raw m := rfl
      have hminus : (modNum (.flt (stAtr p (trS raw) m))).mul (.flt (adxNegF p raw m)) = adxMinusN p raw m := rfl
      rw [hplus, hminus]
      have hdx : dxNum (adxPlusN p raw m) (adxMinusN p raw m) = adxDxN p raw m := rfl
      rw [hdx]
      -- the `dx` average
      obtain ⟨x, hx, ex⟩ := rma_view_step H
        (adxSt nm (sdict [("pos", sc (dmPN raw m)), ("neg", sc (dmNN raw m)), ("dx", sc (adxDxN p raw m))])
          (adxPosV p raw m) (adxNegV p raw m) c2)
        (nm ++ "_dx") (nm ++ "_data.dx") sg p hg
        (fun j => if j < p then .none else .num (adxDxN p raw j)) (adxDxN p raw)
        (by
          intro j hj
          rw [hHj j hj]
          unfold adxRow
          rw [adxCand_field nm hn _ _ _ _ _ "dx" _ hn.dDx (hpl j (by omega)), adxStAt_fdx p sg raw hp])
        (by
          rw [rbc_adxSt_fld nm hn _ _ hn.dDx, hc2i, hHl, if_neg h1]
          rfl)
        (by
          intro j _
          by_cases h : j < p
          · simp [h]
          · rw [if_neg h]; simp; omega)
        (by intro j hj _; rw [if_neg (by omega)])
        (by
          rw [hlast]
          by_cases h0' : H.length = 0
          · simp [h0']
          · simp only [h0', if_false]
            unfold adxRow
            rw [adxCand_dx nm hn _ _ _ _ _ (hpl _ (by omega)), adxStAt_dx p sg raw hp hg]
            rfl)
      rw [hHl] at ex
      have ex' : x.roundBy defaultRound = adxV p sg raw m := ex
      rw [adxVal3_eval nm _ H c2 _ _ _ _ _ _ _ x (adxScal p sg raw m) hx
        (by rw [Adx.rbc_key_set _ hn.kX, adxSt_inds, hc2i, ex', adxV_scal]; rfl), ex']
      unfold adxStAt adxOwnU adxData
      rw [if_neg h0, if_neg h1, if_neg h1, if_neg h1]

end step

section whole
variable (nm : String) (n p sg : Nat) (hp : 1 ≤ p) (hg : 1 ≤ sg) (hn : AdxNames nm)
  (raw : List (Candle K)) (hraw : ∀ c ∈ raw, Plain c)

include hp hg hraw in
/-- **ADX, whole series.**  For EVERY raw candle list (`1 ≤ period`, `1 ≤ period_signal`) the row-major
run of `adxTree` never raises and returns exactly `adxOut`: candle `j` is the raw candle `j` carrying
* `<name>_atr_TR`, `<name>_atr` (`.sub_indicators`): `trStored raw j`, `stAtrStored p raw j` – the ATR
  subtree of `SeriesATR` (4 decimals; first readings at candles 1 and `p`);
* `<name>_data` (`.sub_indicators`, NOT rounded): no entry on candle 0; `{pos, neg}` = the directional
  movements of the candle on candles `1 … p−1`; `{pos, neg, dx}` from candle `p` on;
* `<name>_pos`, `<name>_neg` (`.sub_indicators`, 4 decimals): no entry on candle 0, then `adxPosV j`,
  `adxNegV j` – `None` up to candle `p − 1`, from candle `p` on the Wilder average of the movement columns;
* `<name>_dx` (`.sub_indicators`, 4 decimals): no entry before candle `p`, then `adxV j` – `None` up to
  candle `p + signal − 2`, from `p + signal − 1` on the Wilder average of the `dx` column;
* `<name>` (`.indicators`): the dict `adxOwnU j` rounded to `n` decimals. -/
theorem adx_series :
    Gen.rowMajor (adxTreeN (K := K) nm n p sg hp hg hn).S raw = .ok (adxOut nm n p sg raw) := by
  suffices h : ∀ m, m ≤ raw.length →
      Gen.rowMajor (adxTreeN (K := K) nm n p sg hp hg hn).S (raw.take m) = .ok (adxRows nm n p sg raw m) by
    have := h raw.length (le_refl _)
    rwa [List.take_length] at this
  intro m
  induction m with
  | zero => intro _; rfl
  | succ m ih =>
    intro hm
    have htake : raw.take (m + 1) = raw.take m ++ [raw.getD m default] := by
      rw [List.take_add_one]
      congr 1
      rw [List.getD_eq_getElem?_getD, List.getElem?_eq_getElem (by omega)]
      rfl
    rw [htake, Gen.rowMajor_append, ih (by omega)]
    simp only [pym_bind_ok, Gen.rowMajorFrom, List.foldlM_cons, List.foldlM_nil]
    rw [adx_row_step nm n p sg hp hg hn raw hraw m (by omega)]
    simp only [pym_bind_ok, pym_pure]
    rw [adxRows_succ]

include hp hg hn hraw in
/-- **the engine's `calculate()`** on the raw list returns exactly `adxOut` -/
theorem adx_engine :
    engineCalc (mkTop (.adx (p : Int) (sg : Int) : Kind K) nm n) raw = .ok (adxOut nm n p sg raw) := by
  have h := adx_series nm n p sg hp hg hn raw hraw
  have := ((adxTreeN (K := K) nm n p sg hp hg hn).engine [] raw [] _ rfl (by simp) hraw).2 (by simpa using h)
  simpa using this

include hp hg hn hraw in
/-- **the batch run** (build the indicator over the whole stream, `calculate()` once) returns
exactly `adxOut` -/
theorem adx_batch :
    candlesOf (runIndicator (mkTop (.adx (p : Int) (sg : Int) : Kind K) nm n) {} raw [])
      = .ok (adxOut nm n p sg raw) :=
  ((adxTreeN (K := K) nm n p sg hp hg hn).batch_iff (MgrSpec.base K) raw hraw _).2
    (adx_series nm n p sg hp hg hn raw hraw)

include hp hg hn hraw in
/-- **whenever the batch run returns, its candles are exactly `adxOut`** (and it does return:
`adx_batch`) -/
theorem adx_batch_out (out : List (Candle K))
    (hout : candlesOf (runIndicator (mkTop (.adx (p : Int) (sg : Int) : Kind K) nm n) {} raw []) = .ok out) :
    out = adxOut nm n p sg raw := by
  rw [adx_batch nm n p sg hp hg hn raw hraw] at hout
  exact (Except.ok.inj hout).symm

end whole

/-- **… for every append schedule**: whenever a live history (construction over `init`,
`calculate()`, then any appends) returns, its candles are `adxOut` of the whole stream -/
theorem adx_live (nm : String) (n p sg : Nat) (hp : 1 ≤ p) (hg : 1 ≤ sg) (hn : AdxNames nm)
    (init : List (Candle K)) (chunks : List (List (Candle K)))
    (hraw : ∀ c ∈ init ++ chunks.flatten, Plain c) (snap : List (Candle K))
    (hsnap : candlesOf (runIndicator (mkTop (.adx (p : Int) (sg : Int) : Kind K) nm n) {} init chunks) = .ok snap) :
    snap = adxOut nm n p sg (init ++ chunks.flatten) := by
  have h := (adxTreeN (K := K) nm n p sg hp hg hn).live_refines (MgrSpec.base K) init chunks hraw snap hsnap
  have h' : Gen.rowMajor (adxTreeN (K := K) nm n p sg hp hg hn).S (init ++ chunks.flatten) = .ok snap := h
  rw [adx_series nm n p sg hp hg hn _ hraw] at h'
  exact (Except.ok.inj h').symm

/-! ### ranges of the stored series -/

theorem decayMean_ge (x : Nat → K) (q j : Nat) (hq : 1 ≤ q) (lo : K) (h : ∀ k, k < q → lo ≤ x (j - k)) :
    lo ≤ decayMean x q j := by
  have hqK : (0 : K) < q := by exact_mod_cast (by omega : 0 < q)
  have hb : (0 : K) ≤ 1 - 1 / (q : K) := by
    have : 1 / (q : K) ≤ 1 := by rw [div_le_one hqK]; exact_mod_cast hq
    linarith
  have hW := rsum_pow_pos q (1 - 1 / (q : K)) hb hq
  unfold decayMean
  rw [le_div_iff₀ hW]
  have : rsum q (fun k => lo * (1 - 1 / (q : K)) ^ k) ≤ rsum q (fun k => (1 - 1 / (q : K)) ^ k * x (j - k)) :=
    rsum_le q _ _ (fun k hk => by
      have := mul_le_mul_of_nonneg_left (h k hk) (pow_nonneg hb k); linarith)
  rwa [rsum_mul_left] at this

theorem decayMean_le (x : Nat → K) (q j : Nat) (hq : 1 ≤ q) (hi : K) (h : ∀ k, k < q → x (j - k) ≤ hi) :
    decayMean x q j ≤ hi := by
  have hqK : (0 : K) < q := by exact_mod_cast (by omega : 0 < q)
  have hb : (0 : K) ≤ 1 - 1 / (q : K) := by
    have : 1 / (q : K) ≤ 1 := by rw [div_le_one hqK]; exact_mod_cast hq
    linarith
  have hW := rsum_pow_pos q (1 - 1 / (q : K)) hb hq
  unfold decayMean
  rw [div_le_iff₀ hW]
  have : rsum q (fun k => (1 - 1 / (q : K)) ^ k * x (j - k)) ≤ rsum q (fun k => hi * (1 - 1 / (q : K)) ^ k) :=
    rsum_le q _ _ (fun k hk => by
      have := mul_le_mul_of_nonneg_left (h k hk) (pow_nonneg hb k); linarith)
  rwa [rsum_mul_left] at this

/-- a stored Wilder average stays above an integer lower bound of its inputs -/
theorem rmaColF_ge (q o : Nat) (hq : 1 ≤ q) (x : Nat → K) (lo : Int) (hx : ∀ i, o ≤ i → (lo : K) ≤ x i) (j : Nat) :
    (lo : K) ≤ rmaColF q o x j := by
  have hqK : (0 : K) < q := by exact_mod_cast (by omega : 0 < q)
  have ha0 : (0 : K) ≤ 1 / (q : K) := by positivity
  have hb : (0 : K) ≤ 1 - 1 / (q : K) := by
    have : 1 / (q : K) ≤ 1 := by rw [div_le_one hqK]; exact_mod_cast hq
    linarith
  have hseed : (lo : K) ≤ PyF.round defaultRound (decayMean x q (o + q - 1)) := by
    have := LawfulPyF.round_mono (K := K) defaultRound
      (decayMean_ge x q (o + q - 1) hq lo (fun k hk => hx _ (by omega)))
    rwa [round_int] at this
  induction j with
  | zero => rw [rmaColF_seed _ _ _ _ (by omega)]; exact hseed
  | succ i ih =>
    by_cases h : i + 1 < o + q
    · rw [rmaColF_seed _ _ _ _ h]; exact hseed
    · rw [rmaColF_step _ _ _ _ (by omega) hq]
      simp only [Nat.add_sub_cancel]
      have h1 := hx (i + 1) (by omega)
      have : (lo : K) ≤ 1 / (q : K) * x (i + 1) + (1 - 1 / (q : K)) * rmaColF q o x i := by
        have e1 := mul_le_mul_of_nonneg_left h1 ha0
        have e2 := mul_le_mul_of_nonneg_left ih hb
        nlinarith
      have := LawfulPyF.round_mono (K := K) defaultRound this
      rwa [round_int] at this

/-- a stored Wilder average stays below an integer upper bound of its inputs -/
theorem rmaColF_le (q o : Nat) (hq : 1 ≤ q) (x : Nat → K) (hi : Int) (hx : ∀ i, o ≤ i → x i ≤ (hi : K)) (j : Nat) :
    rmaColF q o x j ≤ (hi : K) := by
  have hqK : (0 : K) < q := by exact_mod_cast (by omega : 0 < q)
  have ha0 : (0 : K) ≤ 1 / (q : K) := by positivity
  have hb : (0 : K) ≤ 1 - 1 / (q : K) := by
    have : 1 / (q : K) ≤ 1 := by rw [div_le_one hqK]; exact_mod_cast hq
    linarith
  have hseed : PyF.round defaultRound (decayMean x q (o + q - 1)) ≤ (hi : K) := by
    have := LawfulPyF.round_mono (K := K) defaultRound
      (decayMean_le x q (o + q - 1) hq hi (fun k hk => hx _ (by omega)))
    rwa [round_int] at this
  induction j with
  | zero => rw [rmaColF_seed _ _ _ _ (by omega)]; exact hseed
  | succ i ih =>
    by_cases h : i + 1 < o + q
    · rw [rmaColF_seed _ _ _ _ h]; exact hseed
    · rw [rmaColF_step _ _ _ _ (by omega) hq]
      simp only [Nat.add_sub_cancel]
      have h1 := hx (i + 1) (by omega)
      have : 1 / (q : K) * x (i + 1) + (1 - 1 / (q : K)) * rmaColF q o x i ≤ (hi : K) := by
        have e1 := mul_le_mul_of_nonneg_left h1 ha0
        have e2 := mul_le_mul_of_nonneg_left ih hb
        nlinarith
      have := LawfulPyF.round_mono (K := K) defaultRound this
      rwa [round_int] at this

section ranges
variable (n p sg : Nat) (raw : List (Candle K))

/-- the movement columns are the textbook `+DM` / `−DM` of consecutive highs and lows: the larger
positive move, `0` otherwise (in particular on ties) -/
theorem dmPlusAt_eq (j : Nat) :
    dmPlusAt raw j = dmPlus (fieldAt (·.h) raw j - fieldAt (·.h) raw (j - 1))
      (fieldAt (·.l) raw (j - 1) - fieldAt (·.l) raw j) := toF_dmP _ _ _ _

theorem dmMinusAt_eq (j : Nat) :
    dmMinusAt raw j = dmMinus (fieldAt (·.h) raw j - fieldAt (·.h) raw (j - 1))
      (fieldAt (·.l) raw (j - 1) - fieldAt (·.l) raw j) := toF_dmN _ _ _ _

theorem dmPlusAt_nonneg (j : Nat) : 0 ≤ dmPlusAt raw j := by rw [dmPlusAt_eq]; exact dmPlus_nonneg _ _
theorem dmMinusAt_nonneg (j : Nat) : 0 ≤ dmMinusAt raw j := by rw [dmMinusAt_eq]; exact dmMinus_nonneg _ _

theorem adxPosF_nonneg (hp : 1 ≤ p) (j : Nat) : 0 ≤ adxPosF p raw j := by
  have := rmaColF_ge p 1 hp (dmPlusAt raw) 0 (fun i _ => by simpa using dmPlusAt_nonneg raw i) j
  unfold adxPosF
  simpa using this

theorem adxNegF_nonneg (hp : 1 ≤ p) (j : Nat) : 0 ≤ adxNegF p raw j := by
  have := rmaColF_ge p 1 hp (dmMinusAt raw) 0 (fun i _ => by simpa using dmMinusAt_nonneg raw i) j
  unfold adxNegF
  simpa using this

theorem stAtr_nonneg (hp : 1 ≤ p) (j : Nat) (hj : p ≤ j) : 0 ≤ stAtr p (trS raw) j := by
  have h := (stAtrStored_ok p hp raw j).2 (stAtr p (trS raw) j)
  unfold stAtrStored at h
  rw [if_neg (by omega)] at h
  exact h rfl

theorem diMod_nonneg (a : K) (h : 0 ≤ a) : 0 ≤ diMod a := by
  unfold diMod
  split_ifs
  · exact le_refl _
  · exact div_nonneg (by norm_num) h

/-- the UNROUNDED directional indices as field elements -/
def adxPlusU (j : Nat) : K := diMod (stAtr p (trS raw) j) * adxPosF p raw j
def adxMinusU (j : Nat) : K := diMod (stAtr p (trS raw) j) * adxNegF p raw j

theorem adxPlusN_toF (j : Nat) : (adxPlusN p raw j).toF = adxPlusU p raw j := by
  unfold adxPlusN adxPlusU
  rw [Num.toF_mul, toF_modNum]; rfl

theorem adxMinusN_toF (j : Nat) : (adxMinusN p raw j).toF = adxMinusU p raw j := by
  unfold adxMinusN adxMinusU
  rw [Num.toF_mul, toF_modNum]; rfl

/-- `DX = 100·|DI+ − DI−| / (DI+ + DI−)` on the unrounded indices (`0` when the sum is `0`) -/
theorem adxDxU_eq (j : Nat) : adxDxU p raw j = dxOf (adxPlusU p raw j) (adxMinusU p raw j) := by
  unfold adxDxU adxDxN
  rw [toF_dxNum, adxPlusN_toF, adxMinusN_toF]

theorem adxPlusU_nonneg (hp : 1 ≤ p) (j : Nat) (hj : p ≤ j) : 0 ≤ adxPlusU p raw j :=
  mul_nonneg (diMod_nonneg _ (stAtr_nonneg p raw hp j hj)) (adxPosF_nonneg p raw hp j)

theorem adxMinusU_nonneg (hp : 1 ≤ p) (j : Nat) (hj : p ≤ j) : 0 ≤ adxMinusU p raw j :=
  mul_nonneg (diMod_nonneg _ (stAtr_nonneg p raw hp j hj)) (adxNegF_nonneg p raw hp j)

/-- **`0 ≤ DX ≤ 100`** on every candle past the guard, exactly -/
theorem adxDxU_range (hp : 1 ≤ p) (j : Nat) (hj : p ≤ j) : 0 ≤ adxDxU p raw j ∧ adxDxU p raw j ≤ 100 := by
  rw [adxDxU_eq]
  exact dxOf_range _ _ (adxPlusU_nonneg p raw hp j hj) (adxMinusU_nonneg p raw hp j hj)

/-- **`0 ≤ ADX ≤ 100`** for the stored `<name>_dx` series, exactly (integers are on the decimal grid) -/
theorem adxF_range (hp : 1 ≤ p) (hg : 1 ≤ sg) (j : Nat) : 0 ≤ adxF p sg raw j ∧ adxF p sg raw j ≤ 100 := by
  unfold adxF
  constructor
  · have := rmaColF_ge sg p hg (adxDxU p raw) 0 (fun i hi => by simpa using (adxDxU_range p raw hp i hi).1) j
    simpa using this
  · have := rmaColF_le sg p hg (adxDxU p raw) 100 (fun i hi => by simpa using (adxDxU_range p raw hp i hi).2) j
    simpa using this

end ranges

/-! ### the own dict, field by field -/

section own
variable (n p sg : Nat) (raw : List (Candle K))

theorem Num.mul_flt_right (a : Num K) (b : K) : a.mul (.flt b) = .flt (a.toF * b) := by
  cases a <;> simp [Num.mul, LawfulPyF.mul_eq]

theorem adxPlusN_flt (j : Nat) : adxPlusN p raw j = .flt (adxPlusU p raw j) := by
  unfold adxPlusN adxPlusU
  rw [Num.mul_flt_right, toF_modNum]; rfl

theorem adxMinusN_flt (j : Nat) : adxMinusN p raw j = .flt (adxMinusU p raw j) := by
  unfold adxMinusN adxMinusU
  rw [Num.mul_flt_right, toF_modNum]; rfl

/-- the stored own dict of candle `j` (rounded to the node's `round_value = n`) -/
def adxOwn (j : Nat) : Val K := (adxOwnU p sg raw j).roundBy n

/-- the own dict is all-`None` before candle `p` -/
theorem adxOwn_none (j : Nat) (h : j < p) : adxOwn n p sg raw j = adxNone3 := by
  unfold adxOwn adxOwnU
  rw [if_pos h]; rfl

/-- from candle `p` on: `ADX` is the (twice rounded) `<name>_dx` reading – `None` up to candle
`p + signal − 2` –, `DM_Plus` / `DM_Neg` the rounded directional indices -/
theorem adxOwn_some (j : Nat) (h : p ≤ j) :
    adxOwn n p sg raw j = sdict [("ADX", (adxScal p sg raw j).roundBy n),
      ("DM_Plus", sc (.flt (PyF.round n (adxPlusU p raw j)))), ("DM_Neg", sc (.flt (PyF.round n (adxMinusU p raw j))))] := by
  unfold adxOwn adxOwnU
  rw [if_neg (by omega), adxPlusN_flt, adxMinusN_flt]; rfl

theorem adxScal_round (j : Nat) :
    (adxScal p sg raw j).roundBy n = if j + 1 < p + sg then .none else .num (.flt (PyF.round n (adxF p sg raw j))) := by
  unfold adxScal
  by_cases h : j + 1 < p + sg
  · rw [if_pos h, if_pos h]; rfl
  · rw [if_neg h, if_neg h]; rfl

theorem adxOwn_ADX (hg : 1 ≤ sg) (j : Nat) :
    (adxOwn n p sg raw j).nested "ADX"
      = if j + 1 < p + sg then .none else .flt (PyF.round n (adxF p sg raw j)) := by
  by_cases h : j < p
  · rw [adxOwn_none n p sg raw j h, if_pos (by omega)]; rfl
  · rw [adxOwn_some n p sg raw j (by omega)]
    show Val.s ((adxScal p sg raw j).roundBy n) = _
    rw [adxScal_round]
    by_cases h2 : j + 1 < p + sg
    · rw [if_pos h2, if_pos h2]
    · rw [if_neg h2, if_neg h2]

theorem adxOwn_plus (j : Nat) :
    (adxOwn n p sg raw j).nested "DM_Plus" = if j < p then .none else .flt (PyF.round n (adxPlusU p raw j)) := by
  by_cases h : j < p
  · rw [adxOwn_none n p sg raw j h, if_pos h]; rfl
  · rw [adxOwn_some n p sg raw j (by omega), if_neg h]; rfl

theorem adxOwn_minus (j : Nat) :
    (adxOwn n p sg raw j).nested "DM_Neg" = if j < p then .none else .flt (PyF.round n (adxMinusU p raw j)) := by
  by_cases h : j < p
  · rw [adxOwn_none n p sg raw j h, if_pos h]; rfl
  · rw [adxOwn_some n p sg raw j (by omega), if_neg h]; rfl

/-- a stored field is `None` or a float in `[lo, hi]` -/
def FieldIn (lo hi : K) (v : Val K) : Prop := v = .none ∨ ∃ y, v = .flt y ∧ lo ≤ y ∧ y ≤ hi
/-- a stored field is `None` or a non-negative float -/
def FieldNonneg (v : Val K) : Prop := v = .none ∨ ∃ y, v = .flt y ∧ 0 ≤ y

/-- **ranges of the stored own dict, exactly**: `0 ≤ ADX ≤ 100`, `0 ≤ DM_Plus`, `0 ≤ DM_Neg` -/
theorem adxOwn_ranges (hp : 1 ≤ p) (hg : 1 ≤ sg) (j : Nat) :
    FieldIn 0 100 ((adxOwn n p sg raw j).nested "ADX") ∧
    FieldNonneg ((adxOwn n p sg raw j).nested "DM_Plus") ∧
    FieldNonneg ((adxOwn n p sg raw j).nested "DM_Neg") := by
  refine ⟨?_, ?_, ?_⟩
  · rw [adxOwn_ADX n p sg raw hg]
    by_cases h : j + 1 < p + sg
    · rw [if_pos h]; exact Or.inl rfl
    · rw [if_neg h]
      obtain ⟨h0, h1⟩ := adxF_range p sg raw hp hg j
      have := round_between (K := K) n 0 100 (adxF p sg raw j) (by simpa using h0) (by simpa using h1)
      exact Or.inr ⟨_, rfl, by simpa using this.1, by simpa using this.2⟩
  · rw [adxOwn_plus]
    by_cases h : j < p
    · rw [if_pos h]; exact Or.inl rfl
    · rw [if_neg h]
      exact Or.inr ⟨_, rfl, round_nonneg n _ (adxPlusU_nonneg p raw hp j (by omega))⟩
  · rw [adxOwn_minus]
    by_cases h : j < p
    · rw [if_pos h]; exact Or.inl rfl
    · rw [if_neg h]
      exact Or.inr ⟨_, rfl, round_nonneg n _ (adxMinusU_nonneg p raw hp j (by omega))⟩

end own

/-! ### the textbook series and the rounding budgets -/

theorem adx_abs_tri (a b c e1 e2 : K) (h1 : |a - b| ≤ e1) (h2 : |b - c| ≤ e2) : |a - c| ≤ e1 + e2 :=
  le_trans (abs_sub_le a b c) (add_le_add h1 h2)

/-- a quotient under perturbation of numerator and (positive) denominator -/
theorem quot_perturb (a a' b b' ea eb : K) (hb : 0 < b) (hb' : 0 < b') (ha : |a' - a| ≤ ea)
    (hbb : |b' - b| ≤ eb) : |a' / b' - a / b| ≤ (ea + |a / b| * eb) / b' := by
  have e : a' / b' - a / b = ((a' - a) - (a / b) * (b' - b)) / b' := by
    field_simp
    ring
  rw [e, abs_div, abs_of_pos hb']
  apply div_le_div_of_nonneg_right _ hb'.le
  calc |(a' - a) - a / b * (b' - b)| ≤ |a' - a| + |a / b * (b' - b)| := abs_sub _ _
    _ = |a' - a| + |a / b| * |b' - b| := by rw [abs_mul]
    _ ≤ ea + |a / b| * eb := add_le_add ha (mul_le_mul_of_nonneg_left hbb (abs_nonneg _))

theorem decayMean_sub (x x' : Nat → K) (q j : Nat) :
    decayMean (fun i => x' i - x i) q j = decayMean x' q j - decayMean x q j := by
  unfold decayMean
  rw [← sub_div]
  congr 1
  rw [← rsum_sub]
  congr 1
  funext k
  ring

/-- the decay-weighted mean does not amplify a uniform perturbation of its window -/
theorem decayMean_perturb (x x' : Nat → K) (q j : Nat) (hq : 1 ≤ q) (δ : K)
    (h : ∀ k, k < q → |x' (j - k) - x (j - k)| ≤ δ) : |decayMean x' q j - decayMean x q j| ≤ δ := by
  rw [← decayMean_sub, abs_le]
  exact ⟨decayMean_ge _ q j hq (-δ) (fun k hk => (abs_le.1 (h k hk)).1),
    decayMean_le _ q j hq δ (fun k hk => (abs_le.1 (h k hk)).2)⟩

/-- the Wilder average of a column does not amplify a uniform perturbation of the inputs it reads
(those at indices `o … j`) -/
theorem rmaColExact_perturb (q o : Nat) (hq : 1 ≤ q) (x x' : Nat → K) (δ : K) :
    ∀ j, o + q ≤ j + 1 → (∀ i, o ≤ i → i ≤ j → |x' i - x i| ≤ δ) →
      |rmaColExact q o x' j - rmaColExact q o x j| ≤ δ := by
  have hqK : (0 : K) < q := by exact_mod_cast (by omega : 0 < q)
  have ha0 : (0 : K) ≤ 1 / (q : K) := by positivity
  have h1a : (0 : K) ≤ 1 - 1 / (q : K) := by
    have : 1 / (q : K) ≤ 1 := by rw [div_le_one hqK]; exact_mod_cast hq
    linarith
  unfold rmaColExact
  intro j
  induction j with
  | zero =>
    intro hj h
    rw [recExact_seed _ _ _ _ _ (by omega), recExact_seed _ _ _ _ _ (by omega)]
    exact decayMean_perturb x x' q _ hq δ (fun k hk => h _ (by omega) (by omega))
  | succ i ih =>
    intro hj h
    by_cases hs : i + 1 < o + q
    · rw [recExact_seed _ _ _ _ _ hs, recExact_seed _ _ _ _ _ hs]
      exact decayMean_perturb x x' q _ hq δ (fun k hk => h _ (by omega) (by omega))
    · rw [recExact_step _ _ x' _ (i + 1) (by omega) (by omega), recExact_step _ _ x _ (i + 1) (by omega) (by omega)]
      simp only [Nat.add_sub_cancel]
      have ih' := ih (by omega) (fun i' h1 h2 => h i' h1 (by omega))
      have hx := h (i + 1) (by omega) (le_refl _)
      generalize recExact (1 / (q : K)) (decayMean x' q (o + q - 1)) x' (o + q) i = r' at ih' ⊢
      generalize recExact (1 / (q : K)) (decayMean x q (o + q - 1)) x (o + q) i = r at ih' ⊢
      have e : 1 / (q : K) * x' (i + 1) + (1 - 1 / (q : K)) * r' - (1 / (q : K) * x (i + 1) + (1 - 1 / (q : K)) * r)
          = 1 / (q : K) * (x' (i + 1) - x (i + 1)) + (1 - 1 / (q : K)) * (r' - r) := by ring
      rw [e]
      calc |1 / (q : K) * (x' (i + 1) - x (i + 1)) + (1 - 1 / (q : K)) * (r' - r)|
          ≤ |1 / (q : K) * (x' (i + 1) - x (i + 1))| + |(1 - 1 / (q : K)) * (r' - r)| := abs_add_le _ _
        _ = 1 / (q : K) * |x' (i + 1) - x (i + 1)| + (1 - 1 / (q : K)) * |r' - r| := by
            rw [abs_mul, abs_mul, abs_of_nonneg ha0, abs_of_nonneg h1a]
        _ ≤ 1 / (q : K) * δ + (1 - 1 / (q : K)) * δ :=
            add_le_add (mul_le_mul_of_nonneg_left hx ha0) (mul_le_mul_of_nonneg_left ih' h1a)
        _ = δ := by ring

section textbook
variable (n p sg : Nat) (raw : List (Candle K))

/-- Wilder's ATR of the EXACT true ranges (`SeriesATR.atrExact`) -/
def adxAtrE (j : Nat) : K := atrExact p (trExact raw) j

/-- the textbook smoothed directional movements: Wilder averages (period `p`, seeded at candle `p`
with the decay-weighted mean of the movements of candles `1 … p`) -/
def adxSPlusE : Nat → K := rmaColExact p 1 (dmPlusAt raw)
def adxSMinusE : Nat → K := rmaColExact p 1 (dmMinusAt raw)

/-- the textbook directional indices `DI± = 100·smoothed DM / ATR` (`0` for a zero ATR) -/
def adxDiPlusE (j : Nat) : K := diMod (adxAtrE p raw j) * adxSPlusE p raw j
def adxDiMinusE (j : Nat) : K := diMod (adxAtrE p raw j) * adxSMinusE p raw j

/-- the textbook `DX = 100·|DI+ − DI−| / (DI+ + DI−)` (`0` when the sum is `0`) -/
def adxDxE (j : Nat) : K := dxOf (adxDiPlusE p raw j) (adxDiMinusE p raw j)

/-- the textbook `ADX`: the Wilder average (period `signal`) of `DX`, which starts at candle `p` -/
def adxE : Nat → K := rmaColExact sg p (adxDxE p raw)

/-- the three textbook series with their warm-up: `DI±` from candle `p`, `ADX` from `p + signal − 1` -/
def adxPlusLine (j : Nat) : Option K := if j < p then none else some (adxDiPlusE p raw j)
def adxMinusLine (j : Nat) : Option K := if j < p then none else some (adxDiMinusE p raw j)
def adxLine (j : Nat) : Option K := if j + 1 < p + sg then none else some (adxE p sg raw j)

/-- budget of the stored smoothed movements: `ε₄/(1/p) = p·ε₄` (their inputs are not rounded) -/
def adxDmBudget : K := eps K defaultRound / (1 / (p : K))
/-- budget of the stored ATR against Wilder's average of the exact true ranges: `p·ε₄ + ε₄` -/
def adxAtrBudget : K := eps K defaultRound / (1 / (p : K)) + eps K defaultRound

theorem adxDmBudget_nonneg (hp : 1 ≤ p) : 0 ≤ adxDmBudget (K := K) p := by
  unfold adxDmBudget
  have : (0 : K) < p := by exact_mod_cast (by omega : 0 < p)
  have := eps_pos K defaultRound
  positivity

theorem adxAtrBudget_nonneg (hp : 1 ≤ p) : 0 ≤ adxAtrBudget (K := K) p := by
  unfold adxAtrBudget
  have := adxDmBudget_nonneg (K := K) p hp
  unfold adxDmBudget at this
  have := eps_pos K defaultRound
  linarith

/-- the stored smoothed movements are `RecOK` w.r.t. the TEXTBOOK smoothed movements -/
theorem adxPosV_ok (hp : 1 ≤ p) (j : Nat) :
    RecOK (1 + p) defaultRound (1 / (p : K)) (adxSPlusE p raw) j (adxPosV p raw j) := rmaCol_ok p 1 hp _ j
theorem adxNegV_ok (hp : 1 ≤ p) (j : Nat) :
    RecOK (1 + p) defaultRound (1 / (p : K)) (adxSMinusE p raw) j (adxNegV p raw j) := rmaCol_ok p 1 hp _ j

theorem adxPosF_err (hp : 1 ≤ p) (j : Nat) : |adxPosF p raw j - adxSPlusE p raw j| ≤ adxDmBudget (K := K) p :=
  rmaColF_err p 1 hp _ j
theorem adxNegF_err (hp : 1 ≤ p) (j : Nat) : |adxNegF p raw j - adxSMinusE p raw j| ≤ adxDmBudget (K := K) p :=
  rmaColF_err p 1 hp _ j

theorem stAtr_err (hp : 1 ≤ p) (j : Nat) (hj : p ≤ j) :
    |stAtr p (trS raw) j - adxAtrE p raw j| ≤ adxAtrBudget (K := K) p := by
  have h := (AtrOK.toTrue p hp defaultRound raw j _ (stAtrStored_ok p hp raw j)).2 hj
  unfold stAtrStored at h
  rw [if_neg (by omega)] at h
  obtain ⟨y, hy, hb, _⟩ := h
  cases hy
  exact hb

/-- the stored `<name>_dx` series is `RecOK` w.r.t. the Wilder average of the `dx` column it read -/
theorem adxV_ok (hg : 1 ≤ sg) (j : Nat) :
    RecOK (p + sg) defaultRound (1 / (sg : K)) (rmaColExact sg p (adxDxU p raw)) j (adxV p sg raw j) :=
  rmaCol_ok sg p hg _ j

/-- budget of an unrounded directional index against the textbook one, for a textbook index `d` and a
textbook ATR `a` (needs `adxAtrBudget < a`: the ATR is bounded away from 0) -/
def adxDiBudget (d a : K) : K := (100 * adxDmBudget (K := K) p + |d| * adxAtrBudget (K := K) p) / (a - adxAtrBudget (K := K) p)

theorem di_perturb (s s' a a' es ea : K) (hes : |s' - s| ≤ es) (hea : |a' - a| ≤ ea) (ha : ea < a) (hea0 : 0 ≤ ea) :
    |diMod a' * s' - diMod a * s| ≤ (100 * es + |diMod a * s| * ea) / (a - ea) := by
  have hapos : 0 < a := by linarith
  have ha'lo : a - ea ≤ a' := by have := (abs_le.1 hea).1; linarith
  have ha'pos : 0 < a' := by linarith
  have hd : 0 < a - ea := by linarith
  have e1 : diMod a' * s' = 100 * (s' / a') := by unfold diMod; rw [if_neg ha'pos.ne']; ring
  have e2 : diMod a * s = 100 * (s / a) := by unfold diMod; rw [if_neg hapos.ne']; ring
  have hq := quot_perturb s s' a a' es ea hapos ha'pos hes hea
  have hnum : 0 ≤ es + |s / a| * ea := by
    have : 0 ≤ es := le_trans (abs_nonneg _) hes
    have := mul_nonneg (abs_nonneg (s / a)) hea0
    linarith
  rw [e1, e2, ← mul_sub, abs_mul, abs_of_pos (by norm_num : (0 : K) < 100)]
  calc 100 * |s' / a' - s / a| ≤ 100 * ((es + |s / a| * ea) / a') :=
        mul_le_mul_of_nonneg_left hq (by norm_num)
    _ ≤ 100 * ((es + |s / a| * ea) / (a - ea)) :=
        mul_le_mul_of_nonneg_left (div_le_div_of_nonneg_left hnum hd ha'lo) (by norm_num)
    _ = (100 * es + |100 * (s / a)| * ea) / (a - ea) := by
        rw [abs_mul, abs_of_pos (by norm_num : (0 : K) < 100)]; ring

/-- **the unrounded `DI+` against the textbook `DI+`**, where the textbook ATR exceeds the ATR budget -/
theorem adxPlusU_err (hp : 1 ≤ p) (j : Nat) (hj : p ≤ j) (hA : adxAtrBudget (K := K) p < adxAtrE p raw j) :
    |adxPlusU p raw j - adxDiPlusE p raw j| ≤ adxDiBudget p (adxDiPlusE p raw j) (adxAtrE p raw j) :=
  di_perturb _ _ _ _ _ _ (adxPosF_err p raw hp j) (stAtr_err p raw hp j hj) hA (adxAtrBudget_nonneg p hp)

theorem adxMinusU_err (hp : 1 ≤ p) (j : Nat) (hj : p ≤ j) (hA : adxAtrBudget (K := K) p < adxAtrE p raw j) :
    |adxMinusU p raw j - adxDiMinusE p raw j| ≤ adxDiBudget p (adxDiMinusE p raw j) (adxAtrE p raw j) :=
  di_perturb _ _ _ _ _ _ (adxNegF_err p raw hp j) (stAtr_err p raw hp j hj) hA (adxAtrBudget_nonneg p hp)

/-- `DX` under a perturbation `e` of the two indices, their exact sum exceeding `e` -/
theorem dxOf_perturb (P M P' M' eP eM : K) (hP : |P' - P| ≤ eP) (hM : |M' - M| ≤ eM) (hS : eP + eM < P + M) :
    |dxOf P' M' - dxOf P M| ≤ (100 + dxOf P M) * (eP + eM) / (P + M - (eP + eM)) := by
  have he0 : 0 ≤ eP + eM := add_nonneg (le_trans (abs_nonneg _) hP) (le_trans (abs_nonneg _) hM)
  have hSpos : 0 < P + M := by linarith
  have hS'lo : P + M - (eP + eM) ≤ P' + M' := by
    have := (abs_le.1 hP).1; have := (abs_le.1 hM).1; linarith
  have hd : 0 < P + M - (eP + eM) := by linarith
  have hS'pos : 0 < P' + M' := by linarith
  have e1 : dxOf P' M' = 100 * (|P' - M'| / (P' + M')) := by unfold dxOf; rw [if_neg hS'pos.ne']; ring
  have e2 : dxOf P M = 100 * (|P - M| / (P + M)) := by unfold dxOf; rw [if_neg hSpos.ne']; ring
  have hnumd : abs (abs (P' - M') - abs (P - M)) ≤ eP + eM := by
    refine le_trans (abs_abs_sub_abs_le _ _) ?_
    have e : P' - M' - (P - M) = (P' - P) - (M' - M) := by ring
    rw [e]
    exact le_trans (abs_sub _ _) (add_le_add hP hM)
  have hdend : |P' + M' - (P + M)| ≤ eP + eM := by
    have e : P' + M' - (P + M) = (P' - P) + (M' - M) := by ring
    rw [e]
    exact le_trans (abs_add_le _ _) (add_le_add hP hM)
  have hq := quot_perturb (|P - M|) (|P' - M'|) (P + M) (P' + M') (eP + eM) (eP + eM) hSpos hS'pos hnumd hdend
  have hr0 : 0 ≤ |P - M| / (P + M) := div_nonneg (abs_nonneg _) hSpos.le
  rw [abs_of_nonneg hr0] at hq
  have hnum : 0 ≤ (eP + eM) + |P - M| / (P + M) * (eP + eM) := by
    have := mul_nonneg hr0 he0; linarith
  rw [e1, e2, ← mul_sub, abs_mul, abs_of_pos (by norm_num : (0 : K) < 100)]
  calc 100 * abs (abs (P' - M') / (P' + M') - abs (P - M) / (P + M))
      ≤ 100 * (((eP + eM) + |P - M| / (P + M) * (eP + eM)) / (P' + M')) :=
        mul_le_mul_of_nonneg_left hq (by norm_num)
    _ ≤ 100 * (((eP + eM) + |P - M| / (P + M) * (eP + eM)) / (P + M - (eP + eM))) :=
        mul_le_mul_of_nonneg_left (div_le_div_of_nonneg_left hnum hd hS'lo) (by norm_num)
    _ = (100 + 100 * (|P - M| / (P + M))) * (eP + eM) / (P + M - (eP + eM)) := by ring

/-- budget of the unrounded `dx` entry of candle `j` against the textbook `DX` -/
def adxDxBudget (j : Nat) : K :=
  (100 + adxDxE p raw j) *
    (adxDiBudget p (adxDiPlusE p raw j) (adxAtrE p raw j) + adxDiBudget p (adxDiMinusE p raw j) (adxAtrE p raw j)) /
    (adxDiPlusE p raw j + adxDiMinusE p raw j -
      (adxDiBudget p (adxDiPlusE p raw j) (adxAtrE p raw j) + adxDiBudget p (adxDiMinusE p raw j) (adxAtrE p raw j)))

/-- the denominators of candle `j` are bounded away from `0`: the textbook ATR exceeds the ATR budget
and the textbook `DI+ + DI−` exceeds the budgets of the two indices -/
def AdxCond (j : Nat) : Prop :=
  adxAtrBudget (K := K) p < adxAtrE p raw j ∧
  adxDiBudget p (adxDiPlusE p raw j) (adxAtrE p raw j) + adxDiBudget p (adxDiMinusE p raw j) (adxAtrE p raw j)
    < adxDiPlusE p raw j + adxDiMinusE p raw j

/-- **the unrounded `dx` entry against the textbook `DX`** on a well-conditioned candle -/
theorem adxDxU_err (hp : 1 ≤ p) (j : Nat) (hj : p ≤ j) (hc : AdxCond p raw j) :
    |adxDxU p raw j - adxDxE p raw j| ≤ adxDxBudget p raw j := by
  rw [adxDxU_eq]
  exact dxOf_perturb _ _ _ _ _ _ (adxPlusU_err p raw hp j hj hc.1) (adxMinusU_err p raw hp j hj hc.1) hc.2

/-- **the stored `<name>_dx` series against the textbook ADX**: if every candle `p … j` is
well-conditioned with `dx` budget at most `δ`, the stored reading is within `signal·ε₄ + δ` -/
theorem adxF_err (hp : 1 ≤ p) (hg : 1 ≤ sg) (δ : K) (j : Nat) (hj : p + sg ≤ j + 1)
    (h : ∀ i, p ≤ i → i ≤ j → AdxCond p raw i ∧ adxDxBudget p raw i ≤ δ) :
    |adxF p sg raw j - adxE p sg raw j| ≤ eps K defaultRound / (1 / (sg : K)) + δ :=
  adx_abs_tri _ _ _ _ _ (rmaColF_err sg p hg _ j)
    (rmaColExact_perturb sg p hg _ _ δ j hj
      (fun i h1 h2 => le_trans (adxDxU_err p raw hp i h1 (h i h1 h2).1) (h i h1 h2).2))

/-- **the stored own dict against the textbook series.**  `DM_Plus` / `DM_Neg`: `None` before candle
`p`, then within `ε_n + adxDiBudget` of the textbook `DI±` where the ATR is bounded away from 0;
`ADX`: `None` before candle `p + signal − 1`, then within `ε_n + signal·ε₄ + δ` of the textbook ADX where
all candles so far are well-conditioned with `dx` budget at most `δ`. -/
theorem adxOwn_ok (hp : 1 ≤ p) (hg : 1 ≤ sg) (j : Nat) :
    ((∀ i, p ≤ i → i ≤ j → adxAtrBudget (K := K) p < adxAtrE p raw i) →
      MacdFieldOK (eps K n + adxDiBudget p (adxDiPlusE p raw j) (adxAtrE p raw j)) (adxPlusLine p raw j)
        ((adxOwn n p sg raw j).nested "DM_Plus") ∧
      MacdFieldOK (eps K n + adxDiBudget p (adxDiMinusE p raw j) (adxAtrE p raw j)) (adxMinusLine p raw j)
        ((adxOwn n p sg raw j).nested "DM_Neg")) ∧
    (∀ δ : K, (∀ i, p ≤ i → i ≤ j → AdxCond p raw i ∧ adxDxBudget p raw i ≤ δ) →
      MacdFieldOK (eps K n + (eps K defaultRound / (1 / (sg : K)) + δ)) (adxLine p sg raw j)
        ((adxOwn n p sg raw j).nested "ADX")) := by
  refine ⟨fun hA => ⟨?_, ?_⟩, fun δ h => ?_⟩
  · rw [adxOwn_plus]
    unfold adxPlusLine
    by_cases hj : j < p
    · rw [if_pos hj, if_pos hj]; rfl
    · rw [if_neg hj, if_neg hj]
      exact ⟨_, rfl, adx_abs_tri _ _ _ _ _ (LawfulPyF.round_err n _)
        (adxPlusU_err p raw hp j (by omega) (hA j (by omega) (le_refl _)))⟩
  · rw [adxOwn_minus]
    unfold adxMinusLine
    by_cases hj : j < p
    · rw [if_pos hj, if_pos hj]; rfl
    · rw [if_neg hj, if_neg hj]
      exact ⟨_, rfl, adx_abs_tri _ _ _ _ _ (LawfulPyF.round_err n _)
        (adxMinusU_err p raw hp j (by omega) (hA j (by omega) (le_refl _)))⟩
  · rw [adxOwn_ADX n p sg raw hg]
    unfold adxLine
    by_cases hj : j + 1 < p + sg
    · rw [if_pos hj, if_pos hj]; rfl
    · rw [if_neg hj, if_neg hj]
      exact ⟨_, rfl, adx_abs_tri _ _ _ _ _ (LawfulPyF.round_err n _)
        (adxF_err p sg raw hp hg δ j (by omega) h)⟩

end textbook

/-! ### the finished candles, reading by reading -/

theorem splitDot_own (name fld : String) (h : NoDot name) (hf : '.' ∉ fld.toList) :
    splitDot (name ++ "." ++ fld) = [name, fld] :=
  Adx.splitDot_field name fld _ h hf (by simp only [String.toList_append, List.append_assoc]; rfl)

section readings
variable (nm : String) (n p sg : Nat) (raw : List (Candle K))

theorem adxOut_length : (adxOut nm n p sg raw).length = raw.length :=
  adxRows_length nm n p sg raw raw.length

theorem adxOut_getD (j : Nat) (hj : j < raw.length) :
    (adxOut nm n p sg raw).getD j default = adxRow nm n p sg raw j :=
  adxRows_getD nm n p sg raw raw.length j hj

/-- candle `j` of `adxOut` is the raw candle `j` and reads the stored series under the seven keys
(and the fields of the two dicts under the dotted names) -/
theorem adxOut_readings (hn : AdxNames nm) (hp : 1 ≤ p) (hg : 1 ≤ sg) (hraw : ∀ c ∈ raw, Plain c) (j : Nat)
    (hj : j < raw.length) :
    ((adxOut nm n p sg raw).getD j default).bare = (raw.getD j default).bare ∧
    readingByCandle ((adxOut nm n p sg raw).getD j default) (nm ++ "_atr" ++ "_TR") = trStored raw j ∧
    readingByCandle ((adxOut nm n p sg raw).getD j default) (nm ++ "_atr") = stAtrStored p raw j ∧
    readingByCandle ((adxOut nm n p sg raw).getD j default) (nm ++ "_data.pos")
      = (if j = 0 then .none else .num (dmPN raw j)) ∧
    readingByCandle ((adxOut nm n p sg raw).getD j default) (nm ++ "_data.neg")
      = (if j = 0 then .none else .num (dmNN raw j)) ∧
    readingByCandle ((adxOut nm n p sg raw).getD j default) (nm ++ "_data.dx")
      = (if j < p then .none else .num (adxDxN p raw j)) ∧
    readingByCandle ((adxOut nm n p sg raw).getD j default) (nm ++ "_pos") = adxPosV p raw j ∧
    readingByCandle ((adxOut nm n p sg raw).getD j default) (nm ++ "_neg") = adxNegV p raw j ∧
    readingByCandle ((adxOut nm n p sg raw).getD j default) (nm ++ "_dx") = adxV p sg raw j ∧
    readingByCandle ((adxOut nm n p sg raw).getD j default) nm = adxOwn n p sg raw j ∧
    readingByCandle ((adxOut nm n p sg raw).getD j default) (nm ++ "." ++ "ADX")
      = (adxOwn n p sg raw j).nested "ADX" ∧
    readingByCandle ((adxOut nm n p sg raw).getD j default) (nm ++ "." ++ "DM_Plus")
      = (adxOwn n p sg raw j).nested "DM_Plus" ∧
    readingByCandle ((adxOut nm n p sg raw).getD j default) (nm ++ "." ++ "DM_Neg")
      = (adxOwn n p sg raw j).nested "DM_Neg" := by
  have hc := getD_plain raw hraw j hj
  rw [adxOut_getD nm n p sg raw j hj]
  unfold adxRow
  refine ⟨adxCand_bare nm _ _ _ _ _, adxCand_tr nm hn _ _ _ _ _ hc, adxCand_atr nm hn _ _ _ _ _ hc, ?_, ?_, ?_, ?_, ?_,
    ?_, adxCand_own nm hn _ _ _ _ _, ?_, ?_, ?_⟩
  · rw [adxCand_field nm hn _ _ _ _ _ "pos" _ hn.dPos hc, adxStAt_fpos]
  · rw [adxCand_field nm hn _ _ _ _ _ "neg" _ hn.dNeg hc, adxStAt_fneg]
  · rw [adxCand_field nm hn _ _ _ _ _ "dx" _ hn.dDx hc, adxStAt_fdx p sg raw hp]
  · rw [adxCand_pos nm hn _ _ _ _ _ hc, adxStAt_pos p sg raw hp]
  · rw [adxCand_neg nm hn _ _ _ _ _ hc, adxStAt_neg p sg raw hp]
  · rw [adxCand_dx nm hn _ _ _ _ _ hc, adxStAt_dx p sg raw hp hg]
  · exact rbc_dotted_own nm _ "ADX" (splitDot_own nm "ADX" hn.kN.noDot (by decide)) _ _
  · exact rbc_dotted_own nm _ "DM_Plus" (splitDot_own nm "DM_Plus" hn.kN.noDot (by decide)) _ _
  · exact rbc_dotted_own nm _ "DM_Neg" (splitDot_own nm "DM_Neg" hn.kN.noDot (by decide)) _ _

end readings

/-- what is claimed of candle `j` of an ADX run over `raw` (candle `c`):
* it is the raw candle; `<name>_atr_TR` carries `trStored` (the rounded true range), `<name>_atr` is `AtrOK`
  w.r.t. the stored and `AtrOKTrue` w.r.t. the exact true ranges (`SeriesATR`; first reading at candle `p`);
* `<name>_data` (unrounded): `pos` / `neg` = the directional movements `dmPN` / `dmNN` from candle 1 on
  (`dmPlusAt_eq`: the textbook `+DM` / `−DM`), `dx` = `adxDxN` from candle `p` on (`adxDxU_eq`: `DX` of the
  unrounded indices);
* `<name>_pos` / `<name>_neg`: `RecOK` (warm-up `p`, budget `p·ε₄`) w.r.t. the TEXTBOOK Wilder averages of the
  movements; `<name>_dx`: `RecOK` (warm-up `p + signal − 1`, budget `signal·ε₄`) w.r.t. the Wilder average of the
  `dx` column it read, and in `[0, 100]`;
* the own dict is `adxOwn`: all-`None` before candle `p`; its fields (also under the dotted names) satisfy
  `0 ≤ ADX ≤ 100`, `0 ≤ DM_Plus`, `0 ≤ DM_Neg` exactly, and are within the stated budgets of the textbook
  `DI±` / `ADX` where the denominators are bounded away from 0 (`AdxCond`). -/
def AdxCandleOK (nm : String) (n p sg : Nat) (raw : List (Candle K)) (j : Nat) (c : Candle K) : Prop :=
  c.bare = (raw.getD j default).bare ∧
  readingByCandle c (nm ++ "_atr" ++ "_TR") = trStored raw j ∧
  AtrOK p defaultRound (trS raw) j (readingByCandle c (nm ++ "_atr")) ∧
  AtrOKTrue p defaultRound raw j (readingByCandle c (nm ++ "_atr")) ∧
  readingByCandle c (nm ++ "_data.pos") = (if j = 0 then .none else .num (dmPN raw j)) ∧
  readingByCandle c (nm ++ "_data.neg") = (if j = 0 then .none else .num (dmNN raw j)) ∧
  readingByCandle c (nm ++ "_data.dx") = (if j < p then .none else .num (adxDxN p raw j)) ∧
  RecOK (1 + p) defaultRound (1 / (p : K)) (adxSPlusE p raw) j (readingByCandle c (nm ++ "_pos")) ∧
  RecOK (1 + p) defaultRound (1 / (p : K)) (adxSMinusE p raw) j (readingByCandle c (nm ++ "_neg")) ∧
  RecOK (p + sg) defaultRound (1 / (sg : K)) (rmaColExact sg p (adxDxU p raw)) j (readingByCandle c (nm ++ "_dx")) ∧
  FieldIn 0 100 (readingByCandle c (nm ++ "_dx")) ∧
  readingByCandle c nm = adxOwn n p sg raw j ∧
  (j < p → readingByCandle c nm = adxNone3) ∧
  FieldIn 0 100 (readingByCandle c (nm ++ "." ++ "ADX")) ∧
  FieldNonneg (readingByCandle c (nm ++ "." ++ "DM_Plus")) ∧
  FieldNonneg (readingByCandle c (nm ++ "." ++ "DM_Neg")) ∧
  ((∀ i, p ≤ i → i ≤ j → adxAtrBudget (K := K) p < adxAtrE p raw i) →
    MacdFieldOK (eps K n + adxDiBudget p (adxDiPlusE p raw j) (adxAtrE p raw j)) (adxPlusLine p raw j)
      (readingByCandle c (nm ++ "." ++ "DM_Plus")) ∧
    MacdFieldOK (eps K n + adxDiBudget p (adxDiMinusE p raw j) (adxAtrE p raw j)) (adxMinusLine p raw j)
      (readingByCandle c (nm ++ "." ++ "DM_Neg"))) ∧
  (∀ δ : K, (∀ i, p ≤ i → i ≤ j → AdxCond p raw i ∧ adxDxBudget p raw i ≤ δ) →
    MacdFieldOK (eps K n + (eps K defaultRound / (1 / (sg : K)) + δ)) (adxLine p sg raw j)
      (readingByCandle c (nm ++ "." ++ "ADX")))

theorem adxV_range (p sg : Nat) (raw : List (Candle K)) (hp : 1 ≤ p) (hg : 1 ≤ sg) (j : Nat) :
    FieldIn 0 100 (adxV p sg raw j) := by
  unfold adxV rmaCol
  by_cases h : j + 1 < p + sg
  · rw [if_pos h]; exact Or.inl rfl
  · rw [if_neg h]
    exact Or.inr ⟨_, rfl, adxF_range p sg raw hp hg j⟩

theorem adxOut_ok (nm : String) (n p sg : Nat) (raw : List (Candle K)) (hp : 1 ≤ p) (hg : 1 ≤ sg)
    (hn : AdxNames nm) (hraw : ∀ c ∈ raw, Plain c) (j : Nat) (hj : j < raw.length) :
    AdxCandleOK nm n p sg raw j ((adxOut nm n p sg raw).getD j default) := by
  obtain ⟨r1, r2, r3, r4, r5, r6, r7, r8, r9, r10, r11, r12, r13⟩ :=
    adxOut_readings nm n p sg raw hn hp hg hraw j hj
  obtain ⟨g1, g2, g3⟩ := adxOwn_ranges n p sg raw hp hg j
  obtain ⟨o1, o2⟩ := adxOwn_ok n p sg raw hp hg j
  refine ⟨r1, r2, ?_, ?_, r4, r5, r6, ?_, ?_, ?_, ?_, r10, ?_, ?_, ?_, ?_, ?_, ?_⟩
  · rw [r3]; exact stAtrStored_ok p hp raw j
  · rw [r3]; exact AtrOK.toTrue p hp _ raw j _ (stAtrStored_ok p hp raw j)
  · rw [r7]; exact adxPosV_ok p raw hp j
  · rw [r8]; exact adxNegV_ok p raw hp j
  · rw [r9]; exact adxV_ok p sg raw hg j
  · rw [r9]; exact adxV_range p sg raw hp hg j
  · intro h; rw [r10]; exact adxOwn_none n p sg raw j h
  · rw [r11]; exact g1
  · rw [r12]; exact g2
  · rw [r13]; exact g3
  · intro h; rw [r12, r13]; exact o1 h
  · intro δ h; rw [r11]; exact o2 δ h

/-- **ADX, whole series, reading by reading** (the ADX item of `C06.C06_FULL`): for EVERY raw candle
list the row-major run of `adxTree` returns a list of the raw candles' length whose candle `j`
satisfies `AdxCandleOK`. -/
theorem adx_series_readings (nm : String) (n p sg : Nat) (hp : 1 ≤ p) (hg : 1 ≤ sg) (hn : AdxNames nm)
    (raw : List (Candle K)) (hraw : ∀ c ∈ raw, Plain c) :
    ∃ out : List (Candle K),
      Gen.rowMajor (adxTreeN (K := K) nm n p sg hp hg hn).S raw = .ok out ∧
      out.length = raw.length ∧
      ∀ j, j < raw.length → AdxCandleOK nm n p sg raw j (out.getD j default) :=
  ⟨_, adx_series nm n p sg hp hg hn raw hraw, adxOut_length nm n p sg raw,
    adxOut_ok nm n p sg raw hp hg hn hraw⟩

/-- the engine's `calculate()`, reading by reading -/
theorem adx_engine_readings (nm : String) (n p sg : Nat) (hp : 1 ≤ p) (hg : 1 ≤ sg) (hn : AdxNames nm)
    (raw : List (Candle K)) (hraw : ∀ c ∈ raw, Plain c) :
    ∃ out : List (Candle K),
      engineCalc (mkTop (.adx (p : Int) (sg : Int) : Kind K) nm n) raw = .ok out ∧
      out.length = raw.length ∧
      ∀ j, j < raw.length → AdxCandleOK nm n p sg raw j (out.getD j default) :=
  ⟨_, adx_engine nm n p sg hp hg hn raw hraw, adxOut_length nm n p sg raw,
    adxOut_ok nm n p sg raw hp hg hn hraw⟩

/-- **whenever the batch run returns, its candles carry exactly those readings** (and it does
return: `adx_batch`) -/
theorem adx_batch_readings (nm : String) (n p sg : Nat) (hp : 1 ≤ p) (hg : 1 ≤ sg) (hn : AdxNames nm)
    (raw : List (Candle K)) (hraw : ∀ c ∈ raw, Plain c) (out : List (Candle K))
    (hout : candlesOf (runIndicator (mkTop (.adx (p : Int) (sg : Int) : Kind K) nm n) {} raw []) = .ok out) :
    out.length = raw.length ∧
    ∀ j, j < raw.length → AdxCandleOK nm n p sg raw j (out.getD j default) := by
  rw [adx_batch_out nm n p sg hp hg hn raw hraw out hout]
  exact ⟨adxOut_length nm n p sg raw, adxOut_ok nm n p sg raw hp hg hn hraw⟩

/-- … and so do the candles of every live history (any append schedule) -/
theorem adx_live_readings (nm : String) (n p sg : Nat) (hp : 1 ≤ p) (hg : 1 ≤ sg) (hn : AdxNames nm)
    (init : List (Candle K)) (chunks : List (List (Candle K)))
    (hraw : ∀ c ∈ init ++ chunks.flatten, Plain c) (snap : List (Candle K))
    (hsnap : candlesOf (runIndicator (mkTop (.adx (p : Int) (sg : Int) : Kind K) nm n) {} init chunks) = .ok snap) :
    snap.length = (init ++ chunks.flatten).length ∧
    ∀ j, j < (init ++ chunks.flatten).length →
      AdxCandleOK nm n p sg (init ++ chunks.flatten) j (snap.getD j default) := by
  rw [adx_live nm n p sg hp hg hn init chunks hraw snap hsnap]
  exact ⟨adxOut_length nm n p sg _, adxOut_ok nm n p sg _ hp hg hn hraw⟩

/-! ### non-vacuity: the five demo candles of HexProps/C04.lean over ℚ, `ADX(2, 2)` -/

theorem adxNames_demo : AdxNames "ADX_2_2" :=
  ⟨by decide, by decide, by decide, by decide, by decide, by decide, by decide, by decide, by decide, by decide,
    by decide, by decide, by decide, by decide, by decide, by decide, by decide, by decide, by decide, by decide,
    by decide, by decide, by decide, by decide, by decide, by decide, by decide, by decide⟩

/-- the directional movements of the demo candles (highs 12, 13, 15, 16, 15; lows 9, 10, 11, 13, 15):
`+DM` = 1, 2, 1, 0 on candles 1 … 4, `−DM` = 0 throughout -/
theorem adxDemo_dm : dmPlusAt atrDemoRaw 1 = 1 ∧ dmPlusAt atrDemoRaw 2 = 2 ∧ dmPlusAt atrDemoRaw 3 = 1 ∧
    dmPlusAt atrDemoRaw 4 = 0 ∧ dmMinusAt atrDemoRaw 1 = 0 ∧ dmMinusAt atrDemoRaw 2 = 0 ∧
    dmMinusAt atrDemoRaw 3 = 0 ∧ dmMinusAt atrDemoRaw 4 = 0 := by
  refine ⟨?_, ?_, ?_, ?_, ?_, ?_, ?_, ?_⟩ <;>
    simp [dmPlusAt_eq, dmMinusAt_eq, dmPlus, dmMinus, fieldAt, atrDemoRaw, Demo.mk] <;> norm_num

/-- the stored `ADX_2_2_pos` column (`a = 1/2`): `None, None, 1.6667, 1.3334, 0.6667` -/
theorem adxDemo_pos : adxPosF 2 atrDemoRaw 2 = 16667 / 10000 ∧ adxPosF 2 atrDemoRaw 3 = 13334 / 10000 ∧
    adxPosF 2 atrDemoRaw 4 = 6667 / 10000 := by
  obtain ⟨x1, x2, x3, x4, _⟩ := adxDemo_dm
  have h2 : adxPosF 2 atrDemoRaw 2 = 16667 / 10000 := by
    unfold adxPosF
    rw [rmaColF_seed _ _ _ _ (by norm_num)]
    simp only [decayMean, rsum, List.range_succ, List.range_zero]
    norm_num [x1, x2, decRound, PyF.round, defaultRound]
  have h3 : adxPosF 2 atrDemoRaw 3 = 13334 / 10000 := by
    have : adxPosF 2 atrDemoRaw 3 = PyF.round defaultRound
        (1 / ((2 : Nat) : ℚ) * dmPlusAt atrDemoRaw 3 + (1 - 1 / ((2 : Nat) : ℚ)) * adxPosF 2 atrDemoRaw 2) :=
      rmaColF_step _ _ _ _ (by norm_num) (by norm_num)
    rw [this, h2, x3]
    norm_num [decRound, PyF.round, defaultRound]
  have h4 : adxPosF 2 atrDemoRaw 4 = 6667 / 10000 := by
    have : adxPosF 2 atrDemoRaw 4 = PyF.round defaultRound
        (1 / ((2 : Nat) : ℚ) * dmPlusAt atrDemoRaw 4 + (1 - 1 / ((2 : Nat) : ℚ)) * adxPosF 2 atrDemoRaw 3) :=
      rmaColF_step _ _ _ _ (by norm_num) (by norm_num)
    rw [this, h3, x4]
    norm_num [decRound, PyF.round, defaultRound]
  exact ⟨h2, h3, h4⟩

/-- the stored `ADX_2_2_neg` column: `None, None, 0, 0, 0` -/
theorem adxDemo_neg : adxNegF 2 atrDemoRaw 2 = 0 ∧ adxNegF 2 atrDemoRaw 3 = 0 ∧ adxNegF 2 atrDemoRaw 4 = 0 := by
  obtain ⟨_, _, _, _, y1, y2, y3, y4⟩ := adxDemo_dm
  have h2 : adxNegF 2 atrDemoRaw 2 = 0 := by
    unfold adxNegF
    rw [rmaColF_seed _ _ _ _ (by norm_num)]
    simp only [decayMean, rsum, List.range_succ, List.range_zero]
    norm_num [y1, y2, decRound, PyF.round, defaultRound]
  have h3 : adxNegF 2 atrDemoRaw 3 = 0 := by
    have : adxNegF 2 atrDemoRaw 3 = PyF.round defaultRound
        (1 / ((2 : Nat) : ℚ) * dmMinusAt atrDemoRaw 3 + (1 - 1 / ((2 : Nat) : ℚ)) * adxNegF 2 atrDemoRaw 2) :=
      rmaColF_step _ _ _ _ (by norm_num) (by norm_num)
    rw [this, h2, y3]
    norm_num [decRound, PyF.round, defaultRound]
  have h4 : adxNegF 2 atrDemoRaw 4 = 0 := by
    have : adxNegF 2 atrDemoRaw 4 = PyF.round defaultRound
        (1 / ((2 : Nat) : ℚ) * dmMinusAt atrDemoRaw 4 + (1 - 1 / ((2 : Nat) : ℚ)) * adxNegF 2 atrDemoRaw 3) :=
      rmaColF_step _ _ _ _ (by norm_num) (by norm_num)
    rw [this, h3, y4]
    norm_num [decRound, PyF.round, defaultRound]
  exact ⟨h2, h3, h4⟩

/-- the unrounded directional indices: `DI+ = 100·pos/ATR` = 47.62, 41.0276…, 41.0276… (ATR = 3.5, 3.25, 1.625),
`DI− = 0` -/
theorem adxDemo_di : adxPlusU 2 atrDemoRaw 2 = 4762 / 100 ∧ adxPlusU 2 atrDemoRaw 3 = 13334 / 325 ∧
    adxPlusU 2 atrDemoRaw 4 = 13334 / 325 ∧ adxMinusU 2 atrDemoRaw 2 = 0 ∧ adxMinusU 2 atrDemoRaw 3 = 0 ∧
    adxMinusU 2 atrDemoRaw 4 = 0 := by
  obtain ⟨a2, a3, a4⟩ := stDemo_atr
  obtain ⟨p2, p3, p4⟩ := adxDemo_pos
  obtain ⟨n2, n3, n4⟩ := adxDemo_neg
  unfold adxPlusU adxMinusU diMod
  rw [a2, a3, a4, p2, p3, p4, n2, n3, n4]
  norm_num

/-- `DX = 100` on candles 2, 3, 4 (only upward movement) -/
theorem adxDemo_dx : adxDxU 2 atrDemoRaw 2 = 100 ∧ adxDxU 2 atrDemoRaw 3 = 100 ∧ adxDxU 2 atrDemoRaw 4 = 100 := by
  obtain ⟨d2, d3, d4, m2, m3, m4⟩ := adxDemo_di
  rw [adxDxU_eq, adxDxU_eq, adxDxU_eq, d2, d3, d4, m2, m3, m4]
  unfold dxOf
  norm_num

/-- the stored `ADX_2_2_dx` column: `None` up to candle 2, then 100, 100 -/
theorem adxDemo_adx : adxF 2 2 atrDemoRaw 3 = 100 ∧ adxF 2 2 atrDemoRaw 4 = 100 := by
  obtain ⟨x2, x3, x4⟩ := adxDemo_dx
  have h3 : adxF 2 2 atrDemoRaw 3 = 100 := by
    unfold adxF
    rw [rmaColF_seed _ _ _ _ (by norm_num)]
    simp only [decayMean, rsum, List.range_succ, List.range_zero]
    norm_num [x2, x3, decRound, PyF.round, defaultRound]
  have h4 : adxF 2 2 atrDemoRaw 4 = 100 := by
    have : adxF 2 2 atrDemoRaw 4 = PyF.round defaultRound
        (1 / ((2 : Nat) : ℚ) * adxDxU 2 atrDemoRaw 4 + (1 - 1 / ((2 : Nat) : ℚ)) * adxF 2 2 atrDemoRaw 3) :=
      rmaColF_step _ _ _ _ (by norm_num) (by norm_num)
    rw [this, h3, x4]
    norm_num [decRound, PyF.round, defaultRound]
  exact ⟨h3, h4⟩

/-- the stored own dicts of candles 1 … 4 -/
theorem adxDemo_own :
    adxOwn 4 2 2 atrDemoRaw 1 = adxNone3 ∧
    adxOwn 4 2 2 atrDemoRaw 2 = sdict [("ADX", .none), ("DM_Plus", sc (.flt (4762 / 100))), ("DM_Neg", sc (.flt 0))] ∧
    adxOwn 4 2 2 atrDemoRaw 3
      = sdict [("ADX", sc (.flt 100)), ("DM_Plus", sc (.flt (410277 / 10000))), ("DM_Neg", sc (.flt 0))] ∧
    adxOwn 4 2 2 atrDemoRaw 4
      = sdict [("ADX", sc (.flt 100)), ("DM_Plus", sc (.flt (410277 / 10000))), ("DM_Neg", sc (.flt 0))] := by
  obtain ⟨d2, d3, d4, m2, m3, m4⟩ := adxDemo_di
  obtain ⟨g3, g4⟩ := adxDemo_adx
  refine ⟨adxOwn_none _ _ _ _ _ (by norm_num), ?_, ?_, ?_⟩
  · rw [adxOwn_some _ _ _ _ _ (by norm_num), adxScal_round, if_pos (by norm_num), d2, m2]
    norm_num [decRound, PyF.round, sc]
  · rw [adxOwn_some _ _ _ _ _ (by norm_num), adxScal_round, if_neg (by norm_num), d3, m3, g3]
    norm_num [decRound, PyF.round, sc]
  · rw [adxOwn_some _ _ _ _ _ (by norm_num), adxScal_round, if_neg (by norm_num), d4, m4, g4]
    norm_num [decRound, PyF.round, sc]

/-- **the batch run on the demo candles** returns, and its candles carry: an all-`None` dict and no smoothed
movement on candle 1 (`<name>_data` = `{pos: 1, neg: 0}`); `{ADX: None, DM_Plus: 47.62, DM_Neg: 0}` on candle 2
(warm-up of `DI±` = `period` = 2); `{ADX: 100, DM_Plus: 41.0277, DM_Neg: 0}` on candles 3 and 4 (warm-up of ADX =
`period + signal − 1` = 3); `<name>_pos` = 0.6667 on candle 4 – the values the Python class returns -/
example : ∃ out : List (Candle ℚ),
    candlesOf (runIndicator (mkTop (.adx ((2 : Nat) : Int) ((2 : Nat) : Int) : Kind ℚ) "ADX_2_2" 4) {} atrDemoRaw [])
      = .ok out ∧
    out.length = 5 ∧
    readingByCandle (out.getD 1 default) "ADX_2_2" = adxNone3 ∧
    readingByCandle (out.getD 1 default) ("ADX_2_2" ++ "_data.pos") = .int 1 ∧
    readingByCandle (out.getD 1 default) ("ADX_2_2" ++ "_pos") = .none ∧
    readingByCandle (out.getD 2 default) "ADX_2_2"
      = sdict [("ADX", .none), ("DM_Plus", sc (.flt (4762 / 100))), ("DM_Neg", sc (.flt 0))] ∧
    readingByCandle (out.getD 3 default) "ADX_2_2"
      = sdict [("ADX", sc (.flt 100)), ("DM_Plus", sc (.flt (410277 / 10000))), ("DM_Neg", sc (.flt 0))] ∧
    readingByCandle (out.getD 4 default) "ADX_2_2"
      = sdict [("ADX", sc (.flt 100)), ("DM_Plus", sc (.flt (410277 / 10000))), ("DM_Neg", sc (.flt 0))] ∧
    readingByCandle (out.getD 4 default) ("ADX_2_2" ++ "_pos") = .flt (6667 / 10000) ∧
    readingByCandle (out.getD 4 default) ("ADX_2_2" ++ "_dx") = .flt 100 := by
  have hb := adx_batch "ADX_2_2" 4 2 2 (by norm_num) (by norm_num) adxNames_demo atrDemoRaw atrDemoRaw_plain
  obtain ⟨o1, o2, o3, o4⟩ := adxDemo_own
  have rd := fun j hj => adxOut_readings "ADX_2_2" 4 2 2 atrDemoRaw adxNames_demo (by norm_num) (by norm_num)
    atrDemoRaw_plain j hj
  refine ⟨_, hb, adxOut_length _ _ _ _ _, ?_, ?_, ?_, ?_, ?_, ?_, ?_, ?_⟩
  · rw [(rd 1 (by decide)).2.2.2.2.2.2.2.2.2.1]; exact o1
  · rw [(rd 1 (by decide)).2.2.2.1]; rfl
  · rw [(rd 1 (by decide)).2.2.2.2.2.2.1]; exact rmaCol_none _ _ _ _ (by norm_num)
  · rw [(rd 2 (by decide)).2.2.2.2.2.2.2.2.2.1]; exact o2
  · rw [(rd 3 (by decide)).2.2.2.2.2.2.2.2.2.1]; exact o3
  · rw [(rd 4 (by decide)).2.2.2.2.2.2.2.2.2.1]; exact o4
  · rw [(rd 4 (by decide)).2.2.2.2.2.2.1]
    unfold adxPosV
    rw [rmaCol_flt _ _ _ _ (by norm_num)]
    exact congrArg _ adxDemo_pos.2.2
  · rw [(rd 4 (by decide)).2.2.2.2.2.2.2.2.1]
    unfold adxV
    rw [rmaCol_flt _ _ _ _ (by norm_num)]
    exact congrArg _ adxDemo_adx.2

/-- the general theorem instantiated on the demo candles -/
example : ∃ out : List (Candle ℚ),
    Gen.rowMajor (adxTreeN (K := ℚ) "ADX_2_2" 4 2 2 (by norm_num) (by norm_num) adxNames_demo).S atrDemoRaw = .ok out ∧
    out.length = atrDemoRaw.length ∧
    ∀ j, j < atrDemoRaw.length → AdxCandleOK "ADX_2_2" 4 2 2 atrDemoRaw j (out.getD j default) :=
  adx_series_readings "ADX_2_2" 4 2 2 (by norm_num) (by norm_num) adxNames_demo atrDemoRaw atrDemoRaw_plain

/-- the textbook series on the demo candles: smoothed `+DM` = `5/3` on candle 2 (decay-weighted mean of 1, 2),
Wilder ATR = `7/2`, `DI+ = 1000/21`, `DX = 100`; `ADX` is `None` on candle 2 and `100` on candle 3 -/
example : adxSPlusE 2 atrDemoRaw 2 = 5 / 3 ∧ adxPlusLine 2 atrDemoRaw 1 = none ∧
    adxLine 2 2 atrDemoRaw 2 = none := by
  obtain ⟨x1, x2, _⟩ := adxDemo_dm
  refine ⟨?_, by simp [adxPlusLine], by simp [adxLine]⟩
  unfold adxSPlusE rmaColExact
  rw [recExact_seed _ _ _ _ _ (by norm_num)]
  simp only [decayMean, rsum, List.range_succ, List.range_zero]
  norm_num [x1, x2]

end Numeric
end Hex

#print axioms Hex.Numeric.adx_series
#print axioms Hex.Numeric.adx_engine
#print axioms Hex.Numeric.adx_batch
#print axioms Hex.Numeric.adx_batch_out
#print axioms Hex.Numeric.adx_live
#print axioms Hex.Numeric.adxOut_ok
#print axioms Hex.Numeric.adx_series_readings
#print axioms Hex.Numeric.adx_engine_readings
#print axioms Hex.Numeric.adx_batch_readings
#print axioms Hex.Numeric.adx_live_readings
#print axioms Hex.Numeric.adxOwn_ok
#print axioms Hex.Numeric.adxOwn_ranges

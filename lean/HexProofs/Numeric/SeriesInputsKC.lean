import HexProofs.Numeric.SeriesInputsBB
import HexProofs.Numeric.SeriesInputsAvg
import HexProofs.Numeric.SeriesKC
/-!
# Keltner Channel over candle lists with foreign readings and a late-starting input

KC is a node with two prior helpers – an ATR node `name_ATR` (itself with a prior TR helper
`name_ATR_TR`) and an EMA leaf `name_EMA` over `input` – and a read-only own dict.  `engineCalc_kc`
(HexProofs/Framework/Gen/KC.lean) splits `calculate()`, for EVERY candle list, into four column passes,
each a `leafCalc`; each pass is one series induction (`leafCalc_induct`) over the OUTPUT of the previous
pass, which is just another candle list holding foreign readings:

1. TR (`name_ATR_TR`): reads the candle fields high / low / close – NOT shifted, foreign readings do not
   touch candle fields: `trStored cs j` exactly as on raw candles;
2. ATR (`name_ATR`): reads the TR column of pass 1, which is `None` on candle 0 and numeric afterwards (a
   late-starting column with start `1`, whatever `t0` is): `AtrOK … (trS cs)` exactly as on raw candles;
3. EMA (`name_EMA`): reads `input`, `None` on the first `t0` candles: `ema_shift_step`, the series of
   `emaExact` of the inputs counted from `t0`, shifted by `t0`;
4. the own dict reads the two helpers at the active index only: `kcBands` of the two STORED readings,
   hence the three-`None` dict while `j < p` (ATR) or `j + 1 < t0 + p` (EMA), i.e. before
   `max (t0 + p − 1) p`, and `{lower, band, upper} = round_n(E ∓ m·A), round_n(E)` afterwards.

`kcI_OK` is `KcOK` of SeriesKC.lean in this two-start form (`kcI_OK_zero`: for `t0 = 0` it IS `KcOK`),
`kcI_Series` the textbook channel in two-start form (`kcI_Series_zero`: for `t0 = 0` it is `kcSeries`).
-/
set_option linter.unusedSectionVars false
set_option linter.unusedSimpArgs false
namespace Hex
namespace Numeric
variable {K : Type} [Field K] [LinearOrder K] [IsStrictOrderedRing K] [LawfulPyF K]

/-! ### name conditions -/

/-- the input name of a KC node does not see any of the node's four names: it is none of them and no
dotted field of any of them (a candle attribute, an ordinary key, a dotted field of a foreign dict …) -/
structure kcI_Input (nm input : String) : Prop where
  n0 : nm ≠ input
  nA : nm ++ "_ATR" ≠ input
  nT : nm ++ "_ATR" ++ "_TR" ≠ input
  nE : nm ++ "_EMA" ≠ input
  s0 : ∀ fld, splitDot input ≠ [nm, fld]
  sA : ∀ fld, splitDot input ≠ [nm ++ "_ATR", fld]
  sT : ∀ fld, splitDot input ≠ [nm ++ "_ATR" ++ "_TR", fld]
  sE : ∀ fld, splitDot input ≠ [nm ++ "_EMA", fld]

/-- an ordinary key different from the four names is such an input (the shape of `BbInput`) -/
theorem kcI_Input.of_key (nm input : String) (hk : IsKey input) (h0 : input ≠ nm) (hA : input ≠ nm ++ "_ATR")
    (hT : input ≠ nm ++ "_ATR" ++ "_TR") (hE : input ≠ nm ++ "_EMA") : kcI_Input nm input :=
  ⟨Ne.symm h0, Ne.symm hA, Ne.symm hT, Ne.symm hE, noDot_not_self _ _ hk.noDot, noDot_not_self _ _ hk.noDot,
    noDot_not_self _ _ hk.noDot, noDot_not_self _ _ hk.noDot⟩

/-- the four names of a KC node are absent from a candle -/
def kcI_Absent (nm : String) (c : Candle K) : Prop :=
  (dlookup nm c.inds = none ∧ dlookup nm c.subs = none) ∧
  (dlookup (nm ++ "_ATR") c.inds = none ∧ dlookup (nm ++ "_ATR") c.subs = none) ∧
  (dlookup (nm ++ "_ATR" ++ "_TR") c.inds = none ∧ dlookup (nm ++ "_ATR" ++ "_TR") c.subs = none) ∧
  (dlookup (nm ++ "_EMA") c.inds = none ∧ dlookup (nm ++ "_EMA") c.subs = none)

/-! ### candle fields seen from a call over a list with foreign readings -/

/-- the view of a candle attribute from a helper's call on `midW`: start `0`, the column is the raw one -/
theorem kcI_attr_view (isSub : Bool) (nm a : String) (hk : IsKey nm) (hd : NoDot a) (ha : a ∈ Candle.attrNames)
    (fld : Candle K → Num K) (hattr : ∀ c : Candle K, c.attr a = some (.num (fld c)))
    (cs : List (Candle K)) (habs : ∀ c ∈ cs, dlookup nm c.inds = none ∧ dlookup nm c.subs = none)
    (vs : List (Val K)) (m : Nat) (hm : m < cs.length) (hvs : vs.length = m) :
    SView ({ cs := midW (keyOut isSub nm) cs vs m, i := m, name := nm } : Ctx K) nm a m 0 vs
      (fun j => fld (cs.getD j default)) :=
  midW_sview isSub nm a hk cs habs vs m 0 hm hvs _
    (fun c v => indep_attr (F := K) nm a hd ha isSub v c)
    (fun j _ h => absurd h (Nat.not_lt_zero j))
    (fun _ _ _ => readingByCandle_attr a hd _ _ (hattr _))

/-- **one TR call** on any context that sees the raw candle fields of `cs` up to the active index `m` -/
theorem kcI_tr_call (x : Ctx K) (cs : List (Candle K)) (m : Nat)
    (hh : x.reading "high" = .ok (.num (cs.getD m default).h))
    (hl : x.reading "low" = .ok (.num (cs.getD m default).l))
    (hper : x.readingPeriod ((2 : Nat) : Int) "close" = decide (2 ≤ m + 1))
    (hpc : m ≠ 0 → x.prevReading "close" = .ok (.num (cs.getD (m - 1) default).c)) :
    Calc.tr x = .ok (if m = 0 then .none else .num (trNum cs m)) := by
  by_cases h0 : m = 0
  · have hrp : x.readingPeriod 2 "close" = false := by
      have : x.readingPeriod ((2 : Nat) : Int) "close" = false := by rw [hper]; simp; omega
      exact this
    rw [tr_none _ _ _ hh hl hrp]; simp [h0]
  · have hrp : x.readingPeriod 2 "close" = true := by
      have : x.readingPeriod ((2 : Nat) : Int) "close" = true := by rw [hper]; simp; omega
      exact this
    simp only [h0, if_false]
    simp [Calc.tr, hh, hl, hrp, Ctx.prevNum_of (hpc h0), trNum]

/-- the stored TR reading -/
theorem kcI_tr_round (cs : List (Candle K)) (m : Nat) :
    (if m = 0 then (.none : Val K) else .num (trNum cs m)).roundBy defaultRound = trStored cs m := by
  unfold trStored
  by_cases h0 : m = 0 <;> simp [h0] <;> rfl

/-! ### one ATR call over a TR column that starts at candle 1 -/

/-- the stored true ranges as a late-starting column: `None` on candle 0, `kcI_trCol cs k` on candle `1 + k` -/
def kcI_trCol (cs : List (Candle K)) (k : Nat) : Num K := (trNum cs (1 + k)).roundBy defaultRound

/-- **one ATR call inside the series**, on any context whose own column is `vs` and whose TR column is
`trStored cs` (`None` on candle 0: a late-starting input with start `1`): the step of `atr_stepCtx`,
freed from the raw-candle context -/
theorem kcI_atr_step (p : Nat) (hp : 1 ≤ p) (n : Nat) (cs : List (Candle K)) (x : Ctx K) (nm tn : String)
    (m : Nat) (vs : List (Val K)) (V : SView x nm tn m 1 vs (kcI_trCol cs))
    (hQ : ∀ j, j < m → AtrOK p n (trS cs) j (vs.getD j .none)) :
    ∃ w, Calc.atr x (p : Int) tn = .ok w ∧ AtrOK p n (trS cs) m (w.roundBy n) := by
  have hpK : (0 : K) < p := by exact_mod_cast (by omega : 0 < p)
  have hpI : ((p : Int) : K) ≠ 0 := by simpa using hpK.ne'
  have ha0 : (0 : K) < 1 / (p : K) := by positivity
  have ha1 : 1 / (p : K) ≤ 1 := by
    rw [div_le_one hpK]; exact_mod_cast hp
  have hprev := V.prev
  have hper := V.period p hp
  by_cases h1 : m < p
  · -- warm-up
    have hpn : x.prevReading x.name = .ok .none := by
      rw [hprev]
      by_cases h0 : m = 0
      · simp [h0]
      · simp only [h0, if_false]
        rw [(hQ (m - 1) (by omega)).1.1 (by omega)]
    have hrp : x.readingPeriod (p : Int) tn = false := by
      rw [hper]; simp; omega
    exact ⟨.none, atr_none _ _ _ hpn hrp, ⟨fun _ => rfl, fun h => by omega⟩, fun y hy => by cases hy⟩
  · by_cases h2 : m = p
    · -- seed: mean of the stored TR₁ … TR_p
      have h0 : m ≠ 0 := by omega
      have hpn : x.prevReading x.name = .ok .none := by
        rw [hprev]
        simp only [h0, if_false]
        rw [(hQ (m - 1) (by omega)).1.1 (by omega)]
      have hrp : x.readingPeriod (p : Int) tn = true := by
        rw [hper]; simp; omega
      have hwin := atr_seed_window x p tn (kcI_trCol cs) hpn hrp hp
        (by rw [V.i_eq]; omega) (by rw [V.i_eq]; omega)
        (by
          intro j hj
          have e : x.i + 1 - (p : Int) + (j : Int) = ((1 + j : Nat) : Int) := by rw [V.i_eq]; omega
          rw [e]
          have := V.inp_num (1 + j) (by omega) (by omega)
          rwa [show 1 + j - 1 = j by omega] at this)
      refine ⟨_, hwin, ⟨fun h => by omega, fun _ => ⟨_, rfl, ?_⟩⟩, ?_⟩
      · rw [h2, atrExact_seed]
        exact le_trans (LawfulPyF.round_err n _) (eps_le_div n _ ha0 ha1)
      · intro y hy
        cases hy
        exact round_nonneg n _ (div_nonneg (rsum_nonneg p _ (fun k _ => trS_nonneg cs (1 + k))) hpK.le)
    · -- Wilder's recurrence on the stored predecessor
      have h3 : p < m := by omega
      have h0 : m ≠ 0 := by omega
      obtain ⟨⟨_, hR⟩, hN⟩ := hQ (m - 1) (by omega)
      obtain ⟨yp, hyp, hbound⟩ := hR (by omega)
      have hyp0 := hN yp hyp
      have hpn : x.prevReading x.name = .ok (.flt yp) := by
        rw [hprev]
        simp only [h0, if_false, hyp]
      have htr : x.reading tn = .ok (.num ((trNum cs m).roundBy defaultRound)) := by
        have := V.cur (by omega : 1 ≤ m)
        rw [this]
        unfold kcI_trCol
        rw [show 1 + (m - 1) = m by omega]
      have hrec := atr_rec x p tn (.flt yp) _ hpn htr hpI
      refine ⟨_, hrec, ⟨fun h => by omega, fun _ => ⟨_, rfl, ?_⟩⟩, ?_⟩
      · unfold atrExact at hbound ⊢
        rw [recExact_step _ _ _ _ _ (by omega) (by omega)]
        have hb := ema_error_budget n (1 / (p : K)) (trS cs m) yp _ ha0 ha1 hbound
        simp only [Num.toF_flt, Int.cast_natCast]
        rw [atr_is_wilder _ _ _ hpK.ne']
        exact hb
      · intro y hy
        cases hy
        apply round_nonneg
        simp only [Num.toF_flt, Int.cast_natCast]
        have h1p : (0 : K) ≤ (p : K) - 1 := by
          rw [sub_nonneg]; exact_mod_cast hp
        exact div_nonneg (add_nonneg (mul_nonneg hyp0 h1p) (trS_nonneg cs m)) hpK.le

/-! ### the four column passes -/

/-- **pass 1, the TR helper**, over any candle list: the stored true ranges of the candle fields -/
theorem kcI_pass_tr (tn : String) (hk : IsKey tn) (cs : List (Candle K))
    (habs : ∀ c ∈ cs, dlookup tn c.inds = none ∧ dlookup tn c.subs = none) :
    ∃ vs : List (Val K), vs.length = cs.length ∧
      leafCalc (leaf (.tr : Kind K) tn) cs = .ok (decoWith (keyOut true tn) cs vs) ∧
      ∀ j, j < cs.length → vs.getD j .none = trStored cs j := by
  refine leafCalc_induct (leaf (.tr : Kind K) tn) cs habs (fun j v => v = trStored cs j) ?_
  intro m hm vs hvs _
  show ∃ v, Calc.tr ({ cs := midW (keyOut true tn) cs vs m, i := m, name := tn } : Ctx K) = .ok v ∧
    v.roundBy defaultRound = trStored cs m
  have VH := kcI_attr_view true tn "high" hk noDot_high (by decide) (·.h) (fun _ => rfl) cs habs vs m hm hvs
  have VL := kcI_attr_view true tn "low" hk noDot_low (by decide) (·.l) (fun _ => rfl) cs habs vs m hm hvs
  have VC := kcI_attr_view true tn "close" hk noDot_close (by decide) (·.c) (fun _ => rfl) cs habs vs m hm hvs
  have hh := VH.cur (Nat.zero_le m)
  have hl := VL.cur (Nat.zero_le m)
  have hper := VC.period 2 (by omega)
  have hpc : m ≠ 0 → ({ cs := midW (keyOut true tn) cs vs m, i := m, name := tn } : Ctx K).prevReading "close"
      = .ok (.num (cs.getD (m - 1) default).c) := by
    intro h0
    rw [midW_prevReading (keyOut true tn) .none cs vs m hm hvs tn "close", if_neg h0,
      indep_attr (F := K) tn "close" noDot_close (by decide)]
    exact congrArg Except.ok (readingByCandle_attr "close" noDot_close _ _ rfl)
  refine ⟨_, kcI_tr_call _ cs m (by simpa using hh) (by simpa using hl) (by rw [hper]) hpc, kcI_tr_round cs m⟩

/-- **pass 2, the ATR helper**, over any candle list `c₁` whose TR column is the stored true ranges of `cs` -/
theorem kcI_pass_atr (p : Nat) (hp : 1 ≤ p) (an : String) (hkA : IsKey an) (hkT : IsKey (an ++ "_TR"))
    (hne : an ≠ an ++ "_TR") (cs c₁ : List (Candle K)) (hlen : c₁.length = cs.length)
    (habs : ∀ c ∈ c₁, dlookup an c.inds = none ∧ dlookup an c.subs = none)
    (htr : ∀ j, j < cs.length → readingByCandle (c₁.getD j default) (an ++ "_TR") = trStored cs j) :
    ∃ vs : List (Val K), vs.length = c₁.length ∧
      leafCalc (atrNode (F := K) (p : Int) an) c₁ = .ok (decoWith (keyOut true an) c₁ vs) ∧
      ∀ j, j < c₁.length → AtrOK p defaultRound (trS cs) j (vs.getD j .none) := by
  refine leafCalc_induct (atrNode (F := K) (p : Int) an) c₁ habs (fun j v => AtrOK p defaultRound (trS cs) j v) ?_
  intro m hm vs hvs hQ
  show ∃ w, Calc.atr ({ cs := midW (keyOut true an) c₁ vs m, i := m, name := an } : Ctx K) (p : Int) (an ++ "_TR")
    = .ok w ∧ AtrOK p defaultRound (trS cs) m (w.roundBy defaultRound)
  have V := midW_sview true an (an ++ "_TR") hkA c₁ habs vs m 1 hm hvs (kcI_trCol cs)
    (fun c v => indep_key (F := K) an (an ++ "_TR") hkT hne true v c)
    (fun j hj hj1 => by
      rw [htr j (by omega)]
      unfold trStored
      rw [if_pos (by omega)])
    (fun j hj hj1 => by
      rw [htr j (by omega)]
      unfold trStored kcI_trCol
      rw [if_neg (by omega), show 1 + (j - 1) = j by omega])
  exact kcI_atr_step p hp defaultRound cs _ an (an ++ "_TR") m vs V hQ

theorem kcI_emaP_eq (p n : Nat) (xs : Nat → K) :
    EmaP p n (fl 2 : Num K) xs = RecOK p n (kcAlpha K p) (emaExact p xs) := by
  funext j v
  have h2 : (fl 2 : Num K).toF = 2 := by simp
  unfold EmaP emaExact kcAlpha
  rw [h2]

/-- **pass 3, the EMA helper**, over any candle list `c₂` whose `input` column is `None` on the first `t0`
candles and the numbers `r` afterwards: the EMA series of the inputs counted from `t0`, shifted by `t0` -/
theorem kcI_pass_ema (p : Nat) (hp : 2 ≤ p) (en input : String) (hkE : IsKey en) (hne : en ≠ input)
    (hs : ∀ fld, splitDot input ≠ [en, fld]) (t0 : Nat) (c₂ : List (Candle K)) (r : Nat → Num K)
    (habs : ∀ c ∈ c₂, dlookup en c.inds = none ∧ dlookup en c.subs = none)
    (hnone : ∀ j, j < c₂.length → j < t0 → readingByCandle (c₂.getD j default) input = .none)
    (hnum : ∀ j, j < c₂.length → t0 ≤ j → readingByCandle (c₂.getD j default) input = .num (r (j - t0))) :
    ∃ vs : List (Val K), vs.length = c₂.length ∧
      leafCalc (leaf (.ema (p : Int) input (fl 2) : Kind K) en) c₂ = .ok (decoWith (keyOut true en) c₂ vs) ∧
      ∀ j, j < c₂.length →
        ShiftedOK (RecOK p defaultRound (kcAlpha K p) (emaExact p (fun k => (r k).toF))) t0 j (vs.getD j .none) := by
  rw [← kcI_emaP_eq]
  refine leafCalc_induct (leaf (.ema (p : Int) input (fl 2) : Kind K) en) c₂ habs
    (fun j v => ShiftedOK (EmaP p defaultRound (fl 2) (fun k => (r k).toF)) t0 j v) ?_
  intro m hm vs hvs hQ
  have V := midW_sview true en input hkE c₂ habs vs m t0 hm hvs r
    (fun c v => readingByCandle_setKey_otherB true en input hne hs v c) hnone hnum
  have ha0 := kcAlpha_pos (K := K) p
  have ha1 := kcAlpha_le_one (K := K) p (by omega)
  have h2 : (fl 2 : Num K).toF / ((p : K) + 1) = kcAlpha K p := by unfold kcAlpha; simp
  exact ema_shift_step p hp (fl 2) defaultRound (by rw [h2]; exact ha0) (by rw [h2]; exact ha1) _ en input m t0 vs r V hQ

/-- **pass 4, the own dict**, over any candle list `c₃` whose two helper columns are `ev` (EMA) and `av` (ATR),
each reading `None` or a float: `kcBands` of the two stored readings on every candle -/
theorem kcI_pass_own (nm : String) (n : Nat) (p : Int) (input : String) (mult : Num K)
    (c₃ : List (Candle K)) (habs : ∀ c ∈ c₃, dlookup nm c.inds = none ∧ dlookup nm c.subs = none)
    (ev av : Nat → Val K)
    (hE : ∀ j, j < c₃.length → readingByCandle (c₃.getD j default) (nm ++ "_EMA") = ev j)
    (hA : ∀ j, j < c₃.length → readingByCandle (c₃.getD j default) (nm ++ "_ATR") = av j)
    (hEv : ∀ j, j < c₃.length → ev j = .none ∨ ∃ e : K, ev j = .flt e)
    (hAv : ∀ j, j < c₃.length → av j = .none ∨ ∃ a : K, av j = .flt a) :
    ∃ vs : List (Val K), vs.length = c₃.length ∧
      leafCalc (kcP (F := K) nm n p input mult) c₃ = .ok (decoWith (keyOut false nm) c₃ vs) ∧
      ∀ j, j < c₃.length → vs.getD j .none = kcBands mult n (ev j) (av j) := by
  have hname : (kcP (F := K) nm n p input mult).name = nm := kcP_name _ _ _ _ _
  have hsub : (kcP (F := K) nm n p input mult).isSub = false := rfl
  have hround : (kcP (F := K) nm n p input mult).round = n := rfl
  have hkind : (kcP (F := K) nm n p input mult).kind = .kc p input mult := mkTop_kind _ _ _
  have := leafCalc_induct (kcP (F := K) nm n p input mult) c₃ (by rw [hname]; exact habs)
    (fun j v => v = kcBands mult n (ev j) (av j)) (by
      intro m hm vs hvs _
      rw [hname, hsub, hround, hkind]
      show ∃ v, Calc.kc ({ cs := midW (keyOut false nm) c₃ vs m, i := m, name := nm } : Ctx K) mult = .ok v ∧ _
      have hrE : ({ cs := midW (keyOut false nm) c₃ vs m, i := m, name := nm } : Ctx K).reading (nm ++ "_EMA")
          = .ok (ev m) := by
        rw [midW_reading_cur (keyOut false nm) c₃ vs m hm hvs nm, hE m hm]
      have hrA : ({ cs := midW (keyOut false nm) c₃ vs m, i := m, name := nm } : Ctx K).reading (nm ++ "_ATR")
          = .ok (av m) := by
        rw [midW_reading_cur (keyOut false nm) c₃ vs m hm hvs nm, hA m hm]
      rcases hEv m hm with he | ⟨e, he⟩
      · refine ⟨_, kc_none _ mult _ _ hrE hrA (Or.inl (by rw [he]; rfl)), ?_⟩
        rw [he, kcBands_none_left]; rfl
      · rcases hAv m hm with ha | ⟨a, ha⟩
        · refine ⟨_, kc_none _ mult _ _ hrE hrA (Or.inr (by rw [ha]; rfl)), ?_⟩
          rw [ha, kcBands_none_right]; rfl
        · rw [he] at hrE
          rw [ha] at hrA
          refine ⟨_, kc_def _ mult (.flt e) (.flt a) hrE hrA, ?_⟩
          rw [he, ha]
          exact kcBands_flt mult n e a)
  rw [hname, hsub] at this
  exact this

/-! ### the engine: the four passes in a row -/

/-- **KC through the engine, column by column**: every candle list (the node's four names absent), an input
name that does not see them, `None` on the first `t0` candles and the numbers `r` afterwards.  The result is
the input list with four readings stored per candle (nothing else changes):
`vs1` = the stored true ranges of the candle fields, `vs2` = the ATR of those (both as on raw candles, NOT
shifted), `vs3` = the EMA of the inputs counted from `t0`, shifted by `t0`, `vs4` = `kcBands` of `vs3`, `vs2`. -/
theorem kcI_inputs_rows (p : Nat) (hp : 2 ≤ p) (nm input : String) (mult : Num K) (n t0 : Nat)
    (cs : List (Candle K)) (r : Nat → Num K) (hn : KcNames nm) (hi : kcI_Input nm input)
    (habs : ∀ c ∈ cs, kcI_Absent nm c)
    (hnone : ∀ j, j < cs.length → j < t0 → readingByCandle (cs.getD j default) input = .none)
    (hnum : ∀ j, j < cs.length → t0 ≤ j → readingByCandle (cs.getD j default) input = .num (r (j - t0))) :
    ∃ (vs1 vs2 vs3 vs4 : List (Val K)),
      vs1.length = cs.length ∧ vs2.length = cs.length ∧ vs3.length = cs.length ∧ vs4.length = cs.length ∧
      engineCalc (mkTop (.kc (p : Int) input mult : Kind K) nm n) cs
        = .ok (decoWith (keyOut false nm) (decoWith (keyOut true (nm ++ "_EMA"))
            (decoWith (keyOut true (nm ++ "_ATR")) (decoWith (keyOut true (nm ++ "_ATR" ++ "_TR")) cs vs1) vs2)
              vs3) vs4) ∧
      ∀ j, j < cs.length →
        vs1.getD j .none = trStored cs j ∧
        AtrOK p defaultRound (trS cs) j (vs2.getD j .none) ∧
        ShiftedOK (RecOK p defaultRound (kcAlpha K p) (emaExact p (fun k => (r k).toF))) t0 j (vs3.getD j .none) ∧
        vs4.getD j .none = kcBands mult n (vs3.getD j .none) (vs2.getD j .none) := by
  -- pass 1: TR
  obtain ⟨vs1, hl1, hrun1, hall1⟩ := kcI_pass_tr (nm ++ "_ATR" ++ "_TR") hn.kT cs (fun c hc => (habs c hc).2.2.1)
  generalize hc1 : decoWith (keyOut true (nm ++ "_ATR" ++ "_TR")) cs vs1 = c₁ at hrun1
  have hlen1 : c₁.length = cs.length := by rw [← hc1]; exact decoWith_length _ _ _ hl1
  have hget1 : ∀ j, j < cs.length →
      c₁.getD j default = setKey true (nm ++ "_ATR" ++ "_TR") (vs1.getD j .none) (cs.getD j default) := by
    intro j hj; rw [← hc1]; exact decoWith_getD _ _ cs vs1 hl1 j hj
  have habs1 : ∀ (k : String), nm ++ "_ATR" ++ "_TR" ≠ k →
      (∀ c ∈ cs, dlookup k c.inds = none ∧ dlookup k c.subs = none) →
      ∀ c ∈ c₁, dlookup k c.inds = none ∧ dlookup k c.subs = none := by
    intro k h1 hk'
    rw [← hc1]
    refine decoWith_mem _ cs vs1 hl1 _ (fun c hc v => ?_)
    rw [(setKey_frame true _ k h1 v c).1, (setKey_frame true _ k h1 v c).2]
    exact hk' c hc
  have htr1 : ∀ j, j < cs.length → readingByCandle (c₁.getD j default) (nm ++ "_ATR" ++ "_TR") = trStored cs j := by
    intro j hj
    rw [hget1 j hj, readingByCandle_setKey_noKey true _ hn.kT _ _
      (hasKey_absent _ _ (habs _ (getD_mem' cs j hj)).2.2.1), hall1 j hj]
  -- pass 2: ATR
  have habsA1 := habs1 (nm ++ "_ATR") hn.AT.symm (fun c hc => (habs c hc).2.1)
  obtain ⟨vs2, hl2, hrun2, hall2⟩ := kcI_pass_atr p (by omega) (nm ++ "_ATR") hn.kA hn.kT hn.AT cs c₁ hlen1 habsA1 htr1
  generalize hc2 : decoWith (keyOut true (nm ++ "_ATR")) c₁ vs2 = c₂ at hrun2
  have hlen2 : c₂.length = cs.length := by rw [← hc2, decoWith_length _ _ _ hl2, hlen1]
  have hget2 : ∀ j, j < cs.length →
      c₂.getD j default = setKey true (nm ++ "_ATR") (vs2.getD j .none) (c₁.getD j default) := by
    intro j hj; rw [← hc2]; exact decoWith_getD _ _ c₁ vs2 hl2 j (by omega)
  have habs2 : ∀ (k : String), nm ++ "_ATR" ++ "_TR" ≠ k → nm ++ "_ATR" ≠ k →
      (∀ c ∈ cs, dlookup k c.inds = none ∧ dlookup k c.subs = none) →
      ∀ c ∈ c₂, dlookup k c.inds = none ∧ dlookup k c.subs = none := by
    intro k h1 h2 hk'
    rw [← hc2]
    refine decoWith_mem _ c₁ vs2 hl2 _ (fun c hc v => ?_)
    rw [(setKey_frame true _ k h2 v c).1, (setKey_frame true _ k h2 v c).2]
    exact habs1 k h1 hk' c hc
  have hin2 : ∀ j, j < cs.length →
      readingByCandle (c₂.getD j default) input = readingByCandle (cs.getD j default) input := by
    intro j hj
    rw [hget2 j hj, readingByCandle_setKey_otherB true _ input hi.nA hi.sA, hget1 j hj,
      readingByCandle_setKey_otherB true _ input hi.nT hi.sT]
  -- pass 3: EMA
  have habsE2 := habs2 (nm ++ "_EMA") hn.TE hn.AE (fun c hc => (habs c hc).2.2.2)
  obtain ⟨vs3, hl3, hrun3, hall3⟩ := kcI_pass_ema p hp (nm ++ "_EMA") input hn.kE hi.nE hi.sE t0 c₂ r habsE2
    (fun j hj hjt => by rw [hin2 j (by omega)]; exact hnone j (by omega) hjt)
    (fun j hj hjt => by rw [hin2 j (by omega)]; exact hnum j (by omega) hjt)
  generalize hc3 : decoWith (keyOut true (nm ++ "_EMA")) c₂ vs3 = c₃ at hrun3
  have hlen3 : c₃.length = cs.length := by rw [← hc3, decoWith_length _ _ _ hl3, hlen2]
  have hget3 : ∀ j, j < cs.length →
      c₃.getD j default = setKey true (nm ++ "_EMA") (vs3.getD j .none) (c₂.getD j default) := by
    intro j hj; rw [← hc3]; exact decoWith_getD _ _ c₂ vs3 hl3 j (by omega)
  have habs0 : ∀ c ∈ c₃, dlookup nm c.inds = none ∧ dlookup nm c.subs = none := by
    rw [← hc3]
    refine decoWith_mem _ c₂ vs3 hl3 _ (fun c hc v => ?_)
    rw [(setKey_frame true _ nm hn.nE.symm v c).1, (setKey_frame true _ nm hn.nE.symm v c).2]
    exact habs2 nm hn.nT.symm hn.nA.symm (fun c hc => (habs c hc).1) c hc
  -- pass 4: the own dict
  obtain ⟨vs4, hl4, hrun4, hall4⟩ := kcI_pass_own nm n (p : Int) input mult c₃ habs0
    (fun j => vs3.getD j .none) (fun j => vs2.getD j .none)
    (fun j hj => by
      rw [hlen3] at hj
      rw [hget3 j hj, readingByCandle_setKey_noKey true _ hn.kE _ _
        (hasKey_absent _ _ (habsE2 _ (getD_mem' c₂ j (by omega))))])
    (fun j hj => by
      rw [hlen3] at hj
      rw [hget3 j hj, indep_key (F := K) (nm ++ "_EMA") (nm ++ "_ATR") hn.kA hn.AE.symm, hget2 j hj,
        readingByCandle_setKey_noKey true _ hn.kA _ _
          (hasKey_absent _ _ (habsA1 _ (getD_mem' c₁ j (by omega))))])
    (fun j hj => by
      rw [hlen3] at hj
      have h := hall3 j (by omega)
      by_cases hw : j + 1 < t0 + p
      · left
        by_cases hlt : j < t0
        · exact h.1 hlt
        · exact (h.2 (by omega)).1 (by omega)
      · right
        obtain ⟨e, he, _⟩ := (h.2 (by omega)).2 (by omega)
        exact ⟨e, he⟩)
    (fun j hj => by
      rw [hlen3] at hj
      have h := hall2 j (by omega)
      by_cases hw : j < p
      · left; exact h.1.1 (by omega)
      · right
        obtain ⟨a, ha, _⟩ := h.1.2 (by omega)
        exact ⟨a, ha⟩)
  rw [hlen1] at hl2
  rw [hlen2] at hl3
  rw [hlen3] at hl4
  refine ⟨vs1, vs2, vs3, vs4, hl1, hl2, hl3, hl4, ?_, fun j hj =>
    ⟨hall1 j hj, hall2 j (by omega), hall3 j (by omega), hall4 j (by omega)⟩⟩
  have e := engineCalc_kc (F := K) nm n (p : Int) input mult cs
  show engineCalc (kcP (F := K) nm n (p : Int) input mult) cs = _
  rw [e]
  have hrun1' : leafCalc (kcT (F := K) nm) cs = .ok c₁ := hrun1
  have hrun2' : leafCalc (kcA (F := K) nm (p : Int)) c₁ = .ok c₂ := hrun2
  have hrun3' : leafCalc (kcE (F := K) nm (p : Int) input) c₂ = .ok c₃ := hrun3
  rw [hrun1']
  simp only [bind, Except.bind]
  rw [hrun2']
  simp only
  rw [hrun3']
  simp only
  rw [hrun4, hc1, hc2, hc3]

/-! ### the row predicate and the textbook channel in two-start form -/

/-- `KcOK` (SeriesKC.lean) in two-start form: what the run stores on candle `j` of a list `cs` whose `input`
column starts at `t0` with the values `x`.  The TR and ATR readings are those of the candle fields of `cs`,
from candle 0 on (NOT shifted); the EMA reading is `None` before `t0` and `RecOK … (emaExact p x)` at the index
counted from `t0`; the own dict is `kcBands` of the two stored helper readings. -/
def kcI_OK (p n t0 : Nat) (mult : Num K) (x : Nat → K) (cs : List (Candle K)) (j : Nat) (r : KcRow K) : Prop :=
  r.tr = trStored cs j ∧
  AtrOK p defaultRound (trS cs) j r.atr ∧
  ShiftedOK (RecOK p defaultRound (kcAlpha K p) (emaExact p x)) t0 j r.ema ∧
  r.own = kcBands mult n r.ema r.atr

/-- for `t0 = 0` the two-start row predicate is the raw one -/
theorem kcI_OK_zero (p n : Nat) (mult : Num K) (x : Nat → K) (cs : List (Candle K)) (j : Nat) (r : KcRow K) :
    kcI_OK p n 0 mult x cs j r ↔ KcOK p n mult x cs j r := by
  unfold kcI_OK KcOK ShiftedOK
  constructor
  · rintro ⟨h1, h2, h3, h4⟩
    exact ⟨h1, h2, by simpa using h3.2 (Nat.zero_le j), h4⟩
  · rintro ⟨h1, h2, h3, h4⟩
    exact ⟨h1, h2, ⟨fun h => absurd h (Nat.not_lt_zero j), fun _ => by simpa using h3⟩, h4⟩

/-- **the textbook Keltner channel in two-start form**: the EMA of the inputs `x` counted from `t0`, the
Wilder average of the true ranges `tr` counted from candle 0; first value at index `max (t0 + p − 1) p` (the
EMA alone starts at `t0 + p − 1`, the ATR alone at `p`) -/
def kcI_Series (p t0 : Nat) (mult : K) (x tr : Nat → K) (j : Nat) : Option (K × K × K) :=
  if j < max (t0 + p - 1) p then none
  else some (emaExact p x (j - t0) - mult * atrExact p tr j, emaExact p x (j - t0),
             emaExact p x (j - t0) + mult * atrExact p tr j)

/-- for `t0 = 0` it is `kcSeries` -/
theorem kcI_Series_zero (p : Nat) (mult : K) (x tr : Nat → K) : kcI_Series p 0 mult x tr = kcSeries p mult x tr := by
  funext j
  unfold kcI_Series kcSeries
  have : max (0 + p - 1) p = p := by omega
  rw [this]
  simp

/-- the own reading of a `kcI_OK` row against the two-start textbook channel over ANY true-range series `tr`
whose Wilder average the stored ATR reading approximates within `δa` (`KcOK.own` in two-start form) -/
theorem kcI_OK.own (p n t0 : Nat) (hp : 1 ≤ p) (mult : Num K) (x tr : Nat → K) (cs : List (Candle K)) (j : Nat)
    (r : KcRow K) (δa : K) (h : kcI_OK p n t0 mult x cs j r)
    (hδ : ∀ a : K, r.atr = .flt a → |a - atrExact p (trS cs) j| ≤ eps K defaultRound / (1 / (p : K)) →
      |a - atrExact p tr j| ≤ δa) :
    KcOwnOK n (eps K defaultRound / kcAlpha K p) δa mult.toF (kcI_Series p t0 mult.toF x tr j) r.own := by
  obtain ⟨_, ⟨hA, hA0⟩, hE, hown⟩ := h
  unfold kcI_Series
  by_cases hj : j < max (t0 + p - 1) p
  · rw [if_pos hj, hown]
    by_cases hjp : j < p
    · rw [hA.1 (by omega), kcBands_none_right]; rfl
    · have hen : r.ema = .none := by
        by_cases hlt : j < t0
        · exact hE.1 hlt
        · exact (hE.2 (by omega)).1 (by omega)
      rw [hen, kcBands_none_left]; rfl
  · rw [if_neg hj]
    obtain ⟨a, ha, hab⟩ := hA.2 (by omega)
    obtain ⟨e, he, heb⟩ := (hE.2 (by omega)).2 (by omega)
    have ha0 := hA0 a ha
    have hab' := hδ a ha hab
    rw [hown, ha, he]
    refine ⟨_, _, _, rfl, ?_, ?_, ?_, ?_⟩
    · have := round_combo_err n e a (emaExact p x (j - t0)) (atrExact p tr j) mult.toF _ δa (-1) (by simp) heb hab'
      simpa [sub_eq_add_neg] using this
    · calc |PyF.round n e - emaExact p x (j - t0)|
          = |(PyF.round n e - e) + (e - emaExact p x (j - t0))| := by ring_nf
        _ ≤ _ := abs_add_le _ _
        _ ≤ _ := add_le_add (LawfulPyF.round_err n e) heb
    · have := round_combo_err n e a (emaExact p x (j - t0)) (atrExact p tr j) mult.toF _ δa 1 (by simp) heb hab'
      simpa using this
    · intro hm
      have hma : 0 ≤ mult.toF * a := mul_nonneg hm ha0
      exact ⟨LawfulPyF.round_mono n (by linarith), LawfulPyF.round_mono n (by linarith)⟩

/-- … against the channel of the STORED true ranges (`δa = p·ε₄`) -/
theorem kcI_OK.own_stored (p n t0 : Nat) (hp : 1 ≤ p) (mult : Num K) (x : Nat → K) (cs : List (Candle K)) (j : Nat)
    (r : KcRow K) (h : kcI_OK p n t0 mult x cs j r) :
    KcOwnOK n (eps K defaultRound / kcAlpha K p) (eps K defaultRound / (1 / (p : K))) mult.toF
      (kcI_Series p t0 mult.toF x (trS cs) j) r.own :=
  kcI_OK.own p n t0 hp mult x (trS cs) cs j r _ h (fun _ _ hb => hb)

/-- … against the channel of the EXACT true ranges of the candle fields (`δa = p·ε₄ + ε₄`) -/
theorem kcI_OK.own_true (p n t0 : Nat) (hp : 1 ≤ p) (mult : Num K) (x : Nat → K) (cs : List (Candle K)) (j : Nat)
    (r : KcRow K) (h : kcI_OK p n t0 mult x cs j r) :
    KcOwnOK n (eps K defaultRound / kcAlpha K p) (eps K defaultRound / (1 / (p : K)) + eps K defaultRound)
      mult.toF (kcI_Series p t0 mult.toF x (trExact cs) j) r.own := by
  refine kcI_OK.own p n t0 hp mult x (trExact cs) cs j r _ h (fun a _ hb => ?_)
  have hd := atrExact_stored_vs_true p hp cs j
  calc |a - atrExact p (trExact cs) j|
      = |(a - atrExact p (trS cs) j) + (atrExact p (trS cs) j - atrExact p (trExact cs) j)| := by ring_nf
    _ ≤ _ := abs_add_le _ _
    _ ≤ _ := add_le_add hb hd

/-! ### reading a finished candle (the four names absent from the input candle) -/

theorem kcI_absent_set (isSub : Bool) (k nm' : String) (hne : nm' ≠ k) (v : Val K) (c : Candle K)
    (hc : dlookup k c.inds = none ∧ dlookup k c.subs = none) :
    dlookup k (setKey isSub nm' v c).inds = none ∧ dlookup k (setKey isSub nm' v c).subs = none := by
  rw [(setKey_frame isSub nm' k hne v c).1, (setKey_frame isSub nm' k hne v c).2]; exact hc

theorem kcI_out_tr (nm : String) (hn : KcNames nm) (c : Candle K) (hc : kcI_Absent nm c) (r : KcRow K) :
    readingByCandle (kcOut nm c r) (nm ++ "_ATR" ++ "_TR") = r.tr := by
  unfold kcOut
  rw [indep_key (F := K) nm _ hn.kT hn.nT, indep_key (F := K) (nm ++ "_EMA") _ hn.kT hn.TE.symm,
    indep_key (F := K) (nm ++ "_ATR") _ hn.kT hn.AT,
    readingByCandle_setKey_noKey true _ hn.kT _ _ (hasKey_absent _ _ hc.2.2.1)]

theorem kcI_out_atr (nm : String) (hn : KcNames nm) (c : Candle K) (hc : kcI_Absent nm c) (r : KcRow K) :
    readingByCandle (kcOut nm c r) (nm ++ "_ATR") = r.atr := by
  unfold kcOut
  rw [indep_key (F := K) nm _ hn.kA hn.nA, indep_key (F := K) (nm ++ "_EMA") _ hn.kA hn.AE.symm,
    readingByCandle_setKey_noKey true _ hn.kA _ _
      (hasKey_absent _ _ (kcI_absent_set true _ _ hn.AT.symm _ _ hc.2.1))]

theorem kcI_out_ema (nm : String) (hn : KcNames nm) (c : Candle K) (hc : kcI_Absent nm c) (r : KcRow K) :
    readingByCandle (kcOut nm c r) (nm ++ "_EMA") = r.ema := by
  unfold kcOut
  rw [indep_key (F := K) nm _ hn.kE hn.nE,
    readingByCandle_setKey_noKey true _ hn.kE _ _
      (hasKey_absent _ _ (kcI_absent_set true _ _ hn.AE _ _ (kcI_absent_set true _ _ hn.TE _ _ hc.2.2.2)))]

/-- a reading name that sees none of the four names reads the input candle -/
theorem kcI_out_other (nm key : String) (hi : kcI_Input nm key) (c : Candle K) (r : KcRow K) :
    readingByCandle (kcOut nm c r) key = readingByCandle c key := by
  unfold kcOut
  rw [readingByCandle_setKey_otherB false _ key hi.n0 hi.s0, readingByCandle_setKey_otherB true _ key hi.nE hi.sE,
    readingByCandle_setKey_otherB true _ key hi.nA hi.sA, readingByCandle_setKey_otherB true _ key hi.nT hi.sT]

/-! ### the whole series, rows -/

/-- four columns as one list of rows -/
theorem kcI_decoWith_rows (nm : String) (cs : List (Candle K)) (vs1 vs2 vs3 vs4 : List (Val K))
    (h1 : vs1.length = cs.length) (h2 : vs2.length = cs.length) (h3 : vs3.length = cs.length)
    (h4 : vs4.length = cs.length) :
    decoWith (keyOut false nm) (decoWith (keyOut true (nm ++ "_EMA"))
        (decoWith (keyOut true (nm ++ "_ATR")) (decoWith (keyOut true (nm ++ "_ATR" ++ "_TR")) cs vs1) vs2) vs3) vs4
      = decoKc nm cs ((List.range cs.length).map fun j =>
          (⟨vs1.getD j .none, vs2.getD j .none, vs3.getD j .none, vs4.getD j .none⟩ : KcRow K)) := by
  have l1 : (decoWith (keyOut true (nm ++ "_ATR" ++ "_TR")) cs vs1).length = cs.length := decoWith_length _ _ _ h1
  have l2 : (decoWith (keyOut true (nm ++ "_ATR")) (decoWith (keyOut true (nm ++ "_ATR" ++ "_TR")) cs vs1) vs2).length
      = cs.length := by rw [decoWith_length _ _ _ (by rw [l1, h2]), l1]
  have l3 : (decoWith (keyOut true (nm ++ "_EMA"))
      (decoWith (keyOut true (nm ++ "_ATR")) (decoWith (keyOut true (nm ++ "_ATR" ++ "_TR")) cs vs1) vs2) vs3).length
      = cs.length := by rw [decoWith_length _ _ _ (by rw [l2, h3]), l2]
  have l4 : (decoWith (keyOut false nm) (decoWith (keyOut true (nm ++ "_EMA"))
      (decoWith (keyOut true (nm ++ "_ATR")) (decoWith (keyOut true (nm ++ "_ATR" ++ "_TR")) cs vs1) vs2) vs3) vs4).length
      = cs.length := by rw [decoWith_length _ _ _ (by rw [l3, h4]), l3]
  have hr : ((List.range cs.length).map fun j =>
      (⟨vs1.getD j .none, vs2.getD j .none, vs3.getD j .none, vs4.getD j .none⟩ : KcRow K)).length = cs.length := by
    simp
  apply List.ext_getElem?
  intro j
  by_cases hj : j < cs.length
  · unfold decoKc
    rw [decoWith_getElem? _ _ _ KcRow.dflt j hr hj, decoWith_getElem? _ _ _ .none j (by rw [l3, h4]) (by rw [l3]; exact hj),
      decoWith_getD _ .none _ vs3 (by rw [l2, h3]) j (by rw [l2]; exact hj),
      decoWith_getD _ .none _ vs2 (by rw [l1, h2]) j (by rw [l1]; exact hj),
      decoWith_getD _ .none cs vs1 h1 j hj]
    have e : ((List.range cs.length).map fun j =>
        (⟨vs1.getD j .none, vs2.getD j .none, vs3.getD j .none, vs4.getD j .none⟩ : KcRow K)).getD j KcRow.dflt
        = ⟨vs1.getD j .none, vs2.getD j .none, vs3.getD j .none, vs4.getD j .none⟩ := by
      rw [List.getD_eq_getElem?_getD, List.getElem?_map, List.getElem?_range hj]; rfl
    rw [e]
    rfl
  · rw [List.getElem?_eq_none (by omega), List.getElem?_eq_none (by unfold decoKc; rw [decoWith_length _ _ _ hr]; omega)]

/-- **Keltner Channel over a late-starting input, whole series** (the shape of `kc_series`, through the
engine).  For EVERY candle list (the node's four names absent; it may hold anything else) and an input column
that is `None` on the first `t0` candles and the numbers `r` afterwards, `calculate()` returns the input candles
with the four readings `rows[j]` stored on candle `j` – nothing else changes – and every row is `kcI_OK`. -/
theorem kcI_inputs_series (p : Nat) (hp : 2 ≤ p) (nm input : String) (mult : Num K) (n t0 : Nat)
    (cs : List (Candle K)) (r : Nat → Num K) (hn : KcNames nm) (hi : kcI_Input nm input)
    (habs : ∀ c ∈ cs, kcI_Absent nm c)
    (hnone : ∀ j, j < cs.length → j < t0 → readingByCandle (cs.getD j default) input = .none)
    (hnum : ∀ j, j < cs.length → t0 ≤ j → readingByCandle (cs.getD j default) input = .num (r (j - t0))) :
    ∃ rows : List (KcRow K), rows.length = cs.length ∧
      engineCalc (mkTop (.kc (p : Int) input mult : Kind K) nm n) cs = .ok (decoKc nm cs rows) ∧
      ∀ j, j < cs.length → kcI_OK p n t0 mult (fun k => (r k).toF) cs j (rows.getD j KcRow.dflt) := by
  obtain ⟨vs1, vs2, vs3, vs4, h1, h2, h3, h4, hrun, hall⟩ :=
    kcI_inputs_rows p hp nm input mult n t0 cs r hn hi habs hnone hnum
  refine ⟨(List.range cs.length).map fun j =>
      (⟨vs1.getD j .none, vs2.getD j .none, vs3.getD j .none, vs4.getD j .none⟩ : KcRow K), by simp,
    by rw [hrun, kcI_decoWith_rows nm cs vs1 vs2 vs3 vs4 h1 h2 h3 h4], fun j hj => ?_⟩
  have e : ((List.range cs.length).map fun j =>
      (⟨vs1.getD j .none, vs2.getD j .none, vs3.getD j .none, vs4.getD j .none⟩ : KcRow K)).getD j KcRow.dflt
      = ⟨vs1.getD j .none, vs2.getD j .none, vs3.getD j .none, vs4.getD j .none⟩ := by
    rw [List.getD_eq_getElem?_getD, List.getElem?_map, List.getElem?_range hj]; rfl
  rw [e]
  exact hall j hj

/-! ### the finished candles, reading by reading -/

/-- **what the theorem says of candle `j` of the finished list `out`** of a KC node `nm` (period `p`, rounding
`n`, multiplier `mult`) over the candle list `cs` whose input column starts at `t0` with the values `x`:
* it is the input candle with four readings stored (`kcOut`): nothing else changed;
* `nm_ATR_TR` = the stored true range of the CANDLE FIELDS of `cs` (`None` on candle 0), NOT shifted;
* `nm_ATR`: `AtrOK` / `AtrOKTrue` w.r.t. the true ranges of `cs` from candle 0 on (first value at `p`), NOT shifted;
* `nm_EMA`: `None` before `t0`, then `RecOK … (emaExact p x)` at the index counted from `t0` (first value at
  `t0 + p − 1`, within `ε₄/α` of the textbook EMA of the inputs);
* `nm` = `kcBands` of those two STORED readings: the three-`None` dict before `max (t0 + p − 1) p`, afterwards
  `{lower, band, upper}` within the budgets of `KcOwnOK` of the two-start textbook channel `kcI_Series` (of the
  stored and of the exact true ranges), ordered for a non-negative multiplier. -/
def kcI_ReadingsOK (p n t0 : Nat) (mult : Num K) (nm : String) (x : Nat → K) (cs out : List (Candle K))
    (j : Nat) : Prop :=
  (∃ r : KcRow K, out.getD j default = kcOut nm (cs.getD j default) r) ∧
  readingByCandle (out.getD j default) (nm ++ "_ATR" ++ "_TR") = trStored cs j ∧
  AtrOK p defaultRound (trS cs) j (readingByCandle (out.getD j default) (nm ++ "_ATR")) ∧
  AtrOKTrue p defaultRound cs j (readingByCandle (out.getD j default) (nm ++ "_ATR")) ∧
  (j < t0 → readingByCandle (out.getD j default) (nm ++ "_EMA") = .none) ∧
  (t0 ≤ j → RecOK p defaultRound (kcAlpha K p) (emaExact p x) (j - t0)
    (readingByCandle (out.getD j default) (nm ++ "_EMA"))) ∧
  readingByCandle (out.getD j default) nm
    = kcBands mult n (readingByCandle (out.getD j default) (nm ++ "_EMA"))
        (readingByCandle (out.getD j default) (nm ++ "_ATR")) ∧
  (j < max (t0 + p - 1) p → readingByCandle (out.getD j default) nm = kcNoneDict) ∧
  KcOwnOK n (eps K defaultRound / kcAlpha K p) (eps K defaultRound / (1 / (p : K))) mult.toF
    (kcI_Series p t0 mult.toF x (trS cs) j) (readingByCandle (out.getD j default) nm) ∧
  KcOwnOK n (eps K defaultRound / kcAlpha K p) (eps K defaultRound / (1 / (p : K)) + eps K defaultRound)
    mult.toF (kcI_Series p t0 mult.toF x (trExact cs) j) (readingByCandle (out.getD j default) nm)

/-- KC over a late-starting foreign input: the shape of `C05_inputs_FULL` with the KC predicates in
two-start form and the `None` hypothesis -/
def C05KcStatement : Prop :=
  ∀ (K : Type) [Field K] [LinearOrder K] [IsStrictOrderedRing K] [LawfulPyF K]
    (p : Nat) (nm input : String) (mult : Num K) (n t0 : Nat) (cs : List (Candle K)) (x : Nat → K),
    2 ≤ p → IsKey nm → KcNames nm → kcI_Input nm input →
    (∀ c ∈ cs, kcI_Absent nm c) →
    (∀ j, j < cs.length →
      (match readingByCandle (cs.getD j default) input with
        | .s (.num r) => some r.toF
        | _ => none) = if j < t0 then none else some (x (j - t0))) →
    (∀ j, j < cs.length → j < t0 → readingByCandle (cs.getD j default) input = .none) →
    ∃ out : List (Candle K), engineCalc (mkTop (.kc (p : Int) input mult : Kind K) nm n) cs = .ok out ∧
      out.length = cs.length ∧
      ∀ j, j < cs.length → kcI_ReadingsOK p n t0 mult nm x cs out j

/-- **C05 for the Keltner channel, every candle list, an input that is another indicator's reading, every
start `t0`**: the engine never raises and changes nothing but the node's four entries; the ATR part is that of
the candle fields (as on raw candles), the EMA part the EMA series of the inputs shifted by `t0`; the bands
exist from `max (t0 + p − 1) p` on and are the dict of `None`s before. -/
theorem c05_kc_inputs : C05KcStatement := by
  intro K _ _ _ _ p nm input mult n t0 cs x hp hk hn hi habs hin hnone
  obtain ⟨r, hr, hnum⟩ := input_col cs input t0 x hin
  have hx : (fun k => (r k).toF) = x := funext hr
  obtain ⟨rows, hl, hrun, hall⟩ := kcI_inputs_series p hp nm input mult n t0 cs r hn hi habs hnone hnum
  refine ⟨_, hrun, decoWith_length _ _ _ hl, fun j hj => ?_⟩
  have hcj : (decoKc nm cs rows).getD j default = kcOut nm (cs.getD j default) (rows.getD j KcRow.dflt) := by
    rw [List.getD_eq_getElem?_getD, decoKc, decoWith_getElem? _ _ _ KcRow.dflt j hl hj]; rfl
  have hca := habs _ (getD_mem' cs j hj)
  have h := hall j hj
  rw [hx] at h
  unfold kcI_ReadingsOK
  rw [hcj, kcI_out_tr nm hn _ hca, kcI_out_atr nm hn _ hca, kcI_out_ema nm hn _ hca, kcOut_own nm hk]
  have hs := kcI_OK.own_stored p n t0 (by omega) mult x cs j _ h
  refine ⟨⟨_, rfl⟩, h.1, h.2.1, AtrOK.toTrue p (by omega) _ cs j _ h.2.1, h.2.2.1.1, h.2.2.1.2, h.2.2.2, ?_, hs,
    kcI_OK.own_true p n t0 (by omega) mult x cs j _ h⟩
  intro hlt
  unfold kcI_Series at hs
  rw [if_pos hlt] at hs
  exact hs

/-! #### non-vacuity: `KC_2` of the foreign reading `"EMA_2"` of `demoForeign` (`None, None, 12, 14, 15`; `t0 = 2`) -/

theorem kcI_demo_input : kcI_Input "KC_2" "EMA_2" :=
  kcI_Input.of_key "KC_2" "EMA_2" (by decide) (by decide) (by decide) (by decide) (by decide)

theorem kcI_demo_absent : ∀ c ∈ demoForeign, kcI_Absent "KC_2" c := by
  intro c hc
  exact ⟨demoForeign_abs "KC_2" (by decide) (by decide) (by decide) c hc,
    demoForeign_abs "KC_2_ATR" (by decide) (by decide) (by decide) c hc,
    demoForeign_abs "KC_2_ATR_TR" (by decide) (by decide) (by decide) c hc,
    demoForeign_abs "KC_2_EMA" (by decide) (by decide) (by decide) c hc⟩

example : ∃ out : List (Candle ℚ),
    engineCalc (mkTop (.kc ((2 : Nat) : Int) "EMA_2" (fl 2) : Kind ℚ) "KC_2" 4) demoForeign = .ok out ∧
    out.length = demoForeign.length ∧
    ∀ j, j < demoForeign.length → kcI_ReadingsOK 2 4 2 (fl 2) "KC_2" demoX demoForeign out j :=
  c05_kc_inputs ℚ 2 "KC_2" "EMA_2" (fl 2) 4 2 demoForeign demoX (by norm_num) (by decide) kcNames_demo
    kcI_demo_input kcI_demo_absent demoForeign_in demoForeign_none

example : ∃ rows : List (KcRow ℚ), rows.length = demoForeign.length ∧
    engineCalc (mkTop (.kc ((2 : Nat) : Int) "EMA_2" (fl 2) : Kind ℚ) "KC_2" 4) demoForeign
      = .ok (decoKc "KC_2" demoForeign rows) ∧
    ∀ j, j < demoForeign.length → kcI_OK 2 4 2 (fl 2) demoX demoForeign j (rows.getD j KcRow.dflt) := by
  obtain ⟨r, hr, hnum⟩ := input_col demoForeign "EMA_2" 2 demoX demoForeign_in
  have hx : (fun k => (r k).toF) = demoX := funext hr
  rw [← hx]
  exact kcI_inputs_series 2 (by norm_num) "KC_2" "EMA_2" (fl 2) 4 2 demoForeign r kcNames_demo kcI_demo_input
    kcI_demo_absent demoForeign_none hnum

/-- the two starts on the demo list (`p = 2`, `t0 = 2`): on candle 2 the ATR helper already has a reading
(it runs from candle 0 on the candle fields: first value at `p = 2`) while the EMA helper has none yet (the
input starts at 2: first value at `t0 + p − 1 = 3`), so the own reading is still the three-`None` dict; on
candle 3 it is an ordered triple whose middle band is within `ε₄ + ε₄/α` of the mean `13` of the first two
inputs `12, 14` -/
example : ∃ out : List (Candle ℚ),
    engineCalc (mkTop (.kc ((2 : Nat) : Int) "EMA_2" (fl 2) : Kind ℚ) "KC_2" 4) demoForeign = .ok out ∧
    readingByCandle (out.getD 2 default) "KC_2" = kcNoneDict ∧
    (∃ a : ℚ, readingByCandle (out.getD 2 default) ("KC_2" ++ "_ATR") = .flt a) ∧
    readingByCandle (out.getD 2 default) ("KC_2" ++ "_EMA") = .none ∧
    readingByCandle (out.getD 3 default) "EMA_2" = .flt 14 ∧
    ∃ l b u : ℚ, readingByCandle (out.getD 3 default) "KC_2"
        = .dict [("lower", .num (.flt l)), ("band", .num (.flt b)), ("upper", .num (.flt u))] ∧
      l ≤ b ∧ b ≤ u ∧ |b - 13| ≤ eps ℚ 4 + eps ℚ 4 / (2/3) := by
  obtain ⟨out, hrun, _, hall⟩ := c05_kc_inputs ℚ 2 "KC_2" "EMA_2" (fl 2) 4 2 demoForeign demoX (by norm_num)
    (by decide) kcNames_demo kcI_demo_input kcI_demo_absent demoForeign_in demoForeign_none
  refine ⟨out, hrun, ?_⟩
  obtain ⟨_, _, hA2, _, _, hE2, _, hN2, _, _⟩ := hall 2 (by decide)
  obtain ⟨⟨r3, hr3⟩, _, _, _, _, _, _, _, hO3, _⟩ := hall 3 (by decide)
  obtain ⟨a, ha, _⟩ := hA2.1.2 (by decide)
  have hO3' : KcOwnOK 4 (eps ℚ defaultRound / kcAlpha ℚ 2) (eps ℚ defaultRound / (1 / ((2 : Nat) : ℚ))) (fl 2 : Num ℚ).toF
      (some (emaExact 2 demoX 1 - (fl 2 : Num ℚ).toF * atrExact 2 (trS demoForeign) 3,
        emaExact 2 demoX 1,
        emaExact 2 demoX 1 + (fl 2 : Num ℚ).toF * atrExact 2 (trS demoForeign) 3))
      (readingByCandle (out.getD 3 default) "KC_2") := hO3
  obtain ⟨l, b, u, hd, _, hb, _, hord⟩ := hO3'
  have hm : (0 : ℚ) ≤ (fl 2 : Num ℚ).toF := by simp
  have hema : emaExact 2 demoX 1 = 13 := by
    simp [emaExact, recExact, winMean, rsum, demoX, List.range, List.range.loop]
    norm_num
  have hal : kcAlpha ℚ 2 = 2/3 := by unfold kcAlpha; norm_num
  rw [hema, hal] at hb
  refine ⟨hN2 (by decide), ⟨a, ha⟩, (hE2 (by decide)).1 (by decide), ?_, l, b, u, hd, (hord hm).1, (hord hm).2, hb⟩
  rw [hr3, kcI_out_other "KC_2" "EMA_2" kcI_demo_input]
  rfl

/-- the toy carrier: KC of a late-starting foreign reading returns; the ATR helper starts at `p = 2` whatever
the input does, the EMA helper at `t0 + p − 1 = 3`, the middle band at `max (t0 + p − 1) p = 3` (`decide`) -/
example : (engineCalc (mkTop (.kc 2 "EMA_2" (.int 2)) "KC_2" 4)
    ([{ o := .int 10, h := .int 12, l := .int 9, c := .int 11, v := .int 100 },
      { o := .int 11, h := .int 13, l := .int 10, c := .int 12, v := .int 200, inds := [("EMA_2", .none)] },
      { o := .int 12, h := .int 15, l := .int 11, c := .int 14, v := .int 300, inds := [("EMA_2", .int 12)] },
      { o := .int 14, h := .int 16, l := .int 13, c := .int 15, v := .int 0, inds := [("EMA_2", .int 14)] },
      { o := .int 15, h := .int 15, l := .int 15, c := .int 15, v := .int 0, inds := [("EMA_2", .int 15)] }]
      : List (Candle Int))).toOption.map
      (fun l => l.map fun c => ((readingByCandle c "KC_2_ATR").isNone, (readingByCandle c "KC_2_EMA").isNone,
        (readingByCandle c "KC_2.band").isNone))
      = some [(true, true, true), (true, true, true), (false, true, true), (false, false, false),
              (false, false, false)] := by
  decide +kernel

end Numeric
end Hex

#print axioms Hex.Numeric.kcI_atr_step
#print axioms Hex.Numeric.kcI_inputs_rows
#print axioms Hex.Numeric.kcI_inputs_series
#print axioms Hex.Numeric.kcI_OK.own
#print axioms Hex.Numeric.kcI_OK_zero
#print axioms Hex.Numeric.kcI_Series_zero
#print axioms Hex.Numeric.c05_kc_inputs

import HexProofs.Numeric.RoundedEngine
import HexProofs.Numeric.RangesMore
import HexProofs.Manager2.TwinTrees
import HexProofs.Framework.Gen.AllX
/-!
# Rounded readings, the OBV step, Aroon / Donchian identities: WHOLE RUNS (property C10)

`HexProps/C10.lean` proves "every numeric reading is rounded to the indicator's `round_value`" per call
(`stored_rounded`: `round_values` is idempotent) and "OBV moves by 0 or the candle's volume" per call (`obv_moves`).
This file proves the whole-run forms, on every manager with an incremental spec `M : MgrSpec K` (base timeframe,
collapsing timeframe, gap filling, and `MgrSpec.ha / tfHA / fillHA`), every initial list, every append schedule:

1. `every_stored_reading_rounded` – all 27 classes (`CoveredTreeX`): whenever a history returns, every reading stored
   under the indicator's own name is a fixed point of `round_values(·, round)` (`RoundedAt`: a float scalar, every float
   field of a dict, read through `.get(field)` or the dotted name, is a fixed point of `round(·, round)`).  NOT kind by
   kind: it is the engine invariant `engineRounded` of `RoundedEngine.lean` (a frame over the six mutually recursive
   engine functions + "what is written under `nm` is rounded", which tracks MACD's temporary unrounded insert under
   its own name until the `_set_reading` at the same index overwrites it), applied to the tree through
   `safe_of_nodup` (pairwise distinct names ⇒ `Safe`).  `every_helper_reading_rounded`: helper series (sub-indicators,
   indicator-type managed helpers) are rounded with THEIR OWN `round_value`, which is the default 4 – the user's value is
   not passed down (`mkTop_helper_round`).  `data_not_rounded`: the `Managed.set_reading` data (`<name>_data`) are NOT
   rounded – a witness over ℚ (RSI(3): `gain = 8/9`), replayed on the real library.
   (`RoundedAnyCfg.lean` then drops `MgrSpec`, `CoveredTreeX` and all parameter guards: every kind, every `MgrCfg`.)
2. `obv_live_moves` – OBV stores `o j = round(o (j−1) + δ j, n)`, `δ j ∈ {0, +volume j, −volume j}`: the step is added to the
   PREVIOUS STORED reading, so `|o j − o (j−1) − δ j| ≤ ε_n` with ONE rounding (not accumulating), `= 0` exactly on an
   unchanged close; `obv_live_moves_exact`: with volumes of at most `n` decimals (Python ints) every step is EXACTLY
   `0`, `+volume` or `−volume`.
3. `aroon_live_osc` (`|AROONOSC − (AROONU − AROOND)| ≤ 3ε_n` on the stored floats, which are the roundings of `U`, `D`,
   `U − D`; exact when `U`, `D` have at most `n` decimals) and `donchian_live_mid` (`|DCM − (DCL + DCU)/2| ≤ 2ε_n`; `ε_n`
   when the bounds have at most `n` decimals).
-/

namespace Hex
set_option linter.unusedSectionVars false
set_option linter.unusedVariables false

/-! ### fixed points of the rounding -/
section rounded
variable {F : Type} [PyF F]

/-- rounding to `n` decimals is idempotent on the carrier: a law of `LawfulPyF` (`round_idem`), trivially true of the
toy carrier `Int` (which does not round) -/
def RoundIdem (F : Type) [PyF F] : Prop := ∀ (n : Nat) (x : F), PyF.round n (PyF.round n x) = PyF.round n x

/-- **`y` has been rounded to `r` decimals**: it is a fixed point of `round(·, r)` -/
def Rounded (r : Nat) (y : F) : Prop := PyF.round r y = y

/-- **a stored reading has been through `round_values(·, r)`**: it is a fixed point of it – a float scalar is
`Rounded r`, every float field of a dict is `Rounded r`; ints, bools and `None` are untouched by `round_values` -/
def RoundedVal (r : Nat) (v : Val F) : Prop := v.roundBy r = v

theorem roundedVal_roundBy (hR : RoundIdem F) (r : Nat) (v : Val F) : RoundedVal r (v.roundBy r) := by
  have hs : ∀ x : Scalar F, (x.roundBy r).roundBy r = x.roundBy r := by
    intro x
    cases x with
    | none => rfl
    | bool b => rfl
    | num a => cases a with
      | int i => rfl
      | flt y => simp [Scalar.roundBy, Num.roundBy, hR r y]
  unfold RoundedVal
  cases v with
  | s x => simp [Val.roundBy, hs]
  | dict kvs =>
    simp only [Val.roundBy, List.map_map, Val.dict.injEq]
    apply List.map_congr_left
    intro p _
    simp [Function.comp_def, hs]

theorem RoundedVal.flt {r : Nat} {y : F} (h : RoundedVal r (.flt y)) : Rounded r y := by
  unfold RoundedVal at h
  unfold Rounded
  simpa [Val.roundBy, Scalar.roundBy, Num.roundBy] using h

theorem roundedVal_flt_iff (r : Nat) (y : F) : RoundedVal r (.flt y) ↔ Rounded r y := by
  unfold RoundedVal Rounded
  simp [Val.roundBy, Scalar.roundBy, Num.roundBy]

theorem roundedVal_int (r : Nat) (i : Int) : RoundedVal r (.int i : Val F) := rfl
theorem roundedVal_bool (r : Nat) (b : Bool) : RoundedVal r (.bool b : Val F) := rfl
theorem roundedVal_none (r : Nat) : RoundedVal r (.none : Val F) := rfl

theorem dlookup_map_snd {α β : Type} (g : α → β) (k : String) (l : List (String × α)) :
    dlookup k (l.map fun p => (p.1, g p.2)) = (dlookup k l).map g := by
  induction l with
  | nil => rfl
  | cons p rest ih =>
    obtain ⟨k', a⟩ := p
    by_cases h : k' = k <;> simp [dlookup, h, ih]

/-- every float FIELD of a rounded dict reading is rounded (and a rounded scalar read through `.get(field)`) -/
theorem RoundedVal.field {r : Nat} {v : Val F} (h : RoundedVal r v) (fld : String) (y : F)
    (hf : v.nested fld = .flt y) : Rounded r y := by
  cases v with
  | s x =>
    simp only [Val.nested] at hf
    rw [hf] at h
    exact h.flt
  | dict kvs =>
    unfold RoundedVal at h
    simp only [Val.roundBy, Val.dict.injEq] at h
    have hl : dlookup fld (kvs.map fun p => (p.1, p.2.roundBy r)) = dlookup fld kvs := by
      congr 1
    rw [dlookup_map_snd] at hl
    simp only [Val.nested] at hf
    cases hd : dlookup fld kvs with
    | none => rw [hd] at hf; cases hf
    | some x =>
      rw [hd] at hf hl
      simp only [Val.s.injEq] at hf
      subst hf
      simp only [Option.map_some, Option.some.injEq] at hl
      unfold Rounded
      simpa [Scalar.roundBy, Num.roundBy] using hl

end rounded

/-! ### from the names of a tree to `Safe` -/
section safe
variable {F : Type}

mutual
  theorem Ind.nodes_names : ∀ i : Ind F, i.nodes.map Ind.name = i.allNames
    | .mk k n r s p subs managed => by
      simp [Ind.nodes, Ind.allNames, Ind.name, Ind.nodesL_names subs, Ind.nodesM_names managed]
  theorem Ind.nodesL_names : ∀ l : List (Ind F), (Ind.nodesL l).map Ind.name = Ind.allNamesL l
    | [] => by simp
    | s :: r => by simp [Ind.nodes_names s, Ind.nodesL_names r]
  theorem Ind.nodesM_names : ∀ l : List (String × Ind F), (Ind.nodesM l).map Ind.name = Ind.allNamesM l
    | [] => by simp
    | (_, m) :: r => by simp [Ind.nodes_names m, Ind.nodesM_names r]
end

mutual
  theorem Ind.nodes_trans' : ∀ (i a x : Ind F), a ∈ i.nodes → x ∈ a.nodes → x ∈ i.nodes
    | .mk k n r s p subs managed, a, x, ha, hx => by
      simp only [Ind.nodes, List.mem_cons, List.mem_append] at ha ⊢
      rcases ha with rfl | ha | ha
      · simpa only [Ind.nodes, List.mem_cons, List.mem_append] using hx
      · exact Or.inr (Or.inl (Ind.nodesL_trans subs a x ha hx))
      · exact Or.inr (Or.inr (Ind.nodesM_trans managed a x ha hx))
  theorem Ind.nodesL_trans : ∀ (l : List (Ind F)) (a x : Ind F), a ∈ Ind.nodesL l → x ∈ a.nodes → x ∈ Ind.nodesL l
    | [], a, x, ha, hx => by simp at ha
    | s :: r, a, x, ha, hx => by
      simp only [Ind.nodesL_cons, List.mem_append] at ha ⊢
      rcases ha with ha | ha
      · exact Or.inl (Ind.nodes_trans' s a x ha hx)
      · exact Or.inr (Ind.nodesL_trans r a x ha hx)
  theorem Ind.nodesM_trans : ∀ (l : List (String × Ind F)) (a x : Ind F), a ∈ Ind.nodesM l → x ∈ a.nodes →
      x ∈ Ind.nodesM l
    | [], a, x, ha, hx => by simp at ha
    | (_, m) :: r, a, x, ha, hx => by
      simp only [Ind.nodesM_cons, List.mem_append] at ha ⊢
      rcases ha with ha | ha
      · exact Or.inl (Ind.nodes_trans' m a x ha hx)
      · exact Or.inr (Ind.nodesM_trans r a x ha hx)
end

/-- the nodes of a node of the tree are nodes of the tree -/
theorem Ind.nodes_trans {i a : Ind F} (ha : a ∈ i.nodes) : ∀ x, x ∈ a.nodes → x ∈ i.nodes :=
  fun x hx => Ind.nodes_trans' i a x ha hx

/-- in a tree with pairwise distinct names, a node is determined by its name -/
theorem Ind.node_of_name {i a b : Ind F} (hn : i.allNames.Nodup) (ha : a ∈ i.nodes) (hb : b ∈ i.nodes)
    (h : a.name = b.name) : a = b := by
  rw [← Ind.nodes_names] at hn
  exact List.inj_on_of_nodup_map hn ha hb h

/-- `Managed` nodes: their readings are handed to them by the parent (`Managed.set_reading`) and stored as they are -/
def isData : Kind F → Bool
  | .managed => true
  | _ => false

variable [PyF F]

/-- every `Managed.set_reading` target of the tree is a `Managed` node -/
def WellManaged (ind : Ind F) : Prop :=
  ∀ n ∈ ind.nodes, ∀ key ∈ setKeys n.kind, ∀ m, n.getManaged key = .ok m → isData m.kind = true

/-- MACD nodes are top-level (they write to `Candle.indicators`) -/
def MacdTop (ind : Ind F) : Prop := ∀ n ∈ ind.nodes, isMacd n.kind = true → n.isSub = false

/-- **distinct names ⇒ `Safe`**: in a tree with pairwise distinct names whose `set_reading` targets are `Managed`
nodes and whose MACD nodes are top-level, every node that is NOT a `Managed` node only ever has values rounded to ITS
OWN `round_value` stored under its name -/
theorem safe_of_nodup {ind : Ind F} (hn : ind.allNames.Nodup) (hw : WellManaged ind) (hm : MacdTop ind)
    (n : Ind F) (hmem : n ∈ ind.nodes) (hd : isData n.kind = false) : Safe n.name n.round ind := by
  intro n' hn'
  refine ⟨fun he => ?_, fun key hkey m hget he => ?_⟩
  · have := Ind.node_of_name hn hn' hmem he
    subst this
    exact ⟨rfl, hm n' hn'⟩
  · have hmm : m ∈ ind.nodes := Ind.nodes_trans hn' m (Ind.nodes_of_managed hget m m.self_mem_nodes)
    have := Ind.node_of_name hn hmm hmem he
    subst this
    rw [hw n' hn' key hkey m hget] at hd
    cases hd

end safe

/-! ### the shipped trees -/
section shipped
variable {F : Type} [PyF F]

macro "nodes_facts" : tactic => `(tactic|
  simp [mkTop, children, Ind.nodes, Ind.nodesL, Ind.nodesM, atrNode, stdevNode, leaf, setKeys, isMacd, isData,
    Ind.kind, Ind.isSub, Ind.round, Ind.name, Ind.getManaged, Ind.managed, dlookup, defaultRound])

/-- in every tree `_initialise` builds, `Managed.set_reading` is only called on `Managed` nodes -/
theorem mkTop_wellManaged (k : Kind F) (name : String) (round : Nat) : WellManaged (mkTop k name round) := by
  unfold WellManaged
  cases k <;> nodes_facts

/-- … and a MACD node only occurs at the top -/
theorem mkTop_macdTop (k : Kind F) (name : String) (round : Nat) : MacdTop (mkTop k name round) := by
  unfold MacdTop
  cases k <;> nodes_facts

/-- … and every helper node carries the default `round_value` 4 (only the top node carries the user's) -/
theorem mkTop_helper_round (k : Kind F) (name : String) (round : Nat) :
    ∀ n ∈ (mkTop k name round).nodes, n = mkTop k name round ∨ n.round = defaultRound := by
  cases k <;> nodes_facts

end shipped

/-! ### whole runs -/
section runs
variable {F : Type} [PyF F]

/-- **Every tree with a row-major spec, every manager with a spec, every append schedule**: whenever the history
returns, every value stored under a name `nm` for which the tree is `Safe nm r` – on `Candle.indicators` and on
`Candle.sub_indicators` – is a fixed point of `round_values(·, r)`. -/
theorem TreeSpec.stored_rounded {ind : Ind F} (T : TreeSpec ind) (hR : RoundIdem F) (M : MgrSpec F)
    (nm : String) (r : Nat) (hs : Safe nm r ind) :
    Always M ind (fun _ snap => AllStored nm (RoundedVal r) snap) := by
  intro init chunks hok snap hsnap
  have h := T.live_refines M init chunks hok snap hsnap
  have hp := M.spec_plain _ hok
  have he := (T.engine [] (M.spec _) [] snap rfl (by simp) hp).2 (by simpa using h)
  exact engineCalc_allStored (roundedVal_roundBy hR r) ind hs _ snap (allStored_plain _ _ _ hp) (by simpa using he)

/-- **what the accessor returns is rounded**: the reading `reading_by_candle(c, nm)` is a fixed point of
`round_values(·, r)`; spelled out: a float scalar is `Rounded r`, every float field of a dict is `Rounded r` – read
through `.get(field)` or through the dotted name `nm.field` -/
def RoundedAt (nm : String) (r : Nat) (c : Candle F) : Prop :=
  RoundedVal r (readingByCandle c nm) ∧
  (∀ y, readingByCandle c nm = .flt y → Rounded r y) ∧
  (∀ fld y, (readingByCandle c nm).nested fld = .flt y → Rounded r y) ∧
  (∀ fld y, '.' ∉ fld.toList → readingByCandle c (nm ++ "." ++ fld) = .flt y → Rounded r y)

theorem roundedAt_of_stored {nm : String} {r : Nat} {c : Candle F} (hk : IsKey nm)
    (h : PI nm (RoundedVal r) c ∧ PS nm (RoundedVal r) c) : RoundedAt nm r c := by
  have hl : RoundedVal r (lookupKey c nm) := by
    unfold lookupKey
    cases hi : dlookup nm c.inds with
    | some v => exact h.1 v hi
    | none =>
      cases hs : dlookup nm c.subs with
      | some v => exact h.2 v hs
      | none => exact roundedVal_none r
  have h1 : RoundedVal r (readingByCandle c nm) := by rw [readingByCandle_key nm hk]; exact hl
  refine ⟨h1, fun y hy => (hy ▸ h1).flt, fun fld y hy => h1.field fld y hy, fun fld y hf hy => ?_⟩
  have e : readingByCandle c (nm ++ "." ++ fld) = (lookupKey c nm).nested fld := by
    unfold readingByCandle lookupKey
    rw [TSI.splitDot_field nm fld hk.noDot hf]
    dsimp only
    cases dlookup nm c.inds with
    | some v => rfl
    | none => cases dlookup nm c.subs <;> rfl
  rw [e] at hy
  exact hl.field fld y hy

/-- **C10, last clause, for all 27 classes: every numeric reading is rounded to the indicator's `round_value`.**
For every covered kind (`CoveredTreeX`: every shipped indicator class), every manager with an incremental spec
(base timeframe, collapsing timeframe, gap filling, and their Heikin-Ashi variants `MgrSpec.ha / tfHA / fillHA`),
every initial list and every append schedule: whenever the history returns, on EVERY candle the reading stored under
the indicator's own name is a fixed point of `round_values(·, round)` – a float scalar, or every float field of a
dict, is a fixed point of `round(·, round)`. -/
theorem every_stored_reading_rounded (hR : RoundIdem F) (M : MgrSpec F) (k : Kind F) (name : String) (round : Nat)
    (hc : CoveredTreeX name k) (hk : IsKey name) :
    Always M (mkTop k name round) (fun _ snap => ∀ c ∈ snap, RoundedAt name round c) := by
  obtain ⟨T, _⟩ := hc.spec round
  have hs : Safe name round (mkTop k name round) :=
    safe_of_nodup (hc.twinOK round).nodup (mkTop_wellManaged k name round) (mkTop_macdTop k name round)
      (mkTop k name round) (Ind.self_mem_nodes _) (by cases hc <;> first | rfl | (rename_i h; cases h <;> first | rfl | (rename_i h; cases h <;> rfl)))
  intro init chunks hok snap hsnap
  exact fun c hc' => roundedAt_of_stored hk (T.stored_rounded hR M name round hs init chunks hok snap hsnap c hc')

/-- **Helper series are rounded with THEIR OWN `round_value`.**  For every node `n` of the tree that is not a `Managed`
data holder – the top node, its sub-indicators (`<name>_EMA_fast`, `<name>_ATR`, `<name>_ATR_TR`, …) and its
indicator-type managed helpers (`<name>_signal_line`, `<name>_d`, `<name>_dx`, `<name>_first`, `<name>_second`, …) –
every value stored under `n.name` on either dict of every candle of every returning history is a fixed point of
`round_values(·, n.round)`; and `n.round` is the default 4 for every node but the top one (`mkTop_helper_round`):
the user's `round_value` is NOT passed down. -/
theorem every_helper_reading_rounded (hR : RoundIdem F) (M : MgrSpec F) (k : Kind F) (name : String) (round : Nat)
    (hc : CoveredTreeX name k) (n : Ind F) (hn : n ∈ (mkTop k name round).nodes) (hd : isData n.kind = false) :
    (n = mkTop k name round ∨ n.round = 4) ∧
    Always M (mkTop k name round) (fun _ snap => AllStored n.name (RoundedVal n.round) snap ∧
      (IsKey n.name → ∀ c ∈ snap, RoundedAt n.name n.round c)) := by
  obtain ⟨T, _⟩ := hc.spec round
  have hs : Safe n.name n.round (mkTop k name round) :=
    safe_of_nodup (hc.twinOK round).nodup (mkTop_wellManaged k name round) (mkTop_macdTop k name round) n hn hd
  refine ⟨mkTop_helper_round k name round n hn, fun init chunks hok snap hsnap => ?_⟩
  have h := T.stored_rounded hR M n.name n.round hs init chunks hok snap hsnap
  exact ⟨h, fun hk c hc' => roundedAt_of_stored hk (h c hc')⟩

/-- e.g. MACD: the two EMA sub-indicators and the signal line are rounded to 4 decimals whatever the MACD's own
`round_value` is -/
theorem macd_helpers_rounded (hR : RoundIdem F) (M : MgrSpec F) (fast slow signal : Int) (input name : String)
    (round : Nat) (hc : CoveredTreeX (F := F) name (.macd fast slow signal input)) :
    Always M (mkTop (.macd fast slow signal input) name round) (fun _ snap =>
      AllStored (name ++ "_EMA_fast") (RoundedVal 4) snap ∧ AllStored (name ++ "_EMA_slow") (RoundedVal 4) snap ∧
      AllStored (name ++ "_signal_line") (RoundedVal 4) snap) := by
  intro init chunks hok snap hsnap
  have h := fun n hn hd => ((every_helper_reading_rounded hR M _ name round hc n hn hd).2 init chunks hok snap hsnap).1
  refine ⟨h (leaf (.ema fast input (fl 2)) (name ++ "_EMA_fast")) (by nodes_facts) rfl,
    h (leaf (.ema slow input (fl 2)) (name ++ "_EMA_slow")) (by nodes_facts) rfl,
    h (leaf (.ema signal (name ++ ".MACD") (fl 2)) (name ++ "_signal_line")) (by nodes_facts) rfl⟩

end runs

/-! ### `Managed.set_reading` data are NOT rounded (by design): a witness

RSI(3) over the closes 11 12 14 15 15: the `RSI_3_data` series keeps the Wilder averages unrounded – `gain = 8/9` on
the last candle (the real library stores `0.8888888888888888` there), which `round(·, 4)` moves. -/
section witness
open Hex.Numeric

def dataWitnessCheck : Bool :=
  match candlesOf (runIndicator (mkTop (.rsi 3 "close" : Kind ℚ) "RSI_3" 4) {} rsiDemoRaw []) with
  | .ok snap =>
    match readingByCandle (snap.getD 4 default) "RSI_3_data.gain" with
    | .s (.num (.flt y)) => decide (PyF.round 4 y ≠ y)
    | _ => false
  | .error _ => false

theorem data_not_rounded : ∃ (snap : List (Candle ℚ)) (y : ℚ),
    candlesOf (runIndicator (mkTop (.rsi 3 "close" : Kind ℚ) "RSI_3" 4) {} rsiDemoRaw []) = .ok snap ∧
    readingByCandle (snap.getD 4 default) "RSI_3_data.gain" = .flt y ∧ ¬ Rounded 4 y := by
  have h : dataWitnessCheck = true := by decide +kernel
  unfold dataWitnessCheck at h
  split at h
  · rename_i snap hs
    split at h
    · rename_i y hy
      exact ⟨snap, y, hs, hy, (of_decide_eq_true h : PyF.round 4 y ≠ y)⟩
    · cases h
  · cases h

end witness

/-! ### OBV, whole runs: every step is 0, `+volume` or `−volume` – added to the previous STORED reading -/
namespace Numeric
section obv
variable {K : Type} [Field K] [LinearOrder K] [IsStrictOrderedRing K] [LawfulPyF K]

/-- what OBV adds at candle `j ≥ 1`: nothing on an unchanged close, `+volume` on a higher, `−volume` on a lower one -/
def obvDelta (c v : Nat → K) (j : Nat) : K :=
  if c j = c (j - 1) then 0 else if c (j - 1) < c j then v j else -v j

theorem obvDelta_cases (c v : Nat → K) (j : Nat) :
    obvDelta c v j = 0 ∨ obvDelta c v j = v j ∨ obvDelta c v j = -v j := by
  unfold obvDelta; split_ifs <;> simp

/-- **the STORED on-balance volume**: the rounded first volume, then the rounding of "previous stored reading plus
the step" – one rounding per candle, applied to a sum whose first summand is already rounded -/
def obvStored (n : Nat) (c v : Nat → K) : Nat → K
  | 0 => PyF.round n (v 0)
  | j + 1 => PyF.round n (obvStored n c v j + obvDelta c v (j + 1))

/-- the row-major run of OBV stores exactly `obvStored` (as a Python number: ints stay ints) -/
theorem obv_stored_series (nm : String) (n : Nat) (hk : IsKey nm)
    (raw : List (Candle K)) (hraw : ∀ c ∈ raw, Plain c) :
    ∃ vs : List (Val K), vs.length = raw.length ∧
      rowMajor (mkTop .obv nm n) raw = .ok (deco nm raw vs) ∧
      ∀ j, j < raw.length → ∃ t : Num K, vs.getD j .none = .num t ∧
        t.toF = obvStored n (fieldAt (·.c) raw) (fieldAt (·.v) raw) j := by
  refine series_induct (mkTop .obv nm n) nm rfl rfl raw
    (fun j v => ∃ t : Num K, v = .num t ∧ t.toF = obvStored n (fieldAt (·.c) raw) (fieldAt (·.v) raw) j) ?_
  intro m hm vs hvs hQ
  change ∃ v, Calc.obv (stepCtx nm raw vs m) = .ok v ∧ _
  have hprev := stepCtx_prev nm raw vs m hm hvs hk hraw
  have hc := stepCtx_field_cur nm "close" (·.c) raw vs m hm hvs noDot_close (fun _ => rfl)
  have hv := stepCtx_field_cur nm "volume" (·.v) raw vs m hm hvs noDot_volume (fun _ => rfl)
  by_cases h0 : m = 0
  · subst h0
    have hpn : (stepCtx nm raw vs 0).prevReading (stepCtx nm raw vs 0).name = .ok .none := by
      show (stepCtx nm raw vs 0).prevReading nm = _
      rw [hprev]; simp
    refine ⟨_, (obv_seed _ hpn).trans hv, (raw.getD 0 default).v.roundBy n, rfl, ?_⟩
    rw [stored_toF]; rfl
  · obtain ⟨tp, htp, hval⟩ := hQ (m - 1) (by omega)
    have hpn : (stepCtx nm raw vs m).prevReading (stepCtx nm raw vs m).name = .ok (.num tp) := by
      show (stepCtx nm raw vs m).prevReading nm = _
      rw [hprev]; simp only [h0, if_false, htp]
    have hpc : (stepCtx nm raw vs m).prevReading "close" = .ok (.num (raw.getD (m - 1) default).c) := by
      unfold Ctx.prevReading
      have hlen := stepCtx_length nm raw vs m hm hvs
      have a : ((stepCtx nm raw vs m).cs.length == 0) = false := by rw [hlen]; simp
      have b : ((stepCtx nm raw vs m).i == 0) = false := by simp [stepCtx]; omega
      simp only [a, b, Bool.or_self, Bool.false_eq_true, if_false]
      have e : (stepCtx nm raw vs m).i - 1 = ((m - 1 : Nat) : Int) := by simp [stepCtx]; omega
      rw [e]
      exact stepCtx_field nm "close" (·.c) raw vs m hm hvs noDot_close (fun _ => rfl) _ (by omega)
    obtain ⟨t, ht, htv⟩ := obv_def _ _ _ tp _ hpn hc hpc hv
    refine ⟨_, ht, t.roundBy n, rfl, ?_⟩
    obtain ⟨i, rfl⟩ : ∃ i, m = i + 1 := ⟨m - 1, by omega⟩
    simp only [Nat.add_sub_cancel] at htv hval
    rw [stored_toF, htv, hval]
    show _ = PyF.round n _
    congr 1
    unfold obvDelta
    simp only [Nat.add_sub_cancel, fieldAt]
    split_ifs <;> ring

/-- what every OBV history stores on candle `j`: the number `obvStored … j` -/
def ObvIn (n : Nat) (nm : String) (spec : List (Candle K)) (j : Nat) (c : Candle K) : Prop :=
  ∃ t : Num K, readingByCandle c nm = .num t ∧ t.toF = obvStored n (fieldAt (·.c) spec) (fieldAt (·.v) spec) j

theorem obv_holds (M : MgrSpec K) (nm : String) (n : Nat) (hk : IsKey nm) :
    HoldsOn M (mkTop (.obv : Kind K) nm n) (fun spec j c => ObvIn n nm spec j c) :=
  leaf_holdsOn _ nm n Covered.obv _ (fun raw hraw => by
    obtain ⟨vs, hl, hrun, hall⟩ := obv_stored_series nm n hk raw hraw
    refine ⟨_, hrun, deco_length nm raw vs hl, fun j hj => ?_⟩
    unfold ObvIn
    rw [own_deco nm hk raw vs hl j hj]
    exact hall j hj) M

/-- the stored series moves by the rounding of "previous stored + step": within `ε_n` of the step, exactly `0` on an
unchanged close -/
theorem obvStored_step (n : Nat) (c v : Nat → K) (j : Nat) :
    |obvStored n c v (j + 1) - obvStored n c v j - obvDelta c v (j + 1)| ≤ eps K n ∧
    (obvDelta c v (j + 1) = 0 → obvStored n c v (j + 1) = obvStored n c v j) := by
  constructor
  · have := LawfulPyF.round_err (K := K) n (obvStored n c v j + obvDelta c v (j + 1))
    show |PyF.round n _ - _ - _| ≤ _
    rwa [sub_sub]
  · intro h0
    show PyF.round n _ = _
    rw [h0, add_zero]
    cases j with
    | zero => exact LawfulPyF.round_idem n _
    | succ i => exact LawfulPyF.round_idem n _

/-- a number with at most `n` decimals -/
def OnGrid (n : Nat) (x : K) : Prop := ∃ k : Int, x = (k : K) / 10 ^ n

theorem OnGrid.round {n : Nat} {x : K} (h : OnGrid n x) : PyF.round n x = x := by
  obtain ⟨k, rfl⟩ := h; exact LawfulPyF.round_grid n k

theorem OnGrid.add {n : Nat} {x y : K} (hx : OnGrid n x) (hy : OnGrid n y) : OnGrid n (x + y) := by
  obtain ⟨a, rfl⟩ := hx; obtain ⟨b, rfl⟩ := hy
  exact ⟨a + b, by push_cast; ring⟩

theorem OnGrid.neg {n : Nat} {x : K} (hx : OnGrid n x) : OnGrid n (-x) := by
  obtain ⟨a, rfl⟩ := hx
  exact ⟨-a, by push_cast; ring⟩

theorem OnGrid.zero (n : Nat) : OnGrid n (0 : K) := ⟨0, by simp⟩

/-- a Python int is on every grid -/
theorem OnGrid.int (n : Nat) (i : Int) : OnGrid n (i : K) :=
  ⟨i * 10 ^ n, by
    have hp : (10 : K) ^ n ≠ 0 := by positivity
    push_cast; field_simp⟩

theorem obvDelta_grid (n : Nat) (c v : Nat → K) (j : Nat) (hv : OnGrid n (v j)) : OnGrid n (obvDelta c v j) := by
  unfold obvDelta; split_ifs
  · exact OnGrid.zero n
  · exact hv
  · exact hv.neg

/-- **volumes with at most `n` decimals (e.g. Python ints): nothing is ever rounded away** – the stored series is
on the grid and every step is EXACTLY `0`, `+volume` or `−volume` -/
theorem obvStored_exact (n : Nat) (c v : Nat → K) (N : Nat) (hv : ∀ j, j < N → OnGrid n (v j)) :
    ∀ j, j < N → OnGrid n (obvStored n c v j) ∧
      (1 ≤ j → obvStored n c v j - obvStored n c v (j - 1) = obvDelta c v j) := by
  intro j
  induction j with
  | zero =>
    intro h
    refine ⟨?_, fun h1 => absurd h1 (by omega)⟩
    show OnGrid n (PyF.round n (v 0))
    rw [(hv 0 h).round]; exact hv 0 h
  | succ i ih =>
    intro h
    have hg := ((ih (by omega)).1).add (obvDelta_grid n c v (i + 1) (hv (i + 1) h))
    have e : obvStored n c v (i + 1) = obvStored n c v i + obvDelta c v (i + 1) := hg.round
    exact ⟨e ▸ hg, fun _ => by rw [e]; simp⟩

/-- **OBV moves by 0 or the candle's volume, whole runs.**  Every manager with an incremental spec (also
`MgrSpec.ha / tfHA / fillHA`), every initial list, every append schedule: the history RETURNS, has as many candles as
the manager's list `spec = M.spec stream`, candle `j` stores a number `o j`, `o 0` is the rounded first volume, and for
every candle `j ≥ 1` with `δ j ∈ {0, +volume j, −volume j}` (sign of the close change on the manager's candles):
`o j = round(o (j−1) + δ j, n)` – the step is added to the PREVIOUS STORED reading – hence
`|o j − o (j−1) − δ j| ≤ ε_n = 1/(2·10ⁿ)` (ONE rounding, not accumulating), and `o j = o (j−1)` exactly when `δ j = 0`. -/
theorem obv_live_moves (M : MgrSpec K) (nm : String) (n : Nat) (hk : IsKey nm)
    (init : List (Candle K)) (chunks : List (List (Candle K))) (hok : M.Ok (init ++ chunks.flatten)) :
    ∃ (snap : List (Candle K)) (o : Nat → K),
      candlesOf (runIndicator (mkTop (.obv : Kind K) nm n) M.cfg init chunks) = .ok snap ∧
      snap.length = (M.spec (init ++ chunks.flatten)).length ∧
      (∀ j, j < (M.spec (init ++ chunks.flatten)).length →
        ∃ t : Num K, readingByCandle (snap.getD j default) nm = .num t ∧ t.toF = o j) ∧
      o 0 = PyF.round n (fieldAt (·.v) (M.spec (init ++ chunks.flatten)) 0) ∧
      ∀ j, 1 ≤ j →
        let δ := obvDelta (fieldAt (·.c) (M.spec (init ++ chunks.flatten))) (fieldAt (·.v) (M.spec (init ++ chunks.flatten))) j
        (δ = 0 ∨ δ = fieldAt (·.v) (M.spec (init ++ chunks.flatten)) j ∨
          δ = -fieldAt (·.v) (M.spec (init ++ chunks.flatten)) j) ∧
        o j = PyF.round n (o (j - 1) + δ) ∧ |o j - o (j - 1) - δ| ≤ eps K n ∧ (δ = 0 → o j = o (j - 1)) := by
  obtain ⟨snap, h1, h2, h3⟩ := (obv_holds M nm n hk).run init chunks hok
  refine ⟨snap, obvStored n (fieldAt (·.c) (M.spec (init ++ chunks.flatten))) (fieldAt (·.v) (M.spec (init ++ chunks.flatten))),
    h1, h2, h3, rfl, fun j hj => ?_⟩
  obtain ⟨i, rfl⟩ : ∃ i, j = i + 1 := ⟨j - 1, by omega⟩
  simp only [Nat.add_sub_cancel]
  exact ⟨obvDelta_cases _ _ _, rfl, (obvStored_step n _ _ i).1, (obvStored_step n _ _ i).2⟩

/-- **… exactly, when the volumes have at most `n` decimals** (Python ints, or floats on the `n`-decimal grid): every
stored step is EXACTLY `0`, `+volume` or `−volume`: `o j − o (j−1) = δ j` for every candle `j ≥ 1` of the run. -/
theorem obv_live_moves_exact (M : MgrSpec K) (nm : String) (n : Nat) (hk : IsKey nm)
    (init : List (Candle K)) (chunks : List (List (Candle K))) (hok : M.Ok (init ++ chunks.flatten))
    (hgrid : ∀ c ∈ M.spec (init ++ chunks.flatten), OnGrid n c.v.toF) :
    ∃ (snap : List (Candle K)) (o : Nat → K),
      candlesOf (runIndicator (mkTop (.obv : Kind K) nm n) M.cfg init chunks) = .ok snap ∧
      snap.length = (M.spec (init ++ chunks.flatten)).length ∧
      (∀ j, j < (M.spec (init ++ chunks.flatten)).length →
        ∃ t : Num K, readingByCandle (snap.getD j default) nm = .num t ∧ t.toF = o j) ∧
      ∀ j, 1 ≤ j → j < (M.spec (init ++ chunks.flatten)).length →
        o j - o (j - 1) = obvDelta (fieldAt (·.c) (M.spec (init ++ chunks.flatten)))
          (fieldAt (·.v) (M.spec (init ++ chunks.flatten))) j ∧
        (o j - o (j - 1) = 0 ∨ o j - o (j - 1) = fieldAt (·.v) (M.spec (init ++ chunks.flatten)) j ∨
          o j - o (j - 1) = -fieldAt (·.v) (M.spec (init ++ chunks.flatten)) j) := by
  obtain ⟨snap, h1, h2, h3⟩ := (obv_holds M nm n hk).run init chunks hok
  refine ⟨snap, obvStored n (fieldAt (·.c) (M.spec (init ++ chunks.flatten))) (fieldAt (·.v) (M.spec (init ++ chunks.flatten))),
    h1, h2, h3, fun j hj hjl => ?_⟩
  have hv : ∀ i, i < (M.spec (init ++ chunks.flatten)).length →
      OnGrid n (fieldAt (·.v) (M.spec (init ++ chunks.flatten)) i) := by
    intro i hi
    unfold fieldAt
    rw [List.getD_eq_getElem?_getD, List.getElem?_eq_getElem hi]
    exact hgrid _ (List.getElem_mem hi)
  have e := (obvStored_exact n (fieldAt (·.c) (M.spec (init ++ chunks.flatten))) _ _ hv j hjl).2 hj
  exact ⟨e, e ▸ obvDelta_cases _ _ _⟩

end obv

/-! ### Aroon oscillator = up − down, Donchian middle = mean of the bounds: on the STORED values, whole runs -/
section identities
variable {K : Type} [Field K] [LinearOrder K] [IsStrictOrderedRing K] [LawfulPyF K]

/-- **Aroon, from the warm-up index `p` on**: the three stored floats are the roundings of `U`, `D` and `U − D`
(`U`, `D` the unrounded `100·(p − bars)/p`): the oscillator is computed from the UNROUNDED up / down, so on the stored
values `AROONOSC = AROONU − AROOND` holds within `3·ε_n`, and exactly when `U`, `D` have at most `n` decimals -/
def AroonOscIn (p n : Nat) (nm : String) (spec : List (Candle K)) (j : Nat) (c : Candle K) : Prop :=
  p ≤ j → ∃ u d o U D : K, (readingByCandle c nm).nested "AROONU" = .flt u ∧
    (readingByCandle c nm).nested "AROOND" = .flt d ∧ (readingByCandle c nm).nested "AROONOSC" = .flt o ∧
    U = aroonOf p (hiBar (fieldAt (·.h) spec) j p) ∧ D = aroonOf p (loBar (fieldAt (·.l) spec) j p) ∧
    u = PyF.round n U ∧ d = PyF.round n D ∧ o = PyF.round n (U - D) ∧
    |o - (u - d)| ≤ 3 * eps K n ∧ (OnGrid n U → OnGrid n D → o = u - d)

theorem aroon_osc_holds (M : MgrSpec K) (p : Nat) (hp : 1 ≤ p) (nm : String) (n : Nat) (hk : IsKey nm) :
    HoldsOn M (mkTop (.aroon p : Kind K) nm n) (fun spec j c => AroonOscIn p n nm spec j c) :=
  leaf_holdsOn _ nm n (Covered.aroon (p : Int) (by omega)) _ (fun raw hraw => by
    obtain ⟨vs, hl, hrun, hall⟩ := aroon_series p hp nm n raw hraw
    refine ⟨_, hrun, deco_length nm raw vs hl, fun j hj hjp => ?_⟩
    rw [own_deco nm hk raw vs hl j hj, (hall j hj).2 hjp]
    refine ⟨_, _, _, _, _, rfl, rfl, rfl, rfl, rfl, rfl, rfl, rfl, ?_, fun hU hD => ?_⟩
    · generalize (aroonOf p (hiBar (fieldAt (·.h) raw) j p) : K) = U
      generalize (aroonOf p (loBar (fieldAt (·.l) raw) j p) : K) = D
      have e1 := LawfulPyF.round_err (K := K) n U
      have e2 := LawfulPyF.round_err (K := K) n D
      have e3 := LawfulPyF.round_err (K := K) n (U - D)
      rw [abs_le] at e1 e2 e3 ⊢
      constructor <;> linarith
    · have hUD : OnGrid n (aroonOf p (hiBar (fieldAt (·.h) raw) j p) - aroonOf p (loBar (fieldAt (·.l) raw) j p) : K) := by
        simpa [sub_eq_add_neg] using hU.add hD.neg
      rw [hU.round, hD.round, hUD.round]) M

/-- **Donchian, from the warm-up index `p − 1` on**: `DCL`, `DCU` are the (type-preserving) roundings of the window's
lowest low `L` / highest high `H`, `DCM` is the rounding of the mean of the UNROUNDED bounds; so on the stored values
`DCM = (DCL + DCU)/2` holds within `2·ε_n`, and within `ε_n` (one rounding) when the bounds have at most `n` decimals
(Python ints) -/
def DcMidIn (p n : Nat) (nm : String) (spec : List (Candle K)) (j : Nat) (c : Candle K) : Prop :=
  p ≤ j + 1 → ∃ (lo up : Num K) (mid L H : K),
    readingByCandle c nm = .dict [("DCL", .num lo), ("DCM", .num (.flt mid)), ("DCU", .num up)] ∧
    L = winMin (fieldAt (·.l) spec) j (p - 1) ∧ H = winMax (fieldAt (·.h) spec) j (p - 1) ∧
    lo.toF = PyF.round n L ∧ up.toF = PyF.round n H ∧ mid = PyF.round n ((H + L) / 2) ∧
    |mid - (lo.toF + up.toF) / 2| ≤ 2 * eps K n ∧
    (OnGrid n L → OnGrid n H → mid = PyF.round n ((lo.toF + up.toF) / 2) ∧ |mid - (lo.toF + up.toF) / 2| ≤ eps K n)

theorem donchian_mid_holds (M : MgrSpec K) (p : Nat) (hp : 2 ≤ p) (nm : String) (n : Nat) (hn : DcNames nm) :
    HoldsOn M (mkTop (.donchian p : Kind K) nm n) (fun spec j c => DcMidIn p n nm spec j c) :=
  leaf_holdsOn _ nm n (Covered.donchian (p : Int) (by omega)) _ (fun raw hraw => by
    obtain ⟨vs, hl, hrun, hall⟩ := donchian_series p hp nm n hn raw hraw
    refine ⟨_, hrun, deco_length nm raw vs hl, fun j hj hjp => ?_⟩
    rw [own_deco nm hn.key raw vs hl j hj]
    obtain ⟨kl, kh, _, _, hv, hL, hH⟩ := (hall j hj).2 hjp
    have hL' : ((numAt (·.l) raw kl).roundBy n).toF = PyF.round n (winMin (fieldAt (·.l) raw) j (p - 1)) := by
      rw [stored_toF, hL]; rfl
    have hH' : ((numAt (·.h) raw kh).roundBy n).toF = PyF.round n (winMax (fieldAt (·.h) raw) j (p - 1)) := by
      rw [stored_toF, hH]; rfl
    have hm : ((numAt (·.h) raw kh).toF + (numAt (·.l) raw kl).toF) / 2
        = (winMax (fieldAt (·.h) raw) j (p - 1) + winMin (fieldAt (·.l) raw) j (p - 1)) / 2 := by
      rw [hL, hH]; rfl
    refine ⟨_, _, _, _, _, hv, rfl, rfl, hL', hH', by rw [hm], ?_, fun gL gH => ?_⟩
    · rw [hL', hH', hm]
      generalize winMax (fieldAt (·.h) raw) j (p - 1) = H
      generalize winMin (fieldAt (·.l) raw) j (p - 1) = L
      have e1 := LawfulPyF.round_err (K := K) n L
      have e2 := LawfulPyF.round_err (K := K) n H
      have e3 := LawfulPyF.round_err (K := K) n ((H + L) / 2)
      rw [abs_le] at e1 e2 e3 ⊢
      constructor <;> linarith
    · rw [hL', hH', hm, gL.round, gH.round, add_comm (winMin _ _ _)]
      exact ⟨rfl, LawfulPyF.round_err n _⟩) M

/-- the three invariants on the Heikin-Ashi managers `{ha}`, `{tf, ha}`, `{tf, fill, ha}` (`HoldsOnHA.unfold`) -/
theorem obv_ha (nm : String) (n : Nat) (hk : IsKey nm) :
    HoldsOnHA (mkTop (.obv : Kind K) nm n) (fun spec j c => ObvIn n nm spec j c) :=
  HoldsOnHA.of_all fun M => obv_holds M nm n hk

theorem aroon_osc_ha (p : Nat) (hp : 1 ≤ p) (nm : String) (n : Nat) (hk : IsKey nm) :
    HoldsOnHA (mkTop (.aroon p : Kind K) nm n) (fun spec j c => AroonOscIn p n nm spec j c) :=
  HoldsOnHA.of_all fun M => aroon_osc_holds M p hp nm n hk

theorem donchian_mid_ha (p : Nat) (hp : 2 ≤ p) (nm : String) (n : Nat) (hn : DcNames nm) :
    HoldsOnHA (mkTop (.donchian p : Kind K) nm n) (fun spec j c => DcMidIn p n nm spec j c) :=
  HoldsOnHA.of_all fun M => donchian_mid_holds M p hp nm n hn

/-- **Aroon oscillator = up − down, whole runs** (unfolded for one history) -/
theorem aroon_live_osc (M : MgrSpec K) (p : Nat) (hp : 1 ≤ p) (nm : String) (n : Nat) (hk : IsKey nm)
    (init : List (Candle K)) (chunks : List (List (Candle K))) (hok : M.Ok (init ++ chunks.flatten)) :
    ∃ snap, candlesOf (runIndicator (mkTop (.aroon p : Kind K) nm n) M.cfg init chunks) = .ok snap ∧
      snap.length = (M.spec (init ++ chunks.flatten)).length ∧
      ∀ j, j < (M.spec (init ++ chunks.flatten)).length → p ≤ j →
        ∃ u d o : K, (readingByCandle (snap.getD j default) nm).nested "AROONU" = .flt u ∧
          (readingByCandle (snap.getD j default) nm).nested "AROOND" = .flt d ∧
          (readingByCandle (snap.getD j default) nm).nested "AROONOSC" = .flt o ∧ |o - (u - d)| ≤ 3 * eps K n := by
  obtain ⟨snap, h1, h2, h3⟩ := (aroon_osc_holds M p hp nm n hk).run init chunks hok
  refine ⟨snap, h1, h2, fun j hj hjp => ?_⟩
  obtain ⟨u, d, o, _, _, a1, a2, a3, _, _, _, _, _, a4, _⟩ := h3 j hj hjp
  exact ⟨u, d, o, a1, a2, a3, a4⟩

/-- **Donchian middle = mean of the bounds, whole runs** (unfolded for one history) -/
theorem donchian_live_mid (M : MgrSpec K) (p : Nat) (hp : 2 ≤ p) (nm : String) (n : Nat) (hn : DcNames nm)
    (init : List (Candle K)) (chunks : List (List (Candle K))) (hok : M.Ok (init ++ chunks.flatten)) :
    ∃ snap, candlesOf (runIndicator (mkTop (.donchian p : Kind K) nm n) M.cfg init chunks) = .ok snap ∧
      snap.length = (M.spec (init ++ chunks.flatten)).length ∧
      ∀ j, j < (M.spec (init ++ chunks.flatten)).length → p ≤ j + 1 →
        ∃ (lo up : Num K) (mid : K),
          readingByCandle (snap.getD j default) nm
            = .dict [("DCL", .num lo), ("DCM", .num (.flt mid)), ("DCU", .num up)] ∧
          |mid - (lo.toF + up.toF) / 2| ≤ 2 * eps K n := by
  obtain ⟨snap, h1, h2, h3⟩ := (donchian_mid_holds M p hp nm n hn).run init chunks hok
  refine ⟨snap, h1, h2, fun j hj hjp => ?_⟩
  obtain ⟨lo, up, mid, _, _, a1, _, _, _, _, _, a2, _⟩ := h3 j hj hjp
  exact ⟨lo, up, mid, a1, a2⟩

end identities

/-! ### non-vacuity -/
section demo

theorem roundIdem_lawful (K : Type) [Field K] [LinearOrder K] [IsStrictOrderedRing K] [LawfulPyF K] : RoundIdem K :=
  fun n x => LawfulPyF.round_idem n x

/-- the toy carrier does not round at all -/
theorem roundIdem_int : RoundIdem Int := fun _ _ => rfl

theorem macdCovQ : CoveredTreeX (F := ℚ) "MACD_2_3_2"
    (.macd ((2 : Nat) : Int) ((3 : Nat) : Int) ((2 : Nat) : Int) "close") :=
  .macd _ _ _ "close" (by decide) (by decide) (by decide) macdNames_demo ⟨noDot_close, by decide⟩

/-- ℚ, MACD(2, 3, 2) with `round_value = 2` on a two-minute timeframe WITH gap filling AND Heikin-Ashi conversion, fed
one candle at a time: the history returns, every stored own reading is a fixed point of `round_values(·, 2)` (each of
`MACD`, `signal`, `histogram` that is a float is a fixed point of `round(·, 2)`), and the three helper series are fixed
points of `round_values(·, 4)` -/
example : ∃ snap, candlesOf (runIndicator
      (mkTop (.macd ((2 : Nat) : Int) ((3 : Nat) : Int) ((2 : Nat) : Int) "close" : Kind ℚ) "MACD_2_3_2" 2)
      { tf := some 120, fill := true, ha := true } [] (haStamped.map fun c => [c])) = .ok snap ∧
    (∀ c ∈ snap, RoundedAt "MACD_2_3_2" 2 c) ∧
    (∀ c ∈ snap, ∀ y : ℚ, readingByCandle c "MACD_2_3_2.histogram" = .flt y → Rounded 2 y) ∧
    AllStored "MACD_2_3_2_signal_line" (RoundedVal 4) snap := by
  obtain ⟨snap, hs⟩ := (macd_live_total (MgrSpec.fillHA ℚ 120 (by decide)) "MACD_2_3_2" 2 2 3 2 "close" (·.c)
    (by norm_num) (by norm_num) (by norm_num) macdNames_demo ⟨noDot_close, by decide⟩ (fun _ => rfl)).1 []
    (haStamped.map fun c => [c]) haStamped_ok
  have h1 := every_stored_reading_rounded (roundIdem_lawful ℚ) (MgrSpec.fillHA ℚ 120 (by decide)) _ "MACD_2_3_2" 2
    macdCovQ (by decide) [] (haStamped.map fun c => [c]) haStamped_ok snap hs
  have h2 := macd_helpers_rounded (roundIdem_lawful ℚ) (MgrSpec.fillHA ℚ 120 (by decide)) _ _ _ "close" "MACD_2_3_2" 2
    macdCovQ [] (haStamped.map fun c => [c]) haStamped_ok snap hs
  exact ⟨snap, hs, h1, fun c hc y hy => (h1 c hc).2.2.2 "histogram" y (by decide) hy, h2.2.2⟩

private def mkI' (o h l c v t : Int) : Candle Int :=
  { o := .int o, h := .int h, l := .int l, c := .int c, v := .int v, ts := some t }

/-- `Int` (the toy carrier): ADX(3, 2) – a prior ATR tree, a `Managed` data holder with two non-prior RMA children, a
managed RMA driven by `calculate_index` – on timeframe + fill + Heikin-Ashi, three appends: the run returns `.ok` … -/
example : ((candlesOf (runIndicator (mkTop (.adx 3 2) "ADX_3_2" 4 : Ind Int)
    (cfgFillHA 120) (haIntStream.take 1) [haIntStream.drop 1 |>.take 2, [], haIntStream.drop 3])).toOption.map
      (·.map fun c => c.ts)) = some [some 120, some 240, some 360, some 480, some 600] := by decide +kernel

/-- … and the theorem applies to it: hypotheses satisfiable over `Int` -/
example (snap : List (Candle Int))
    (hs : candlesOf (runIndicator (mkTop (.adx 3 2) "ADX_3_2" 4 : Ind Int)
      (cfgFillHA 120) (haIntStream.take 1) [haIntStream.drop 1 |>.take 2, [], haIntStream.drop 3]) = .ok snap) :
    ∀ c ∈ snap, RoundedAt "ADX_3_2" 4 c :=
  every_stored_reading_rounded roundIdem_int (MgrSpec.fillHA Int 120 (by decide)) _ "ADX_3_2" 4 adxDemoOK (by decide)
    (haIntStream.take 1) [haIntStream.drop 1 |>.take 2, [], haIntStream.drop 3] haIntStream_ok snap hs

/-- the engine-level invariant on a concrete tree over `Int`: the MACD tree is `Safe` for its own name and round -/
example : Safe "MACD_2_3_2" 7 (mkTop (.macd 2 3 2 "close") "MACD_2_3_2" 7 : Ind Int) :=
  safe_of_nodup (macdDemoOK.twinOK 7).nodup (mkTop_wellManaged _ _ _) (mkTop_macdTop _ _ _) _ (Ind.self_mem_nodes _) rfl

open Numeric in
/-- ℚ, OBV on timeframe + gap filling + Heikin-Ashi, fed one candle at a time: the history returns and every step of
the stored series is the rounding of "previous stored + (0 | +volume | −volume)" -/
example : ∃ (snap : List (Candle ℚ)) (o : Nat → ℚ),
    candlesOf (runIndicator (mkTop (.obv : Kind ℚ) "OBV" 4) { tf := some 120, fill := true, ha := true } []
      (haStamped.map fun c => [c])) = .ok snap ∧
    ∀ j, 1 ≤ j → |o j - o (j - 1) - obvDelta (fieldAt (·.c) (haSpec (fillSpec 120 haStamped)))
      (fieldAt (·.v) (haSpec (fillSpec 120 haStamped))) j| ≤ eps ℚ 4 := by
  obtain ⟨snap, o, h1, _, _, _, h5⟩ := obv_live_moves (MgrSpec.fillHA ℚ 120 (by decide)) "OBV" 4 (by decide) []
    (haStamped.map fun c => [c]) haStamped_ok
  exact ⟨snap, o, h1, fun j hj => (h5 j hj).2.2.1⟩

theorem onGrid_int_num {K : Type} [Field K] [LinearOrder K] [IsStrictOrderedRing K] [LawfulPyF K] (n : Nat) (i : Int) :
    Numeric.OnGrid n ((Num.int i : Num K).toF) := by
  show Numeric.OnGrid n (PyF.ofInt i : K)
  rw [LawfulPyF.ofInt_eq]; exact Numeric.OnGrid.int n i

open Numeric in
/-- ℚ, OBV on the base timeframe over the five demo candles (integer volumes 100 200 300 0 0), two at construction,
then one, then two: every stored step is EXACTLY `0`, `+volume` or `−volume` -/
example : ∃ (snap : List (Candle ℚ)) (o : Nat → ℚ),
    candlesOf (runIndicator (mkTop (.obv : Kind ℚ) "OBV" 4) {} (rsiDemoRaw.take 2)
      [[rsiDemoRaw.getD 2 default], rsiDemoRaw.drop 3]) = .ok snap ∧
    ∀ j, 1 ≤ j → j < 5 → (o j - o (j - 1) = 0 ∨ o j - o (j - 1) = fieldAt (·.v) rsiDemoRaw j ∨
      o j - o (j - 1) = -fieldAt (·.v) rsiDemoRaw j) := by
  have e : rsiDemoRaw.take 2 ++ [[rsiDemoRaw.getD 2 default], rsiDemoRaw.drop 3].flatten = rsiDemoRaw := by
    simp [rsiDemoRaw]
  obtain ⟨snap, o, h1, _, _, h4⟩ := obv_live_moves_exact (MgrSpec.base ℚ) "OBV" 4 (by decide) (rsiDemoRaw.take 2)
    [[rsiDemoRaw.getD 2 default], rsiDemoRaw.drop 3] (by rw [e]; exact rsiDemoRaw_plain) (by
      rw [e]
      intro c hc
      simp only [MgrSpec.base, id, rsiDemoRaw, List.mem_cons, List.not_mem_nil, or_false] at hc
      rcases hc with rfl | rfl | rfl | rfl | rfl <;> exact onGrid_int_num 4 _)
  rw [e] at h4
  exact ⟨snap, o, h1, fun j hj hj5 => (h4 j hj hj5).2⟩

open Numeric in
/-- ℚ, Aroon(2) and Donchian(3) on base timeframe + Heikin-Ashi: the identities on the stored values -/
example : (∃ snap, candlesOf (runIndicator (mkTop (.aroon ((2 : Nat) : Int) : Kind ℚ) "AROON_2" 4) { ha := true }
      haStamped []) = .ok snap ∧
      ∃ u d o : ℚ, (readingByCandle (snap.getD 4 default) "AROON_2").nested "AROONU" = .flt u ∧
        (readingByCandle (snap.getD 4 default) "AROON_2").nested "AROOND" = .flt d ∧
        (readingByCandle (snap.getD 4 default) "AROON_2").nested "AROONOSC" = .flt o ∧ |o - (u - d)| ≤ 3 * eps ℚ 4) ∧
    (∃ snap, candlesOf (runIndicator (mkTop (.donchian ((3 : Nat) : Int) : Kind ℚ) "DONCHIAN_3" 4) { ha := true }
      haStamped []) = .ok snap ∧
      ∃ (lo up : Num ℚ) (mid : ℚ), readingByCandle (snap.getD 4 default) "DONCHIAN_3"
          = .dict [("DCL", .num lo), ("DCM", .num (.flt mid)), ("DCU", .num up)] ∧
        |mid - (lo.toF + up.toF) / 2| ≤ 2 * eps ℚ 4) := by
  constructor
  · obtain ⟨snap, h1, _, h3⟩ := aroon_live_osc (MgrSpec.ha ℚ) 2 (by norm_num) "AROON_2" 4 (by decide) haStamped []
      haStamped_plain
    exact ⟨snap, h1, h3 4 (by simp [MgrSpec.ha, haSpec_length, haStamped]) (by norm_num)⟩
  · obtain ⟨snap, h1, _, h3⟩ := donchian_live_mid (MgrSpec.ha ℚ) 3 (by norm_num) "DONCHIAN_3" 4 dcNames_demo haStamped []
      haStamped_plain
    exact ⟨snap, h1, h3 4 (by simp [MgrSpec.ha, haSpec_length, haStamped]) (by norm_num)⟩

end demo
end Numeric
end Hex

#print axioms Hex.engineRounded
#print axioms Hex.TreeSpec.stored_rounded
#print axioms Hex.safe_of_nodup
#print axioms Hex.every_stored_reading_rounded
#print axioms Hex.every_helper_reading_rounded
#print axioms Hex.macd_helpers_rounded
#print axioms Hex.data_not_rounded
#print axioms Hex.Numeric.obv_stored_series
#print axioms Hex.Numeric.obv_holds
#print axioms Hex.Numeric.obv_live_moves
#print axioms Hex.Numeric.obv_live_moves_exact
#print axioms Hex.Numeric.aroon_osc_holds
#print axioms Hex.Numeric.donchian_mid_holds
#print axioms Hex.Numeric.aroon_live_osc
#print axioms Hex.Numeric.donchian_live_mid
